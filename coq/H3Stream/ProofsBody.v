(** The body (http3/body.go, repaired code): Content-Length accounting.
    too much data => errTooMuchData; too little => io.ErrUnexpectedEOF (unless the message
    never carries content: response to HEAD, 1xx / 204 / 304). *)
From Coq Require Import List ZArith Bool Lia.
From V Require Import Gen.Params Lib.Hex Wire.Varint Wire.VarintProofs
  H3Stream.Model H3Stream.Proofs H3Stream.ProofsStream H3Stream.ProofsExact.
Import ListNotations.
Open Scope Z_scope.

Definition binv (b : body) (cur : list Z) (fs : list wframe) : Prop :=
  b_has b = true /\ b_violated b = false /\ b_cancels b = [] /\ 0 <= b_rem b /\ sinv (b_str b) cur fs.

Definition reset_both : list (Z * Z) := [(0, h3ErrCodeMessageError); (1, h3ErrCodeMessageError)].

Lemma check_cl_quiet (b : body) (cur : list Z) (fs : list wframe) :
  binv b cur fs -> (b_rem b = 0 -> cur = []) -> check_cl b = (None, b).
Proof.
  intros (Hh & Hv & Hc & Hr & (Hx & _)) H0. unfold check_cl. rewrite Hh. cbn [negb].
  destruct (Z.ltb_spec (b_rem b) 0); [lia|]. cbn [orb].
  destruct (Z.eqb_spec (b_rem b) 0) as [E|E]; [|reflexivity].
  rewrite Hx, (H0 E). reflexivity.
Qed.

Lemma check_cl_fires (b : body) (cur : list Z) (fs : list wframe) :
  binv b cur fs -> b_rem b = 0 -> cur <> [] ->
  exists b', check_cl b = (Some ETooMuchData, b') /\ b_cancels b' = reset_both /\ b_violated b' = true /\
             b_str b' = b_str b.
Proof.
  intros (Hh & Hv & Hc & Hr & (Hx & _)) H0 Hne. unfold check_cl, reset_message_error.
  rewrite Hh, H0, Hx, Hv, Hc. cbn.
  assert (0 < zlen cur) by (destruct cur; [congruence|unfold zlen; simpl; lia]).
  destruct (Z.ltb_spec 0 (zlen cur)); [|lia]. eexists. split; [reflexivity|]. auto.
Qed.

Lemma binv_mk (x : stream) (r : Z) (nc : bool) (cur : list Z) (fs : list wframe) :
  0 <= r -> sinv x cur fs -> binv (mkBody x r true false [] nc) cur fs.
Proof. intros. repeat split; cbn; auto; apply H0. Qed.

Definition bdlen (b : body) : nat := dlen (b_str b).

(** One body.Read when MORE payload remains than the Content-Length allows. *)
Lemma body_read_over_step (b : body) (cur : list Z) (fs : list wframe) (blen : Z) :
  binv b cur fs -> b_rem b < zlen (cur ++ payload fs) ->
  exists out e b',
    body_read b blen = (out, e, b') /\
    ((e = None /\ exists cur' fs', binv b' cur' fs' /\ b_rem b' < zlen (cur' ++ payload fs') /\
                   cur ++ payload fs = out ++ cur' ++ payload fs' /\ b_rem b' = b_rem b - zlen out /\
                   (0 < blen -> (bdlen b' < bdlen b)%nat))
     \/ (e = Some ETooMuchData /\ zlen out = b_rem b /\ (exists tl, cur ++ payload fs = out ++ tl) /\
         b_cancels b' = reset_both)).
Proof.
  intros Hinv Hover. pose proof Hinv as (Hh & Hv & Hc & Hr & Hs).
  destruct b as [x0 r0 h0 v0 c0' nc0]. cbn [b_str b_rem b_has b_violated b_cancels b_nocontent] in *. subst h0 v0 c0'.
  unfold body_read. cbn [b_str b_rem b_has b_violated b_cancels b_nocontent].
  destruct (Z.eq_dec r0 0) as [E0|E0]; [destruct cur as [|c0 cur0]|].
  - (* nothing owed, no frame open: the next frame decides *)
    subst r0. rewrite (check_cl_quiet _ [] fs Hinv) by auto.
    destruct (stream_read_step x0 [] fs (Z.min blen 0) Hs)
      as (out & e & x1 & cur1 & fs1 & Hrd & Hcase & Hpay & Hlen & Hq & Hprog & Hdl & _).
    rewrite Hrd. cbv beta iota. assert (Hout : out = []) by (apply zlen_nil_inv; lia). subst out.
    destruct Hcase as [[-> Hinv1]|(-> & -> & -> & Hinv1)].
    + change (zlen (@nil Z)) with 0. rewrite Z.sub_0_r.
      set (b1 := mkBody x1 0 true false [] nc0).
      assert (Hb1 : binv b1 cur1 fs1) by (apply binv_mk; auto; lia).
      destruct cur1 as [|c1 cur1'].
      * rewrite (check_cl_quiet b1 [] fs1 Hb1) by auto. cbn [oerr_is_eof andb option_map].
        exists [], None, b1. split; [reflexivity|]. left. split; [reflexivity|].
        exists [], fs1. split; [exact Hb1|]. cbn [app] in *. rewrite <- Hpay.
        split; [cbn; lia|]. split; [reflexivity|]. split; [cbn; lia|].
        intros _. unfold bdlen. cbn. apply Hprog; auto.
      * destruct (check_cl_fires b1 (c1 :: cur1') fs1 Hb1 eq_refl ltac:(discriminate)) as (b2 & Hc2 & Hcc & _).
        rewrite Hc2. exists [], (Some ETooMuchData), b2. split; [reflexivity|]. right.
        split; [reflexivity|]. split; [unfold zlen; simpl; lia|]. split; [|exact Hcc].
        eexists. reflexivity.
    + exfalso. cbn [app] in Hpay. rewrite Hpay in Hover. unfold zlen in Hover. cbn in Hover. lia.
  - (* nothing owed but a DATA frame is open: violation *)
    destruct (check_cl_fires _ (c0 :: cur0) fs Hinv E0 ltac:(discriminate)) as (b2 & Hc2 & Hcc & _).
    rewrite Hc2. exists [], (Some ETooMuchData), b2. split; [reflexivity|]. right.
    split; [reflexivity|]. split; [unfold zlen; simpl; lia|]. split; [|exact Hcc].
    eexists. reflexivity.
  - rewrite (check_cl_quiet _ cur fs Hinv) by (cbn; intros; lia).
    destruct (stream_read_step x0 cur fs (Z.min blen r0) Hs)
      as (out & e & x1 & cur1 & fs1 & Hrd & Hcase & Hpay & Hlen & Hq & Hprog & Hdl & _).
    rewrite Hrd. cbv beta iota.
    assert (Hol : zlen out <= r0) by lia.
    destruct Hcase as [[-> Hinv1]|(-> & -> & -> & Hinv1)].
    + set (b1 := mkBody x1 (r0 - zlen out) true false [] nc0).
      assert (Hb1 : binv b1 cur1 fs1) by (apply binv_mk; auto; lia).
      assert (Hrem1 : r0 - zlen out < zlen (cur1 ++ payload fs1)).
      { rewrite Hpay in Hover. rewrite zlen_app in Hover. lia. }
      destruct (Z.eq_dec (r0 - zlen out) 0) as [E1|E1]; [destruct cur1 as [|c1 cur1']|].
      * rewrite (check_cl_quiet b1 [] fs1 Hb1) by auto. cbn [oerr_is_eof andb option_map].
        exists out, None, b1. split; [reflexivity|]. left. split; [reflexivity|].
        exists [], fs1. split; [exact Hb1|]. split; [exact Hrem1|]. split; [exact Hpay|]. split; [reflexivity|].
        intros Hb. unfold bdlen. cbn. apply Hprog; auto. left. lia.
      * destruct (check_cl_fires b1 (c1 :: cur1') fs1 Hb1 E1 ltac:(discriminate)) as (b2 & Hc2 & Hcc & _).
        rewrite Hc2. exists out, (Some ETooMuchData), b2. split; [reflexivity|]. right.
        split; [reflexivity|]. split; [lia|]. split; [|exact Hcc]. eexists. exact Hpay.
      * rewrite (check_cl_quiet b1 cur1 fs1 Hb1) by (cbn; intros; lia). cbn [oerr_is_eof andb option_map].
        exists out, None, b1. split; [reflexivity|]. left. split; [reflexivity|].
        exists cur1, fs1. split; [exact Hb1|]. split; [exact Hrem1|]. split; [exact Hpay|]. split; [reflexivity|].
        intros Hb. unfold bdlen. cbn. apply Hprog; auto. left. lia.
    + exfalso. cbn [app] in Hpay. rewrite Hpay, app_nil_r in Hover. lia.
Qed.

Lemma body_reads_over : forall (bufs : list Z) (b : body) (cur : list Z) (fs : list wframe),
  binv b cur fs -> b_rem b < zlen (cur ++ payload fs) ->
  exists out e b' tl,
    body_reads b bufs = (out, e, b') /\
    cur ++ payload fs = out ++ tl /\
    ((e = None /\ zlen out <= b_rem b /\ b_cancels b' = []) \/
     (e = Some ETooMuchData /\ zlen out = b_rem b /\ b_cancels b' = reset_both)) /\
    (all_pos bufs -> (bdlen b < length bufs)%nat -> e = Some ETooMuchData).
Proof.
  induction bufs as [|n bufs IH]; intros b cur fs Hinv Hover.
  - exists [], None, b, (cur ++ payload fs). cbn. pose proof Hinv as (_ & _ & Hc & Hr & _).
    change (zlen (@nil Z)) with 0.
    split; [reflexivity|]. split; [reflexivity|]. split; [left; auto|]. intros _ H. lia.
  - destruct (body_read_over_step b cur fs n Hinv Hover) as (out & e & b1 & Hr & Hcase).
    cbn [body_reads]. rewrite Hr.
    destruct Hcase as [(-> & cur1 & fs1 & Hinv1 & Hover1 & Hpay & Hrem & Hprog)|(-> & Hlen & [tl Hpay] & Hcc)].
    + destruct (IH b1 cur1 fs1 Hinv1 Hover1) as (out2 & e2 & b2 & tl & Hr2 & Hpay2 & He2 & Hlive).
      rewrite Hr2. exists (out ++ out2), e2, b2, tl.
      split; [reflexivity|]. split; [rewrite Hpay, Hpay2, app_assoc; reflexivity|].
      split.
      { rewrite zlen_app. destruct He2 as [(-> & Hl & Hc2)|(-> & Hl & Hc2)]; [left|right]; repeat split; auto; lia. }
      intros Hpos Hl. inversion Hpos; subst. apply Hlive; [assumption|].
      specialize (Hprog ltac:(assumption)). cbn [length] in Hl. lia.
    + exists out, (Some ETooMuchData), b1, tl.
      split; [reflexivity|]. split; [exact Hpay|]. split; [right; auto|]. auto.
Qed.

(** One body.Read when the payload that remains does NOT exceed what is still owed. *)
Lemma body_read_le_step (b : body) (cur : list Z) (fs : list wframe) (blen : Z) :
  binv b cur fs -> zlen (cur ++ payload fs) <= b_rem b ->
  exists out e b',
    body_read b blen = (out, e, b') /\ b_rem b' = b_rem b - zlen out /\
    ((e = None /\ b_nocontent b' = b_nocontent b /\
      exists cur' fs', binv b' cur' fs' /\ zlen (cur' ++ payload fs') <= b_rem b' /\
                       cur ++ payload fs = out ++ cur' ++ payload fs' /\
                       (0 < blen -> (bdlen b' < bdlen b)%nat))
     \/ (e = Some EEOF /\ cur ++ payload fs = out /\ b_cancels b' = [] /\
         (b_rem b' = 0 \/ b_nocontent b = true))
     \/ (e = Some EUnexpectedEOF /\ cur ++ payload fs = out /\ b_cancels b' = reset_both /\
         0 < b_rem b' /\ b_nocontent b = false)).
Proof.
  intros Hinv Hle. pose proof Hinv as (Hh & Hv & Hc & Hr & Hs).
  destruct b as [x0 r0 h0 v0 c0' nc0]. cbn [b_str b_rem b_has b_violated b_cancels b_nocontent] in *. subst h0 v0 c0'.
  assert (Hcur0 : r0 = 0 -> cur = []).
  { intros E. rewrite zlen_app in Hle. pose proof (zlen_nonneg (payload fs)). apply zlen_nil_inv. lia. }
  unfold body_read. rewrite (check_cl_quiet _ cur fs Hinv Hcur0). cbn [b_str b_rem b_has b_violated b_cancels b_nocontent].
  destruct (stream_read_step x0 cur fs (Z.min blen r0) Hs)
    as (out & e & x1 & cur1 & fs1 & Hrd & Hcase & Hpay & Hlen & Hq & Hprog & Hdl & _).
  rewrite Hrd. cbv beta iota.
  assert (Hol : zlen out <= r0) by lia.
  set (b1 := mkBody x1 (r0 - zlen out) true false [] nc0).
  assert (Hle1 : zlen (cur1 ++ payload fs1) <= r0 - zlen out).
  { rewrite Hpay in Hle. rewrite zlen_app in Hle. lia. }
  assert (Hb1 : binv b1 cur1 fs1).
  { destruct Hcase as [[_ Hi]|(_ & -> & -> & Hi)]; apply binv_mk; auto; lia. }
  assert (Hq1 : check_cl b1 = (None, b1)).
  { apply (check_cl_quiet b1 cur1 fs1 Hb1). cbn. intros E. rewrite E in Hle1. rewrite zlen_app in Hle1.
    pose proof (zlen_nonneg (payload fs1)). apply zlen_nil_inv. lia. }
  rewrite Hq1.
  destruct Hcase as [[-> _]|(-> & -> & -> & _)].
  - cbn [oerr_is_eof andb option_map]. exists out, None, b1.
    split; [reflexivity|]. split; [reflexivity|]. left.
    split; [reflexivity|]. split; [reflexivity|]. exists cur1, fs1.
    split; [exact Hb1|]. split; [exact Hle1|]. split; [exact Hpay|].
    intros Hb. unfold bdlen. cbn. apply Hprog; [|reflexivity].
    destruct (Z.eq_dec r0 0) as [E|E]; [right; auto|left; lia].
  - cbn [app] in Hpay. rewrite app_nil_r in Hpay.
    cbn [oerr_is_eof is_eof andb option_map replace_error b_has b_rem b_nocontent b1].
    unfold b1. cbn [b_has b_rem b_nocontent andb].
    destruct (Z.ltb_spec 0 (r0 - zlen out)) as [Hpos|Hnp]; [destruct nc0|]; cbn [negb andb].
    + eexists out, (Some EEOF), _. split; [reflexivity|]. split; [reflexivity|]. right. left.
      split; [reflexivity|]. split; [exact Hpay|]. split; [reflexivity|]. right. reflexivity.
    + eexists out, (Some EUnexpectedEOF), _. split; [reflexivity|].
      unfold reset_message_error. cbn. split; [reflexivity|]. right. right.
      split; [reflexivity|]. split; [exact Hpay|]. split; [reflexivity|]. split; [exact Hpos|reflexivity].
    + eexists out, (Some EEOF), _. split; [reflexivity|]. split; [reflexivity|]. right. left.
      split; [reflexivity|]. split; [exact Hpay|]. split; [reflexivity|]. left. cbn.
      change (zlen ([] ++ payload [])) with 0 in Hle1. lia.
Qed.

Lemma body_reads_le : forall (bufs : list Z) (b : body) (cur : list Z) (fs : list wframe),
  binv b cur fs -> zlen (cur ++ payload fs) <= b_rem b ->
  exists out e b' tl,
    body_reads b bufs = (out, e, b') /\
    cur ++ payload fs = out ++ tl /\ b_rem b' = b_rem b - zlen out /\
    ((e = None /\ b_cancels b' = [])
     \/ (e = Some EEOF /\ tl = [] /\ b_cancels b' = [] /\ (b_rem b' = 0 \/ b_nocontent b = true))
     \/ (e = Some EUnexpectedEOF /\ tl = [] /\ b_cancels b' = reset_both /\ 0 < b_rem b' /\ b_nocontent b = false)) /\
    (all_pos bufs -> (bdlen b < length bufs)%nat -> e <> None).
Proof.
  induction bufs as [|n bufs IH]; intros b cur fs Hinv Hle.
  - exists [], None, b, (cur ++ payload fs). cbn. pose proof Hinv as (_ & _ & Hc & _).
    change (zlen (@nil Z)) with 0.
    split; [reflexivity|]. split; [reflexivity|]. split; [lia|]. split; [left; auto|]. intros _ H. lia.
  - destruct (body_read_le_step b cur fs n Hinv Hle) as (out & e & b1 & Hr & Hrem & Hcase).
    cbn [body_reads]. rewrite Hr.
    destruct Hcase as [(-> & Hnc & cur1 & fs1 & Hinv1 & Hle1 & Hpay & Hprog)|[(-> & Hpay & Hc & Hz)|(-> & Hpay & Hc & Hz & Hnc)]].
    + destruct (IH b1 cur1 fs1 Hinv1 Hle1) as (out2 & e2 & b2 & tl & Hr2 & Hpay2 & Hrem2 & He2 & Hlive).
      rewrite Hr2. exists (out ++ out2), e2, b2, tl.
      split; [reflexivity|]. split; [rewrite Hpay, Hpay2, app_assoc; reflexivity|].
      split; [rewrite zlen_app; lia|]. split.
      { rewrite Hnc in He2. exact He2. }
      intros Hpos Hl. inversion Hpos; subst. apply Hlive; [assumption|].
      specialize (Hprog ltac:(assumption)). cbn [length] in Hl. lia.
    + exists out, (Some EEOF), b1, [].
      split; [reflexivity|]. split; [rewrite app_nil_r; exact Hpay|]. split; [exact Hrem|].
      split; [right; left; auto|]. intros _ _. discriminate.
    + exists out, (Some EUnexpectedEOF), b1, [].
      split; [reflexivity|]. split; [rewrite app_nil_r; exact Hpay|]. split; [exact Hrem|].
      split; [right; right; auto|]. intros _ _. discriminate.
Qed.

Lemma new_body_binv (fs : list wframe) (sched : list Z) (fw : bool) (maxHdr cl : Z) (nc : bool) :
  Forall wf_frame fs -> 0 <= cl ->
  let b := new_body (new_stream (mkSrc (wire fs) sched EEOF fw) maxHdr) cl nc in
  binv b [] fs /\ b_rem b = cl /\ bdlen b = length (wire fs) /\ b_nocontent b = nc.
Proof.
  intros Hw Hcl. unfold new_body. destruct (Z.leb_spec 0 cl); [|lia].
  split; [|repeat split; reflexivity]. repeat split; auto.
Qed.

(** Body longer than declared: errTooMuchData after exactly the declared bytes, both
    directions reset with H3_MESSAGE_ERROR; never EOF, never more than declared. *)
Theorem content_length_over (fs : list wframe) (sched : list Z) (fw : bool) (maxHdr cl : Z) (nc : bool) (bufs : list Z) :
  Forall wf_frame fs -> 0 <= cl < zlen (payload fs) ->
  exists out e b' tl,
    body_reads (new_body (new_stream (mkSrc (wire fs) sched EEOF fw) maxHdr) cl nc) bufs = (out, e, b') /\
    payload fs = out ++ tl /\
    ((e = None /\ zlen out <= cl /\ b_cancels b' = []) \/
     (e = Some ETooMuchData /\ zlen out = cl /\ b_cancels b' = reset_both)) /\
    (all_pos bufs -> (length (wire fs) < length bufs)%nat -> e = Some ETooMuchData).
Proof.
  intros Hw Hcl. destruct (new_body_binv fs sched fw maxHdr cl nc Hw ltac:(lia)) as (Hinv & Hrem & Hdl & _).
  destruct (body_reads_over bufs _ [] fs Hinv) as (out & e & b' & tl & Hr & Hpay & He & Hlive).
  { rewrite Hrem. cbn [app]. lia. }
  rewrite Hrem in He. rewrite Hdl in Hlive. exists out, e, b', tl. cbn [app] in Hpay.
  split; [exact Hr|]. split; [exact Hpay|]. split; [exact He|]. exact Hlive.
Qed.

(** Body exactly as long as declared: exact delivery, clean EOF, nothing reset. *)
Theorem content_length_exact (fs : list wframe) (sched : list Z) (fw : bool) (maxHdr : Z) (nc : bool) (bufs : list Z) :
  Forall wf_frame fs ->
  exists out e b' tl,
    body_reads (new_body (new_stream (mkSrc (wire fs) sched EEOF fw) maxHdr) (zlen (payload fs)) nc) bufs = (out, e, b') /\
    payload fs = out ++ tl /\
    (e = None \/ (e = Some EEOF /\ tl = [])) /\
    b_cancels b' = [] /\
    (all_pos bufs -> (length (wire fs) < length bufs)%nat -> e = Some EEOF).
Proof.
  intros Hw. pose proof (zlen_nonneg (payload fs)) as Hnn.
  destruct (new_body_binv fs sched fw maxHdr (zlen (payload fs)) nc Hw Hnn) as (Hinv & Hrem & Hdl & _).
  destruct (body_reads_le bufs _ [] fs Hinv) as (out & e & b' & tl & Hr & Hpay & Hrm & He & Hlive).
  { rewrite Hrem. cbn [app]. lia. }
  rewrite Hrem in Hrm. rewrite Hdl in Hlive. cbn [app] in Hpay. exists out, e, b', tl.
  assert (Hno : ~ (e = Some EUnexpectedEOF /\ tl = [] /\ b_cancels b' = reset_both /\ 0 < b_rem b' /\ b_nocontent (new_body (new_stream (mkSrc (wire fs) sched EEOF fw) maxHdr) (zlen (payload fs)) nc) = false)).
  { intros (_ & -> & _ & Hp & _). rewrite app_nil_r in Hpay. apply (f_equal (@zlen Z)) in Hpay. lia. }
  split; [exact Hr|]. split; [exact Hpay|]. split.
  { destruct He as [[-> _]|[(-> & -> & _)|Hu]]; [left; auto|right; auto|tauto]. }
  split.
  { destruct He as [[_ Hc]|[(_ & _ & Hc & _)|Hu]]; [exact Hc|exact Hc|tauto]. }
  intros Hpos Hl. specialize (Hlive Hpos Hl).
  destruct He as [[-> _]|[(-> & _)|Hu]]; [congruence|reflexivity|tauto].
Qed.

(** C18_content_length_under, now TRUE of the repaired code: a body SHORTER than declared, in a
    message that is expected to carry content, is never ended by a clean EOF: the reads deliver
    exactly the bytes that arrived and then fail with io.ErrUnexpectedEOF, both directions
    reset once with H3_MESSAGE_ERROR. *)
Theorem content_length_under (fs : list wframe) (sched : list Z) (fw : bool) (maxHdr cl : Z) (bufs : list Z) :
  Forall wf_frame fs -> zlen (payload fs) < cl ->
  exists out e b' tl,
    body_reads (new_body (new_stream (mkSrc (wire fs) sched EEOF fw) maxHdr) cl false) bufs = (out, e, b') /\
    payload fs = out ++ tl /\
    ((e = None /\ b_cancels b' = []) \/
     (e = Some EUnexpectedEOF /\ tl = [] /\ b_cancels b' = reset_both)) /\
    e <> Some EEOF /\
    (all_pos bufs -> (length (wire fs) < length bufs)%nat -> e = Some EUnexpectedEOF).
Proof.
  intros Hw Hcl. pose proof (zlen_nonneg (payload fs)) as Hnn.
  destruct (new_body_binv fs sched fw maxHdr cl false Hw ltac:(lia)) as (Hinv & Hrem & Hdl & Hnc).
  destruct (body_reads_le bufs _ [] fs Hinv) as (out & e & b' & tl & Hr & Hpay & Hrm & He & Hlive).
  { rewrite Hrem. cbn [app]. lia. }
  rewrite Hrem in Hrm. rewrite Hdl in Hlive. rewrite Hnc in He. cbn [app] in Hpay. exists out, e, b', tl.
  assert (Hno : ~ (e = Some EEOF /\ tl = [] /\ b_cancels b' = [] /\ (b_rem b' = 0 \/ false = true))).
  { intros (_ & -> & _ & [Hz|Hf]); [|discriminate]. rewrite app_nil_r in Hpay. apply (f_equal (@zlen Z)) in Hpay. lia. }
  split; [exact Hr|]. split; [exact Hpay|]. split.
  { destruct He as [[-> Hc]|[Hu|(-> & -> & Hc & _)]]; [left; auto|tauto|right; auto]. }
  split.
  { destruct He as [[-> _]|[Hu|(-> & _)]]; [discriminate|tauto|discriminate]. }
  intros Hpos Hl. specialize (Hlive Hpos Hl).
  destruct He as [[-> _]|[Hu|(-> & _)]]; [congruence|tauto|reflexivity].
Qed.

(** Messages that never carry content (response to HEAD, 1xx / 204 / 304) may declare a
    Content-Length without delivering it: clean EOF, nothing reset. *)
Theorem content_length_no_content (fs : list wframe) (sched : list Z) (fw : bool) (maxHdr cl : Z) (bufs : list Z) :
  Forall wf_frame fs -> zlen (payload fs) <= cl ->
  exists out e b' tl,
    body_reads (new_body (new_stream (mkSrc (wire fs) sched EEOF fw) maxHdr) cl true) bufs = (out, e, b') /\
    payload fs = out ++ tl /\
    (e = None \/ (e = Some EEOF /\ tl = [])) /\
    b_cancels b' = [] /\
    (all_pos bufs -> (length (wire fs) < length bufs)%nat -> e = Some EEOF).
Proof.
  intros Hw Hcl. pose proof (zlen_nonneg (payload fs)) as Hnn.
  destruct (new_body_binv fs sched fw maxHdr cl true Hw ltac:(lia)) as (Hinv & Hrem & Hdl & Hnc).
  destruct (body_reads_le bufs _ [] fs Hinv) as (out & e & b' & tl & Hr & Hpay & Hrm & He & Hlive).
  { rewrite Hrem. cbn [app]. lia. }
  rewrite Hdl in Hlive. rewrite Hnc in He. cbn [app] in Hpay. exists out, e, b', tl.
  split; [exact Hr|]. split; [exact Hpay|]. split.
  { destruct He as [[-> _]|[(-> & -> & _)|(_ & _ & _ & _ & Hf)]]; [left; auto|right; auto|discriminate]. }
  split.
  { destruct He as [[_ Hc]|[(_ & _ & Hc & _)|(_ & _ & _ & _ & Hf)]]; [exact Hc|exact Hc|discriminate]. }
  intros Hpos Hl. specialize (Hlive Hpos Hl).
  destruct He as [[-> _]|[(-> & _)|(_ & _ & _ & _ & Hf)]]; [congruence|reflexivity|discriminate].
Qed.

(** Regression: the former refutation witness (Content-Length 5, one DATA frame "abc", clean
    end of stream) is now reported: "abc", then io.ErrUnexpectedEOF, both directions reset. *)
Definition under_witness_frames : list wframe := [WData [0] [3] [97; 98; 99]].

Lemma under_witness_wf : Forall wf_frame under_witness_frames.
Proof. repeat constructor; apply venc_1byte; lia. Qed.

Lemma content_length_under_witness_rejected :
  let '(out, e, b') := body_reads (new_body (new_stream (mkSrc (wire under_witness_frames) [] EEOF false) 1000) 5 false) [16; 16] in
  out = [97; 98; 99] /\ e = Some EUnexpectedEOF /\ b_cancels b' = reset_both /\ b_rem b' = 2.
Proof. vm_compute. auto. Qed.

(** * Whatever the stream does (truncated, garbage, reset): with a Content-Length, a clean EOF
    comes out of the body only after at least the declared number of bytes. *)
Lemma body_read_accounting (b : body) (blen : Z) (out : list Z) (e : option err) (b' : body) :
  body_read b blen = (out, e, b') ->
  b_rem b' = b_rem b - zlen out /\ b_has b' = b_has b /\ b_nocontent b' = b_nocontent b /\
  (e = Some EEOF -> b_has b = true -> b_nocontent b = false -> b_rem b - zlen out <= 0).
Proof.
  destruct b as [x r h v c nc]. unfold body_read, check_cl, reset_message_error.
  cbn [b_str b_rem b_has b_violated b_cancels b_nocontent].
  destruct h; cbn [negb].
  - destruct ((r <? 0) || ((r =? 0) && (0 <? x_rem x))) eqn:C1.
    + intros H. inversion H; subst. change (zlen (@nil Z)) with 0.
      destruct v; cbn; repeat split; try lia; intros; discriminate.
    + destruct (stream_read x (Z.min blen r)) as [[o e0] x1]. cbn [b_str b_rem b_has b_violated b_cancels b_nocontent].
      destruct ((r - zlen o <? 0) || ((r - zlen o =? 0) && (0 <? x_rem x1))) eqn:C2.
      * intros H. inversion H; subst. destruct v; cbn; repeat split; try lia; intros; discriminate.
      * destruct (oerr_is_eof e0 && true && (0 <? r - zlen o) && negb nc) eqn:C3.
        -- intros H. inversion H; subst. destruct v; cbn; repeat split; try lia; intros; discriminate.
        -- intros H. injection H as Ho He Hb. subst out b'. cbn. repeat split; try lia.
           intros Hee _ Hnc. subst nc e. destruct e0 as [e0|]; [|discriminate].
           destruct e0; try discriminate. cbn in C3. rewrite andb_true_r in C3.
           destruct (Z.ltb_spec 0 (r - zlen o)); [discriminate|lia].
  - destruct (stream_read x blen) as [[o e0] x1]. cbn. destruct (oerr_is_eof e0); cbn [andb];
    intros H; inversion H; subst; cbn; (split; [lia|]); (split; [reflexivity|]); (split; [reflexivity|]);
    intros _ Hf; discriminate Hf.
Qed.

Lemma body_reads_eof_complete : forall (bufs : list Z) (b : body) (out : list Z) (b' : body),
  body_reads b bufs = (out, Some EEOF, b') -> b_has b = true -> b_nocontent b = false ->
  b_rem b <= zlen out.
Proof.
  induction bufs as [|n bufs IH]; intros b out b' H Hh Hnc; [discriminate|].
  cbn [body_reads] in H. destruct (body_read b n) as [[o e] b1] eqn:Hr.
  destruct (body_read_accounting b n o e b1 Hr) as (Hrem & Hh1 & Hnc1 & Heof).
  destruct e as [e|].
  - inversion H; subst. specialize (Heof eq_refl Hh Hnc). lia.
  - destruct (body_reads b1 bufs) as [[o2 e2] b2] eqn:Hr2. inversion H; subst.
    specialize (IH b1 o2 b' Hr2 ltac:(congruence) ltac:(congruence)). rewrite zlen_app. lia.
Qed.

Theorem content_length_eof_only_when_complete (x : stream) (cl : Z) (bufs : list Z) (out : list Z) (b' : body) :
  0 <= cl -> body_reads (new_body x cl false) bufs = (out, Some EEOF, b') -> cl <= zlen out.
Proof.
  intros Hcl H. unfold new_body in H. destruct (Z.leb_spec 0 cl); [|lia].
  exact (body_reads_eof_complete bufs _ out b' H eq_refl eq_refl).
Qed.
