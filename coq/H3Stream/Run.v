(** Correspondence glue for units h3frames / h3stream: a case is what the Go harness logged
    from the real frameParser / Stream / body running over a scripted quic stream. *)
From Coq Require Import List ZArith Bool String.
From V Require Import Gen.Params Lib.Hex Wire.Varint H3Stream.Model H3Stream.Conn.
Import ListNotations.
Open Scope Z_scope.

Inductive op := ORead (n : Z) | OWrite (b : string).
Inductive opres := RRead (b : string) (e : Z * Z) | RWrite (n : Z) (e : Z * Z).
Inductive fres :=
| RData (l : Z)
| RHeaders (l hl : Z)
| RSettings (mfs : Z) (dg ec : bool) (other : list (Z * Z))
| RGoaway (id : Z)
| RErr (e : Z * Z).

Inductive case :=
| FrameCase (data : string) (sched : list Z) (fin : Z * Z) (finWith : bool) (nmax : Z)
            (res : list fres) (closed : option Z) (left : Z)
| StreamCase (data : string) (sched : list Z) (fin : Z * Z) (finWith : bool)
             (mode : Z) (nc : bool) (maxHdr : Z) (wfail : Z) (ops : list op)
             (res : list opres) (cancels : list (Z * Z)) (closed : option Z)
             (trailers : list string) (written : list string) (rem : Z) (left : Z)
| ConnCase (isServer : bool) (streams : list (string * bool)) (closed : option Z) (stops : list (option Z))
| ReqCase (data : string) (fin : bool) (maxHdr : Z) (closed : option Z) (reset : option Z) (status : option Z).

(** error <-> the harness's (class, argument) pairs *)
Definition err_code (e : err) : Z * Z :=
  match e with
  | EEOF => (1, 0) | EStream a => (2, a) | EH3 a => (3, a) | ETooMuchData => (4, 0)
  | EDataAfterTrailers => (5, 0) | EHeadersAfterTrailers => (6, 0) | EUnexpectedFrame => (7, 0)
  | EReserved t => (8, t) | ESettingsSize => (9, 0) | ESettingsDup i => (10, i)
  | ESettingsBool i => (11, i) | EGoawayLen => (12, 0) | EUnexpectedEOF => (13, 0)
  | ETrailerTooLarge => (14, 0) | ETruncated => (15, 0) | EFuel => (98, 0)
  end.
Definition oerr_code (e : option err) : Z * Z := match e with None => (0, 0) | Some e => err_code e end.
Definition fin_of (p : Z * Z) : err := if fst p =? 2 then EStream (snd p) else EEOF.

Definition pair_eqb (a b : Z * Z) : bool := (fst a =? fst b) && (snd a =? snd b).

(** Errors that exist only as message strings in the Go code (fmt.Errorf / errors.New) are
    compared as one class "protocol error": rewording a message must not alarm, while
    error-vs-success, sentinel errors (EOF, errTooMuchData, stream / H3 errors with their codes)
    and every returned byte are compared exactly. *)
Definition coarse (e : Z * Z) : Z * Z :=
  let c := fst e in
  if ((5 <=? c) && (c <=? 12)) || (c =? 99) then (50, 0) else e.
Definition err_eqb (a b : Z * Z) : bool := pair_eqb (coarse a) (coarse b).
Fixpoint list_eqb {A} (f : A -> A -> bool) (a b : list A) : bool :=
  match a, b with
  | [], [] => true
  | x :: a', y :: b' => f x y && list_eqb f a' b'
  | _, _ => false
  end.
Definition opt_eqb (a b : option Z) : bool :=
  match a, b with Some x, Some y => x =? y | None, None => true | _, _ => false end.

Fixpoint insert_pair (p : Z * Z) (l : list (Z * Z)) : list (Z * Z) :=
  match l with
  | [] => [p]
  | q :: r => if fst p <=? fst q then p :: l else q :: insert_pair p r
  end.
Definition sort_pairs (l : list (Z * Z)) : list (Z * Z) := fold_right insert_pair [] l.

(** ** frames unit *)
Definition drop_payload (s : src) (l : Z) : src :=
  (* [l] comes off the wire (up to 2^62): clamp before converting to a unary number *)
  mkSrc (skipn (Z.to_nat (Z.min l (zlen (s_data s)))) (s_data s)) (s_sched s) (s_fin s) (s_finWith s).

Fixpoint parse_many (n : nat) (s : src) (cl : option Z) : list fres * src * option Z :=
  match n with
  | O => ([], s, cl)
  | S n' =>
    match parse_next (fuel_of s) s cl with
    | (inl e, s', cl') => ([RErr (err_code e)], s', cl')
    | (inr f, s', cl') =>
      let '(r, s'') := match f with
                       | FData l => (RData l, drop_payload s' l)
                       | FHeaders l hl => (RHeaders l hl, drop_payload s' l)
                       | FSettings st => (RSettings (st_mfs st) (st_dg st) (st_ec st) (sort_pairs (st_other st)), s')
                       | FGoaway id => (RGoaway id, s')
                       end in
      let '(rs, s3, cl3) := parse_many n' s'' cl' in (r :: rs, s3, cl3)
    end
  end.

Definition fres_eqb (a b : fres) : bool :=
  match a, b with
  | RData l, RData l' => l =? l'
  | RHeaders l h, RHeaders l' h' => (l =? l') && (h =? h')
  | RSettings m d e o, RSettings m' d' e' o' => (m =? m') && Bool.eqb d d' && Bool.eqb e e' && list_eqb pair_eqb o o'
  | RGoaway i, RGoaway i' => i =? i'
  | RErr e, RErr e' => err_eqb e e'
  | _, _ => false
  end.

(** ** stream unit *)
Inductive rig := RigStream (x : stream) | RigBody (b : body).

Definition rig_stream (r : rig) : stream := match r with RigStream x => x | RigBody b => b_str b end.
Definition rig_cancels (r : rig) : list (Z * Z) := match r with RigStream _ => [] | RigBody b => b_cancels b end.

Definition rig_step (r : rig) (o : op) : (list Z * Z * (Z * Z) * bool) * rig :=
  match o with
  | ORead n =>
    match r with
    | RigStream x => let '(out, e, x') := stream_read x n in ((out, 0, oerr_code e, true), RigStream x')
    | RigBody b => let '(out, e, b') := body_read b n in ((out, 0, oerr_code e, true), RigBody b')
    end
  | OWrite s =>
    let '(n, e, x') := stream_write (rig_stream r) (hx s) in
    (([], n, oerr_code e, false),
     match r with RigStream _ => RigStream x' | RigBody b => RigBody (mkBody x' (b_rem b) (b_has b) (b_violated b) (b_cancels b) (b_nocontent b)) end)
  end.

Fixpoint rig_run (r : rig) (ops : list op) : list (list Z * Z * (Z * Z) * bool) * rig :=
  match ops with
  | [] => ([], r)
  | o :: ops' => let '(res, r') := rig_step r o in let '(rs, r'') := rig_run r' ops' in (res :: rs, r'')
  end.

Definition opres_eqb (m : list Z * Z * (Z * Z) * bool) (o : opres) : bool :=
  let '(out, n, e, isread) := m in
  match o with
  | RRead b e' => isread && zeqb_list out (hx b) && err_eqb e e'
  | RWrite n' e' => negb isread && (n =? n') && err_eqb e e'
  end.

Inductive obs :=
| FrameObs (res : list fres) (closed : option Z) (left : Z)
| StreamObs (res : list (list Z * Z * (Z * Z) * bool)) (cancels : list (Z * Z)) (closed : option Z)
            (trailers : list (list Z)) (written : list (list Z)) (rem : Z) (left : Z)
| ConnObs (closed : option Z) (stops : list (option Z))
| ReqObs (closed : option Z) (reset : option Z) (status : option Z).

Definition model_obs (c : case) : obs :=
  match c with
  | FrameCase data sched fin fw nmax _ _ _ =>
    let '(rs, s', cl) := parse_many (Z.to_nat nmax) (mkSrc (hx data) sched (fin_of fin) fw) None in
    FrameObs rs cl (zlen (s_data s'))
  | StreamCase data sched fin fw mode nc maxHdr wfail ops _ _ _ _ _ _ _ =>
    let x := mkStream (mkSrc (hx data) sched (fin_of fin) fw) 0 false None [] maxHdr [] wfail in
    let r := if mode =? (-2) then RigStream x else RigBody (new_body x mode nc) in
    let '(rs, r') := rig_run r ops in
    let x' := rig_stream r' in
    StreamObs rs (rig_cancels r') (x_closed x') (x_trailers x') (x_written x') (x_rem x') (zlen (s_data (x_src x')))
  | ConnCase isServer streams _ _ =>
    let '(c, stops) := conn_run (new_conn isServer) (map (fun p => (hx (fst p), snd p)) streams) in
    ConnObs (c_closed c) stops
  | ReqCase data fin maxHdr _ _ _ =>
    (* the harness only sends header blocks that QPACK and requestFromHeaders accept: an
       accepted block is answered with 200, an oversize one with 431 *)
    let '(c, o) := request_stream (new_conn true) (hx data) fin maxHdr in
    ReqObs (c_closed c)
           (match o with RReset code => Some code | _ => None end)
           (match o with RAccepted _ => Some 200 | RTooLarge => Some 431 | _ => None end)
  end.

Definition check_case (c : case) : bool :=
  match c, model_obs c with
  | FrameCase _ _ _ _ _ res closed lft, FrameObs res' closed' lft' =>
    list_eqb fres_eqb res' res && opt_eqb closed' closed && (lft' =? lft)
  | StreamCase _ _ _ _ _ _ _ _ _ res cancels closed trailers written rem lft,
    StreamObs res' cancels' closed' trailers' written' rem' lft' =>
    (Nat.eqb (List.length res') (List.length res)) && forallb (fun p => opres_eqb (fst p) (snd p)) (combine res' res)
    && list_eqb pair_eqb cancels' cancels && opt_eqb closed' closed
    && list_eqb zeqb_list trailers' (map hx trailers) && list_eqb zeqb_list written' (map hx written)
    && (rem' =? rem) && (lft' =? lft)
  | ConnCase _ _ closed stops, ConnObs closed' stops' =>
    opt_eqb closed' closed && list_eqb opt_eqb stops' stops
  | ReqCase _ _ _ closed reset status, ReqObs closed' reset' status' =>
    opt_eqb closed' closed && opt_eqb reset' reset && opt_eqb status' status
  | _, _ => false
  end.
