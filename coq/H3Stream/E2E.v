(** Composition (audit round): ONE request carried over a reliable ordered byte stream.
    C19's writer->parser agreement (read-only import of V.Props.C19) + this unit's first-frame rule,
    frame parser and Stream.Read/Write exactness.  QPACK is a parameter with its round-trip as
    hypothesis; the QUIC stream is the byte source of Model.v (reliable, ordered, arbitrary
    chunking: C01/C03's contract is the hypothesis here, not proved here). *)
From Coq Require Import List ZArith Bool Lia.
From V Require Import Gen.Params Lib.Hex Wire.Varint Wire.VarintProofs
  H3Stream.Model H3Stream.Proofs H3Stream.ProofsStream H3Stream.ProofsExact H3Stream.Conn H3Stream.ProofsConn.
From V Require H3Headers.Model H3Headers.Spec H3Writers.Model H3Writers.ProofsAgree Props.C19.
Import ListNotations.
Open Scope Z_scope.

Module HM := V.H3Headers.Model.
Module HS := V.H3Headers.Spec.
Module WM := V.H3Writers.Model.
Module WA := V.H3Writers.ProofsAgree.

Section OneRequest.
  Variable qenc : list HM.field -> list Z.        (* QPACK encoder (static table, no dynamic state) *)
  Variable qdec : list Z -> list HM.field.        (* QPACK decoder *)
  Hypothesis qpack_roundtrip : forall fs, qdec (qenc fs) = fs.

  Theorem one_request_end_to_end :
    forall q uri lim pre mid post (chunks : list (list Z)) (sched : list Z) (fw : bool) (maxHdr : Z) (bufs : list Z),
    WM.emit_request3 q = Some (pre, mid, post) -> WA.wreq_pre q uri ->
    HS.section_size (pre ++ mid ++ post) <= lim ->
    let block := qenc (pre ++ mid ++ post) in
    zlen block <= maxHdr -> zlen block <= maxVarInt8 -> Forall (fun b => zlen b <= maxVarInt8) chunks ->
    let body_wire := concat (x_written (stream_writes (new_stream (mkSrc [] [] EEOF false) 0) chunks)) in
    let request_wire := vappend 1 ++ vappend (zlen block) ++ block ++ body_wire in
    (* 1. the server's first-frame handling hands exactly the client's header block to the decoder,
          the connection stays open *)
    (snd (request_stream (new_conn true) request_wire true maxHdr) = RAccepted block /\
     c_closed (fst (request_stream (new_conn true) request_wire true maxHdr)) = None) /\
    (* 2. the request the handler is given agrees with what the client application asked for (C19) *)
    (exists r, HM.requestFromHeaders lim (qdec block) false uri = inr r /\
       HM.rqMethod r = WM.eff_method q /\ HM.rqHost r = WM.wHost q /\
       HM.rqURI r = (if WM.is_connect q then WM.wHost q else WA.the_path q) /\
       HM.rqCL r = (if WM.send_cl (WM.wMethod q) (WM.wCL q) then WM.wCL q else -1)) /\
    (* 3. the body the handler reads is the body the client wrote, for every chunking on both sides *)
    (exists out e x' tl,
       stream_reads (new_stream (mkSrc body_wire sched EEOF fw) maxHdr) bufs = (out, e, x') /\
       concat chunks = out ++ tl /\ (e = None \/ (e = Some EEOF /\ tl = [])) /\
       (all_pos bufs -> (length body_wire < length bufs)%nat -> e = Some EEOF)).
  Proof.
    intros q uri lim pre mid post chunks sched fw maxHdr bufs He Hp Hs block Hb1 Hb2 Hc body_wire request_wire.
    split.
    { destruct request_stream_rules as (_ & _ & _ & Hacc).
      apply (Hacc (new_conn true) request_wire true maxHdr (vappend 1) (vappend (zlen block)) block body_wire); auto.
      - apply venc_vappend. unfold maxVarInt8. lia.
      - apply venc_vappend. pose proof (zlen_nonneg block). lia. }
    split.
    { unfold block. rewrite qpack_roundtrip.
      destruct (V.Props.C19.C19_writer_parser_agree q uri lim pre mid post He Hp Hs) as (r & H1 & H2 & H3 & H4 & _ & H6).
      exists r. auto. }
    destruct (read_write_id chunks sched fw maxHdr bufs Hc) as (out & e & x' & tl & H1 & H2 & H3 & H4).
    exists out, e, x', tl. auto.
  Qed.
End OneRequest.
