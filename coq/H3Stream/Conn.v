(** Connection-level machinery of HTTP/3 (http3/conn.go rawConn.handleUnidirectionalStream,
    handleControlStream; server_conn.go RawServerConn.handleControlStream; client.go
    ClientConn.handleControlStream): the dispatch of the peer's unidirectional streams and the
    RFC 9114 error table.  Each stream is given as the bytes the peer wrote on it and whether it
    then closed it (FIN); the handler of a stream that is still open parks when the bytes run
    out.  Executable definitions only. *)
From Coq Require Import List ZArith Bool.
From V Require Import Gen.Params Lib.Hex Wire.Varint H3Stream.Model.
Import ListNotations.
Open Scope Z_scope.

(** reading from a stream that is still open and has no more bytes: the handler parks *)
Definition EBlocked : err := EStream (-1).
Definition is_blocked (e : err) : bool := match e with EStream a => a =? -1 | _ => false end.

Record cstate := mkC {
  c_server : bool;            (* perspective: isServer *)
  c_ctrl : bool;              (* rcvdControlStr *)
  c_enc : bool;               (* rcvdQPACKEncoderStr *)
  c_dec : bool;               (* rcvdQPACKDecoderStr *)
  c_closed : option Z;        (* the application error the connection was closed with (first wins) *)
  c_goaway : option Z;        (* client: maxStreamID announced by the server's GOAWAY *)
  c_settings : bool           (* the peer's SETTINGS were received *)
}.

Definition c_close (c : cstate) (code : Z) : cstate :=
  mkC (c_server c) (c_ctrl c) (c_enc c) (c_dec c) (close_conn (c_closed c) code) (c_goaway c) (c_settings c).
Definition c_set_closed (c : cstate) (cl : option Z) : cstate :=
  mkC (c_server c) (c_ctrl c) (c_enc c) (c_dec c) cl (c_goaway c) (c_settings c).

(** io.EOF or a stream error: the critical stream was closed / reset *)
Definition stream_gone (e : err) : bool := match e with EEOF | EStream _ => true | _ => false end.

(** the frames after SETTINGS on the control stream *)
Fixpoint control_loop (fuel : nat) (c : cstate) (s : src) : cstate :=
  match fuel with
  | O => c
  | S f =>
    match parse_next (fuel_of s) s (c_closed c) with
    | (inl e, _, cl) =>
      let c1 := c_set_closed c cl in
      if is_blocked e then c1
      else if stream_gone e then c_close c1 h3ErrCodeClosedCriticalStream
      else c_close c1 h3ErrCodeFrameError
    | (inr (FGoaway id), s', cl) =>
      let c1 := c_set_closed c cl in
      if c_server c1 then control_loop f c1 s'        (* a client's GOAWAY carries a push ID: nothing to do *)
      else if negb (id mod 4 =? 0) then c_close c1 h3ErrCodeIDError
      else match c_goaway c1 with
           | Some m => if m <? id then c_close c1 h3ErrCodeIDError
                       else c_close (mkC false (c_ctrl c1) (c_enc c1) (c_dec c1) (c_closed c1) (Some id) (c_settings c1)) h3ErrCodeNoError
           | None => c_close (mkC false (c_ctrl c1) (c_enc c1) (c_dec c1) (c_closed c1) (Some id) (c_settings c1)) h3ErrCodeNoError
           end                                        (* no request in flight: the client closes right away *)
    | (inr _, _, cl) => c_close (c_set_closed c cl) h3ErrCodeFrameUnexpected
    end
  end.

(** rawConn.handleControlStream: the first frame must be SETTINGS *)
Definition control_stream (c : cstate) (s : src) : cstate :=
  match parse_next (fuel_of s) s (c_closed c) with
  | (inl e, _, cl) =>
    let c1 := c_set_closed c cl in
    if is_blocked e then c1
    else if stream_gone e then c_close c1 h3ErrCodeClosedCriticalStream
    else c_close c1 h3ErrCodeFrameError
  | (inr (FSettings _), s', cl) =>
    let c1 := c_set_closed c cl in
    control_loop (S (length (s_data s'))) (mkC (c_server c1) (c_ctrl c1) (c_enc c1) (c_dec c1) (c_closed c1) (c_goaway c1) true) s'
  | (inr _, _, cl) => c_close (c_set_closed c cl) h3ErrCodeMissingSettings
  end.

(** rawConn.handleUnidirectionalStream: result = new state and the code the STREAM was refused
    with (STOP_SENDING), if any. *)
Definition uni_stream (c : cstate) (data : list Z) (fin : bool) : cstate * option Z :=
  let s := mkSrc data [] (if fin then EEOF else EBlocked) false in
  match read_varint s with
  | (inl _, _) => (c, None)
  | (inr (t, _), s1) =>
    if t =? h3StreamTypeControl then
      if c_ctrl c then (c_close c h3ErrCodeStreamCreationError, None)
      else (control_stream (mkC (c_server c) true (c_enc c) (c_dec c) (c_closed c) (c_goaway c) (c_settings c)) s1, None)
    else if t =? h3StreamTypeQPACKEncoder then
      if c_enc c then (c_close c h3ErrCodeStreamCreationError, None)
      else (mkC (c_server c) (c_ctrl c) true (c_dec c) (c_closed c) (c_goaway c) (c_settings c), None)
    else if t =? h3StreamTypeQPACKDecoder then
      if c_dec c then (c_close c h3ErrCodeStreamCreationError, None)
      else (mkC (c_server c) (c_ctrl c) (c_enc c) true (c_closed c) (c_goaway c) (c_settings c), None)
    else if t =? h3StreamTypePush then
      (c_close c (if c_server c then h3ErrCodeStreamCreationError else h3ErrCodeIDError), None)
    else (c, if fin then None else Some h3ErrCodeStreamCreationError)
         (* CancelRead(H3_STREAM_CREATION_ERROR); a peer that has already finished the stream
            does not get to see the STOP_SENDING *)
  end.

Definition new_conn (isServer : bool) : cstate := mkC isServer false false false None None false.

(** the peer's streams, one after the other; nothing happens once the connection is closed *)
Fixpoint conn_run (c : cstate) (streams : list (list Z * bool)) : cstate * list (option Z) :=
  match streams with
  | [] => (c, [])
  | (d, fin) :: r =>
    match c_closed c with
    | Some _ => (c, [])
    | None =>
      let '(c1, stop) := uni_stream c d fin in
      let '(c2, stops) := conn_run c1 r in (c2, stop :: stops)
    end
  end.

(** * The first frame of a request stream (server_conn.go RawServerConn.handleRequestStream, up
    to the QPACK boundary): it must be a HEADERS frame whose block arrives completely and is not
    larger than the header limit. *)
Inductive req_outcome :=
| RParked                     (* the stream is still open and more bytes are awaited *)
| RReset (code : Z)           (* CancelRead + CancelWrite with this code (H3_REQUEST_INCOMPLETE) *)
| RTooLarge                   (* CancelRead(H3_EXCESSIVE_LOAD) and a 431 response *)
| RAccepted (block : list Z)  (* the header block is handed to QPACK / requestFromHeaders *)
| RConnClosed.                (* the connection was closed *)

Definition request_stream (c : cstate) (data : list Z) (fin : bool) (maxHdr : Z) : cstate * req_outcome :=
  let s := mkSrc data [] (if fin then EEOF else EBlocked) false in
  match parse_next (fuel_of s) s (c_closed c) with
  | (inl e, _, cl) =>
    let c1 := c_set_closed c cl in
    if is_blocked e then (c1, RParked)
    else match cl with Some _ => (c1, RConnClosed) | None => (c1, RReset h3ErrCodeRequestIncomplete) end
  | (inr (FHeaders l _), s', cl) =>
    let c1 := c_set_closed c cl in
    if l >? maxHdr then (c1, RTooLarge)
    else match read_full (fuel_of s') s' l [] with
         | (inl e, _) => if is_blocked e then (c1, RParked) else (c1, RReset h3ErrCodeRequestIncomplete)
         | (inr blk, _) => (c1, RAccepted blk)
         end
  | (inr _, _, cl) => (c_close (c_set_closed c cl) h3ErrCodeFrameUnexpected, RConnClosed)
  end.
