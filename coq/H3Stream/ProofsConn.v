(** The RFC 9114 error table of the connection-level machinery, on the model Conn.v. *)
From Coq Require Import List ZArith Bool Lia.
From V Require Import Gen.Params Lib.Hex Wire.Varint Wire.VarintProofs
  H3Stream.Model H3Stream.Proofs H3Stream.ProofsStream H3Stream.Conn.
Import ListNotations.
Open Scope Z_scope.

Definition usrc (data : list Z) (fin : bool) : src := mkSrc data [] (if fin then EEOF else EBlocked) false.

Lemma usrc_benign data fin : benign (usrc data fin).
Proof. right. reflexivity. Qed.

Lemma uni_type (data : list Z) (fin : bool) (th rest : list Z) (t : Z) :
  venc th t -> data = th ++ rest ->
  exists s1, read_varint (usrc data fin) = (inr (t, zlen th), s1) /\ s_data s1 = rest /\
             same_end (usrc data fin) s1.
Proof.
  intros Ht ->. apply read_varint_venc; [apply usrc_benign|exact Ht|reflexivity].
Qed.

Definition stream_types_distinct : Prop :=
  h3StreamTypeControl = 0 /\ h3StreamTypePush = 1 /\ h3StreamTypeQPACKEncoder = 2 /\ h3StreamTypeQPACKDecoder = 3.
Lemma stream_types : stream_types_distinct. Proof. repeat split. Qed.

(** a second control / QPACK encoder / QPACK decoder stream, a push stream *)
Lemma dup_control (c : cstate) (data : list Z) (fin : bool) (th rest : list Z) :
  c_closed c = None -> c_ctrl c = true -> venc th h3StreamTypeControl -> data = th ++ rest ->
  c_closed (fst (uni_stream c data fin)) = Some h3ErrCodeStreamCreationError.
Proof.
  intros Hc Hr Ht Hd. destruct (uni_type data fin th rest _ Ht Hd) as (s1 & H1 & _).
  unfold uni_stream. fold (usrc data fin). rewrite H1, Z.eqb_refl, Hr. cbn. rewrite Hc. reflexivity.
Qed.

Lemma dup_qpack_encoder (c : cstate) (data : list Z) (fin : bool) (th rest : list Z) :
  c_closed c = None -> c_enc c = true -> venc th h3StreamTypeQPACKEncoder -> data = th ++ rest ->
  c_closed (fst (uni_stream c data fin)) = Some h3ErrCodeStreamCreationError.
Proof.
  intros Hc Hr Ht Hd. destruct (uni_type data fin th rest _ Ht Hd) as (s1 & H1 & _).
  unfold uni_stream. fold (usrc data fin). rewrite H1. cbn [Z.eqb h3StreamTypeQPACKEncoder h3StreamTypeControl Pos.eqb].
  rewrite Hr. cbn. rewrite Hc. reflexivity.
Qed.

Lemma dup_qpack_decoder (c : cstate) (data : list Z) (fin : bool) (th rest : list Z) :
  c_closed c = None -> c_dec c = true -> venc th h3StreamTypeQPACKDecoder -> data = th ++ rest ->
  c_closed (fst (uni_stream c data fin)) = Some h3ErrCodeStreamCreationError.
Proof.
  intros Hc Hr Ht Hd. destruct (uni_type data fin th rest _ Ht Hd) as (s1 & H1 & _).
  unfold uni_stream. fold (usrc data fin). rewrite H1. cbn [Z.eqb h3StreamTypeQPACKDecoder h3StreamTypeQPACKEncoder h3StreamTypeControl Pos.eqb].
  rewrite Hr. cbn. rewrite Hc. reflexivity.
Qed.

Lemma push_stream (c : cstate) (data : list Z) (fin : bool) (th rest : list Z) :
  c_closed c = None -> venc th h3StreamTypePush -> data = th ++ rest ->
  c_closed (fst (uni_stream c data fin)) =
    Some (if c_server c then h3ErrCodeStreamCreationError else h3ErrCodeIDError).
Proof.
  intros Hc Ht Hd. destruct (uni_type data fin th rest _ Ht Hd) as (s1 & H1 & _).
  unfold uni_stream. fold (usrc data fin). rewrite H1. cbn. rewrite Hc. reflexivity.
Qed.

(** any other stream type: the connection is not touched, the stream is refused *)
Lemma unknown_stream_type (c : cstate) (data : list Z) (fin : bool) (th rest : list Z) (t : Z) :
  venc th t -> data = th ++ rest -> t <> 0 -> t <> 1 -> t <> 2 -> t <> 3 ->
  uni_stream c data fin = (c, if fin then None else Some h3ErrCodeStreamCreationError).
Proof.
  intros Ht Hd H0 H1' H2 H3. destruct (uni_type data fin th rest _ Ht Hd) as (s1 & H1 & _).
  unfold uni_stream. fold (usrc data fin). rewrite H1.
  unfold h3StreamTypeControl, h3StreamTypePush, h3StreamTypeQPACKEncoder, h3StreamTypeQPACKDecoder.
  destruct (Z.eqb_spec t 0); [lia|]. destruct (Z.eqb_spec t 2); [lia|].
  destruct (Z.eqb_spec t 3); [lia|]. destruct (Z.eqb_spec t 1); [lia|]. reflexivity.
Qed.

(** the first control stream *)
Lemma first_control (c : cstate) (data : list Z) (fin : bool) (th rest : list Z) :
  c_ctrl c = false -> venc th h3StreamTypeControl -> data = th ++ rest ->
  exists s1, s_data s1 = rest /\ s_fin s1 = (if fin then EEOF else EBlocked) /\ s_finWith s1 = false /\
    fst (uni_stream c data fin) =
      control_stream (mkC (c_server c) true (c_enc c) (c_dec c) (c_closed c) (c_goaway c) (c_settings c)) s1.
Proof.
  intros Hr Ht Hd. destruct (uni_type data fin th rest _ Ht Hd) as (s1 & H1 & H2 & [H3 H4]).
  exists s1. split; [exact H2|]. split; [exact H3|]. split; [exact H4|].
  unfold uni_stream. fold (usrc data fin). rewrite H1, Z.eqb_refl, Hr. reflexivity.
Qed.

Lemma benign_of s : s_finWith s = false -> benign s.
Proof. intros H. right. exact H. Qed.

(** the first frame on the control stream is a DATA frame: H3_MISSING_SETTINGS *)
Lemma control_first_frame_data (c : cstate) (s : src) (th lh rest : list Z) (l : Z) :
  c_closed c = None -> s_finWith s = false -> venc th 0 -> venc lh l -> s_data s = th ++ lh ++ rest ->
  c_closed (control_stream c s) = Some h3ErrCodeMissingSettings.
Proof.
  intros Hc Hw Ht Hl Hd. unfold control_stream, fuel_of.
  destruct (parse_next_data (length (s_data s)) s (c_closed c) th lh l rest (benign_of s Hw) Ht Hl Hd) as (s' & Hp & _).
  rewrite Hp. cbn. rewrite Hc. reflexivity.
Qed.

(** a reserved (HTTP/2) frame type as the first frame: H3_FRAME_UNEXPECTED *)
Lemma control_first_frame_reserved (c : cstate) (s : src) (th lh rest : list Z) (t l : Z) :
  c_closed c = None -> s_finWith s = false -> venc th t -> venc lh l -> reserved_type t = true ->
  s_data s = th ++ lh ++ rest ->
  c_closed (control_stream c s) = Some h3ErrCodeFrameUnexpected.
Proof.
  intros Hc Hw Ht Hl Hr Hd. unfold control_stream, fuel_of.
  destruct (parse_next_reserved (length (s_data s)) s (c_closed c) t l th lh rest (benign_of s Hw) Ht Hl Hr Hd) as (s' & Hp & _).
  rewrite Hp. cbn. rewrite Hc. reflexivity.
Qed.

(** the control stream is closed before any frame: H3_CLOSED_CRITICAL_STREAM; still open: nothing *)
Lemma control_closed_early (c : cstate) (s : src) :
  c_closed c = None -> s_data s = [] -> s_fin s = EEOF ->
  c_closed (control_stream c s) = Some h3ErrCodeClosedCriticalStream.
Proof.
  intros Hc Hd Hf. unfold control_stream, fuel_of. rewrite Hd. cbn [length parse_next].
  rewrite read_varint_nil by exact Hd. rewrite Hf. cbn. rewrite Hc. reflexivity.
Qed.

Lemma control_waiting (c : cstate) (s : src) :
  s_data s = [] -> s_fin s = EBlocked -> control_stream c s = c_set_closed c (c_closed c).
Proof.
  intros Hd Hf. unfold control_stream, fuel_of. rewrite Hd. cbn [length parse_next].
  rewrite read_varint_nil by exact Hd. rewrite Hf. reflexivity.
Qed.

Lemma conn_error_table :
  stream_types_distinct /\
  (forall c data fin th rest, c_closed c = None -> c_ctrl c = true -> venc th h3StreamTypeControl -> data = th ++ rest ->
     c_closed (fst (uni_stream c data fin)) = Some h3ErrCodeStreamCreationError) /\
  (forall c data fin th rest, c_closed c = None -> c_enc c = true -> venc th h3StreamTypeQPACKEncoder -> data = th ++ rest ->
     c_closed (fst (uni_stream c data fin)) = Some h3ErrCodeStreamCreationError) /\
  (forall c data fin th rest, c_closed c = None -> c_dec c = true -> venc th h3StreamTypeQPACKDecoder -> data = th ++ rest ->
     c_closed (fst (uni_stream c data fin)) = Some h3ErrCodeStreamCreationError) /\
  (forall c data fin th rest, c_closed c = None -> venc th h3StreamTypePush -> data = th ++ rest ->
     c_closed (fst (uni_stream c data fin)) = Some (if c_server c then h3ErrCodeStreamCreationError else h3ErrCodeIDError)) /\
  (forall c data fin th rest t, venc th t -> data = th ++ rest -> t <> 0 -> t <> 1 -> t <> 2 -> t <> 3 ->
     uni_stream c data fin = (c, if fin then None else Some h3ErrCodeStreamCreationError)) /\
  (forall c s th lh rest l, c_closed c = None -> s_finWith s = false -> venc th 0 -> venc lh l -> s_data s = th ++ lh ++ rest ->
     c_closed (control_stream c s) = Some h3ErrCodeMissingSettings) /\
  (forall c s th lh rest t l, c_closed c = None -> s_finWith s = false -> venc th t -> venc lh l -> reserved_type t = true ->
     s_data s = th ++ lh ++ rest -> c_closed (control_stream c s) = Some h3ErrCodeFrameUnexpected) /\
  (forall c s, c_closed c = None -> s_data s = [] -> s_fin s = EEOF ->
     c_closed (control_stream c s) = Some h3ErrCodeClosedCriticalStream) /\
  (h3ErrCodeStreamCreationError = 259 /\ h3ErrCodeClosedCriticalStream = 260 /\ h3ErrCodeIDError = 264 /\
   h3ErrCodeMissingSettings = 266 /\ h3ErrCodeFrameUnexpected = 261).
Proof.
  split; [exact stream_types|]. split; [exact dup_control|]. split; [exact dup_qpack_encoder|].
  split; [exact dup_qpack_decoder|]. split; [exact push_stream|]. split; [exact unknown_stream_type|].
  split; [exact control_first_frame_data|]. split; [exact control_first_frame_reserved|].
  split; [exact control_closed_early|]. repeat split.
Qed.
