(** The RFC 9114 error table of the connection-level machinery, on the model Conn.v. *)
From Coq Require Import List ZArith Bool Lia.
From V Require Import Gen.Params Lib.Hex Wire.Varint Wire.VarintProofs
  H3Stream.Model H3Stream.Proofs H3Stream.ProofsStream H3Stream.ProofsSettings H3Stream.Conn.
Import ListNotations.
Open Scope Z_scope.

Definition usrc (data : list Z) (fin : bool) : src := mkSrc data [] (if fin then EEOF else EBlocked) false.

Lemma usrc_benign data fin : benign (usrc data fin).
Proof. right. reflexivity. Qed.

Lemma uni_type (data : list Z) (fin : bool) (th rest : list Z) (t : Z) :
  venc th t -> data = th ++ rest ->
  exists s1, read_varint (usrc data fin) = (inr (t, zlen th), s1) /\ s_data s1 = rest /\
             same_end (usrc data fin) s1.
Proof.
  intros Ht ->. apply read_varint_venc; [apply usrc_benign|exact Ht|reflexivity].
Qed.

Definition stream_types_distinct : Prop :=
  h3StreamTypeControl = 0 /\ h3StreamTypePush = 1 /\ h3StreamTypeQPACKEncoder = 2 /\ h3StreamTypeQPACKDecoder = 3.
Lemma stream_types : stream_types_distinct. Proof. repeat split. Qed.

(** a second control / QPACK encoder / QPACK decoder stream, a push stream *)
Lemma dup_control (c : cstate) (data : list Z) (fin : bool) (th rest : list Z) :
  c_closed c = None -> c_ctrl c = true -> venc th h3StreamTypeControl -> data = th ++ rest ->
  c_closed (fst (uni_stream c data fin)) = Some h3ErrCodeStreamCreationError.
Proof.
  intros Hc Hr Ht Hd. destruct (uni_type data fin th rest _ Ht Hd) as (s1 & H1 & _).
  unfold uni_stream. fold (usrc data fin). rewrite H1, Z.eqb_refl, Hr. cbn. rewrite Hc. reflexivity.
Qed.

Lemma dup_qpack_encoder (c : cstate) (data : list Z) (fin : bool) (th rest : list Z) :
  c_closed c = None -> c_enc c = true -> venc th h3StreamTypeQPACKEncoder -> data = th ++ rest ->
  c_closed (fst (uni_stream c data fin)) = Some h3ErrCodeStreamCreationError.
Proof.
  intros Hc Hr Ht Hd. destruct (uni_type data fin th rest _ Ht Hd) as (s1 & H1 & _).
  unfold uni_stream. fold (usrc data fin). rewrite H1. cbn [Z.eqb h3StreamTypeQPACKEncoder h3StreamTypeControl Pos.eqb].
  rewrite Hr. cbn. rewrite Hc. reflexivity.
Qed.

Lemma dup_qpack_decoder (c : cstate) (data : list Z) (fin : bool) (th rest : list Z) :
  c_closed c = None -> c_dec c = true -> venc th h3StreamTypeQPACKDecoder -> data = th ++ rest ->
  c_closed (fst (uni_stream c data fin)) = Some h3ErrCodeStreamCreationError.
Proof.
  intros Hc Hr Ht Hd. destruct (uni_type data fin th rest _ Ht Hd) as (s1 & H1 & _).
  unfold uni_stream. fold (usrc data fin). rewrite H1. cbn [Z.eqb h3StreamTypeQPACKDecoder h3StreamTypeQPACKEncoder h3StreamTypeControl Pos.eqb].
  rewrite Hr. cbn. rewrite Hc. reflexivity.
Qed.

Lemma push_stream (c : cstate) (data : list Z) (fin : bool) (th rest : list Z) :
  c_closed c = None -> venc th h3StreamTypePush -> data = th ++ rest ->
  c_closed (fst (uni_stream c data fin)) =
    Some (if c_server c then h3ErrCodeStreamCreationError else h3ErrCodeIDError).
Proof.
  intros Hc Ht Hd. destruct (uni_type data fin th rest _ Ht Hd) as (s1 & H1 & _).
  unfold uni_stream. fold (usrc data fin). rewrite H1. cbn. rewrite Hc. reflexivity.
Qed.

(** any other stream type: the connection is not touched, the stream is refused *)
Lemma unknown_stream_type (c : cstate) (data : list Z) (fin : bool) (th rest : list Z) (t : Z) :
  venc th t -> data = th ++ rest -> t <> 0 -> t <> 1 -> t <> 2 -> t <> 3 ->
  uni_stream c data fin = (c, if fin then None else Some h3ErrCodeStreamCreationError).
Proof.
  intros Ht Hd H0 H1' H2 H3. destruct (uni_type data fin th rest _ Ht Hd) as (s1 & H1 & _).
  unfold uni_stream. fold (usrc data fin). rewrite H1.
  unfold h3StreamTypeControl, h3StreamTypePush, h3StreamTypeQPACKEncoder, h3StreamTypeQPACKDecoder.
  destruct (Z.eqb_spec t 0); [lia|]. destruct (Z.eqb_spec t 2); [lia|].
  destruct (Z.eqb_spec t 3); [lia|]. destruct (Z.eqb_spec t 1); [lia|]. reflexivity.
Qed.

(** the first control stream *)
Lemma first_control (c : cstate) (data : list Z) (fin : bool) (th rest : list Z) :
  c_ctrl c = false -> venc th h3StreamTypeControl -> data = th ++ rest ->
  exists s1, s_data s1 = rest /\ s_fin s1 = (if fin then EEOF else EBlocked) /\ s_finWith s1 = false /\
    fst (uni_stream c data fin) =
      control_stream (mkC (c_server c) true (c_enc c) (c_dec c) (c_closed c) (c_goaway c) (c_settings c)) s1.
Proof.
  intros Hr Ht Hd. destruct (uni_type data fin th rest _ Ht Hd) as (s1 & H1 & H2 & [H3 H4]).
  exists s1. split; [exact H2|]. split; [exact H3|]. split; [exact H4|].
  unfold uni_stream. fold (usrc data fin). rewrite H1, Z.eqb_refl, Hr. reflexivity.
Qed.

Lemma benign_of s : s_finWith s = false -> benign s.
Proof. intros H. right. exact H. Qed.

(** the first frame on the control stream is a DATA frame: H3_MISSING_SETTINGS *)
Lemma control_first_frame_data (c : cstate) (s : src) (th lh rest : list Z) (l : Z) :
  c_closed c = None -> s_finWith s = false -> venc th 0 -> venc lh l -> s_data s = th ++ lh ++ rest ->
  c_closed (control_stream c s) = Some h3ErrCodeMissingSettings.
Proof.
  intros Hc Hw Ht Hl Hd. unfold control_stream, fuel_of.
  destruct (parse_next_data (length (s_data s)) s (c_closed c) th lh l rest (benign_of s Hw) Ht Hl Hd) as (s' & Hp & _).
  rewrite Hp. cbn. rewrite Hc. reflexivity.
Qed.

(** a reserved (HTTP/2) frame type as the first frame: H3_FRAME_UNEXPECTED *)
Lemma control_first_frame_reserved (c : cstate) (s : src) (th lh rest : list Z) (t l : Z) :
  c_closed c = None -> s_finWith s = false -> venc th t -> venc lh l -> reserved_type t = true ->
  s_data s = th ++ lh ++ rest ->
  c_closed (control_stream c s) = Some h3ErrCodeFrameUnexpected.
Proof.
  intros Hc Hw Ht Hl Hr Hd. unfold control_stream, fuel_of.
  destruct (parse_next_reserved (length (s_data s)) s (c_closed c) t l th lh rest (benign_of s Hw) Ht Hl Hr Hd) as (s' & Hp & _).
  rewrite Hp. cbn. rewrite Hc. reflexivity.
Qed.

(** the control stream is closed before any frame: H3_CLOSED_CRITICAL_STREAM; still open: nothing *)
Lemma control_closed_early (c : cstate) (s : src) :
  c_closed c = None -> s_data s = [] -> s_fin s = EEOF ->
  c_closed (control_stream c s) = Some h3ErrCodeClosedCriticalStream.
Proof.
  intros Hc Hd Hf. unfold control_stream, fuel_of. rewrite Hd. cbn [length parse_next].
  rewrite read_varint_nil by exact Hd. rewrite Hf. cbn. rewrite Hc. reflexivity.
Qed.

Lemma control_waiting (c : cstate) (s : src) :
  s_data s = [] -> s_fin s = EBlocked -> control_stream c s = c_set_closed c (c_closed c).
Proof.
  intros Hd Hf. unfold control_stream, fuel_of. rewrite Hd. cbn [length parse_next].
  rewrite read_varint_nil by exact Hd. rewrite Hf. reflexivity.
Qed.

Lemma conn_error_table :
  stream_types_distinct /\
  (forall c data fin th rest, c_closed c = None -> c_ctrl c = true -> venc th h3StreamTypeControl -> data = th ++ rest ->
     c_closed (fst (uni_stream c data fin)) = Some h3ErrCodeStreamCreationError) /\
  (forall c data fin th rest, c_closed c = None -> c_enc c = true -> venc th h3StreamTypeQPACKEncoder -> data = th ++ rest ->
     c_closed (fst (uni_stream c data fin)) = Some h3ErrCodeStreamCreationError) /\
  (forall c data fin th rest, c_closed c = None -> c_dec c = true -> venc th h3StreamTypeQPACKDecoder -> data = th ++ rest ->
     c_closed (fst (uni_stream c data fin)) = Some h3ErrCodeStreamCreationError) /\
  (forall c data fin th rest, c_closed c = None -> venc th h3StreamTypePush -> data = th ++ rest ->
     c_closed (fst (uni_stream c data fin)) = Some (if c_server c then h3ErrCodeStreamCreationError else h3ErrCodeIDError)) /\
  (forall c data fin th rest t, venc th t -> data = th ++ rest -> t <> 0 -> t <> 1 -> t <> 2 -> t <> 3 ->
     uni_stream c data fin = (c, if fin then None else Some h3ErrCodeStreamCreationError)) /\
  (forall c s th lh rest l, c_closed c = None -> s_finWith s = false -> venc th 0 -> venc lh l -> s_data s = th ++ lh ++ rest ->
     c_closed (control_stream c s) = Some h3ErrCodeMissingSettings) /\
  (forall c s th lh rest t l, c_closed c = None -> s_finWith s = false -> venc th t -> venc lh l -> reserved_type t = true ->
     s_data s = th ++ lh ++ rest -> c_closed (control_stream c s) = Some h3ErrCodeFrameUnexpected) /\
  (forall c s, c_closed c = None -> s_data s = [] -> s_fin s = EEOF ->
     c_closed (control_stream c s) = Some h3ErrCodeClosedCriticalStream) /\
  (h3ErrCodeStreamCreationError = 259 /\ h3ErrCodeClosedCriticalStream = 260 /\ h3ErrCodeIDError = 264 /\
   h3ErrCodeMissingSettings = 266 /\ h3ErrCodeFrameUnexpected = 261).
Proof.
  split; [exact stream_types|]. split; [exact dup_control|]. split; [exact dup_qpack_encoder|].
  split; [exact dup_qpack_decoder|]. split; [exact push_stream|]. split; [exact unknown_stream_type|].
  split; [exact control_first_frame_data|]. split; [exact control_first_frame_reserved|].
  split; [exact control_closed_early|]. repeat split.
Qed.

(** * More of the "forbidden" table (audit round) *)

Lemma parse_next_headers (f : nat) (s : src) (cl : option Z) (th lh : list Z) (l : Z) (rest : list Z) :
  benign s -> venc th 1 -> venc lh l -> s_data s = th ++ lh ++ rest ->
  exists s', parse_next (S f) s cl = (inr (FHeaders l (zlen th + zlen lh)), s', cl) /\ s_data s' = rest /\ same_end s s'.
Proof.
  intros Hb Ht Hl Hd. destruct (read_header s th lh 1 l rest Hb Ht Hl Hd) as (s1 & s2 & H1 & H2 & H3 & H4).
  cbn [parse_next]. rewrite H1, H2. cbn. eauto.
Qed.

(** ** Request streams (Stream.Read) *)

(** A frame that ParseNext delivers and that is neither DATA nor HEADERS -- i.e. SETTINGS or GOAWAY
    on a request stream: "peer sent an unexpected frame", connection closed with H3_FRAME_UNEXPECTED. *)
Lemma stream_read_unexpected_frame (x : stream) (blen : Z) (fr : frame) (s' : src) (cl : option Z) :
  x_rem x = 0 -> parse_next (fuel_of (x_src x)) (x_src x) (x_closed x) = (inr fr, s', cl) ->
  (exists st, fr = FSettings st) \/ (exists id, fr = FGoaway id) ->
  exists x', stream_read x blen = ([], Some EUnexpectedFrame, x') /\
             x_closed x' = close_conn cl h3ErrCodeFrameUnexpected /\ x_src x' = s'.
Proof.
  intros H0 Hp Hf. unfold stream_read. rewrite H0. cbn [Z.eqb]. rewrite Hp.
  destruct Hf as [[st ->]|[id ->]]; eexists; (split; [reflexivity|]); cbn; auto.
Qed.

Lemma stream_read_goaway_on_request_stream (x : stream) (blen : Z) (th lh ie rest : list Z) (l id : Z) :
  x_rem x = 0 -> x_closed x = None -> benign (x_src x) -> venc th 7 -> venc lh l -> venc ie id -> zlen ie = l ->
  s_data (x_src x) = th ++ lh ++ ie ++ rest ->
  exists x', stream_read x blen = ([], Some EUnexpectedFrame, x') /\ x_closed x' = Some h3ErrCodeFrameUnexpected.
Proof.
  intros H0 Hc Hb Ht Hl Hi Hz Hd. unfold fuel_of.
  destruct (parse_next_goaway_frame (length (s_data (x_src x))) (x_src x) (x_closed x) th lh ie rest l id Hb Ht Hl Hi Hd) as (s' & Hp & _).
  rewrite Hz, Z.eqb_refl in Hp.
  destruct (stream_read_unexpected_frame x blen (FGoaway id) s' (x_closed x) H0 Hp ltac:(right; eauto)) as (x' & H1 & H2 & _).
  exists x'. split; [exact H1|]. rewrite H2, Hc. reflexivity.
Qed.

Lemma stream_read_settings_on_request_stream (x : stream) (blen : Z) (th lh pl rest : list Z) (fr : settings) :
  x_rem x = 0 -> x_closed x = None -> benign (x_src x) -> venc th 4 -> venc lh (zlen pl) -> zlen pl <= maxSettingsLen ->
  settings_payload pl = inr fr -> s_data (x_src x) = th ++ lh ++ pl ++ rest ->
  exists x', stream_read x blen = ([], Some EUnexpectedFrame, x') /\ x_closed x' = Some h3ErrCodeFrameUnexpected.
Proof.
  intros H0 Hc Hb Ht Hl Hlen Hp Hd. unfold fuel_of.
  destruct (parse_next_settings_frame (length (s_data (x_src x))) (x_src x) (x_closed x) th lh pl rest fr Hb Ht Hl Hlen Hp Hd) as (s' & Hq & _).
  destruct (stream_read_unexpected_frame x blen (FSettings fr) s' (x_closed x) H0 Hq ltac:(left; eauto)) as (x' & H1 & H2 & _).
  exists x'. split; [exact H1|]. rewrite H2, Hc. reflexivity.
Qed.

(** DATA / a second HEADERS frame after the trailers: error, nothing delivered, the trailer
    callback does not run again. *)
Lemma stream_read_data_after_trailers (x : stream) (blen : Z) (th lh rest : list Z) (l : Z) :
  x_rem x = 0 -> x_trailer x = true -> benign (x_src x) -> venc th 0 -> venc lh l ->
  s_data (x_src x) = th ++ lh ++ rest ->
  exists x', stream_read x blen = ([], Some EDataAfterTrailers, x') /\ x_trailers x' = x_trailers x /\
             x_closed x' = x_closed x.
Proof.
  intros H0 Htr Hb Ht Hl Hd. unfold stream_read, fuel_of. rewrite H0. cbn [Z.eqb].
  destruct (parse_next_data (length (s_data (x_src x))) (x_src x) (x_closed x) th lh l rest Hb Ht Hl Hd) as (s' & Hp & _).
  rewrite Hp. cbn [x_trailer set_closed set_src]. rewrite Htr. eexists. split; [reflexivity|]. cbn. auto.
Qed.

Lemma stream_read_headers_after_trailers (x : stream) (blen : Z) (th lh rest : list Z) (l : Z) :
  x_rem x = 0 -> x_trailer x = true -> benign (x_src x) -> venc th 1 -> venc lh l ->
  s_data (x_src x) = th ++ lh ++ rest ->
  exists x', stream_read x blen = ([], Some EHeadersAfterTrailers, x') /\ x_trailers x' = x_trailers x /\
             x_closed x' = x_closed x.
Proof.
  intros H0 Htr Hb Ht Hl Hd. unfold stream_read, fuel_of. rewrite H0. cbn [Z.eqb].
  destruct (parse_next_headers (length (s_data (x_src x))) (x_src x) (x_closed x) th lh l rest Hb Ht Hl Hd) as (s' & Hp & _).
  rewrite Hp. cbn [x_trailer set_closed set_src]. rewrite Htr. eexists. split; [reflexivity|]. cbn. auto.
Qed.

(** ** Control stream *)

(** EVERY frame other than SETTINGS as the first frame: H3_MISSING_SETTINGS. *)
Lemma control_first_frame_not_settings (c : cstate) (s s' : src) (fr : frame) :
  c_closed c = None -> parse_next (fuel_of s) s (c_closed c) = (inr fr, s', None) ->
  (forall st, fr <> FSettings st) ->
  c_closed (control_stream c s) = Some h3ErrCodeMissingSettings.
Proof.
  intros Hc Hp Hn. unfold control_stream. rewrite Hp.
  destruct fr as [l|l hl|st|id]; try (cbn; reflexivity). exfalso. exact (Hn st eq_refl).
Qed.

(** After SETTINGS: every frame other than GOAWAY (a second SETTINGS, DATA, HEADERS):
    H3_FRAME_UNEXPECTED -- for server and client. *)
Lemma control_loop_frame_not_goaway (f : nat) (c : cstate) (s s' : src) (fr : frame) :
  c_closed c = None -> parse_next (fuel_of s) s (c_closed c) = (inr fr, s', None) ->
  (forall id, fr <> FGoaway id) ->
  c_closed (control_loop (S f) c s) = Some h3ErrCodeFrameUnexpected.
Proof.
  intros Hc Hp Hn. cbn [control_loop]. rewrite Hp.
  destruct fr as [l|l hl|st|id]; try (cbn; reflexivity). exfalso. exact (Hn id eq_refl).
Qed.

(** GOAWAY: a server has nothing to do (the ID is a push ID) and goes on with the next frame; a
    client rejects IDs that are not client-initiated bidirectional stream IDs and IDs larger than
    an earlier GOAWAY's (H3_ID_ERROR), and otherwise -- no request in flight -- closes gracefully. *)
Lemma control_loop_goaway (f : nat) (c : cstate) (s s' : src) (id : Z) :
  c_closed c = None -> parse_next (fuel_of s) s (c_closed c) = (inr (FGoaway id), s', None) ->
  (c_server c = true -> control_loop (S f) c s = control_loop f (c_set_closed c None) s') /\
  (c_server c = false -> id mod 4 <> 0 -> c_closed (control_loop (S f) c s) = Some h3ErrCodeIDError) /\
  (c_server c = false -> id mod 4 = 0 -> forall m, c_goaway c = Some m -> m < id ->
     c_closed (control_loop (S f) c s) = Some h3ErrCodeIDError) /\
  (c_server c = false -> id mod 4 = 0 -> (c_goaway c = None \/ exists m, c_goaway c = Some m /\ id <= m) ->
     c_closed (control_loop (S f) c s) = Some h3ErrCodeNoError /\ c_goaway (control_loop (S f) c s) = Some id).
Proof.
  intros Hc Hp. cbn [control_loop]. rewrite Hp. cbn [c_server c_set_closed c_goaway c_closed].
  split; [intros ->; reflexivity|].
  split.
  { intros -> Hm. destruct (Z.eqb_spec (id mod 4) 0); [contradiction|]. cbn. reflexivity. }
  split.
  { intros -> Hm m Hg Hlt. rewrite Hm. cbn [Z.eqb negb]. rewrite Hg. destruct (Z.ltb_spec m id); [|lia]. cbn. reflexivity. }
  intros -> Hm Hg. rewrite Hm. cbn [Z.eqb negb].
  destruct Hg as [->|(m & -> & Hle)]; [cbn; auto|]. destruct (Z.ltb_spec m id); [lia|]. cbn. auto.
Qed.

Lemma forbidden_table :
  (forall x blen th lh ie rest l id, x_rem x = 0 -> x_closed x = None -> benign (x_src x) -> venc th 7 -> venc lh l -> venc ie id -> zlen ie = l ->
     s_data (x_src x) = th ++ lh ++ ie ++ rest ->
     exists x', stream_read x blen = ([], Some EUnexpectedFrame, x') /\ x_closed x' = Some h3ErrCodeFrameUnexpected) /\
  (forall x blen th lh pl rest fr, x_rem x = 0 -> x_closed x = None -> benign (x_src x) -> venc th 4 -> venc lh (zlen pl) -> zlen pl <= maxSettingsLen ->
     settings_payload pl = inr fr -> s_data (x_src x) = th ++ lh ++ pl ++ rest ->
     exists x', stream_read x blen = ([], Some EUnexpectedFrame, x') /\ x_closed x' = Some h3ErrCodeFrameUnexpected) /\
  (forall x blen th lh rest l, x_rem x = 0 -> x_trailer x = true -> benign (x_src x) -> venc th 0 -> venc lh l ->
     s_data (x_src x) = th ++ lh ++ rest ->
     exists x', stream_read x blen = ([], Some EDataAfterTrailers, x') /\ x_trailers x' = x_trailers x /\ x_closed x' = x_closed x) /\
  (forall x blen th lh rest l, x_rem x = 0 -> x_trailer x = true -> benign (x_src x) -> venc th 1 -> venc lh l ->
     s_data (x_src x) = th ++ lh ++ rest ->
     exists x', stream_read x blen = ([], Some EHeadersAfterTrailers, x') /\ x_trailers x' = x_trailers x /\ x_closed x' = x_closed x) /\
  (forall c s s' fr, c_closed c = None -> parse_next (fuel_of s) s (c_closed c) = (inr fr, s', None) ->
     (forall st, fr <> FSettings st) -> c_closed (control_stream c s) = Some h3ErrCodeMissingSettings) /\
  (forall f c s s' fr, c_closed c = None -> parse_next (fuel_of s) s (c_closed c) = (inr fr, s', None) ->
     (forall id, fr <> FGoaway id) -> c_closed (control_loop (S f) c s) = Some h3ErrCodeFrameUnexpected) /\
  (forall f c s s' id, c_closed c = None -> parse_next (fuel_of s) s (c_closed c) = (inr (FGoaway id), s', None) ->
     (c_server c = true -> control_loop (S f) c s = control_loop f (c_set_closed c None) s') /\
     (c_server c = false -> id mod 4 <> 0 -> c_closed (control_loop (S f) c s) = Some h3ErrCodeIDError) /\
     (c_server c = false -> id mod 4 = 0 -> forall m, c_goaway c = Some m -> m < id ->
        c_closed (control_loop (S f) c s) = Some h3ErrCodeIDError) /\
     (c_server c = false -> id mod 4 = 0 -> (c_goaway c = None \/ exists m, c_goaway c = Some m /\ id <= m) ->
        c_closed (control_loop (S f) c s) = Some h3ErrCodeNoError /\ c_goaway (control_loop (S f) c s) = Some id)).
Proof.
  split; [exact stream_read_goaway_on_request_stream|]. split; [exact stream_read_settings_on_request_stream|].
  split; [exact stream_read_data_after_trailers|]. split; [exact stream_read_headers_after_trailers|].
  split; [exact control_first_frame_not_settings|]. split; [exact control_loop_frame_not_goaway|].
  exact control_loop_goaway.
Qed.

(** ** The first frame of a request stream (server) *)
Lemma request_stream_rules :
  (* anything but HEADERS first: H3_FRAME_UNEXPECTED on the connection *)
  (forall c data fin maxHdr fr s',
     c_closed c = None ->
     parse_next (fuel_of (usrc data fin)) (usrc data fin) None = (inr fr, s', None) ->
     (forall l hl, fr <> FHeaders l hl) ->
     c_closed (fst (request_stream c data fin maxHdr)) = Some h3ErrCodeFrameUnexpected) /\
  (* the stream ends before a frame: H3_REQUEST_INCOMPLETE on the stream, connection untouched *)
  (forall c maxHdr, c_closed c = None ->
     request_stream c [] true maxHdr = (c_set_closed c None, RReset h3ErrCodeRequestIncomplete)) /\
  (* a HEADERS frame larger than the limit: 431 *)
  (forall c data fin maxHdr th lh l rest,
     c_closed c = None -> venc th 1 -> venc lh l -> data = th ++ lh ++ rest -> maxHdr < l ->
     snd (request_stream c data fin maxHdr) = RTooLarge /\ c_closed (fst (request_stream c data fin maxHdr)) = None) /\
  (* a complete block within the limit is handed on, byte for byte *)
  (forall c data fin maxHdr th lh blk rest,
     c_closed c = None -> venc th 1 -> venc lh (zlen blk) -> data = th ++ lh ++ blk ++ rest -> zlen blk <= maxHdr ->
     snd (request_stream c data fin maxHdr) = RAccepted blk /\ c_closed (fst (request_stream c data fin maxHdr)) = None).
Proof.
  split.
  { intros c data fin maxHdr fr s' Hc Hp Hn. unfold request_stream. fold (usrc data fin). rewrite Hc, Hp.
    destruct fr as [l|l hl|st|id]; try (cbn; reflexivity). exfalso. exact (Hn l hl eq_refl). }
  split.
  { intros c maxHdr Hc. unfold request_stream. rewrite Hc. reflexivity. }
  split.
  { intros c data fin maxHdr th lh l rest Hc Ht Hl Hd Hm.
    assert (Hrs : request_stream c data fin maxHdr = (c_set_closed c None, RTooLarge)).
    { unfold request_stream. fold (usrc data fin). rewrite Hc.
      destruct (parse_next_headers (length (s_data (usrc data fin))) (usrc data fin) None th lh l rest (usrc_benign data fin) Ht Hl Hd) as (s' & Hp & _).
      unfold fuel_of. rewrite Hp. destruct (Z.gtb_spec l maxHdr); [|lia]. reflexivity. }
    rewrite Hrs. split; reflexivity. }
  intros c data fin maxHdr th lh blk rest Hc Ht Hl Hd Hm.
  assert (Hrs : request_stream c data fin maxHdr = (c_set_closed c None, RAccepted blk)).
  { unfold request_stream. fold (usrc data fin). rewrite Hc.
    destruct (parse_next_headers (length (s_data (usrc data fin))) (usrc data fin) None th lh (zlen blk) (blk ++ rest) (usrc_benign data fin) Ht Hl Hd) as (s' & Hp & Hd' & _).
    unfold fuel_of at 1. rewrite Hp. destruct (Z.gtb_spec (zlen blk) maxHdr); [lia|].
    destruct (read_full_app (fuel_of s') s' blk rest [] Hd') as (s2 & Hr & _).
    { unfold fuel_of. rewrite Hd', app_length. lia. }
    rewrite Hr. reflexivity. }
  rewrite Hrs. split; reflexivity.
Qed.
