(** Proofs about the ServerAccept model (C13, server side). *)
From Coq Require Import List ZArith Bool Lia.
From V Require Import Gen.Params Lib.Hex ConnAccept.Model ConnAccept.Proofs ServerAccept.Model.
Import ListNotations.
Open Scope Z_scope.

Lemma zlen_app {A} (a b : list A) : zlen (a ++ b) = zlen a + zlen b.
Proof. unfold zlen. rewrite app_length. lia. Qed.
Lemma zlen_nonneg {A} (a : list A) : 0 <= zlen a.
Proof. unfold zlen. lia. Qed.
Lemma zlen_one {A} (x : A) : zlen [x] = 1.
Proof. reflexivity. Qed.

(** ---- the routing map ---- *)

Lemma hget_hput_same c n h : hget c (hput c n h) = Some n.
Proof.
  induction h as [|[k m] r IH]; simpl.
  - rewrite cid_eqb_refl. reflexivity.
  - destruct (cid_eqb k c) eqn:E; simpl; rewrite E; auto.
Qed.

Lemma hget_hput_keeps d c n h : hget d h <> None -> hget d (hput c n h) <> None.
Proof.
  induction h as [|[k m] r IH]; simpl; intros H.
  - contradiction.
  - destruct (cid_eqb k c) eqn:E; simpl.
    + destruct (cid_eqb k d); [discriminate | exact H].
    + destruct (cid_eqb k d); [discriminate | apply IH; exact H].
Qed.

(** ---- the 0-RTT queues ---- *)

Definition zq_ok (q : list (cid * (Z * Z))) : Prop :=
  forall k n e, In (k, (n, e)) q -> n <= saMax0RTTQueueLen.

Lemma zq_ok_zdel c q : zq_ok q -> zq_ok (zdel c q).
Proof.
  unfold zq_ok. induction q as [|[k [n e]] r IH]; simpl; intros H k' n' e' I; [contradiction|].
  destruct (cid_eqb k c).
  - apply (IH (fun a b d J => H a b d (or_intror J)) k' n' e' I).
  - destruct I as [I|I]; [inversion I; subst; apply (H k' n' e'); left; reflexivity|].
    apply (IH (fun a b d J => H a b d (or_intror J)) k' n' e' I).
Qed.

Lemma zlen_zdel c (q : list (cid * (Z * Z))) : zlen (zdel c q) <= zlen q.
Proof.
  induction q as [|[k v] r IH]; simpl; [lia|].
  destruct (cid_eqb k c); unfold zlen in *; simpl; lia.
Qed.

Lemma zq_ok_keep now q : zq_ok q -> zq_ok (zq_keep now q).
Proof.
  unfold zq_ok. induction q as [|[k [n e]] r IH]; simpl; intros H k' n' e' I; [contradiction|].
  destruct (now <? e).
  - destruct I as [I|I]; [inversion I; subst; apply (H k' n' e'); left; reflexivity|].
    apply (IH (fun a b d J => H a b d (or_intror J)) k' n' e' I).
  - apply (IH (fun a b d J => H a b d (or_intror J)) k' n' e' I).
Qed.

Lemma zlen_keep now (q : list (cid * (Z * Z))) : zlen (zq_keep now q) <= zlen q.
Proof.
  induction q as [|[k [n e]] r IH]; simpl; [lia|].
  destruct (now <? e); unfold zlen in *; simpl; lia.
Qed.

Lemma zlen_zinc c (q : list (cid * (Z * Z))) : zlen (zinc c q) = zlen q.
Proof.
  induction q as [|[k [n e]] r IH]; simpl; [reflexivity|].
  destruct (cid_eqb k c); unfold zlen in *; simpl; lia.
Qed.

Lemma zq_ok_zinc c q len e0 :
  zq_ok q -> zget c q = Some (len, e0) -> len + 1 <= saMax0RTTQueueLen -> zq_ok (zinc c q).
Proof.
  unfold zq_ok. induction q as [|[k [n e]] r IH]; simpl; intros H G L k' n' e' I; [contradiction|].
  destruct (cid_eqb k c) eqn:E.
  - inversion G; subst. destruct I as [I|I].
    + inversion I; subst. exact L.
    + apply (H k' n' e'). right. exact I.
  - destruct I as [I|I]; [inversion I; subst; apply (H k' n' e'); left; reflexivity|].
    apply (IH (fun a b d J => H a b d (or_intror J)) G L k' n' e' I).
Qed.

Lemma zget_zdel c q : zget c (zdel c q) = None.
Proof.
  induction q as [|[k v] r IH]; simpl; [reflexivity|].
  destruct (cid_eqb k c) eqn:E; simpl; [exact IH | rewrite E; exact IH].
Qed.

Lemma zget_keep_none c now q : zget c q = None -> zget c (zq_keep now q) = None.
Proof.
  induction q as [|[k [n e]] r IH]; simpl; [reflexivity|].
  destruct (cid_eqb k c) eqn:E; [discriminate|]. intros H.
  destruct (now <? e); simpl; [rewrite E|]; apply IH; exact H.
Qed.

(** ---- one received datagram ---- *)

Ltac core_cases p :=
  unfold recv_core, recv_0rtt, recv_initial, token_decision, tok_empty, set_h, set_zq, set_vnq, set_invq, set_refq, set_retryq;
  destruct p as [| |size addr|dcid| | |size dcid scid tok addr intact newcid];
  try (destruct tok as [| |valid od rs|valid rtt]; try destruct valid);
  repeat match goal with
         | |- context [if ?b then _ else _] => destruct b eqn:?
         | |- context [match hget ?a ?b with _ => _ end] => destruct (hget a b) eqn:?
         | |- context [match zget ?a ?b with _ => _ end] => destruct (zget a b) as [[? ?]|] eqn:?
         end;
  intros H; inversion H; subst; clear H; simpl in *.

Definition usable (t : tclass) : bool :=
  match t with TkRetry v _ _ | TkNew v _ => v | _ => false end.

(** the clean-up touches only the 0-RTT queues *)
Lemma cleanup_frame s now :
  handlers (cleanup s now) = handlers s /\ nconn (cleanup s now) = nconn s /\ created (cleanup s now) = created s /\
  vnq (cleanup s now) = vnq s /\ invq (cleanup s now) = invq s /\ refq (cleanup s now) = refq s /\ retryq (cleanup s now) = retryq s.
Proof. unfold cleanup, set_zq. simpl. repeat split. Qed.

Lemma recv_frame c s now p s' o : recv c s now p = (s', o) ->
  exists s1, recv_core c s now p = (s1, o) /\
    handlers s' = handlers s1 /\ nconn s' = nconn s1 /\ created s' = created s1 /\
    vnq s' = vnq s1 /\ invq s' = invq s1 /\ refq s' = refq s1 /\ retryq s' = retryq s1 /\
    (s' = s1 \/ s' = cleanup s1 now).
Proof.
  unfold recv. destruct (recv_core c s now p) as [s1 o1] eqn:E. intros H. exists s1.
  destruct (negb (nextCleanup s =? 0) && (nextCleanup s <? now)); inversion H as [[Hs Ho]]; clear H.
  - destruct (cleanup_frame s1 now) as (A&B&C&D&F&G&I). repeat split; auto.
  - repeat split; auto.
Qed.

(** Version Negotiation: a VN packet (like every other non-Initial, non-0-RTT, supported or unparsable packet)
    is dropped without any effect besides the periodic 0-RTT clean-up; a VN is queued only for an unsupported
    version in a datagram of at least MinUnknownVersionPacketSize bytes, with version negotiation enabled. *)
Lemma vn_not_answered c s now : exists s',
  recv c s now SPvn = (s', SDrop false) /\ (s' = s \/ s' = cleanup s now).
Proof.
  unfold recv. simpl. destruct (negb (nextCleanup s =? 0) && (nextCleanup s <? now)); eauto.
Qed.

Lemma vnq_core c s now p s1 o : recv_core c s now p = (s1, o) ->
  vnq s1 = vnq s \/
  exists size a, p = SPunsupported size a /\ saMinUnknownVersionPacketSize <= size /\ disableVN c = false /\
                 vnq s1 = vnq s ++ [a] /\ o = SQueuedVN.
Proof.
  intros H; revert H. core_cases p; auto.
  right. exists size, addr. repeat split; auto. lia.
Qed.

(** a Retry is queued only for an Initial (>= 1200 bytes, DCID not routed) without usable token from an address
    that must be verified; no connection, no routing entry is created, a 0-RTT queue of that DCID is deleted *)
Lemma retry_core c s now p s1 o q : recv_core c s now p = (s1, o) -> o = SRetry q ->
  exists size dcid scid tok addr intact newcid,
    p = SPinitial size dcid scid tok addr intact newcid /\
    saMinInitialPacketSize <= size /\ hget dcid (handlers s) = None /\ usable tok = false /\
    zmem addr (verifyAddrs c) = true /\
    handlers s1 = handlers s /\ nconn s1 = nconn s /\ created s1 = created s /\ zget dcid (zq s1) = None /\
    retryq s1 = (if q then retryq s ++ [(addr, dcid, scid, intact)] else retryq s).
Proof.
  intros H; revert H. core_cases p; intros E; try discriminate; inversion E; subst;
    exists size, dcid, scid; eexists; exists addr, intact, newcid;
    (split; [reflexivity|]); repeat split; simpl; auto; try lia; try apply zget_zdel;
    try (apply andb_prop in Heqb2; tauto); try (apply andb_prop in Heqb1; tauto).
Qed.

Lemma retryq_core c s now p s1 o : recv_core c s now p = (s1, o) ->
  retryq s1 = retryq s \/ o = SRetry true.
Proof. intros H; revert H. core_cases p; auto. Qed.

(** creation of a connection *)
Lemma created_core c s now p s1 o : recv_core c s now p = (s1, o) ->
  (created s1 = created s /\ handlers s1 = handlers s /\ nconn s1 = nconn s /\ owns s1 = owns s) \/
  exists size dcid scid tok addr intact newcid,
    p = SPinitial size dcid scid tok addr intact newcid /\
    hget dcid (handlers s) = None /\
    created s1 = created s ++ [(nconn s, dcid, addr, usable tok)] /\
    handlers s1 = hput newcid (nconn s) (hput dcid (nconn s) (handlers s)) /\
    nconn s1 = nconn s + 1 /\
    (zmem addr (verifyAddrs c) = true -> usable tok = true) /\
    owns s1 = owns s ++ [(nconn s, dcid); (nconn s, newcid)].
Proof.
  intros H; revert H. core_cases p; auto 6;
    right; exists size, dcid, scid; eexists; exists addr, intact, newcid;
    (split; [reflexivity|]); repeat split; simpl; auto; intros V; rewrite V in *; simpl in *; congruence.
Qed.

(** 0-RTT queue bounds *)
Definition zq_inv (c : scfg) (s : sst) : Prop :=
  zlen (zq s) <= saMax0RTTQueues /\ zq_ok (zq s) /\ (acceptEarly c = false -> zq s = []).

Lemma zq_core c s now p s1 o : recv_core c s now p = (s1, o) -> zq_inv c s -> zq_inv c s1.
Proof.
  unfold zq_inv. intros H (L & K & E). revert H.
  core_cases p; try (repeat split; auto; fail).
  all: try (rewrite E in * by auto; simpl in *; discriminate).
  all: try (split; [pose proof (zlen_zdel dcid (zq s)); lia | split; [apply zq_ok_zdel; auto |
            intros A; rewrite (E A); reflexivity]]).
  all: try (split; [rewrite zlen_zinc; lia|]; split; [eapply zq_ok_zinc; eauto; lia | intros A; congruence]).
  all: split; [rewrite zlen_app, zlen_one; lia|]; split; [|intros A; congruence].
  all: unfold zq_ok; intros k n e I; apply in_app_or in I; destruct I as [I|[I|[]]]; [eapply K; eauto|].
  all: inversion I; subst; assert (Hq : saMax0RTTQueueLen = 31) by reflexivity; lia.
Qed.

Lemma zq_cleanup c s now : zq_inv c s -> zq_inv c (cleanup s now).
Proof.
  unfold zq_inv, cleanup, set_zq. simpl. intros (L & K & E).
  split; [pose proof (zlen_keep now (zq s)); lia|]. split; [apply zq_ok_keep; auto|].
  intros A. rewrite (E A). reflexivity.
Qed.

Lemma drain_frame s s' o : drain s = (s', o) ->
  handlers s' = handlers s /\ nconn s' = nconn s /\ created s' = created s /\ zq s' = zq s /\
  vnq s' = [] /\ retryq s' = [] /\ invq s' = [] /\ refq s' = [].
Proof. unfold drain. intros H. inversion H; subst. simpl. repeat split. Qed.

Lemma rm_frame s s' out :
  (exists n, close_conn s n = (s', out)) \/ (exists n k, retire_id s n k = (s', out)) ->
  zq s' = zq s /\ nextCleanup s' = nextCleanup s /\ vnq s' = vnq s /\ invq s' = invq s /\ refq s' = refq s /\
  retryq s' = retryq s /\ created s' = created s /\ nconn s' = nconn s /\ exists k, out = SRemoved k.
Proof.
  intros [(n & H)|(n & k & H)].
  - unfold close_conn in H. inversion H; subst. simpl. repeat split; eauto.
  - unfold retire_id in H. destruct (existsb _ (owns s)); inversion H; subst; simpl; repeat split; eauto.
Qed.

(** ---- runs ---- *)

Lemma srun_cons c s o r :
  srun c s (o :: r) = let '(s1, out) := sstep c s o in let '(s2, outs) := srun c s1 r in (s2, out :: outs).
Proof. reflexivity. Qed.

Lemma zq_bounds_run c ops : forall s s' outs, srun c s ops = (s', outs) -> zq_inv c s -> zq_inv c s'.
Proof.
  induction ops as [|o r IH]; intros s s' outs H I.
  - simpl in H. inversion H; subst. exact I.
  - rewrite srun_cons in H. destruct (sstep c s o) as [s1 out] eqn:Hs.
    destruct (srun c s1 r) as [s2 o2] eqn:Hr. inversion H; subst.
    apply (IH _ _ _ Hr). destruct o as [now p| |n|n k]; simpl in Hs.
    + destruct (recv_frame _ _ _ _ _ _ Hs) as (sc & Hc & _ & _ & _ & _ & _ & _ & _ & [E|E]); subst;
        [| apply zq_cleanup]; eapply zq_core; eauto.
    + destruct (drain_frame _ _ _ Hs) as (_ & _ & _ & Z & _). unfold zq_inv in *. rewrite Z. exact I.
    + destruct (rm_frame s s1 out (or_introl (ex_intro _ n Hs))) as (Z & _). unfold zq_inv in *. rewrite Z. exact I.
    + destruct (rm_frame s s1 out (or_intror (ex_intro _ n (ex_intro _ k Hs)))) as (Z & _). unfold zq_inv in *. rewrite Z. exact I.
Qed.

Lemma zq_inv_s0 c : zq_inv c s0.
Proof.
  unfold zq_inv, s0, zq_ok. simpl. split; [|split; [intros ? ? ? []|auto]].
  unfold zlen. simpl. assert (H : saMax0RTTQueues = 32) by reflexivity. lia.
Qed.

(** every Version Negotiation packet that is ever sent answers an unsupported-version datagram of at least
    1200 bytes from that address (version negotiation enabled): in particular never a VN packet *)
Lemma vn_origin c ops : forall s s' outs, srun c s ops = (s', outs) ->
  (forall a, In a (vnq s') -> In a (vnq s) \/
     exists now size, In (SRecv now (SPunsupported size a)) ops /\ saMinUnknownVersionPacketSize <= size /\ disableVN c = false) /\
  (forall l a d sc, In (SDrained l) outs -> In (0, a, d, sc) l -> In a (vnq s) \/
     exists now size, In (SRecv now (SPunsupported size a)) ops /\ saMinUnknownVersionPacketSize <= size /\ disableVN c = false).
Proof.
  induction ops as [|o r IH]; intros s s' outs H.
  - simpl in H. inversion H; subst. split; [auto | intros l a d sc []].
  - rewrite srun_cons in H. destruct (sstep c s o) as [s1 out] eqn:Hs.
    destruct (srun c s1 r) as [s2 o2] eqn:Hr. inversion H; subst.
    destruct (IH _ _ _ Hr) as (IH1 & IH2).
    assert (K : forall a, In a (vnq s1) -> In a (vnq s) \/
              exists now size, o = SRecv now (SPunsupported size a) /\ saMinUnknownVersionPacketSize <= size /\ disableVN c = false).
    { intros a I. destruct o as [now p| |n|n k]; simpl in Hs.
      - destruct (recv_frame _ _ _ _ _ _ Hs) as (sc & Hc & _ & _ & _ & V & _).
        rewrite V in I. destruct (vnq_core _ _ _ _ _ _ Hc) as [E|(size & a' & Ep & Sz & D & E & _)].
        + left. congruence.
        + rewrite E in I. apply in_app_or in I. destruct I as [I|[I|[]]]; [left; exact I|]. subst.
          right. exists now, size. auto.
      - destruct (drain_frame _ _ _ Hs) as (_ & _ & _ & _ & V & _). rewrite V in I. contradiction.
      - destruct (rm_frame s s1 out (or_introl (ex_intro _ n Hs))) as (_ & _ & V & _). left. congruence.
      - destruct (rm_frame s s1 out (or_intror (ex_intro _ n (ex_intro _ k Hs)))) as (_ & _ & V & _). left. congruence. }
    assert (lift : forall a, (In a (vnq s1) \/ exists now size, In (SRecv now (SPunsupported size a)) r /\ saMinUnknownVersionPacketSize <= size /\ disableVN c = false) ->
                   In a (vnq s) \/ exists now size, In (SRecv now (SPunsupported size a)) (o :: r) /\ saMinUnknownVersionPacketSize <= size /\ disableVN c = false).
    { intros a [I|(now & size & I & R)].
      - destruct (K a I) as [L|(now & size & E & R)]; [auto|]. right. exists now, size. split; [left; auto | exact R].
      - right. exists now, size. split; [right; exact I | exact R]. }
    split.
    + intros a I. apply lift. apply IH1. exact I.
    + intros l a d sc [E|I] J.
      * subst out. destruct o as [now p| |n|n k]; simpl in Hs.
        -- exfalso. unfold recv in Hs. destruct (recv_core c s now p) as [sx ox] eqn:Ec.
           assert (ox = SDrained l) by (destruct (negb (nextCleanup s =? 0) && (nextCleanup s <? now)); inversion Hs; auto).
           subst ox. revert Ec. clear. core_cases p.
        -- unfold drain in Hs. inversion Hs; subst. left.
           apply in_app_or in J. destruct J as [J|J].
           ++ apply in_map_iff in J. destruct J as (x & Ex & Ix). inversion Ex; subst. exact Ix.
           ++ exfalso. apply in_app_or in J. destruct J as [J|J]; [|apply in_app_or in J; destruct J as [J|J]];
                apply in_map_iff in J; destruct J as ([[[? ?] ?] ?] & Ex & _); inversion Ex.
        -- exfalso. destruct (rm_frame s s1 _ (or_introl (ex_intro _ n Hs))) as (_ & _ & _ & _ & _ & _ & _ & _ & k0 & Ek). discriminate.
        -- exfalso. destruct (rm_frame s s1 _ (or_intror (ex_intro _ n (ex_intro _ k Hs)))) as (_ & _ & _ & _ & _ & _ & _ & _ & k0 & Ek). discriminate.
      * apply lift. eapply IH2; eauto.
Qed.

Lemma NoDup_app_one {A} (l : list A) (x : A) : NoDup l -> ~ In x l -> NoDup (l ++ [x]).
Proof.
  induction l as [|y r IH]; simpl; intros N I.
  - constructor; [intros []|constructor].
  - inversion N; subst. constructor.
    + intros J. apply in_app_or in J. destruct J as [J|[J|[]]]; [contradiction|]. subst. apply I. left. reflexivity.
    + apply IH; auto.
Qed.

(** ---- connections and routes, with connections that close and connection IDs that are retired ---- *)

Lemma hget_hdel_same c h : hget c (hdel c h) = None.
Proof. induction h as [|[k m] r IH]; simpl; [reflexivity|]. destruct (cid_eqb k c) eqn:E; simpl; [exact IH | rewrite E; exact IH]. Qed.

Lemma cid_eqb_sym a b : cid_eqb a b = cid_eqb b a.
Proof.
  destruct (cid_eqb a b) eqn:E; destruct (cid_eqb b a) eqn:F; auto.
  - apply cid_eqb_eq in E. subst. rewrite cid_eqb_refl in F. discriminate.
  - apply cid_eqb_eq in F. subst. rewrite cid_eqb_refl in E. discriminate.
Qed.

Lemma cid_eqb_trans_false k c d : cid_eqb k c = true -> cid_eqb c d = false -> cid_eqb k d = false.
Proof. intros A B. apply cid_eqb_eq in A. subst. exact B. Qed.

Lemma hget_hdel_other c d h : cid_eqb c d = false -> hget d (hdel c h) = hget d h.
Proof.
  intros N. induction h as [|[k m] r IH]; simpl; [reflexivity|].
  destruct (cid_eqb k c) eqn:E; simpl.
  - rewrite (cid_eqb_trans_false _ _ _ E N). exact IH.
  - destruct (cid_eqb k d); [reflexivity | exact IH].
Qed.

Lemma hget_hput_other c d n h : cid_eqb c d = false -> hget d (hput c n h) = hget d h.
Proof.
  intros N. induction h as [|[k m] r IH]; simpl.
  - rewrite N. reflexivity.
  - destruct (cid_eqb k c) eqn:E; simpl.
    + rewrite (cid_eqb_trans_false _ _ _ E N). reflexivity.
    + destruct (cid_eqb k d); [reflexivity | exact IH].
Qed.

(** a connection created for an address that must be verified carries a token valid for that address
    (a fact about the history of creations: closing changes nothing about it) *)
Definition verified_inv (c : scfg) (s : sst) : Prop :=
  forall n d a v, In (n, d, a, v) (created s) -> zmem a (verifyAddrs c) = true -> v = true.

Lemma verified_run c ops : forall s s' outs, srun c s ops = (s', outs) -> verified_inv c s -> verified_inv c s'.
Proof.
  induction ops as [|o r IH]; intros s s' outs H I.
  - simpl in H. inversion H; subst. exact I.
  - rewrite srun_cons in H. destruct (sstep c s o) as [s1 out] eqn:Hs.
    destruct (srun c s1 r) as [s2 o2] eqn:Hr. inversion H; subst.
    apply (IH _ _ _ Hr). destruct o as [now p| |n|n k]; simpl in Hs.
    + destruct (recv_frame _ _ _ _ _ _ Hs) as (sc & Hc & _ & _ & E3 & _).
      unfold verified_inv. rewrite E3.
      destruct (created_core _ _ _ _ _ _ Hc) as [(E1 & _)|(size & dcid & scid & tok & addr & intact & newcid & Ep & G & E1 & _ & _ & U & _)].
      * rewrite E1. exact I.
      * rewrite E1. intros n0 d a v J W. apply in_app_or in J. destruct J as [J|[J|[]]]; [eapply I; eauto|].
        inversion J; subst. auto.
    + destruct (drain_frame _ _ _ Hs) as (_ & _ & E3 & _). unfold verified_inv. rewrite E3. exact I.
    + destruct (rm_frame s s1 out (or_introl (ex_intro _ n Hs))) as (_ & _ & _ & _ & _ & _ & E3 & _). unfold verified_inv. rewrite E3. exact I.
    + destruct (rm_frame s s1 out (or_intror (ex_intro _ n (ex_intro _ k Hs)))) as (_ & _ & _ & _ & _ & _ & E3 & _). unfold verified_inv. rewrite E3. exact I.
Qed.

(** the connection ID generator's contract: an ID it hands out is not registered at that moment (it may equal the
    very DCID the client chose for this connection: a server may echo it) *)
Definition fresh_step (s : sst) (o : sop) : bool :=
  match o with
  | SRecv _ (SPinitial _ dcid _ _ _ _ newcid) =>
      match hget newcid (handlers s) with None => true | Some _ => false end
  | _ => true
  end.
Fixpoint sfresh (c : scfg) (s : sst) (ops : list sop) : bool :=
  match ops with
  | [] => true
  | o :: r => fresh_step s o && sfresh c (fst (sstep c s o)) r
  end.

(** every live registration routes to its connection, and no connection ID is registered twice *)
Definition route_inv (s : sst) : Prop :=
  (forall n k, In (n, k) (owns s) -> hget k (handlers s) = Some n) /\
  (forall n m k, In (n, k) (owns s) -> In (m, k) (owns s) -> n = m).

Lemma hdel_all_other ks : forall h d, (forall k, In k ks -> cid_eqb k d = false) -> hget d (hdel_all ks h) = hget d h.
Proof.
  unfold hdel_all. induction ks as [|k r IH]; intros h d N; simpl; [reflexivity|].
  rewrite IH; [|intros k' I; apply N; right; exact I]. apply hget_hdel_other. apply N. left. reflexivity.
Qed.

Lemma route_core c s now p s1 o : recv_core c s now p = (s1, o) -> fresh_step s (SRecv now p) = true ->
  route_inv s -> route_inv s1.
Proof.
  intros H F (A & B).
  destruct (created_core _ _ _ _ _ _ H) as [(_ & E2 & _ & O)|(size & dcid & scid & tok & addr & intact & newcid & Ep & G & _ & E2 & _ & _ & O)].
  - unfold route_inv. rewrite O, E2. split; assumption.
  - subst p. simpl in F. destruct (hget newcid (handlers s)) eqn:Fn; [discriminate|].
    unfold route_inv. rewrite O, E2. split.
    + intros n k I. apply in_app_or in I. destruct I as [I|[I|[I|[]]]].
      * pose proof (A _ _ I) as Hk.
        assert (N1 : cid_eqb newcid k = false) by (apply cid_eqb_neq; intros ->; congruence).
        assert (N2 : cid_eqb dcid k = false) by (apply cid_eqb_neq; intros ->; congruence).
        rewrite hget_hput_other, hget_hput_other; auto.
      * inversion I; subst. destruct (cid_eqb newcid k) eqn:E.
        -- apply cid_eqb_eq in E. subst. apply hget_hput_same.
        -- rewrite hget_hput_other by exact E. apply hget_hput_same.
      * inversion I; subst. apply hget_hput_same.
    + intros n m k I J. apply in_app_or in I. apply in_app_or in J.
      assert (Old : forall x, In (x, k) (owns s) -> hget k (handlers s) <> None) by (intros x Ix; rewrite (A _ _ Ix); discriminate).
      destruct I as [I|[I|[I|[]]]]; destruct J as [J|[J|[J|[]]]]; try (eapply B; eauto; fail);
        try (inversion I; subst); try (inversion J; subst); auto;
        try (exfalso; eapply Old; eauto; fail).
Qed.

Lemma filter_In_owns {A} (f : A -> bool) l x : In x (filter f l) -> In x l /\ f x = true.
Proof. apply filter_In. Qed.

Lemma route_close s n s1 o : close_conn s n = (s1, o) -> route_inv s -> route_inv s1.
Proof.
  unfold close_conn. intros H (A & B). inversion H; subst; clear H. unfold route_inv. simpl. split.
  - intros m k I. apply filter_In in I. destruct I as (I & Nm). simpl in Nm.
    rewrite hdel_all_other; [apply A; exact I|].
    intros k' J. unfold owned_by in J. apply in_map_iff in J. destruct J as ([n' k''] & Ek & J). simpl in Ek. subst k''.
    apply filter_In in J. destruct J as (J & En). simpl in En. apply Z.eqb_eq in En. subst n'.
    apply cid_eqb_neq. intros ->. pose proof (B _ _ _ I J). subst. rewrite Z.eqb_refl in Nm. discriminate.
  - intros a b k I J. apply filter_In in I. apply filter_In in J. destruct I, J. eapply B; eauto.
Qed.

Lemma route_retire s n k s1 o : retire_id s n k = (s1, o) -> route_inv s -> route_inv s1.
Proof.
  unfold retire_id. intros H (A & B). destruct (existsb _ (owns s)) eqn:Ex; inversion H; subst; clear H; [|split; assumption].
  unfold route_inv. simpl. split.
  - intros m k' I. apply filter_In in I. destruct I as (I & Nm). simpl in Nm.
    destruct (cid_eqb k k') eqn:E.
    + exfalso. apply cid_eqb_eq in E. subst k'. rewrite cid_eqb_refl, andb_true_r in Nm.
      apply existsb_exists in Ex. destruct Ex as ([n' k''] & J & Ek). simpl in Ek. apply andb_prop in Ek as (En & Ek).
      apply Z.eqb_eq in En. apply cid_eqb_eq in Ek. subst. pose proof (B _ _ _ I J). subst. rewrite Z.eqb_refl in Nm. discriminate.
    + rewrite hget_hdel_other by exact E. apply A. exact I.
  - intros a b k' I J. apply filter_In in I. apply filter_In in J. destruct I, J. eapply B; eauto.
Qed.

Lemma route_run c ops : forall s s' outs, srun c s ops = (s', outs) -> sfresh c s ops = true -> route_inv s -> route_inv s'.
Proof.
  induction ops as [|o r IH]; intros s s' outs H F I.
  - simpl in H. inversion H; subst. exact I.
  - rewrite srun_cons in H. destruct (sstep c s o) as [s1 out] eqn:Hs.
    destruct (srun c s1 r) as [s2 o2] eqn:Hr. inversion H; subst.
    simpl in F. rewrite Hs in F. simpl in F. apply andb_prop in F as (F0 & F1).
    apply (IH _ _ _ Hr F1). destruct o as [now p| |n|n k]; simpl in Hs.
    + destruct (recv_frame _ _ _ _ _ _ Hs) as (sc & Hc & E1 & _ & _ & _ & _ & _ & _ & Ecl).
      pose proof (route_core _ _ _ _ _ _ Hc F0 I) as J.
      assert (O : owns s1 = owns sc) by (destruct Ecl as [->| ->]; reflexivity).
      unfold route_inv in *. rewrite O, E1. exact J.
    + unfold drain in Hs. inversion Hs; subst. exact I.
    + eapply route_close; eauto.
    + eapply route_retire; eauto.
Qed.

Lemma route_inv_s0 : route_inv s0.
Proof. split; [intros n k [] | intros n m k []]. Qed.

(** an Initial for a DCID that already has a connection is handed to that connection *)
Lemma routed_core c s now size dcid scid tok addr intact newcid n :
  saMinInitialPacketSize <= size -> (tok_empty tok && (zlen dcid <? saMinConnectionIDLenInitial)) = false ->
  hget dcid (handlers s) = Some n ->
  recv_core c s now (SPinitial size dcid scid tok addr intact newcid) = (s, SRouted n).
Proof.
  intros S T G. unfold recv_core, recv_initial. rewrite T, G.
  destruct (Z.ltb_spec size saMinInitialPacketSize); [lia | reflexivity].
Qed.

(** every Retry that is ever sent answers an Initial of at least 1200 bytes that carried no usable token and came
    from an address for which verification is demanded; it goes to that address, for that DCID and SCID *)
Definition retry_cause (c : scfg) (a : Z) (d sc : cid) (o : sop) : Prop :=
  exists now size tok intact newcid,
    o = SRecv now (SPinitial size d sc tok a intact newcid) /\ saMinInitialPacketSize <= size /\
    usable tok = false /\ zmem a (verifyAddrs c) = true.

Lemma retryq_step c s o s1 out : sstep c s o = (s1, out) ->
  forall a d sc i, In (a, d, sc, i) (retryq s1) -> In (a, d, sc, i) (retryq s) \/ retry_cause c a d sc o.
Proof.
  intros Hs a d sc i I. destruct o as [now p| |n|n k]; simpl in Hs.
  3: { destruct (rm_frame s s1 out (or_introl (ex_intro _ n Hs))) as (_ & _ & _ & _ & _ & R & _). left. congruence. }
  3: { destruct (rm_frame s s1 out (or_intror (ex_intro _ n (ex_intro _ k Hs)))) as (_ & _ & _ & _ & _ & R & _). left. congruence. }
  - destruct (recv_frame _ _ _ _ _ _ Hs) as (sx & Hc & _ & _ & _ & _ & _ & _ & R & _).
    rewrite R in I. destruct (retryq_core _ _ _ _ _ _ Hc) as [E|E].
    + left. congruence.
    + destruct (retry_core _ _ _ _ _ _ true Hc E) as (size & dcid & scid & tok & addr & intact & newcid & Ep & Sz & _ & U & V & _ & _ & _ & _ & Q).
      rewrite Q in I. apply in_app_or in I. destruct I as [I|[I|[]]]; [left; exact I|].
      inversion I; subst. right. exists now, size, tok, i, newcid. auto.
  - destruct (drain_frame _ _ _ Hs) as (_ & _ & _ & _ & _ & R & _). rewrite R in I. contradiction.
Qed.

Lemma retry_origin c ops : forall s s' outs, srun c s ops = (s', outs) ->
  (forall a d sc i, In (a, d, sc, i) (retryq s') ->
     In (a, d, sc, i) (retryq s) \/ exists o, In o ops /\ retry_cause c a d sc o) /\
  (forall l a d sc, In (SDrained l) outs -> In (3, a, d, sc) l ->
     (exists i, In (a, d, sc, i) (retryq s)) \/ exists o, In o ops /\ retry_cause c a d sc o).
Proof.
  induction ops as [|o r IH]; intros s s' outs H.
  - simpl in H. inversion H; subst. split; [auto | intros l a d sc []].
  - rewrite srun_cons in H. destruct (sstep c s o) as [s1 out] eqn:Hs.
    destruct (srun c s1 r) as [s2 o2] eqn:Hr. inversion H; subst.
    destruct (IH _ _ _ Hr) as (IH1 & IH2).
    pose proof (retryq_step _ _ _ _ _ Hs) as K.
    split.
    + intros a d sc i I. destruct (IH1 _ _ _ _ I) as [J|(o' & Io & C)].
      * destruct (K _ _ _ _ J) as [L|C]; [auto|]. right. exists o. split; [left; auto | exact C].
      * right. exists o'. split; [right; exact Io | exact C].
    + intros l a d sc [E|I] J.
      * subst out. destruct o as [now p| |n|n k]; simpl in Hs.
        -- exfalso. unfold recv in Hs. destruct (recv_core c s now p) as [sx ox] eqn:Ec.
           assert (ox = SDrained l) by (destruct (negb (nextCleanup s =? 0) && (nextCleanup s <? now)); inversion Hs; auto).
           subst ox. revert Ec. clear. core_cases p.
        -- unfold drain in Hs. inversion Hs; subst. left.
           apply in_app_or in J. destruct J as [J|J].
           { apply in_map_iff in J. destruct J as (x & Ex & _). inversion Ex. }
           apply in_app_or in J. destruct J as [J|J].
           { apply in_map_iff in J. destruct J as ([[[? ?] ?] ?] & Ex & _). inversion Ex. }
           apply in_app_or in J. destruct J as [J|J].
           { apply in_map_iff in J. destruct J as ([[[? ?] ?] ?] & Ex & _). inversion Ex. }
           apply in_map_iff in J. destruct J as ([[[a' d'] sc'] i'] & Ex & Ix). inversion Ex; subst. exists i'. exact Ix.
        -- exfalso. destruct (rm_frame s s1 _ (or_introl (ex_intro _ n Hs))) as (_ & _ & _ & _ & _ & _ & _ & _ & k0 & Ek). discriminate.
        -- exfalso. destruct (rm_frame s s1 _ (or_intror (ex_intro _ n (ex_intro _ k Hs)))) as (_ & _ & _ & _ & _ & _ & _ & _ & k0 & Ek). discriminate.
      * destruct (IH2 _ _ _ _ I J) as [(i & Q)|(o' & Io & C)].
        -- destruct (K _ _ _ _ Q) as [L|C]; [left; eauto|]. right. exists o. split; [left; auto | exact C].
        -- right. exists o'. split; [right; exact Io | exact C].
Qed.

(** run-level corollaries from the empty server *)
Lemma sa_vn_sends c ops s' outs l a d sc :
  srun c s0 ops = (s', outs) -> In (SDrained l) outs -> In (0, a, d, sc) l ->
  exists now size, In (SRecv now (SPunsupported size a)) ops /\ saMinUnknownVersionPacketSize <= size /\ disableVN c = false.
Proof.
  intros H I J. destruct (vn_origin c ops _ _ _ H) as (_ & V).
  destruct (V _ _ _ _ I J) as [[]|E]. exact E.
Qed.

Lemma sa_retry_sends c ops s' outs l a d sc :
  srun c s0 ops = (s', outs) -> In (SDrained l) outs -> In (3, a, d, sc) l ->
  exists o, In o ops /\ retry_cause c a d sc o.
Proof.
  intros H I J. destruct (retry_origin c ops _ _ _ H) as (_ & V).
  destruct (V _ _ _ _ I J) as [(i & [])|E]. exact E.
Qed.

Lemma sa_verified c ops s' outs : srun c s0 ops = (s', outs) ->
  forall n d a v, In (n, d, a, v) (created s') -> zmem a (verifyAddrs c) = true -> v = true.
Proof. intros H. apply (verified_run c ops _ _ _ H). intros n d a v []. Qed.

(** With a connection ID generator that never hands out a registered ID: in every reachable state — connections may have
    closed, client DCIDs may have been retired — every connection ID a live connection has registered routes to that
    connection, and no connection ID is registered by two live connections (so: at most one live connection per
    client-chosen DCID, and it is the one the DCID routes to). *)
Lemma sa_routes c ops s' outs : srun c s0 ops = (s', outs) -> sfresh c s0 ops = true ->
  (forall n k, In (n, k) (owns s') -> hget k (handlers s') = Some n) /\
  (forall n m k, In (n, k) (owns s') -> In (m, k) (owns s') -> n = m).
Proof. intros H F. exact (route_run c ops _ _ _ H F route_inv_s0). Qed.

(** a new connection is only created for a DCID that is not routed: none while a live connection has it registered *)
Lemma no_second_while_live c s now p s1 n0 od0 rs0 v0 rtt0 e0 :
  recv_core c s now p = (s1, SNewConn n0 od0 rs0 v0 rtt0 e0) ->
  exists size dcid scid tok addr intact newcid, p = SPinitial size dcid scid tok addr intact newcid /\
    hget dcid (handlers s) = None /\ (route_inv s -> forall m, ~ In (m, dcid) (owns s)).
Proof.
  intros H. destruct (created_core _ _ _ _ _ _ H) as [(_ & _ & Nc & _)|(size & dcid & scid & tok & addr & intact & newcid & Ep & G & _ & _ & Nc & _)].
  - exfalso. revert H Nc. clear. core_cases p; simpl; intros; lia.
  - exists size, dcid, scid, tok, addr, intact, newcid. split; [exact Ep|]. split; [exact G|].
    intros (A & _) m I. rewrite (A _ _ I) in G. discriminate.
Qed.

Lemma sa_zq_bounds c ops s' outs : srun c s0 ops = (s', outs) ->
  zlen (zq s') <= saMax0RTTQueues /\ (forall k n e, In (k, (n, e)) (zq s') -> n <= saMax0RTTQueueLen) /\
  (acceptEarly c = false -> zq s' = []).
Proof. intros H. exact (zq_bounds_run c ops _ _ _ H (zq_inv_s0 c)). Qed.

Lemma sa_constants : saMinUnknownVersionPacketSize = 1200 /\ saMinInitialPacketSize = 1200 /\
  saMax0RTTQueues = 32 /\ saMax0RTTQueueLen = 31.
Proof. repeat split; reflexivity. Qed.

(** ---- buffered 0-RTT packets: handed to at most one connection, at most once ---- *)

Fixpoint qsum (q : list (cid * (Z * Z))) : Z :=
  match q with [] => 0 | (_, (n, _)) :: r => n + qsum r end.
Definition q_nonneg (q : list (cid * (Z * Z))) : Prop := forall k n e, In (k, (n, e)) q -> 0 <= n.

Definition early_of (o : sout) : Z := match o with SNewConn _ _ _ _ _ e => e | _ => 0 end.
Definition queued_of (o : sout) : Z := match o with SQueued0RTT => 1 | _ => 0 end.
Fixpoint n_handed (outs : list sout) : Z := match outs with [] => 0 | o :: r => early_of o + n_handed r end.
Fixpoint n_queued (outs : list sout) : Z := match outs with [] => 0 | o :: r => queued_of o + n_queued r end.

Lemma qsum_nonneg q : q_nonneg q -> 0 <= qsum q.
Proof.
  induction q as [|[k [n e]] r IH]; simpl; intros H; [lia|].
  pose proof (H k n e (or_introl eq_refl)). assert (q_nonneg r) by (intros a b c I; eapply H; right; eauto). specialize (IH H1). lia.
Qed.

Lemma q_nonneg_tail k n e r : q_nonneg ((k, (n, e)) :: r) -> 0 <= n /\ q_nonneg r.
Proof. intros H. split; [eapply H; left; reflexivity | intros a b c I; eapply H; right; eauto]. Qed.

Lemma zget_In c q v : zget c q = Some v -> exists k, In (k, v) q.
Proof.
  induction q as [|[k w] r IH]; simpl; [discriminate|].
  destruct (cid_eqb k c); intros H; [inversion H; subst; exists k; left; reflexivity|].
  destruct (IH H) as (k' & I). exists k'. right. exact I.
Qed.

Lemma qsum_zdel c q : q_nonneg q -> q_nonneg (zdel c q) /\
  qsum (zdel c q) + (match zget c q with Some (n, _) => n | None => 0 end) <= qsum q.
Proof.
  induction q as [|[k [n e]] r IH]; simpl; intros H; [split; [intros ? ? ? []|lia]|].
  destruct (q_nonneg_tail _ _ _ _ H) as (Hn & Hr). destruct (IH Hr) as (N & L).
  destruct (cid_eqb k c) eqn:E.
  - split; [exact N|]. pose proof (qsum_nonneg _ N). pose proof (qsum_nonneg _ Hr).
    destruct (zget c r) as [[m e']|] eqn:G; [|lia].
    destruct (zget_In _ _ _ G) as (k' & I). pose proof (Hr _ _ _ I). lia.
  - split.
    + intros a b d [I|I]; [inversion I; subst; exact Hn | eapply N; eauto].
    + simpl. lia.
Qed.

Lemma qsum_zdel_le c q : q_nonneg q -> q_nonneg (zdel c q) /\ qsum (zdel c q) <= qsum q.
Proof.
  intros H. destruct (qsum_zdel c q H) as (N & L). split; [exact N|].
  destruct (zget c q) as [[m e]|] eqn:G; [|lia].
  destruct (zget_In _ _ _ G) as (k & I). pose proof (H _ _ _ I). lia.
Qed.

Lemma qsum_keep now q : q_nonneg q -> q_nonneg (zq_keep now q) /\ qsum (zq_keep now q) <= qsum q.
Proof.
  induction q as [|[k [n e]] r IH]; simpl; intros H; [split; [intros ? ? ? []|lia]|].
  destruct (q_nonneg_tail _ _ _ _ H) as (Hn & Hr). destruct (IH Hr) as (N & L).
  destruct (now <? e).
  - split; [intros a b d [I|I]; [inversion I; subst; exact Hn | eapply N; eauto] | simpl; lia].
  - split; [exact N | lia].
Qed.

Lemma qsum_zinc c q : q_nonneg q -> zget c q <> None -> q_nonneg (zinc c q) /\ qsum (zinc c q) = qsum q + 1.
Proof.
  induction q as [|[k [n e]] r IH]; simpl; intros H G; [contradiction|].
  destruct (q_nonneg_tail _ _ _ _ H) as (Hn & Hr).
  destruct (cid_eqb k c) eqn:E.
  - split; [intros a b d [I|I]; [inversion I; subst; lia | eapply Hr; eauto] | simpl; lia].
  - destruct (IH Hr G) as (N & L).
    split; [intros a b d [I|I]; [inversion I; subst; exact Hn | eapply N; eauto] | simpl; lia].
Qed.

Lemma qsum_app q x : qsum (q ++ [x]) = qsum q + (match x with (_, (n, _)) => n end).
Proof. induction q as [|[k [n e]] r IH]; simpl; [destruct x as [? [? ?]]; lia | rewrite IH; lia]. Qed.

Local Opaque Z.add.
Lemma early_core c s now p s1 o : recv_core c s now p = (s1, o) -> q_nonneg (zq s) ->
  q_nonneg (zq s1) /\ early_of o + qsum (zq s1) <= queued_of o + qsum (zq s).
Proof.
  intros H N. revert H. core_cases p; try (split; [exact N | lia]).
  all: try (destruct (qsum_zdel dcid (zq s) N) as (N1 & L1);
            repeat match goal with G : zget _ _ = _ |- _ => rewrite G in L1; clear G end;
            pose proof (qsum_nonneg _ N1); split; [exact N1 | lia]).
  all: try (destruct (qsum_zdel_le dcid (zq s) N) as (N1 & L1); split; [exact N1 | lia]).
  all: try (assert (G : zget dcid (zq s) <> None) by congruence;
            destruct (qsum_zinc dcid (zq s) N G) as (N1 & L1); split; [exact N1 | lia]).
  all: split; [intros a b d I; apply in_app_or in I; destruct I as [I|[I|[]]]; [eapply N; eauto | inversion I; lia] | rewrite qsum_app; lia].
Qed.

Local Transparent Z.add.

Lemma early_step c s o s1 out : sstep c s o = (s1, out) -> q_nonneg (zq s) ->
  q_nonneg (zq s1) /\ early_of out + qsum (zq s1) <= queued_of out + qsum (zq s).
Proof.
  intros H N. destruct o as [now p| |n|n k]; simpl in H.
  3: { destruct (rm_frame s s1 out (or_introl (ex_intro _ n H))) as (Z & _ & _ & _ & _ & _ & _ & _ & k0 & ->). rewrite Z. simpl. split; [exact N | lia]. }
  3: { destruct (rm_frame s s1 out (or_intror (ex_intro _ n (ex_intro _ k H)))) as (Z & _ & _ & _ & _ & _ & _ & _ & k0 & ->). rewrite Z. simpl. split; [exact N | lia]. }
  - unfold recv in H. destruct (recv_core c s now p) as [sx ox] eqn:E.
    destruct (early_core _ _ _ _ _ _ E N) as (N1 & L1).
    destruct (negb (nextCleanup s =? 0) && (nextCleanup s <? now)); inversion H; subst; [|auto].
    unfold cleanup, set_zq. simpl. destruct (qsum_keep now (zq sx) N1) as (N2 & L2). split; [exact N2 | lia].
  - unfold drain in H. inversion H; subst. simpl. split; [exact N | lia].
Qed.

(** Over any input: the 0-RTT packets handed to new connections plus those still queued never exceed those that were
    queued — a buffered packet is handed to at most one connection (the one created for its DCID: [early] of SNewConn is
    that DCID's queue, which is deleted with the hand-over), at most once; everything else was dropped (queue bounds,
    expiry after Max0RTTQueueingDuration, a Retry or a refusal for that DCID). *)
Lemma early_at_most_once c ops : forall s s' outs, srun c s ops = (s', outs) -> q_nonneg (zq s) ->
  q_nonneg (zq s') /\ n_handed outs + qsum (zq s') <= n_queued outs + qsum (zq s).
Proof.
  induction ops as [|o r IH]; intros s s' outs H N.
  - simpl in H. inversion H; subst. simpl. split; [exact N | lia].
  - rewrite srun_cons in H. destruct (sstep c s o) as [s1 out] eqn:Hs.
    destruct (srun c s1 r) as [s2 o2] eqn:Hr. inversion H; subst.
    destruct (early_step _ _ _ _ _ Hs N) as (N1 & L1). destruct (IH _ _ _ Hr N1) as (N2 & L2).
    split; [exact N2 | simpl; lia].
Qed.

Lemma sa_early_at_most_once c ops s' outs : srun c s0 ops = (s', outs) ->
  n_handed outs + qsum (zq s') <= n_queued outs /\ 0 <= qsum (zq s').
Proof.
  intros H. destruct (early_at_most_once c ops _ _ _ H) as (N & L); [intros ? ? ? []|].
  simpl in L. split; [lia | apply qsum_nonneg; exact N].
Qed.

(** the clean-up keeps exactly the queues that have not expired *)
Lemma cleanup_expired s now k n e : In (k, (n, e)) (zq (cleanup s now)) -> now < e /\ In (k, (n, e)) (zq s).
Proof.
  unfold cleanup, set_zq. simpl. induction (zq s) as [|[k' [n' e']] r IH]; simpl; [intros []|].
  destruct (Z.ltb_spec now e').
  - intros [I|I]; [inversion I; subst; split; [lia | left; reflexivity] | destruct (IH I); split; [assumption | right; assumption]].
  - intros I. destruct (IH I). split; [assumption | right; assumption].
Qed.
