(** Correspondence glue for the unit ServerAccept: what harness/drv/c13_serveraccept.go prints.
    Connection IDs are written as [hx "..."] inside the terms. *)
From Coq Require Import List ZArith Bool String.
From V Require Import Gen.Params Lib.Hex.
From V Require Export ConnAccept.Model ServerAccept.Model.
Import ListNotations.
Open Scope Z_scope.

(** observed server state after a step: size of the routing map, connections created, the 0-RTT queues
    (connection ID, packets) in any order, next cleanup time, lengths of the four send queues *)
Inductive saobs := SAObs (nhandlers nconns : Z) (zqs : list (cid * Z)) (nextCleanup nvn ninv nref nretry : Z).

Inductive sastep := SASt (o : sop) (out : sout) (ob : saobs).

Inductive case := CaseSA (c : scfg) (steps : list sastep).

Definition opt_cid_eq (a b : option cid) : bool := opt_cid_eqb a b.

Fixpoint sends_eqb (a b : list (Z * Z * cid * cid)) : bool :=
  match a, b with
  | [], [] => true
  | (k, ad, d, s) :: a', (k', ad', d', s') :: b' =>
      (k =? k') && (ad =? ad') && cid_eqb d d' && cid_eqb s s' && sends_eqb a' b'
  | _, _ => false
  end.

Definition sout_eqb (a b : sout) : bool :=
  match a, b with
  | SDrop x, SDrop y => Bool.eqb x y
  | SQueuedVN, SQueuedVN | SVNBusy, SVNBusy | SQueued0RTT, SQueued0RTT => true
  | SRouted n, SRouted m => n =? m
  | SInvalidToken x, SInvalidToken y | SRetry x, SRetry y | SRefused x, SRefused y => Bool.eqb x y
  | SNewConn n od rs v rtt e, SNewConn n' od' rs' v' rtt' e' =>
      (n =? n') && cid_eqb od od' && opt_cid_eq rs rs' && Bool.eqb v v' && (rtt =? rtt') && (e =? e')
  | SDrained x, SDrained y => sends_eqb x y
  | SRemoved x, SRemoved y => x =? y
  | _, _ => false
  end.

Fixpoint zqs_in (obs : list (cid * Z)) (q : list (cid * (Z * Z))) : bool :=
  match obs with
  | [] => true
  | (k, n) :: r => (match zget k q with Some (m, _) => n =? m | None => false end) && zqs_in r q
  end.

Definition saobs_ok (s : sst) (ob : saobs) : bool :=
  match ob with
  | SAObs nh nc zqs ncl nvn ninv nref nretry =>
      (zlen (handlers s) =? nh) && (nconn s =? nc) &&
      (zlen (zq s) =? zlen zqs) && zqs_in zqs (zq s) && (nextCleanup s =? ncl) &&
      (zlen (vnq s) =? nvn) && (zlen (invq s) =? ninv) && (zlen (refq s) =? nref) && (zlen (retryq s) =? nretry)
  end.

(** A send queue that is full drops the packet silently: from outside a queue-full outcome looks like a drop
    (the buffer stays in use on the Initial path, not on the Version Negotiation path). *)
Definition norm (o : sout) : sout :=
  match o with
  | SVNBusy => SDrop false
  | SInvalidToken false | SRetry false | SRefused false => SDrop true
  | _ => o
  end.

Fixpoint check_sa (c : scfg) (s : sst) (l : list sastep) : bool :=
  match l with
  | [] => true
  | SASt o out ob :: r =>
      let '(s1, mo) := sstep c s o in
      sout_eqb (norm mo) out && saobs_ok s1 ob && check_sa c s1 r
  end.

Fixpoint model_sa (c : scfg) (s : sst) (l : list sastep) : list (sout * sst) :=
  match l with
  | [] => []
  | SASt o _ _ :: r => let '(s1, mo) := sstep c s o in (mo, s1) :: model_sa c s1 r
  end.

Definition obs := list (sout * sst).
Definition model_obs (c : case) : obs := match c with CaseSA cf steps => model_sa cf s0 steps end.
Definition check_case (c : case) : bool := match c with CaseSA cf steps => check_sa cf s0 steps end.
