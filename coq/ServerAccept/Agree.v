(** Agreement-or-clean-failure for the modelled part of the handshake (C13, round 6).

    Composes the client's pre-authentication filter (ConnAccept.Model.run, the model the traces of unit `hstrace`
    are replayed through as CaseTrace) with the server's admission (ServerAccept.Model.recv_core, unit `serveraccept`).

    The link between the two sides is the transport-parameter triple. connection.go:350-358 (newConnection) puts into the
    server's transport parameters
        initial_source_connection_id        = srcConnID        = the ID the generator returned   = [newcid]
        original_destination_connection_id  = origDestConnID   = SNewConn's [od]
        retry_source_connection_id          = retrySrcConnID   = SNewConn's [rs]
    and the client checks what TLS hands it with check_tp (connection.go:2443-2460).

    Hypotheses that are TLS's and are NOT modelled (named here, used by the statement as its shape):
      H_tls_tp    the triple that reaches the client's transport-parameter handler is the one connection n set
                  (transport parameters are authenticated by the TLS handshake); this is why the client's last
                  op below is [OpTP newcid od rs] for the very values of the server's SNewConn outcome;
      H_tls_alpn  ALPN selection and H_tls_0rtt 0-RTT acceptance are decided inside TLS; nothing is claimed about them.
    The version on the server side is the version of the Initial it accepted (server.go passes hdr.Version to
    newConnection); the admission model does not carry it, so version agreement is stated from the client's side:
    every packet the client ever processes carries the client's version (processed_version). *)
From Coq Require Import List ZArith Bool Lia.
From V Require Import Gen.Params Lib.Hex ConnAccept.Model ConnAccept.Proofs ServerAccept.Model ServerAccept.Proofs.
Import ListNotations.
Open Scope Z_scope.

Section Agree.
Variable tagf : cid -> list Z -> Z -> list Z.

Lemma last_cons_ne (A : Type) (x : A) l d : l <> [] -> last (x :: l) d = last l d.
Proof. destruct l; [congruence|reflexivity]. Qed.

(** The run over [ops ++ [o]]: either it was over before [o] (terminal outcome earlier, [o] not handled), or [o] is
    handled in the state the run over [ops] ends in and its outcome is the last one. *)
Lemma run_snoc ops : forall s o s' outs, run tagf s (ops ++ [o]) = (s', outs) ->
  (terminal (last (snd (run tagf s ops)) ONone) = true /\ run tagf s ops = (s', outs)) \/
  (terminal (last (snd (run tagf s ops)) ONone) = false /\
   step tagf (fst (run tagf s ops)) o = (s', last outs ONone) /\ outs <> []).
Proof.
  induction ops as [|a r IH]; intros s o s' outs H.
  - right. simpl app in H. rewrite run_cons in H. simpl. destruct (step tagf s o) as [s1 out] eqn:Hs.
    split; [reflexivity|]. destruct (terminal out); simpl in H; inversion H; subst; split; simpl; congruence.
  - simpl app in H. rewrite run_cons in H. rewrite run_cons. destruct (step tagf s a) as [sa out] eqn:Hs.
    destruct (terminal out) eqn:Ht.
    + left. simpl. auto.
    + destruct (run tagf sa (r ++ [o])) as [s2 outs2] eqn:Hr. inversion H; subst s' outs. clear H.
      destruct (IH sa o s2 outs2 Hr) as [(T & E)|(T & E & N)].
      * left. rewrite E. simpl. rewrite E in T. simpl in T. split; [|reflexivity].
        destruct outs2 as [|y l]; [simpl in T; discriminate|]. exact T.
      * right. destruct (run tagf sa r) as [s1 outs1] eqn:Hr1. cbn [fst snd] in *. split; [|split].
        -- destruct outs1 as [|y l]; [simpl; exact Ht|simpl in *; exact T].
        -- rewrite last_cons_ne by exact N. exact E.
        -- discriminate.
Qed.

(** Version: whatever is injected, a long-header packet the client processes carries the client's version. *)
Lemma processed_version ver vers neg dc tok ops1 ty sv scid k pn pl :
  snd (step tagf (fst (run tagf (init_client ver vers neg dc tok) ops1)) (OpPkt (PLong ty sv scid k pn pl))) = OProcessed ->
  sv = ver.
Proof.
  destruct (run tagf (init_client ver vers neg dc tok) ops1) as [s1 o1] eqn:Hr.
  destruct (run_orig tagf _ _ _ _ Hr) as (_ & _ & _ & V). simpl in V. simpl fst.
  unfold step, handle_pkt. destruct (sv =? version s1) eqn:E; simpl.
  - intros _. apply Z.eqb_eq in E. congruence.
  - discriminate.
Qed.

(** the packet the server created its connection for *)
Lemma creation_shape c ss now size d sc tk addr intact newcid ss1 n od rs verified rtt e :
  recv_core c ss now (SPinitial size d sc tk addr intact newcid) = (ss1, SNewConn n od rs verified rtt e) ->
  hget newcid (handlers ss1) = Some n /\
  ((rs = None /\ od = d /\ forall od0 rs0, tk <> TkRetry true od0 rs0) \/
   (exists a, rs = Some a /\ tk = TkRetry true od a)).
Proof.
  unfold recv_core, recv_initial.
  destruct (size <? saMinInitialPacketSize); [discriminate|].
  destruct (tok_empty tk && (zlen d <? saMinConnectionIDLenInitial)); [discriminate|].
  destruct (hget d (handlers ss)); [discriminate|].
  destruct tk as [| |valid od0 rs0|valid rtt0]; cbn [token_decision negb];
    try destruct valid; cbn [negb andb];
    repeat match goal with
           | |- context [if ?b then _ else _] => destruct b; try discriminate
           end;
    intros H; inversion H; subst; cbn [handlers]; (split; [apply hget_hput_same|]);
    first [ left; repeat split; auto; intros; discriminate
          | right; eexists; split; reflexivity ].
Qed.

(** Agreement or clean failure, for the modelled part (version and authenticated connection IDs). *)
Theorem agree_or_fail_modelled :
  forall ver vers neg dc tok ops s' outs
         c ss now size d sc tk addr intact newcid ss1 n od rs verified rtt e,
  recv_core c ss now (SPinitial size d sc tk addr intact newcid) = (ss1, SNewConn n od rs verified rtt e) ->
  run tagf (init_client ver vers neg dc tok) (ops ++ [OpTP newcid od rs]) = (s', outs) ->
  (last outs ONone = OTPOk /\
   version s' = ver /\ hsDCID s' = newcid /\ origDCID s' = dc /\ od = dc /\ rs = retrySCID s' /\
   hget newcid (handlers ss1) = Some n /\
   ((rs = None /\ d = dc /\ forall od0 rs0, tk <> TkRetry true od0 rs0) \/
    (exists a, rs = Some a /\ tk = TkRetry true dc a /\
               exists v t body, In (OpPkt (PRetry v a t body (tagf dc body v))) ops)))
  \/
  (terminal (last outs ONone) = true /\
   forall more, run tagf (init_client ver vers neg dc tok) ((ops ++ [OpTP newcid od rs]) ++ more) = (s', outs)).
Proof.
  intros until e. intros Hc Hr.
  destruct (creation_shape _ _ _ _ _ _ _ _ _ _ _ _ _ _ _ _ _ Hc) as (Hroute & Htk).
  destruct (run_snoc _ _ _ _ _ Hr) as [(T & E)|(T & E & N)].
  - right. rewrite E in T. simpl in T. split; [exact T|]. intros more. eapply closed_stops; eauto.
  - destruct (run tagf (init_client ver vers neg dc tok) ops) as [s1 outs1] eqn:Hr1. simpl in E, T.
    unfold step in E. inversion E as [[Es Eo]]. subst s1. clear E.
    destruct (check_tp s' newcid od rs) eqn:Hck.
    + left. split; [congruence|].
      destruct (run_orig tagf _ _ _ _ Hr1) as (O & _ & _ & V). simpl in O, V.
      destruct (cid_authentication tagf _ _ _ _ _ _ _ _ _ _ _ Hr1 Hck) as (Ei & Eod & Er).
      pose proof Hck as Hck2. apply check_tp_iff in Hck2. destruct Hck2 as (_ & Hcl).
      destruct (run_orig tagf _ _ _ _ Hr1) as (_ & Cl & _). simpl in Cl. destruct (Hcl Cl) as (_ & Ers).
      repeat split; try congruence.
      destruct Htk as [(R0 & Od & Nt)|(a & R0 & Etk)].
      * left. repeat split; try congruence.
      * right. exists a. subst rs. split; [reflexivity|]. split; [congruence|]. exact Er.
    + right. split; [reflexivity|]. intros more. eapply closed_stops; eauto. rewrite <- Eo. reflexivity.
Qed.

End Agree.
