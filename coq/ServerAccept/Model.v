(** ServerAccept — the server's packet acceptance in /repo/server.go: handlePacketImpl,
    handle0RTTPacket, cleanupZeroRTTQueues, handleInitialImpl, and the four bounded send queues
    (Version Negotiation, INVALID_TOKEN, CONNECTION_REFUSED, Retry) drained by runSendQueue.

    Executable definitions only. Enter as data: wire parsing (a datagram arrives as its class and parsed
    header fields), the token's decoded class (decoding / validation is C14's model AmpToken.TokenModel:
    [TkRetry valid odcid rscid] stands for a decodable Retry token, [valid] = validateToken's verdict for
    the sender's address and the current time), the connection ID the generator returns, the verdicts of
    the callbacks VerifySourceAddress / GetConfigForClient per address. *)
From Coq Require Import List ZArith Bool.
From V Require Import Gen.Params Lib.Hex ConnAccept.Model.
Import ListNotations.
Open Scope Z_scope.

Inductive tclass :=
| TkNone                                             (* empty token field *)
| TkGarbage                                          (* non-empty, DecodeToken fails *)
| TkRetry (valid : bool) (odcid rscid : cid)         (* decodes to a Retry token *)
| TkNew (valid : bool) (rtt : Z).                    (* decodes to a NEW_TOKEN token *)

Inductive spkt :=
| SPvn                                               (* long header, version 0 *)
| SPnoversion                                        (* long header too short to carry a version *)
| SPunsupported (size : Z) (addr : Z)                (* version not in Config.Versions *)
| SP0rtt (dcid : cid)
| SPbadhdr                                           (* supported version, ParsePacket fails *)
| SPother                                            (* Handshake / Retry type *)
| SPinitial (size : Z) (dcid scid : cid) (tok : tclass) (addr : Z) (intact : bool) (newcid : cid).

Inductive sop :=
| SRecv (now : Z) (p : spkt)
| SDrain
| SClose (n : Z)                 (* connection n ends: every connection ID it registered is removed from the routing map (by key) *)
| SRetire (n : Z) (k : cid).     (* connection n retires connection ID k (the client's DCID once the handshake is confirmed) *)

Record scfg := mkCfg {
  disableVN : bool;
  acceptEarly : bool;
  verifyAddrs : list Z;       (* addresses for which VerifySourceAddress returns true (none if no callback) *)
  refuseAddrs : list Z        (* addresses for which GetConfigForClient returns an error *)
}.

(** a rejected packet waiting in a send queue: sender, its DCID and SCID, could it be unprotected *)
Definition rej := (Z * cid * cid * bool)%type.

Record sst := mkS {
  handlers : list (cid * Z);            (* routing map: connection ID -> connection number *)
  nconn : Z;
  created : list (Z * cid * Z * bool);   (* history: connection number, client DCID, address, address verified *)
  owns : list (Z * cid);                (* live registrations: connection number, connection ID it registered in the routing map
                                            (its client's DCID until that is retired, and its own first connection ID) *)
  zq : list (cid * (Z * Z));            (* 0-RTT queues: connection ID -> (packets, expiration) *)
  nextCleanup : Z;                      (* 0 = unset *)
  vnq : list Z;                         (* addresses *)
  invq : list rej;
  refq : list rej;
  retryq : list rej
}.

Definition s0 : sst := mkS [] 0 [] [] [] 0 [] [] [] [].

Inductive sout :=
| SDrop (bufInUse : bool)
| SQueuedVN | SVNBusy
| SQueued0RTT
| SRouted (n : Z)
| SInvalidToken (queued : bool)
| SRetry (queued : bool)
| SRefused (queued : bool)
| SNewConn (n : Z) (odcid : cid) (rscid : option cid) (verified : bool) (rtt : Z) (early : Z)
| SDrained (sends : list (Z * Z * cid * cid))
| SRemoved (k : Z).              (* number of routing entries removed *)   (* kind (0 VN, 1 INVALID_TOKEN, 2 REFUSED, 3 Retry), address, DCID and SCID of the rejected packet *)

Fixpoint hget (c : cid) (h : list (cid * Z)) : option Z :=
  match h with [] => None | (k, n) :: r => if cid_eqb k c then Some n else hget c r end.
Fixpoint hput (c : cid) (n : Z) (h : list (cid * Z)) : list (cid * Z) :=
  match h with
  | [] => [(c, n)]
  | (k, m) :: r => if cid_eqb k c then (k, n) :: r else (k, m) :: hput c n r
  end.

Fixpoint zget (c : cid) (q : list (cid * (Z * Z))) : option (Z * Z) :=
  match q with [] => None | (k, v) :: r => if cid_eqb k c then Some v else zget c r end.
Fixpoint zdel (c : cid) (q : list (cid * (Z * Z))) : list (cid * (Z * Z)) :=
  match q with [] => [] | (k, v) :: r => if cid_eqb k c then zdel c r else (k, v) :: zdel c r end.
Fixpoint zinc (c : cid) (q : list (cid * (Z * Z))) : list (cid * (Z * Z)) :=
  match q with
  | [] => []
  | (k, (n, e)) :: r => if cid_eqb k c then (k, (n + 1, e)) :: r else (k, (n, e)) :: zinc c r
  end.

Definition set_h (s : sst) h n c := mkS h n c (owns s) (zq s) (nextCleanup s) (vnq s) (invq s) (refq s) (retryq s).
Definition set_zq (s : sst) q nc := mkS (handlers s) (nconn s) (created s) (owns s) q nc (vnq s) (invq s) (refq s) (retryq s).
Definition set_vnq (s : sst) q := mkS (handlers s) (nconn s) (created s) (owns s) (zq s) (nextCleanup s) q (invq s) (refq s) (retryq s).
Definition set_invq (s : sst) q := mkS (handlers s) (nconn s) (created s) (owns s) (zq s) (nextCleanup s) (vnq s) q (refq s) (retryq s).
Definition set_refq (s : sst) q := mkS (handlers s) (nconn s) (created s) (owns s) (zq s) (nextCleanup s) (vnq s) (invq s) q (retryq s).
Definition set_retryq (s : sst) q := mkS (handlers s) (nconn s) (created s) (owns s) (zq s) (nextCleanup s) (vnq s) (invq s) (refq s) q.

(** handle0RTTPacket *)
Definition recv_0rtt (s : sst) (now : Z) (dcid : cid) : sst * sout :=
  match hget dcid (handlers s) with
  | Some n => (s, SRouted n)
  | None =>
    match zget dcid (zq s) with
    | Some (len, _) =>
        if saMax0RTTQueueLen <=? len then (s, SDrop false)
        else (set_zq s (zinc dcid (zq s)) (nextCleanup s), SQueued0RTT)
    | None =>
        if saMax0RTTQueues <=? zlen (zq s) then (s, SDrop false)
        else let e := now + saMax0RTTQueueingDuration in
             (set_zq s (zq s ++ [(dcid, (1, e))])
                     (if (nextCleanup s =? 0) || (e <? nextCleanup s) then e else nextCleanup s),
              SQueued0RTT)
    end
  end.

(** the token part of handleInitialImpl, on the token's class:
    (usable token?, address verified, original DCID, retry SCID, rtt, reject with INVALID_TOKEN) *)
Definition token_decision (tok : tclass) (dcid : cid) : bool * bool * cid * option cid * Z * bool :=
  match tok with
  | TkNone | TkGarbage => (false, false, dcid, None, 0, false)
  | TkRetry valid od rs => (valid, valid, od, Some rs, 0, negb valid)
  | TkNew valid rtt => (valid, valid, dcid, None, (if valid then rtt else 0), false)
  end.

Definition tok_empty (tok : tclass) : bool := match tok with TkNone => true | _ => false end.

(** handleInitialImpl *)
Definition recv_initial (c : scfg) (s : sst) (dcid scid : cid) (tok : tclass) (addr : Z) (intact : bool) (newcid : cid)
  : sst * sout :=
  if tok_empty tok && (zlen dcid <? saMinConnectionIDLenInitial) then (s, SDrop true)
  else match hget dcid (handlers s) with
  | Some n => (s, SRouted n)
  | None =>
    let '(usable, verified, od, rs, rtt, reject) := token_decision tok dcid in
    if reject then
      if zlen (invq s) <? saInvalidTokenQueueCap
      then (set_invq s (invq s ++ [(addr, dcid, scid, intact)]), SInvalidToken true)
      else (s, SInvalidToken false)
    else if negb usable && zmem addr (verifyAddrs c) then
      let s1 := set_zq s (zdel dcid (zq s)) (nextCleanup s) in
      if zlen (retryq s) <? saRetryQueueCap
      then (set_retryq s1 (retryq s ++ [(addr, dcid, scid, intact)]), SRetry true)
      else (s1, SRetry false)
    else if zmem addr (refuseAddrs c) then
      let s1 := set_zq s (zdel dcid (zq s)) (nextCleanup s) in
      if zlen (refq s) <? saRefusedQueueCap
      then (set_refq s1 (refq s ++ [(addr, dcid, scid, intact)]), SRefused true)
      else (s1, SRefused false)
    else
      let n := nconn s in
      let early := match zget dcid (zq s) with Some (k, _) => k | None => 0 end in
      let h := hput newcid n (hput dcid n (handlers s)) in
      (mkS h (n + 1) (created s ++ [(n, dcid, addr, verified)]) (owns s ++ [(n, dcid); (n, newcid)]) (zdel dcid (zq s)) (nextCleanup s)
           (vnq s) (invq s) (refq s) (retryq s),
       SNewConn n od rs verified rtt early)
  end.

(** cleanupZeroRTTQueues *)
Fixpoint zq_keep (now : Z) (q : list (cid * (Z * Z))) : list (cid * (Z * Z)) :=
  match q with
  | [] => []
  | (k, (n, e)) :: r => if now <? e then (k, (n, e)) :: zq_keep now r else zq_keep now r
  end.
Fixpoint zq_minexp (q : list (cid * (Z * Z))) : Z :=
  match q with
  | [] => 0
  | (_, (_, e)) :: r => let m := zq_minexp r in if (m =? 0) || (e <? m) then e else m
  end.
Definition cleanup (s : sst) (now : Z) : sst :=
  let q := zq_keep now (zq s) in set_zq s q (zq_minexp q).

(** handlePacketImpl *)
Definition recv_core (c : scfg) (s : sst) (now : Z) (p : spkt) : sst * sout :=
    match p with
    | SPvn | SPnoversion | SPbadhdr | SPother => (s, SDrop false)
    | SPunsupported size addr =>
        if disableVN c then (s, SDrop false)
        else if size <? saMinUnknownVersionPacketSize then (s, SDrop false)
        else if zlen (vnq s) <? saVNQueueCap then (set_vnq s (vnq s ++ [addr]), SQueuedVN)
        else (s, SVNBusy)
    | SP0rtt dcid => if acceptEarly c then recv_0rtt s now dcid else (s, SDrop false)
    | SPinitial size dcid scid tok addr intact newcid =>
        if size <? saMinInitialPacketSize then (s, SDrop false)
        else recv_initial c s dcid scid tok addr intact newcid
    end.

(** the clean-up of expired 0-RTT queues is decided on entry and runs (deferred) after the packet *)
Definition recv (c : scfg) (s : sst) (now : Z) (p : spkt) : sst * sout :=
  let due := negb (nextCleanup s =? 0) && (nextCleanup s <? now) in
  let '(s1, o) := recv_core c s now p in
  (if due then cleanup s1 now else s1, o).

(** runSendQueue over everything queued (VN, INVALID_TOKEN, CONNECTION_REFUSED, Retry); an INVALID_TOKEN
    is only sent if the rejected packet could be unprotected *)
Definition drain (s : sst) : sst * sout :=
  let k0 := map (fun a => (0, a, [], [])) (vnq s) in
  let k1 := map (fun r => match r with (a, d, sc, _) => (1, a, d, sc) end)
                (filter (fun r => match r with (_, _, _, i) => i end) (invq s)) in
  let k2 := map (fun r => match r with (a, d, sc, _) => (2, a, d, sc) end) (refq s) in
  let k3 := map (fun r => match r with (a, d, sc, _) => (3, a, d, sc) end) (retryq s) in
  (mkS (handlers s) (nconn s) (created s) (owns s) (zq s) (nextCleanup s) [] [] [] [], SDrained (k0 ++ k1 ++ k2 ++ k3)).

Fixpoint hdel (c : cid) (h : list (cid * Z)) : list (cid * Z) :=
  match h with [] => [] | (k, n) :: r => if cid_eqb k c then hdel c r else (k, n) :: hdel c r end.
Definition hdel_all (ks : list cid) (h : list (cid * Z)) : list (cid * Z) := fold_left (fun h k => hdel k h) ks h.
Definition owned_by (n : Z) (o : list (Z * cid)) : list cid :=
  map snd (filter (fun x => fst x =? n) o).

(** packetHandlerMap.Remove for every ID of a closing connection (connIDGenerator.RemoveAll) / for one retired ID *)
Definition close_conn (s : sst) (n : Z) : sst * sout :=
  let ks := owned_by n (owns s) in
  let h := hdel_all ks (handlers s) in
  (mkS h (nconn s) (created s) (filter (fun x => negb (fst x =? n)) (owns s)) (zq s) (nextCleanup s) (vnq s) (invq s) (refq s) (retryq s),
   SRemoved (zlen (handlers s) - zlen h)).
Definition retire_id (s : sst) (n : Z) (k : cid) : sst * sout :=
  if existsb (fun x => (fst x =? n) && cid_eqb (snd x) k) (owns s) then
    let h := hdel k (handlers s) in
    (mkS h (nconn s) (created s) (filter (fun x => negb ((fst x =? n) && cid_eqb (snd x) k)) (owns s)) (zq s) (nextCleanup s) (vnq s) (invq s) (refq s) (retryq s),
     SRemoved (zlen (handlers s) - zlen h))
  else (s, SRemoved 0).

Definition sstep (c : scfg) (s : sst) (o : sop) : sst * sout :=
  match o with
  | SRecv now p => recv c s now p
  | SDrain => drain s
  | SClose n => close_conn s n
  | SRetire n k => retire_id s n k
  end.

Fixpoint srun (c : scfg) (s : sst) (ops : list sop) : sst * list sout :=
  match ops with
  | [] => (s, [])
  | o :: r => let '(s1, out) := sstep c s o in let '(s2, outs) := srun c s1 r in (s2, out :: outs)
  end.
