(** The hypotheses of ServerAccept.Bridge are jointly satisfiable on a concrete history (C14's toy protector). *)
From Coq Require Import List ZArith Bool Lia.
From V Require Import Gen.Params Lib.Hex ConnAccept.Model ServerAccept.Model ServerAccept.Proofs ServerAccept.Bridge
                      AmpToken.TokenModel AmpToken.TokenProofs.
Import ListNotations.
Open Scope Z_scope.
Import Instance.

Definition bi_addr (a : Z) : addr := if a =? 0 then a0 else UDPAddr [10; 0; 0; 1] (4000 + a).  (* all on one host *)
Definition bi_cfg : scfg := mkCfg false false [0; 1] [].
Definition bi_dcid : cid := [1; 2; 3; 4; 5; 6; 7; 8].
Definition bi_pre : list bop :=
  [ BInitial 900 1200 bi_dcid [4; 4] [] 0 true [];          (* no token, address 0 must be verified: Retry queued *)
    BDrain 1000 [(nonce0, [9; 9; 9; 9])] ].                 (* the Retry goes out with tok0 *)

Definition bi_state := brun Z openI unmarshalI 7 bi_addr 86400 500 bi_cfg (s0, []) bi_pre.

Lemma bi_log : snd bi_state = [(nonce0, r0)].
Proof. vm_compute. reflexivity. Qed.

Lemma bi_sealed_iff k n d : sealed_of Z marshalI 7 (snd bi_state) k n d <-> sealedI k n d.
Proof.
  rewrite bi_log. unfold sealed_of, sealedI. split.
  - intros (-> & r & [I|[]] & ->). inversion I; subst. auto.
  - intros (-> & -> & ->). split; [reflexivity|]. exists r0. split; [left; reflexivity | reflexivity].
Qed.

Lemma bi_correct : oracles_correct sealI openI marshalI unmarshalI (sealed_of Z marshalI 7 (snd bi_state)).
Proof.
  split; [|exact unmarshal_marshalI].
  intros k n d H. apply bi_sealed_iff in H. exact (open_seal _ _ _ _ _ correctI k n d H).
Qed.

Lemma bi_ideal : protector_ideal sealI openI (sealed_of Z marshalI 7 (snd bi_state)).
Proof.
  split.
  - intros k n c d H. destruct (int_ctxt _ _ _ idealI k n c d H) as (S & E). split; [apply bi_sealed_iff; exact S | exact E].
  - exact (key_sep _ _ _ idealI).
Qed.

(** the client answers the Retry from another port of the same host, 400 ns later, with the token: a connection with the
    original DCID and the Retry SCID is created, address validated; from another host, or 501 ns later, it is not *)
Lemma bi_accept :
  snd (recv bi_cfg (fst bi_state) 1400
         (SPinitial 1200 [9; 9; 9; 9] [4; 4] (classify Z openI unmarshalI 7 bi_addr 86400 500 tok0 1 1400) 1 true [6; 6]))
  = SNewConn 0 bi_dcid (Some [9; 9; 9; 9]) true 0 0 /\
  snd (recv bi_cfg (fst bi_state) 1501
         (SPinitial 1200 [9; 9; 9; 9] [4; 4] (classify Z openI unmarshalI 7 bi_addr 86400 500 tok0 1 1501) 1 true [6; 6]))
  = SInvalidToken true.
Proof. split; vm_compute; reflexivity. Qed.

(** retry_token_bound applies to this history: its hypotheses hold, and it yields the Retry of the drain at 1000 *)
Lemma bi_bound :
  exists nonce a0' ts cs,
    In (nonce, Rec true (encodeRemoteAddr (bi_addr a0')) ts 0 bi_dcid [9; 9; 9; 9]) (snd bi_state) /\
    tok0 = newRetryToken (sealI 7) marshalI nonce (bi_addr a0') bi_dcid [9; 9; 9; 9] ts /\
    same_addr (bi_addr 1) (bi_addr a0') /\ 1400 - ts <= 500 /\
    exists o, In o (flat_map (to_sops Z openI unmarshalI 7 bi_addr 86400 500) bi_pre) /\ retry_cause bi_cfg a0' bi_dcid cs o.
Proof.
  destruct (recv bi_cfg (fst bi_state) 1400
             (SPinitial 1200 [9; 9; 9; 9] [4; 4] (classify Z openI unmarshalI 7 bi_addr 86400 500 tok0 1 1400) 1 true [6; 6]))
    as [s' o] eqn:Hr.
  assert (Ho : o = SNewConn 0 bi_dcid (Some [9; 9; 9; 9]) true 0 0).
  { pose proof (proj1 bi_accept) as A. rewrite Hr in A. exact A. }
  subst o.
  assert (Hrun : brun Z openI unmarshalI 7 bi_addr 86400 500 bi_cfg (s0, []) bi_pre = (fst bi_state, snd bi_state)).
  { unfold bi_state. destruct (brun Z openI unmarshalI 7 bi_addr 86400 500 bi_cfg (s0, []) bi_pre). reflexivity. }
  destruct (retry_token_bound Z sealI openI marshalI unmarshalI 7 bi_addr 86400 500 bi_cfg bi_pre 1400 1200 [9; 9; 9; 9] [4; 4]
              tok0 1 true [6; 6] (fst bi_state) (snd bi_state) s' 0 bi_dcid [9; 9; 9; 9] true 0 0 Hrun bi_correct bi_ideal Hr)
    as (_ & B).
  exact B.
Qed.
