(** Bridge between ServerAccept (C13, server.go on token classes) and AmpToken.TokenModel (C14, the token
    bytes): the server on token BYTES. Pure proof-level composition of two models that are each tied to the
    code by their own correspondence units (serveraccept, tokens/ampconn); nothing new is modelled here except
    the log of what the server's token generator sealed. *)
From Coq Require Import List ZArith Bool Lia.
From V Require Import Gen.Params Lib.Hex ConnAccept.Model ConnAccept.Proofs ServerAccept.Model ServerAccept.Proofs
                      AmpToken.TokenModel AmpToken.TokenProofs.
Import ListNotations.
Open Scope Z_scope.

Section Bridge.
Variable K : Type.
Variable prot_seal : K -> list Z -> list Z -> list Z.
Variable prot_open : K -> list Z -> list Z -> option (list Z).
Variable marshal : rec -> list Z.
Variable unmarshal : list Z -> option (rec * list Z).
Variable key : K.                       (* the server's token generator key *)
Variable addr_of : Z -> addr.           (* ServerAccept's address numbers as network addresses *)
Variables maxTokenAge maxRetryAge : Z.

(** the log of the server's sealing oracle: (nonce, record) in the order of issue *)
Definition tlog := list (list Z * rec).
Definition sealed_of (L : tlog) : K -> list Z -> list Z -> Prop :=
  fun k n d => k = key /\ exists r, In (n, r) L /\ d = marshal r.

(** handleInitialImpl's view of the token field: DecodeToken, then validateToken for the sender and the time *)
Definition classify (enc : list Z) (a now : Z) : tclass :=
  match decodeToken (prot_open key) unmarshal enc with
  | DNil => TkNone
  | DErr => TkGarbage
  | DTok t =>
      let v := validateToken (Some t) (addr_of a) now maxTokenAge maxRetryAge in
      if t_isRetry t then TkRetry v (t_odcid t) (t_rscid t) else TkNew v (t_rtt t)
  end.

(** byte-level events of a server *)
Inductive bop :=
| BInitial (now size : Z) (dcid scid : cid) (enc : list Z) (a : Z) (intact : bool) (newcid : cid)
| BOther (now : Z) (p : spkt)                      (* every datagram that is not an Initial *)
| BDrain (now : Z) (fresh : list (list Z * cid))    (* runSendQueue; per Retry: the nonce and the new SCID drawn *)
| BIssueNew (nonce : list Z) (a rtt now : Z).      (* a connection issues a NEW_TOKEN token *)

Definition not_initial (p : spkt) : bool := match p with SPinitial _ _ _ _ _ _ _ => false | _ => true end.

Definition to_sops (o : bop) : list sop :=
  match o with
  | BInitial now size dcid scid enc a intact newcid =>
      [SRecv now (SPinitial size dcid scid (classify enc a now) a intact newcid)]
  | BOther now p => [SRecv now (if not_initial p then p else SPbadhdr)]
  | BDrain _ _ => [SDrain]
  | BIssueNew _ _ _ _ => []
  end.

(** the Retry tokens of one drain: sendRetryPacket = NewRetryToken(remote address, the Initial's DCID, new SCID) *)
Fixpoint retry_entries (now : Z) (q : list rej) (fresh : list (list Z * cid)) : tlog :=
  match q, fresh with
  | (a, d, _, _) :: q', (nonce, rscid) :: f' =>
      (nonce, Rec true (encodeRemoteAddr (addr_of a)) now 0 d rscid) :: retry_entries now q' f'
  | _, _ => []
  end.

Definition bstep (c : scfg) (st : sst * tlog) (o : bop) : sst * tlog :=
  let '(s, L) := st in
  match o with
  | BDrain now fresh => (fst (drain s), L ++ retry_entries now (retryq s) fresh)
  | BIssueNew nonce a rtt now => (s, L ++ [(nonce, Rec false (encodeRemoteAddr (addr_of a)) now rtt [] [])])
  | _ => (fst (srun c s (to_sops o)), L)
  end.

Definition brun (c : scfg) (st : sst * tlog) (ops : list bop) : sst * tlog := fold_left (bstep c) ops st.

(** the class-level server underneath is ServerAccept's *)
Lemma srun_app c ops1 : forall s ops2,
  fst (srun c s (ops1 ++ ops2)) = fst (srun c (fst (srun c s ops1)) ops2).
Proof.
  induction ops1 as [|o r IH]; intros s ops2; [reflexivity|].
  simpl app. rewrite !srun_cons. destruct (sstep c s o) as [s1 out].
  specialize (IH s1 ops2). destruct (srun c s1 (r ++ ops2)); destruct (srun c s1 r). simpl in *. exact IH.
Qed.

Lemma srun_one c s o : fst (srun c s [o]) = fst (sstep c s o).
Proof. simpl. destruct (sstep c s o). reflexivity. Qed.

Lemma brun_sim c ops : forall s L,
  fst (brun c (s, L) ops) = fst (srun c s (flat_map to_sops ops)).
Proof.
  induction ops as [|o r IH]; intros s L; [reflexivity|].
  simpl. rewrite srun_app.
  destruct o; simpl bstep; rewrite IH; reflexivity.
Qed.

(** every Retry record in the log was issued, in some drain, for a rejected Initial that was in the Retry queue *)
Definition log_inv (c : scfg) (sops : list sop) (s : sst) (L : tlog) : Prop :=
  (forall n r, In (n, r) L -> r_isRetry r = true ->
     exists a0 ts od rs cs, r = Rec true (encodeRemoteAddr (addr_of a0)) ts 0 od rs /\
                            exists o, In o sops /\ retry_cause c a0 od cs o) /\
  (forall a d sc i, In (a, d, sc, i) (retryq s) -> exists o, In o sops /\ retry_cause c a d sc o).

Lemma retry_entries_In now q : forall fresh n r, In (n, r) (retry_entries now q fresh) ->
  exists a d sc i rs, In (a, d, sc, i) q /\ r = Rec true (encodeRemoteAddr (addr_of a)) now 0 d rs.
Proof.
  induction q as [|[[[a d] sc] i] q' IH]; intros [|[nonce rscid] f'] n r I; simpl in I; try contradiction.
  destruct I as [I|I].
  - inversion I; subst. exists a, d, sc, i, rscid. split; [left; reflexivity | reflexivity].
  - destruct (IH _ _ _ I) as (a' & d' & sc' & i' & rs & J & E). exists a', d', sc', i', rs. split; [right; exact J | exact E].
Qed.

Lemma log_inv_run c ops : forall s L pre,
  log_inv c pre s L ->
  let '(s', L') := brun c (s, L) ops in log_inv c (pre ++ flat_map to_sops ops) s' L'.
Proof.
  induction ops as [|o r IH]; intros s L pre I.
  - simpl. rewrite app_nil_r. exact I.
  - simpl brun. simpl flat_map. rewrite app_assoc.
    assert (W : forall (P : sop -> Prop) l1 l2, (exists x, In x l1 /\ P x) -> exists x, In x (l1 ++ l2) /\ P x).
    { intros P l1 l2 (x & Ix & Px). exists x. split; [apply in_or_app; left; exact Ix | exact Px]. }
    destruct I as (I1 & I2).
    assert (I1' : forall n r0, In (n, r0) L -> r_isRetry r0 = true ->
              exists a0 ts od rs cs, r0 = Rec true (encodeRemoteAddr (addr_of a0)) ts 0 od rs /\
                exists o', In o' (pre ++ to_sops o) /\ retry_cause c a0 od cs o').
    { intros n r0 J R. destruct (I1 n r0 J R) as (a0 & ts & od & rs & cs & E & C).
      exists a0, ts, od, rs, cs. split; [exact E | apply W; exact C]. }
    destruct o as [now size dcid scid enc a intact newcid|now p|now fresh|nonce a rtt now]; simpl bstep.
    + (* an Initial *)
      apply IH. split; [exact I1'|].
      intros a' d sc i J. unfold to_sops in J. rewrite srun_one in J.
      destruct (sstep c s (SRecv now (SPinitial size dcid scid (classify enc a now) a intact newcid))) as [s1 out] eqn:Hs.
      simpl fst in J. destruct (retryq_step c s _ s1 out Hs a' d sc i J) as [Q|Q].
      * apply W. apply I2 with i. exact Q.
      * eexists. split; [apply in_or_app; right; left; reflexivity | exact Q].
    + apply IH. split; [exact I1'|].
      intros a' d sc i J. unfold to_sops in J. rewrite srun_one in J.
      destruct (sstep c s (SRecv now (if not_initial p then p else SPbadhdr))) as [s1 out] eqn:Hs.
      simpl fst in J. destruct (retryq_step c s _ s1 out Hs a' d sc i J) as [Q|Q].
      * apply W. apply I2 with i. exact Q.
      * eexists. split; [apply in_or_app; right; left; reflexivity | exact Q].
    + (* drain *)
      apply IH. split.
      * intros n r0 J R. apply in_app_or in J. destruct J as [J|J]; [apply (I1' n r0); assumption|].
        destruct (retry_entries_In _ _ _ _ _ J) as (a0 & d & sc & i & rs & Q & E).
        exists a0, now, d, rs, sc. split; [exact E|]. apply W. apply I2 with i. exact Q.
      * intros a' d sc i J. unfold drain in J. simpl in J. contradiction.
    + (* a NEW_TOKEN token *)
      apply IH. simpl to_sops. rewrite app_nil_r. split; [|exact I2].
      intros n r0 J R. apply in_app_or in J. destruct J as [J|[J|[]]]; [apply (I1 n r0); assumption|].
      inversion J; subst. simpl in R. discriminate.
Qed.

Lemma log_inv_0 c : log_inv c [] s0 [].
Proof. split; [intros n r [] | intros a d sc i []]. Qed.

(** what a created connection says about the token *)
Lemma newconn_retry_class c s now size dcid scid tok a intact newcid s' n od rs v rtt e :
  recv c s now (SPinitial size dcid scid tok a intact newcid) = (s', SNewConn n od (Some rs) v rtt e) ->
  tok = TkRetry true od rs /\ v = true.
Proof.
  intros H. destruct (recv_frame _ _ _ _ _ _ H) as (s1 & Hc & _). clear H. revert Hc.
  unfold recv_core, recv_initial, token_decision, tok_empty.
  destruct tok as [| |valid o r|valid t]; try destruct valid; cbn [negb andb];
    repeat match goal with
           | |- context [if ?b then _ else _] => destruct b eqn:?
           | |- context [match hget ?x ?y with _ => _ end] => destruct (hget x y) eqn:?
           | |- context [match zget ?x ?y with _ => _ end] => destruct (zget x y) as [[? ?]|] eqn:?
           end; intros H; inversion H; subst; split; reflexivity.
Qed.

Lemma newconn_verified_class c s now size dcid scid tok a intact newcid s' n od rs rtt e :
  recv c s now (SPinitial size dcid scid tok a intact newcid) = (s', SNewConn n od rs true rtt e) ->
  usable tok = true.
Proof.
  intros H. destruct (recv_frame _ _ _ _ _ _ H) as (s1 & Hc & _). clear H. revert Hc.
  unfold recv_core, recv_initial, token_decision, tok_empty.
  destruct tok as [| |valid o r|valid t]; try destruct valid; cbn [negb andb];
    repeat match goal with
           | |- context [if ?b then _ else _] => destruct b eqn:?
           | |- context [match hget ?x ?y with _ => _ end] => destruct (hget x y) eqn:?
           | |- context [match zget ?x ?y with _ => _ end] => destruct (zget x y) as [[? ?]|] eqn:?
           end; intros H; inversion H; subst; auto.
Qed.

(** C13 x C14. For every byte-level history of a server: a connection is created from an Initial carrying a Retry
    token (i.e. with a retry_source_connection_id and a validated address) only if that very byte string is the
    token this server put into a Retry it sent earlier — to the SAME address (IP for UDP), for exactly the original DCID
    the connection then authenticates, with exactly that Retry SCID, at most maxRetryAge ago — and that Retry answered an
    Initial without usable token from an address that had to be verified. Assumes only: the AEAD opens what this
    key sealed and ASN.1 round-trips (oracles_correct), and ideal ciphertext integrity (protector_ideal), both with
    respect to the log of what the server sealed so far. *)
Theorem retry_token_bound c pre now size dcid scid enc a intact newcid s L s' n od rs v rtt e :
  brun c (s0, []) pre = (s, L) ->
  oracles_correct prot_seal prot_open marshal unmarshal (sealed_of L) ->
  protector_ideal prot_seal prot_open (sealed_of L) ->
  recv c s now (SPinitial size dcid scid (classify enc a now) a intact newcid) = (s', SNewConn n od (Some rs) v rtt e) ->
  v = true /\
  exists nonce a0 ts cs,
    In (nonce, Rec true (encodeRemoteAddr (addr_of a0)) ts 0 od rs) L /\
    enc = newRetryToken (prot_seal key) marshal nonce (addr_of a0) od rs ts /\
    same_addr (addr_of a) (addr_of a0) /\ now - ts <= maxRetryAge /\
    exists o, In o (flat_map to_sops pre) /\ retry_cause c a0 od cs o.
Proof.
  intros Hrun OC PI Hrecv.
  destruct (newconn_retry_class _ _ _ _ _ _ _ _ _ _ _ _ _ _ _ _ _ Hrecv) as (Hcl & Hv). split; [exact Hv|].
  unfold classify in Hcl.
  destruct (decodeToken (prot_open key) unmarshal enc) as [| |t] eqn:Hd; try discriminate.
  destruct (t_isRetry t) eqn:Hr; [|discriminate]. injection Hcl as Hval Hod Hrs.
  apply validateToken_spec in Hval. destruct Hval as (Ha & Hage). unfold lifetime in Hage. rewrite Hr in Hage.
  assert (OR : only_records K marshal (sealed_of L)).
  { intros k n0 d (_ & r & _ & E). exists r. exact E. }
  destruct (decode_only_issued K prot_seal prot_open marshal unmarshal (sealed_of L) PI OC OR key enc t Hd) as (r & Hi & Et).
  destruct Hi as (nonce & Hl & (_ & r' & Hin & Em) & Henc).
  assert (r' = r).
  { pose proof (unmarshal_marshal _ _ _ _ _ OC r) as U1. pose proof (unmarshal_marshal _ _ _ _ _ OC r') as U2.
    rewrite Em in U1. rewrite U2 in U1. inversion U1. reflexivity. }
  subst r'.
  pose proof (log_inv_run c pre s0 [] [] (log_inv_0 c)) as Inv.
  unfold tlog in *. rewrite Hrun in Inv. cbv beta iota in Inv. rewrite app_nil_l in Inv.
  destruct Inv as (I1 & _).
  assert (Rr : r_isRetry r = true).
  { subst t. unfold tok_of_rec in Hr. destruct (r_isRetry r); [reflexivity | simpl in Hr; discriminate]. }
  destruct (I1 _ _ Hin Rr) as (a0 & ts & od' & rs' & cs & Er & Cause).
  subst r. simpl in Et. subst t. simpl in *. subst od' rs'.
  exists nonce, a0, ts, cs. split; [exact Hin|]. split; [exact Henc|].
  split; [apply encode_same_addr; exact Ha|]. split; [exact Hage | exact Cause].
Qed.

(** A byte string this server's generator did not seal (forged, mutated, truncated, sealed under another key) never
    gives a connection with a validated address, a retry_source_connection_id, or an original DCID other than the
    packet's own. *)
Theorem forged_token_unverified c s L now size dcid scid enc a intact newcid s' n od rs v rtt e :
  protector_ideal prot_seal prot_open (sealed_of L) ->
  (forall d, ~ sealed_token K prot_seal (sealed_of L) key enc d) ->
  recv c s now (SPinitial size dcid scid (classify enc a now) a intact newcid) = (s', SNewConn n od rs v rtt e) ->
  v = false /\ rs = None /\ od = dcid.
Proof.
  intros PI NS H.
  assert (Hc : classify enc a now = TkNone \/ classify enc a now = TkGarbage).
  { unfold classify. destruct (decodeToken (prot_open key) unmarshal enc) as [| |t] eqn:Hd; auto.
    exfalso. destruct (decode_only_sealed K prot_seal prot_open unmarshal (sealed_of L) PI key enc t Hd) as (d & r & Hs & _).
    exact (NS d Hs). }
  destruct (recv_frame _ _ _ _ _ _ H) as (s1 & Hcore & _). clear H. revert Hcore.
  unfold recv_core, recv_initial, token_decision, tok_empty.
  destruct Hc as [-> | ->];
    repeat match goal with
           | |- context [if ?b then _ else _] => destruct b eqn:?
           | |- context [match hget ?x ?y with _ => _ end] => destruct (hget x y) eqn:?
           | |- context [match zget ?x ?y with _ => _ end] => destruct (zget x y) as [[? ?]|] eqn:?
           end; intros H; inversion H; subst; auto.
Qed.

(** the token part of handleInitialImpl in ServerAccept is C14's handleInitial on the token's class
    (when the DCID is not routed yet, the send queues have room and the client is not refused) *)
Local Opaque validateToken.
Lemma decision_agrees c s dcid scid enc a now intact newcid :
  hget dcid (handlers s) = None -> zmem a (refuseAddrs c) = false ->
  zlen (invq s) < saInvalidTokenQueueCap -> zlen (retryq s) < saRetryQueueCap ->
  saMinConnectionIDLenInitial = tok_MinConnectionIDLenInitial ->
  match handleInitial (prot_open key) unmarshal enc dcid (addr_of a) now maxTokenAge maxRetryAge
                      (if zmem a (verifyAddrs c) then 1 else 0) with
  | Out k v od rs rtt =>
      match snd (recv_initial c s dcid scid (classify enc a now) a intact newcid) with
      | SDrop true => k = 0
      | SInvalidToken true => k = 1
      | SRetry true => k = 2
      | SNewConn _ od' rs' v' rtt' _ => k = 3 /\ od' = od /\ rs' = rs /\ v' = v /\ rtt' = rtt
      | _ => False
      end
  end.
Proof.
  intros G R Q1 Q2 Ec.
  unfold handleInitial, recv_initial, classify, token_decision, tok_empty. rewrite G, R, Ec.
  assert (Hnil : forall enc0, (zlen enc0 =? 0) = true -> decodeToken (prot_open key) unmarshal enc0 = DNil).
  { intros e0 H. unfold decodeToken. rewrite H. reflexivity. }
  assert (Hnn : forall enc0, (zlen enc0 =? 0) = false -> decodeToken (prot_open key) unmarshal enc0 <> DNil).
  { intros e0 H. unfold decodeToken. rewrite H. destruct (protDecode (prot_open key) e0); [|discriminate].
    destruct (unmarshal l) as [[r0 rest]|]; [|discriminate]. destruct (zlen rest =? 0); [|discriminate].
    (* (since /repo fix 5b79229 a Retry record with connection IDs longer than 20 bytes is a decoding error) *)
    destruct (r_isRetry r0 && ((sl_MaxConnIDLen <? zlen (r_odcid r0)) || (sl_MaxConnIDLen <? zlen (r_rscid r0)))); discriminate. }
  destruct (Z.ltb_spec (zlen (invq s)) saInvalidTokenQueueCap); [|lia].
  destruct (Z.ltb_spec (zlen (retryq s)) saRetryQueueCap); [|lia].
  destruct (zlen enc =? 0) eqn:Ez.
  - rewrite (Hnil _ Ez). apply Z.eqb_eq in Ez.
    assert ((0 <? zlen enc) = false) as -> by (apply Z.ltb_ge; lia). simpl.
    destruct (zlen dcid <? tok_MinConnectionIDLenInitial); simpl; [reflexivity|].
    destruct (zmem a (verifyAddrs c)); simpl; auto.
  - pose proof (Hnn _ Ez) as Hn. apply Z.eqb_neq in Ez. pose proof (zlen_nonneg enc).
    assert ((0 <? zlen enc) = true) as -> by (apply Z.ltb_lt; lia). simpl.
    destruct (decodeToken (prot_open key) unmarshal enc) as [| |t] eqn:Hd; [contradiction| |].
    + simpl. destruct (zmem a (verifyAddrs c)); simpl; auto.
    + destruct (t_isRetry t) eqn:Hr; destruct (validateToken (Some t) (addr_of a) now maxTokenAge maxRetryAge) eqn:Hv; simpl;
        try rewrite Hr; simpl; try (destruct (zmem a (verifyAddrs c)); simpl; auto; fail); auto.
Qed.
Local Transparent validateToken.

End Bridge.
