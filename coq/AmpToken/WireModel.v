(** C14 — the property at the wire: what an observer between client and server sees
    (datagrams delivered to the server, datagrams the server emits, the moment the address is
    validated), the predicate every such trace must satisfy, and the traces of the connection-level
    model ([AmpModel.cstate]).  The `ampconn` unit replays the traces of real connections through
    [wire_ok]; [AmpProofs]/Props state that every trace of the model satisfies it. *)
From Coq Require Import List ZArith Bool.
From V Require Import Gen.Params AmpToken.AmpModel.
Import ListNotations.
Open Scope Z_scope.

Inductive wev :=
| WRecv (n : Z) (validates : bool)    (* n bytes reach the server; [validates]: from now on the address is validated *)
| WSend (n : Z)                       (* the server emits an n-byte datagram packed after a SendMode check *)
| WSendU (n : Z).                     (* ... a datagram that does not go through SendMode: a CONNECTION_CLOSE written when
                                         closing, its retransmission by the closed-connection handler, a stateless Retry *)

Record wst := WS { wsent : Z; wrcvd : Z; wval : bool }.

Definition wstep (w : wst) (e : wev) : wst :=
  match e with
  | WRecv n v => WS (wsent w) (wrcvd w + n) (wval w || v)
  | WSend n | WSendU n => WS (wsent w + n) (wrcvd w) (wval w)
  end.

(** a datagram towards an unvalidated address packed after a SendMode check is started strictly under three
    times what arrived (SendMode is SendNone AT the limit); the ungated ones at or under it *)
Definition wsend_ok (w : wst) : bool := wval w || (wsent w <? 3 * wrcvd w).
Definition wsendu_ok (w : wst) : bool := wval w || (wsent w <=? 3 * wrcvd w).

Fixpoint wire_ok (w : wst) (tr : list wev) : bool :=
  match tr with
  | [] => true
  | e :: r => (match e with WSend _ => wsend_ok w | WSendU _ => wsendu_ok w | _ => true end) && wire_ok (wstep w e) r
  end.

Definition wrun (w : wst) (tr : list wev) : wst := fold_left wstep tr w.

(** what one step of the connection-level model puts on / takes off the wire *)
Definition cevents (c : cstate) (o : cop) : list wev :=
  match o, closedPkt c with
  | SphOp (Recv n _), None => [WRecv n false]
  | SphOp (RecvPkt l _), None => [WRecv 0 ((l =? amp_EncHandshake) && negb (validated (sph c)))]
  | SphOp (TrySend _ pkts), None => if sendMode (sph c) =? amp_SendNone then [] else [WSend (dgram_size pkts)]
  | Close hc size, None => if close_suppressed (sph c) hc then [] else [WSendU size]
  | ClosedRecv n, Some p =>
    WRecv n false ::
    (if (0 <? p) && is_pow2 (cCount c + 1) && (cSent c + p <=? 3 * (cRcvd c + n)) then [WSendU p] else [])
  | _, _ => []
  end.

Fixpoint ctrace_ev (c : cstate) (ops : list cop) : list wev :=
  match ops with
  | [] => []
  | o :: r => cevents c o ++ ctrace_ev (cstep c o) r
  end.
