(** C14 (a) — the amplification slice of [sentPacketHandler]
    (internal/ackhandler/sent_packet_handler.go), server perspective, and the send gate of
    the connection (connection.go triggerSending / sendPackets / sendProbePacket:
    one coalesced datagram per [SendMode <> SendNone]).

    Executable definitions only.  State variables, branch structure and constants mirror the
    code; what is outside the slice (congestion control, pacing, ACK processing, RTT floats)
    is either collapsed into one observable class or enters through the [Other] oracle op. *)
From Coq Require Import List ZArith Bool.
From V Require Import Gen.Params.
Import ListNotations.
Open Scope Z_scope.

(** The part of the handler's state that only matters for the loss-detection timer and
    for the PTO branch of SendMode.  [ReceivedAck], which we do not re-implement, replaces
    it wholesale (op [Other]); it never touches the three amplification fields. *)
Record tstate := TS {
  outI : bool; outH : bool; outA : bool;   (* history.HasOutstandingPackets() per space *)
  lastAEI : Z; lastAEH : Z;                (* lastAckElicitingPacketTime, 0 = unset *)
  ptoCount : Z; numProbes : Z; ptoMode : Z;
  pto0 : Z;                                (* rttStats.PTO(false), ns — float oracle *)
  alarm : Z                                (* h.alarm.Time, 0 = no timer *)
}.

Record st := St {
  bytesSent : Z;
  bytesReceived : Z;
  validated : bool;                        (* peerAddressValidated *)
  tm : tstate
}.

(** NewSentPacketHandler(..., clientAddressValidated, ..., PerspectiveServer, ...) *)
Definition init (clientAddressValidated : bool) (pto : Z) : st :=
  St 0 0 clientAddressValidated (TS false false false 0 0 0 0 amp_SendNone pto 0).

(** isAmplificationLimited *)
Definition limited (s : st) : bool :=
  if validated s then false else amplificationFactor * bytesReceived s <=? bytesSent s.

(** getScaledPTO(false): int64 [pto << ptoCount], capped. *)
Definition wrap64 (v : Z) : Z :=
  let m := v mod 2 ^ 64 in if 2 ^ 63 <=? m then m - 2 ^ 64 else m.
Definition scaledPTO (t : tstate) : Z :=
  let p := wrap64 (pto0 t * 2 ^ ptoCount t) in
  if (amp_maxPTODuration <? p) || (p <=? 0) then amp_maxPTODuration else p.

Definition hasOutstandingCrypto (t : tstate) : bool := outI t || outH t.

(** getPTOTimeAndSpace for a server (peerCompletedAddressValidation = true) before the
    handshake is confirmed; no packet-number space dropped. *)
Definition ptoTimeAndSpace (t : tstate) : Z * Z :=
  if negb (hasOutstandingCrypto t) then (0, 0)
  else
    let '(pto, lvl) :=
      if outI t && negb (lastAEI t =? 0) then (lastAEI t + scaledPTO t, amp_EncInitial) else (0, 0) in
    if outH t && negb (lastAEH t =? 0) then
      let th := lastAEH t + scaledPTO t in
      if (pto =? 0) || (negb (th =? 0) && (th <? pto)) then (th, amp_EncHandshake) else (pto, lvl)
    else (pto, lvl).

(** lossDetectionTime (no loss times armed, no path probes) *)
Definition lossDetectionTime (s : st) : Z :=
  let t := tm s in
  if negb (hasOutstandingCrypto t) && negb (outA t) then 0
  else if limited s then 0
  else fst (ptoTimeAndSpace t).

Definition set_tm (s : st) (t : tstate) : st := St (bytesSent s) (bytesReceived s) (validated s) t.
Definition set_alarm (t : tstate) (a : Z) : tstate :=
  TS (outI t) (outH t) (outA t) (lastAEI t) (lastAEH t) (ptoCount t) (numProbes t) (ptoMode t) (pto0 t) a.

(** setLossDetectionTimer *)
Definition setTimer (s : st) : st := set_tm s (set_alarm (tm s) (lossDetectionTime s)).

(** ReceivedBytes *)
Definition receivedBytes (s : st) (n : Z) : st :=
  let was := limited s in
  let s' := St (bytesSent s) (bytesReceived s + n) (validated s) (tm s) in
  if was && negb (limited s') then setTimer s' else s'.

(** ReceivedPacket *)
Definition receivedPacket (s : st) (lvl : Z) : st :=
  if (lvl =? amp_EncHandshake) && negb (validated s) then
    setTimer (St (bytesSent s) (bytesReceived s) true (tm s))
  else s.

(** SentPacket (no path probe, no MTU probe) *)
Definition sentPacket (s : st) (t : Z) (p : Z * Z * bool) : st :=
  let '(lvl, size, ae) := p in
  let s1 := St (bytesSent s + size) (bytesReceived s) (validated s) (tm s) in
  if ae then
    let m := tm s1 in
    let m' := TS (if lvl =? amp_EncInitial then true else outI m)
                 (if lvl =? amp_EncHandshake then true else outH m)
                 (if (lvl =? amp_EncInitial) || (lvl =? amp_EncHandshake) then outA m else true)
                 (if lvl =? amp_EncInitial then t else lastAEI m)
                 (if lvl =? amp_EncHandshake then t else lastAEH m)
                 (ptoCount m) (if 0 <? numProbes m then numProbes m - 1 else numProbes m)
                 (ptoMode m) (pto0 m) (alarm m) in
    setTimer (set_tm s1 m')
  else s1. (* not ack-eliciting: the timer is only touched while !peerCompletedAddressValidation (client) *)

(** SendMode; class 1 stands for SendAck / SendPacingLimited / SendAny (decided by congestion
    control and pacing, outside the slice).  The tracked-packets cap is outside the slice. *)
Definition sendMode (s : st) : Z :=
  if limited s then amp_SendNone
  else if 0 <? numProbes (tm s) then ptoMode (tm s)
  else 1.

(** Conn.triggerSending before handshake confirmation: ask SendMode, and only when it is
    not SendNone pack and register ONE coalesced datagram. *)
Definition trySend (s : st) (t : Z) (pkts : list (Z * Z * bool)) : st :=
  if sendMode s =? amp_SendNone then s else fold_left (fun s p => sentPacket s t p) pkts s.

(** OnLossDetectionTimeout as the run loop calls it (only when the alarm is due). *)
Definition timeoutDue (s : st) (now : Z) : bool :=
  negb (alarm (tm s) =? 0) && (alarm (tm s) <=? now).
Definition onTimeout (s : st) : st :=
  let m := tm s in
  let '(ptoT, lvl) := ptoTimeAndSpace m in
  let m' :=
    if ptoT =? 0 then m
    else TS (outI m) (outH m) (outA m) (lastAEI m) (lastAEH m) (ptoCount m + 1) (numProbes m + 2)
            (if lvl =? amp_EncInitial then amp_SendPTOInitial else amp_SendPTOHandshake) (pto0 m) (alarm m) in
  setTimer (set_tm s m').

Inductive op :=
| Recv (n t : Z)
| RecvPkt (lvl t : Z)
| TrySend (t : Z) (pkts : list (Z * Z * bool))
| Timeout (now : Z)
| Other (m : tstate).

Definition step (s : st) (o : op) : st :=
  match o with
  | Recv n _ => receivedBytes s n
  | RecvPkt l _ => receivedPacket s l
  | TrySend t pkts => trySend s t pkts
  | Timeout now => if timeoutDue s now then onTimeout s else s
  | Other m => set_tm s m
  end.

Definition run (s : st) (ops : list op) : st := fold_left step ops s.

(** Ghost instrumentation for the statement of the bound: the size of the last datagram
    the gate let through. *)
Definition dgram_size (pkts : list (Z * Z * bool)) : Z :=
  fold_right (fun p acc => snd (fst p) + acc) 0 pkts.

Definition step_g (sl : st * Z) (o : op) : st * Z :=
  let '(s, last) := sl in
  (step s o,
   match o with
   | TrySend _ pkts => if sendMode s =? amp_SendNone then last else dgram_size pkts
   | _ => last
   end).

Definition run_g (sl : st * Z) (ops : list op) : st * Z := fold_left step_g ops sl.

(** Well-formed histories: sizes are byte counts. *)
Definition wf_op (o : op) : Prop :=
  match o with
  | Recv n _ => 0 <= n
  | TrySend _ pkts => Forall (fun p => 0 <= snd (fst p)) pkts
  | _ => True
  end.

(** * Closing the connection (connection.go handleCloseError, closed_conn.go closedLocalConn,
      transport.go packetHandlerMap.ReplaceWithClosed) — as repaired by fixes/C14-close-ungated.patch.

    A local close (application close, CONNECTION_REFUSED, transport error) packs ONE datagram
    with the CONNECTION_CLOSE and writes it to the socket without going through SentPacket.
    A server whose handshake is not complete, that has sent something and whose SendMode is
    SendNone (amplification limit used up) stays silent and installs a handler that ignores
    packets (ReplaceWithClosed(nil)); otherwise the datagram is written once and a
    closedLocalConn keeps it: for the 1st, 2nd, 4th, 8th ... datagram arriving afterwards it
    sends the datagram again, provided that what it sent stays within three times what it
    received (its own counters; the connection's state is gone). *)
Record cstate := CS {
  sph : st;                 (* the connection's sentPacketHandler (frozen once closed) *)
  closedPkt : option Z;     (* None: open.  Some 0: closed, packets ignored.  Some n: closedLocalConn holding an n-byte datagram *)
  closeSent : Z;            (* bytes written by sendConnectionClose *)
  cRcvd : Z; cSent : Z;     (* closedLocalConn.bytesReceived / bytesSent *)
  cCount : Z                (* closedLocalConn.counter *)
}.

Definition cinit (clientAddressValidated : bool) (pto : Z) : cstate :=
  CS (init clientAddressValidated pto) None 0 0 0 0.

Inductive cop :=
| SphOp (o : op)                       (* anything that happens to the open connection's handler *)
| Close (handshakeComplete : bool) (size : Z)
| ClosedRecv (n : Z).

(** bits.OnesCount32(n) == 1 *)
Definition is_pow2 (n : Z) : bool := (0 <? n) && (Z.land n (n - 1) =? 0).

(** handleCloseError's decision for a server *)
Definition close_suppressed (s : st) (handshakeComplete : bool) : bool :=
  negb handshakeComplete && (0 <? bytesSent s) && (sendMode s =? amp_SendNone).

Definition cstep (c : cstate) (o : cop) : cstate :=
  match o with
  | SphOp o =>
    match closedPkt c with
    | None => CS (step (sph c) o) None (closeSent c) (cRcvd c) (cSent c) (cCount c)
    | Some _ => c
    end
  | Close hc size =>
    match closedPkt c with
    | None =>
      if close_suppressed (sph c) hc then CS (sph c) (Some 0) 0 0 0 0
      else CS (sph c) (Some size) size 0 0 0
    | Some _ => c
    end
  | ClosedRecv n =>
    match closedPkt c with
    | Some p =>
      if 0 <? p then
        let cnt := cCount c + 1 in
        let rcvd := cRcvd c + n in
        if is_pow2 cnt && (cSent c + p <=? 3 * rcvd)
        then CS (sph c) (Some p) (closeSent c) rcvd (cSent c + p) cnt
        else CS (sph c) (Some p) (closeSent c) rcvd (cSent c) cnt
      else c
    | None => c
    end
  end.

Definition crun (c : cstate) (ops : list cop) : cstate := fold_left cstep ops c.

(** everything the server put on the wire towards the client / everything that reached it *)
Definition wireSent (c : cstate) : Z := bytesSent (sph c) + closeSent c + cSent c.
Definition wireRcvd (c : cstate) : Z := bytesReceived (sph c) + cRcvd c.

(** ghost: the last datagram that was let through while the connection's own gate (SendMode,
    or the close decision) was consulted *)
Definition cstep_g (cl : cstate * Z) (o : cop) : cstate * Z :=
  let '(c, last) := cl in
  (cstep c o,
   match o, closedPkt c with
   | SphOp o, None => snd (step_g (sph c, last) o)
   | Close hc size, None => if close_suppressed (sph c) hc then last else size
   | _, _ => last
   end).

Definition crun_g (cl : cstate * Z) (ops : list cop) : cstate * Z := fold_left cstep_g ops cl.

Definition wf_cop (o : cop) : Prop :=
  match o with
  | SphOp o => wf_op o
  | Close hc size => hc = false /\ 0 <= size   (* the handshake of a server completes only after validation *)
  | ClosedRecv n => 0 <= n
  end.
