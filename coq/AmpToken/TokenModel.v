(** C14 (b, c) — address-validation tokens:
    internal/handshake/token_generator.go (NewRetryToken, NewToken, DecodeToken, encodeRemoteAddr),
    token_protector.go (nonce prefix, length check), server.go validateToken and the token
    branch of handleInitialImpl.

    Executable definitions only.  The AEAD keyed by HKDF(key, nonce) and encoding/asn1 are
    outside /repo: they are function parameters here ([popen], [pseal], [marshal],
    [unmarshal]); the correspondence run instantiates them with what the implementation
    logged, the theorems quantify over them under explicit hypotheses. *)
From Coq Require Import List ZArith Bool.
From V Require Import Gen.Params Lib.Hex.
Import ListNotations.
Open Scope Z_scope.

(** the ASN.1 record [token] *)
Record rec := Rec {
  r_isRetry : bool; r_addr : list Z; r_ts : Z (* UnixNano *); r_rtt : Z (* microseconds *);
  r_odcid : list Z; r_rscid : list Z }.

(** the exported [Token] *)
Record tok := Tok {
  t_isRetry : bool; t_sent : Z (* ns *); t_addr : list Z;
  t_odcid : list Z; t_rscid : list Z; t_rtt : Z (* ns *) }.

Inductive decoded := DNil | DErr | DTok (t : tok).

Inductive addr := UDPAddr (ip : list Z) (port : Z) | StrAddr (s : list Z).

(** encodeRemoteAddr: a UDP address is its IP bytes (no port), anything else its String() *)
Definition encodeRemoteAddr (a : addr) : list Z :=
  match a with
  | UDPAddr ip _ => tokenPrefixIP :: ip
  | StrAddr s => tokenPrefixString :: s
  end.

Definition nonceLen : nat := Z.to_nat tokenNonceSize.

Definition tok_of_rec (r : rec) : tok :=
  if r_isRetry r
  then Tok true (r_ts r) (r_addr r) (r_odcid r) (r_rscid r) 0
  else Tok false (r_ts r) (r_addr r) [] [] (r_rtt r * 1000).

(** what handleInitialImpl decides *)
Inductive outcome := Out (kind : Z) (verified : bool) (odcid : list Z) (rscid : option (list Z)) (rtt : Z).

Section Generator.
  (** the protector for one key: AEAD-open / AEAD-seal of (nonce, bytes) *)
  Variable popen : list Z -> list Z -> option (list Z).
  Variable pseal : list Z -> list Z -> list Z.
  Variable marshal : rec -> list Z.
  Variable unmarshal : list Z -> option (rec * list Z).

  (** tokenProtector.NewToken with the nonce drawn from crypto/rand as an argument *)
  Definition protNewToken (nonce data : list Z) : list Z := nonce ++ pseal nonce data.

  (** tokenProtector.DecodeToken *)
  Definition protDecode (p : list Z) : option (list Z) :=
    if zlen p <? tokenNonceSize then None
    else popen (firstn nonceLen p) (skipn nonceLen p).

  (** TokenGenerator.NewRetryToken / NewToken (time.Now() and the nonce as arguments) *)
  Definition newRetryToken (nonce : list Z) (raddr : addr) (odcid rscid : list Z) (now : Z) : list Z :=
    protNewToken nonce (marshal (Rec true (encodeRemoteAddr raddr) now 0 odcid rscid)).
  Definition newToken (nonce : list Z) (raddr : addr) (rtt_us : Z) (now : Z) : list Z :=
    protNewToken nonce (marshal (Rec false (encodeRemoteAddr raddr) now rtt_us [] [])).

  (** TokenGenerator.DecodeToken *)
  Definition decodeToken (enc : list Z) : decoded :=
    if zlen enc =? 0 then DNil
    else match protDecode enc with
         | None => DErr
         | Some data =>
           match unmarshal data with
           | None => DErr
           | Some (r, rest) =>
             if zlen rest =? 0 then
               (* protocol.ParseConnectionID panics on more than 20 bytes: refused since fix 5b79229 *)
               if r_isRetry r && ((sl_MaxConnIDLen <? zlen (r_odcid r)) || (sl_MaxConnIDLen <? zlen (r_rscid r)))
               then DErr else DTok (tok_of_rec r)
             else DErr
           end
         end.

  (** baseServer.validateToken; [now - t_sent] is time.Since(token.SentTime) *)
  Definition validateToken (t : option tok) (a : addr) (now maxTokenAge maxRetryAge : Z) : bool :=
    match t with
    | None => false
    | Some t =>
      if negb (zeqb_list (encodeRemoteAddr a) (t_addr t)) then false
      else if negb (t_isRetry t) && (maxTokenAge <? now - t_sent t) then false
      else if t_isRetry t && (maxRetryAge <? now - t_sent t) then false
      else true
    end.

  (** what handleInitialImpl decides:
      kind 0 dropped, 1 INVALID_TOKEN queue, 2 Retry queue,
      3 newConn(origDestConnID, retrySrcConnID, clientAddressValidated, rtt) *)
  Definition handleInitial (enc dcid : list Z) (a : addr) (now maxTokenAge maxRetryAge : Z)
             (verifySrc : Z (* -1 no callback, 0 false, 1 true *)) : outcome :=
    if (zlen enc =? 0) && (zlen dcid <? tok_MinConnectionIDLenInitial) then Out 0 false [] None 0
    else
      let token0 :=
        if 0 <? zlen enc then match decodeToken enc with DTok t => Some t | _ => None end else None in
      let origDest := match token0 with Some t => if t_isRetry t then t_odcid t else dcid | None => dcid end in
      let retrySrc := match token0 with Some t => if t_isRetry t then Some (t_rscid t) else None | None => None end in
      let verified := match token0 with Some t => validateToken (Some t) a now maxTokenAge maxRetryAge | None => false end in
      let reject := match token0 with Some t => negb verified && t_isRetry t | None => false end in
      if reject then Out 1 false [] None 0
      else
        let token := match token0 with Some t => if verified then Some t else None | None => None end in
        match token with
        | None => if verifySrc =? 1 then Out 2 false [] None 0 else Out 3 verified origDest retrySrc 0
        | Some t => Out 3 verified origDest retrySrc (if t_isRetry t then 0 else t_rtt t)
        end.
End Generator.

(** config.maxRetryTokenAge() = handshakeTimeout() = factor * HandshakeIdleTimeout *)
Definition maxRetryTokenAge (handshakeIdle : Z) : Z := tok_retryAgeFactor * handshakeIdle.
