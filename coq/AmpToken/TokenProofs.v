(** C14 (b, c) — proofs about tokens.  The AEAD (HKDF-keyed AES-GCM) and encoding/asn1 are
    Section variables with explicit hypotheses; nothing here is an axiom, and the section
    ends with an instance showing the hypotheses are jointly satisfiable. *)
From Coq Require Import List ZArith Bool Lia.
From V Require Import Gen.Params Lib.Hex AmpToken.TokenModel.
Import ListNotations.
Open Scope Z_scope.

(** ** Generated constants the statements rely on *)
Lemma nonce_size_32 : tokenNonceSize = 32.
Proof. reflexivity. Qed.
Lemma prefixes_differ : tokenPrefixIP <> tokenPrefixString.
Proof. discriminate. Qed.
Lemma retry_age_factor_2 : tok_retryAgeFactor = 2.
Proof. reflexivity. Qed.

Lemma retry_lifetime h : maxRetryTokenAge h = 2 * h.
Proof. unfold maxRetryTokenAge. rewrite retry_age_factor_2. reflexivity. Qed.

(** ** Lists *)
Lemma zlen_app {A} (a b : list A) : zlen (a ++ b) = zlen a + zlen b.
Proof. unfold zlen. rewrite app_length. lia. Qed.
Lemma zlen_nonneg {A} (a : list A) : 0 <= zlen a.
Proof. unfold zlen. lia. Qed.
Lemma zlen_0 {A} (a : list A) : zlen a = 0 -> a = [].
Proof. unfold zlen. destruct a; cbn; [auto|lia]. Qed.
Lemma firstn_app_len {A} (a b : list A) : firstn (length a) (a ++ b) = a.
Proof. induction a; cbn; [destruct b; reflexivity | f_equal; auto]. Qed.
Lemma skipn_app_len {A} (a b : list A) : skipn (length a) (a ++ b) = b.
Proof. induction a; cbn; auto. Qed.

(** ** Addresses *)
Definition same_addr (a b : addr) : Prop :=
  match a, b with
  | UDPAddr ip _, UDPAddr ip' _ => ip = ip'      (* the port is not part of a UDP address's encoding *)
  | StrAddr s, StrAddr s' => s = s'
  | _, _ => False
  end.

Lemma encode_same_addr a b : encodeRemoteAddr a = encodeRemoteAddr b <-> same_addr a b.
Proof.
  destruct a as [ip p | s], b as [ip' p' | s']; cbn; split; intros H.
  - inversion H; auto.
  - subst; auto.
  - exfalso. apply prefixes_differ. now inversion H.
  - contradiction.
  - exfalso. apply prefixes_differ. symmetry. now inversion H.
  - contradiction.
  - inversion H; auto.
  - subst; auto.
Qed.

(** address families: the 4-byte and the 16-byte (IPv4-mapped) form of one IPv4 address, an IPv6
    address and a non-UDP address are four different addresses for a token; two UDP addresses
    that differ only in the port are the same. *)
Definition ex_v4 := UDPAddr [10; 0; 0; 1] 1000.
Definition ex_v4mapped := UDPAddr [0; 0; 0; 0; 0; 0; 0; 0; 0; 0; 255; 255; 10; 0; 0; 1] 1000.
Definition ex_v6 := UDPAddr [32; 1; 13; 184; 0; 0; 0; 0; 0; 0; 0; 0; 0; 0; 0; 1] 1000.
Definition ex_str := StrAddr [49; 48; 46; 48; 46; 48; 46; 49].
Lemma address_families :
  ~ same_addr ex_v4 ex_v4mapped /\ ~ same_addr ex_v4 ex_v6 /\ ~ same_addr ex_v4mapped ex_v6 /\
  ~ same_addr ex_v4 ex_str /\ ~ same_addr ex_str ex_v6 /\ ~ same_addr ex_str (UDPAddr [49; 48; 46; 48; 46; 48; 46; 49] 0) /\
  same_addr ex_v4 (UDPAddr [10; 0; 0; 1] 2000).
Proof. cbn. repeat split; try (intros H; discriminate H); auto. Qed.

(** ** validateToken — no hypothesis about the oracles is needed *)
(** DecodeToken refuses a Retry record whose connection IDs do not fit a protocol.ConnectionID *)
Definition cids_ok (r : rec) : bool :=
  negb (r_isRetry r && ((sl_MaxConnIDLen <? zlen (r_odcid r)) || (sl_MaxConnIDLen <? zlen (r_rscid r)))).

Definition lifetime (t : tok) (maxTokenAge maxRetryAge : Z) : Z :=
  if t_isRetry t then maxRetryAge else maxTokenAge.

Lemma validateToken_spec t a now maxTokenAge maxRetryAge :
  validateToken (Some t) a now maxTokenAge maxRetryAge = true <->
  encodeRemoteAddr a = t_addr t /\ now - t_sent t <= lifetime t maxTokenAge maxRetryAge.
Proof.
  unfold validateToken, lifetime.
  destruct (zeqb_list (encodeRemoteAddr a) (t_addr t)) eqn:Ea; cbn [negb].
  - apply zeqb_list_eq in Ea.
    destruct (t_isRetry t); cbn [negb andb].
    + destruct (Z.ltb_spec maxRetryAge (now - t_sent t)) as [Hlt|Hge]; split; intros G;
        try discriminate; try (destruct G; lia); split; auto.
    + destruct (Z.ltb_spec maxTokenAge (now - t_sent t)) as [Hlt|Hge]; split; intros G;
        try discriminate; try (destruct G; lia); split; auto.
  - split; [discriminate|]. intros [G _]. apply zeqb_list_eq in G. congruence.
Qed.

Lemma validateToken_nil a now maxTokenAge maxRetryAge :
  validateToken None a now maxTokenAge maxRetryAge = false.
Proof. reflexivity. Qed.

(** ** The assumptions about what is outside /repo, as two records *)

(** functional correctness of the AEAD on what the key holder sealed, and of ASN.1 on the record *)
Record oracles_correct {K : Type}
       (prot_seal : K -> list Z -> list Z -> list Z) (prot_open : K -> list Z -> list Z -> option (list Z))
       (marshal : rec -> list Z) (unmarshal : list Z -> option (rec * list Z))
       (sealed : K -> list Z -> list Z -> Prop) : Prop := {
  open_seal : forall k n d, sealed k n d -> prot_open k n (prot_seal k n d) = Some d;
  unmarshal_marshal : forall r, unmarshal (marshal r) = Some (r, [])
}.

(** the ideal protector: [sealed] is the log of the sealing oracle (key, nonce, plaintext) *)
Record protector_ideal {K : Type}
       (prot_seal : K -> list Z -> list Z -> list Z) (prot_open : K -> list Z -> list Z -> option (list Z))
       (sealed : K -> list Z -> list Z -> Prop) : Prop := {
  (** ciphertext integrity: only what the key holder sealed opens, and only as it was sealed *)
  int_ctxt : forall k n c d, prot_open k n c = Some d -> sealed k n d /\ c = prot_seal k n d;
  (** key separation: ciphertexts under different keys never coincide *)
  key_sep : forall k1 k2 n d1 d2, prot_seal k1 n d1 = prot_seal k2 n d2 -> k1 = k2
}.

Lemma app_inj_len {A} (a a' b b' : list A) : a ++ b = a' ++ b' -> length a = length a' -> a = a' /\ b = b'.
Proof.
  revert a'. induction a as [|x a IH]; intros [|y a'] H Hl; cbn in *; try discriminate; [auto|].
  inversion H; subst. destruct (IH a' H2) as [-> ->]; [lia|]. auto.
Qed.

Section TokenTheory.
  Variable K : Type.
  Variable prot_seal : K -> list Z -> list Z -> list Z.
  Variable prot_open : K -> list Z -> list Z -> option (list Z).
  Variable marshal : rec -> list Z.
  Variable unmarshal : list Z -> option (rec * list Z).
  Variable sealed : K -> list Z -> list Z -> Prop.

  Definition decode (k : K) := decodeToken (prot_open k) unmarshal.
  Definition handle (k : K) := handleInitial (prot_open k) unmarshal.

  (** [enc] is nonce ++ seal(d) for a plaintext [d] the holder of [k] sealed *)
  Definition sealed_token (k : K) (enc d : list Z) : Prop :=
    exists nonce, length nonce = nonceLen /\ sealed k nonce d /\ enc = protNewToken (prot_seal k) nonce d.

  (** [enc] is a token the generator with key [k] issued for record [r] *)
  Definition issued (k : K) (enc : list Z) (r : rec) : Prop := sealed_token k enc (marshal r).

  (** the generator seals nothing but marshalled token records *)
  Definition only_records : Prop := forall k n d, sealed k n d -> exists r, d = marshal r.

  Section Correct.
  Hypothesis OC : oracles_correct prot_seal prot_open marshal unmarshal sealed.

  (** *** Round trip *)
  Lemma decode_issued k enc r :
    issued k enc r -> decode k enc = if cids_ok r then DTok (tok_of_rec r) else DErr.
  Proof.
    intros (nonce & Hl & Hs & ->). unfold decode, decodeToken, protDecode, protNewToken.
    assert (Hz : zlen nonce = tokenNonceSize).
    { unfold zlen. rewrite Hl. unfold nonceLen. rewrite nonce_size_32. reflexivity. }
    rewrite zlen_app, Hz.
    pose proof (zlen_nonneg (prot_seal k nonce (marshal r))) as Hn.
    rewrite nonce_size_32 in *.
    destruct (Z.eqb_spec (32 + zlen (prot_seal k nonce (marshal r))) 0) as [E|_]; [lia|].
    destruct (Z.ltb_spec (32 + zlen (prot_seal k nonce (marshal r))) 32) as [E|_]; [lia|].
    rewrite <- Hl, firstn_app_len, skipn_app_len, (open_seal _ _ _ _ _ OC _ _ _ Hs), (unmarshal_marshal _ _ _ _ _ OC).
    cbn [zlen length Z.of_nat Z.eqb]. unfold cids_ok.
    destruct (r_isRetry r && ((sl_MaxConnIDLen <? zlen (r_odcid r)) || (sl_MaxConnIDLen <? zlen (r_rscid r)))); reflexivity.
  Qed.

  (** a Retry token carries back exactly the connection IDs (and time, address) it was issued with *)
  Theorem retry_token_roundtrip k nonce a0 odcid rscid ts :
    length nonce = nonceLen ->
    zlen odcid <= 20 -> zlen rscid <= 20 ->      (* protocol.ConnectionID holds at most 20 bytes *)
    sealed k nonce (marshal (Rec true (encodeRemoteAddr a0) ts 0 odcid rscid)) ->
    decode k (newRetryToken (prot_seal k) marshal nonce a0 odcid rscid ts)
    = DTok (Tok true ts (encodeRemoteAddr a0) odcid rscid 0).
  Proof.
    intros Hl Ho Hr Hs. unfold newRetryToken.
    rewrite (decode_issued k _ (Rec true (encodeRemoteAddr a0) ts 0 odcid rscid)); [|exists nonce; auto].
    unfold cids_ok. cbn [r_isRetry r_odcid r_rscid andb].
    assert (M : sl_MaxConnIDLen = 20) by reflexivity. rewrite M.
    destruct (Z.ltb_spec 20 (zlen odcid)); [lia|]. destruct (Z.ltb_spec 20 (zlen rscid)); [lia|]. reflexivity.
  Qed.

  Theorem new_token_roundtrip k nonce a0 rtt_us ts :
    length nonce = nonceLen ->
    sealed k nonce (marshal (Rec false (encodeRemoteAddr a0) ts rtt_us [] [])) ->
    decode k (newToken (prot_seal k) marshal nonce a0 rtt_us ts)
    = DTok (Tok false ts (encodeRemoteAddr a0) [] [] (rtt_us * 1000)).
  Proof.
    intros Hl Hs. unfold newToken.
    rewrite (decode_issued k _ (Rec false (encodeRemoteAddr a0) ts rtt_us [] [])); [reflexivity|].
    exists nonce. auto.
  Qed.

  (** *** An issued token validates exactly for the issuing address, within its lifetime *)
  Theorem issued_token_validates k enc r a0 a now maxTokenAge maxRetryAge t :
    issued k enc r -> r_addr r = encodeRemoteAddr a0 ->
    decode k enc = DTok t ->
    (validateToken (Some t) a now maxTokenAge maxRetryAge = true <->
     same_addr a a0 /\ now - r_ts r <= (if r_isRetry r then maxRetryAge else maxTokenAge)).
  Proof.
    intros Hi Ha Hd. rewrite (decode_issued _ _ _ Hi) in Hd.
    destruct (cids_ok r); [|discriminate]. inversion Hd; subst t. clear Hd.
    rewrite validateToken_spec. unfold lifetime, tok_of_rec.
    destruct (r_isRetry r); cbn [t_addr t_sent t_isRetry]; rewrite Ha, encode_same_addr; tauto.
  Qed.
  End Correct.

  (** *** Structure of DecodeToken that needs no assumption *)
  Lemma decode_empty k : decode k [] = DNil.
  Proof. reflexivity. Qed.

  Lemma decode_short k enc : 0 < zlen enc < tokenNonceSize -> decode k enc = DErr.
  Proof.
    intros [H0 H1]. unfold decode, decodeToken, protDecode.
    destruct (Z.eqb_spec (zlen enc) 0); [lia|].
    destruct (Z.ltb_spec (zlen enc) tokenNonceSize); [reflexivity|lia].
  Qed.

  Lemma decode_nil_iff k enc : decode k enc = DNil <-> enc = [].
  Proof.
    split; [|intros ->; reflexivity].
    unfold decode, decodeToken. destruct (Z.eqb_spec (zlen enc) 0) as [E|E].
    - intros _. apply zlen_0. exact E.
    - destruct (protDecode _ _); [|discriminate].
      destruct (unmarshal l) as [[r rest]|]; [|discriminate]. destruct (zlen rest =? 0); [|discriminate].
      destruct (r_isRetry r && _); discriminate.
  Qed.

  Section Ideal.
  Hypothesis PI : protector_ideal prot_seal prot_open sealed.

  (** *** Forgery: whatever decodes to a token is, byte for byte, something this key sealed *)
  Theorem decode_only_sealed k enc t :
    decode k enc = DTok t ->
    exists d r, sealed_token k enc d /\ unmarshal d = Some (r, []) /\ t = tok_of_rec r.
  Proof.
    unfold decode, decodeToken, protDecode.
    destruct (zlen enc =? 0); [discriminate|].
    destruct (Z.ltb_spec (zlen enc) tokenNonceSize) as [Hs|Hs]; [discriminate|].
    destruct (prot_open k (firstn nonceLen enc) (skipn nonceLen enc)) as [d|] eqn:Eo; [|discriminate].
    destruct (unmarshal d) as [[r rest]|] eqn:Eu; [|discriminate].
    destruct (Z.eqb_spec (zlen rest) 0) as [Er|Er]; [|discriminate].
    destruct (r_isRetry r && ((sl_MaxConnIDLen <? zlen (r_odcid r)) || (sl_MaxConnIDLen <? zlen (r_rscid r)))); [discriminate|].
    intros H. inversion H; subst t. apply zlen_0 in Er. subst rest.
    destruct (int_ctxt _ _ _ PI _ _ _ _ Eo) as [Hsl Hc].
    exists d, r. split; [|auto].
    exists (firstn nonceLen enc). split; [|split; [exact Hsl|]].
    - apply firstn_length_le. unfold zlen, nonceLen in *. lia.
    - unfold protNewToken. rewrite <- Hc. symmetry. apply firstn_skipn.
  Qed.

  (** ... so any non-empty byte string that is not a sealed token is an error:
      truncations, bit flips, extensions, random strings. *)
  Theorem forgery_not_sealed k enc :
    enc <> [] -> (forall d, ~ sealed_token k enc d) -> decode k enc = DErr.
  Proof.
    intros Hne Hns. destruct (decode k enc) as [| |t] eqn:E; [|reflexivity|].
    - apply decode_nil_iff in E. contradiction.
    - apply decode_only_sealed in E as (d & r & Hs & _). exfalso. exact (Hns d Hs).
  Qed.

  (** a token sealed under another key is an error *)
  Theorem forgery_other_key k1 k2 enc d :
    sealed_token k2 enc d -> k1 <> k2 -> decode k1 enc = DErr.
  Proof.
    intros (n2 & Hl2 & _ & He2) Hk. apply forgery_not_sealed.
    - intros ->. unfold protNewToken in He2. destruct n2; [|discriminate].
      unfold nonceLen in Hl2. rewrite nonce_size_32 in Hl2. discriminate.
    - intros d1 (n1 & Hl1 & _ & He1). subst enc. unfold protNewToken in He1.
      apply app_inj_len in He1 as [-> Hc]; [|congruence].
      apply Hk. symmetry. eapply (key_sep _ _ _ PI). exact Hc.
  Qed.

  Section Both.
  Hypothesis OC : oracles_correct prot_seal prot_open marshal unmarshal sealed.
  Hypothesis OR : only_records.

  Theorem decode_only_issued k enc t :
    decode k enc = DTok t -> exists r, issued k enc r /\ t = tok_of_rec r.
  Proof.
    intros H. apply decode_only_sealed in H as (d & r & Hs & Hu & ->).
    destruct Hs as (nonce & Hl & Hsl & He).
    destruct (OR _ _ _ Hsl) as [r' ->].
    rewrite (unmarshal_marshal _ _ _ _ _ OC) in Hu. inversion Hu; subst r'.
    exists r. split; [|reflexivity]. exists nonce. auto.
  Qed.
  End Both.
  End Ideal.

  (** *** The server: handleInitialImpl's token branch (no assumption needed) *)

  (** clientAddressValidated = true only from a token that decodes and validates for this
      address at this time; the connection then gets the token's connection IDs / RTT *)
  Theorem verified_needs_valid_token k enc dcid a now maxTokenAge maxRetryAge vs kd od rs rtt :
    handle k enc dcid a now maxTokenAge maxRetryAge vs = Out kd true od rs rtt ->
    kd = 3 /\ exists t, decode k enc = DTok t /\
      validateToken (Some t) a now maxTokenAge maxRetryAge = true /\
      od = (if t_isRetry t then t_odcid t else dcid) /\
      rs = (if t_isRetry t then Some (t_rscid t) else None) /\
      rtt = (if t_isRetry t then 0 else t_rtt t).
  Proof.
    unfold handle, handleInitial. fold (decode k enc).
    destruct ((zlen enc =? 0) && (zlen dcid <? tok_MinConnectionIDLenInitial)); [discriminate|].
    destruct (0 <? zlen enc).
    2:{ destruct (vs =? 1); discriminate. }
    destruct (decode k enc) as [| |t]; try (destruct (vs =? 1); discriminate).
    destruct (validateToken (Some t) a now maxTokenAge maxRetryAge) eqn:Ev; cbn [negb andb].
    - intros H. inversion H; subst. split; [reflexivity|]. exists t. auto.
    - destruct (t_isRetry t); [discriminate|]. destruct (vs =? 1); discriminate.
  Qed.

  (** anything that does not decode to a token is treated as if no token had been sent
      (except that a non-empty token lifts the minimum-DCID-length drop):
      never INVALID_TOKEN, never a verified address *)
  Theorem undecodable_is_absent k enc dcid a now maxTokenAge maxRetryAge vs :
    (forall t, decode k enc <> DTok t) ->
    handle k enc dcid a now maxTokenAge maxRetryAge vs =
      if (zlen enc =? 0) && (zlen dcid <? tok_MinConnectionIDLenInitial) then Out 0 false [] None 0
      else if vs =? 1 then Out 2 false [] None 0 else Out 3 false dcid None 0.
  Proof.
    intros Hn. unfold handle, handleInitial. fold (decode k enc).
    destruct ((zlen enc =? 0) && (zlen dcid <? tok_MinConnectionIDLenInitial)); [reflexivity|].
    destruct (0 <? zlen enc); [|reflexivity].
    destruct (decode k enc) as [| |t]; try reflexivity. exfalso. exact (Hn t eq_refl).
  Qed.

  (** an invalid token that does decode: Retry tokens are answered with INVALID_TOKEN,
      NEW_TOKEN tokens are ignored *)
  Theorem invalid_token_handling k enc dcid a now maxTokenAge maxRetryAge vs t :
    decode k enc = DTok t -> validateToken (Some t) a now maxTokenAge maxRetryAge = false ->
    handle k enc dcid a now maxTokenAge maxRetryAge vs =
      if t_isRetry t then Out 1 false [] None 0
      else if vs =? 1 then Out 2 false [] None 0 else Out 3 false dcid None 0.
  Proof.
    intros Hd Hv. unfold handle, handleInitial. fold (decode k enc).
    assert (Hz : (zlen enc =? 0) = false).
    { destruct (Z.eqb_spec (zlen enc) 0) as [E|]; [|reflexivity].
      apply zlen_0 in E. subst. discriminate. }
    rewrite Hz. cbn [andb].
    assert (Hp : (0 <? zlen enc) = true).
    { apply Z.ltb_lt. apply Z.eqb_neq in Hz. pose proof (zlen_nonneg enc). lia. }
    rewrite Hp, Hd, Hv. cbn [negb andb]. destruct (t_isRetry t); reflexivity.
  Qed.

  (** a token that decodes and validates: the connection is created as verified, whatever
      VerifySourceAddress says, with the token's connection IDs (Retry) or RTT (NEW_TOKEN) *)
  Theorem valid_token_handling k enc dcid a now maxTokenAge maxRetryAge vs t :
    decode k enc = DTok t -> validateToken (Some t) a now maxTokenAge maxRetryAge = true ->
    handle k enc dcid a now maxTokenAge maxRetryAge vs =
      Out 3 true (if t_isRetry t then t_odcid t else dcid)
                 (if t_isRetry t then Some (t_rscid t) else None)
                 (if t_isRetry t then 0 else t_rtt t).
  Proof.
    intros Hd Hv. unfold handle, handleInitial. fold (decode k enc).
    assert (Hz : (zlen enc =? 0) = false).
    { destruct (Z.eqb_spec (zlen enc) 0) as [E|]; [|reflexivity].
      apply zlen_0 in E. subst. discriminate. }
    rewrite Hz. cbn [andb].
    assert (Hp : (0 <? zlen enc) = true).
    { apply Z.ltb_lt. apply Z.eqb_neq in Hz. pose proof (zlen_nonneg enc). lia. }
    rewrite Hp, Hd, Hv. cbn [negb andb]. reflexivity.
  Qed.

  (** the complete decision table of handleInitialImpl's token branch *)
  Definition absent_outcome (enc dcid : list Z) (vs : Z) : outcome :=
    if (zlen enc =? 0) && (zlen dcid <? tok_MinConnectionIDLenInitial) then Out 0 false [] None 0
    else if vs =? 1 then Out 2 false [] None 0 else Out 3 false dcid None 0.

  Theorem decision_table k enc dcid a now maxTokenAge maxRetryAge vs :
    handle k enc dcid a now maxTokenAge maxRetryAge vs =
    match decode k enc with
    | DTok t =>
      if validateToken (Some t) a now maxTokenAge maxRetryAge
      then Out 3 true (if t_isRetry t then t_odcid t else dcid)
                      (if t_isRetry t then Some (t_rscid t) else None)
                      (if t_isRetry t then 0 else t_rtt t)
      else if t_isRetry t then Out 1 false [] None 0 else absent_outcome enc dcid vs
    | _ => absent_outcome enc dcid vs
    end.
  Proof.
    destruct (decode k enc) as [| |t] eqn:Ed.
    - apply undecodable_is_absent. intros t. rewrite Ed. discriminate.
    - apply undecodable_is_absent. intros t. rewrite Ed. discriminate.
    - destruct (validateToken (Some t) a now maxTokenAge maxRetryAge) eqn:Ev.
      + apply valid_token_handling; assumption.
      + rewrite (invalid_token_handling k enc dcid a now maxTokenAge maxRetryAge vs t Ed Ev).
        destruct (t_isRetry t); [reflexivity|]. unfold absent_outcome.
        assert (Hz : (zlen enc =? 0) = false).
        { destruct (Z.eqb_spec (zlen enc) 0) as [E|]; [|reflexivity].
          apply zlen_0 in E. subst. discriminate. }
        rewrite Hz. reflexivity.
  Qed.

  (** *** Together: a token proves only its address *)
  Theorem token_proves_only_its_address k enc dcid a now maxTokenAge maxRetryAge vs kd od rs rtt :
    oracles_correct prot_seal prot_open marshal unmarshal sealed ->
    protector_ideal prot_seal prot_open sealed -> only_records ->
    handle k enc dcid a now maxTokenAge maxRetryAge vs = Out kd true od rs rtt ->
    exists r, issued k enc r /\
      encodeRemoteAddr a = r_addr r /\
      now - r_ts r <= (if r_isRetry r then maxRetryAge else maxTokenAge) /\
      (r_isRetry r = true -> od = r_odcid r /\ rs = Some (r_rscid r)).
  Proof.
    intros OC PI OR H.
    apply verified_needs_valid_token in H as (_ & t & Hd & Hv & Hod & Hrs & _).
    destruct (decode_only_issued PI OC OR _ _ _ Hd) as (r & Hi & ->).
    exists r. split; [exact Hi|].
    apply validateToken_spec in Hv as [Ha Hl]. unfold lifetime, tok_of_rec in *.
    destruct (r_isRetry r); cbn in *; repeat split; auto; discriminate.
  Qed.
End TokenTheory.

(** ** The assumptions are jointly satisfiable: a toy instance (one sealed Retry token) *)
Module Instance.
  Definition b2z (b : bool) : Z := if b then 1 else 0.
  Definition marshalI (r : rec) : list Z :=
    [b2z (r_isRetry r); r_ts r; r_rtt r; zlen (r_addr r); zlen (r_odcid r)] ++ r_addr r ++ r_odcid r ++ r_rscid r.
  Definition unmarshalI (l : list Z) : option (rec * list Z) :=
    match l with
    | b :: ts :: rtt :: la :: lo :: rest =>
      let la' := Z.to_nat la in let lo' := Z.to_nat lo in
      Some (Rec (b =? 1) (firstn la' rest) ts rtt (firstn lo' (skipn la' rest)) (skipn lo' (skipn la' rest)), [])
    | _ => None
    end.
  Definition a0 := UDPAddr [10; 0; 0; 1] 4433.
  Definition r0 := Rec true (encodeRemoteAddr a0) 1000 0 [1; 2; 3; 4; 5; 6; 7; 8] [9; 9; 9; 9].
  Definition nonce0 : list Z := repeat 0 32.
  Definition sealedI (k : Z) (n d : list Z) : Prop := k = 7 /\ n = nonce0 /\ d = marshalI r0.
  Definition sealI (k : Z) (n d : list Z) : list Z := k :: d.
  Definition openI (k : Z) (n c : list Z) : option (list Z) :=
    match c with
    | k' :: d => if (k' =? k) && (k =? 7) && zeqb_list n nonce0 && zeqb_list d (marshalI r0) then Some d else None
    | [] => None
    end.

  Lemma unmarshal_marshalI r : unmarshalI (marshalI r) = Some (r, []).
  Proof.
    destruct r as [b ad ts rtt od rs]. unfold marshalI, unmarshalI. cbn [r_isRetry r_ts r_rtt r_addr r_odcid r_rscid app].
    unfold zlen. rewrite !Nat2Z.id, firstn_app_len, skipn_app_len, firstn_app_len, skipn_app_len.
    destruct b; reflexivity.
  Qed.

  Lemma correctI : oracles_correct sealI openI marshalI unmarshalI sealedI.
  Proof.
    split; [|exact unmarshal_marshalI].
    intros k n d (-> & -> & ->). reflexivity.
  Qed.

  Lemma idealI : protector_ideal sealI openI sealedI.
  Proof.
    split.
    - intros k n c d. unfold openI. destruct c as [|k' d']; [discriminate|].
      destruct (Z.eqb_spec k' k) as [->|]; [|discriminate].
      destruct (Z.eqb_spec k 7) as [->|]; [|discriminate]. cbn [andb].
      destruct (zeqb_list n nonce0) eqn:En; [|discriminate].
      destruct (zeqb_list d' (marshalI r0)) eqn:Ed; [|discriminate].
      cbn [andb]. intros H. inversion H; subst d'.
      apply zeqb_list_eq in En, Ed. subst. repeat split.
    - intros k1 k2 n d1 d2 H. inversion H. reflexivity.
  Qed.

  Lemma only_recordsI : only_records Z marshalI sealedI.
  Proof. intros k n d (_ & _ & ->). exists r0. reflexivity. Qed.

  Definition tok0 : list Z := newRetryToken (sealI 7) marshalI nonce0 a0 [1; 2; 3; 4; 5; 6; 7; 8] [9; 9; 9; 9] 1000.

  (** the issued token round-trips, validates from the same IP on another port within the
      lifetime and makes the server create a verified connection with its connection IDs ... *)
  Lemma instance_valid :
    decode Z openI unmarshalI 7 tok0 = DTok (Tok true 1000 (encodeRemoteAddr a0) [1; 2; 3; 4; 5; 6; 7; 8] [9; 9; 9; 9] 0) /\
    handle Z openI unmarshalI 7 tok0 [5; 5; 5; 5; 5; 5; 5; 5] (UDPAddr [10; 0; 0; 1] 9999) 1500 86400 500 1
      = Out 3 true [1; 2; 3; 4; 5; 6; 7; 8] (Some [9; 9; 9; 9]) 0.
  Proof. split; vm_compute; reflexivity. Qed.

  (** ... but not from another address, not after its lifetime, not under another key, not
      with a flipped bit or cut short. *)
  Lemma instance_invalid :
    handle Z openI unmarshalI 7 tok0 [5; 5; 5; 5; 5; 5; 5; 5] (UDPAddr [10; 0; 0; 2] 4433) 1500 86400 500 1 = Out 1 false [] None 0 /\
    handle Z openI unmarshalI 7 tok0 [5; 5; 5; 5; 5; 5; 5; 5] a0 1501 86400 500 1 = Out 1 false [] None 0 /\
    decode Z openI unmarshalI 8 tok0 = DErr /\
    decode Z openI unmarshalI 7 (firstn 40 tok0 ++ [1] ++ skipn 41 tok0) = DErr /\
    decode Z openI unmarshalI 7 (firstn 31 tok0) = DErr.
  Proof. repeat split; vm_compute; reflexivity. Qed.
End Instance.
