(** C14 — proofs about the server's stateless replies (per datagram). *)
From Coq Require Import List ZArith Bool Lia.
From V Require Import Gen.Params Lib.Hex AmpToken.TokenModel AmpToken.StatelessModel.
Import ListNotations.
Open Scope Z_scope.

(** generated constants the statements fix *)
Lemma min_sizes : sl_MinInitialPacketSize = 1200 /\ sl_MinUnknownVersionPacketSize = 1200 /\
                  sl_MinStatelessResetSize = 42 /\ sl_MaxConnIDLen = 20.
Proof. repeat split; reflexivity. Qed.

(** what is known about the inputs: header length bytes are bytes; for a version the server speaks
    wire.ParsePacket only succeeds with connection IDs of at most 20 bytes; the configuration has a
    bounded version list and connection-ID length; Retry tokens are bounded. *)
Record inputs_ok (c : scfg) (f : sform) (i : initinfo) : Prop := {
  ok_nver : 0 <= nver c <= 64;
  ok_cid : 0 <= connIDLen c <= 20;
  ok_tok : 0 <= retryTokLen i <= 1024;
  ok_hdr : match f with
           | FLong h => 0 <= dl h <= 255 /\ 0 <= sl h <= 255 /\
                        (ver h <> 2 -> parseOK h = true -> dl h <= 20 /\ sl h <= 20)
           | _ => True
           end
}.

Definition the_reply (c : scfg) (n : Z) (f : sform) (known : bool) (i : initinfo) : reply :=
  fst (fst (transportReply c n f known i)).

Ltac brk :=
  repeat match goal with
  | |- context [if ?a <? ?b then _ else _] => destruct (Z.ltb_spec a b)
  | |- context [if ?a <=? ?b then _ else _] => destruct (Z.leb_spec a b)
  | |- context [if ?a =? ?b then _ else _] => destruct (Z.eqb_spec a b)
  | |- context [let '(Out _ _ _ _ _) := ?o in _] => destruct o
  | |- context [if ?b then _ else _] => destruct b eqn:?
  end.

(** everything the server proper may answer: the kind, its size, and what made it possible *)
Lemma serverReply_facts c n h i :
  match fst (serverReply c n h i) with
  | RNone => True
  | RVN s => s = vnSize c h /\ 1200 <= n /\ 7 + dl h + sl h <= n /\ ver h = 2
  | RRetry s => s = retrySize c h (retryTokLen i) /\ 1200 <= n /\ ver h <> 2 /\ parseOK h = true
  | RErr _ s => s = errSize h /\ 1200 <= n /\ ver h <> 2 /\ parseOK h = true
  | RReset _ => False
  end.
Proof.
  destruct min_sizes as (M1 & M2 & _ & _). unfold serverReply.
  brk; cbn [fst negb andb] in *; auto; try discriminate; repeat split; try lia; auto.
  all: destruct (parseOK h); [reflexivity|discriminate].
Qed.

Lemma connIDParses_long c n h : connIDParses c n (FLong h) = true -> 6 + dl h <= n /\ dl h <= 20.
Proof.
  destruct min_sizes as (_ & _ & _ & M4). unfold connIDParses. rewrite M4.
  intros H. apply andb_prop in H as [H H3]. apply andb_prop in H as [H1 H2].
  apply Z.leb_le in H1, H2, H3. lia.
Qed.

Lemma transportReply_facts c n f known i :
  match the_reply c n f known i with
  | RNone => True
  | RReset s => f = FShort /\ s = 42 /\ 42 < n
  | r => exists h, f = FLong h /\ dl h <= 20 /\ fst (serverReply c n h i) = r
  end.
Proof.
  destruct min_sizes as (_ & _ & M3 & _). unfold the_reply, transportReply.
  destruct (Z.eqb_spec n 0); [exact I|].
  destruct f as [| |h]; [exact I| |].
  - destruct (connIDParses c n FShort); cbn [negb]; [|exact I].
    destruct known; [exact I|].
    destruct (hasResetKey c); cbn [andb]; [|exact I].
    destruct (Z.ltb_spec sl_MinStatelessResetSize n); cbn [fst]; [|exact I]. rewrite M3 in *. auto.
  - destruct (connIDParses c n (FLong h)) eqn:Ep; cbn [negb]; [|exact I].
    destruct known; [exact I|]. cbn [fst].
    apply connIDParses_long in Ep as [_ Hd].
    pose proof (serverReply_facts c n h i) as F.
    destruct (fst (serverReply c n h i)) eqn:Er; try exact I; try (exists h; auto). contradiction.
Qed.

(** (1) per datagram: what is sent in response is at most three times the datagram — and a
    long-header reply is even smaller than the 1200 bytes it needs to be triggered *)
Theorem reply_small c n f known i :
  inputs_ok c f i ->
  match the_reply c n f known i with
  | RNone => True
  | RReset s => s = 42 /\ s < n
  | r => 1200 <= n /\ replySize r < 1200
  end.
Proof.
  intros [Hn Hc Ht Hh]. pose proof (transportReply_facts c n f known i) as F.
  destruct (the_reply c n f known i) as [|s|s|code s|s]; cbn [replySize]; auto.
  - destruct F as (h & -> & Hd & Er). pose proof (serverReply_facts c n h i) as G. rewrite Er in G.
    destruct G as (-> & G1 & G2 & G3). destruct Hh as (H1 & H2 & _). unfold vnSize. lia.
  - destruct F as (h & -> & Hd & Er). pose proof (serverReply_facts c n h i) as G. rewrite Er in G.
    destruct G as (-> & G1 & G2 & G3). destruct Hh as (H1 & H2 & H3). destruct (H3 G2 G3). unfold retrySize. lia.
  - destruct F as (h & -> & Hd & Er). pose proof (serverReply_facts c n h i) as G. rewrite Er in G.
    destruct G as (-> & G1 & G2 & G3). destruct Hh as (H1 & H2 & H3). destruct (H3 G2 G3). unfold errSize. lia.
  - destruct F as (_ & -> & F). lia.
Qed.

Theorem reply_bound c n f known i :
  0 <= n -> inputs_ok c f i -> replySize (the_reply c n f known i) <= 3 * n.
Proof.
  intros Hn0 Hok. pose proof (reply_small c n f known i Hok) as F.
  destruct (the_reply c n f known i); cbn [replySize] in *; lia.
Qed.

(** (2) Version Negotiation, Retry and the CONNECTION_CLOSE replies are only sent in response to
    datagrams of at least 1200 bytes; a stateless reset is 42 bytes and strictly smaller than its trigger *)
Theorem long_reply_needs_1200 c n f known i :
  match the_reply c n f known i with RVN _ | RRetry _ | RErr _ _ => 1200 <= n | _ => True end.
Proof.
  pose proof (transportReply_facts c n f known i) as F.
  destruct (the_reply c n f known i) as [|s|s|code s|s]; auto;
    destruct F as (h & -> & Hd & Er); pose proof (serverReply_facts c n h i) as G; rewrite Er in G; tauto.
Qed.

Theorem reset_smaller c n f known i s :
  the_reply c n f known i = RReset s -> s = 42 /\ s < n /\ f = FShort.
Proof.
  intros E. pose proof (transportReply_facts c n f known i) as F. rewrite E in F.
  destruct F as (F1 & -> & F3). auto with zarith.
Qed.

(** (3) what is never answered: Version Negotiation packets, long-header datagrams under 1200 bytes,
    short-header datagrams of at most 42 bytes, datagrams for a known connection ID *)
Theorem vn_never_answered c n h known i : ver h = 0 -> the_reply c n (FLong h) known i = RNone.
Proof.
  intros Hv. pose proof (transportReply_facts c n (FLong h) known i) as F.
  destruct (the_reply c n (FLong h) known i) as [|s|s|code s|s]; auto;
    try (destruct F as (h' & E & Hd & Er); inversion E; subst h';
         pose proof (serverReply_facts c n h i) as G; rewrite Er in G).
  - destruct G as (_ & _ & _ & G). congruence.
  - exfalso. revert Er. unfold serverReply. rewrite Hv. cbn. discriminate.
  - exfalso. revert Er. unfold serverReply. rewrite Hv. cbn. discriminate.
  - destruct F as (F & _). discriminate.
Qed.

Theorem small_long_never_answered c n h known i : n < 1200 -> the_reply c n (FLong h) known i = RNone.
Proof.
  intros Hn. pose proof (long_reply_needs_1200 c n (FLong h) known i) as F.
  pose proof (transportReply_facts c n (FLong h) known i) as T.
  destruct (the_reply c n (FLong h) known i) as [|s|s|code s|s]; auto; try lia.
  destruct T as (T & _). discriminate.
Qed.

Theorem small_short_never_answered c n known i : n <= 42 -> the_reply c n FShort known i = RNone.
Proof.
  intros Hn. pose proof (transportReply_facts c n FShort known i) as T.
  destruct (the_reply c n FShort known i) as [|s|s|code s|s]; auto;
    try (destruct T as (h & E & _); discriminate).
  destruct T as (_ & _ & T). lia.
Qed.

Theorem known_never_answered c n f i : the_reply c n f true i = RNone.
Proof.
  unfold the_reply, transportReply. destruct (n =? 0); [reflexivity|].
  destruct f; [reflexivity| |]; destruct (connIDParses _ _ _); reflexivity.
Qed.

(** (4) no reply to a reply: whatever the server sent, arriving as a datagram at any server
    (any configuration, any header interpretation of the matching form), is answered by silence *)
Theorem no_reply_to_reply c n f known i :
  inputs_ok c f i ->
  forall c' known' i',
  match the_reply c n f known i with
  | RNone => True
  | RReset s => the_reply c' s FShort known' i' = RNone
  | r => forall h', the_reply c' (replySize r) (FLong h') known' i' = RNone
  end.
Proof.
  intros Hok c' known' i'. pose proof (reply_small c n f known i Hok) as F.
  destruct (the_reply c n f known i) as [|s|s|code s|s]; auto; cbn [replySize] in *.
  - intros h'. apply small_long_never_answered. lia.
  - intros h'. apply small_long_never_answered. lia.
  - intros h'. apply small_long_never_answered. lia.
  - apply small_short_never_answered. lia.
Qed.

(** Non-vacuity: concrete datagrams that do get each kind of reply. *)
Definition ex_cfg : scfg := SCfg true 1 false false false 4 1 3600000000000 5000000000.
Definition ex_info : initinfo := II [] [1;2;3;4;5;6;7;8] (UDPAddr [10;0;0;1] 1000) 0 None None true 101.
Example reply_examples :
  inputs_ok ex_cfg (FLong (LH 1 0 8 4 true)) ex_info /\
  the_reply ex_cfg 1200 (FLong (LH 2 0 8 4 true)) false ex_info = RVN 27 /\
  the_reply ex_cfg 1199 (FLong (LH 2 0 8 4 true)) false ex_info = RNone /\
  the_reply ex_cfg 1200 (FLong (LH 1 0 8 4 true)) false ex_info = RRetry 132 /\
  the_reply (SCfg true (-1) false false true 4 1 3600000000000 5000000000) 1200 (FLong (LH 1 0 8 4 true)) false ex_info = RErr sl_ConnectionRefused 46 /\
  the_reply ex_cfg 43 FShort false ex_info = RReset 42 /\
  the_reply ex_cfg 42 FShort false ex_info = RNone.
Proof.
  split; [constructor; cbn; try lia; repeat split; try lia|]. 
  repeat split; vm_compute; reflexivity.
Qed.
