(** Correspondence glue for the `token` harness unit: one case = one byte string presented as a
    token from one address at one instant to a server with given lifetimes, with the two
    oracles (what the protector opens it to, what encoding/asn1 makes of the plaintext)
    and what the implementation answered. *)
From Coq Require Import List ZArith Bool String.
From V Require Import Gen.Params Lib.Corr.
From V Require Export Lib.Hex AmpToken.TokenModel.
Import ListNotations.
Open Scope Z_scope.

Inductive case :=
  TokCase (enc : list Z) (opened : option (list Z)) (recd : option (rec * Z (* len rest *)))
          (a : addr) (now maxTokenAge handshakeIdle verifySrc : Z) (dcid : list Z)
          (* observed *) (class : Z) (t : option tok) (valid : bool) (out : outcome).

Inductive obs := TokObs (class : Z) (t : option tok) (valid : bool) (out : outcome).

Definition oracle_open (o : option (list Z)) : list Z -> list Z -> option (list Z) := fun _ _ => o.
Definition oracle_unmarshal (r : option (rec * Z)) : list Z -> option (rec * list Z) :=
  fun _ => match r with Some (r, n) => Some (r, repeat 0 (Z.to_nat n)) | None => None end.

Definition model_obs (c : case) : obs :=
  match c with
  | TokCase enc opened recd a now maxAge hsIdle vs dcid _ _ _ _ =>
    let po := oracle_open opened in
    let um := oracle_unmarshal recd in
    let d := decodeToken po um enc in
    let t := match d with DTok t => Some t | _ => None end in
    TokObs (match d with DNil => 0 | DErr => 1 | DTok _ => 2 end) t
           (match t with Some _ => validateToken t a now maxAge (maxRetryTokenAge hsIdle) | None => false end)
           (handleInitial po um enc dcid a now maxAge (maxRetryTokenAge hsIdle) vs)
  end.

Definition tok_eqb (a b : tok) : bool :=
  Bool.eqb (t_isRetry a) (t_isRetry b) && (t_sent a =? t_sent b) && zeqb_list (t_addr a) (t_addr b) &&
  zeqb_list (t_odcid a) (t_odcid b) && zeqb_list (t_rscid a) (t_rscid b) && (t_rtt a =? t_rtt b).

Definition opt_eqb {A} (f : A -> A -> bool) (a b : option A) : bool :=
  match a, b with Some x, Some y => f x y | None, None => true | _, _ => false end.

Definition out_eqb (a b : outcome) : bool :=
  match a, b with
  | Out k v o r t, Out k' v' o' r' t' =>
    (k =? k') && Bool.eqb v v' && zeqb_list o o' && opt_eqb zeqb_list r r' && (t =? t')
  end.

Definition check_case (c : case) : bool :=
  match c, model_obs c with
  | TokCase _ _ _ _ _ _ _ _ _ class t valid out, TokObs class' t' valid' out' =>
    (class =? class') && opt_eqb tok_eqb t t' && Bool.eqb valid valid' && out_eqb out out'
  end.
