(** C14 — what the server sends towards an address BEFORE a connection exists
    (transport.go Transport.handlePacket / maybeSendStatelessReset / sendStatelessReset,
     server.go handlePacketImpl / maybeSendVersionNegotiationPacket / handleInitialImpl /
     sendRetryPacket / maybeSendInvalidToken / sendConnectionRefused / sendError,
     internal/wire ComposeVersionNegotiation, ExtendedHeader.Append).

    Sizes in, sizes out: a datagram is described by its length and the header fields the
    decisions read; the reply (at most one per datagram) by its kind and length.
    Executable definitions only. *)
From Coq Require Import List ZArith Bool.
From V Require Import Gen.Params Lib.Hex AmpToken.TokenModel.
Import ListNotations.
Open Scope Z_scope.

Record scfg := SCfg {
  hasResetKey : bool;        (* Transport.StatelessResetKey != nil *)
  verifySrc : Z;             (* Transport.VerifySourceAddress: -1 none, 0 false, 1 true *)
  disableVN : bool;
  acceptEarly : bool;
  refuse : bool;             (* GetConfigForClient returns an error *)
  connIDLen : Z;             (* the transport's connection ID length *)
  nver : Z;                  (* len(config.Versions) *)
  maxTokenAge : Z; hsIdle : Z
}.

(** a long header as far as it parses *)
Record longhdr := LH {
  ver : Z;                   (* 0: version field is zero; 1: a configured version; 2: anything else *)
  typ : Z;                   (* 0 Initial, 1 0-RTT, 2 Handshake, 3 Retry (after the version's type mapping) *)
  dl : Z; sl : Z;            (* the two connection-ID length bytes *)
  parseOK : bool             (* wire.ParsePacket succeeds (complete header, Length within the datagram) *)
}.

Inductive sform :=
| FNonQuic                   (* first byte has neither 0x80 nor 0x40 *)
| FShort
| FLong (h : longhdr).

(** what handleInitialImpl needs beyond the header *)
Record initinfo := II {
  tokenBytes : list Z; dcidBytes : list Z; fromAddr : addr; nowNs : Z;
  opened : option (list Z); recd : option (rec * Z);   (* the token unit's two oracles *)
  decryptable : bool;                                  (* the Initial packet opens with the Initial keys *)
  retryTokLen : Z                                      (* length of the Retry token the generator issues *)
}.

Inductive reply :=
| RNone
| RVN (size : Z)
| RRetry (size : Z)
| RErr (code size : Z)       (* Initial packet with CONNECTION_CLOSE *)
| RReset (size : Z).

(** wire.ParseConnectionID as Transport.handlePacket calls it *)
Definition connIDParses (c : scfg) (n : Z) (f : sform) : bool :=
  match f with
  | FLong h => (6 <=? n) && (dl h <=? sl_MaxConnIDLen) && (6 + dl h <=? n)
  | _ => connIDLen c + 1 <=? n
  end.

(** sizes of what the senders compose *)
Definition vnSize (c : scfg) (h : longhdr) : Z :=
  1 + 4 + 1 + dl h + 1 + sl h + 4 * (nver c + 1).          (* ComposeVersionNegotiation; one greased version is added *)
Definition retrySize (c : scfg) (h : longhdr) (tokLen : Z) : Z :=
  1 + 4 + 1 + sl h + 1 + connIDLen c + tokLen + 16.         (* ExtendedHeader.Append (Retry) + integrity tag *)
Definition errSize (h : longhdr) : Z :=
  1 + 4 + 1 + sl h + 1 + dl h + 1 + 2 + 4 + 4 + 16.         (* sendError: header, empty token, 2-byte Length, 4-byte PN, 4-byte CONNECTION_CLOSE, tag *)

(** baseServer.handlePacketImpl and what runSendQueue then sends *)
Definition serverReply (c : scfg) (n : Z) (h : longhdr) (i : initinfo) : reply * bool (* connection created *) :=
  if ver h =? 0 then (RNone, false)                                   (* a Version Negotiation packet is dropped *)
  else if ver h =? 2 then
    if disableVN c then (RNone, false)
    else if n <? sl_MinUnknownVersionPacketSize then (RNone, false)
    else if n <? 7 + dl h + sl h then (RNone, false)                   (* ParseArbitraryLenConnectionIDs fails *)
    else (RVN (vnSize c h), false)
  else if typ h =? 1 then (RNone, false)                               (* 0-RTT: queued or dropped *)
  else if negb (parseOK h) then (RNone, false)
  else if (typ h =? 0) && (n <? sl_MinInitialPacketSize) then (RNone, false)
  else if negb (typ h =? 0) then (RNone, false)
  else
    let '(Out k _ _ _ _) :=
      handleInitial (fun _ _ => opened i)
                    (fun _ => match recd i with Some (r, k) => Some (r, repeat 0 (Z.to_nat k)) | None => None end)
                    (tokenBytes i) (dcidBytes i) (fromAddr i) (nowNs i) (maxTokenAge c)
                    (maxRetryTokenAge (hsIdle c)) (verifySrc c) in
    if k =? 1 then (if decryptable i then (RErr sl_InvalidToken (errSize h), false) else (RNone, false))
    else if k =? 2 then (RRetry (retrySize c h (retryTokLen i)), false)
    else if k =? 3 then (if refuse c then (RErr sl_ConnectionRefused (errSize h), false) else (RNone, true))
    else (RNone, false).

(** Transport.handlePacket for a datagram of [n] bytes; [known]: its connection ID (if it parses) has a
    handler.  Result: the reply, "a connection is created", "handed to the existing handler". *)
Definition transportReply (c : scfg) (n : Z) (f : sform) (known : bool) (i : initinfo) : reply * bool * bool :=
  if n =? 0 then (RNone, false, false)
  else match f with
  | FNonQuic => (RNone, false, false)
  | _ =>
    if negb (connIDParses c n f) then (RNone, false, false)
    else if known then (RNone, false, true)
    else match f with
    | FLong h => (serverReply c n h i, false)
    | _ => (* short header: maybeSendStatelessReset *)
      if hasResetKey c && (sl_MinStatelessResetSize <? n) then (RReset sl_MinStatelessResetSize, false, false)
      else (RNone, false, false)
    end
  end.

Definition replySize (r : reply) : Z :=
  match r with RNone => 0 | RVN s | RRetry s | RErr _ s | RReset s => s end.

(** a reply seen as a datagram arriving at (another, or the same) server *)
Definition replyForm (c : scfg) (h : longhdr) (r : reply) : option sform :=
  match r with
  | RNone => None
  | RVN _ => Some (FLong (LH 0 0 (sl h) (dl h) false))
  | RRetry _ => Some (FLong (LH 1 3 (sl h) (connIDLen c) true))
  | RErr _ _ => Some (FLong (LH 1 0 (sl h) (dl h) true))
  | RReset _ => Some FShort
  end.
