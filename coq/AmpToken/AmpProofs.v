(** C14 (a) — proofs about the amplification slice. *)
From Coq Require Import List ZArith Bool Lia.
From V Require Import Gen.Params AmpToken.AmpModel.
Import ListNotations.
Open Scope Z_scope.

(** The generated constants the statements fix. *)
Lemma factor_is_3 : amplificationFactor = 3.
Proof. reflexivity. Qed.
Lemma sendnone_is_0 : amp_SendNone = 0.
Proof. reflexivity. Qed.

(** ** Which operations write the three amplification fields *)

Lemma setTimer_fields s :
  bytesSent (setTimer s) = bytesSent s /\ bytesReceived (setTimer s) = bytesReceived s /\
  validated (setTimer s) = validated s.
Proof. unfold setTimer, set_tm; cbn. auto. Qed.

Lemma receivedBytes_fields s n :
  bytesSent (receivedBytes s n) = bytesSent s /\
  bytesReceived (receivedBytes s n) = bytesReceived s + n /\
  validated (receivedBytes s n) = validated s.
Proof.
  unfold receivedBytes.
  destruct (limited s && negb (limited _)).
  - pose proof (setTimer_fields (St (bytesSent s) (bytesReceived s + n) (validated s) (tm s))) as H.
    cbn in H. exact H.
  - cbn. auto.
Qed.

Lemma receivedPacket_fields s l :
  bytesSent (receivedPacket s l) = bytesSent s /\
  bytesReceived (receivedPacket s l) = bytesReceived s /\
  validated (receivedPacket s l) = (validated s || (l =? amp_EncHandshake)).
Proof.
  unfold receivedPacket.
  destruct (l =? amp_EncHandshake) eqn:El; destruct (validated s) eqn:Ev; cbn [andb negb orb].
  - rewrite Ev. auto.
  - pose proof (setTimer_fields (St (bytesSent s) (bytesReceived s) true (tm s))) as H. cbn in H. exact H.
  - rewrite Ev. auto.
  - rewrite Ev. auto.
Qed.

Lemma sentPacket_fields s t lvl size ae :
  bytesSent (sentPacket s t (lvl, size, ae)) = bytesSent s + size /\
  bytesReceived (sentPacket s t (lvl, size, ae)) = bytesReceived s /\
  validated (sentPacket s t (lvl, size, ae)) = validated s.
Proof.
  unfold sentPacket. destruct ae.
  - match goal with |- context [setTimer ?x] => pose proof (setTimer_fields x) as H end.
    cbn in H. cbn. exact H.
  - cbn. auto.
Qed.

Lemma dgram_size_cons p r : dgram_size (p :: r) = snd (fst p) + dgram_size r.
Proof. reflexivity. Qed.

Lemma fold_sentPacket_fields t pkts : forall s,
  let s' := fold_left (fun s p => sentPacket s t p) pkts s in
  bytesSent s' = bytesSent s + dgram_size pkts /\
  bytesReceived s' = bytesReceived s /\ validated s' = validated s.
Proof.
  induction pkts as [|[[lvl size] ae] r IH]; intros s.
  - cbn. repeat split; lia.
  - specialize (IH (sentPacket s t (lvl, size, ae))). cbn zeta in IH.
    destruct IH as (H1 & H2 & H3).
    destruct (sentPacket_fields s t lvl size ae) as (G1 & G2 & G3).
    cbn zeta. cbn [fold_left]. rewrite dgram_size_cons. cbn [fst snd].
    rewrite H1, H2, H3, G1, G2, G3. repeat split; lia.
Qed.

Lemma onTimeout_fields s :
  bytesSent (onTimeout s) = bytesSent s /\ bytesReceived (onTimeout s) = bytesReceived s /\
  validated (onTimeout s) = validated s.
Proof.
  unfold onTimeout. destruct (ptoTimeAndSpace (tm s)) as [p l].
  match goal with |- context [setTimer ?x] => pose proof (setTimer_fields x) as H end.
  cbn in H. exact H.
Qed.

(** ** The gate *)

Lemma limited_spec s :
  limited s = true <-> validated s = false /\ amplificationFactor * bytesReceived s <= bytesSent s.
Proof.
  unfold limited. destruct (validated s).
  - split; [discriminate | intros [H _]; discriminate].
  - rewrite Z.leb_le. tauto.
Qed.

Lemma sendMode_none_of_limited s : limited s = true -> sendMode s = amp_SendNone.
Proof. unfold sendMode. intros ->. reflexivity. Qed.

Lemma not_limited_of_sendMode s : sendMode s <> amp_SendNone -> limited s = false.
Proof.
  intros H. destruct (limited s) eqn:E; [|reflexivity].
  exfalso. apply H. apply sendMode_none_of_limited. exact E.
Qed.

(** Before every datagram the gate lets through, the unvalidated server is strictly below
    three times what it received. *)
Lemma permitted_send_strict s :
  validated s = false -> sendMode s <> amp_SendNone -> bytesSent s < 3 * bytesReceived s.
Proof.
  intros Hv Hm. apply not_limited_of_sendMode in Hm.
  unfold limited in Hm. rewrite Hv in Hm. apply Z.leb_gt in Hm.
  rewrite factor_is_3 in Hm. exact Hm.
Qed.

(** At or above the limit nothing is sent: the state is unchanged by a send attempt. *)
Lemma limited_blocks s t pkts :
  validated s = false -> 3 * bytesReceived s <= bytesSent s ->
  sendMode s = amp_SendNone /\ trySend s t pkts = s.
Proof.
  intros Hv Hle.
  assert (L : limited s = true) by (apply limited_spec; rewrite factor_is_3; auto).
  split; [apply sendMode_none_of_limited; exact L|].
  unfold trySend. rewrite (sendMode_none_of_limited s L), Z.eqb_refl. reflexivity.
Qed.

(** ** The bound as an invariant of every history *)

Definition amp_inv (sl : st * Z) : Prop :=
  validated (fst sl) = false -> bytesSent (fst sl) <= 3 * bytesReceived (fst sl) + snd sl.

Lemma step_g_inv sl o : wf_op o -> amp_inv sl -> amp_inv (step_g sl o).
Proof.
  destruct sl as [s last]. unfold amp_inv, step_g. cbn [fst snd]. intros Hwf Hinv.
  destruct o as [n t | l t | t pkts | now | m]; cbn [step].
  - (* Recv *)
    destruct (receivedBytes_fields s n) as (H1 & H2 & H3). rewrite H1, H2, H3.
    cbn in Hwf. intros Hv. specialize (Hinv Hv). lia.
  - (* RecvPkt *)
    destruct (receivedPacket_fields s l) as (H1 & H2 & H3). rewrite H1, H2, H3.
    intros Hv. apply orb_false_iff in Hv as [Hv _]. auto.
  - (* TrySend *)
    unfold trySend. destruct (sendMode s =? amp_SendNone) eqn:Em.
    + exact Hinv.
    + apply Z.eqb_neq in Em.
      pose proof (fold_sentPacket_fields t pkts s) as H. cbn zeta in H.
      destruct H as (H1 & H2 & H3). rewrite H1, H2, H3. intros Hv.
      pose proof (permitted_send_strict s Hv Em). lia.
  - (* Timeout *)
    destruct (timeoutDue s now); [|exact Hinv].
    destruct (onTimeout_fields s) as (H1 & H2 & H3). rewrite H1, H2, H3. exact Hinv.
  - (* Other *)
    cbn. exact Hinv.
Qed.

Lemma run_g_inv ops : forall sl, Forall wf_op ops -> amp_inv sl -> amp_inv (run_g sl ops).
Proof.
  induction ops as [|o r IH]; intros sl Hwf Hinv; cbn [run_g fold_left].
  - exact Hinv.
  - inversion Hwf as [|? ? Ho Hr]; subst. apply IH; [exact Hr|]. apply step_g_inv; assumption.
Qed.

Lemma amp_inv_init v pto : amp_inv (init v pto, 0).
Proof. unfold amp_inv, init; cbn. intros _. lia. Qed.

(** The instrumented run computes the same states as the plain one. *)
Lemma run_g_fst ops : forall s last, fst (run_g (s, last) ops) = run s ops.
Proof.
  induction ops as [|o r IH]; intros s last; cbn [run_g run fold_left]; [reflexivity|].
  unfold step_g at 2. cbn [fst snd]. apply IH.
Qed.

Theorem amplification_bound : forall v pto ops s last,
  Forall wf_op ops ->
  run_g (init v pto, 0) ops = (s, last) ->
  validated s = false ->
  bytesSent s <= 3 * bytesReceived s + last.
Proof.
  intros v pto ops s last Hwf Hrun Hv.
  pose proof (run_g_inv ops (init v pto, 0) Hwf (amp_inv_init v pto)) as H.
  rewrite Hrun in H. apply H. exact Hv.
Qed.

Lemma Forall_firstn {A} (P : A -> Prop) k : forall l, Forall P l -> Forall P (firstn k l).
Proof.
  induction k as [|k IH]; intros l H; cbn; [constructor|].
  destruct l; [constructor|]. inversion H; subst. constructor; auto.
Qed.

(** ... at every prefix of every history. *)
Theorem amplification_bound_prefix : forall v pto ops k s last,
  Forall wf_op ops ->
  run_g (init v pto, 0) (firstn k ops) = (s, last) ->
  validated s = false ->
  bytesSent s <= 3 * bytesReceived s + last.
Proof.
  intros v pto ops k s last Hwf. apply amplification_bound. apply Forall_firstn. exact Hwf.
Qed.

(** With a cap on datagram sizes the bound is a number. *)
Definition dgrams_le (D : Z) (o : op) : Prop :=
  match o with TrySend _ pkts => dgram_size pkts <= D | _ => True end.

Lemma last_le D ops : forall s last, 0 <= D -> last <= D -> Forall (dgrams_le D) ops ->
  snd (run_g (s, last) ops) <= D.
Proof.
  induction ops as [|o r IH]; intros s last HD Hl Hf; cbn [run_g fold_left]; [exact Hl|].
  inversion Hf as [|? ? Ho Hr]; subst.
  unfold step_g at 2. apply IH; [exact HD| |exact Hr].
  destruct o; try exact Hl. cbn in Ho. destruct (sendMode s =? amp_SendNone); [exact Hl|exact Ho].
Qed.

Theorem amplification_bound_mtu : forall v pto ops D,
  0 <= D -> Forall wf_op ops -> Forall (dgrams_le D) ops ->
  validated (run (init v pto) ops) = false ->
  bytesSent (run (init v pto) ops) <= 3 * bytesReceived (run (init v pto) ops) + D.
Proof.
  intros v pto ops D HD Hwf Hd Hv.
  destruct (run_g (init v pto, 0) ops) as [s last] eqn:E.
  pose proof (run_g_fst ops (init v pto) 0) as Hf. rewrite E in Hf. cbn in Hf. subst s.
  pose proof (amplification_bound v pto ops _ last Hwf E Hv) as Hb.
  pose proof (last_le D ops (init v pto) 0 HD HD Hd) as Hl. rewrite E in Hl. cbn in Hl. lia.
Qed.

(** ** Validation events *)

Lemma step_validated s o :
  validated (step s o) = true ->
  validated s = true \/ exists t, o = RecvPkt amp_EncHandshake t.
Proof.
  destruct o as [n t | l t | t pkts | now | m]; cbn [step].
  - destruct (receivedBytes_fields s n) as (_ & _ & H3). rewrite H3. auto.
  - destruct (receivedPacket_fields s l) as (_ & _ & H3). rewrite H3.
    intros H. apply orb_true_iff in H as [H|H]; [auto|]. apply Z.eqb_eq in H. subst. right. eauto.
  - unfold trySend. destruct (sendMode s =? amp_SendNone); [auto|].
    pose proof (fold_sentPacket_fields t pkts s) as H. cbn zeta in H. destruct H as (_ & _ & H3).
    rewrite H3. auto.
  - destruct (timeoutDue s now); [|auto].
    destruct (onTimeout_fields s) as (_ & _ & H3). rewrite H3. auto.
  - cbn. auto.
Qed.

Theorem validation_events : forall ops s,
  validated (run s ops) = true ->
  validated s = true \/ exists t, In (RecvPkt amp_EncHandshake t) ops.
Proof.
  induction ops as [|o r IH]; intros s H; cbn [run fold_left] in H.
  - auto.
  - apply IH in H as [H | [t H]].
    + apply step_validated in H as [H | [t H]]; [auto|]. right. exists t. left. auto.
    + right. exists t. right. exact H.
Qed.

Lemma step_validated_mono s o : validated s = true -> validated (step s o) = true.
Proof.
  intros Hv. destruct o as [n t | l t | t pkts | now | m]; cbn [step].
  - destruct (receivedBytes_fields s n) as (_ & _ & H3). rewrite H3. exact Hv.
  - destruct (receivedPacket_fields s l) as (_ & _ & H3). rewrite H3, Hv. reflexivity.
  - unfold trySend. destruct (sendMode s =? amp_SendNone); [exact Hv|].
    pose proof (fold_sentPacket_fields t pkts s) as H. cbn zeta in H. destruct H as (_ & _ & H3).
    rewrite H3. exact Hv.
  - destruct (timeoutDue s now); [|exact Hv].
    destruct (onTimeout_fields s) as (_ & _ & H3). rewrite H3. exact Hv.
  - cbn. exact Hv.
Qed.

Theorem validated_stays : forall ops s, validated s = true -> validated (run s ops) = true.
Proof.
  induction ops as [|o r IH]; intros s H; cbn [run fold_left]; [exact H|].
  apply IH. apply step_validated_mono. exact H.
Qed.

(** A validated server is never blocked by the limit (the limit ends with validation). *)
Lemma validated_not_limited s : validated s = true -> limited s = false.
Proof. unfold limited. intros ->. reflexivity. Qed.

(** ** The loss-detection timer *)

(** Whenever the timer is recomputed while the server is amplification limited it is cancelled. *)
Lemma timer_cancelled_when_limited s : limited s = true -> alarm (tm (setTimer s)) = 0.
Proof.
  intros L. unfold setTimer, set_tm, set_alarm, lossDetectionTime. cbn.
  rewrite L. destruct (negb (hasOutstandingCrypto (tm s)) && negb (outA (tm s))); reflexivity.
Qed.

Lemma limited_setTimer s : limited (setTimer s) = limited s.
Proof. reflexivity. Qed.

(** Deadlock avoidance (RFC 9002 6.2.2.1 from the server's side): in histories made of
    datagram arrivals, gated sends and timer expiries, whenever the server is not limited
    and has Initial/Handshake packets outstanding, the loss-detection timer is armed. *)
Definition tm_ok (m : tstate) : Prop :=
  (outI m = true -> 0 < lastAEI m) /\ (outH m = true -> 0 < lastAEH m).

Lemma scaledPTO_pos m : 0 < scaledPTO m.
Proof.
  unfold scaledPTO.
  destruct ((amp_maxPTODuration <? wrap64 (pto0 m * 2 ^ ptoCount m)) || (wrap64 (pto0 m * 2 ^ ptoCount m) <=? 0)) eqn:E.
  - reflexivity.
  - apply orb_false_iff in E as [_ E]. apply Z.leb_gt in E. exact E.
Qed.

Lemma ptoTime_pos m : tm_ok m -> hasOutstandingCrypto m = true -> 0 < fst (ptoTimeAndSpace m).
Proof.
  intros [HI HH] Hc. unfold ptoTimeAndSpace. rewrite Hc. cbn [negb].
  pose proof (scaledPTO_pos m) as Hp.
  unfold hasOutstandingCrypto in Hc.
  destruct (outI m) eqn:EI; cbn [andb].
  - specialize (HI eq_refl).
    assert (E0 : (lastAEI m =? 0) = false) by (apply Z.eqb_neq; lia). rewrite E0. cbn [negb].
    destruct (outH m) eqn:EH; cbn [andb].
    + specialize (HH eq_refl).
      assert (E1 : (lastAEH m =? 0) = false) by (apply Z.eqb_neq; lia). rewrite E1. cbn [negb].
      destruct ((lastAEI m + scaledPTO m =? 0) || _); cbn [fst]; lia.
    + cbn [fst]. lia.
  - cbn [orb] in Hc. rewrite Hc in *. specialize (HH eq_refl). cbn [andb].
    assert (E1 : (lastAEH m =? 0) = false) by (apply Z.eqb_neq; lia). rewrite E1. cbn [negb].
    rewrite Z.eqb_refl. cbn [orb fst]. lia.
Qed.

Definition timer_inv (s : st) : Prop :=
  tm_ok (tm s) /\
  (limited s = false -> hasOutstandingCrypto (tm s) = true -> alarm (tm s) <> 0).

Lemma setTimer_inv s : tm_ok (tm s) -> timer_inv (setTimer s).
Proof.
  intros Hok. split; [exact Hok|].
  rewrite limited_setTimer. intros L C.
  change (hasOutstandingCrypto (tm (setTimer s))) with (hasOutstandingCrypto (tm s)) in C.
  change (alarm (tm (setTimer s))) with (lossDetectionTime s).
  unfold lossDetectionTime. rewrite L, C. cbn [negb andb].
  pose proof (ptoTime_pos (tm s) Hok C). lia.
Qed.

Definition timed_op (o : op) : Prop :=
  match o with
  | Recv n _ => 0 <= n
  | TrySend t pkts => 0 < t /\ Forall (fun p => 0 <= snd (fst p)) pkts
  | Other _ => False
  | _ => True
  end.

Lemma limited_mono_sent s s' :
  validated s' = validated s -> bytesReceived s' = bytesReceived s -> bytesSent s <= bytesSent s' ->
  limited s' = false -> limited s = false.
Proof.
  unfold limited. intros -> -> Hle. destruct (validated s); [auto|].
  rewrite !Z.leb_gt. lia.
Qed.

Lemma sentPacket_timer_inv s t p : 0 < t -> 0 <= snd (fst p) -> timer_inv s -> timer_inv (sentPacket s t p).
Proof.
  destruct p as [[lvl size] ae]. cbn [fst snd]. intros Ht Hsz [Hok Hal].
  unfold sentPacket. destruct ae.
  - apply setTimer_inv. cbn [tm set_tm]. destruct Hok as [HI HH]. split; cbn [outI lastAEI outH lastAEH].
    + destruct (lvl =? amp_EncInitial); [intros _; exact Ht | exact HI].
    + destruct (lvl =? amp_EncHandshake); [intros _; exact Ht | exact HH].
  - split; [exact Hok|]. cbn [tm]. intros L C. apply Hal; [|exact C].
    eapply limited_mono_sent; [| | |exact L]; cbn; try reflexivity. lia.
Qed.

Lemma fold_sentPacket_timer_inv t pkts : forall s, 0 < t -> Forall (fun p => 0 <= snd (fst p)) pkts ->
  timer_inv s -> timer_inv (fold_left (fun s p => sentPacket s t p) pkts s).
Proof.
  induction pkts as [|p r IH]; intros s Ht Hf Hi; cbn [fold_left]; [exact Hi|].
  inversion Hf; subst. apply IH; auto. apply sentPacket_timer_inv; auto.
Qed.

Lemma onTimeout_tm_ok s : tm_ok (tm s) -> tm_ok (tm (set_tm s
   (let m := tm s in let '(ptoT, lvl) := ptoTimeAndSpace m in
    if ptoT =? 0 then m
    else TS (outI m) (outH m) (outA m) (lastAEI m) (lastAEH m) (ptoCount m + 1) (numProbes m + 2)
            (if lvl =? amp_EncInitial then amp_SendPTOInitial else amp_SendPTOHandshake) (pto0 m) (alarm m)))).
Proof.
  intros Hok. cbn [tm set_tm]. cbv zeta. destruct (ptoTimeAndSpace (tm s)) as [p l].
  destruct (p =? 0); exact Hok.
Qed.

Lemma step_timer_inv s o : timed_op o -> timer_inv s -> timer_inv (step s o).
Proof.
  intros Ho [Hok Hal]. destruct o as [n t | l t | t pkts | now | m]; cbn [step]; cbn in Ho.
  - (* Recv *)
    unfold receivedBytes.
    set (s' := St (bytesSent s) (bytesReceived s + n) (validated s) (tm s)).
    destruct (limited s) eqn:L; cbn [andb].
    + destruct (limited s') eqn:L'; cbn [negb].
      * split; [exact Hok|]. intros X. congruence.
      * apply setTimer_inv. exact Hok.
    + split; [exact Hok|]. cbn [tm]. intros _ C. apply Hal; [reflexivity|exact C].
  - (* RecvPkt *)
    unfold receivedPacket. destruct ((l =? amp_EncHandshake) && negb (validated s)).
    + apply setTimer_inv. exact Hok.
    + split; assumption.
  - (* TrySend *)
    destruct Ho as [Ht Hf]. unfold trySend. destruct (sendMode s =? amp_SendNone).
    + split; assumption.
    + apply fold_sentPacket_timer_inv; auto. split; assumption.
  - (* Timeout *)
    destruct (timeoutDue s now); [|split; assumption].
    unfold onTimeout. destruct (ptoTimeAndSpace (tm s)) as [p l] eqn:E.
    apply setTimer_inv. cbn [tm set_tm]. destruct (p =? 0); exact Hok.
  - contradiction.
Qed.

Lemma timer_inv_init v pto : timer_inv (init v pto).
Proof.
  split.
  - split; cbn; discriminate.
  - cbn. discriminate.
Qed.

Theorem timer_armed_when_unblocked : forall v pto ops,
  Forall timed_op ops ->
  let s := run (init v pto) ops in
  limited s = false -> hasOutstandingCrypto (tm s) = true -> alarm (tm s) <> 0.
Proof.
  intros v pto ops Hf.
  assert (H : forall s0, timer_inv s0 -> timer_inv (run s0 ops)).
  { clear v pto. induction ops as [|o r IH]; intros s0 Hi; cbn [run fold_left]; [exact Hi|].
    inversion Hf; subst. apply IH; auto. apply step_timer_inv; auto. }
  cbn zeta. apply (H (init v pto) (timer_inv_init v pto)).
Qed.

(** ** Histories that end with a close (connection.go handleCloseError, closedLocalConn) *)

Lemma step_bytesReceived_nonneg s o : wf_op o -> 0 <= bytesReceived s -> 0 <= bytesReceived (step s o).
Proof.
  intros Hwf H. destruct o as [n t | l t | t pkts | now | m]; cbn [step].
  - destruct (receivedBytes_fields s n) as (_ & H2 & _). rewrite H2. cbn in Hwf. lia.
  - destruct (receivedPacket_fields s l) as (_ & H2 & _). rewrite H2. exact H.
  - unfold trySend. destruct (sendMode s =? amp_SendNone); [exact H|].
    pose proof (fold_sentPacket_fields t pkts s) as G. cbn zeta in G. destruct G as (_ & G2 & _).
    rewrite G2. exact H.
  - destruct (timeoutDue s now); [|exact H].
    destruct (onTimeout_fields s) as (_ & H2 & _). rewrite H2. exact H.
  - cbn. exact H.
Qed.

(** the invariant of a connection that may have been closed *)
Definition close_inv (cl : cstate * Z) : Prop :=
  let '(c, last) := cl in
  0 <= bytesReceived (sph c) /\
  cSent c <= 3 * cRcvd c /\
  (closedPkt c = None -> closeSent c = 0 /\ cSent c = 0 /\ cRcvd c = 0) /\
  (validated (sph c) = false -> bytesSent (sph c) + closeSent c <= 3 * bytesReceived (sph c) + last).

Lemma close_inv_init v pto : close_inv (cinit v pto, 0).
Proof. unfold close_inv, cinit, init; cbn. repeat split; try lia; auto. Qed.

Lemma close_inv_closed s p cs cr csn cc last :
  0 <= bytesReceived s -> csn <= 3 * cr ->
  (validated s = false -> bytesSent s + cs <= 3 * bytesReceived s + last) ->
  close_inv (CS s (Some p) cs cr csn cc, last).
Proof.
  intros H1 H2 H3. unfold close_inv. cbn [sph closedPkt closeSent cRcvd cSent cCount].
  split; [exact H1|]. split; [exact H2|]. split; [intros X; discriminate X|exact H3].
Qed.

Lemma cstep_g_inv cl o : wf_cop o -> close_inv cl -> close_inv (cstep_g cl o).
Proof.
  destruct cl as [c last]. destruct c as [s cp cs cr csn cc].
  intros Hwf Hinv. pose proof Hinv as (Hr & Hc & Hopen & Hb).
  cbn [sph closedPkt closeSent cRcvd cSent cCount] in Hr, Hc, Hopen, Hb.
  unfold cstep_g, cstep. cbn [sph closedPkt closeSent cRcvd cSent cCount].
  destruct o as [o | hc size | n].
  - (* an op on the handler *)
    destruct cp as [p|]; [exact Hinv|].
    destruct (Hopen eq_refl) as (E1 & E2 & E3). subst cs csn cr.
    pose proof (step_g_inv (s, last) o Hwf) as G. unfold amp_inv in G. cbn [fst snd] in G.
    assert (G0 : validated s = false -> bytesSent s <= 3 * bytesReceived s + last).
    { intros Hv. specialize (Hb Hv). lia. }
    specialize (G G0). unfold step_g in G. cbn [fst snd] in G.
    unfold close_inv. cbn [sph closedPkt closeSent cRcvd cSent cCount].
    split; [apply step_bytesReceived_nonneg; assumption|].
    split; [lia|]. split; [intros _; auto|].
    unfold step_g. cbn [snd]. intros Hv. specialize (G Hv). lia.
  - (* Close *)
    destruct Hwf as [-> Hsz].
    destruct cp as [p|]; [exact Hinv|].
    destruct (Hopen eq_refl) as (E1 & E2 & E3). subst cs csn cr.
    destruct (close_suppressed s false) eqn:Es.
    + apply close_inv_closed; [exact Hr|lia|exact Hb].
    + apply close_inv_closed; [exact Hr|lia|]. intros Hv.
      unfold close_suppressed in Es. cbn [negb andb] in Es.
      destruct (Z.ltb_spec 0 (bytesSent s)) as [Hpos|Hnp]; cbn [andb] in Es.
      * apply Z.eqb_neq in Es. pose proof (permitted_send_strict s Hv Es). lia.
      * lia.
  - (* a datagram for the closed connection *)
    cbn in Hwf. destruct cp as [p|]; [|exact Hinv].
    destruct (0 <? p) eqn:Ep; [|exact Hinv].
    destruct (is_pow2 (cc + 1) && (csn + p <=? 3 * (cr + n))) eqn:Eg.
    + apply andb_prop in Eg as [_ Eg]. apply Z.leb_le in Eg.
      apply close_inv_closed; [exact Hr|lia|exact Hb].
    + apply close_inv_closed; [exact Hr|lia|exact Hb].
Qed.

Lemma crun_g_inv ops : forall cl, Forall wf_cop ops -> close_inv cl -> close_inv (crun_g cl ops).
Proof.
  induction ops as [|o r IH]; intros cl Hwf Hinv; cbn [crun_g fold_left]; [exact Hinv|].
  inversion Hwf as [|? ? Ho Hr]; subst. apply IH; [exact Hr|]. apply cstep_g_inv; assumption.
Qed.

(** The bound over everything put on the wire, for histories that may end with a close and
    with datagrams arriving for the closed connection. *)
Theorem amplification_bound_close : forall v pto ops k c last,
  Forall wf_cop ops ->
  crun_g (cinit v pto, 0) (firstn k ops) = (c, last) ->
  validated (sph c) = false ->
  wireSent c <= 3 * wireRcvd c + last.
Proof.
  intros v pto ops k c last Hwf Hrun Hv.
  pose proof (crun_g_inv (firstn k ops) (cinit v pto, 0) (Forall_firstn _ k ops Hwf) (close_inv_init v pto)) as H.
  rewrite Hrun in H. destruct H as (_ & Hc & _ & Hb). specialize (Hb Hv).
  unfold wireSent, wireRcvd. lia.
Qed.

(** An unvalidated server that has used up its limit closes silently and for good:
    nothing is written, and whatever arrives later is ignored. *)
Lemma closed_silent_fix ops : forall c, closedPkt c = Some 0 -> crun c ops = c.
Proof.
  induction ops as [|o r IH]; intros c Hc; cbn [crun fold_left]; [reflexivity|].
  assert (Es : cstep c o = c).
  { unfold cstep. rewrite Hc. destruct o; reflexivity. }
  rewrite Es. apply IH. exact Hc.
Qed.

Theorem close_gated : forall c size ops,
  closedPkt c = None -> validated (sph c) = false ->
  0 < bytesSent (sph c) -> 3 * bytesReceived (sph c) <= bytesSent (sph c) ->
  crun c (Close false size :: ops) = CS (sph c) (Some 0) 0 0 0 0.
Proof.
  intros c size ops Ho Hv Hpos Hlim.
  destruct (limited_blocks (sph c) 0 [] Hv Hlim) as [Hm _].
  assert (Hs : close_suppressed (sph c) false = true).
  { unfold close_suppressed. rewrite Hm, Z.eqb_refl. apply Z.ltb_lt in Hpos. rewrite Hpos. reflexivity. }
  cbn [crun fold_left]. unfold cstep at 2. rewrite Ho, Hs.
  apply closed_silent_fix. reflexivity.
Qed.

(** Regression example: the history of the finding ampconn/close-ungated (two 1200-byte client
    Initials, six 1280-byte server datagrams = 7680 >= 7200, then the application closes with a
    106-byte CONNECTION_CLOSE, then the client's 37-byte Handshake datagrams arrive): the
    repaired server stays at 7680 bytes; had it been under the limit, the close is written
    once and retransmitted only within 3x of what arrives afterwards. *)
Definition close_example_ops : list cop :=
  [ SphOp (Recv 1200 10); SphOp (Recv 1200 10);
    SphOp (TrySend 11 [(amp_EncInitial, 1280, true)]); SphOp (TrySend 11 [(amp_EncHandshake, 1280, true)]);
    SphOp (TrySend 11 [(amp_EncHandshake, 1280, true)]); SphOp (TrySend 11 [(amp_EncHandshake, 1280, true)]);
    SphOp (TrySend 11 [(amp_EncHandshake, 1280, true)]); SphOp (TrySend 11 [(amp_EncHandshake, 1280, true)]);
    SphOp (TrySend 11 [(amp_EncHandshake, 1280, true)]);   (* blocked *)
    Close false 106; ClosedRecv 37; ClosedRecv 37; ClosedRecv 37; ClosedRecv 37 ].

Lemma close_example_run :
  Forall wf_cop close_example_ops /\
  (let c := crun (cinit false 200000000) close_example_ops in
   wireSent c = 7680 /\ wireRcvd c = 2400 /\ closedPkt c = Some 0) /\
  (* under the limit (five datagrams only): close written, then 106 <= 3*37, 212 <= 3*74, (3rd packet: no), 318 <= 3*148 *)
  (let c := crun (cinit false 200000000)
              (firstn 7 close_example_ops ++ [Close false 106; ClosedRecv 37; ClosedRecv 37; ClosedRecv 37; ClosedRecv 37]) in
   wireSent c = 6400 + 106 + 3 * 106 /\ wireRcvd c = 2400 + 148 /\ closedPkt c = Some 106) /\
  (* tiny datagrams do not buy a retransmission: 106 > 3*21 *)
  (let c := crun (cinit false 200000000) (firstn 7 close_example_ops ++ [Close false 106; ClosedRecv 21]) in
   wireSent c = 6400 + 106).
Proof.
  split; [|split; [|split]].
  - repeat constructor; cbn; lia.
  - vm_compute. repeat split; reflexivity.
  - vm_compute. repeat split; reflexivity.
  - vm_compute. reflexivity.
Qed.

(** Why [wf_cop] asks for [Close false]: the close decision trusts Conn.handshakeComplete.  If that flag were
    set while the handler still considers the address unvalidated, the CONNECTION_CLOSE is written whatever the
    counters say.  (The code sets handshakeComplete while processing the client's Finished, a few statements
    before sentPacketHandler.ReceivedPacket(Handshake) for the same packet; an error in between closes in that
    window.  The address is validated in RFC terms then — a Handshake packet was decrypted.) *)
Example close_with_handshake_flag_unbounded :
  let '(c, last) := crun_g (cinit false 200000000, 0)
        [ SphOp (Recv 1200 1); SphOp (TrySend 2 [(amp_EncInitial, 1200, true)]); SphOp (TrySend 2 [(amp_EncHandshake, 1200, true)]);
          SphOp (TrySend 2 [(amp_EncHandshake, 3000, true)]); Close true 100 ] in
  validated (sph c) = false /\ wireSent c = 5500 /\ 3 * wireRcvd c + last = 3700.
Proof. vm_compute. repeat split; reflexivity. Qed.

(** Non-vacuity: a history that reaches the limit, is blocked, is unblocked by a small
    client datagram, sends again, and is validated by a Handshake packet. *)
Definition example_ops : list op :=
  [ Recv 1200 10; RecvPkt amp_EncInitial 10;
    TrySend 11 [(amp_EncInitial, 1200, true); (amp_EncHandshake, 52, true)];
    TrySend 12 [(amp_EncHandshake, 1252, true)];
    TrySend 13 [(amp_EncHandshake, 1252, true)];      (* 3756 >= 3600: reaches the limit *)
    TrySend 14 [(amp_EncHandshake, 1252, true)];      (* blocked *)
    Recv 40 20;
    TrySend 21 [(amp_EncHandshake, 1252, true)];      (* blocked: 3756 >= 3720 *)
    Recv 40 22;
    TrySend 23 [(amp_EncHandshake, 1252, true)];      (* 3756 < 3840: permitted, overshoots *)
    Recv 60 30; RecvPkt amp_EncHandshake 30 ].

Lemma example_run :
  Forall wf_op example_ops /\ Forall timed_op example_ops /\
  (let '(s, last) := run_g (init false 200000000, 0) (firstn 10 example_ops) in
   validated s = false /\ bytesSent s = 5008 /\ bytesReceived s = 1280 /\ last = 1252 /\
   limited s = true /\ alarm (tm s) = 0) /\
  (let s := run (init false 200000000) (firstn 9 example_ops) in
   limited s = false /\ hasOutstandingCrypto (tm s) = true /\ alarm (tm s) = 200000011) /\
  validated (run (init false 200000000) example_ops) = true.
Proof.
  split; [|split; [|split; [|split]]].
  - repeat constructor; cbn; lia.
  - repeat constructor; cbn; lia.
  - vm_compute. repeat split; reflexivity.
  - vm_compute. repeat split; reflexivity.
  - vm_compute. reflexivity.
Qed.
