(** C14 — every wire trace of the connection-level model satisfies the wire predicate. *)
From Coq Require Import List ZArith Bool Lia.
From V Require Import Gen.Params AmpToken.AmpModel AmpToken.AmpProofs AmpToken.WireModel.
Import ListNotations.
Open Scope Z_scope.

Lemma wire_ok_app tr1 : forall w tr2, wire_ok w (tr1 ++ tr2) = wire_ok w tr1 && wire_ok (wrun w tr1) tr2.
Proof.
  induction tr1 as [|e r IH]; intros w tr2; cbn [app wire_ok wrun fold_left]; [reflexivity|].
  rewrite IH. fold (wrun (wstep w e) r). rewrite andb_assoc. reflexivity.
Qed.

(** the wire state agrees with the model state; plus what is needed to justify each send *)
Definition winv (c : cstate) (w : wst) : Prop :=
  wsent w = wireSent c /\ wireRcvd c <= wrcvd w /\ wval w = validated (sph c) /\
  0 <= bytesReceived (sph c) /\ cSent c <= 3 * cRcvd c /\
  (closedPkt c = None -> closeSent c = 0 /\ cSent c = 0 /\ cRcvd c = 0) /\
  (forall p, closedPkt c = Some p -> 0 < p ->
     closeSent c = p /\ (validated (sph c) = false -> bytesSent (sph c) <= 3 * bytesReceived (sph c))).

Lemma step_validated_eq s o :
  validated (step s o) = validated s || match o with RecvPkt l _ => (l =? amp_EncHandshake) | _ => false end.
Proof.
  destruct o as [n t | l t | t pkts | now | m]; cbn [step].
  - destruct (receivedBytes_fields s n) as (_ & _ & H). rewrite H, orb_false_r. reflexivity.
  - destruct (receivedPacket_fields s l) as (_ & _ & H). exact H.
  - unfold trySend. destruct (sendMode s =? amp_SendNone); [rewrite orb_false_r; reflexivity|].
    pose proof (fold_sentPacket_fields t pkts s) as H. cbn zeta in H. destruct H as (_ & _ & H).
    rewrite H, orb_false_r. reflexivity.
  - destruct (timeoutDue s now); [|rewrite orb_false_r; reflexivity].
    destruct (onTimeout_fields s) as (_ & _ & H). rewrite H, orb_false_r. reflexivity.
  - cbn. rewrite orb_false_r. reflexivity.
Qed.

Lemma cstep_wire c w o :
  wf_cop o -> winv c w ->
  wire_ok w (cevents c o) = true /\ winv (cstep c o) (wrun w (cevents c o)).
Proof.
  destruct c as [s cp cs cr csn cc]. destruct w as [ws wr wv].
  unfold winv, wireSent, wireRcvd. cbn [sph closedPkt closeSent cRcvd cSent cCount wsent wrcvd wval].
  intros Hwf Hinv. pose proof Hinv as (Hs & Hr & Hv & Hnn & Hc & Hopen & Hclosed).
  destruct o as [o | hc size | n]; unfold cevents, cstep; cbn [sph closedPkt closeSent cRcvd cSent cCount].
  - (* handler op *)
    destruct cp as [p|].
    { destruct o; cbn [wire_ok wrun fold_left]; (split; [reflexivity|]);
      cbn [sph closedPkt closeSent cRcvd cSent cCount wsent wrcvd wval]; exact Hinv. }
    destruct (Hopen eq_refl) as (E1 & E2 & E3). subst cs csn cr.
    cbn in Hwf.
    assert (Hnn' : 0 <= bytesReceived (step s o)) by (apply step_bytesReceived_nonneg; assumption).
    destruct o as [n t | l t | t pkts | now | m]; cbn [wire_ok wrun fold_left wstep andb];
      cbn [sph closedPkt closeSent cRcvd cSent cCount wsent wrcvd wval].
    + (* Recv *)
      split; [reflexivity|]. cbn [step] in *.
      destruct (receivedBytes_fields s n) as (F1 & F2 & F3). rewrite F1, F2, F3.
      rewrite orb_false_r. repeat split; auto; try lia; try discriminate.
      all: try (rewrite F2 in Hnn'; exact Hnn').
    + (* RecvPkt *)
      split; [reflexivity|]. cbn [step] in *.
      destruct (receivedPacket_fields s l) as (F1 & F2 & F3). rewrite F1, F2, F3.
      repeat split; auto; try lia; try discriminate.
      rewrite Hv. destruct (validated s); cbn [orb negb andb]; [reflexivity|]. rewrite andb_true_r. reflexivity.
    + (* TrySend *)
      cbn [step]. unfold trySend. destruct (sendMode s =? amp_SendNone) eqn:Em.
      * cbn [wire_ok wrun fold_left]. split; [reflexivity|]. repeat split; auto; try lia; try discriminate.
      * apply Z.eqb_neq in Em.
        pose proof (fold_sentPacket_fields t pkts s) as F. cbn zeta in F. destruct F as (F1 & F2 & F3).
        cbn [wire_ok wrun fold_left wstep andb wsent wrcvd wval]. rewrite F1, F2, F3.
        split.
        { unfold wsend_ok. cbn [wsent wrcvd wval]. rewrite Hv. destruct (validated s) eqn:Ev; [reflexivity|].
          cbn [orb]. rewrite andb_true_r. apply Z.ltb_lt.
          pose proof (permitted_send_strict s Ev Em). lia. }
        repeat split; auto; try lia; try discriminate.
    + (* Timeout *)
      split; [reflexivity|]. cbn [step]. destruct (timeoutDue s now); [|repeat split; auto; lia || discriminate].
      destruct (onTimeout_fields s) as (F1 & F2 & F3). rewrite F1, F2, F3.
      repeat split; auto; try lia; try discriminate.
    + (* Other *)
      split; [reflexivity|]. cbn. repeat split; auto; try lia; try discriminate.
  - (* Close *)
    destruct Hwf as [-> Hsz].
    destruct cp as [p|].
    { cbn [wire_ok wrun fold_left]. split; [reflexivity|].
      cbn [sph closedPkt closeSent cRcvd cSent cCount wsent wrcvd wval]. exact Hinv. }
    destruct (Hopen eq_refl) as (E1 & E2 & E3). subst cs csn cr.
    destruct (close_suppressed s false) eqn:Es; cbn [wire_ok wrun fold_left wstep andb];
      cbn [sph closedPkt closeSent cRcvd cSent cCount wsent wrcvd wval].
    + split; [reflexivity|]. repeat split; auto; try lia; try discriminate.
      all: try (match goal with H : Some _ = Some _ |- _ => inversion H; subst; try lia; auto end).
    + assert (Hlim : validated s = false -> bytesSent s <= 3 * bytesReceived s).
      { intros Ev. unfold close_suppressed in Es. cbn [negb andb] in Es.
        destruct (Z.ltb_spec 0 (bytesSent s)) as [Hpos|Hnp]; cbn [andb] in Es; [|lia].
        apply Z.eqb_neq in Es. pose proof (permitted_send_strict s Ev Es). lia. }
      split.
      { unfold wsendu_ok. cbn [wsent wrcvd wval]. rewrite Hv. destruct (validated s) eqn:Ev; [reflexivity|].
        cbn [orb]. rewrite andb_true_r. apply Z.leb_le. specialize (Hlim eq_refl). lia. }
      repeat split; auto; try lia; try discriminate.
      all: try (match goal with H : Some _ = Some _ |- _ => inversion H; subst; try lia; auto end).
  - (* ClosedRecv *)
    cbn in Hwf. destruct cp as [p|].
    2:{ cbn [wire_ok wrun fold_left]. split; [reflexivity|].
        cbn [sph closedPkt closeSent cRcvd cSent cCount wsent wrcvd wval]. exact Hinv. }
    destruct (Z.ltb_spec 0 p) as [Hpos|Hnp]; cbn [andb].
    + destruct (Hclosed p eq_refl Hpos) as (Ecs & Hlim).
      destruct (is_pow2 (cc + 1) && (csn + p <=? 3 * (cr + n))) eqn:Eg;
        cbn [wire_ok wrun fold_left wstep andb app];
        cbn [sph closedPkt closeSent cRcvd cSent cCount wsent wrcvd wval].
      * apply andb_prop in Eg as [_ Eg]. apply Z.leb_le in Eg.
        split.
        { unfold wsendu_ok. cbn [wsent wrcvd wval]. rewrite orb_false_r, Hv.
          destruct (validated s) eqn:Ev; [reflexivity|]. cbn [orb]. rewrite andb_true_r. apply Z.leb_le.
          specialize (Hlim eq_refl). lia. }
        rewrite orb_false_r. repeat split; auto; try lia; try discriminate.
        all: try (match goal with H : Some _ = Some _ |- _ => inversion H; subst; try lia; auto end).
      * split; [reflexivity|]. rewrite orb_false_r. repeat split; auto; try lia; try discriminate.
        all: try (match goal with H : Some _ = Some _ |- _ => inversion H; subst; try lia; auto end).
    + cbn [wire_ok wrun fold_left wstep andb app]; cbn [wsent wrcvd wval sph closedPkt closeSent cRcvd cSent cCount].
      split; [reflexivity|]. rewrite orb_false_r. repeat split; auto; try lia; try discriminate.
      all: try (match goal with H : Some _ = Some _ |- _ => inversion H; subst; try lia; auto end).
Qed.

Lemma ctrace_wire ops : forall c w, Forall wf_cop ops -> winv c w -> wire_ok w (ctrace_ev c ops) = true.
Proof.
  induction ops as [|o r IH]; intros c w Hwf Hi; cbn [ctrace_ev]; [reflexivity|].
  inversion Hwf as [|? ? Ho Hr]; subst.
  destruct (cstep_wire c w o Ho Hi) as [H1 H2].
  rewrite wire_ok_app, H1. cbn [andb]. apply IH; assumption.
Qed.

(** Every wire trace of every history of the connection-level model satisfies the wire predicate. *)
Theorem wire_trace_ok : forall v pto ops,
  Forall wf_cop ops -> wire_ok (WS 0 0 v) (ctrace_ev (cinit v pto) ops) = true.
Proof.
  intros v pto ops Hwf. apply ctrace_wire; [exact Hwf|].
  unfold winv, cinit, init, wireSent, wireRcvd; cbn. repeat split; try lia; try discriminate.
Qed.

(** the predicate is not trivially true: the trace of the former finding (close written over the limit) fails it *)
Example wire_ok_rejects :
  wire_ok (WS 0 0 false) [WRecv 1200 false; WRecv 1200 false; WSend 1280; WSend 1280; WSend 1280; WSend 1280; WSend 1280; WSend 1280; WSendU 106] = false /\
  wire_ok (WS 0 0 false) [WRecv 1200 false; WRecv 1200 false; WSend 1280; WSend 1280; WSend 1280; WSend 1280; WSend 1280; WSend 1280; WRecv 1200 true; WSend 1280] = true /\
  ctrace_ev (cinit false 200000000) close_example_ops =
    [WRecv 1200 false; WRecv 1200 false; WSend 1280; WSend 1280; WSend 1280; WSend 1280; WSend 1280; WSend 1280;
     WRecv 37 false; WRecv 37 false; WRecv 37 false; WRecv 37 false].
Proof. repeat split; vm_compute; reflexivity. Qed.

(** the gate blocks AT the limit: a gated datagram started at equality is rejected (a >= -> > mutation of
    isAmplificationLimited shows), an ungated one is not; nothing may be sent before anything arrived *)
Example wire_ok_strict :
  wire_ok (WS 0 0 false) [WRecv 100 false; WSend 300; WSend 5000] = false /\
  wire_ok (WS 0 0 false) [WRecv 100 false; WSend 300; WSendU 50] = true /\
  wire_ok (WS 0 0 false) [WSend 5000] = false.
Proof. repeat split; vm_compute; reflexivity. Qed.
