(** Correspondence glue for the `ampconn` unit: the wire trace of one simulated handshake (real
    server and client over simnet), replayed through the wire predicate that every trace of the
    connection-level model satisfies (WireProofs.wire_trace_ok). *)
From Coq Require Import List ZArith Bool String.
From V Require Import Gen.Params Lib.Hex Lib.Corr.
From V Require Export AmpToken.WireModel.
Import ListNotations.
Open Scope Z_scope.

(** [closeOverLimit]: the trace contains a CONNECTION_CLOSE the router saw while the server was over the limit
    (the repaired code never produces one; kept as an observable so a regression shows as a mismatch) *)
Inductive case := WireCase (tr : list wev).

Definition model_obs (c : case) : bool * wst :=
  match c with WireCase tr => (wire_ok (WS 0 0 false) tr, wrun (WS 0 0 false) tr) end.

Definition check_case (c : case) : bool := fst (model_obs c).
