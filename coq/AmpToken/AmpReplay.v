(** C14 — buffered undecryptable packets (connection.go tryQueueingUndecryptablePacket,
    handleHandshakeEvents/EventReceivedReadKeys, the run loop's "handle undecryptable packets" step,
    handleOnePacket's ReceivedBytes).

    A datagram is credited when it arrives.  Packets of it whose keys are not yet available are
    buffered (at most MaxUndecryptablePackets) and passed to handleOnePacket AGAIN when read keys
    appear.  Before fixes/C14-undecryptable-replay-not-credited-again.patch that second pass credited
    the packet's bytes again ([credit_replay = true]); the repaired code marks buffered packets as
    counted ([credit_replay = false]).  [arrived] is the ghost "bytes that really arrived in datagrams". *)
From Coq Require Import List ZArith Bool Lia.
From V Require Import Gen.Params AmpToken.AmpModel AmpToken.AmpProofs.
Import ListNotations.
Open Scope Z_scope.

Record qstate := QS {
  qcl : cstate * Z;          (* the connection (AmpModel.cstate) with the ghost "last gated datagram" *)
  undecQ : list Z;           (* sizes of the buffered undecryptable packets *)
  arrived : Z                (* ghost: bytes of all datagrams that arrived *)
}.

Inductive qop :=
| QDatagram (n t : Z) (buffered : list Z)   (* an n-byte datagram; packets of these sizes in it have no keys yet *)
| QKeys (t : Z) (still : list bool)         (* read keys appear: every buffered packet is handled again; which stay undecryptable *)
| QOp (o : cop).

Definition maxUndecryptable : nat := 32.

Fixpoint keep {A} (l : list A) (m : list bool) : list A :=
  match l, m with
  | x :: r, b :: mr => if b then x :: keep r mr else keep r mr
  | _, _ => []
  end.

Definition is_open (c : cstate) : bool := match closedPkt c with None => true | Some _ => false end.

Definition qstep (credit_replay : bool) (q : qstate) (o : qop) : qstate :=
  match o with
  | QDatagram n t buffered =>
    if is_open (fst (qcl q))
    then QS (cstep_g (qcl q) (SphOp (Recv n t))) (firstn maxUndecryptable (undecQ q ++ buffered)) (arrived q + n)
    else QS (cstep_g (qcl q) (ClosedRecv n)) (undecQ q) (arrived q + n)
  | QKeys t still =>
    if is_open (fst (qcl q))
    then QS (if credit_replay
             then fold_left (fun cl sz => cstep_g cl (SphOp (Recv sz t))) (undecQ q) (qcl q)
             else qcl q)
            (keep (undecQ q) still) (arrived q)
    else q
  | QOp o =>
    QS (cstep_g (qcl q) o) (undecQ q)
       (arrived q + match o with SphOp (Recv n _) => n | ClosedRecv n => n | _ => 0 end)
  end.

Definition qinit (validated0 : bool) (pto : Z) : qstate := QS (cinit validated0 pto, 0) [] 0.
Definition qrun (credit_replay : bool) (q : qstate) (ops : list qop) : qstate := fold_left (qstep credit_replay) ops q.

Definition wf_qop (o : qop) : Prop :=
  match o with
  | QDatagram n _ buffered => 0 <= n /\ Forall (fun z => 0 <= z) buffered
  | QKeys _ _ => True
  | QOp o => wf_cop o
  end.

(** ** the repaired behaviour *)

Lemma step_bytesReceived s o :
  bytesReceived (step s o) = bytesReceived s + match o with Recv n _ => n | _ => 0 end.
Proof.
  destruct o as [n t | l t | t pkts | now | m]; cbn [step].
  - destruct (receivedBytes_fields s n) as (_ & H & _). exact H.
  - destruct (receivedPacket_fields s l) as (_ & H & _). rewrite H. lia.
  - unfold trySend. destruct (sendMode s =? amp_SendNone); [lia|].
    pose proof (fold_sentPacket_fields t pkts s) as H. cbn zeta in H. destruct H as (_ & H & _). rewrite H. lia.
  - destruct (timeoutDue s now); [|lia]. destruct (onTimeout_fields s) as (_ & H & _). rewrite H. lia.
  - cbn. lia.
Qed.

(** what one step of the connection adds to "received" is at most what the op brings *)
Lemma cstep_wireRcvd c o :
  (closedPkt c = None -> cRcvd c = 0) -> 0 <= match o with SphOp (Recv n _) => n | ClosedRecv n => n | _ => 0 end ->
  wireRcvd (cstep c o) <= wireRcvd c + match o with SphOp (Recv n _) => n | ClosedRecv n => n | _ => 0 end.
Proof.
  intros Hopen Hn. destruct c as [s cp cs cr csn cc]. unfold wireRcvd, cstep. cbn [sph closedPkt cRcvd] in *.
  destruct o as [o | hc size | n].
  - destruct cp; cbn [sph cRcvd].
    + destruct o; cbn in Hn |- *. all: try lia.
    + rewrite step_bytesReceived. destruct o; cbn in Hn |- *. all: try lia.
  - destruct cp; cbn [sph cRcvd]; [lia|]. rewrite (Hopen eq_refl). destruct (close_suppressed s hc); cbn [sph cRcvd]; lia.
  - cbn in Hn. destruct cp as [p|]; cbn [sph cRcvd]; [|lia].
    destruct (0 <? p); [|cbn [sph cRcvd]; lia].
    cbv zeta. cbn [sph closedPkt closeSent cRcvd cSent cCount].
    destruct (is_pow2 _ && _); cbn [sph cRcvd]; lia.
Qed.

Definition qinv (q : qstate) : Prop :=
  close_inv (qcl q) /\ wireRcvd (fst (qcl q)) <= arrived q.

Lemma close_inv_open cl : close_inv cl -> closedPkt (fst cl) = None -> cRcvd (fst cl) = 0.
Proof. destruct cl as [c last]. intros (_ & _ & H & _) Ho. destruct (H Ho) as (_ & _ & E). exact E. Qed.

Lemma qstep_inv q o : wf_qop o -> qinv q -> qinv (qstep false q o).
Proof.
  intros Hwf [Hc Ha]. destruct q as [[c last] uq ar]. cbn [qcl fst arrived] in *.
  destruct o as [n t buffered | t still | o]; unfold qstep; cbn [qcl fst undecQ arrived].
  - destruct Hwf as [Hn _]. destruct (is_open c) eqn:Eo.
    + split; cbn [qcl arrived].
      * apply cstep_g_inv; [cbn; exact Hn|exact Hc].
      * unfold cstep_g. cbn [fst].
        pose proof (cstep_wireRcvd c (SphOp (Recv n t)) (close_inv_open (c, last) Hc) Hn). cbv beta iota in H. lia.
    + split; cbn [qcl arrived].
      * apply cstep_g_inv; [cbn; exact Hn|exact Hc].
      * unfold cstep_g. cbn [fst].
        pose proof (cstep_wireRcvd c (ClosedRecv n) (close_inv_open (c, last) Hc) Hn). cbv beta iota in H. lia.
  - destruct (is_open c); split; cbn [qcl arrived fst]; assumption.
  - split; cbn [qcl arrived].
    + apply cstep_g_inv; assumption.
    + unfold cstep_g. cbn [fst].
      assert (Hn : 0 <= match o with SphOp (Recv n _) => n | ClosedRecv n => n | _ => 0 end).
      { destruct o as [[n t| | | |] | |n]; cbn in Hwf; try lia. }
      pose proof (cstep_wireRcvd c o (close_inv_open (c, last) Hc) Hn). lia.
Qed.

(** With the repair: everything the server puts on the wire is at most three times what ARRIVED
    (plus the last gated datagram), also in histories that buffer and replay undecryptable packets. *)
Theorem amplification_bound_replay : forall v pto ops,
  Forall wf_qop ops ->
  let q := qrun false (qinit v pto) ops in
  validated (sph (fst (qcl q))) = false ->
  wireSent (fst (qcl q)) <= 3 * arrived q + snd (qcl q).
Proof.
  intros v pto ops Hwf.
  assert (H : forall q0, qinv q0 -> qinv (qrun false q0 ops)).
  { induction ops as [|o r IH]; intros q0 Hi; cbn [qrun fold_left]; [exact Hi|].
    inversion Hwf; subst. apply IH; [assumption|]. apply qstep_inv; assumption. }
  cbn zeta. intros Hv.
  assert (Hi : qinv (qinit v pto)).
  { split; [apply close_inv_init|]. cbn. lia. }
  destruct (H _ Hi) as [Hc Ha].
  destruct (qcl (qrun false (qinit v pto) ops)) as [c last] eqn:E. cbn [fst snd] in *.
  destruct Hc as (_ & Hcs & _ & Hb). specialize (Hb Hv). unfold wireSent, wireRcvd in *. lia.
Qed.

(** ** the behaviour before the repair: refuted *)

(** a 1200-byte Initial, a 1200-byte datagram of two Handshake-looking packets that are buffered, the
    read keys appear (the buffered packets are handled again and then dropped), and the server sends
    1200-byte datagrams as long as its gate lets it *)
Definition replay_witness : list qop :=
  [ QDatagram 1200 1 []; QDatagram 1200 2 [600; 600]; QKeys 3 [false; false] ] ++
  repeat (QOp (SphOp (TrySend 4 [(amp_EncHandshake, 1200, true)]))) 10.

Theorem replay_credited_again_refuted :
  exists ops, Forall wf_qop ops /\
    let q := qrun true (qinit false 200000000) ops in
    validated (sph (fst (qcl q))) = false /\
    3 * arrived q + snd (qcl q) < wireSent (fst (qcl q)).
Proof.
  exists replay_witness. split.
  - unfold replay_witness. apply Forall_app. split.
    + repeat constructor; cbn; lia.
    + apply Forall_forall. intros x Hx. apply repeat_spec in Hx. subst x. cbn. repeat constructor; cbn; lia.
  - vm_compute. split; reflexivity.
Qed.

(** the same history on the repaired model: the server stops at 3 x 2400 *)
Example replay_witness_repaired :
  let q := qrun false (qinit false 200000000) replay_witness in
  wireSent (fst (qcl q)) = 7200 /\ arrived q = 2400 /\ bytesReceived (sph (fst (qcl q))) = 2400 /\
  (let q' := qrun true (qinit false 200000000) replay_witness in
   wireSent (fst (qcl q')) = 10800 /\ arrived q' = 2400 /\ bytesReceived (sph (fst (qcl q'))) = 3600).
Proof. vm_compute. repeat split; reflexivity. Qed.
