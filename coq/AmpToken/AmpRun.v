(** Correspondence glue for the `amplification` harness unit: a case is one history of a real
    server-side sentPacketHandler with what it showed after every op. *)
From Coq Require Import List ZArith Bool String.
From V Require Import Gen.Params Lib.Hex Lib.Corr.
From V Require Export AmpToken.AmpModel.
Import ListNotations.
Open Scope Z_scope.

(** after each op: SendMode class (TrySend only, else -1), "timer fired" (Timeout only),
    bytesSent, bytesReceived, peerAddressValidated, alarm, ptoCount, numProbesToSend *)
Inductive opobs := Obs (mode : Z) (fired : bool) (sent rcvd : Z) (val : bool) (alarm ptoCount numProbes : Z).

(** [tail]: how the history ends — local close, then datagrams for the closed connection;
    [tobs]: bytes written to the socket by each of these ops *)
Inductive case := AmpCase (validated0 : bool) (pto : Z) (ops : list op) (obs : list opobs)
                          (tail : list cop) (tobs : list Z).

Definition obs_of (s : st) (o : op) (s' : st) : opobs :=
  Obs (match o with TrySend _ _ => sendMode s | _ => -1 end)
      (match o with Timeout now => timeoutDue s now | _ => false end)
      (bytesSent s') (bytesReceived s') (validated s')
      (AmpModel.alarm (tm s')) (AmpModel.ptoCount (tm s')) (AmpModel.numProbes (tm s')).

Fixpoint trace (s : st) (ops : list op) : list opobs :=
  match ops with
  | [] => []
  | o :: r => let s' := step s o in obs_of s o s' :: trace s' r
  end.

Fixpoint ctrace (c : cstate) (ops : list cop) : list Z :=
  match ops with
  | [] => []
  | o :: r => let c' := cstep c o in (wireSent c' - wireSent c) :: ctrace c' r
  end.

Definition model_obs (c : case) : list opobs * list Z :=
  match c with
  | AmpCase v pto ops _ tail _ =>
    (trace (init v pto) ops, ctrace (crun (cinit v pto) (map SphOp ops)) tail)
  end.

Definition obs_eqb (a b : opobs) : bool :=
  match a, b with
  | Obs m f s r v al pc np, Obs m' f' s' r' v' al' pc' np' =>
    (m =? m') && Bool.eqb f f' && (s =? s') && (r =? r') && Bool.eqb v v' && (al =? al') && (pc =? pc') && (np =? np')
  end.

Fixpoint all2 {A} (f : A -> A -> bool) (a b : list A) : bool :=
  match a, b with
  | [], [] => true
  | x :: a', y :: b' => f x y && all2 f a' b'
  | _, _ => false
  end.

Definition check_case (c : case) : bool :=
  match c with
  | AmpCase _ _ _ obs _ tobs => all2 obs_eqb (fst (model_obs c)) obs && all2 Z.eqb (snd (model_obs c)) tobs
  end.
