(** C14 (a), lifted to the FULL sentPacketHandler model of unit C06 (V.SentPH: packet history,
    ACK processing, loss detection, PTO, packet-number skipping, tracked-packet caps, ...).

    C06 proved the bound for histories in which every SentPacket call is individually
    preceded by a SendMode answer other than SendNone.  The connection, however, asks
    SendMode once per DATAGRAM and then registers every coalesced packet of it
    (connection.go sendPackedCoalescedPacket).  This file proves the datagram-gated form over
    the same full model.  It is a proof-level composition: the model is tied to the code by
    C06's correspondence unit, nothing new is modelled here. *)
From Coq Require Import List ZArith Bool Lia.
From V Require Import Gen.Params SentPH.Model SentPH.ProofsMain SentPH.ProofsScalars.
Import ListNotations.
Open Scope Z_scope.

Definition is_send (oo : op * oracle) : bool :=
  match fst oo with OSend _ _ _ _ _ _ _ _ _ => true | _ => false end.

(** a history of the connection: handler events, and datagrams (the SentPacket calls of one
    coalesced packet, made after ONE SendMode check) *)
Inductive item :=
| Ev (oo : op * oracle)
| Dgram (pkts : list (op * oracle)).

Definition wf_item (it : item) : Prop :=
  match it with
  | Ev oo => is_send oo = false
  | Dgram pkts => forallb is_send pkts = true
  end.

Definition flat (h : list item) : list (op * oracle) :=
  flat_map (fun it => match it with Ev oo => [oo] | Dgram p => p end) h.

(** bytes SentPacket accepted for one datagram *)
Fixpoint dsize (st : state) (pkts : list (op * oracle)) : Z :=
  match pkts with
  | [] => 0
  | oo :: r => sent_size st oo + dsize (fst (step st oo)) r
  end.

(** every datagram is packed only after some SendMode answer other than SendNone *)
Fixpoint dgated (st : state) (h : list item) : Prop :=
  match h with
  | [] => True
  | it :: r =>
    match it with
    | Ev oo => dgated (fst (step st oo)) r
    | Dgram p => (exists cs hb, sendMode st cs hb <> sph_SendNone) /\ dgated (run st p) r
    end
  end.

Fixpoint last_dgram (st : state) (h : list item) (acc : Z) : Z :=
  match h with
  | [] => acc
  | Ev oo :: r => last_dgram (fst (step st oo)) r acc
  | Dgram p :: r => last_dgram (run st p) r (dsize st p)
  end.

Lemma run_app st a b : run st (a ++ b) = run (run st a) b.
Proof. unfold run. apply fold_left_app. Qed.

Lemma untimed oo : op_timed false oo.
Proof. intros Hf. discriminate. Qed.

Lemma sends_sc pkts : forall st, Inv false st -> forallb is_send pkts = true ->
  Inv false (run st pkts) /\ sSent (run st pkts) = sSent st + dsize st pkts /\
  sRecv (run st pkts) = sRecv st /\ (sPAV (run st pkts) = false -> sPAV st = false).
Proof.
  induction pkts as [|oo r IH]; intros st I Hs; cbn [run fold_left dsize].
  - split; [exact I|]. split; [lia|]. split; [reflexivity|auto].
  - cbn [forallb] in Hs. apply andb_prop in Hs as [Ho Hr].
    destruct (step_sc false st oo I (untimed oo)) as [_ [Ss [Sr [Sp _]]]].
    destruct (IH (fst (step st oo)) (step_inv false st oo I (untimed oo)) Hr) as (I' & S' & R' & P').
    fold (run (fst (step st oo)) r).
    assert (Er : recv_size st oo = 0).
    { unfold recv_size. unfold is_send in Ho. destruct (fst oo); try discriminate; reflexivity. }
    split; [exact I'|]. split; [lia|]. split; [lia|].
    intros Hp. specialize (P' Hp). destruct (sPAV st); [specialize (Sp eq_refl); congruence|reflexivity].
Qed.

Lemma recv_size_nonneg st oo : 0 <= recv_size st oo.
Proof.
  unfold recv_size. destruct (fst oo) as [| | | | | |n now| | |] eqn:E; try lia.
  destruct (executed st (ORecvBytes n now)) eqn:Ee; [|lia].
  unfold executed in Ee. apply andb_prop in Ee as [_ Ev]. cbn in Ev. apply Z.leb_le in Ev. exact Ev.
Qed.

Lemma amp_dgram_history h : forall st acc,
  Inv false st -> amp_ok st acc -> Forall wf_item h -> dgated st h ->
  amp_ok (run st (flat h)) (last_dgram st h acc).
Proof.
  induction h as [|it r IH]; intros st acc I A Hwf G; cbn [flat flat_map last_dgram]; [exact A|].
  inversion Hwf as [|? ? Hit Hr]; subst.
  destruct it as [oo | p]; cbn [dgated] in G.
  - change (run st ([oo] ++ flat r)) with (run (fst (step st oo)) (flat r)).
    apply IH; [apply step_inv; [exact I|apply untimed]| |exact Hr|exact G].
    destruct (step_sc false st oo I (untimed oo)) as [_ [Ss [Sr [Sp _]]]].
    unfold amp_ok in *. intros Hp'.
    assert (Hp : sPAV st = false) by (destruct (sPAV st); [specialize (Sp eq_refl); congruence|reflexivity]).
    specialize (A Hp). pose proof (recv_size_nonneg st oo) as Hn.
    assert (Es : sent_size st oo = 0).
    { cbn in Hit. unfold sent_size, is_send in *. destruct (fst oo); try discriminate; reflexivity. }
    change sph_amplificationFactor with 3 in *. lia.
  - destruct G as [[cs [hb Hm]] G].
    rewrite run_app. cbn in Hit.
    destruct (sends_sc p st I Hit) as (I' & S' & R' & P').
    apply IH; [exact I'| |exact Hr|exact G].
    unfold amp_ok in *. intros Hp'. specialize (P' Hp').
    apply sendMode_not_none in Hm. unfold isAmplificationLimited in Hm. rewrite P' in Hm.
    change sph_amplificationFactor with 3 in *.
    destruct (Z.geb_spec (sSent st) (3 * sRecv st)); [discriminate|]. lia.
Qed.

(** The full-handler theorem at datagram granularity. *)
Theorem amplification_full_handler_datagrams validated ipn period maxPeriod rnd0 h :
  0 <= ipn ->
  let i := init false validated ipn period maxPeriod rnd0 in
  Forall wf_item h -> dgated i h ->
  sPAV (run i (flat h)) = false ->
  sSent (run i (flat h)) <= 3 * sRecv (run i (flat h)) + last_dgram i h 0.
Proof.
  intros Hi i Hwf G.
  apply (amp_dgram_history h i 0 (Inv_init false _ _ _ _ _ _ Hi)); [|exact Hwf|exact G].
  intros _. cbn. lia.
Qed.

(** C06's packet-gated theorem with the generated factor fixed to 3. *)
Theorem amplification_full_handler validated ipn period maxPeriod rnd0 ops :
  0 <= ipn ->
  let i := init false validated ipn period maxPeriod rnd0 in
  gated i ops ->
  sPAV (run i ops) = false ->
  sSent (run i ops) <= 3 * sRecv (run i ops) + last_size i ops 0.
Proof. exact (amplification_history validated ipn period maxPeriod rnd0 ops). Qed.

(** Non-vacuity: a 1200-byte client datagram, then two coalesced server datagrams
    (Initial+Handshake, then Handshake+1-RTT) — the second one crosses the limit. *)
Definition full_example : list item :=
  [ Ev (ORecvBytes 1200 1000000000, (112500000, 200000000, 200000000));
    Dgram [ (OSend 1 1000000001 (-1) [] [1] 1200 false false 0, (112500000, 200000000, 200000000));
            (OSend 2 1000000001 (-1) [] [2] 1152 false false 0, (112500000, 200000000, 200000000)) ];
    Dgram [ (OSend 2 1000000002 (-1) [] [3] 1000 false false 0, (112500000, 200000000, 200000000));
            (OSend 4 1000000002 (-1) [] [4] 400 false false 0, (112500000, 200000000, 200000000)) ] ].

Example full_example_run :
  let i := init false false 0 256 131072 100 in
  Forall wf_item full_example /\ dgated i full_example /\
  sPAV (run i (flat full_example)) = false /\
  sSent (run i (flat full_example)) = 3752 /\ sRecv (run i (flat full_example)) = 1200 /\
  last_dgram i full_example 0 = 1400 /\ isAmplificationLimited (run i (flat full_example)) = true.
Proof.
  cbn zeta. split; [repeat constructor|]. split; [|vm_compute; auto 6].
  cbn [dgated full_example]. split; [exists true, true; vm_compute; discriminate|].
  split; [exists true, true; vm_compute; discriminate|exact I].
Qed.
