(** Correspondence glue for the `stateless` harness unit: one datagram handed to the real
    Transport.handlePacket of a transport with a server, and what was sent in response. *)
From Coq Require Import List ZArith Bool String.
From V Require Import Gen.Params Lib.Corr.
From V Require Export Lib.Hex AmpToken.TokenModel AmpToken.StatelessModel.
Import ListNotations.
Open Scope Z_scope.

(** observed: reply kind (0 none, 1 VN, 2 Retry, 3 Initial+CONNECTION_CLOSE, 4 short header), error code, size,
    connection created, routed to the existing handler *)
Inductive case :=
  SLCase (c : scfg) (n : Z) (f : sform) (known : bool) (i : initinfo)
         (kind code size : Z) (accepted routed : bool).

Definition model_obs (x : case) : reply * bool * bool :=
  match x with SLCase c n f known i _ _ _ _ _ => transportReply c n f known i end.

Definition check_case (x : case) : bool :=
  match x with
  | SLCase _ _ _ _ _ kind code size accepted routed =>
    let '(r, acc, rt) := model_obs x in
    Bool.eqb acc accepted && Bool.eqb rt routed &&
    match r with
    | RNone => kind =? 0
    | RVN s => (kind =? 1) && (s =? size)
    | RRetry s => (kind =? 2) && (s =? size)
    | RErr cd s => (kind =? 3) && (cd =? code) && (s =? size)
    | RReset s => (kind =? 4) && (s =? size)
    end
  end.
