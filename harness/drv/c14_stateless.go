//go:build verif

package main

import (
	"bufio"
	"bytes"
	crand "crypto/rand"
	"encoding/binary"
	"fmt"
	"net"
	"strings"
	"testing/synctest"
	"time"

	quic "github.com/refraction-networking/uquic"
	"github.com/refraction-networking/uquic/internal/handshake"
	"github.com/refraction-networking/uquic/internal/protocol"
	u "github.com/refraction-networking/uquic/internal/verifutil"
)

func init() {
	units["stateless"] = runC14Stateless
	genSources = append(genSources, quic.VerifC14StatelessConsts)
}

// stateless unit (C14, round 3): one crafted datagram -> the real Transport.handlePacket /
// baseServer.handlePacketImpl / handleInitialImpl and the real senders of Version Negotiation,
// Retry, INVALID_TOKEN / CONNECTION_REFUSED and stateless resets, with a recording conn.
// Monitors: at most one reply per datagram, reply <= 3 x datagram, long-header replies only to
// >= 1200-byte datagrams, a reset is smaller than its trigger, no reply to a reply.

func c14RawLong(r *u.Rng, typeBits byte, version uint32, dcid, scid []byte, initialToken []byte, isInitial bool, size int) []byte {
	b := []byte{0xc0 | typeBits<<4 | 0x03, 0, 0, 0, 0, byte(len(dcid))}
	binary.BigEndian.PutUint32(b[1:5], version)
	b = append(b, dcid...)
	b = append(b, byte(len(scid)))
	b = append(b, scid...)
	if isInitial {
		b = append(b, byte(len(initialToken))) // < 64
		b = append(b, initialToken...)
	}
	rest := size - len(b) - 2
	if rest < 0 {
		if size < len(b) {
			return b[:size]
		}
		return append(b, r.Bytes(size-len(b))...)
	}
	b = append(b, 0x40|byte(rest>>8), byte(rest))
	return append(b, r.Bytes(rest)...)
}

func c14TypeBits(version uint32, typ int) byte {
	if version == uint32(protocol.Version2) {
		return []byte{1, 2, 3, 0}[typ]
	}
	return []byte{0, 1, 2, 3}[typ]
}

func runC14Stateless(w *bufio.Writer, seed uint64, n int, _ []string) {
	r := u.NewRng(seed ^ 0xc14)
	old := crand.Reader
	crand.Reader = &rngReader{r.Fork()}
	defer func() { crand.Reader = old }()
	dist := map[string]int{}
	synctest.Run(func() {
		for i := 0; i < n; i++ {
			c14StatelessCase(w, r.Fork(), i, dist)
		}
	})
	for _, k := range []string{"cases", "nontrivial", "reply:none", "reply:vn", "reply:retry", "reply:invalid-token", "reply:refused", "reply:reset", "accepted", "routed",
		"form:empty", "form:nonquic", "form:short", "form:long-v0", "form:long-unsupported", "form:long-0rtt", "form:long-handshake", "form:long-retry", "form:long-initial",
		"size:<1200", "size:1199", "size:1200", "size:>1200", "reset-boundary", "coalesced-or-padded"} {
		fmt.Fprintf(w, "DIST\t%s\t%d\n", k, dist[k])
	}
}

func c14StatelessCase(w *bufio.Writer, r *u.Rng, idx int, dist map[string]int) {
	var human string
	failed := map[string]bool{}
	monfail := func(key, desc string) {
		if failed[key] {
			return
		}
		failed[key] = true
		fmt.Fprintf(w, "MONFAIL\t%s\t%s\t%s\n", key, desc, human)
	}
	defer func() {
		if e := recover(); e != nil {
			fmt.Fprintf(w, "MONFAIL\tstateless/panic\tpanic: %v\t%s\n", e, human)
		}
	}()

	// ---- server configuration ----
	o := quic.VerifC14StatelessOpts{
		ResetKey:    !r.Chance(1, 5),
		VerifySrc:   int(r.Pick(-1, 0, 1, 1)),
		DisableVN:   r.Chance(1, 8),
		AcceptEarly: r.Bool(),
		Refuse:      r.Chance(1, 5),
		MaxTokenAge: time.Hour,
		HsIdle:      5 * time.Second,
		ConnIDLen:   int(r.Pick(4, 4, 8, 0, 20)),
		NumVersions: r.Range(1, 2),
	}
	copy(o.TokenKey[:], r.Bytes(32))
	o.KnownConnID = r.Bytes(o.ConnIDLen)
	if o.ConnIDLen == 0 {
		o.KnownConnID = nil
	}
	srv := quic.VerifNewC14Stateless(o)
	from := &net.UDPAddr{IP: net.IPv4(10, 0, 0, byte(r.Range(1, 3))), Port: 1000}
	now := time.Now()

	// ---- the datagram ----
	size := int(r.Pick(1199, 1200, 1200, 1201, 1452, 1452, int64(r.Range(1, 60)), int64(r.Range(38, 46)), int64(r.Range(61, 1198)), 600, 0))
	if size == 0 {
		size = r.Range(1, 1452)
	}
	var data []byte
	form := "FNonQuic"
	routed := false
	verClass, typ, dl, sl := 0, 0, 0, 0
	parseOK, decryptable := false, false
	var token, dcid []byte
	retryTokLen := 0
	formName := ""
	coalesced := ""
	switch cat := r.Intn(12); {
	case cat == 0:
		if r.Chance(1, 3) {
			data, formName = nil, "empty"
		} else {
			data = r.Bytes(size)
			data[0] &= 0x3f
			formName = "nonquic"
		}
	case cat <= 2: // short header
		size = int(r.Pick(int64(size), int64(o.ConnIDLen), int64(o.ConnIDLen+1), 17, 41, 42, 43, 44, 100, 1200))
		if size < 1 {
			size = 1
		}
		if size >= 41 && size <= 44 {
			dist["reset-boundary"]++
		}
		data = r.Bytes(size)
		data[0] = 0x40 | data[0]&0x3f
		if o.KnownConnID != nil && size > o.ConnIDLen && r.Chance(1, 4) {
			copy(data[1:], o.KnownConnID)
			routed = true
		}
		form, formName = "FShort", "short"
	default: // long header
		version := uint32(protocol.Version1)
		switch r.Intn(6) {
		case 0:
			version, verClass = 0, 0
		case 1:
			version, verClass = uint32(r.Pick(0x1a2a3a4a, 0xff00001d, 0x00000002, 0xfaceb00c)), 2
		case 2:
			version = uint32(protocol.Version2)
			verClass = 1
			if o.NumVersions < 2 {
				verClass = 2
			}
		default:
			verClass = 1
		}
		dl = int(r.Pick(0, 4, 7, 8, 8, 8, 12, 20, 20))
		sl = int(r.Pick(0, 4, 4, 8, 20))
		if verClass != 1 && r.Chance(1, 3) {
			dl = int(r.Pick(21, 100, 255))
			sl = int(r.Pick(0, 21, 255))
		}
		dcid = r.Bytes(dl)
		scid := r.Bytes(sl)
		if o.KnownConnID != nil && dl == o.ConnIDLen && r.Chance(1, 8) {
			dcid = append([]byte{}, o.KnownConnID...)
			routed = true
		}
		typ = int(r.Pick(0, 0, 0, 0, 0, 1, 2, 3))
		if verClass != 1 {
			typ = r.Intn(4)
		}
		tb := c14TypeBits(version, typ)
		if verClass == 1 && typ == 0 && dl <= 20 {
			// a real, protected client Initial, with or without a token
			g := srv.TokenGenerator()
			odcid, rscid := r.Bytes(8), r.Bytes(o.ConnIDLen)
			switch r.Intn(8) {
			case 0:
				token, _ = g.NewRetryToken(from, protocol.ParseConnectionID(odcid), protocol.ParseConnectionID(rscid))
			case 1:
				token, _ = g.NewRetryToken(&net.UDPAddr{IP: net.IPv4(10, 9, 9, 9), Port: 1}, protocol.ParseConnectionID(odcid), protocol.ParseConnectionID(rscid))
			case 2: // expired Retry token
				plain, _ := handshake.VerifTokenMarshal(true, handshake.VerifEncodeRemoteAddr(from), now.Add(-time.Minute).UnixNano(), 0, odcid, rscid)
				token, _ = handshake.VerifTokenSeal(g, plain)
			case 3:
				token, _ = g.NewToken(from, 33*time.Millisecond)
			case 4:
				token = r.Bytes(r.Range(1, 60))
			}
			// coalesced / padded datagrams: the decisions read the DATAGRAM's size and the FIRST packet's header
			firstLen, tail := size, ""
			if size >= 300 && r.Chance(1, 3) {
				firstLen = r.Range(120+len(token), size-40)
				tail = []string{"zeros", "junk-initial", "garbage"}[r.Intn(3)]
			}
			data = quic.VerifC14Initial(protocol.Version(version), dcid, scid, token, firstLen)
			firstEnd := len(data)
			if data != nil && tail != "" {
				rest := size - len(data)
				switch tail {
				case "zeros":
					data = append(data, make([]byte, rest)...)
				case "junk-initial":
					data = append(data, c14RawLong(r, tb, version, dcid, scid, nil, true, rest)...)
				default:
					data = append(data, r.Bytes(rest)...)
				}
				coalesced = tail
			}
			if data != nil {
				parseOK, decryptable = true, true
				sel := r.Intn(8)
				if sel == 1 && tail != "" {
					sel = 0
				}
				switch sel {
				case 0: // corrupt the protected payload of the (first) Initial packet
					data[firstEnd-1] ^= 1
					decryptable = false
				case 1: // truncate: Length now exceeds the datagram
					cut := r.Range(1, 30)
					data = data[:len(data)-cut]
					parseOK, decryptable = false, false
				}
			} else {
				token = nil
				data = c14RawLong(r, tb, version, dcid, scid, nil, true, size)
				parseOK = len(data) >= 7+dl+sl+1+2
			}
			t, _ := g.NewRetryToken(from, protocol.ParseConnectionID(dcid), protocol.ParseConnectionID(r.Bytes(o.ConnIDLen)))
			retryTokLen = len(t)
		} else {
			firstLen := size
			if size >= 300 && r.Chance(1, 3) { // a first packet followed by padding / another packet
				firstLen = r.Range(60+dl+sl, size-40)
				coalesced = "tail"
			}
			data = c14RawLong(r, tb, version, dcid, scid, nil, typ == 0 && verClass == 1, firstLen)
			if firstLen < size {
				if r.Bool() {
					data = append(data, make([]byte, size-len(data))...)
				} else {
					data = append(data, c14RawLong(r, tb, version, dcid, scid, nil, typ == 0 && verClass == 1, size-len(data))...)
				}
			}
			parseOK = typ != 3 && firstLen >= 7+dl+sl+2
		}
		form = u.App("FLong", u.App("LH", u.Z(int64(verClass)), u.Z(int64(typ)), u.Z(int64(dl)), u.Z(int64(sl)), u.B(parseOK)))
		switch {
		case verClass == 0:
			formName = "long-v0"
		case verClass == 2:
			formName = "long-unsupported"
		default:
			formName = "long-" + []string{"initial", "0rtt", "handshake", "retry"}[typ]
		}
	}
	n := len(data)
	dist["form:"+formName]++
	if coalesced != "" {
		dist["coalesced-or-padded"]++
		formName += "+" + coalesced
	}
	switch {
	case n == 1199:
		dist["size:1199"]++
	case n == 1200:
		dist["size:1200"]++
	case n < 1200:
		dist["size:<1200"]++
	default:
		dist["size:>1200"]++
	}
	human = fmt.Sprintf("cfg{resetKey=%v verifySrc=%d disableVN=%v early=%v refuse=%v cidLen=%d versions=%d} %s %dB d=%d s=%d token=%dB parseOK=%v decryptable=%v routed=%v data=%x…",
		o.ResetKey, o.VerifySrc, o.DisableVN, o.AcceptEarly, o.Refuse, o.ConnIDLen, o.NumVersions, formName, n, dl, sl, len(token), parseOK, decryptable, routed, data[:min(n, 48)])

	// ---- implementation ----
	res := srv.Handle(data, from)
	kind, code, rsize := 0, uint64(0), 0
	if len(res.Replies) > 1 {
		monfail("stateless/multiple-replies", fmt.Sprintf("%d packets sent in response to one datagram", len(res.Replies)))
	}
	if len(res.Replies) >= 1 {
		rp := res.Replies[0]
		rsize = len(rp)
		kind, code = quic.VerifC14ClassifyReply(rp, dcid)
		if kind == 0 {
			monfail("stateless/unknown-reply", fmt.Sprintf("unclassifiable %d-byte reply %x", len(rp), rp[:min(len(rp), 32)]))
		}
		// ---- property monitors ----
		total := 0
		for _, x := range res.Replies {
			total += len(x)
		}
		if total > 3*n {
			monfail("stateless/amplification", fmt.Sprintf("%d bytes sent in response to a %d-byte datagram from an unvalidated address", total, n))
		}
		if kind == 4 && rsize >= n {
			monfail("stateless/reset-not-smaller", fmt.Sprintf("%d-byte stateless reset in response to a %d-byte packet", rsize, n))
		}
		if kind >= 1 && kind <= 3 && n < 1200 {
			monfail("stateless/reply-to-small", fmt.Sprintf("reply kind %d to a %d-byte datagram", kind, n))
		}
		if n >= 5 && data[0]&0x80 != 0 && data[1]|data[2]|data[3]|data[4] == 0 {
			monfail("stateless/reply-to-vn", "reply to a Version Negotiation packet")
		}
		// issuance (server.go sendRetryPacket): the token of a Retry is a Retry token for the address the Initial came from,
		// carrying the Initial's destination connection ID and the Retry's own source connection ID
		if kind == 2 {
			if tk, rscid, ok := quic.VerifC14RetryFields(rp); !ok {
				monfail("stateless/retry-token-issuance", "Retry packet does not parse")
			} else if t, err := srv.TokenGenerator().DecodeToken(tk); err != nil || t == nil {
				monfail("stateless/retry-token-issuance", fmt.Sprintf("the token of a Retry does not decode with the server's own key: %v", err))
			} else if !t.IsRetryToken || !t.ValidateRemoteAddr(from) || t.ValidateRemoteAddr(&net.UDPAddr{IP: net.IPv4(10, 9, 9, 9), Port: from.Port}) ||
				!bytes.Equal(t.OriginalDestConnectionID.Bytes(), dcid) || !bytes.Equal(t.RetrySrcConnectionID.Bytes(), rscid) || now.Sub(t.SentTime) != 0 {
				monfail("stateless/retry-token-issuance", fmt.Sprintf("Retry token issued with retry=%v odcid=%x rscid=%x sent=%v for an Initial from %v with DCID %x (Retry SCID %x, now %v)",
					t.IsRetryToken, t.OriginalDestConnectionID.Bytes(), t.RetrySrcConnectionID.Bytes(), t.SentTime.UnixNano(), from, dcid, rscid, now.UnixNano()))
			}
		}
		// no reply to a reply: the reply, arriving at an identically configured server, is answered by silence
		peer := quic.VerifNewC14Stateless(o)
		if back := peer.Handle(rp, &net.UDPAddr{IP: net.IPv4(127, 0, 0, 1), Port: 443}); len(back.Replies) > 0 {
			monfail("stateless/reply-loop", fmt.Sprintf("a %d-byte reply of kind %d is itself answered with %d bytes", rsize, kind, len(back.Replies[0])))
		}
	}
	name := "none"
	switch {
	case kind == 1:
		name = "vn"
	case kind == 2:
		name = "retry"
	case kind == 3 && code == 0xb:
		name = "invalid-token"
	case kind == 3:
		name = "refused"
	case kind == 4:
		name = "reset"
	}
	dist["reply:"+name]++
	if res.Accepted {
		dist["accepted"]++
	}
	if res.Routed {
		dist["routed"]++
	}
	// ---- case for the model ----
	openT, recT := "None", "None"
	if len(token) > 0 {
		if plain, ok := handshake.VerifTokenOpen(srv.TokenGenerator(), token); ok {
			openT = u.Opt(true, hxs(plain))
			if rec := handshake.VerifTokenUnmarshal(plain); rec.OK {
				recT = u.Opt(true, u.Pair(u.App("Rec", u.B(rec.IsRetry), hxs(rec.Addr), u.Z(rec.Ts), u.Z(rec.RTT), hxs(rec.ODCID), hxs(rec.RSCID)), u.Z(int64(rec.RestLen))))
			}
		}
	}
	cfgT := u.App("SCfg", u.B(o.ResetKey), u.Z(int64(o.VerifySrc)), u.B(o.DisableVN), u.B(o.AcceptEarly), u.B(o.Refuse), u.Z(int64(o.ConnIDLen)), u.Z(int64(o.NumVersions)),
		u.Z(int64(o.MaxTokenAge)), u.Z(int64(o.HsIdle)))
	infoT := u.App("II", hxs(token), hxs(dcid), u.App("UDPAddr", hxs([]byte(from.IP)), u.Z(int64(from.Port))), u.Z(now.UnixNano()), openT, recT, u.B(decryptable), u.Z(int64(retryTokLen)))
	nt := 0
	if kind != 0 {
		nt = 1
		dist["nontrivial"]++
	}
	dist["cases"]++
	fmt.Fprintf(w, "CASE %d %s\n", nt, u.App("SLCase", cfgT, u.Z(int64(n)), form, u.B(routed), infoT,
		u.Z(int64(kind)), u.Z(int64(code)), u.Z(int64(rsize)), u.B(res.Accepted), u.B(res.Routed)))
	if idx < 3 || (kind != 0 && dist["reply:"+name] <= 1) {
		fmt.Fprintf(w, "SAMPLE\t%s => reply=%s %dB accepted=%v\n", strings.TrimSpace(human), name, rsize, res.Accepted)
	}
}
