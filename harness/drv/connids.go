//go:build verif

package main

import (
	"bufio"
	"bytes"
	"encoding/binary"
	"fmt"
	"sort"
	"strings"
	"testing/synctest"
	"time"

	"github.com/refraction-networking/uquic/quicvarint"
	tls "github.com/refraction-networking/utls"

	quic "github.com/refraction-networking/uquic"
	"github.com/refraction-networking/uquic/internal/protocol"
	u "github.com/refraction-networking/uquic/internal/verifutil"
)

// connids unit (property C16): histories of the real connIDManager and connIDGenerator
// with recording callbacks. Every case is replayed by coq/ConnIDs (correspondence) and is
// judged by the property monitors below, which only use the implementation's own
// callbacks, return values and fields plus a shadow of what the PEER can see.

func init() {
	units["connids"] = runConnIDs
	genSources = append(genSources, quic.VerifConnIDConsts)
}

const (
	maxActive = protocol.MaxActiveConnectionIDs
	maxIssued = protocol.MaxIssuedConnectionIDs
	ppcConst  = protocol.PacketsPerConnectionID
)

func runConnIDs(w *bufio.Writer, seed uint64, n int, _ []string) {
	r := u.NewRng(seed)
	c := &cidRun{w: w, dist: map[string]int{}}
	// scripted witnesses first (they also document the known finding)
	c.mgrWitnesses()
	nm := n * 5 / 10
	ng := n * 3 / 10
	for i := 0; i < nm; i++ {
		c.mgrCase(r.Fork(), i)
	}
	c.limitCases()
	c.genWitnesses()
	for i := 0; i < ng; i++ {
		c.genCase(r.Fork(), i, false)
	}
	// the routing table runs on virtual time (time.AfterFunc inside ReplaceWithClosed)
	synctest.Run(func() {
		nr := n - nm - ng
		for i := 0; i < nr; i++ {
			if i%3 == 2 {
				c.genCase(r.Fork(), ng+i, true) // generator wired to a real packetHandlerMap
			} else {
				c.routeCase(r.Fork(), i)
			}
		}
	})
	keys := make([]string, 0, len(c.dist))
	for k := range c.dist {
		keys = append(keys, k)
	}
	sort.Strings(keys)
	for _, k := range keys {
		fmt.Fprintf(w, "DIST\t%s\t%d\n", k, c.dist[k])
	}
}

type cidRun struct {
	w       *bufio.Writer
	dist    map[string]int
	samples int
}

func hxs(b []byte) string { return "(hx " + u.Hex(b) + ")" }

func tokOf(n uint64) [16]byte {
	var t [16]byte
	binary.BigEndian.PutUint64(t[8:], n)
	return t
}
func tokNum(t [16]byte) string {
	if binary.BigEndian.Uint64(t[:8]) == 0 {
		return u.ZU(binary.BigEndian.Uint64(t[8:]))
	}
	return "(hn " + u.Hex(t[:]) + ")"
}

// ---------------------------------------------------------------------------------
// manager
// ---------------------------------------------------------------------------------

type mOp struct {
	kind          string // add pref get sent hs close chg settok pget pret istok setlimit
	seq, rpt      uint64
	cid           []byte
	tok           [16]byte
	k             int
	pid           int64
	// results
	cls   int
	rcid  []byte
	flag  bool
	evs   []quic.VerifMgrEvent
	st    quic.VerifMgrState
	draw  int64
}

func (o *mOp) coqOp() string {
	switch o.kind {
	case "add":
		return u.App("MAdd", u.ZU(o.seq), u.ZU(o.rpt), hxs(o.cid), tokNum(o.tok), u.Z(o.draw))
	case "pref":
		return u.App("MAddPref", hxs(o.cid), tokNum(o.tok))
	case "get":
		return u.App("MGet", u.Z(o.draw))
	case "sent":
		return u.App("MSent", u.Z(int64(o.k)))
	case "hs":
		return "MHsDone"
	case "close":
		return "MClose"
	case "chg":
		return u.App("MChangeInit", hxs(o.cid))
	case "settok":
		return u.App("MSetTok", tokNum(o.tok))
	case "pget":
		return u.App("MPathGet", u.Z(o.pid))
	case "pret":
		return u.App("MPathRetire", u.Z(o.pid))
	case "istok":
		return u.App("MIsTok", tokNum(o.tok))
	case "setlimit":
		return u.App("MSetLimit", u.ZU(o.seq))
	}
	panic("bad op " + o.kind)
}

func mevStr(e quic.VerifMgrEvent) string {
	switch e.Kind {
	case 0:
		return u.App("EvRetire", u.ZU(e.Seq))
	case 1:
		return u.App("EvAddTok", tokNum(e.Tok))
	case 2:
		return u.App("EvRemTok", tokNum(e.Tok))
	}
	return "(EvRetire (-9))" // a frame the manager should never queue: shows as a mismatch
}

func (o *mOp) coqObs() string {
	evs := make([]string, len(o.evs))
	for i, e := range o.evs {
		evs[i] = mevStr(e)
	}
	s := o.st
	q := make([]string, len(s.Queue))
	for i, e := range s.Queue {
		q[i] = u.ZU(e.Seq)
	}
	p := make([]string, len(s.Probing))
	for i, e := range s.Probing {
		p[i] = u.Pair(u.Z(s.ProbingPaths[i]), u.ZU(e.Seq))
	}
	d := u.App("MS", u.ZU(s.ActiveSeq), u.ZU(s.HighestRetired), u.ZU(s.HighestProbing), u.List(q), u.List(p),
		u.ZU(uint64(s.Since)), u.ZU(uint64(s.PPC)), u.Opt(s.HasActiveTok, tokNum(s.ActiveTok)), hxs(s.ActiveCID),
		u.B(s.HandshakeComplete), u.B(s.Closed), u.ZU(s.AdvertisedLimit))
	return u.App("MO", u.Z(int64(o.cls)), hxs(o.rcid), u.B(o.flag), u.List(evs), d)
}

func (o *mOp) human() string {
	switch o.kind {
	case "add":
		return fmt.Sprintf("Add(seq=%d,rpt=%d,cid=%x,tok=%x)=>%d", o.seq, o.rpt, o.cid, o.tok[8:], o.cls)
	case "pref":
		return fmt.Sprintf("AddFromPreferredAddress(cid=%x)=>%d", o.cid, o.cls)
	case "get":
		return fmt.Sprintf("Get()=>%x/%d", o.rcid, o.cls)
	case "sent":
		return fmt.Sprintf("SentPacket×%d", o.k)
	case "hs":
		return "SetHandshakeComplete"
	case "close":
		return "Close"
	case "chg":
		return fmt.Sprintf("ChangeInitialConnID(%x)=>%d", o.cid, o.cls)
	case "settok":
		return fmt.Sprintf("SetStatelessResetToken(%x)=>%d", o.tok[8:], o.cls)
	case "pget":
		return fmt.Sprintf("GetConnIDForPath(%d)=>%x,%v/%d", o.pid, o.rcid, o.flag, o.cls)
	case "pret":
		return fmt.Sprintf("RetireConnIDForPath(%d)=>%d", o.pid, o.cls)
	case "istok":
		return fmt.Sprintf("IsActiveStatelessResetToken(%x)=>%v", o.tok[8:], o.flag)
	case "setlimit":
		return fmt.Sprintf("SetConnectionIDLimit(%d)", o.seq)
	}
	return o.kind
}

// mgrSession runs ops on a real manager, records observations and evaluates the monitors.
type mgrSession struct {
	c       *cidRun
	v       *quic.VerifMgr
	initial []byte
	ops     []*mOp
	// shadow of the peer's and the transport's view (model independent)
	recv       map[uint64]int  // sequence number -> number of frames the manager took for it
	retired    map[uint64]int  // sequence number -> RETIRE_CONNECTION_ID frames queued
	contents   map[uint64][]byte // sequence number -> connection ID as first received
	reg        map[[16]byte]bool // reset tokens registered with the transport (set semantics)
	prevHeld   map[uint64]bool
	initCID    []byte
	tainted    bool // a NEW_CONNECTION_ID repeated a sequence number handed to path probing (known finding)
	monOff     bool // the manager was used after Close (never done by the connection)
	closed     bool
	fails      map[string]bool
	nRetire    int
	nRotate    int
	nLimit     int
	nProbe     int
	label      string
	advertised uint64 // what this endpoint told the peer with SetConnectionIDLimit (spec-driven client), else 0
}

// limit: the number of connection IDs the peer may rely on: what we advertised, which is
// MaxActiveConnectionIDs unless a spec-driven client advertised more
func (s *mgrSession) limit() int {
	if s.advertised > maxActive {
		return int(s.advertised)
	}
	return maxActive
}

func (c *cidRun) newMgrSession(initial []byte, label string) *mgrSession {
	s := &mgrSession{c: c, v: quic.VerifNewMgr(initial), initial: initial, label: label,
		recv: map[uint64]int{0: 1}, retired: map[uint64]int{}, contents: map[uint64][]byte{},
		reg: map[[16]byte]bool{}, prevHeld: map[uint64]bool{0: true}, initCID: initial, fails: map[string]bool{}}
	return s
}

func (s *mgrSession) history() string {
	h := make([]string, len(s.ops))
	for i, o := range s.ops {
		h[i] = o.human()
	}
	return fmt.Sprintf("initial=%x; %s", s.initial, strings.Join(h, "; "))
}

func (s *mgrSession) fail(key, desc string) {
	if s.monOff {
		return
	}
	if s.tainted {
		key = "probing-dup/" + key
	}
	if s.fails[key] {
		return
	}
	s.fails[key] = true
	fmt.Fprintf(s.c.w, "MONFAIL\tconnids/%s\t%s\t%s\n", key, desc, s.history())
}

func heldOf(st quic.VerifMgrState) (map[uint64]bool, bool) {
	h := map[uint64]bool{st.ActiveSeq: true}
	dup := false
	for _, e := range st.Queue {
		if h[e.Seq] {
			dup = true
		}
		h[e.Seq] = true
	}
	for _, e := range st.Probing {
		if h[e.Seq] {
			dup = true
		}
		h[e.Seq] = true
	}
	return h, dup
}

func (s *mgrSession) do(o *mOp) *mOp {
	pre := s.v.State()
	v := s.v
	switch o.kind {
	case "add":
		// trigger of the (repaired) finding connids/probing-dup: the frame repeats a sequence
		// number that is in use on a probing path, or equals highestProbingID / the active number
		// while highestProbingID is above the active number. Failures in such a case keep the
		// key prefix probing-dup/ so that a regression is reported under the finding's key.
		for _, e := range pre.Probing {
			if e.Seq == o.seq {
				s.tainted = true
			}
		}
		if pre.ActiveSeq < pre.HighestProbing && (o.seq == pre.HighestProbing || o.seq == pre.ActiveSeq) {
			s.tainted = true
		}
		o.cls = v.Add(o.seq, o.rpt, o.cid, o.tok)
	case "pref":
		o.cls = v.AddFromPreferredAddress(o.cid, o.tok)
	case "get":
		o.rcid, o.cls = v.Get()
	case "sent":
		v.SentPackets(o.k)
	case "hs":
		v.SetHandshakeComplete()
	case "close":
		o.cls = v.Close()
	case "chg":
		o.cls = v.ChangeInitialConnID(o.cid)
	case "settok":
		o.cls = v.SetStatelessResetToken(o.tok)
	case "pget":
		o.rcid, o.flag, o.cls = v.GetConnIDForPath(o.pid)
	case "pret":
		o.cls = v.RetireConnIDForPath(o.pid)
	case "istok":
		o.flag = v.IsActiveStatelessResetToken(o.tok)
	case "setlimit":
		v.SetConnectionIDLimit(o.seq)
		s.advertised = o.seq
	}
	o.evs = v.TakeEvents()
	o.st = v.State()
	o.draw = int64(o.st.PPC) - ppcConst/2
	if o.st.PPC == pre.PPC && o.st.ActiveSeq == pre.ActiveSeq {
		o.draw = 0
	}
	s.ops = append(s.ops, o)
	if pre.Closed && (o.kind == "add" || o.kind == "pref") {
		s.monOff = true
	}
	if o.kind == "add" && o.rpt > o.seq {
		s.monOff = true // Retire Prior To > Sequence Number never passes the frame parser
	}
	s.monitor(pre, o)
	if o.cls == quic.VerifProtoErr || o.cls == quic.VerifLimitErr || o.cls == quic.VerifOtherErr {
		// a frame error closes the connection; what the manager does afterwards is still
		// replayed by the model but is no longer subject of the property
		s.monOff = true
	}
	return o
}

// monitor: the statements of C16 (b), (c), (d) on the implementation's own trace.
func (s *mgrSession) monitor(pre quic.VerifMgrState, o *mOp) {
	st := o.st
	// -- panics: only use-after-close and the two documented "sequence number 0" assertions may panic
	if o.cls == quic.VerifPanic {
		okPanic := pre.Closed && (o.kind == "get" || o.kind == "pget" || o.kind == "pret" || o.kind == "settok" || o.kind == "add") ||
			pre.ActiveSeq != 0 && (o.kind == "chg" || o.kind == "settok")
		if !okPanic {
			s.fail("panic", "connIDManager panicked on a history the connection can produce")
		}
	}
	// -- shadow bookkeeping of receptions
	if o.kind == "add" && (o.cls == quic.VerifOK || o.cls == quic.VerifLimitErr) {
		s.recv[o.seq]++
		if _, ok := s.contents[o.seq]; !ok {
			s.contents[o.seq] = o.cid
		}
	}
	if o.kind == "pref" && o.cls == quic.VerifOK {
		s.recv[1]++
		if _, ok := s.contents[1]; !ok {
			s.contents[1] = o.cid
		}
	}
	if o.kind == "chg" && o.cls == quic.VerifOK {
		s.initCID = o.cid
	}
	// -- events of this op
	retNow := map[uint64]int{}
	for _, e := range o.evs {
		switch e.Kind {
		case 0:
			retNow[e.Seq]++
			s.nRetire++
			if s.recv[e.Seq] == 0 {
				s.fail("retire-unknown", fmt.Sprintf("RETIRE_CONNECTION_ID queued for sequence number %d that was never received", e.Seq))
			}
		case 1:
			if s.reg[e.Tok] {
				s.fail("token-double-add", fmt.Sprintf("reset token %x registered twice", e.Tok[8:]))
			}
			s.reg[e.Tok] = true
		case 2:
			if !s.reg[e.Tok] {
				s.fail("token-remove-unregistered", fmt.Sprintf("reset token %x removed but not registered", e.Tok[8:]))
			}
			delete(s.reg, e.Tok)
		default:
			s.fail("foreign-frame", "manager queued a frame that is not RETIRE_CONNECTION_ID")
		}
	}
	held, dup := heldOf(st)
	if dup {
		s.fail("held-twice", "a sequence number is held twice among active / queue / path probing")
	}
	// (c) every sequence number that left the sets has exactly one RETIRE queued, at that moment
	for q := range s.prevHeld {
		if !held[q] {
			switch retNow[q] {
			case 1:
			case 0:
				s.fail("retire-missing", fmt.Sprintf("sequence number %d left the manager without RETIRE_CONNECTION_ID", q))
			default:
				s.fail("retire-twice", fmt.Sprintf("sequence number %d retired with %d RETIRE_CONNECTION_ID frames", q, retNow[q]))
			}
		}
	}
	for q := range held {
		if retNow[q] > 0 {
			s.fail("retire-while-in-use", fmt.Sprintf("RETIRE_CONNECTION_ID queued for sequence number %d which stays in use", q))
		}
		if !s.prevHeld[q] && s.retired[q] > 0 {
			s.fail("reuse-after-retire", fmt.Sprintf("sequence number %d taken into use after it was reported retired", q))
		}
	}
	// a received frame is either tracked or answered with RETIRE right away
	if o.kind == "add" && (o.cls == quic.VerifOK || o.cls == quic.VerifLimitErr) && !held[o.seq] && retNow[o.seq] != 1 {
		s.fail("received-not-tracked", fmt.Sprintf("sequence number %d neither kept nor retired (%d RETIRE frames)", o.seq, retNow[o.seq]))
	}
	for q, k := range retNow {
		s.retired[q] += k
		if s.retired[q] > s.recv[q] {
			s.fail("retire-excess", fmt.Sprintf("%d RETIRE_CONNECTION_ID frames for sequence number %d received %d times", s.retired[q], q, s.recv[q]))
		}
	}
	s.prevHeld = held
	// Retire Prior To honoured: after a frame that was taken (not answered with RETIRE for
	// itself), nothing below its Retire Prior To is still held
	// (a frame that repeats the number of an ID in use on a probing path is a duplicate and is
	// ignored as a whole, like a reordered frame; its Retire Prior To came with the first copy)
	probingDup := false
	for _, e := range pre.Probing {
		if e.Seq == o.seq {
			probingDup = true
		}
	}
	if o.kind == "add" && !probingDup && (o.cls == quic.VerifOK || o.cls == quic.VerifLimitErr) && (held[o.seq] || retNow[o.seq] == 0) {
		for q := range held {
			if q < o.rpt {
				s.fail("rpt-not-honoured", fmt.Sprintf("sequence number %d still held after Retire Prior To %d", q, o.rpt))
			}
		}
	}
	// conflicting contents for a queued or probing sequence number must be refused
	if o.kind == "add" {
		for _, e := range append(append([]quic.VerifNCID{}, pre.Queue...), pre.Probing...) {
			if e.Seq == o.seq && (!bytes.Equal(e.CID, o.cid) || e.Tok != o.tok) && o.cls != quic.VerifOtherErr && len(pre.ActiveCID) != 0 {
				s.fail("conflict-accepted", fmt.Sprintf("conflicting contents for queued sequence number %d gave class %d", o.seq, o.cls))
			}
		}
	}
	// (b) limit honoured as advertised: refuse only if the peer really exceeded, accept only within
	if o.kind == "add" {
		peerActive := 0
		for q := range s.recv {
			if s.retired[q] == 0 {
				peerActive++
			}
		}
		if o.cls == quic.VerifLimitErr {
			s.nLimit++
			if !s.recv0(o) && peerActive <= s.limit() {
				s.fail("refused-within-limit", fmt.Sprintf("CONNECTION_ID_LIMIT_ERROR although the peer has only %d active IDs (advertised limit %d)", peerActive, s.limit()))
			}
		}
		if o.cls == quic.VerifOK && 1+len(st.Queue) > s.limit() {
			s.fail("accepted-beyond-limit", fmt.Sprintf("frame accepted with %d IDs stored (advertised limit %d)", 1+len(st.Queue), s.limit()))
		}
	}
	// (d) tokens registered == tokens of the IDs in use; nothing left after Close
	if o.kind == "close" && o.cls == quic.VerifOK {
		s.closed = true
	}
	if s.closed {
		if len(s.reg) != 0 {
			s.fail("token-leak-after-close", fmt.Sprintf("%d reset tokens still registered after Close", len(s.reg)))
		}
	} else {
		want := map[[16]byte]bool{}
		if st.HasActiveTok {
			want[st.ActiveTok] = true
		}
		for _, e := range st.Probing {
			want[e.Tok] = true
		}
		if len(want) != len(s.reg) {
			s.fail("tokens-mismatch", fmt.Sprintf("%d tokens registered, %d connection IDs with a token in use", len(s.reg), len(want)))
		} else {
			for t := range want {
				if !s.reg[t] {
					s.fail("tokens-mismatch", fmt.Sprintf("token %x of an ID in use is not registered", t[8:]))
				}
			}
		}
		if o.kind == "istok" && o.flag != s.reg[o.tok] {
			s.fail("istoken-mismatch", fmt.Sprintf("IsActiveStatelessResetToken(%x)=%v but registered=%v", o.tok[8:], o.flag, s.reg[o.tok]))
		}
	}
	// Get / rotation
	if o.kind == "get" && o.cls == quic.VerifOK {
		if !bytes.Equal(o.rcid, st.ActiveCID) {
			s.fail("get-cid", "Get returned something else than the active connection ID")
		}
		want := s.initCID
		if st.ActiveSeq != 0 {
			want = s.contents[st.ActiveSeq]
		}
		if !bytes.Equal(o.rcid, want) {
			s.fail("active-cid-mismatch", fmt.Sprintf("active sequence number %d but connection ID %x (peer sent %x)", st.ActiveSeq, o.rcid, want))
		}
	}
	if st.ActiveSeq != pre.ActiveSeq {
		s.nRotate++
		if st.PPC < ppcConst/2 || st.PPC >= ppcConst/2+ppcConst {
			s.fail("ppc-range", fmt.Sprintf("packetsPerConnectionID %d outside [%d,%d)", st.PPC, ppcConst/2, ppcConst/2+ppcConst))
		}
	}
	if len(st.Probing) > 0 {
		s.nProbe++
	}
}

// recv0: zero-length IDs in use (every frame is refused with PROTOCOL_VIOLATION, never LIMIT)
func (s *mgrSession) recv0(o *mOp) bool { return len(s.initCID) == 0 }

func (s *mgrSession) emit() {
	items := make([]string, len(s.ops))
	for i, o := range s.ops {
		items[i] = u.Pair(o.coqOp(), o.coqObs())
	}
	nt := 0
	if s.nRetire > 0 && s.nRotate > 0 {
		nt = 1
	}
	fmt.Fprintf(s.c.w, "CASE %d %s\n", nt, u.App("MgrCase", hxs(s.initial), u.List(items)))
	d := s.c.dist
	d["mgr/cases"]++
	d["mgr/ops"] += len(s.ops)
	d["mgr/retire-events"] += s.nRetire
	d["mgr/rotations"] += s.nRotate
	d["mgr/limit-errors"] += s.nLimit
	if s.nProbe > 0 {
		d["mgr/cases-with-probing"]++
	}
	if s.tainted {
		d["mgr/cases-probing-dup"]++
	}
	if len(s.initial) == 0 {
		d["mgr/cases-zero-length"]++
	}
	if s.c.samples < 2 && nt == 1 && len(s.ops) <= 14 {
		s.c.samples++
		fmt.Fprintf(s.c.w, "SAMPLE\tmgr %s\n", s.history())
	}
}

func cidFor(base uint64, seq uint64, variant int) []byte {
	l := 4 + int((base+seq)%5)
	b := make([]byte, l)
	x := base*0x9E3779B97F4A7C15 + seq*0xBF58476D1CE4E5B9 + uint64(variant)*0x94D049BB133111EB
	for i := range b {
		x ^= x >> 29
		x *= 0xBF58476D1CE4E5B9
		b[i] = byte(x >> 32)
	}
	b[0] = byte(seq) // readable
	return b
}

// mgrWitnesses: scripted histories. W1-W3b are the witnesses of the repaired finding (a repeated
// NEW_CONNECTION_ID for a sequence number handed to path probing); W4-W6 are plain
// boundary histories (limit, Retire Prior To jump, reordering).
func (c *cidRun) mgrWitnesses() {
	add := func(seq, rpt uint64) *mOp {
		return &mOp{kind: "add", seq: seq, rpt: rpt, cid: cidFor(7, seq, 0), tok: tokOf(1000 + seq)}
	}
	init := []byte{0xde, 0xad, 0xbe, 0xef}
	// W1: duplicate of an ID that is in use on a probing path, after the active ID moved on
	s := c.newMgrSession(init, "W1")
	s.do(add(1, 0)); s.do(add(2, 0)); s.do(add(3, 0))
	s.do(&mOp{kind: "pget", pid: 1})
	s.do(&mOp{kind: "hs"}); s.do(&mOp{kind: "get"})
	s.do(add(1, 0)) // retransmitted frame: RETIRE(1) although path 1 still uses it
	s.do(&mOp{kind: "pret", pid: 1})
	s.emit()
	// W2: duplicate of highestProbingID while it is in use: the ID enters the queue again
	s = c.newMgrSession(init, "W2")
	s.do(add(1, 0)); s.do(add(2, 0))
	s.do(&mOp{kind: "pget", pid: 1})
	s.do(add(1, 0))
	s.do(&mOp{kind: "hs"}); s.do(&mOp{kind: "get"})
	s.do(&mOp{kind: "pret", pid: 1})
	s.emit()
	// W3: probing ID retired, its NEW_CONNECTION_ID is retransmitted: it is queued again and becomes active
	s = c.newMgrSession(init, "W3")
	s.do(add(1, 0)); s.do(add(2, 0))
	s.do(&mOp{kind: "pget", pid: 1})
	s.do(&mOp{kind: "pret", pid: 1})
	s.do(add(1, 0))
	s.do(&mOp{kind: "hs"}); s.do(&mOp{kind: "get"})
	s.emit()
	// W3b: the active ID's frame is retransmitted while highestProbingID is above it: RETIRE for the active ID
	s = c.newMgrSession(init, "W3b")
	s.do(add(1, 0)); s.do(add(2, 0)); s.do(add(3, 0))
	s.do(&mOp{kind: "hs"}); s.do(&mOp{kind: "get"})
	s.do(&mOp{kind: "pget", pid: 1})
	s.do(add(1, 0))
	s.emit()
	// W7: Retire Prior To not above highestRetired still retires an older probing ID
	s = c.newMgrSession(init, "W7")
	s.do(add(1, 0)); s.do(add(2, 0)); s.do(add(3, 0))
	s.do(&mOp{kind: "pget", pid: 1})
	s.do(&mOp{kind: "hs"}); s.do(&mOp{kind: "get"})
	s.do(add(4, 0)); s.do(add(5, 0))
	s.do(&mOp{kind: "sent", k: 16000}); s.do(&mOp{kind: "get"})
	s.do(add(6, 2))
	s.do(&mOp{kind: "close"})
	s.emit()
	// W10: an ID is in use on a probing path, the active ID rotates past it twice (highestRetired
	// ends above the probing ID's number), then the path is given up: RETIRE_CONNECTION_ID and the
	// removal of its reset token are still due; nothing may be left after Close
	for _, closeFirst := range []bool{false, true} {
		s = c.newMgrSession(init, "W10")
		s.do(&mOp{kind: "settok", tok: tokOf(998)})
		s.do(add(1, 0)); s.do(add(2, 0)); s.do(add(3, 0))
		s.do(&mOp{kind: "pget", pid: 1})
		s.do(&mOp{kind: "hs"}); s.do(&mOp{kind: "get"})
		s.do(add(4, 0)); s.do(add(5, 0))
		s.do(&mOp{kind: "sent", k: 16000}); s.do(&mOp{kind: "get"})
		if !closeFirst {
			s.do(&mOp{kind: "pret", pid: 1})
			s.do(&mOp{kind: "istok", tok: tokOf(1001)})
		}
		s.do(&mOp{kind: "close"})
		s.emit()
	}
	// W11 (observation, not a finding of C16): IDs handed to path probing are not counted by Add's
	// limit check, so the manager can hold more IDs than it advertised - generous, never stricter
	s = c.newMgrSession(init, "W11")
	s.do(add(1, 0)); s.do(add(2, 0)); s.do(add(3, 0))
	for p := int64(1); p <= 3; p++ {
		s.do(&mOp{kind: "pget", pid: p})
	}
	s.do(add(4, 0)); s.do(add(5, 0))
	last6 := s.do(add(6, 0))
	if st := s.v.State(); last6.cls == quic.VerifOK && 1+len(st.Queue)+len(st.Probing) > maxActive {
		fmt.Fprintf(c.w, "INFO\tobservation: with 3 probing paths the manager holds %d connection IDs of the peer while advertising active_connection_id_limit %d (Add counts len(queue) only; RFC 9000 5.1.1 counts all active IDs)\n",
			1+len(st.Queue)+len(st.Probing), maxActive)
	}
	s.emit()
	// W4: exactly the limit is accepted, one more is refused
	s = c.newMgrSession(init, "W4")
	for q := uint64(1); q <= maxActive; q++ {
		s.do(add(q, 0))
	}
	s.emit()
	// W5: Retire Prior To jump over queue and active ID, then late frames
	s = c.newMgrSession(init, "W5")
	s.do(&mOp{kind: "settok", tok: tokOf(999)})
	s.do(add(1, 0)); s.do(add(2, 0)); s.do(add(3, 0))
	s.do(add(5, 4))
	s.do(add(4, 4)); s.do(add(2, 0)); s.do(add(6, 4)); s.do(add(7, 5))
	s.do(&mOp{kind: "close"})
	s.emit()
	// W8: a spec-driven client that advertised 8: exactly 8 IDs are accepted, the 9th is refused
	s = c.newMgrSession(init, "W8")
	s.do(&mOp{kind: "setlimit", seq: 8})
	for q := uint64(1); q <= 8; q++ {
		s.do(add(q, 0))
	}
	s.emit()
	// W9: an advertised limit below MaxActiveConnectionIDs does not lower what is stored
	s = c.newMgrSession(init, "W9")
	s.do(&mOp{kind: "setlimit", seq: 2})
	for q := uint64(1); q <= maxActive; q++ {
		s.do(add(q, 0))
	}
	s.emit()
	// W6: zero-length connection IDs
	s = c.newMgrSession(nil, "W6")
	s.do(add(1, 0)); s.do(&mOp{kind: "pget", pid: 1}); s.do(&mOp{kind: "pret", pid: 1}); s.do(&mOp{kind: "get"}); s.do(&mOp{kind: "close"})
	s.emit()
}

// mgrProbeRotateCase: GetConnIDForPath, then the active ID rotates past the probing ID (first
// rotation after handshake completion, further ones after packetsPerConnectionID packets with a
// half-full queue, or forced by Retire Prior To), then RetireConnIDForPath, then Close.
func (c *cidRun) mgrProbeRotateCase(r *u.Rng, idx int) {
	s := c.newMgrSession(r.Bytes(r.Range(4, 8)), fmt.Sprintf("p%d", idx))
	base := 2000 + r.U64()%1000
	next := uint64(1)
	add := func(rpt uint64) {
		s.do(&mOp{kind: "add", seq: next, rpt: rpt, cid: cidFor(base, next, 0), tok: tokOf(base*1000000 + next*10)})
		next++
	}
	if r.Bool() {
		s.do(&mOp{kind: "settok", tok: tokOf(base*1000000 + 5)})
	}
	for i := r.Range(2, 3); i > 0; i-- {
		add(0)
	}
	paths := r.Range(1, 2)
	for p := 1; p <= paths; p++ {
		s.do(&mOp{kind: "pget", pid: int64(p)})
		if r.Bool() {
			add(0)
		}
	}
	s.do(&mOp{kind: "hs"})
	s.do(&mOp{kind: "get"}) // first rotation
	for rot := r.Range(1, 3); rot > 0; rot-- {
		for len(s.v.State().Queue) < 2 && 1+len(s.v.State().Queue) < s.limit() {
			add(0)
		}
		st := s.v.State()
		if r.Chance(1, 4) && len(st.Queue) > 0 {
			// rotation forced by the peer: Retire Prior To just above the active number (probing IDs
			// below it are retired by the frame itself)
			add(st.ActiveSeq + 1)
		} else {
			s.do(&mOp{kind: "sent", k: int(st.PPC-st.Since) + r.Intn(3)})
			s.do(&mOp{kind: "get"})
		}
		if r.Chance(1, 3) {
			s.do(&mOp{kind: "istok", tok: tokOf(base*1000000 + 10)})
		}
	}
	for p := 1; p <= paths; p++ {
		if r.Chance(4, 5) {
			s.do(&mOp{kind: "pret", pid: int64(p)})
		}
	}
	if r.Bool() {
		s.do(&mOp{kind: "get"})
	}
	s.do(&mOp{kind: "close"})
	s.c.dist["mgr/cases-probe-rotate-retire"]++
	s.emit()
}

func (c *cidRun) mgrCase(r *u.Rng, idx int) {
	if idx%12 == 5 {
		c.mgrProbeRotateCase(r, idx)
		return
	}
	var initial []byte
	if !r.Chance(1, 12) {
		initial = r.Bytes(r.Range(4, 8))
	}
	s := c.newMgrSession(initial, fmt.Sprintf("m%d", idx))
	base := r.U64() % 1000
	probing := r.Chance(3, 10)
	aggressive := r.Chance(1, 4) // the peer ignores the limit
	dupOK := true
	if probing && r.Chance(1, 2) {
		dupOK = false // probing without retransmissions
	}
	nextSeq := uint64(1)
	var delayed []uint64 // skipped sequence numbers, delivered later
	sent := []uint64{}
	rptMax := uint64(0)
	nops := r.Range(6, 36)
	hs := false
	closed := false
	tokSet := false
	if r.Chance(1, 4) { // spec-driven client: the advertised active_connection_id_limit
		s.do(&mOp{kind: "setlimit", seq: uint64(r.Pick(0, 2, 3, 4, 5, 6, 8, 8, 8))})
	}
	peerActive := func() int {
		k := 0
		for q := range s.recv {
			if s.retired[q] == 0 {
				k++
			}
		}
		return k
	}
	firstRPT := map[uint64]uint64{} // Retire Prior To of the first transmission of each number
	mkAdd := func(seq uint64, variant int) *mOp {
		rpt := uint64(0)
		switch x := r.Intn(20); {
		case x < 11:
		case x < 14:
			rpt = rptMax
		case x < 18:
			if seq > rptMax {
				rpt = rptMax + 1 + uint64(r.Intn(int(seq-rptMax)))
			}
		case x < 19:
			rpt = seq
		default:
			if r.Chance(1, 3) {
				rpt = seq + 1 // not producible by the frame parser; the manager is still total
			}
		}
		if rpt > rptMax && rpt <= seq {
			rptMax = rpt
		}
		tv := uint64(variant)
		if _, ok := firstRPT[seq]; !ok {
			firstRPT[seq] = rpt
		}
		return &mOp{kind: "add", seq: seq, rpt: rpt, cid: cidFor(base, seq, variant&1), tok: tokOf(base*1000000 + seq*10 + tv/2)}
	}
	for i := 0; i < nops; i++ {
		if closed {
			// the connection never touches the manager after Close; a few calls to pin the panics
			switch r.Intn(8) {
			case 0:
				s.do(&mOp{kind: "get"})
			case 1:
				s.do(&mOp{kind: "pget", pid: 1})
			case 2:
				s.do(&mOp{kind: "istok", tok: tokOf(base*1000000 + uint64(r.Intn(int(nextSeq)+1))*10)})
			case 3:
				s.do(&mOp{kind: "sent", k: 3})
			case 4:
				if r.Chance(1, 3) {
					s.do(mkAdd(nextSeq, 0))
					nextSeq++
				}
			case 5:
				s.do(&mOp{kind: "pret", pid: 1})
			}
			if r.Chance(1, 2) {
				break
			}
			continue
		}
		x := r.Intn(100)
		if probing && r.Chance(1, 6) {
			x = 86 + r.Intn(9) // more path probing in the cases that use it
		}
		switch {
		case x < 30: // fresh, in order
			if !aggressive && peerActive() >= s.limit() && r.Chance(9, 10) {
				// an honest peer first makes room with Retire Prior To
				o := mkAdd(nextSeq, 0)
				if o.rpt <= rptMax || o.rpt > o.seq {
					// smallest Retire Prior To that brings the peer's own count back within the limit
					o.rpt = s.smallestUnretired() + 1
					if o.rpt > o.seq {
						o.rpt = o.seq
					}
					if o.rpt > rptMax {
						rptMax = o.rpt
					}
				}
				s.do(o)
			} else {
				s.do(mkAdd(nextSeq, 0))
			}
			sent = append(sent, nextSeq)
			nextSeq++
		case x < 38: // gap: skip one or two numbers, deliver them later
			k := uint64(r.Range(1, 2))
			for j := uint64(0); j < k; j++ {
				delayed = append(delayed, nextSeq+j)
			}
			nextSeq += k
			s.do(mkAdd(nextSeq, 0))
			sent = append(sent, nextSeq)
			nextSeq++
		case x < 48: // reordered delivery
			if len(delayed) > 0 {
				j := r.Intn(len(delayed))
				q := delayed[j]
				delayed = append(delayed[:j], delayed[j+1:]...)
				s.do(mkAdd(q, 0))
				sent = append(sent, q)
			}
		case x < 58: // retransmission (same contents; mostly the identical frame, sometimes a new Retire Prior To)
			if len(sent) > 0 && dupOK {
				o := mkAdd(sent[r.Intn(len(sent))], 0)
				if first, ok := firstRPT[o.seq]; ok && r.Chance(4, 5) {
					o.rpt = first
				}
				s.do(o)
			}
		case x < 61: // conflicting contents for a known sequence number
			if len(sent) > 0 && dupOK {
				s.do(mkAdd(sent[r.Intn(len(sent))], 1+r.Intn(3)))
			}
		case x < 76:
			s.do(&mOp{kind: "get"})
		case x < 82:
			st := s.v.State()
			k := r.Range(0, 5)
			if hs && r.Chance(2, 3) && st.PPC > st.Since {
				k = int(st.PPC-st.Since) - 1 + r.Intn(3) // just below / at / above the rotation threshold
			} else if r.Chance(1, 6) {
				k = r.Range(4000, 16000)
			}
			if k < 0 {
				k = 0
			}
			s.do(&mOp{kind: "sent", k: k})
		case x < 86:
			if !hs || r.Chance(1, 5) {
				s.do(&mOp{kind: "hs"})
				hs = true
			}
		case x < 91:
			if probing {
				s.do(&mOp{kind: "pget", pid: int64(r.Range(1, 3))})
			} else if !tokSet && s.v.State().ActiveSeq == 0 {
				s.do(&mOp{kind: "settok", tok: tokOf(base*1000000 + 5)})
				tokSet = true
			}
		case x < 95:
			if probing {
				s.do(&mOp{kind: "pret", pid: int64(r.Range(1, 3))})
			} else {
				s.do(&mOp{kind: "istok", tok: tokOf(base*1000000 + uint64(r.Intn(int(nextSeq)+1))*10)})
			}
		case x < 96:
			if s.v.State().ActiveSeq == 0 || r.Chance(1, 4) {
				s.do(&mOp{kind: "chg", cid: r.Bytes(r.Range(4, 8))})
			}
		case x < 97:
			if nextSeq == 1 && len(delayed) == 0 {
				s.do(&mOp{kind: "pref", cid: cidFor(base, 1, 0), tok: tokOf(base*1000000 + 10)})
				sent = append(sent, 1)
				nextSeq = 2
			}
		case x < 98:
			s.do(&mOp{kind: "setlimit", seq: uint64(r.Range(0, 16))})
		case x < 99:
			if tokSet || s.v.State().ActiveSeq != 0 {
				if r.Chance(1, 3) && s.v.State().ActiveSeq != 0 {
					s.do(&mOp{kind: "settok", tok: tokOf(base*1000000 + 6)}) // panics: sequence number != 0
				}
			}
		default:
			s.do(&mOp{kind: "close"})
			closed = true
		}
		if len(s.ops) > 0 {
			last := s.ops[len(s.ops)-1]
			if (last.cls == quic.VerifLimitErr || last.cls == quic.VerifOtherErr || last.cls == quic.VerifProtoErr) && r.Chance(7, 10) {
				break // the connection closes on a frame error
			}
		}
	}
	if !closed && r.Chance(2, 3) {
		s.do(&mOp{kind: "close"})
	}
	s.emit()
}

func (s *mgrSession) smallestUnretired() uint64 {
	first := true
	var m uint64
	for q := range s.recv {
		if s.retired[q] == 0 && (first || q < m) {
			m, first = q, false
		}
	}
	return m
}

// ---------------------------------------------------------------------------------
// generator
// ---------------------------------------------------------------------------------

type gOp struct {
	kind    string // setmax retire hs remove removeall replace
	limit   uint64
	seq     uint64
	sent    []byte
	t       int64
	local   bool
	script  [][]byte
	used    int
	cls     int
	evs     []quic.VerifGenEvent
	evs2    []quic.VerifGenEvent // callbacks to the second runner (AddConnRunner)
	routes  []quic.VerifRoute     // integrated cases: the real packetHandlerMap after the operation
	st      quic.VerifGenState
}

func optCID(b []byte) string {
	if b == nil {
		return "None"
	}
	return "(Some " + hxs(b) + ")"
}

func (o *gOp) oracle() string {
	xs := make([]string, 0, o.used)
	for i := 0; i < o.used && i < len(o.script); i++ {
		xs = append(xs, optCID(o.script[i]))
	}
	return u.List(xs)
}

func (o *gOp) coqOp() string {
	switch o.kind {
	case "setmax":
		return u.App("GSetMax", u.ZU(o.limit), o.oracle())
	case "retire":
		return u.App("GRetire", u.ZU(o.seq), hxs(o.sent), u.Z(o.t), o.oracle())
	case "hs":
		return u.App("GHsDone", u.Z(o.t))
	case "remove":
		return u.App("GRemoveRetired", u.Z(o.t))
	case "removeall":
		return "GRemoveAll"
	case "replace":
		return u.App("GReplaceClosed", u.B(o.local), u.Z(o.t))
	case "addrunner":
		return "GAddRunner"
	}
	panic("bad gop")
}

func (o *gOp) coqObs() string {
	evs := make([]string, len(o.evs))
	for i, e := range o.evs {
		switch e.Kind {
		case 0:
			evs[i] = u.App("GAdd", hxs(e.CID))
		case 1:
			evs[i] = u.App("GRem", hxs(e.CID))
		case 2:
			evs[i] = u.App("GFrame", u.ZU(e.Seq), hxs(e.CID))
		case 3:
			ids := make([]string, len(e.IDs))
			for j, id := range e.IDs {
				ids[j] = hxs(id)
			}
			evs[i] = u.App("GReplace", u.List(ids), u.B(e.Local), u.Z(e.Aux))
		default:
			evs[i] = "(GFrame (-9) [])"
		}
	}
	s := o.st
	act := make([]string, len(s.ActiveSeqs))
	for i := range s.ActiveSeqs {
		act[i] = u.Pair(u.ZU(s.ActiveSeqs[i]), hxs(s.ActiveCIDs[i]))
	}
	ret := make([]string, len(s.RetireTimes))
	for i := range s.RetireTimes {
		ret[i] = u.Pair(u.Z(s.RetireTimes[i]), hxs(s.RetireCIDs[i]))
	}
	ini := "None"
	if s.HasInitial {
		ini = "(Some " + hxs(s.InitialClient) + ")"
	}
	return u.App("GO", u.Z(int64(o.cls)), u.List(evs), u.App("GS", u.ZU(s.HighestSeq), u.List(act), u.List(ret), ini, u.Opt(s.HasNextRetire, u.Z(s.NextRetire))))
}

// coqObsNoEvents: the generator's observation for an operation that does not touch it (time passing)
func (o *gOp) coqObsNoEvents() string {
	c := *o
	c.cls, c.evs = 0, nil
	return c.coqObs()
}

func (o *gOp) human() string {
	switch o.kind {
	case "setmax":
		return fmt.Sprintf("SetMaxActiveConnIDs(%d)=>%d", o.limit, o.cls)
	case "retire":
		return fmt.Sprintf("Retire(seq=%d,sentWith=%x,expiry=%d)=>%d", o.seq, o.sent, o.t, o.cls)
	case "hs":
		return fmt.Sprintf("SetHandshakeComplete(%d)", o.t)
	case "remove":
		return fmt.Sprintf("RemoveRetiredConnIDs(%d)", o.t)
	case "removeall":
		return "RemoveAll"
	case "replace":
		return fmt.Sprintf("ReplaceWithClosed(local=%v,%d)", o.local, o.t)
	case "addrunner":
		return "AddConnRunner(second transport)"
	}
	return o.kind
}

type pendingID struct {
	cid    string
	expiry int64
}

type genSession struct {
	c        *cidRun
	v        *quic.VerifGen
	rt       *quic.VerifRouting // real routing table driven by the generator's callbacks (integrated cases)
	final    []quic.VerifRoute  // integrated cases: the map after the closing period
	finalD   int64
	has2     bool               // a second runner was added
	routed2  map[string]bool    // what the second runner routes
	ops      []*gOp
	initial  []byte
	client   []byte
	hasCli   bool
	len0     bool
	// shadow: what the peer and the transport can see
	issued   map[uint64][]byte // sequence number -> connection ID (0 = initial)
	retired  map[uint64]bool
	highest  uint64
	limitMax uint64
	limitSet bool
	routed   map[string]bool // IDs the runner routes to this connection
	expect   map[string]bool // IDs that should be routed: unretired, retired-but-unexpired, client's original destination ID
	pending  []pendingID
	hsDone   bool
	fails    map[string]bool
	nRetire  int
	nRemoved int
}

func (c *cidRun) newGenSession(initial, client []byte, hasCli bool, connLen int, routed bool) *genSession {
	v := quic.VerifNewGen(initial, client, hasCli, connLen)
	var rt *quic.VerifRouting
	if routed { // the generator drives a real packetHandlerMap (needs a synctest bubble for the timers)
		v, rt = quic.VerifNewGenRouted(initial, client, hasCli, connLen)
	}
	s := &genSession{c: c, v: v, rt: rt, initial: initial, client: client, hasCli: hasCli,
		len0: connLen == 0, issued: map[uint64][]byte{0: initial}, retired: map[uint64]bool{}, routed: map[string]bool{},
		expect: map[string]bool{}, fails: map[string]bool{}}
	s.routed[string(initial)] = true
	s.expect[string(initial)] = true
	if hasCli {
		s.routed[string(client)] = true
		s.expect[string(client)] = true
	}
	return s
}

func (s *genSession) history() string {
	h := make([]string, len(s.ops))
	for i, o := range s.ops {
		h[i] = o.human()
	}
	cl := "-"
	if s.hasCli {
		cl = fmt.Sprintf("%x", s.client)
	}
	return fmt.Sprintf("initial=%x clientDest=%s; %s", s.initial, cl, strings.Join(h, "; "))
}

func (s *genSession) fail(key, desc string) {
	if s.fails[key] {
		return
	}
	s.fails[key] = true
	fmt.Fprintf(s.c.w, "MONFAIL\tconnids/gen/%s\t%s\t%s\n", key, desc, s.history())
}

func (s *genSession) do(o *gOp) *gOp {
	v := s.v
	v.Script(o.script)
	switch o.kind {
	case "setmax":
		o.cls = v.SetMaxActiveConnIDs(o.limit)
	case "retire":
		o.cls = v.Retire(o.seq, o.sent, o.t)
	case "hs":
		o.cls = v.SetHandshakeComplete(o.t)
	case "remove":
		o.cls = v.RemoveRetiredConnIDs(o.t)
	case "removeall":
		o.cls = v.RemoveAll()
	case "replace":
		o.cls = v.ReplaceWithClosed(o.local, o.t)
	case "addrunner":
		o.cls = v.AddRunner()
	}
	o.used = v.Consumed()
	o.evs = v.TakeEvents()
	o.evs2 = v.TakeEvents2()
	if s.rt != nil {
		synctest.Wait()
		o.routes, _, _ = s.rt.Snapshot()
	}
	o.st = v.State()
	s.ops = append(s.ops, o)
	s.monitor(o)
	return o
}

func (s *genSession) monitor(o *gOp) {
	if o.cls == quic.VerifPanic {
		s.fail("panic", "connIDGenerator panicked")
		return
	}
	// expectations of the peer for a RETIRE_CONNECTION_ID frame, before looking at the events
	if o.kind == "retire" {
		cidOf, isIssued := s.issued[o.seq]
		switch {
		case o.seq > s.highest:
			if o.cls != quic.VerifProtoErr {
				s.fail("retire-unissued-accepted", fmt.Sprintf("RETIRE_CONNECTION_ID for never issued sequence number %d gave class %d", o.seq, o.cls))
			}
		case isIssued && !s.retired[o.seq] && bytes.Equal(cidOf, o.sent):
			if o.cls != quic.VerifProtoErr {
				s.fail("retire-in-use-accepted", fmt.Sprintf("retiring the ID the packet was sent to gave class %d", o.cls))
			}
		case s.retired[o.seq]:
			if o.cls != quic.VerifOK || len(o.evs) != 0 {
				s.fail("retire-dup-not-ignored", fmt.Sprintf("duplicate RETIRE_CONNECTION_ID for %d: class %d, %d callbacks", o.seq, o.cls, len(o.evs)))
			}
		default:
			if o.cls == quic.VerifProtoErr {
				s.fail("retire-valid-refused", fmt.Sprintf("valid RETIRE_CONNECTION_ID for %d refused", o.seq))
			} else {
				s.retired[o.seq] = true
				s.nRetire++
				s.pending = append(s.pending, pendingID{string(cidOf), o.t})
			}
		}
	}
	if o.kind == "setmax" {
		if !s.limitSet || o.limit > s.limitMax {
			s.limitMax = o.limit
		}
		s.limitSet = true
	}
	if o.kind == "hs" && s.hasCli && !s.hsDone {
		s.hsDone = true
		s.pending = append(s.pending, pendingID{string(s.client), o.t})
	}
	if o.kind == "remove" {
		keep := s.pending[:0]
		for _, p := range s.pending {
			if p.expiry <= o.t {
				delete(s.expect, p.cid)
				s.nRemoved++
			} else {
				keep = append(keep, p)
			}
		}
		s.pending = keep
	}
	addedNow := map[string]bool{}
	nReplace := 0
	for _, e := range o.evs {
		switch e.Kind {
		case 0:
			k := string(e.CID)
			if s.routed[k] {
				s.fail("route-double-add", fmt.Sprintf("connection ID %x added to the runner twice", e.CID))
			}
			s.routed[k] = true
			addedNow[k] = true
		case 1:
			k := string(e.CID)
			if !s.routed[k] {
				s.fail("route-remove-unknown", fmt.Sprintf("connection ID %x removed from the runner but not routed", e.CID))
			}
			delete(s.routed, k)
		case 2:
			if e.Seq != s.highest+1 {
				s.fail("frame-seq", fmt.Sprintf("NEW_CONNECTION_ID with sequence number %d after %d", e.Seq, s.highest))
			}
			s.highest = e.Seq
			s.issued[e.Seq] = e.CID
			s.expect[string(e.CID)] = true
			if !addedNow[string(e.CID)] {
				s.fail("frame-not-routed", fmt.Sprintf("NEW_CONNECTION_ID %d issued before the ID is routed", e.Seq))
			}
			if e.Tok != s.v.Token(e.CID) {
				s.fail("frame-token", fmt.Sprintf("NEW_CONNECTION_ID %d carries a token that is not the resetter's", e.Seq))
			}
			if e.Aux != 0 {
				s.fail("frame-rpt", "NEW_CONNECTION_ID with non-zero Retire Prior To")
			}
		case 3:
			nReplace++
			got := map[string]bool{}
			for _, id := range e.IDs {
				if got[string(id)] {
					s.fail("replace-mismatch", fmt.Sprintf("ReplaceWithClosed lists %x twice", id))
				}
				got[string(id)] = true
			}
			if !sameSet(got, s.routed) {
				s.fail("replace-mismatch", fmt.Sprintf("ReplaceWithClosed covers %d IDs, %d are routed", len(got), len(s.routed)))
			}
			if e.Local != o.local || e.Aux != o.t {
				s.fail("replace-args", "ReplaceWithClosed forwarded other arguments")
			}
		default:
			s.fail("foreign-frame", "generator queued a frame that is not NEW_CONNECTION_ID")
		}
	}
	// (a) issued and not retired <= the peer's limit (at least the initial one), and <= our own cap
	unret := 0
	for q := range s.issued {
		if !s.retired[q] {
			unret++
		}
	}
	lim := uint64(1)
	if s.limitSet && s.limitMax > 1 {
		lim = s.limitMax
	}
	if uint64(unret) > lim {
		s.fail("over-peer-limit", fmt.Sprintf("%d connection IDs issued and not retired, peer's active_connection_id_limit %d", unret, lim))
	}
	if unret > maxIssued {
		s.fail("over-cap", fmt.Sprintf("%d connection IDs issued and not retired, MaxIssuedConnectionIDs %d", unret, maxIssued))
	}
	// AddConnRunner: the second transport learns the client's original destination ID (while it is
	// still kept) and the active IDs, then sees every callback the first runner sees
	if o.kind == "addrunner" {
		if !s.has2 {
			s.has2 = true
			s.routed2 = map[string]bool{}
			want := map[string]bool{}
			for q, id := range s.issued {
				if !s.retired[q] {
					want[string(id)] = true
				}
			}
			if s.hasCli && !s.hsDone {
				want[string(s.client)] = true
			}
			for _, e := range o.evs2 {
				if e.Kind != 0 {
					s.fail("runner2-snapshot", "AddConnRunner made a callback other than AddConnectionID")
				} else {
					s.routed2[string(e.CID)] = true
				}
			}
			if !sameSet(s.routed2, want) || len(o.evs2) != len(want) {
				s.fail("runner2-snapshot", fmt.Sprintf("second runner was told %s, the connection's IDs in use are %s", setStr(s.routed2), setStr(want)))
			}
		} else if len(o.evs2) != 0 {
			s.fail("runner2-snapshot", "AddConnRunner for a known runner made callbacks")
		}
		if len(o.evs) != 0 {
			s.fail("runner2-snapshot", "AddConnRunner made callbacks to the first runner")
		}
	} else if s.has2 {
		key := func(e quic.VerifGenEvent) string {
			ids := make([]string, len(e.IDs))
			for i, id := range e.IDs {
				ids[i] = string(id)
			}
			sort.Strings(ids)
			return fmt.Sprintf("%d|%x|%v|%d|%q", e.Kind, e.CID, e.Local, e.Aux, ids)
		}
		cnt := map[string]int{}
		for _, e := range o.evs {
			if e.Kind == 0 || e.Kind == 1 || e.Kind == 3 {
				cnt[key(e)]++
			}
		}
		for _, e := range o.evs2 {
			cnt[key(e)]--
			switch e.Kind {
			case 0:
				s.routed2[string(e.CID)] = true
			case 1:
				delete(s.routed2, string(e.CID))
			}
		}
		for k, v := range cnt {
			if v != 0 {
				s.fail("runner2-diverges", fmt.Sprintf("callbacks of the two runners differ in %s (%+d)", k[:1], v))
			}
		}
		if o.kind == "removeall" && len(s.routed2) != 0 {
			s.fail("runner2-leftover", fmt.Sprintf("%d connection IDs still routed on the second transport after RemoveAll", len(s.routed2)))
		}
	} else if len(o.evs2) != 0 {
		s.fail("runner2-snapshot", "callbacks to a runner that was never added")
	}
	// (d)/(e) routing
	switch o.kind {
	case "removeall":
		if len(s.routed) != 0 {
			s.fail("close-leftover", fmt.Sprintf("%d connection IDs still routed after RemoveAll", len(s.routed)))
		}
	case "replace":
		if nReplace != 1 {
			s.fail("replace-mismatch", fmt.Sprintf("%d ReplaceWithClosed calls", nReplace))
		}
	default:
		if !sameSet(s.routed, s.expect) {
			s.fail("routing-mismatch", fmt.Sprintf("routed %s, expected (unretired + unexpired + client's original) %s", setStr(s.routed), setStr(s.expect)))
		}
	}
	// integrated: the real packetHandlerMap holds exactly this connection's routed IDs
	if s.rt != nil {
		routes, _, _ := s.rt.Snapshot()
		switch o.kind {
		case "removeall":
			if len(routes) != 0 {
				s.fail("map-leftover", fmt.Sprintf("%d connection IDs of the connection still in the transport's map after RemoveAll (first %x)", len(routes), routes[0].CID))
			}
		case "replace":
			for _, rt := range routes {
				if rt.Kind == 1 {
					s.fail("map-leftover", fmt.Sprintf("%x still routed to the closed connection after ReplaceWithClosed", rt.CID))
				}
			}
			if len(routes) != len(s.routed) {
				s.fail("map-mismatch", fmt.Sprintf("%d IDs map to the closed stand-in, %d were routed", len(routes), len(s.routed)))
			}
		default:
			got := map[string]bool{}
			for _, rt := range routes {
				got[string(rt.CID)] = true
				if rt.Kind != 1 || rt.Ref != 1 {
					s.fail("map-mismatch", fmt.Sprintf("%x maps to kind %d/%d", rt.CID, rt.Kind, rt.Ref))
				}
			}
			if !sameSet(got, s.expect) {
				s.fail("map-mismatch", fmt.Sprintf("transport routes %s, expected %s", setStr(got), setStr(s.expect)))
			}
		}
	}
	// NextRetireTime (if the tree has it) is the earliest expiry among the IDs waiting for removal
	if o.st.HasNextRetire && o.kind != "removeall" && o.kind != "replace" {
		var want int64
		for i, p := range s.pending {
			if i == 0 || p.expiry < want {
				want = p.expiry
			}
		}
		if o.st.NextRetire != want {
			s.fail("next-retire-time", fmt.Sprintf("NextRetireTime() = %d, the earliest pending expiry is %d", o.st.NextRetire, want))
		}
	}
	if o.kind == "remove" {
		for i, t := range o.st.RetireTimes {
			if t <= o.t {
				s.fail("expired-kept", fmt.Sprintf("connection ID %x with expiry %d kept at %d", o.st.RetireCIDs[i], t, o.t))
			}
		}
	}
}

func sameSet(a, b map[string]bool) bool {
	if len(a) != len(b) {
		return false
	}
	for k := range a {
		if !b[k] {
			return false
		}
	}
	return true
}

func setStr(a map[string]bool) string {
	ks := make([]string, 0, len(a))
	for k := range a {
		ks = append(ks, fmt.Sprintf("%x", k))
	}
	sort.Strings(ks)
	return "{" + strings.Join(ks, ",") + "}"
}

func (s *genSession) emit() {
	items := make([]string, len(s.ops))
	for i, o := range s.ops {
		items[i] = u.Pair(o.coqOp(), o.coqObs())
	}
	nt := 0
	if s.nRetire > 0 {
		nt = 1
	}
	if s.rt != nil {
		tbl := func(rs []quic.VerifRoute) string {
			xs := make([]string, len(rs))
			for i, r := range rs {
				xs[i] = u.Pair(hxs(r.CID), u.Z(int64(r.Kind)), u.Z(int64(r.Ref)))
			}
			return u.List(xs)
		}
		for i, o := range s.ops {
			items[i] = u.Pair(u.App("GROp", o.coqOp()), u.App("GRO", o.coqObs(), tbl(o.routes)))
		}
		if s.final != nil {
			items = append(items, u.Pair(u.App("GRAdvance", u.Z(s.finalD)), u.App("GRO", s.ops[len(s.ops)-1].coqObsNoEvents(), tbl(s.final))))
		}
		fmt.Fprintf(s.c.w, "CASE %d %s\n", nt, u.App("GenRouteCase", hxs(s.initial), optCID(map[bool][]byte{true: s.client, false: nil}[s.hasCli]), u.B(s.len0), u.List(items)))
	} else {
		fmt.Fprintf(s.c.w, "CASE %d %s\n", nt, u.App("GenCase", hxs(s.initial), optCID(map[bool][]byte{true: s.client, false: nil}[s.hasCli]), u.B(s.len0), u.List(items)))
	}
	d := s.c.dist
	d["gen/cases"]++
	d["gen/ops"] += len(s.ops)
	d["gen/retires-accepted"] += s.nRetire
	d["gen/expired-removed"] += s.nRemoved
	if s.len0 {
		d["gen/cases-zero-length"]++
	}
	if s.c.samples < 4 && nt == 1 && len(s.ops) <= 10 {
		s.c.samples++
		fmt.Fprintf(s.c.w, "SAMPLE\tgen %s\n", s.history())
	}
}

func (c *cidRun) genCase(r *u.Rng, idx int, routed bool) {
	len0 := r.Chance(1, 12)
	connLen := r.Range(4, 8)
	if len0 {
		connLen = 0
	}
	initial := r.Bytes(connLen)
	hasCli := r.Chance(6, 10)
	client := []byte{}
	if hasCli {
		client = append([]byte{0xcc}, r.Bytes(r.Range(7, 11))...)
	}
	s := c.newGenSession(initial, client, hasCli, connLen, routed)
	ctr := 0
	fresh := func(k int) [][]byte {
		out := make([][]byte, k)
		for i := range out {
			if r.Chance(1, 40) {
				continue // generator error
			}
			ctr++
			b := r.Bytes(connLen)
			if connLen >= 2 {
				b[0], b[1] = 0xa0|byte(ctr>>8), byte(ctr)
			}
			out[i] = b
		}
		return out
	}
	limits := []uint64{0, 1, 2, 3, 4, 5, 6, 7, 8, 8, 4, 2, 100, 1<<62 - 1}
	now := int64(1_000_000 + r.Intn(1000))
	var expiries []int64
	nops := r.Range(4, 30)
	if r.Chance(5, 6) {
		s.do(&gOp{kind: "setmax", limit: limits[r.Intn(len(limits))], script: fresh(8)})
	}
	for i := 0; i < nops; i++ {
		st := s.v.State()
		x := r.Intn(100)
		switch {
		case x < 45: // RETIRE_CONNECTION_ID from the peer
			var seq uint64
			switch y := r.Intn(20); {
			case y < 12 && len(st.ActiveSeqs) > 0:
				seq = st.ActiveSeqs[r.Intn(len(st.ActiveSeqs))]
			case y < 15:
				seq = uint64(r.Intn(int(st.HighestSeq) + 1)) // possibly already retired
			case y < 17:
				seq = st.HighestSeq + 1
			case y < 18:
				seq = st.HighestSeq + uint64(r.Range(2, 9))
			case y < 19:
				seq = 0
			default:
				seq = st.HighestSeq
			}
			sent := initial
			if len(st.ActiveCIDs) > 0 {
				sent = st.ActiveCIDs[r.Intn(len(st.ActiveCIDs))]
			}
			if r.Chance(1, 6) {
				for j, q := range st.ActiveSeqs {
					if q == seq {
						sent = st.ActiveCIDs[j] // retiring the ID the packet was sent to
					}
				}
			} else if len(st.ActiveCIDs) > 1 {
				for j, q := range st.ActiveSeqs {
					if q == seq && bytes.Equal(sent, st.ActiveCIDs[j]) {
						sent = st.ActiveCIDs[(j+1)%len(st.ActiveCIDs)]
					}
				}
			}
			ex := now + int64(r.Pick(0, 1, 50, 300, 300, 900))
			if len(expiries) > 0 && r.Chance(1, 4) {
				ex = expiries[r.Intn(len(expiries))] // equal expiry
			}
			if r.Chance(1, 8) {
				ex = now - int64(r.Range(0, 400)) // earlier than entries already waiting
			}
			expiries = append(expiries, ex)
			s.do(&gOp{kind: "retire", seq: seq, sent: sent, t: ex, script: fresh(1)})
		case x < 55:
			s.do(&gOp{kind: "setmax", limit: limits[r.Intn(len(limits))], script: fresh(8)})
		case x < 63:
			ex := now + int64(r.Pick(0, 10, 300, 600))
			expiries = append(expiries, ex)
			s.do(&gOp{kind: "hs", t: ex})
		case x < 92:
			now += int64(r.Pick(0, 1, 40, 100, 300, 1000))
			t := now
			if len(expiries) > 0 && r.Chance(1, 2) {
				t = expiries[r.Intn(len(expiries))] + int64(r.Pick(-1, 0, 1))
				if t > now {
					now = t
				}
			}
			s.do(&gOp{kind: "remove", t: t})
		case x < 96 && !routed:
			s.do(&gOp{kind: "addrunner"}) // a new path on a second transport (idempotent when repeated)
		default:
			now += int64(r.Intn(50))
		}
	}
	// the connection ends; in two of three cases while retirements are still waiting for their
	// expiry (the peer just retired an ID, the handshake just completed)
	if r.Chance(2, 3) {
		st := s.v.State()
		if hasCli && st.HasInitial {
			s.do(&gOp{kind: "hs", t: now + int64(r.Pick(300, 600, 900))})
		}
		st = s.v.State()
		if len(st.ActiveSeqs) > 1 {
			j := r.Intn(len(st.ActiveSeqs))
			s.do(&gOp{kind: "retire", seq: st.ActiveSeqs[j], sent: st.ActiveCIDs[(j+1)%len(st.ActiveSeqs)], t: now + int64(r.Pick(300, 600, 900)), script: fresh(1)})
		}
	}
	switch r.Intn(4) {
	case 0, 3:
		s.do(&gOp{kind: "removeall"})
	case 1:
		s.do(&gOp{kind: "replace", local: true, t: int64(r.Range(1, 5000))})
	case 2:
		s.do(&gOp{kind: "replace", local: false, t: int64(r.Range(1, 5000))})
	}
	if s.rt != nil {
		// (e) once the closing period is over nothing of the connection is left in the transport
		time.Sleep(6000 * time.Nanosecond)
		synctest.Wait()
		s.final, _, _ = s.rt.Snapshot()
		if s.final == nil {
			s.final = []quic.VerifRoute{}
		}
		s.finalD = 6000
		if routes := s.final; len(routes) != 0 {
			s.fail("map-leftover", fmt.Sprintf("%d connection IDs of the connection still in the transport's map after the closing period (first %x)", len(routes), routes[0].CID))
		}
		s.c.dist["gen/cases-with-real-map"]++
	}
	s.emit()
}

// genWitnesses: the connection is torn down while retired IDs wait for their expiry.
func (c *cidRun) genWitnesses() {
	ini := []byte{0xa1, 0xa2, 0xa3, 0xa4}
	cli := []byte{0xcc, 1, 2, 3, 4, 5, 6, 7}
	ids := func(k int, tag byte) [][]byte {
		out := make([][]byte, k)
		for i := range out {
			out[i] = []byte{0xb0 | tag, byte(i + 1), 0x55, 0x66}
		}
		return out
	}
	for _, term := range []string{"removeall", "replace"} {
		for _, srv := range []bool{true, false} {
			s := c.newGenSession(ini, cli, srv, 4, false)
			s.do(&gOp{kind: "setmax", limit: 4, script: ids(8, 0)})
			s.do(&gOp{kind: "hs", t: 1000})                                                // client's original destination ID: routed until 1000
			s.do(&gOp{kind: "retire", seq: 1, sent: ini, t: 1200, script: ids(1, 1)})     // peer retires ID 1: routed until 1200
			s.do(&gOp{kind: "remove", t: 500})                                             // nothing has expired yet
			s.do(&gOp{kind: term, local: true, t: 300})
			s.emit()
		}
	}
}

// ---------------------------------------------------------------------------------
// packetHandlerMap + closed-connection stand-ins
// ---------------------------------------------------------------------------------

type rOp struct {
	kind   string // add addwith remove replace advance addtok remtok deliver
	cid    []byte
	cid2   []byte
	ids    [][]byte
	n      int
	local  bool
	d      int64
	size   int // replace: len(connClosePacket); deliver: packet size
	tok    [16]byte
	flag   bool
	rk     int
	ref    int
	sent   int
	routes []quic.VerifRoute
	toks   [][16]byte
	tokC   []int
}

func (o *rOp) coqOp() string {
	switch o.kind {
	case "add":
		return u.App("RAdd", hxs(o.cid), u.Z(int64(o.n)))
	case "addwith":
		return u.App("RAddWith", hxs(o.cid), hxs(o.cid2), u.Z(int64(o.n)))
	case "remove":
		return u.App("RRemove", hxs(o.cid))
	case "replace":
		ids := make([]string, len(o.ids))
		for i, b := range o.ids {
			ids[i] = hxs(b)
		}
		return u.App("RReplace", u.List(ids), u.B(o.local), u.Z(o.d), u.Z(int64(o.size)))
	case "advance":
		return u.App("RAdvance", u.Z(o.d))
	case "addtok":
		return u.App("RAddTok", tokNum(o.tok), u.Z(int64(o.n)))
	case "remtok":
		return u.App("RRemTok", tokNum(o.tok))
	case "deliver":
		return u.App("RDeliver", hxs(o.cid), u.Z(int64(o.size)))
	}
	panic("bad rop")
}

func (o *rOp) coqObs() string {
	rs := make([]string, len(o.routes))
	for i, r := range o.routes {
		rs[i] = u.Pair(hxs(r.CID), u.Z(int64(r.Kind)), u.Z(int64(r.Ref)))
	}
	ts := make([]string, len(o.toks))
	for i, t := range o.toks {
		ts[i] = u.Pair(tokNum(t), u.Z(int64(o.tokC[i])))
	}
	return u.App("RO", u.B(o.flag), u.Z(int64(o.rk)), u.Z(int64(o.ref)), u.Z(int64(o.sent)), u.List(rs), u.List(ts))
}

func (o *rOp) human() string {
	switch o.kind {
	case "add":
		return fmt.Sprintf("Add(%x,conn%d)=>%v", o.cid, o.n, o.flag)
	case "addwith":
		return fmt.Sprintf("AddWithConnID(%x,%x,conn%d)=>%v", o.cid, o.cid2, o.n, o.flag)
	case "remove":
		return fmt.Sprintf("Remove(%x)", o.cid)
	case "replace":
		return fmt.Sprintf("ReplaceWithClosed(%x,local=%v,%dns,close packet %dB)", o.ids, o.local, o.d, o.size)
	case "advance":
		return fmt.Sprintf("+%dns", o.d)
	case "addtok":
		return fmt.Sprintf("AddResetToken(%x,conn%d)", o.tok[8:], o.n)
	case "remtok":
		return fmt.Sprintf("RemoveResetToken(%x)", o.tok[8:])
	case "deliver":
		return fmt.Sprintf("packet(%x,%dB)=>kind%d/%d sent%d", o.cid, o.size, o.rk, o.ref, o.sent)
	}
	return o.kind
}

// routeCase: must be called inside a synctest bubble.
func (c *cidRun) routeCase(r *u.Rng, idx int) {
	v := quic.VerifNewRouting()
	w := c.w
	var ops []*rOp
	fails := map[string]bool{}
	hist := func() string {
		h := make([]string, len(ops))
		for i, o := range ops {
			h[i] = o.human()
		}
		return strings.Join(h, "; ")
	}
	fail := func(key, desc string) {
		if !fails[key] {
			fails[key] = true
			fmt.Fprintf(w, "MONFAIL\tconnids/route/%s\t%s\t%s\n", key, desc, hist())
		}
	}
	pool := make([][]byte, 7)
	for i := range pool {
		pool[i] = append([]byte{byte(0x10 + i)}, r.Bytes(3)...)
	}
	foreign := []byte{0xff, 0xee, 0xdd, 0xcc}
	pick := func() []byte { return pool[r.Intn(len(pool))] }
	// shadow (model independent)
	now := int64(0)
	everAdded := map[string]bool{}
	lastDeadline := map[string]int64{}  // latest now+expiry over all ReplaceWithClosed calls naming the ID
	liveExpect := map[string]int{}      // ID -> connection it must be routed to (until Remove / ReplaceWithClosed / AddWithConnID names it);
	// the expiry of an earlier stand-in for the same ID must not take it away
	delivered := map[int]int{}          // local stand-in -> packets delivered to it
	bytesIn, bytesOut, closeLen := map[int]int{}, map[int]int{}, map[int]int{}
	nLocal := 0
	nReplace, nDeliver, nExpired := 0, 0, 0
	nops := r.Range(8, 40)
	for i := 0; i < nops; i++ {
		o := &rOp{}
		x := r.Intn(100)
		switch {
		case x < 18:
			o.kind, o.cid, o.n = "add", pick(), r.Range(1, 3)
			pk, pr := v.Lookup(o.cid)
			o.flag = v.Add(o.cid, o.n)
			if ak, ar := v.Lookup(o.cid); pk != 0 && (o.flag || ak != pk || ar != pr) {
				fail("add-overwrites", fmt.Sprintf("Add(%x) for an ID that is already routed returned %v and maps it to kind %d/%d (was %d/%d)", o.cid, o.flag, ak, ar, pk, pr))
			} else if pk == 0 && (!o.flag || ak != 1 || ar != o.n) {
				fail("add-lost", fmt.Sprintf("Add(%x) for a free ID returned %v and maps it to kind %d/%d", o.cid, o.flag, ak, ar))
			}
			everAdded[string(o.cid)] = true
			if o.flag {
				liveExpect[string(o.cid)] = o.n
			}
		case x < 24:
			o.kind, o.cid, o.cid2, o.n = "addwith", pick(), pick(), r.Range(1, 3)
			o.flag = v.AddWithConnID(o.cid, o.cid2, o.n)
			everAdded[string(o.cid)], everAdded[string(o.cid2)] = true, true
			if o.flag {
				for _, k := range []string{string(o.cid), string(o.cid2)} {
					liveExpect[k] = o.n
				}
			}
		case x < 32:
			o.kind, o.cid = "remove", pick()
			v.Remove(o.cid)
			delete(liveExpect, string(o.cid))
		case x < 46:
			o.kind, o.local, o.d = "replace", r.Bool(), r.Pick(5, 15, 15, 35, 105) // never due exactly at an observation time (multiples of 10)
			k := r.Range(0, 4)
			seen := map[string]bool{}
			for j := 0; j < k; j++ {
				b := pick()
				if !seen[string(b)] || r.Chance(1, 5) {
					o.ids = append(o.ids, b)
				}
				seen[string(b)] = true
			}
			o.size = int(r.Pick(0, 30, 40, 40, 60, 1200))
			v.ReplaceWithClosed(o.ids, o.local, o.d, o.size)
			if o.local {
				closeLen[nLocal] = o.size
				nLocal++
			}
			nReplace++
			for _, b := range o.ids {
				everAdded[string(b)] = true
				delete(liveExpect, string(b))
				if dl := now + o.d; dl > lastDeadline[string(b)] || lastDeadline[string(b)] == 0 {
					lastDeadline[string(b)] = dl
				}
			}
		case x < 62:
			o.kind, o.d = "advance", r.Pick(0, 10, 10, 20, 30, 40, 100)
			time.Sleep(time.Duration(o.d))
			now += o.d
		case x < 68:
			o.kind, o.tok, o.n = "addtok", tokOf(uint64(700+r.Intn(4))), r.Range(1, 3)
			v.AddResetToken(o.tok, o.n)
		case x < 72:
			o.kind, o.tok = "remtok", tokOf(uint64(700+r.Intn(4)))
			v.RemoveResetToken(o.tok)
		default:
			o.kind, o.cid = "deliver", pick()
			if r.Chance(1, 12) {
				o.cid = foreign
			}
			o.size = int(r.Pick(1, 10, 20, 40, 100, 1200, 1200, 1200))
			o.rk, o.ref, o.sent = v.Deliver(o.cid, o.size)
			nDeliver++
			// back-off of the stand-ins: CONNECTION_CLOSE again for packet 1, 2, 4, 8, ... only,
			// and only while all copies together stay within 3x the bytes received (RFC 9000 10.2.1)
			switch o.rk {
			case 2:
				delivered[o.ref]++
				bytesIn[o.ref] += o.size
				k := delivered[o.ref]
				want := 0
				if k&(k-1) == 0 && bytesOut[o.ref]+closeLen[o.ref] <= 3*bytesIn[o.ref] {
					want = 1
					bytesOut[o.ref] += closeLen[o.ref]
				}
				if o.sent != want {
					fail("backoff", fmt.Sprintf("packet %d (%d bytes received, %d sent, close packet %d bytes) for a locally closed connection queued %d CONNECTION_CLOSE copies, want %d",
						k, bytesIn[o.ref], bytesOut[o.ref], closeLen[o.ref], o.sent, want))
				}
				if bytesOut[o.ref] > 3*bytesIn[o.ref] {
					fail("standin-amplification", "closed connection sent more than 3x the bytes it received")
				}
			case 1, 3, 0:
				if o.sent != 0 {
					fail("backoff", "CONNECTION_CLOSE retransmitted for a connection that was not closed locally")
				}
			}
			if o.rk != 0 && !everAdded[string(o.cid)] {
				fail("foreign-routed", fmt.Sprintf("packet for foreign connection ID %x reached a handler", o.cid))
			}
			if n, ok := liveExpect[string(o.cid)]; ok && (o.rk != 1 || o.ref != n) {
				fail("live-misrouted", fmt.Sprintf("packet for %x of connection %d went to kind %d/%d", o.cid, n, o.rk, o.ref))
			}
		}
		synctest.Wait()
		o.routes, o.toks, o.tokC = v.Snapshot()
		ops = append(ops, o)
		// (e) no closed stand-in survives the end of its (latest) closing period
		for _, rt := range o.routes {
			if rt.Kind == 2 || rt.Kind == 3 {
				if dl, ok := lastDeadline[string(rt.CID)]; !ok || dl <= now {
					fail("closed-not-expired", fmt.Sprintf("%x still maps to a closed connection at %dns, closing period ended at %dns", rt.CID, now, dl))
				}
			}
			if rt.Kind == 9 {
				fail("unknown-handler", "unknown handler type in the map")
			}
			if !everAdded[string(rt.CID)] {
				fail("foreign-routed", fmt.Sprintf("never added connection ID %x is routed", rt.CID))
			}
		}
		for k, n := range liveExpect {
			found := false
			for _, rt := range o.routes {
				if string(rt.CID) == k && rt.Kind == 1 && rt.Ref == n {
					found = true
				}
			}
			if !found {
				fail("live-misrouted", fmt.Sprintf("connection ID %x of connection %d is not routed to it", k, n))
			}
		}
	}
	// let every closing period end: nothing closed may remain
	time.Sleep(200 * time.Nanosecond)
	synctest.Wait()
	fin := &rOp{kind: "advance", d: 200}
	fin.routes, fin.toks, fin.tokC = v.Snapshot()
	ops = append(ops, fin)
	for _, rt := range fin.routes {
		if rt.Kind != 1 {
			fail("closed-not-expired", fmt.Sprintf("%x still maps to a closed connection after all closing periods", rt.CID))
		}
	}
	for _, o := range ops {
		if o.kind == "replace" {
			nExpired++
		}
	}
	items := make([]string, len(ops))
	for i, o := range ops {
		items[i] = u.Pair(o.coqOp(), o.coqObs())
	}
	nt := 0
	if nReplace > 0 && nDeliver > 0 {
		nt = 1
	}
	fmt.Fprintf(w, "CASE %d %s\n", nt, u.App("RouteCase", u.List(items)))
	c.dist["route/cases"]++
	c.dist["route/ops"] += len(ops)
	c.dist["route/replace-with-closed"] += nReplace
	c.dist["route/packets"] += nDeliver
}

// ---------------------------------------------------------------------------------
// which limit is advertised, which is enforced: through the real client constructors
// ---------------------------------------------------------------------------------

// limitCases builds real client connections (newClientConnection / newUClientConnection via the
// C12 unit's constructor harness, used read-only), reads the active_connection_id_limit off the
// ClientHello with an independent parser, and asks the connection's own connIDManager how many IDs
// it takes. Model: coq/ConnIDs/LimitSel.v. Monitor: every ID within the advertised limit is accepted.
func (c *cidRun) limitCases() {
	type variant struct {
		name   string
		client string
		set    int64 // -2 = leave the spec alone, -1 = suppress the parameter, else the value to advertise
	}
	vs := []variant{{"plain", "plain", -2}, {"Firefox_116A", "Firefox_116A", -2}, {"Chrome_115_IPv4", "Chrome_115_IPv4", -2},
		{"Firefox-suppressed", "Firefox_116A", -1}, {"Chrome-suppressed", "Chrome_115_IPv4", -1}}
	for _, v := range []int64{2, 3, 4, 5, 9} {
		vs = append(vs, variant{fmt.Sprintf("Firefox-set-%d", v), "Firefox_116B", v})
	}
	for _, v := range vs {
		var sp *quic.QUICSpec
		if v.client != "plain" {
			var err error
			if sp, err = specFor(v.client); err != nil {
				fmt.Fprintf(c.w, "MONFAIL\tconnids/limit/spec\t%s\t%s\n", err.Error(), v.name)
				continue
			}
			if v.set == -1 {
				sp.SuppressTransportParameters = append(sp.SuppressTransportParameters, 0x0e)
			} else if v.set >= 0 {
				if !connidsSetSpecCIDLimit(sp, uint64(v.set)) {
					fmt.Fprintf(c.w, "INFO\tlimit case %s: spec has no active_connection_id_limit to replace\n", v.name)
					continue
				}
			}
		}
		vc, err := quic.VerifAdvEnfBuild(sp, nil, advenfClientTLS())
		if err != nil {
			fmt.Fprintf(c.w, "MONFAIL\tconnids/limit/build\t%s\t%s\n", err.Error(), v.name)
			continue
		}
		ch, err := vc.ClientHello()
		var wire int64 = -1 // absent
		if err == nil {
			if ext, ok := chExtension(ch, 57); ok {
				if es, ok := parseTPs(ext); ok {
					for _, e := range es {
						if e.id == 0x0e {
							if x, _, perr := quicvarint.Parse(e.val); perr == nil {
								wire = int64(x)
							}
						}
					}
				}
			}
		}
		accepted, adv := quic.ConnidsVerifFillUntilLimit(vc.C)
		vc.Close()
		if err != nil {
			fmt.Fprintf(c.w, "MONFAIL\tconnids/limit/clienthello\t%s\t%s\n", err.Error(), v.name)
			continue
		}
		src := "LPlain"
		if v.client != "plain" {
			src = u.App("LSpec", u.Opt(wire >= 0, u.Z(wire)))
		}
		fmt.Fprintf(c.w, "CASE 1 %s\n", u.App("LimitCase", src, u.ZU(adv), u.Z(int64(accepted))))
		// (b) every connection ID within the limit this endpoint put on the wire is accepted
		// (the peer may hold wire-limit IDs: the one in use and wire-limit - 1 new ones)
		lim := wire
		if lim < 0 {
			lim = 2
		}
		if int64(accepted) < lim-1 {
			fmt.Fprintf(c.w, "MONFAIL\tconnids/limit/refused-within-advertised\tclient %s advertises active_connection_id_limit %d (wire: %d) but refuses the connection ID number %d\t%s\n",
				v.name, lim, wire, accepted+2, v.name)
		}
		if v.client == "plain" && wire != maxActive {
			fmt.Fprintf(c.w, "MONFAIL\tconnids/limit/plain-wire\tthe plain client advertises %d, MaxActiveConnectionIDs is %d\t%s\n", wire, maxActive, v.name)
		}
		c.dist["limit/cases"]++
		fmt.Fprintf(c.w, "INFO\tlimit %s: wire=%d advertisedLimit=%d accepted-before-LIMIT=%d\n", v.name, wire, adv, accepted)
	}
}

// connidsSetSpecCIDLimit replaces the active_connection_id_limit of a spec's QUIC transport parameters.
func connidsSetSpecCIDLimit(sp *quic.QUICSpec, v uint64) bool {
	if sp.ClientHelloSpec == nil {
		return false
	}
	for _, ext := range sp.ClientHelloSpec.Extensions {
		if q, ok := ext.(*tls.QUICTransportParametersExtension); ok {
			for i, tp := range q.TransportParameters {
				if _, ok := tp.(tls.ActiveConnectionIDLimit); ok {
					q.TransportParameters[i] = tls.ActiveConnectionIDLimit(v)
					return true
				}
			}
			q.TransportParameters = append(q.TransportParameters, tls.ActiveConnectionIDLimit(v))
			return true
		}
	}
	return false
}
