//go:build verif

package main

// runloop: C17 unit-level correspondence. Real client + real server run over simnet in a
// synctest bubble with generated idle timeouts / keep-alive periods / silence patterns.
// At observation points (every goroutine parked) the timer-relevant fields of both Conns
// are read through the overlay accessor and printed as cases:
//   SnapCase    fields  + what the implementation's idleTimeoutStartTime/nextIdleTimeoutTime/
//               nextKeepAliveTime return + the deadline armed in c.timer
//   WakeCase    fields before a wake-up at exactly the armed deadline + the branch run() took
//               (continue / keep-alive PING / handshake timeout / idle timeout)
//   ParamsCase  config + peer max_idle_timeout => idleTimeout, keepAliveInterval
//   CloseCase   close requests injected through closeLocal/destroyImpl => recorded cause, error
//               returned by the API, CONNECTION_CLOSE on the wire, what the peer saw, routing
//   ClosedConnCase  closedLocalConn back-off, counter preset
// Monitors (model-independent) are listed in notes/C17.md.

import (
	"bufio"
	"context"
	"errors"
	"fmt"
	"io"
	"math"
	"net"
	"os"
	"sort"
	"strings"
	"sync"
	"sync/atomic"
	"testing/synctest"
	"time"

	quic "github.com/refraction-networking/uquic"
	u "github.com/refraction-networking/uquic/internal/verifutil"
	"github.com/refraction-networking/uquic/qlog"
	"github.com/refraction-networking/uquic/qlogwriter"
	"github.com/refraction-networking/uquic/quicvarint"
	"github.com/refraction-networking/uquic/testutils/simnet"
	tls "github.com/refraction-networking/utls"
)

func init() {
	units["runloop"] = runRunLoop
	genSources = append(genSources, quic.VerifRunLoopConsts)
}

var rlDebug = os.Getenv("VERIF_DEBUG") != ""

// "none": the effectively infinite idle timeout of repo commit 637b35e
const rlNoIdleTimeout = time.Duration(math.MaxInt64 / 4)

// watchdog: a scenario that does not finish within 60 s of WALL clock is a livelock (a run loop
// spinning at one virtual instant never lets the bubble's clock advance). The bubble cannot be
// killed, so report the failing input, flush and leave.
func watchdog(w *bufio.Writer, key string, input func() string) (stop func()) {
	done := make(chan struct{})
	go func() {
		select {
		case <-done:
		case <-time.After(60 * time.Second):
			fmt.Fprintf(w, "MONFAIL\t%s\tscenario did not finish within 60 s of wall clock: a goroutine spins without letting virtual time advance (livelock)\t%s\n", key, input())
			w.Flush()
			os.Exit(0)
		}
	}()
	return func() { close(done) }
}

type rlOut struct {
	mu    sync.Mutex
	cases []string // "1 <term>" / "0 <term>"
	seen  map[string]bool
	fails []monFail
	dist  map[string]int
}

func (o *rlOut) emit(nt int, term string) {
	o.mu.Lock()
	defer o.mu.Unlock()
	if o.seen[term] {
		return
	}
	o.seen[term] = true
	o.cases = append(o.cases, fmt.Sprintf("%d %s", nt, term))
}
func (o *rlOut) fail(key, desc string) {
	o.mu.Lock()
	o.fails = append(o.fails, monFail{key, desc})
	o.mu.Unlock()
}
func (o *rlOut) count(k string) { o.mu.Lock(); o.dist[k]++; o.mu.Unlock() }

// rebase: raw monotime -> small positive ns, 0 stays 0 (unset)
type rlBase int64

func (b rlBase) t(x int64) int64 {
	if x == 0 {
		return 0
	}
	return x - int64(b)
}

func snapTerm(b rlBase, s quic.VerifRunLoopSnap) string {
	return u.App("mkSnap", u.Z(b.t(s.Now)), u.B(s.Client), u.B(s.HandshakeComplete), u.Z(s.IdleTimeout), u.Z(s.KeepAliveInterval),
		u.Z(s.CfgKeepAlivePeriod), u.Z(s.CfgMaxIdleTimeout), u.Z(s.CfgHandshakeIdle), u.Z(s.CfgHandshakeTimeout),
		u.Z(b.t(s.CreationTime)), u.Z(b.t(s.LastPacketReceived)), u.Z(b.t(s.FirstAckElicitingAft)), u.B(s.KeepAlivePingSent),
		u.Z(int64(s.Blocked)), u.Z(b.t(s.PacingDeadline)), u.Z(s.PTO), u.Z(b.t(s.AckAlarm)), u.Z(b.t(s.LossTimeout)), u.Z(b.t(s.NextRetire)), u.Z(s.OwnAdvertisedIdle))
}

// error classes shared with Run.v (errk_of)
const (
	ekNil = iota
	ekApp
	ekTransport
	ekAppRemote
	ekTransportRemote
	ekIdle
	ekHsTimeout
	ekStatelessReset
	ekVersionNeg
	ekOther
	ekCanceled
)

func classifyErr(err error) (int, uint64) {
	var ae *quic.ApplicationError
	var te *quic.TransportError
	var ie *quic.IdleTimeoutError
	var he *quic.HandshakeTimeoutError
	var se *quic.StatelessResetError
	var ve *quic.VersionNegotiationError
	switch {
	case err == nil:
		return ekNil, 0
	case errors.As(err, &ie):
		return ekIdle, 0
	case errors.As(err, &he):
		return ekHsTimeout, 0
	case errors.As(err, &se):
		return ekStatelessReset, 0
	case errors.As(err, &ve):
		return ekVersionNeg, 0
	case errors.As(err, &ae):
		if ae.Remote {
			return ekAppRemote, uint64(ae.ErrorCode)
		}
		return ekApp, uint64(ae.ErrorCode)
	case errors.As(err, &te):
		if te.Remote {
			return ekTransportRemote, uint64(te.ErrorCode)
		}
		return ekTransport, uint64(te.ErrorCode)
	case errors.Is(err, context.Canceled):
		return ekCanceled, 0
	}
	return ekOther, 0
}

func errPair(k int, code uint64) string { return u.Pair(u.Z(int64(k)), u.ZU(code)) }

func verifKindToClass(kind int) int {
	switch kind {
	case quic.VerifErrNil:
		return ekNil
	case quic.VerifErrApp, quic.VerifErrWrappedApp:
		return ekApp
	case quic.VerifErrTransport, quic.VerifErrWrappedTrans:
		return ekTransport
	case quic.VerifErrAppRemote:
		return ekAppRemote
	case quic.VerifErrTransportRemote:
		return ekTransportRemote
	case quic.VerifErrIdle:
		return ekIdle
	case quic.VerifErrHandshakeTimeout:
		return ekHsTimeout
	case quic.VerifErrStatelessReset:
		return ekStatelessReset
	case quic.VerifErrVersionNegotiation:
		return ekVersionNeg
	}
	return ekOther
}

// ---------- timer scenarios ----------

type rlStep struct {
	Kind string // silence, csend, ssend, blackhole, unblackhole, bulk
	D    time.Duration
	N    int
}

type rlCase struct {
	Seed              uint64
	Mode              string // established, hs-blackhole, hs-initial-only, hs-server
	RTT               time.Duration
	CliIdle, SrvIdle  time.Duration
	CliKA, SrvKA      time.Duration
	CliHsIdle, SrvHsI time.Duration
	Plain             bool
	Steps             []rlStep
}

func (c rlCase) String() string {
	var ss []string
	for _, s := range c.Steps {
		ss = append(ss, fmt.Sprintf("%s(%v,%d)", s.Kind, s.D, s.N))
	}
	return fmt.Sprintf("mode=%s rtt=%v idle(c/s)=%v/%v ka(c/s)=%v/%v hsidle(c/s)=%v/%v plain=%v steps=[%s] seed=%d", c.Mode, c.RTT, c.CliIdle, c.SrvIdle,
		c.CliKA, c.SrvKA, c.CliHsIdle, c.SrvHsI, c.Plain, strings.Join(ss, " "), c.Seed)
}

func genDur(r *u.Rng, lo, hi time.Duration) time.Duration {
	switch r.Intn(4) {
	case 0: // whole seconds
		return time.Duration(r.Range(int(lo/time.Second)+1, int(hi/time.Second))) * time.Second
	case 1: // odd nanoseconds
		return lo + time.Duration(r.U64()%uint64(hi-lo))
	default:
		return (lo + time.Duration(r.U64()%uint64(hi-lo))).Truncate(100 * time.Millisecond)
	}
}

func genRLCase(r *u.Rng) rlCase {
	c := rlCase{Seed: r.U64(), Plain: r.Bool()}
	c.RTT = []time.Duration{2 * time.Millisecond, 10 * time.Millisecond, 50 * time.Millisecond, 200 * time.Millisecond, 400 * time.Millisecond, 900 * time.Millisecond}[r.Intn(6)]
	c.CliIdle = genDur(r, time.Second, 30*time.Second)
	c.SrvIdle = genDur(r, time.Second, 30*time.Second)
	if r.Chance(1, 4) {
		c.SrvIdle = c.CliIdle
	}
	if r.Chance(1, 10) {
		// no idle timeout of its own (what configCoveringSpec gives a spec-driven client whose transport parameters
		// advertise no max_idle_timeout): only the peer's value counts
		c.CliIdle = rlNoIdleTimeout
	}
	ka := func(idle time.Duration) time.Duration {
		switch r.Intn(6) {
		case 0, 1:
			return 0
		case 2:
			return idle / 2
		case 3:
			return genDur(r, 100*time.Millisecond, 3*time.Second)
		case 4:
			return genDur(r, time.Second, 40*time.Second)
		default:
			return time.Duration(r.Range(1, 50)) * time.Millisecond // below 1.5 PTO
		}
	}
	c.CliKA, c.SrvKA = ka(c.CliIdle), ka(c.SrvIdle)
	c.CliHsIdle = 5 * time.Second
	c.SrvHsI = 5 * time.Second
	switch m := r.Intn(10); {
	case m < 6:
		c.Mode = "established"
	case m == 6:
		c.Mode = "hs-blackhole"
		c.CliHsIdle = genDur(r, time.Second, 6*time.Second)
	case m == 7 || m == 8:
		c.Mode = "hs-initial-only"
		c.Plain = true
		c.CliHsIdle = genDur(r, time.Second, 4*time.Second)
		c.SrvHsI = 30 * time.Second
		if c.RTT > 200*time.Millisecond {
			c.RTT = 50 * time.Millisecond
		}
	default:
		c.Mode = "hs-server"
		c.SrvHsI = genDur(r, time.Second, 4*time.Second)
		c.CliHsIdle = 30 * time.Second
		if c.RTT > 200*time.Millisecond {
			c.RTT = 50 * time.Millisecond
		}
	}
	if c.Mode == "established" {
		n := r.Range(2, 6)
		minIdle := min(c.CliIdle, c.SrvIdle)
		for i := 0; i < n; i++ {
			switch r.Intn(8) {
			case 0, 1, 2:
				var d time.Duration
				switch r.Intn(5) {
				case 0:
					d = minIdle * 3 / 10
				case 1:
					d = minIdle - time.Duration(r.Range(1, 30))*time.Millisecond
				case 2:
					d = minIdle + time.Duration(r.Range(0, 2000))*time.Millisecond
				case 3:
					d = 3 * minIdle
				default:
					d = genDur(r, 50*time.Millisecond, 20*time.Second)
				}
				c.Steps = append(c.Steps, rlStep{Kind: "silence", D: d})
			case 3:
				c.Steps = append(c.Steps, rlStep{Kind: "csend", N: r.Range(1, 3000)})
			case 4:
				c.Steps = append(c.Steps, rlStep{Kind: "ssend", N: r.Range(1, 1000)})
			case 5:
				c.Steps = append(c.Steps, rlStep{Kind: "blackhole"})
			case 6:
				c.Steps = append(c.Steps, rlStep{Kind: "unblackhole"})
			default:
				c.Steps = append(c.Steps, rlStep{Kind: "bulk", N: r.Range(50000, 400000)})
			}
		}
		c.Steps = append(c.Steps, rlStep{Kind: "silence", D: min(3*max(c.CliIdle, c.SrvIdle), 40*time.Second)})
	}
	return c
}

// initialOnly cuts a server datagram down to its leading Initial packet (QUIC v1); nil if
// it does not start with one.
func initialOnly(b []byte) []byte {
	if len(b) < 7 || b[0]&0x80 == 0 || (b[0]>>4)&3 != 0 {
		return nil
	}
	pos := 5
	dl := int(b[pos])
	pos += 1 + dl
	if pos >= len(b) {
		return nil
	}
	sl := int(b[pos])
	pos += 1 + sl
	if pos >= len(b) {
		return nil
	}
	tl, n, err := quicvarint.Parse(b[pos:])
	if err != nil {
		return nil
	}
	pos += n + int(tl)
	if pos >= len(b) {
		return nil
	}
	l, n, err := quicvarint.Parse(b[pos:])
	if err != nil {
		return nil
	}
	pos += n + int(l)
	if pos > len(b) {
		return nil
	}
	return b[:pos]
}

type rlConn struct {
	c    *quic.Conn
	dir  int // direction of datagrams TOWARDS this endpoint (0 = to server, 1 = to client)
	name string
	tp   bool // ParamsCase emitted
	// replay of the event transitions (HistCase)
	trace      *rlTrace
	evIdx      int
	prev       *quic.VerifRunLoopSnap
	timerFired bool  // the last stop was at this connection's armed deadline
	timerPTO   int64
	// monitor, from the packet events since the last received packet: send times of ack-eliciting packets, the first
	// one that is ack-eliciting by a frame other than STREAM
	aeTimes   map[int64]bool
	firstCtrl int64
	sawRecv   bool
}

// rlTrace collects the packet events a connection reports to its qlog tracer, with the (virtual)
// time at which they were recorded: the ops the model replays.
type rlQEv struct {
	t      int64
	sent   bool
	ctrl   bool // sent: carries an ack-eliciting frame other than STREAM
	stream bool // sent: carries a STREAM frame
}

// the send sites of connection.go do not agree on what restarts the idle period: the regular 1-RTT path counts
// STREAM frames (registerPackedShortHeaderPacket), the coalesced / PTO-probe path only looks at the other frames
// (shortHeaderPacket.IsAckEliciting). The packet events do not tell the path, so for a STREAM-only packet the
// op's flag is taken from what the field shows (an oracle, counted in DIST); see notes/C17.md.
func (e rlQEv) ae(fieldAfter int64) bool { return e.ctrl || (e.stream && fieldAfter == e.t) }
type rlTrace struct {
	mu  sync.Mutex
	evs []rlQEv
}

func (t *rlTrace) AddProducer() qlogwriter.Recorder { return t }
func (t *rlTrace) SupportsSchemas(string) bool      { return true }
func (t *rlTrace) Close() error                     { return nil }
func (t *rlTrace) RecordEvent(e qlogwriter.Event) {
	now := quic.VerifRunLoopSnapshotNow()
	t.mu.Lock()
	defer t.mu.Unlock()
	switch ev := e.(type) {
	case qlog.PacketReceived:
		if ev.Header.PacketType == qlog.PacketTypeRetry || ev.Header.PacketType == qlog.PacketTypeVersionNegotiation {
			return // not an unpacked packet: does not touch the idle state
		}
		t.evs = append(t.evs, rlQEv{t: now})
	case qlog.PacketSent:
		q := rlQEv{t: now, sent: true}
		for _, f := range ev.Frames {
			switch f.Frame.(type) {
			case *qlog.AckFrame, *qlog.ConnectionCloseFrame:
			case *qlog.StreamFrame:
				q.stream = true
			default:
				q.ctrl = true
			}
		}
		t.evs = append(t.evs, q)
	}
}
func (t *rlTrace) since(i int) []rlQEv {
	t.mu.Lock()
	defer t.mu.Unlock()
	return append([]rlQEv(nil), t.evs[i:]...)
}

func (r *faultRouter) setBlackhole(b bool) { r.mu.Lock(); r.blackhole = b; r.mu.Unlock() }

// quiet: no datagram was on its way to the endpoint, or sent by it, strictly inside (from, to)
func (r *faultRouter) quiet(towards int, from, to, lat time.Duration) bool {
	r.mu.Lock()
	defer r.mu.Unlock()
	for i := len(r.log) - 1; i >= 0; i-- {
		d := r.log[i]
		if d.Time < from-lat-time.Millisecond {
			break
		}
		if d.Dir == towards {
			if strings.Contains(d.Act, "drop") || d.Act == "filtered" {
				continue
			}
			if d.Time+lat > from && d.Time+lat < to+time.Millisecond { // (delayed datagrams are not used here)
				return false
			}
		} else if d.Time > from && d.Time < to {
			return false
		}
	}
	return true
}

// nextArrival: earliest arrival time (> now) of a datagram that is in flight, 0 if none
func (r *faultRouter) nextArrival(now, lat time.Duration) time.Duration {
	r.mu.Lock()
	defer r.mu.Unlock()
	var best time.Duration
	for i := len(r.log) - 1; i >= 0; i-- {
		d := r.log[i]
		if d.Time+lat <= now {
			break
		}
		if strings.Contains(d.Act, "drop") || d.Act == "filtered" {
			continue
		}
		if best == 0 || d.Time+lat < best {
			best = d.Time + lat
		}
	}
	return best
}

func lastRecvIdx(evs []rlQEv) int {
	for i := len(evs) - 1; i >= 0; i-- {
		if !evs[i].sent {
			return i
		}
	}
	return -1
}

func runOneRL(c rlCase, o *rlOut) {
	r := u.NewRng(c.Seed)
	_ = r
	err := inBubble(func() {
		opts := simOpts{RTT: c.RTT, PlainPath: c.Plain,
			ServerConf: &quic.Config{EnableDatagrams: true, MaxIdleTimeout: c.SrvIdle, KeepAlivePeriod: c.SrvKA, HandshakeIdleTimeout: c.SrvHsI},
			ClientConf: &quic.Config{EnableDatagrams: true, MaxIdleTimeout: c.CliIdle, KeepAlivePeriod: c.CliKA, HandshakeIdleTimeout: c.CliHsIdle},
		}
		traces := [2]*rlTrace{{}, {}}
		opts.ClientConf.Tracer = func(context.Context, bool, quic.ConnectionID) qlogwriter.Trace { return traces[0] }
		opts.ServerConf.Tracer = func(context.Context, bool, quic.ConnectionID) qlogwriter.Trace { return traces[1] }
		if c.Mode == "hs-initial-only" {
			// a Retry validates the client's address, so the server keeps retransmitting its
			// (never acknowledged) Initial packets without hitting the amplification limit
			opts.SrvTr = func(t *quic.Transport) { t.VerifySourceAddress = func(net.Addr) bool { return true } }
		}
		e, err := newSimEnv(opts)
		if err != nil {
			o.fail("runloop/env", err.Error())
			return
		}
		defer e.Close()
		lat := c.RTT / 2
		base := rlBase(quic.VerifRunLoopSnapshotNow() - int64(time.Second))
		ctx, cancel := context.WithCancel(context.Background())
		defer cancel()
		var sawServerInitial atomic.Bool
		switch c.Mode {
		case "hs-blackhole":
			e.Router.setBlackhole(true)
		case "hs-initial-only":
			e.Router.setBlackhole(true)
			e.Router.inject = func(dir, idx int, p simnet.Packet) []simnet.Packet {
				if dir == 0 {
					// the ClientHello flight and its repetition after the Retry pass; nothing the
					// client sends after the server's first Initial does (no ACK ever arrives)
					if !sawServerInitial.Load() {
						return []simnet.Packet{p}
					}
					return nil
				}
				if len(p.Data) > 0 && p.Data[0]&0x80 != 0 && (p.Data[0]>>4)&3 == 3 { // Retry
					return []simnet.Packet{p}
				}
				sawServerInitial.Store(true)
				if b := initialOnly(p.Data); b != nil {
					return []simnet.Packet{{To: p.To, From: p.From, Data: append([]byte(nil), b...)}}
				}
				return nil
			}
		case "hs-server":
			e.Router.setBlackhole(true)
			e.Router.inject = func(dir, idx int, p simnet.Packet) []simnet.Packet {
				if dir == 0 {
					return []simnet.Packet{p}
				}
				return nil
			}
		}
		// with a programmable filter the router's own log says "drop" for everything; fix up
		// the action of what the filter let through so that quiet() sees it
		if e.Router.inject != nil {
			inner := e.Router.inject
			e.Router.inject = func(dir, idx int, p simnet.Packet) []simnet.Packet {
				out := inner(dir, idx, p)
				e.Router.mu.Lock()
				for i := len(e.Router.log) - 1; i >= 0; i-- {
					if e.Router.log[i].Dir == dir && e.Router.log[i].Idx == idx {
						if len(out) > 0 {
							e.Router.log[i].Act = "deliver"
						} else {
							e.Router.log[i].Act = "filtered"
						}
						break
					}
				}
				e.Router.mu.Unlock()
				return out
			}
		}

		var mu sync.Mutex
		var cli, srv *quic.Conn
		var dialErr error
		dialDone := make(chan struct{})
		go func() {
			conn, err := e.Ln.Accept(ctx)
			if err != nil {
				return
			}
			mu.Lock()
			srv = conn
			mu.Unlock()
			for {
				s, err := conn.AcceptUniStream(ctx)
				if err != nil {
					return
				}
				go io.Copy(io.Discard, s)
			}
		}()
		go func() {
			conn, err := e.Dial(ctx)
			mu.Lock()
			cli, dialErr = conn, err
			mu.Unlock()
			close(dialDone)
		}()

		conns := map[*quic.Conn]*rlConn{}
		live := func() []*rlConn {
			for _, x := range quic.VerifTransportConns(e.CliTr) {
				if conns[x] == nil {
					conns[x] = &rlConn{c: x, dir: 1, name: "client", trace: traces[0]}
				}
			}
			for _, x := range quic.VerifTransportConns(e.SrvTr) {
				if conns[x] == nil {
					conns[x] = &rlConn{c: x, dir: 0, name: "server", trace: traces[1]}
				}
			}
			var out []*rlConn
			for _, x := range conns {
				out = append(out, x)
			}
			sort.Slice(out, func(i, j int) bool { return out[i].name < out[j].name })
			return out
		}
		peerIdleOf := func(rc *rlConn) time.Duration {
			if rc.name == "client" {
				return c.SrvIdle
			}
			return c.CliIdle
		}
		nSnap := map[string]int{}
		nHist := 0
		// histCase: the ops that happened to the connection since its previous observation point, for the model
		// to replay from the previous snapshot; compared: the idle-timer inputs, the flags, the negotiated values
		histCase := func(rc *rlConn, s quic.VerifRunLoopSnap) {
			prev, fired, firedPTO := rc.prev, rc.timerFired, rc.timerPTO
			evs := rc.trace.since(rc.evIdx)
			rc.evIdx += len(evs)
			// monitor (packet events only): the idle period restarts at an ack-eliciting packet sent after the last
			// received one, and no later than the first one that is ack-eliciting whatever the send path
			for _, ev := range evs {
				if !ev.sent {
					rc.aeTimes, rc.firstCtrl, rc.sawRecv = map[int64]bool{}, 0, true
				} else if ev.ctrl || ev.stream {
					if rc.aeTimes == nil {
						rc.aeTimes = map[int64]bool{}
					}
					rc.aeTimes[ev.t] = true
					if ev.ctrl && rc.firstCtrl == 0 {
						rc.firstCtrl = ev.t
					}
				}
			}
			if f := s.FirstAckElicitingAft; rc.sawRecv && s.HandshakeComplete && !s.Closed {
				switch {
				case f != 0 && !rc.aeTimes[f]:
					o.fail("runloop/first-ae-bogus", fmt.Sprintf("%s: firstAckElicitingPacketAfterIdleSentTime=%v, no ack-eliciting packet left then (since the last received packet)", rc.name, time.Duration(base.t(f))))
				case rc.firstCtrl != 0 && (f == 0 || f > rc.firstCtrl):
					o.fail("runloop/first-ae-not-first", fmt.Sprintf("%s: firstAckElicitingPacketAfterIdleSentTime=%v, but an ack-eliciting packet left at %v after the last received one", rc.name,
						time.Duration(base.t(f)), time.Duration(base.t(rc.firstCtrl))))
				}
			}
			rc.timerFired = false
			cp := s
			rc.prev = &cp
			if prev == nil || prev.Closed || prev.PacingImmediate || s.PacingImmediate {
				return
			}
			closed := int64(0)
			if s.Closed {
				ce, _, _ := quic.VerifRecordedCloseErr(rc.c)
				switch k, _ := classifyErr(ce); k {
				case ekIdle:
					closed = 3
				case ekHsTimeout:
					closed = 2
				default:
					return // closed by the scenario itself
				}
			}
			if rlDebug {
				fmt.Fprintf(os.Stderr, "hist %s prev.now=%v now=%v fired=%v evs=%d closed=%d prevDeadline=%v\n", rc.name, time.Duration(base.t(prev.Now)), time.Duration(base.t(s.Now)), fired, len(evs), closed, time.Duration(base.t(prev.TimerDeadline)))
			}
			nRecv := 0
			for _, ev := range evs {
				if !ev.sent {
					nRecv++
				}
			}
			newTP := prev.PeerMaxIdleTimeout < 0 && s.PeerMaxIdleTimeout >= 0
			newHS := !prev.HandshakeComplete && s.HandshakeComplete
			kaFlip := !prev.KeepAlivePingSent && s.KeepAlivePingSent
			if closed != 0 && !fired {
				o.count("hist-skipped: closed while the driver was not watching")
				return
			}
			if fired && nRecv > 0 {
				o.count("hist-skipped: timer and packet at the same instant")
				return
			}
			if len(evs) == 0 && !fired && !newTP && !newHS && !kaFlip && closed == 0 {
				return
			}
			var ops []string
			if fired {
				ops = append(ops, u.App("OpTimer", u.Z(base.t(s.Now)), u.Z(firedPTO)))
			}
			kaPending := kaFlip && !fired
			if kaPending && (newTP || newHS) {
				o.count("hist-skipped: keep-alive and handshake progress in one batch")
				return
			}
			for i, ev := range evs {
				switch {
				case !ev.sent:
					t := ev.t
					if i == lastRecvIdx(evs) && !s.HandshakeComplete && s.LastPacketReceived != t {
						// a packet that waited for its keys is stamped with its arrival time
						t = s.LastPacketReceived
						o.count("hist: receive time of a queued packet taken from the field")
					}
					ops = append(ops, u.App("OpRecv", u.Z(base.t(t))))
				default:
					ae := ev.ae(s.FirstAckElicitingAft)
					if !ev.ctrl && ev.stream {
						o.count("hist: STREAM-only packet, idle restart taken from the field")
					}
					if kaPending && ae {
						ops = append(ops, u.App("OpKeepAlive", u.Z(base.t(ev.t)), u.Z(prev.PTO)))
						kaPending = false
					}
					ops = append(ops, u.App("OpSent", u.Z(base.t(ev.t)), u.B(ae)))
				}
			}
			if kaPending {
				ops = append(ops, u.App("OpKeepAlive", u.Z(base.t(s.Now)), u.Z(prev.PTO)))
			}
			if newTP {
				ops = append(ops, u.App("OpTP", u.Z(s.PeerMaxIdleTimeout), u.Z(s.PeerAdvertisedIdle)))
			}
			if newHS {
				ops = append(ops, "OpHsDone")
			}
			if fired && kaFlip && closed != 0 {
				// the keep-alive branch comes first; the timeout is declared by the next iteration at the same instant
				ops = append(ops, u.App("OpTimer", u.Z(base.t(s.Now)), u.Z(firedPTO)))
			}
			nHist++
			if nHist > 150 {
				return
			}
			o.emit(1, u.App("HistCase", snapTerm(base, *prev), u.List(ops), snapTerm(base, s), u.Z(closed)))
			o.count(fmt.Sprintf("hist ops=%d timer=%v recv=%d closed=%d ka=%v", min(len(ops), 6), fired, min(nRecv, 2), closed, kaFlip))
		}
		observe := func(rc *rlConn) quic.VerifRunLoopSnap {
			s := quic.VerifRunLoopSnapshot(rc.c)
			histCase(rc, s)
			if s.Closed {
				return s
			}
			if s.PacingImmediate {
				o.count("snap-skipped-pacing-immediate")
				return s
			}
			td := "None"
			if s.TimerDeadlineOK {
				td = u.Opt(true, u.Z(base.t(s.TimerDeadline)))
			} else {
				o.count("timer-deadline-unreadable")
			}
			nt := 0
			if s.HandshakeComplete {
				nt = 1
			}
			// (cap per scenario: the bulk of the snapshots of a long keep-alive run look alike)
			snapKey := fmt.Sprintf("%v/%d/%v/%v/%v/%v", s.HandshakeComplete, s.Blocked, s.KeepAlivePingSent, s.AckAlarm != 0, s.LossTimeout != 0, s.PacingDeadline != 0)
			if nSnap[snapKey] < 12 {
				nSnap[snapKey]++
				o.emit(nt, u.App("SnapCase", snapTerm(base, s), u.Z(base.t(s.IdleStart)), u.Z(base.t(s.NextIdle)), u.Z(base.t(s.NextKeepAlive)), td))
			}
			o.count(fmt.Sprintf("snap hs=%v blocked=%d ka=%v kaSent=%v", s.HandshakeComplete, s.Blocked, s.CfgKeepAlivePeriod != 0, s.KeepAlivePingSent))
			if s.PeerMaxIdleTimeout >= 0 && s.IdleTimeout != 0 && !rc.tp {
				rc.tp = true
				o.emit(1, u.App("ParamsCase", u.Z(s.CfgMaxIdleTimeout), u.Z(s.PeerMaxIdleTimeout), u.Z(s.PeerAdvertisedIdle), u.Z(s.OwnAdvertisedIdle), u.Z(s.CfgKeepAlivePeriod), u.Z(s.IdleTimeout), u.Z(s.KeepAliveInterval)))
				// monitor: the negotiated idle timeout is the minimum of what both sides configured
				// (the peer's value travels in milliseconds; the code raises remote values below
				// protocol.MinRemoteIdleTimeout = 5 s to 5 s, see notes/C17.md)
				want := min(time.Duration(s.CfgMaxIdleTimeout), max(peerIdleOf(rc).Truncate(time.Millisecond), 5*time.Second))
				if time.Duration(s.IdleTimeout) != want {
					o.fail("runloop/idle-negotiation", fmt.Sprintf("%s: idleTimeout=%v, configured %v, peer configured %v", rc.name, time.Duration(s.IdleTimeout), time.Duration(s.CfgMaxIdleTimeout), peerIdleOf(rc)))
				}
			}
			// keep-alive must also keep the PEER from timing out: the interval leaves half of the peer's own period
			if s.CfgKeepAlivePeriod != 0 && s.IdleTimeout != 0 && s.PeerMaxIdleTimeout >= 0 && peerIdleOf(rc) > 0 &&
				time.Duration(s.KeepAliveInterval) > peerIdleOf(rc).Truncate(time.Millisecond)/2 {
				o.fail("runloop/keep-alive-exceeds-peer-idle", fmt.Sprintf("%s: keepAliveInterval=%v although the peer times out after %v (KeepAlivePeriod %v, own idle timeout %v)", rc.name,
					time.Duration(s.KeepAliveInterval), peerIdleOf(rc), time.Duration(s.CfgKeepAlivePeriod), time.Duration(s.CfgMaxIdleTimeout)))
			}
			// a connection ID waiting for the end of its retirement grace period is a timer source in every block mode
			if s.NextRetire != 0 {
				o.count(fmt.Sprintf("snap retirement pending blocked=%d hs=%v", s.Blocked, s.HandshakeComplete))
				if s.TimerDeadlineOK && s.TimerDeadline > s.NextRetire {
					o.fail("runloop/deadline-after-retirement", fmt.Sprintf("%s: timer armed %v after the next connection-ID retirement is due (block mode %d)", rc.name, time.Duration(s.TimerDeadline-s.NextRetire), s.Blocked))
				}
				if s.TimerDeadlineOK && s.TimerDeadline == s.NextRetire {
					o.count("snap deadline = retirement")
				}
			}
			// monitors on the implementation's own numbers (independent of the model):
			if s.KeepAlivePingSent && s.Now < s.LastPacketReceived+s.KeepAliveInterval {
				o.fail("runloop/ka-flag-stale", fmt.Sprintf("%s: keepAlivePingSent is set only %v after the last received packet (keep-alive interval %v): it was not reset by that packet", rc.name, time.Duration(s.Now-s.LastPacketReceived), time.Duration(s.KeepAliveInterval)))
			}
			if s.FirstAckElicitingAft != 0 && s.FirstAckElicitingAft < s.LastPacketReceived {
				o.fail("runloop/first-ae-stale", fmt.Sprintf("%s: firstAckElicitingPacketAfterIdleSentTime is %v older than the last received packet", rc.name, time.Duration(s.LastPacketReceived-s.FirstAckElicitingAft)))
			}
			if s.HandshakeComplete && s.TimerDeadlineOK && s.TimerDeadline > s.NextIdle {
				o.fail("runloop/deadline-after-idle", fmt.Sprintf("%s: timer armed %v after the idle-timeout instant", rc.name, time.Duration(s.TimerDeadline-s.NextIdle)))
			}
			if s.HandshakeComplete && s.NextIdle-max(s.LastPacketReceived, s.FirstAckElicitingAft) < s.IdleTimeout {
				o.fail("runloop/idle-early", fmt.Sprintf("%s: idle-timeout instant only %v after the last activity, idle timeout %v", rc.name, time.Duration(s.NextIdle-max(s.LastPacketReceived, s.FirstAckElicitingAft)), time.Duration(s.IdleTimeout)))
			}
			return s
		}
		steps := 0
		nWake := map[int]int{}
		// advance virtual time by d, stopping at every armed deadline of a live connection
		advance := func(d time.Duration) {
			end := time.Now().Add(d)
			for steps < 400 {
				steps++
				synctest.Wait()
				tS := time.Since(e.Start)
				type pend struct {
					rc *rlConn
					s  quic.VerifRunLoopSnap
				}
				var ps []pend
				var next int64
				for _, rc := range live() {
					s := observe(rc)
					if s.Closed || !s.TimerDeadlineOK || s.PacingImmediate {
						continue
					}
					ps = append(ps, pend{rc, s})
					if next == 0 || s.TimerDeadline < next {
						next = s.TimerDeadline
					}
				}
				now := quic.VerifRunLoopSnapshotNow()
				// also stop when a datagram that is in flight arrives, so that the snapshot
				// taken before a wake-up is never stale
				if arr := e.Router.nextArrival(tS, lat); arr > 0 && (next == 0 || now+int64(arr-tS) < next) {
					next = now + int64(arr-tS)
				}
				remaining := time.Until(end)
				if next == 0 || time.Duration(next-now) > remaining {
					if remaining > 0 {
						time.Sleep(remaining)
					}
					synctest.Wait()
					return
				}
				time.Sleep(max(time.Duration(next-now), 1))
				synctest.Wait()
				T := quic.VerifRunLoopSnapshotNow()
				tT := time.Since(e.Start)
				for _, p := range ps {
					if rlDebug {
						fmt.Fprintf(os.Stderr, "t=%v %s deadline=%v quiet=%v closed=%v hs=%v lastRecv=%v\n", tT, p.rc.name, time.Duration(p.s.TimerDeadline-T), e.Router.quiet(p.rc.dir, tS, tT, lat),
							quic.VerifRunLoopSnapshot(p.rc.c).Closed, p.s.HandshakeComplete, time.Duration(base.t(p.s.LastPacketReceived)))
					}
					if p.s.TimerDeadline == T {
						p.rc.timerFired, p.rc.timerPTO = true, p.s.PTO
					}
					if p.s.TimerDeadline != T || !e.Router.quiet(p.rc.dir, tS, tT, lat) {
						continue
					}
					s2 := quic.VerifRunLoopSnapshot(p.rc.c)
					obs := 0
					switch {
					case !p.s.KeepAlivePingSent && s2.KeepAlivePingSent:
						// (only the keep-alive branch sets the flag; if the connection is also closed
						// now, that happened in a second iteration at the same virtual instant)
						obs = 1
					case s2.Closed:
						ce, _, _ := quic.VerifRecordedCloseErr(p.rc.c)
						k, _ := classifyErr(ce)
						switch k {
						case ekIdle:
							obs = 3
						case ekHsTimeout:
							obs = 2
						default:
							continue // closed by something else at the same instant
						}
					}
					nWake[obs]++
					if nWake[obs] > 25 {
						continue
					}
					o.emit(1, u.App("WakeCase", snapTerm(base, p.s), u.Z(base.t(T)), u.Z(int64(obs))))
					o.count(fmt.Sprintf("wake obs=%d hs=%v", obs, p.s.HandshakeComplete))
				}
			}
		}

		if c.Mode != "established" {
			advance(45 * time.Second)
			if rlDebug {
				for _, d := range e.Router.log {
					fmt.Fprintf(os.Stderr, "dgram dir=%d idx=%d t=%v len=%d first=%02x act=%s\n", d.Dir, d.Idx, d.Time, len(d.Data), d.Data[0], d.Act)
				}
			}
			select {
			case <-dialDone:
			default:
				o.fail("runloop/dial-hang", "Dial did not return within 45 s although the handshake cannot complete")
				cancel()
				<-dialDone
			}
			return
		}
		advance(10 * time.Second)
		<-dialDone
		mu.Lock()
		cl, sv, derr := cli, srv, dialErr
		mu.Unlock()
		if derr != nil || cl == nil || sv == nil {
			o.fail("runloop/dial", fmt.Sprintf("handshake on a perfect path failed: %v", derr))
			return
		}
		for _, st := range c.Steps {
			switch st.Kind {
			case "silence":
				advance(st.D)
			case "csend":
				if st.N%2 == 0 {
					cl.SendDatagram(make([]byte, min(st.N, 1000)))
				} else if s, err := cl.OpenUniStream(); err == nil {
					// (in a goroutine: a Write parks while the connection is congestion limited, and the
					// driver must keep observing)
					go func() { s.Write(make([]byte, st.N)); s.Close() }()
				}
				advance(time.Duration(st.N%7) * c.RTT / 2)
			case "ssend":
				sv.SendDatagram(make([]byte, st.N))
				advance(time.Duration(st.N%5) * c.RTT / 2)
			case "blackhole":
				e.Router.setBlackhole(true)
			case "unblackhole":
				e.Router.setBlackhole(false)
			case "bulk":
				if s, err := cl.OpenUniStream(); err == nil {
					go func() { s.Write(make([]byte, st.N)); s.Close() }()
				}
				advance(3 * c.RTT)
			}
		}
		cl.CloseWithError(0, "")
		sv.CloseWithError(0, "")
	})
	if err != nil {
		o.fail("runloop/leak-or-panic", err.Error())
	}
}

// ---------- close scenarios ----------

type rlCloseReq struct {
	Kind      int
	Code      uint64
	Immediate bool
	Via       int // 0 closeLocal / destroyImpl, 1 Conn.CloseWithError, 2 Transport.Close, 3 the idle timer
}

type rlCloseCase struct {
	Seed      uint64
	Server    bool // which endpoint is closed
	Plain     bool
	Blackhole bool
	Reqs      []rlCloseReq
	Dg        [2]bool // Config.EnableDatagrams of client, server
	Race      bool    // the requests are issued concurrently, each from its own goroutine, at one virtual instant
	RaceIdle  bool    // ... which is the instant at which the connection's idle timer fires
}

func (c rlCloseCase) String() string {
	var rs []string
	for _, q := range c.Reqs {
		rs = append(rs, fmt.Sprintf("(%d,%d,%v)", q.Kind, q.Code, q.Immediate))
	}
	return fmt.Sprintf("close server=%v plain=%v blackhole=%v datagrams(c/s)=%v/%v race=%v raceidle=%v reqs=%s seed=%d", c.Server, c.Plain, c.Blackhole, c.Dg[0], c.Dg[1], c.Race, c.RaceIdle, strings.Join(rs, ""), c.Seed)
}

func genCloseCase(r *u.Rng) rlCloseCase {
	c := rlCloseCase{Seed: r.U64(), Server: r.Bool(), Plain: r.Bool(), Blackhole: r.Chance(1, 4)}
	n := 1
	if r.Chance(1, 2) {
		n = r.Range(2, 3)
	}
	for i := 0; i < n; i++ {
		q := rlCloseReq{Kind: r.Intn(quic.VerifErrNumKinds), Immediate: r.Chance(1, 3)}
		switch r.Intn(4) {
		case 0:
			q.Code = uint64(r.Intn(0x20))
		case 1:
			q.Code = 0x100 + uint64(r.Intn(0x100))
		case 2:
			q.Code = r.U64() & (1<<62 - 1)
		default:
			q.Code = uint64(r.Intn(100000))
		}
		c.Reqs = append(c.Reqs, q)
	}
	switch r.Intn(4) {
	case 0, 1:
		c.Dg = [2]bool{true, true}
	case 2:
		c.Dg = [2]bool{false, true}
	default:
		c.Dg = [2]bool{true, false}
	}
	if r.Chance(1, 3) {
		// racing closes: the accessor's requests plus the public ways to end a connection, all at one instant
		c.Race = true
		if r.Bool() {
			c.Reqs = append(c.Reqs, rlCloseReq{Kind: quic.VerifErrApp, Code: uint64(r.Intn(1000)), Via: 1})
		}
		if r.Chance(1, 3) {
			c.Reqs = append(c.Reqs, rlCloseReq{Kind: quic.VerifErrOther, Immediate: true, Via: 2})
		}
		if r.Chance(1, 3) {
			c.RaceIdle = true
			c.Reqs = append(c.Reqs, rlCloseReq{Kind: quic.VerifErrIdle, Immediate: true, Via: 3})
		}
		// shuffle
		for i := len(c.Reqs) - 1; i > 0; i-- {
			j := r.Intn(i + 1)
			c.Reqs[i], c.Reqs[j] = c.Reqs[j], c.Reqs[i]
		}
	}
	return c
}

func routingCode(kinds []string) int64 {
	code := int64(-1)
	for _, k := range kinds {
		var x int64
		switch k {
		case "none":
			x = 0
		case "closedLocal":
			x = 1
		case "closedRemote":
			x = 2
		default:
			x = 9
		}
		if code == -1 {
			code = x
		} else if code != x {
			return 99
		}
	}
	return code
}

func runOneClose(c rlCloseCase, o *rlOut) {
	err := inBubble(func() {
		rtt := 20 * time.Millisecond
		e, err := newSimEnv(simOpts{RTT: rtt, PlainPath: c.Plain,
			ServerConf: &quic.Config{EnableDatagrams: c.Dg[1], MaxIdleTimeout: 6 * time.Second}, ClientConf: &quic.Config{EnableDatagrams: c.Dg[0], MaxIdleTimeout: 6 * time.Second}})
		if err != nil {
			o.fail("runloop/env", err.Error())
			return
		}
		defer e.Close()
		ctx, cancel := context.WithCancel(context.Background())
		defer cancel()
		srvCh := make(chan *quic.Conn, 1)
		go func() {
			conn, err := e.Ln.Accept(ctx)
			if err == nil {
				srvCh <- conn
			}
		}()
		cl, err := e.Dial(ctx)
		if err != nil {
			o.fail("runloop/dial", "handshake on a perfect path failed: "+err.Error())
			return
		}
		sv := <-srvCh
		time.Sleep(200 * time.Millisecond) // handshake confirmed, connection IDs issued
		synctest.Wait()
		target, peer, tr, dirFrom := cl, sv, e.CliTr, 0
		if c.Server {
			target, peer, tr, dirFrom = sv, cl, e.SrvTr, 1
		}
		ids := quic.VerifConnIDs(target)
		pre := quic.VerifRunLoopSnapshot(target)
		if c.Blackhole {
			e.Router.setBlackhole(true)
		}
		if c.RaceIdle {
			// go to the instant at which the idle timer of the connection fires (nothing else is pending)
			sn := quic.VerifRunLoopSnapshot(target)
			time.Sleep(time.Duration(sn.NextIdle - sn.Now))
		}
		tS := time.Since(e.Start)
		for _, q := range c.Reqs {
			issue := func() {
				switch q.Via {
				case 1:
					target.CloseWithError(quic.ApplicationErrorCode(q.Code), "race")
				case 2:
					tr.Close()
				case 3: // the timer does it
				default:
					quic.VerifRequestClose(target, quic.VerifMakeErr(q.Kind, q.Code), q.Immediate)
				}
			}
			if c.Race {
				go issue()
			} else {
				issue()
			}
		}
		select {
		case <-target.Context().Done():
		case <-time.After(time.Second):
			o.fail("runloop/close-hang", "context not cancelled 1 s after the close request: "+c.String())
			return
		}
		synctest.Wait()
		if d := time.Since(e.Start) - tS; d != 0 {
			o.fail("runloop/close-not-prompt", fmt.Sprintf("context cancelled %v after the close request", d))
		}
		ck, cc := classifyErr(context.Cause(target.Context()))
		_, aerr := target.OpenStream()
		ak, ac := classifyErr(aerr)
		// monitor (single cause): every API call now fails with the same error class and code
		check := func(name string, err error) {
			k, code := classifyErr(err)
			if err == nil || k != ak || code != ac {
				o.fail("runloop/api-error/"+name, fmt.Sprintf("%s returned %v, OpenStream returned %v: %s", name, err, aerr, c.String()))
			}
		}
		if c.Race {
			// exactly one of the racing requests is the recorded cause: put it first for the checks below
			_, recImm, _ := quic.VerifRecordedCloseErr(target)
			w := -1
			for i, q := range c.Reqs {
				cls := verifKindToClass(q.Kind)
				want := cls
				switch {
				case q.Kind == quic.VerifErrNil:
					want = ekCanceled
				case q.Kind == quic.VerifErrOther && !q.Immediate:
					want = ekTransport
				}
				codeMatters := want == ekApp || want == ekAppRemote || want == ekTransportRemote || (want == ekTransport && q.Kind != quic.VerifErrOther)
				if q.Kind == quic.VerifErrOther && !q.Immediate && cc != uint64(quic.InternalError) {
					continue // (a non-QUIC error of a non-immediate close is recorded as INTERNAL_ERROR)
				}
				if ck == want && (!codeMatters || cc == q.Code) && recImm == q.Immediate {
					w = i
					break
				}
			}
			if w < 0 {
				o.fail("runloop/race-foreign-cause", fmt.Sprintf("the recorded cause %v is none of the racing requests: %s", context.Cause(target.Context()), c.String()))
				return
			}
			o.count(fmt.Sprintf("race winner via=%d of %d", c.Reqs[w].Via, len(c.Reqs)))
			rs := append([]rlCloseReq{c.Reqs[w]}, append(append([]rlCloseReq{}, c.Reqs[:w]...), c.Reqs[w+1:]...)...)
			c.Reqs = rs
		}
		_, e1 := target.OpenStreamSync(ctx)
		check("OpenStreamSync", e1)
		_, e2 := target.OpenUniStream()
		check("OpenUniStream", e2)
		_, e3 := target.AcceptStream(ctx)
		check("AcceptStream", e3)
		_, e4 := target.AcceptUniStream(ctx)
		check("AcceptUniStream", e4)
		// (ReceiveDatagram needs the own EnableDatagrams, SendDatagram the peer's; without it they refuse whatever the state)
		own, peerOn := c.Dg[0], c.Dg[1]
		if c.Server {
			own, peerOn = c.Dg[1], c.Dg[0]
		}
		if own {
			_, e5 := target.ReceiveDatagram(ctx)
			check("ReceiveDatagram", e5)
		}
		if peerOn {
			check("SendDatagram", target.SendDatagram([]byte("late")))
		}
		first := c.Reqs[0]
		if first.Kind != quic.VerifErrNil && (ck != ak || cc != ac) {
			o.fail("runloop/cause-vs-api", fmt.Sprintf("context cause %v differs from API error %v: %s", context.Cause(target.Context()), aerr, c.String()))
		}
		// the recorded cause must stem from the FIRST request
		if want := verifKindToClass(first.Kind); first.Kind != quic.VerifErrNil && first.Kind != quic.VerifErrOther && ck != want {
			o.fail("runloop/first-cause", fmt.Sprintf("recorded cause class %d, first request class %d: %s", ck, want, c.String()))
		}
		// a non-QUIC error of a non-immediate close surfaces as INTERNAL_ERROR (one of the documented error types)
		if first.Kind == quic.VerifErrOther && !first.Immediate && !(ak == ekTransport && ac == uint64(quic.InternalError)) {
			o.fail("runloop/error-mapping", fmt.Sprintf("closeLocal(non-QUIC error): the API returns %v instead of a local INTERNAL_ERROR transport error: %s", aerr, c.String()))
		}
		sent := false
		e.Router.mu.Lock()
		for _, d := range e.Router.log {
			if d.Dir == dirFrom && d.Time >= tS {
				sent = true
			}
		}
		e.Router.mu.Unlock()
		_, _, kinds := quic.VerifRLRouting(tr, ids)
		rc := routingCode(kinds)
		time.Sleep(2 * rtt)
		synctest.Wait()
		peerObs := "None"
		peerClosed := false
		select {
		case <-peer.Context().Done():
			pk, pc := classifyErr(context.Cause(peer.Context()))
			peerObs = u.Opt(true, errPair(pk, pc))
			peerClosed = true
		default:
		}
		// monitors: a frame on the wire <=> local, not immediate; remote/immediate closes are silent
		wantFrame := !first.Immediate && first.Kind != quic.VerifErrAppRemote && first.Kind != quic.VerifErrTransportRemote
		// (timeouts, resets and version-negotiation errors are never requested as non-immediate closes through the
		// API; what the code does with them is compared with the model only, see C17_silent_causes_refuted)
		unusual := !first.Immediate && (first.Kind == quic.VerifErrIdle || first.Kind == quic.VerifErrHandshakeTimeout ||
			first.Kind == quic.VerifErrStatelessReset || first.Kind == quic.VerifErrVersionNegotiation)
		if unusual {
			wantFrame = sent
		}
		if sent != wantFrame {
			o.fail("runloop/close-frame-due", fmt.Sprintf("datagram sent at close = %v, expected %v: %s", sent, wantFrame, c.String()))
		}
		if c.RaceIdle {
			peerClosed = false // (the peer's own idle timer fires at about the same time: what it recorded says nothing)
		}
		if !c.Blackhole && !c.RaceIdle && wantFrame != peerClosed {
			o.fail("runloop/peer-informed", fmt.Sprintf("peer closed = %v, expected %v: %s", peerClosed, wantFrame, c.String()))
		}
		if peerClosed {
			pk, pc := classifyErr(context.Cause(peer.Context()))
			switch first.Kind {
			case quic.VerifErrApp, quic.VerifErrWrappedApp:
				if pk != ekAppRemote || pc != first.Code {
					o.fail("runloop/peer-code", fmt.Sprintf("peer saw %v: %s", context.Cause(peer.Context()), c.String()))
				}
			case quic.VerifErrTransport, quic.VerifErrWrappedTrans:
				if pk != ekTransportRemote || pc != first.Code {
					o.fail("runloop/peer-code", fmt.Sprintf("peer saw %v: %s", context.Cause(peer.Context()), c.String()))
				}
			}
		}
		reqs := make([]string, len(c.Reqs))
		for i, q := range c.Reqs {
			reqs[i] = u.Pair(u.Z(int64(verifKindToClass(q.Kind))), u.ZU(q.Code), u.B(q.Immediate))
		}
		if c.Blackhole || c.RaceIdle {
			peerObs = "None"
		}
		caseName := "CloseCase"
		if c.Race {
			caseName = "RaceCase" // (the requests are listed winner first; the model only requires the winner to be one of them)
		}
		o.emit(1, u.App(caseName, u.B(!c.Server), u.B(pre.SentFirstPacket), u.List(reqs), errPair(ck, cc), errPair(ak, ac), u.B(sent), u.B(c.Blackhole || c.RaceIdle), peerObs, u.Z(rc)))
		o.count(fmt.Sprintf("close first=%d imm=%v", verifKindToClass(first.Kind), first.Immediate))
		// monitor: after the closing period (3 PTO) the routing entries are gone
		time.Sleep(3*time.Duration(pre.PTONoAckDelay) + time.Millisecond)
		synctest.Wait()
		_, _, kinds = quic.VerifRLRouting(tr, ids)
		if x := routingCode(kinds); x != 0 {
			o.fail("runloop/routing-released", fmt.Sprintf("routing entries %v remain after 3 PTO: %s", kinds, c.String()))
		}
		if !peerClosed {
			peer.CloseWithError(0, "")
		}
	})
	if err != nil {
		o.fail("runloop/leak-or-panic", err.Error()+" :: "+c.String())
	}
}

func runRunLoop(w *bufio.Writer, seed uint64, n int, args []string) {
	r := u.NewRng(seed)
	o := &rlOut{seen: map[string]bool{}, dist: map[string]int{}}
	only := -1
	for _, a := range args {
		if strings.HasPrefix(a, "only=") {
			fmt.Sscanf(a, "only=%d", &only)
		}
	}
	// closedLocalConn back-off
	for _, st := range []uint32{0, 1, 5, 1<<31 - 3, 1<<32 - 20, uint32(r.U64()), uint32(r.Intn(5000))} {
		k := 70
		rep := quic.VerifClosedLocalReplies(st, k)
		bs := make([]string, k)
		for i, b := range rep {
			bs[i] = u.B(b)
			// monitor: replies exactly on counter values that are powers of two
			cnt := st + uint32(i) + 1
			if (cnt != 0 && cnt&(cnt-1) == 0) != b {
				o.fail("runloop/closed-backoff", fmt.Sprintf("packet #%d after close: retransmitted=%v", cnt, b))
			}
		}
		o.emit(1, u.App("ClosedConnCase", u.ZU(uint64(st)), u.List(bs)))
	}
	// run() returning before its loop: a Dial whose TLS configuration cannot start a handshake
	for _, plain := range []bool{true, false} {
		err := inBubble(func() {
			e, err := newSimEnv(simOpts{PlainPath: plain, ClientTLS: func(t *tls.Config) { t.MaxVersion = tls.VersionTLS12 }})
			if err != nil {
				o.fail("runloop/env", err.Error())
				return
			}
			defer e.Close()
			_, derr := e.Dial(context.Background())
			synctest.Wait()
			if derr == nil {
				o.fail("runloop/bad-tls-dial", "Dial with MaxVersion TLS 1.2 succeeded")
				return
			}
			routing, apiClosed := int64(0), "None"
			for _, c := range quic.VerifTransportConns(e.CliTr) {
				routing = 3
				closed := false
				if _, err := c.OpenUniStream(); err != nil {
					var sl *quic.StreamLimitReachedError
					closed = !errors.As(err, &sl)
				}
				apiClosed = u.Opt(true, u.B(closed))
			}
			if routing != 0 {
				o.fail("runloop/start-failure-leak", "Dial failed ("+derr.Error()+") but the connection is still registered in the transport")
			}
			o.emit(1, u.App("EarlyExitCase", u.Z(routing), apiClosed))
			time.Sleep(11 * time.Second)
		})
		if err != nil {
			o.fail("runloop/leak-or-panic", "bad-tls dial: "+err.Error())
		}
	}
	// (monitor failures of the table scenarios below carry their input in the description)
	flush := func(from int) {
		for _, f := range o.fails[from:] {
			fmt.Fprintf(w, "MONFAIL\t%s\t%s\t%s\n", f.key, f.desc, "table scenario (see the description)")
		}
	}
	// transport parameters of spec-driven clients whose list advertises / omits / suppresses max_idle_timeout
	flush(0) // what the closed-connection and early-exit cases above found
	from := len(o.fails)
	for _, t := range rlSpecParamsTable {
		runOneSpecParams(t, o)
	}
	flush(from)
	from = len(o.fails)
	// CONNECTION_CLOSE while the handshake is in progress
	hr := u.NewRng(seed ^ 0x4c5)
	for i := 0; i < max(4, n/4); i++ {
		code := uint64(hr.Intn(1 << 20))
		if i%2 == 1 {
			code = []uint64{0x1, 0x2, 0xa, 0x7, 0x128}[hr.Intn(5)]
		}
		runOneHsClose(i%2 == 0, code, hr.Bool(), o)
	}
	flush(from)
	// fan-out over stream states (unit level)
	fr := u.NewRng(seed ^ 0xfa0)
	for i := 0; i < 6*n; i++ {
		fc := genFanoutCase(fr, i)
		before := len(o.fails)
		stop := watchdog(w, "runloop/livelock", fc.String)
		runOneFanout(fc, o)
		stop()
		for _, f := range o.fails[before:] {
			fmt.Fprintf(w, "MONFAIL\t%s\t%s\t%s\n", f.key, f.desc, fc.String())
		}
	}
	for i := 0; i < n; i++ {
		tc := genRLCase(r)
		ccs := []rlCloseCase{genCloseCase(r), genCloseCase(r), genCloseCase(r)}
		cc := ccs[0]
		if only >= 0 && i != only {
			continue
		}
		before := len(o.fails)
		stop := watchdog(w, "runloop/livelock", tc.String)
		runOneRL(tc, o)
		stop()
		for _, f := range o.fails[before:] {
			fmt.Fprintf(w, "MONFAIL\t%s\t%s\t%s\n", f.key, f.desc, tc.String())
		}
		before = len(o.fails)
		o.count("mode=" + tc.Mode)
		if i < 2 || os.Getenv("VERIF_VERBOSE") != "" {
			fmt.Fprintf(w, "SAMPLE\ti=%d %s\n", i, tc.String())
		}
		for _, cc = range ccs {
			stop := watchdog(w, "runloop/livelock", cc.String)
			runOneClose(cc, o)
			stop()
			for _, f := range o.fails[before:] {
				fmt.Fprintf(w, "MONFAIL\t%s\t%s\t%s\n", f.key, f.desc, cc.String())
			}
			before = len(o.fails)
		}
	}
	for _, cs := range o.cases {
		fmt.Fprintf(w, "CASE %s\n", cs)
	}
	keys := make([]string, 0, len(o.dist))
	for k := range o.dist {
		keys = append(keys, k)
	}
	sort.Strings(keys)
	for _, k := range keys {
		fmt.Fprintf(w, "DIST\t%s\t%d\n", k, o.dist[k])
	}
}
