//go:build verif

package main

// h3conn: the connection-level machinery of HTTP/3 (property C18 (c): "unknown frame and stream
// types are ignored, forbidden ones abort the stream or connection with the RFC 9114 error").
// A raw scripted peer (plain quic, ALPN h3) opens unidirectional streams with scripted bytes
// towards the REAL implementation -- http3.Server.ServeListener (handleUnidirectionalStream with
// isServer = true) or http3.Transport.NewClientConn (isServer = false) -- over simnet in a
// synctest bubble, one stream after the other (virtual time passes in between, so every handler
// has run until it parks).  Observed: the application error the connection is closed with and the
// STOP_SENDING code of every stream.  Cases are replayed by the Coq model coq/H3Stream/Conn.v;
// a fixed table (the RFC 9114 error table) is checked by a model-independent monitor.

import (
	"bufio"
	"context"
	"errors"
	"fmt"
	"net/http"
	"strings"
	"time"

	quic "github.com/refraction-networking/uquic"
	"github.com/refraction-networking/uquic/http3"
	u "github.com/refraction-networking/uquic/internal/verifutil"
	"github.com/refraction-networking/uquic/quicvarint"
	tls "github.com/refraction-networking/utls"
)

func init() { units["h3conn"] = runH3Conn }

type h3connStream struct {
	data []byte
	fin  bool
}

type h3connScenario struct {
	name    string
	server  bool // the implementation under test is the server
	streams []h3connStream
	want    int64 // expected close code of the RFC table; -1 = stays open; -2 = not in the table
}

func h3connRun(sc h3connScenario) (closed int64, stops []int64, sent int, err error) {
	closed = -1
	berr := inBubble(func() {
		e, eerr := newSimEnv(simOpts{
			PlainPath: true, RTT: 4 * time.Millisecond,
			ServerTLS: func(c *tls.Config) { c.NextProtos = []string{http3.NextProtoH3} },
			ClientTLS: func(c *tls.Config) { c.NextProtos = []string{http3.NextProtoH3} },
		})
		if eerr != nil {
			err = eerr
			return
		}
		defer e.Close()
		var peer *quic.Conn // the scripted side
		var cleanup func()
		if sc.server {
			srv := &http3.Server{Handler: http.HandlerFunc(func(w http.ResponseWriter, r *http.Request) {}), Logger: nil}
			done := make(chan struct{})
			go func() { defer close(done); srv.ServeListener(e.Ln) }()
			ctx, cancel := context.WithTimeout(context.Background(), 10*time.Second)
			c, derr := e.Dial(ctx)
			cancel()
			if derr != nil {
				err = derr
				srv.Close()
				<-done
				return
			}
			peer = c
			cleanup = func() { srv.Close(); <-done }
		} else {
			acc := make(chan *quic.Conn, 1)
			go func() {
				c, aerr := e.Ln.Accept(context.Background())
				if aerr == nil {
					acc <- c
				} else {
					close(acc)
				}
			}()
			ctx, cancel := context.WithTimeout(context.Background(), 10*time.Second)
			qc, derr := e.Dial(ctx)
			cancel()
			if derr != nil {
				err = derr
				return
			}
			tr := &http3.Transport{Logger: nil}
			cc := tr.NewClientConn(qc)
			_ = cc
			peer = <-acc
			if peer == nil {
				err = errors.New("accept failed")
				return
			}
			cleanup = func() { qc.CloseWithError(0x100, ""); tr.Close() }
		}
		time.Sleep(50 * time.Millisecond)
		for _, st := range sc.streams {
			us, oerr := peer.OpenUniStream()
			if oerr != nil {
				break
			}
			us.Write(st.data)
			if st.fin {
				us.Close()
			}
			sent++
			time.Sleep(150 * time.Millisecond) // virtual: delivery + the handler runs until it parks
			stop := int64(-1)
			select {
			case <-peer.Context().Done():
			default:
				select {
				case <-us.Context().Done():
					var se *quic.StreamError
					if errors.As(context.Cause(us.Context()), &se) && se.Remote {
						stop = int64(se.ErrorCode)
					}
				default:
				}
			}
			stops = append(stops, stop)
			select {
			case <-peer.Context().Done():
			default:
				continue
			}
			break
		}
		select {
		case <-peer.Context().Done():
			var ae *quic.ApplicationError
			if errors.As(context.Cause(peer.Context()), &ae) && ae.Remote {
				closed = int64(ae.ErrorCode)
			} else {
				closed = -3 // closed, but not by an application error of the implementation
			}
		default:
		}
		peer.CloseWithError(0x100, "")
		cleanup()
		time.Sleep(50 * time.Millisecond)
	})
	if berr != nil && err == nil {
		err = berr
	}
	return
}

// h3connRunRequest: one request stream with scripted bytes against the real server
// (RawServerConn.handleRequestStream); observed: close code of the connection, RESET_STREAM code of
// the response direction, :status of a response.
func h3connRunRequest(data []byte, fin bool, maxHdr int) (closed, reset, status int64, err error) {
	closed, reset, status = -1, -1, -1
	berr := inBubble(func() {
		e, eerr := newSimEnv(simOpts{
			PlainPath: true, RTT: 4 * time.Millisecond,
			ServerTLS: func(c *tls.Config) { c.NextProtos = []string{http3.NextProtoH3} },
			ClientTLS: func(c *tls.Config) { c.NextProtos = []string{http3.NextProtoH3} },
		})
		if eerr != nil {
			err = eerr
			return
		}
		defer e.Close()
		srv := &http3.Server{Handler: http.HandlerFunc(func(w http.ResponseWriter, r *http.Request) {}), Logger: nil, MaxHeaderBytes: maxHdr}
		done := make(chan struct{})
		go func() { defer close(done); srv.ServeListener(e.Ln) }()
		ctx, cancel := context.WithTimeout(context.Background(), 10*time.Second)
		peer, derr := e.Dial(ctx)
		cancel()
		if derr != nil {
			err = derr
			srv.Close()
			<-done
			return
		}
		time.Sleep(50 * time.Millisecond)
		str, oerr := peer.OpenStream()
		if oerr != nil {
			err = oerr
		} else {
			str.Write(data)
			if fin {
				str.Close()
			}
			time.Sleep(150 * time.Millisecond)
			str.SetReadDeadline(time.Now().Add(50 * time.Millisecond))
			st, _, rerr := h3eReadResponse(str)
			if st != "" {
				fmt.Sscanf(st, "%d", &status)
			}
			var se *quic.StreamError
			if errors.As(rerr, &se) && se.Remote {
				reset = int64(se.ErrorCode)
			}
			select {
			case <-peer.Context().Done():
				var ae *quic.ApplicationError
				if errors.As(context.Cause(peer.Context()), &ae) && ae.Remote {
					closed = int64(ae.ErrorCode)
				} else {
					closed = -3
				}
				reset = -1 // the stream died with the connection
			default:
			}
		}
		peer.CloseWithError(0x100, "")
		srv.Close()
		<-done
		time.Sleep(50 * time.Millisecond)
	})
	if berr != nil && err == nil {
		err = berr
	}
	return
}

type h3connReq struct {
	name   string
	data   []byte
	fin    bool
	maxHdr int
	closed int64 // expected by the RFC table (-1 stays open), reset, status; -2 = not in the table
	reset  int64
	status int64
}

func h3connReqTable(r *u.Rng) []h3connReq {
	hdr := h3eHeaders(":method", "GET", ":scheme", "https", ":authority", "localhost", ":path", "/x")
	var out []h3connReq
	add := func(name string, data []byte, fin bool, maxHdr int, closed, reset, status int64) {
		out = append(out, h3connReq{name, data, fin, maxHdr, closed, reset, status})
	}
	add("HEADERS first", hdr, true, 0, -1, -1, 200)
	add("HEADERS first, stream left open", hdr, false, 0, -1, -1, 200)
	add("unknown frames before HEADERS", append(h3eFrame(0x21, []byte{1, 2, 3}), hdr...), true, 0, -1, -1, 200)
	add("DATA first", append(h3eFrame(0, []byte("x")), hdr...), true, 0, 0x105, -1, -1)
	add("SETTINGS first", append(h3eFrame(4, nil), hdr...), true, 0, 0x105, -1, -1)
	add("GOAWAY first", append(h3eFrame(7, []byte{0}), hdr...), true, 0, 0x105, -1, -1)
	add("reserved frame first", append(h3eFrame(2, nil), hdr...), true, 0, 0x105, -1, -1)
	add("empty stream", nil, true, 0, -1, 0x10d, -1)
	add("HEADERS frame header cut, FIN", hdr[:1], true, 0, -1, 0x10d, -1)
	add("header block cut, FIN", hdr[:len(hdr)-3], true, 0, -1, 0x10d, -1)
	add("header block cut, stream open", hdr[:len(hdr)-3], false, 0, -1, -1, -1)
	add("header block larger than MaxHeaderBytes", hdr, true, len(hdr)-4, -1, -1, 431)
	// (a limit >= the block length is judged on the decoded field-section size: C19's territory)
	add("header block one byte larger than MaxHeaderBytes", hdr, true, len(hdr)-3, -1, -1, 431)
	add("GOAWAY with inconsistent length first", append(h3eFrame(7, []byte{0, 0}), hdr...), true, 0, -1, 0x10d, -1)
	add("duplicate setting in a SETTINGS frame first", append(h3eFrame(4, []byte{0x21, 1, 0x21, 1}), hdr...), true, 0, -1, 0x10d, -1)
	return out
}

func h3connFrame(t uint64, payload ...byte) []byte { return h3eFrame(t, payload) }

func h3connTable() []h3connScenario {
	ctrl := func(frames ...[]byte) []byte {
		b := []byte{0x00}
		for _, f := range frames {
			b = append(b, f...)
		}
		return b
	}
	settings := h3connFrame(0x4)
	settingsVals := h3connFrame(0x4, 0x06, 0x44, 0x00, 0x08, 0x01, 0x21, 0x07)
	var out []h3connScenario
	for _, server := range []bool{true, false} {
		idErr := int64(0x108)
		pushErr := int64(0x103)
		if !server {
			pushErr = 0x108
		}
		_ = idErr
		add := func(name string, want int64, streams ...h3connStream) {
			out = append(out, h3connScenario{name: name, server: server, streams: streams, want: want})
		}
		open := func(b []byte) h3connStream { return h3connStream{data: b} }
		fin := func(b []byte) h3connStream { return h3connStream{data: b, fin: true} }
		add("control+settings", -1, open(ctrl(settings)))
		add("control+settings-with-values, qpack streams, unknown types", -1, open(ctrl(settingsVals)), open([]byte{0x02}), open([]byte{0x03}), open([]byte{0x21, 1, 2, 3}), fin(quicvarint.Append(nil, 0x1f*77+0x21)))
		add("duplicate control stream", 0x103, open(ctrl(settings)), open(ctrl(settings)))
		add("duplicate QPACK encoder stream", 0x103, open([]byte{0x02}), open([]byte{0x02}))
		add("duplicate QPACK decoder stream", 0x103, open([]byte{0x03}), open([]byte{0x03}))
		add("push stream", pushErr, open(ctrl(settings)), open([]byte{0x01, 0x00}))
		add("first control frame is DATA", 0x10a, open(ctrl(h3connFrame(0x0, 1, 2))))
		add("first control frame is HEADERS", 0x10a, open(ctrl(h3connFrame(0x1))))
		add("first control frame is GOAWAY", 0x10a, open(ctrl(h3connFrame(0x7, 0x00))))
		add("unknown frame before SETTINGS is skipped", -1, open(ctrl(h3connFrame(0x21, 9, 9), settings)))
		add("reserved frame before SETTINGS", 0x105, open(ctrl(h3connFrame(0x2))))
		add("reserved frame after SETTINGS", 0x105, open(ctrl(settings, h3connFrame(0x8, 1))))
		add("second SETTINGS frame", 0x105, open(ctrl(settings, settings)))
		add("DATA on the control stream", 0x105, open(ctrl(settings, h3connFrame(0x0, 1))))
		add("HEADERS on the control stream", 0x105, open(ctrl(settings, h3connFrame(0x1))))
		add("unknown and push-related frames after SETTINGS are skipped", -1, open(ctrl(settings, h3connFrame(0x21, 1, 2, 3), h3connFrame(0xd, 0x05), h3connFrame(0x3, 0x00))))
		add("control stream closed after SETTINGS", 0x104, fin(ctrl(settings)))
		add("control stream closed before SETTINGS", 0x104, fin([]byte{0x00}))
		add("duplicate setting", 0x106, open(ctrl(h3connFrame(0x4, 0x21, 1, 0x21, 2))))
		add("invalid boolean setting", 0x106, open(ctrl(h3connFrame(0x4, 0x08, 0x02))))
		add("oversize SETTINGS", 0x106, open(ctrl(append(quicvarint.Append([]byte{0x4}, 9000), make([]byte, 64)...))))
		add("GOAWAY with inconsistent length", 0x106, open(ctrl(settings, h3connFrame(0x7, 0x00, 0x00))))
		if server {
			add("client GOAWAY (push ID) is accepted", -1, open(ctrl(settings, h3connFrame(0x7, 0x03), h3connFrame(0x7, 0x01))))
		} else {
			add("GOAWAY, no request in flight: graceful close", 0x100, open(ctrl(settings, h3connFrame(0x7, 0x08))))
			add("GOAWAY with a stream ID that is not client-initiated bidirectional", 0x108, open(ctrl(settings, h3connFrame(0x7, 0x03))))
		}
		add("stream type cut short, stream closed", -1, fin([]byte{0x40}), open(ctrl(settings)))
	}
	return out
}

func h3connRandom(r *u.Rng) h3connScenario {
	sc := h3connScenario{name: "random", server: r.Bool(), want: -2}
	n := r.Range(1, 5)
	for k := 0; k < n; k++ {
		var b []byte
		switch c := r.Intn(12); {
		case c < 4: // control stream
			b = []byte{0x00}
			nf := r.Range(0, 4)
			for j := 0; j < nf; j++ {
				switch d := r.Intn(14); {
				case d < 5:
					f, _ := h3GenSettings(r)
					b = append(b, f...)
				case d < 7:
					id := uint64(r.Pick(0, 4, 8, 3, 1, 400, 5))
					b = append(b, h3eFrame(0x7, quicvarint.Append(nil, id))...)
				case d < 10:
					b = append(b, h3eFrame(h3IgnorableType(r), r.Bytes(r.Range(0, 20)))...)
				case d == 10:
					b = append(b, h3eFrame(uint64(r.Pick(2, 6, 8, 9)), r.Bytes(r.Range(0, 3)))...)
				case d == 11:
					b = append(b, h3eFrame(uint64(r.Pick(0, 1)), r.Bytes(r.Range(0, 5)))...)
				default:
					b = append(b, r.Bytes(r.Range(1, 6))...)
				}
			}
			if r.Chance(1, 6) && len(b) > 1 {
				b = b[:r.Range(1, len(b))]
			}
		case c < 6:
			b = []byte{0x02}
		case c < 8:
			b = []byte{0x03}
		case c == 8:
			b = []byte{0x01, 0x00}
		default:
			b = append(quicvarint.Append(nil, h3IgnorableType(r)), r.Bytes(r.Range(0, 10))...)
		}
		sc.streams = append(sc.streams, h3connStream{data: b, fin: r.Chance(1, 5)})
	}
	return sc
}

func runH3Conn(w *bufio.Writer, seed uint64, n int, _ []string) {
	r0 := u.NewRng(seed)
	table := h3connTable()
	dist := map[string]int{}
	for i := 0; i < len(table)+n; i++ {
		r := r0.Fork()
		var sc h3connScenario
		if i < len(table) {
			sc = table[i]
		} else {
			sc = h3connRandom(r)
		}
		side := "client"
		if sc.server {
			side = "server"
		}
		closed, stops, sent, err := h3connRun(sc)
		var desc []string
		for _, st := range sc.streams[:sent] {
			desc = append(desc, fmt.Sprintf("%x fin=%v", st.data, st.fin))
		}
		input := fmt.Sprintf("%s under test, scenario %q, peer's unidirectional streams: [%s]", side, sc.name, strings.Join(desc, " | "))
		if err != nil {
			if strings.HasPrefix(err.Error(), "panic:") {
				fmt.Fprintf(w, "MONFAIL\th3conn/panic\tthe simulation panicked or did not come to rest: %v\t%s\n", err, input)
			} else {
				fmt.Fprintf(w, "MONFAIL\th3conn/harness\t%v\t%s\n", err, input)
			}
			continue
		}
		if sc.want != -2 && closed != sc.want {
			fmt.Fprintf(w, "MONFAIL\th3conn/error-table\tRFC 9114 error table: connection closed with %#x, want %#x (-1 = must stay open)\t%s\n", closed, sc.want, input)
		}
		var ss, st []string
		for k, s := range sc.streams[:sent] {
			ss = append(ss, u.Pair(u.Hex(s.data), u.B(s.fin)))
			st = append(st, u.Opt(stops[k] >= 0, u.Z(stops[k])))
		}
		nt := 0
		if closed != -1 || sent > 1 {
			nt = 1
		}
		fmt.Fprintf(w, "CASE %d %s\n", nt, u.App("ConnCase", u.B(sc.server), u.List(ss), u.Opt(closed != -1, u.Z(closed)), u.List(st)))
		dist[side]++
		dist[fmt.Sprintf("closed-%#x", closed)]++
		if i < 2 {
			fmt.Fprintf(w, "SAMPLE\t%s => closed=%#x stops=%v\n", input, closed, stops)
		}
	}
	// request streams: the first-frame rule of the server
	reqs := h3connReqTable(r0)
	hdr := h3eHeaders(":method", "GET", ":scheme", "https", ":authority", "localhost", ":path", "/x")
	for i := 0; i < len(reqs)+n/4; i++ {
		r := r0.Fork()
		var q h3connReq
		if i < len(reqs) {
			q = reqs[i]
		} else {
			q = h3connReq{name: "random", fin: r.Bool(), closed: -2, reset: -2, status: -2}
			for k := r.Range(0, 2); k > 0; k-- {
				q.data = append(q.data, h3eFrame(h3IgnorableType(r), r.Bytes(r.Range(0, 12)))...)
			}
			switch c := r.Intn(8); {
			case c < 4:
				q.data = append(q.data, hdr...)
			case c == 4:
				q.data = append(q.data, h3eFrame(uint64(r.Pick(0, 4, 7, 2, 6, 8, 9)), r.Bytes(r.Range(0, 3)))...)
			case c == 5:
				q.data = append(q.data, hdr[:r.Range(0, len(hdr)-1)]...)
			default:
				q.data = append(q.data, hdr...)
				q.maxHdr = len(hdr) - 2 - r.Range(1, 6)
			}
		}
		closed, reset, status, err := h3connRunRequest(q.data, q.fin, q.maxHdr)
		input := fmt.Sprintf("server under test, request stream scenario %q: bytes %x fin=%v MaxHeaderBytes=%d", q.name, q.data, q.fin, q.maxHdr)
		if err != nil {
			key := "h3conn/harness"
			if strings.HasPrefix(err.Error(), "panic:") {
				key = "h3conn/panic"
			}
			fmt.Fprintf(w, "MONFAIL\t%s\t%v\t%s\n", key, err, input)
			continue
		}
		if q.closed != -2 && (closed != q.closed || reset != q.reset || (q.status != -2 && status != q.status)) {
			fmt.Fprintf(w, "MONFAIL\th3conn/request-first-frame\tfirst frame of a request stream: connection closed with %#x, stream reset with %#x, response status %d; want %#x / %#x / %d (-1 = none)\t%s\n", closed, reset, status, q.closed, q.reset, q.status, input)
		}
		mh := int64(q.maxHdr)
		if mh <= 0 {
			mh = int64(http.DefaultMaxHeaderBytes)
		}
		fmt.Fprintf(w, "CASE 1 %s\n", u.App("ReqCase", u.Hex(q.data), u.B(q.fin), u.Z(mh), u.Opt(closed != -1, u.Z(closed)), u.Opt(reset != -1, u.Z(reset)), u.Opt(status != -1, u.Z(status))))
		dist["request-stream"]++
	}
	for k, v := range dist {
		fmt.Fprintf(w, "DIST\t%s\t%d\n", k, v)
	}
}
