//go:build verif

package main

// Unit `upacker` (C10): the real uPacketPacker (real packetPacker, initialCryptoStream,
// uSentPacketHandler, Initial sealer) packs the Initial flight of generated specs; every case
// goes to the Gallina model (coq/UPacker) as a FlightCase, every flight is also read by the
// independent observer of siminitial.go and checked against the spec (monitors). A few whole
// dials per run tie the dial-time selections (connection ID lengths, first packet number,
// token) to the model as DialCases.

import (
	"bufio"
	"bytes"
	"context"
	"errors"
	"fmt"
	"os"
	"os/exec"
	"sort"
	"strings"
	"time"

	quic "github.com/refraction-networking/uquic"
	u "github.com/refraction-networking/uquic/internal/verifutil"
)

func init() {
	units["upacker"] = runUPacker
	units["upacker-dials"] = runUPackerDials // child process of `upacker`
	genSources = append(genSources, quic.VerifUPackerConsts)
}

// c10Child re-executes the driver for a part that runs whole connections: a panic inside a
// connection goroutine cannot be recovered and would take the unit's whole output with it.
// The child's lines are passed through; a crash becomes a MONFAIL with the panic message.
func c10Child(w *bufio.Writer, key string, args ...string) {
	ctx, cancel := context.WithTimeout(context.Background(), 15*time.Minute)
	defer cancel()
	cmd := exec.CommandContext(ctx, os.Args[0], args...)
	cmd.Env = os.Environ()
	var stderr bytes.Buffer
	cmd.Stderr = &stderr
	out, err := cmd.Output()
	lines := strings.Split(string(out), "\n")
	if err != nil && len(lines) > 0 {
		lines = lines[:len(lines)-1] // possibly cut in the middle
	}
	for _, l := range lines {
		if l != "" {
			fmt.Fprintln(w, l)
		}
	}
	if err != nil {
		msg := stderr.String()
		if i := strings.Index(msg, "panic:"); i >= 0 {
			msg = msg[i:]
		}
		if i := strings.Index(msg, "goroutine "); i > 0 {
			j := strings.Index(msg[i:], "\n\n")
			if j > 0 {
				msg = msg[:i+j]
			}
		}
		if len(msg) > 900 {
			msg = msg[:900]
		}
		if ctx.Err() != nil {
			msg = "no result after 15 minutes (a connection's run loop spinning inside the virtual-time bubble?)"
		}
		fmt.Fprintf(w, "MONFAIL\t%s\tthe process running whole connections crashed or hung (%v)\t%s\n", key, err, strings.ReplaceAll(strings.ReplaceAll(msg, "\n", " | "), "\t", " "))
	}
}

// ---- custom builders (exported interfaces only) ----------------------------------------

func c10AppendVarint(b []byte, v uint64) []byte {
	switch {
	case v < 1<<6:
		return append(b, byte(v))
	case v < 1<<14:
		return append(b, byte(v>>8)|0x40, byte(v))
	case v < 1<<30:
		return append(b, byte(v>>24)|0x80, byte(v>>16), byte(v>>8), byte(v))
	default:
		return append(b, byte(v>>56)|0xc0, byte(v>>48), byte(v>>40), byte(v>>32), byte(v>>24), byte(v>>16), byte(v>>8), byte(v))
	}
}

func c10CryptoFrame(off uint64, data []byte) []byte {
	b := []byte{6}
	b = c10AppendVarint(b, off)
	b = c10AppendVarint(b, uint64(len(data)))
	return append(b, data...)
}

type c10BuildRec struct {
	Idx     int // -1: Build (no index)
	DataLen int
	Base    uint64
	OutLen  int // -1: error
}

// c10Custom: one or two CRYPTO frames over the slice it is handed, then extra[i] PADDING
// bytes (i = number of calls so far). failAt: call index that returns an error.
type c10Custom struct {
	extra  []int
	pings  int
	failAt int
	calls  int
	off    uint64 // running offset for the index-less Build
	recs   []c10BuildRec
}

func (c *c10Custom) make(data []byte, base uint64) []byte {
	var out []byte
	for i := 0; i < c.pings; i++ {
		out = append(out, 1)
	}
	if len(data) > 10 {
		out = append(out, c10CryptoFrame(base+5, data[5:])...)
		out = append(out, c10CryptoFrame(base, data[:5])...)
	} else {
		out = append(out, c10CryptoFrame(base, data)...)
	}
	ex := 0
	if len(c.extra) > 0 {
		ex = c.extra[min(c.calls, len(c.extra)-1)]
	}
	return append(out, make([]byte, ex)...)
}

func (c *c10Custom) Build(data []byte) ([]byte, error) {
	defer func() { c.calls++ }()
	if c.calls == c.failAt {
		c.recs = append(c.recs, c10BuildRec{-1, len(data), c.off, -1})
		return nil, errors.New("verif: custom builder refuses")
	}
	out := c.make(data, c.off)
	c.recs = append(c.recs, c10BuildRec{-1, len(data), c.off, len(out)})
	c.off += uint64(len(data))
	return out, nil
}

type c10CustomEx struct{ c10Custom }

func (c *c10CustomEx) BuildForDatagram(idx int, data []byte, base uint64) ([]byte, error) {
	defer func() { c.calls++ }()
	if c.calls == c.failAt {
		c.recs = append(c.recs, c10BuildRec{idx, len(data), base, -1})
		return nil, errors.New("verif: custom builder refuses")
	}
	out := c.make(data, base)
	c.recs = append(c.recs, c10BuildRec{idx, len(data), base, len(out)})
	return out, nil
}

// c10Proxy delegates to a built-in QUICFrameBuilderEx and records the payload lengths.
type c10Proxy struct {
	inner quic.QUICFrameBuilderEx
	recs  []c10BuildRec
}

func (p *c10Proxy) Build(data []byte) ([]byte, error) { return p.BuildForDatagram(0, data, 0) }
func (p *c10Proxy) BuildForDatagram(idx int, data []byte, base uint64) ([]byte, error) {
	out, err := p.inner.BuildForDatagram(idx, data, base)
	l := len(out)
	if err != nil {
		l = -1
	}
	p.recs = append(p.recs, c10BuildRec{idx, len(data), base, l})
	return out, err
}

// c10FlightB: a QUICFlightFrameBuilder. mode 0: cut the stream into len(budgets) contiguous
// pieces, datagram i = CRYPTO frame + PADDING up to fill[i] bytes (fill < 0: up to
// MaxFrameBytes + fill + 1, i.e. -1 = exactly the budget); mode 1: the tail first (Chrome's
// cross-datagram scatter).
type c10FlightB struct {
	fill    []int
	ndg     int // 0: len(budgets)
	scatter bool
	fail    bool
	budgets []quic.InitialDatagramBudget
	plens   []int
}

func (f *c10FlightB) Build(data []byte) ([]byte, error) { return c10CryptoFrame(0, data), nil }
func (f *c10FlightB) BuildFlight(data []byte, budgets []quic.InitialDatagramBudget) ([][]byte, error) {
	f.budgets = append([]quic.InitialDatagramBudget{}, budgets...)
	if f.fail {
		f.plens = []int{-1}
		return nil, errors.New("verif: flight builder refuses")
	}
	n := f.ndg
	if n == 0 {
		n = len(budgets)
	}
	n = max(1, min(n, len(data)))
	var out [][]byte
	per := (len(data) + n - 1) / n
	for i := 0; i < n; i++ {
		lo, hi := min(i*per, len(data)), min((i+1)*per, len(data))
		k := i
		if f.scatter {
			k = n - 1 - i
			lo, hi = min(k*per, len(data)), min((k+1)*per, len(data))
		}
		pl := c10CryptoFrame(uint64(lo), data[lo:hi])
		tgt := 0
		if len(f.fill) > 0 {
			tgt = f.fill[min(i, len(f.fill)-1)]
		}
		if tgt < 0 {
			tgt = budgets[min(i, len(budgets)-1)].MaxFrameBytes + tgt + 1
		}
		if tgt > len(pl) {
			pl = append(pl, make([]byte, tgt-len(pl))...)
		}
		out = append(out, pl)
		f.plens = append(f.plens, len(pl))
	}
	return out, nil
}

type c10NilStore struct{}

func (c10NilStore) Pop(string) *quic.ClientToken    { return nil }
func (c10NilStore) Put(string, *quic.ClientToken) {}

// ---- one generated flight ----------------------------------------------------------------

type c10Case struct {
	dcid, scid  []byte
	ipn         uint64
	lens        []int
	single      int
	explSet     bool
	expl        []byte // nil: store pops nil
	ctl         int
	prefix      []byte
	conf        []byte // nil: none
	bk          string // Coq term
	builder     quic.QUICFrameBuilder
	check       quic.QUICFrameBuilder
	plans       []quic.InitialPacketPlan
	udpMin      int
	maxSize     int
	hello       []byte
	desc        string
	custom      *c10Custom
	proxy       *c10Proxy
	flight      *c10FlightB
	isRandom    bool
	version     uint32 // 1 or 0x6b3343cf (QUIC v2)
	pnOffset    int64 // > 0: the flight of a connection re-created after Version Negotiation
}

// c10FirstPNLen: the encoding length of the flight's first packet number.
func c10FirstPNLen(lens []int, single int, ipn uint64) int {
	switch {
	case len(lens) > 0:
		return lens[0]
	case single != 0:
		return single
	case ipn+1 < 1<<15:
		return 2
	case ipn+1 < 1<<23:
		return 3
	}
	return 4
}

// c10BRandom: the model's view of a QUICRandomFrames per datagram: (Length, MinPADDING,
// largest PING count, largest CRYPTO count) -- counts are drawn from [Min, Max), or are Min
// when the range is empty.
func c10BRandom(rfs ...quic.QUICRandomFrames) string {
	mc := func(lo, hi uint8) int64 {
		if hi <= lo {
			return int64(lo)
		}
		return int64(hi) - 1
	}
	var l []string
	for _, rf := range rfs {
		l = append(l, u.Pair(u.Z(int64(rf.Length)), u.Z(int64(rf.MinPADDING)), u.Z(mc(rf.MinPING, rf.MaxPING)), u.Z(mc(rf.MinCRYPTO, rf.MaxCRYPTO))))
	}
	return u.App("BRandom", u.List(l))
}

func c10Hello(r *u.Rng, n int) []byte {
	b := r.Bytes(n)
	// make every byte non-zero so that trailing PADDING can be told from CRYPTO data
	for i := range b {
		if b[i] == 0 {
			b[i] = 0xa5
		}
	}
	return b
}

func c10GenCase(r *u.Rng) *c10Case {
	c := &c10Case{}
	c.dcid = r.Bytes(r.Range(0, 20))
	if r.Chance(1, 3) {
		c.dcid = r.Bytes(int(r.Pick(0, 1, 8, 20)))
	}
	c.scid = r.Bytes(r.Range(0, 20))
	if r.Chance(1, 3) {
		c.scid = r.Bytes(int(r.Pick(0, 3, 20)))
	}
	switch r.Intn(8) {
	case 0:
		c.ipn = 0
	case 1:
		c.ipn = 1
	case 2:
		c.ipn = uint64(r.Pick(2, 100, 127, 128, 255, 256, 32767, 32768, 65535, 65536))
	case 3:
		c.ipn = []uint64{1<<62 - 2, 1<<62 - 1, 1 << 62, 1<<62 + 1, 1<<63 - 1, 1 << 63, 1<<64 - 2, 1<<64 - 1}[r.Intn(8)]
	case 4:
		c.ipn = r.U64() >> uint(r.Range(0, 63))
	default:
		c.ipn = uint64(r.Range(0, 300))
	}
	switch r.Intn(3) {
	case 0:
		for i, n := 0, r.Range(1, 4); i < n; i++ {
			c.lens = append(c.lens, r.Range(1, 4))
		}
	}
	if r.Bool() {
		c.single = r.Range(0, 4)
	}
	c.version = 1
	if r.Chance(1, 3) {
		c.version = 0x6b3343cf
	}
	if r.Chance(1, 5) {
		c.pnOffset = int64(r.Range(1, 5))
		c.ipn %= 64 // every packet number of both connections fits one byte
	}
	// Only specs that UTransport.dial accepts reach the packer (InitialPacketSpec.validate):
	// the first packet number is a packet number and fits the bytes it is encoded in.
	// (What dial refuses is the subject of the ValidateCases.)
	c.ipn &= 1<<62 - 1
	if fl := c10FirstPNLen(c.lens, c.single, c.ipn); c.ipn >= 1<<(8*uint(fl)) {
		c.ipn &= 1<<(8*uint(fl)) - 1
		if len(c.lens) == 0 && c.single == 0 { // default length: depends on the number itself
			c.ipn &= 1<<15 - 1
		}
	}
	switch r.Intn(7) {
	case 0:
		c.ctl = r.Range(1, 90)
	case 1:
		c.prefix = r.Bytes(r.Range(1, 8))
		c.ctl = int(r.Pick(0, 1, 8, 70))
	case 2:
		c.explSet = true
		if r.Chance(3, 4) {
			c.expl = r.Bytes(r.Range(0, 70))
		}
		c.ctl = int(r.Pick(0, 16))
	case 3:
		c.ctl = int(r.Pick(63, 64, 65, 200))
	}
	if r.Chance(1, 6) {
		c.conf = r.Bytes(r.Range(1, 30))
	}
	c.maxSize = int(r.Pick(1200, 1252, 1280, 1280, 1280, 1350, 1452))
	c.udpMin = 0
	if r.Chance(1, 3) {
		c.udpMin = int(r.Pick(1200, 1200, 1250, 1280, 1357, 1452))
	}
	hl := r.Range(200, 4000)
	switch r.Intn(6) {
	case 0:
		hl = r.Range(200, 1100)
	case 1:
		hl = int(r.Pick(4, 20, 63, 64, 65, 1100, 1150, 1200, 1250))
	}
	c.hello = c10Hello(r, hl)
	// plans
	switch r.Intn(5) {
	case 0:
		n := r.Range(1, 3)
		for i := 0; i < n; i++ {
			p := quic.InitialPacketPlan{}
			if r.Chance(2, 3) {
				p.CryptoLength = int(r.Pick(1, 62, 63, 64, 65, 300, 500, 999, 1000, 1100, 1200, 5000))
				if r.Bool() {
					p.CryptoLength = r.Range(1, 1150)
				}
			}
			if r.Chance(2, 3) {
				p.PacketSize = min(c.maxSize, int(r.Pick(1200, 1200, 1232, 1252, 1280, int64(c.maxSize)))) // in [1200, maxSize]: what dial accepts
			}
			c.plans = append(c.plans, p)
		}
	case 1:
		c.plans = []quic.InitialPacketPlan{{CryptoLength: r.Range(1, 1000), PacketSize: c.maxSize}, {PacketSize: int(r.Pick(0, 1200, int64(c.maxSize)))}}
	}
	// keep the flight short enough to print (the last plan entry repeats; long flights have
	// their own fixed cases): at most about 40 datagrams
	for _, p := range c.plans {
		if p.CryptoLength > 0 && len(c.hello) > 40*p.CryptoLength {
			c.hello = c.hello[:40*p.CryptoLength]
		}
	}
	// builder
	rnd := func() *quic.QUICRandomFrames {
		return &quic.QUICRandomFrames{MinPING: uint8(r.Range(0, 2)), MaxPING: uint8(r.Range(2, 5)), MinCRYPTO: uint8(r.Range(1, 3)), MaxCRYPTO: uint8(r.Range(3, 9)),
			MinPADDING: uint8(r.Range(1, 2)), MaxPADDING: uint8(r.Range(3, 6)), Length: uint16(r.Pick(0, 0, 1000, 1100, 1180))}
	}
	extra := func() []int {
		var e []int
		for i, n := 0, r.Range(0, 3); i < n; i++ {
			e = append(e, int(r.Pick(0, 0, 1, 10, 100, 400)))
		}
		return e
	}
	failAt := -1
	if r.Chance(1, 25) {
		failAt = r.Range(0, 2)
	}
	switch r.Intn(9) {
	case 0:
		c.bk, c.builder, c.check = "BPass", nil, nil
	case 1:
		c.bk, c.builder, c.check = "BPass", quic.QUICFrames{}, quic.QUICFrames{}
	case 2:
		k := r.Range(1, min(60, len(c.hello)-1))
		qf := quic.QUICFrames{quic.QUICFramePing{}, quic.QUICFrameCrypto{Offset: 0, Length: k}, quic.QUICFramePadding{Length: r.Range(1, 40)}, quic.QUICFrameCrypto{Offset: k, Length: 0}}
		c.proxy = &c10Proxy{inner: qf}
		c.bk, c.builder, c.check = "BEx", c.proxy, qf
		// a fixed list only fits a slice longer than k: one datagram, no CryptoLength cut (C09: a
		// non-tiling list panics)
		if len(c.hello) > 1000 {
			c.hello = c.hello[:r.Range(200, 1000)]
		}
		for i := range c.plans {
			c.plans[i].CryptoLength = 0
		}
	case 3:
		rf := rnd()
		c.isRandom = true
		c.bk, c.builder, c.check = c10BRandom(*rf), rf, rf
	case 4:
		m := &quic.QUICMultiDatagramFrames{PerDatagram: []quic.QUICRandomFrames{*rnd(), *rnd()}}
		c.isRandom = true
		c.bk, c.builder, c.check = c10BRandom(m.PerDatagram...), m, m
	case 5:
		c.custom = &c10Custom{extra: extra(), pings: r.Range(0, 2), failAt: failAt}
		c.bk, c.builder = "BPlain", c.custom
	case 6, 7:
		cx := &c10CustomEx{c10Custom{extra: extra(), pings: r.Range(0, 2), failAt: failAt}}
		c.custom = &cx.c10Custom
		c.bk, c.builder = "BEx", cx
	case 8:
		c.flight = &c10FlightB{scatter: r.Bool(), fail: r.Chance(1, 25)}
		if r.Bool() {
			c.flight.ndg = r.Range(1, 4)
		}
		for i, n := 0, r.Range(0, 3); i < n; i++ {
			c.flight.fill = append(c.flight.fill, int(r.Pick(0, -1, -1, -2, 600, 1100, 1250)))
		}
		c.bk, c.builder = "BFlight", c.flight
		if len(c.hello) > 3000 {
			c.hello = c.hello[:3000]
		}
		if len(c.hello) < 100 { // no empty pieces (clienthellod's reader refuses an empty CRYPTO frame)
			c.hello = c10Hello(r, r.Range(100, 400))
		}
	}
	return c
}

func (c *c10Case) spec() *quic.QUICSpec {
	sp := &quic.QUICSpec{UDPDatagramMinSize: c.udpMin}
	ips := &sp.InitialPacketSpec
	ips.SrcConnIDLength, ips.DestConnIDLength = len(c.scid), len(c.dcid)
	ips.InitPacketNumber = c.ipn
	for _, l := range c.lens {
		ips.InitPacketNumberLengths = append(ips.InitPacketNumberLengths, quic.PacketNumberLen(l))
	}
	ips.InitPacketNumberLength = quic.PacketNumberLen(c.single)
	ips.ClientTokenLength, ips.ClientTokenPrefix = c.ctl, c.prefix
	if c.explSet {
		if c.expl == nil {
			ips.TokenStore = c10NilStore{}
		} else {
			ips.TokenStore = &c10FixedTokenStore{c.expl}
		}
	}
	ips.FrameBuilder = c.builder
	ips.InitialPackets = c.plans
	return sp
}

func (c *c10Case) String() string {
	return fmt.Sprintf("v=%#x pnoffset=%d ", c.ver(), c.pnOffset) + fmt.Sprintf("dcid=%d scid=%d ipn=%d pnlens=%v pnlen=%d expl=%v/%x ctl=%d prefix=%x conf=%x builder=%s plans=%+v udpmin=%d maxsize=%d hello=%d%s",
		len(c.dcid), len(c.scid), c.ipn, c.lens, c.single, c.explSet, c.expl, c.ctl, c.prefix, c.conf, c.bk, c.plans, c.udpMin, c.maxSize, len(c.hello), c.desc)
}

func (c *c10Case) ver() uint32 {
	if c.version == 0 {
		return 1
	}
	return c.version
}

func c10OptHex(set bool, b []byte) string { return u.Opt(set, u.Hex(b)) }

func c10ErrClass(e string) int {
	switch {
	case strings.Contains(e, "does not fit the packet buffer"):
		return 1
	case strings.Contains(e, "verif:") || strings.Contains(e, "BuildFlight"):
		return 2
	default:
		return 3
	}
}

// c10RunCase packs the flight, emits the CASE and runs the monitors.
func c10RunCase(w *bufio.Writer, rep *c10Reporter, c *c10Case, dist map[string]int) {
	sp := c.spec()
	var confStore quic.TokenStore
	if c.conf != nil {
		confStore = &c10FixedTokenStore{c.conf}
	}
	info, dgs := quic.VerifUPackerFlight(quic.VerifUPackerCfg{Spec: sp, DestConnID: c.dcid, SrcConnID: c.scid, Hello: c.hello,
		MaxSize: c.maxSize, ConfStore: confStore, Version: c.ver(), MaxCalls: c10MaxCalls, FirstPNOffset: c.pnOffset})
	if info.SetupPanic != "" {
		rep.fail("upacker/panic", "setting up / packing the flight panicked: "+info.SetupPanic, c.String())
		return
	}
	// ---- observer + monitors ----
	var raw [][]byte
	for _, d := range dgs {
		if d.Err == "" {
			raw = append(raw, d.Data)
		}
	}
	expSpec := sp
	if c.udpMin > 1452 {
		// dial refuses such a spec; the packer's backstop pads to the buffer's capacity
		cp := *sp
		cp.UDPDatagramMinSize = 1452
		expSpec = &cp
	}
	e := &c10Expect{Name: "upacker", Spec: expSpec, MaxPacket: c.maxSize, ConfToken: c.conf, ExplTokSet: c.explSet, ExplToken: c.expl,
		HelloLen: len(c.hello), Hello: c.hello, CheckBuilder: c.check, HasCheckBuilder: true, PNOffset: c.pnOffset}
	var recs []c10BuildRec
	if c.custom != nil {
		recs = c.custom.recs
	}
	if c.proxy != nil {
		recs = c.proxy.recs
	}
	if recs != nil || c.flight != nil {
		e.CustomPlens = []int{}
		for _, rc := range recs {
			e.CustomPlens = append(e.CustomPlens, rc.OutLen)
		}
		if c.flight != nil {
			e.CustomPlens = append(e.CustomPlens, c.flight.plens...)
		}
	}
	errored := len(dgs) > 0 && dgs[len(dgs)-1].Err != ""
	e.Truncated = errored || len(dgs) >= c10MaxCalls
	var fails []c10Fail
	var pkts []*c10Pkt
	if len(raw) > 0 || !errored {
		fails, pkts, _ = c10CheckFlight(e, raw)
	}
	for _, f := range fails {
		if f.key == "capture" && (errored || len(c.hello) == 0) {
			continue
		}
		rep.fail("upacker/"+f.key, f.desc, c.String())
	}
	for i, d := range dgs {
		if d.ReleasePanic != "" {
			rep.fail("upacker/release-panic", fmt.Sprintf("datagram %d (%d bytes, buffer capacity %d): releasing the packet buffer after sending panics: %s", i, len(d.Data), d.BufCap, d.ReleasePanic), c.String())
		}
		if d.Err != "" && c10ErrClass(d.Err) == 3 {
			rep.fail("upacker/error", fmt.Sprintf("datagram %d: unexpected error %q", i, d.Err), c.String())
		}
		if d.Err == "" && (d.NumLong != 1 || d.HasShort) {
			rep.fail("upacker/coalesced", fmt.Sprintf("datagram %d: %d long header packets, short=%v", i, d.NumLong, d.HasShort), c.String())
		}
		// a returned "does not fit" error is legitimate only if the packet really exceeds the buffer
		if d.Err != "" && c10ErrClass(d.Err) == 1 && e.CustomPlens != nil && i < len(e.CustomPlens) && i < len(dgs) {
			tl := len(info.Token)
			hdr := 9 + len(c.dcid) + len(c.scid) + dgs[i].PeekPNLen + len(c10AppendVarint(nil, uint64(tl))) + tl
			need := hdr + e.CustomPlens[i] + 16
			if ps := c10PlanFor(c.plans, i).PacketSize; ps > need {
				need = ps
			}
			if need <= 1452 {
				rep.fail("upacker/spurious-error", fmt.Sprintf("datagram %d: %q although header %d + frames %d + 16 (PacketSize %d) fit 1452", i, d.Err, hdr, e.CustomPlens[i], c10PlanFor(c.plans, i).PacketSize), c.String())
			}
		}
	}
	// builder call arguments: index i, base offset = stream position
	if c.custom != nil || c.proxy != nil {
		pos := uint64(0)
		for i, rc := range recs {
			if rc.Idx >= 0 && rc.Idx != i {
				rep.fail("upacker/builder-index", fmt.Sprintf("BuildForDatagram call %d got datagram index %d", i, rc.Idx), c.String())
			}
			if rc.Base != pos {
				rep.fail("upacker/builder-base", fmt.Sprintf("builder call %d got base offset %d, the stream is at %d", i, rc.Base, pos), c.String())
			}
			pos += uint64(rc.DataLen)
		}
	}
	// ---- CASE ----
	plens := []int64{}
	skip := false
	for i, d := range dgs {
		switch {
		case c.flight != nil:
		case c.custom != nil || c.proxy != nil:
			if i < len(recs) {
				plens = append(plens, int64(recs[i].OutLen))
			}
		case d.Err != "":
			if c.isRandom {
				skip = true // the frame payload of a refused packet of a built-in random builder is not observable
			}
			plens = append(plens, -1)
		default:
			// built-in builder: the decrypted payload; when the packet has exactly its PacketSize a
			// lower bound (trailing PADDING stripped) -- the model's outputs are the same for
			// every payload length that fits
			pl := len(d.Data)
			if i < len(pkts) {
				pl = len(pkts[i].Payload)
				if ps := c10PlanForIdx(c, i).PacketSize; ps > 0 && pkts[i].PacketLen == ps {
					pl = len(bytes.TrimRight(pkts[i].Payload, "\x00"))
				}
			} else {
				skip = true
			}
			plens = append(plens, int64(pl))
		}
	}
	if c.flight != nil {
		for _, p := range c.flight.plens {
			plens = append(plens, int64(p))
		}
	}
	if skip {
		dist["skipped"]++
		return
	}
	var obs []string
	for _, d := range dgs {
		if d.Err != "" {
			obs = append(obs, u.App("DGErr", u.Z(int64(c10ErrClass(d.Err)))))
			continue
		}
		var fr []string
		if c.flight == nil {
			for _, f := range d.Frames {
				fr = append(fr, u.Pair(u.Z(f[0]), u.Z(f[1])))
			}
		}
		obs = append(obs, u.App("DG", u.Z(d.PN), u.Z(int64(d.PNLen)), u.Z(int64(d.HdrLen)), u.List(fr), u.Z(int64(d.LengthField)),
			u.Z(int64(d.PacketLen)), u.Z(int64(len(d.Data))), u.Z(int64(d.IdxAfter)), u.B(d.ReleasePanic != "")))
	}
	var plans []string
	for _, p := range c.plans {
		plans = append(plans, u.Pair(u.Z(int64(p.CryptoLength)), u.Z(int64(p.PacketSize))))
	}
	var lens []int64
	for _, l := range c.lens {
		lens = append(lens, int64(l))
	}
	tail := []byte{}
	if !c.explSet && info.TokenSet && len(info.Token) > len(c.prefix) && max(c.ctl, len(c.prefix)) > 0 {
		tail = info.Token[len(c.prefix):]
	}
	expl := "None"
	if c.explSet {
		expl = "(Some " + c10OptHex(c.expl != nil, c.expl) + ")"
	}
	var budgets []int64
	if c.flight != nil {
		for _, b := range c.flight.budgets {
			budgets = append(budgets, int64(b.MaxFrameBytes))
		}
	}
	nt := 0
	if len(dgs) > 0 {
		nt = 1
	}
	fmt.Fprintf(w, "CASE %d %s\n", nt, u.App("FlightCase",
		u.Z(int64(len(c.dcid))), u.Z(int64(len(c.scid))), u.ZU(c.ipn), u.Z(info.InitialPN+c.pnOffset), u.ZList(lens), u.Z(int64(c.single)),
		expl, u.Z(int64(c.ctl)), u.Hex(c.prefix), u.Hex(tail), c10OptHex(c.conf != nil, c.conf),
		c.bk, u.List(plans), u.Z(int64(c.udpMin)), u.Z(int64(c.maxSize)), u.Z(int64(len(c.hello))), u.ZList(plens),
		u.Z(info.InitialPN), c10OptHex(info.TokenSet, info.Token), u.ZList(budgets), u.List(obs)))
	// the serialised long header of every packet, as the independent observer read it
	for i, d := range dgs {
		if d.Err == "" && i < len(pkts) && pkts[i].Header != nil {
			fmt.Fprintf(w, "CASE 1 %s\n", u.App("HeaderCase", u.Z(int64(c.ver())), u.Hex(c.dcid), u.Hex(c.scid), u.Hex(info.Token),
				u.Z(int64(d.LengthField)), u.Z(d.PN), u.Z(int64(d.PNLen)), u.Hex(pkts[i].Header)))
			dist["HeaderCase"]++
		}
	}
	// the frame payload of pass-through datagrams, byte for byte
	if c.bk == "BPass" && len(c.hello) <= 1800 && dist["PayloadCase"] < 12+100*c10Thorough() {
		for i, d := range dgs {
			if d.Err != "" || i >= len(pkts) {
				break
			}
			var fr []string
			enc := 0
			for _, f := range d.Frames {
				fr = append(fr, u.Pair(u.Z(f[0]), u.Z(f[1])))
				enc += 1 + len(c10AppendVarint(nil, uint64(f[0]))) + len(c10AppendVarint(nil, uint64(f[1]))) + int(f[1])
			}
			fmt.Fprintf(w, "CASE 1 %s\n", u.App("PayloadCase", u.Hex(c.hello), u.List(fr), u.Z(int64(len(pkts[i].Payload)-enc)), u.Hex(pkts[i].Payload)))
			dist["PayloadCase"]++
		}
	}
	// the whole protected packet, byte for byte (concrete Initial keys in the model): the first
	// packet of a few short flights per run (AES-GCM in Gallina costs time per byte)
	if len(dgs) > 0 && dgs[0].Err == "" && len(pkts) > 0 && len(pkts[0].Payload) <= 400+800*c10Thorough() && dist[fmt.Sprintf("WireCase-v%#x", c.ver())] < 3+20*c10Thorough() {
		d, p := dgs[0], pkts[0]
		fmt.Fprintf(w, "CASE 1 %s\n", u.App("WireCase", u.Z(int64(c.ver())), u.Hex(c.dcid), u.Hex(c.scid), u.Hex(info.Token),
			u.Z(int64(d.LengthField)), u.Z(d.PN), u.Z(int64(d.PNLen)), u.Hex(p.Payload), u.Hex(d.Data[:p.PacketLen])))
		dist["WireCase"]++
		dist[fmt.Sprintf("WireCase-v%#x", c.ver())]++
	}
	dist[strings.Fields(strings.Trim(c.bk, "()"))[0]]++
	dist[fmt.Sprintf("datagrams=%d", len(dgs))]++
	if errored {
		dist[fmt.Sprintf("error-class-%d", c10ErrClass(dgs[len(dgs)-1].Err))]++
	}
	if len(dist) > 0 && dist["samples"] < 3 {
		dist["samples"]++
		fmt.Fprintf(w, "SAMPLE\t%s => %d datagrams\n", c.String(), len(dgs))
	}
}

// c10MaxCalls: far above any flight (a datagram carries at least one CRYPTO byte and the
// generated ClientHellos have at most 4000 bytes): the unit never cuts a flight short.
const c10MaxCalls = 5000

// c10SynthTokenLen: the synthesised token's length (0 with an explicit TokenStore).
func c10SynthTokenLen(sp *quic.QUICSpec) int {
	if sp.InitialPacketSpec.TokenStore != nil {
		return 0
	}
	return max(sp.InitialPacketSpec.ClientTokenLength, len(sp.InitialPacketSpec.ClientTokenPrefix))
}

func c10Thorough() int {
	if os.Getenv("VERIF_TIER") == "thorough" {
		return 1
	}
	return 0
}

func c10PlanFor(plans []quic.InitialPacketPlan, i int) quic.InitialPacketPlan {
	if len(plans) == 0 {
		return quic.InitialPacketPlan{}
	}
	if i >= len(plans) {
		i = len(plans) - 1
	}
	return plans[i]
}

// c10PlanForIdx: the plan the spec promises for datagram i.
func c10PlanForIdx(c *c10Case, i int) quic.InitialPacketPlan { return c10PlanFor(c.plans, i) }

// ---- targeted cases (witnesses of the candidate findings) ---------------------------------

func c10Targeted(r *u.Rng) []*c10Case {
	base := func() *c10Case {
		return &c10Case{dcid: r.Bytes(8), scid: nil, ipn: 1, single: 1, maxSize: 1280, hello: c10Hello(r, 1700), bk: "BPass"}
	}
	var out []*c10Case
	// (a) nil builder, two plans: does entry 1 govern datagram 1?
	c := base()
	c.plans = []quic.InitialPacketPlan{{CryptoLength: 999, PacketSize: 1200}, {PacketSize: 1250}}
	c.desc = " [targeted: plan index with nil builder]"
	out = append(out, c)
	c = base()
	c.builder, c.check = quic.QUICFrames{}, quic.QUICFrames{}
	c.plans = []quic.InitialPacketPlan{{CryptoLength: 400}, {CryptoLength: 700}, {}}
	c.desc = " [targeted: plan index with empty QUICFrames]"
	out = append(out, c)
	// (b) UDPDatagramMinSize beyond the packet buffer
	c = base()
	c.hello = c10Hello(r, 500)
	c.udpMin = 1500
	c.desc = " [targeted: UDPDatagramMinSize 1500]"
	out = append(out, c)
	// (c) PacketSize alone (no CryptoLength) with a ClientHello longer than one packet
	c = base()
	c.hello = c10Hello(r, 1734)
	c.plans = []quic.InitialPacketPlan{{PacketSize: 1232}}
	c.desc = " [targeted: nil builder, PacketSize 1232, 1734-byte ClientHello]"
	out = append(out, c)
	// (d) Chrome_146's shape: many CRYPTO frames, Length 1215, two datagrams
	for i := 0; i < 6; i++ {
		c = base()
		c.hello = c10Hello(r, 1734)
		c.lens, c.single = []int{1, 2}, 0
		rf := &quic.QUICRandomFrames{MinPING: 1, MaxPING: 4, MinCRYPTO: 6, MaxCRYPTO: 14, MinPADDING: 2, MaxPADDING: 6, Length: 1215}
		c.isRandom = true
		c.bk, c.builder, c.check = c10BRandom(*rf), rf, rf
		if i >= 4 {
			m := &quic.QUICMultiDatagramFrames{PerDatagram: []quic.QUICRandomFrames{*rf, {MinPING: 0, MaxPING: 2, MinCRYPTO: 12, MaxCRYPTO: 13, MinPADDING: 1, MaxPADDING: 3, Length: 1100}}}
			c.bk, c.builder, c.check = c10BRandom(m.PerDatagram...), m, m
		}
		c.desc = " [targeted: Chrome_146-shaped random builder]"
		out = append(out, c)
	}
	// (f) flight builder filling exactly the offered budget while the packet number grows
	c = base()
	c.lens, c.single = []int{1, 4}, 0
	c.flight = &c10FlightB{fill: []int{-1}}
	c.bk, c.builder = "BFlight", c.flight
	c.plans = []quic.InitialPacketPlan{{PacketSize: 1200}, {PacketSize: 1200}}
	c.desc = " [targeted: flight budget vs per-packet packet-number length]"
	out = append(out, c)
	c = base()
	c.lens, c.single = []int{1, 4}, 0
	c.flight = &c10FlightB{fill: []int{-1}}
	c.bk, c.builder = "BFlight", c.flight
	c.desc = " [targeted: flight budget vs per-packet packet-number length, no plan]"
	out = append(out, c)
	// (g) a payload too short for the header-protection sample
	c = base()
	c.hello = c10Hello(r, 1)
	cx := &c10CustomEx{c10Custom{failAt: -1}}
	c.custom = &cx.c10Custom
	c.bk, c.builder = "BEx", cx
	c.desc = " [targeted: 4-byte frame payload, 1-byte packet number]"
	out = append(out, c)
	// (h) exact size: frames that just fit / just do not fit
	for _, ex := range []int{0, 1} {
		c = base()
		c.hello = c10Hello(r, 1000)
		// header: 9 + 8 + 0 + 1 + 1 = 19; frames: 2 CRYPTO frames = (1+1+2+995) + (1+1+1+5) = 1007
		cx := &c10CustomEx{c10Custom{extra: []int{1200 - 19 - 16 - 1007 + ex}, failAt: -1}}
		c.custom = &cx.c10Custom
		c.bk, c.builder = "BEx", cx
		c.plans = []quic.InitialPacketPlan{{PacketSize: 1200}}
		c.desc = fmt.Sprintf(" [targeted: frames fill PacketSize 1200 exactly +%d]", ex)
		out = append(out, c)
	}
	// (j) token synthesis: every relation between ClientTokenLength and the prefix length, both
	// versions (seeded change C10-e: a prefix longer than the length must not be truncated)
	for ti, tp := range [][2]int{{0, 1}, {1, 1}, {1, 3}, {3, 1}, {7, 8}, {8, 8}, {9, 8}, {70, 1}, {0, 8}, {63, 0}, {64, 0}, {2, 70}} {
		c = base()
		c.hello = c10Hello(r, 300)
		c.ctl, c.prefix = tp[0], r.Bytes(tp[1])
		if ti%2 == 1 {
			c.version = 0x6b3343cf
		}
		c.desc = fmt.Sprintf(" [targeted: token length %d, prefix of %d bytes]", tp[0], tp[1])
		out = append(out, c)
	}
	// (k) long flights: no bound on the number of Initial datagrams (17 and 120 datagrams)
	c = base()
	c.plans = []quic.InitialPacketPlan{{CryptoLength: 100, PacketSize: 1200}}
	c.desc = " [targeted: 17 datagrams]"
	out = append(out, c)
	c = base()
	c.hello = c10Hello(r, 1200)
	c.lens, c.single = []int{1, 2, 1}, 0
	c.plans = []quic.InitialPacketPlan{{CryptoLength: 10}}
	c.desc = " [targeted: 120 datagrams]"
	out = append(out, c)
	// (i) CryptoLength at every varint width of the write offset
	for _, cl := range []int{1, 63, 64, 1100} {
		c = base()
		c.hello = c10Hello(r, 3900)
		c.plans = []quic.InitialPacketPlan{{CryptoLength: 63}, {CryptoLength: cl}, {CryptoLength: cl}, {CryptoLength: 16383}}
		cx := &c10CustomEx{c10Custom{failAt: -1}}
		c.custom = &cx.c10Custom
		c.bk, c.builder = "BEx", cx
		c.desc = " [targeted: CryptoLength series]"
		out = append(out, c)
	}
	return out
}

// ---- whole dials -> DialCase -------------------------------------------------------------

func c10DialCase(w *bufio.Writer, rep *c10Reporter, r *u.Rng, dist map[string]int) {
	name := parrotNames[r.Intn(len(parrotNames))]
	sp, err := specFor(name)
	if err != nil {
		return
	}
	maxPacket := int(r.Pick(1280, 1280, 1200, 1252))
	e := &c10Expect{Name: name, Spec: sp, MaxPacket: maxPacket, HelloLen: -1}
	c10Derive(r, sp, e, maxPacket)
	ips := &sp.InitialPacketSpec
	// boundary values of what dial must accept / refuse
	switch r.Intn(10) {
	case 0:
		ips.InitPacketNumber = []uint64{1<<62 - 1, 1 << 62, 1<<64 - 1, 70000, 255, 256, 65535, 65536}[r.Intn(8)]
		ips.InitialPackets = nil
	case 1:
		sp.UDPDatagramMinSize = int(r.Pick(-1, 1, 1199, 1200, 1400, 1453, 1500)) // simnet drops datagrams above 1400 bytes
	case 2:
		ips.InitialPackets = []quic.InitialPacketPlan{{PacketSize: int(r.Pick(1199, 1200, int64(maxPacket), int64(maxPacket)+1, 1400))}}
		ips.FrameBuilder = nil
	case 3:
		ips.DestConnIDLength = int(r.Pick(0, 1, 7, 8, 20, 21))
	case 4:
		ips.SrcConnIDLength = int(r.Pick(0, 20, 21))
	case 5:
		ips.InitPacketNumberLengths = []quic.PacketNumberLen{quic.PacketNumberLen(r.Pick(1, 2, 4, 5, 0)), 2}
	case 6: // a token that leaves (almost) no room
		ips.TokenStore, e.ExplTokSet, e.ExplToken = nil, false, nil
		ips.ClientTokenPrefix = nil
		ips.ClientTokenLength = int(r.Pick(600, 1000, int64(maxPacket)-80, int64(maxPacket)-60, int64(maxPacket)-40, int64(maxPacket), 1300, 2000))
		ips.InitialPackets = nil
	case 7: // a CRYPTO split the packet cannot hold
		ips.InitialPackets = []quic.InitialPacketPlan{{CryptoLength: int(r.Pick(900, 1100, 1150, 1190, int64(maxPacket)-30, 1300)), PacketSize: int(r.Pick(0, 0, 1200))}, {}}
		ips.FrameBuilder = nil
	}
	conf := &quic.Config{InitialPacketSize: uint16(maxPacket)}
	if r.Chance(1, 4) {
		tok := r.Bytes(r.Range(1, 30))
		conf.TokenStore = &c10FixedTokenStore{tok}
		e.ConfToken = tok
	}
	fl, err := c10Dial(sp, conf, true)
	if err != nil {
		rep.fail("upacker/dial/capture", fmt.Sprint("dial failed: ", err), c10SpecString(sp))
		return
	}
	// --- ValidateCase: what dial refuses ---
	var lens []int64
	for _, l := range ips.InitPacketNumberLengths {
		lens = append(lens, int64(l))
	}
	var plans []string
	for _, p := range ips.InitialPackets {
		plans = append(plans, u.Pair(u.Z(int64(p.CryptoLength)), u.Z(int64(p.PacketSize))))
	}
	rejected := c10Rejected(fl)
	fmt.Fprintf(w, "CASE 1 %s\n", u.App("ValidateCase",
		u.Z(int64(ips.DestConnIDLength)), u.Z(int64(ips.SrcConnIDLength)), u.ZU(ips.InitPacketNumber), u.ZList(lens), u.Z(int64(ips.InitPacketNumberLength)),
		u.Z(int64(sp.UDPDatagramMinSize)), u.List(plans), u.Z(int64(maxPacket)), u.Z(int64(c10SynthTokenLen(sp))), u.B(rejected)))
	dist["ValidateCase"]++
	why := c10SpecInvalid(sp, maxPacket)
	switch {
	case why != "" && rejected:
		dist["ValidateCase-rejected"]++
		return
	case why != "":
		rep.fail("upacker/dial/not-rejected/"+why, fmt.Sprintf("the spec is not sendable (%s) but the dial sent %d datagram(s) instead of failing with an error (%q)", why, len(fl.Datagrams), fl.DialErr), c10SpecString(sp))
		if len(fl.Datagrams) > 0 {
			fails, _, _ := c10CheckFlight(e, fl.Datagrams)
			for _, f := range fails {
				rep.fail("upacker/dial/"+f.key, f.desc, c10SpecString(sp))
			}
		}
		return
	case rejected:
		rep.fail("upacker/dial/spurious-reject", "the dial refused an acceptable spec: "+fl.DialErr, c10SpecString(sp))
		return
	}
	if len(fl.Datagrams) == 0 && strings.Contains(fl.DialErr, "does not fit the packet buffer") {
		dist["dial-error-buffer"]++ // the builder's output does not fit the packet buffer: an error, as C10_fits_or_error says
		return
	}
	if len(fl.Datagrams) == 0 {
		rep.fail("upacker/dial/capture", "no datagram: "+fl.DialErr, c10SpecString(sp))
		return
	}
	// --- DialCase: the first packet of an accepted spec ---
	want := int64(ips.InitPacketNumber)
	p, err := c10Open(fl.Datagrams[0], nil, -1, want)
	if err != nil {
		rep.fail("upacker/dial/decryptable", err.Error(), c10SpecString(sp))
		return
	}
	expl := "None"
	if e.ExplTokSet {
		expl = "(Some " + c10OptHex(true, e.ExplToken) + ")"
	}
	tail := []byte{}
	if !e.ExplTokSet && len(p.Token) > len(ips.ClientTokenPrefix) && max(ips.ClientTokenLength, len(ips.ClientTokenPrefix)) > 0 {
		tail = p.Token[len(ips.ClientTokenPrefix):]
	}
	fmt.Fprintf(w, "CASE 1 %s\n", u.App("DialCase",
		u.Z(int64(ips.DestConnIDLength)), u.Z(int64(ips.SrcConnIDLength)), u.ZU(ips.InitPacketNumber), u.ZList(lens), u.Z(int64(ips.InitPacketNumberLength)),
		expl, u.Z(int64(ips.ClientTokenLength)), u.Hex(ips.ClientTokenPrefix), u.Hex(tail), c10OptHex(e.ConfToken != nil, e.ConfToken),
		u.Z(int64(len(p.DCID))), u.Z(int64(len(p.SCID))), u.Z(p.PN), u.Z(int64(p.PNLen)), c10OptHex(len(p.Token) > 0, p.Token), u.Z(int64(p.HdrLen))))
	dist["DialCase"]++
}

func runUPacker(w *bufio.Writer, seed uint64, n int, args []string) {
	r := u.NewRng(seed)
	rep := &c10Reporter{w: w, seen: map[string]int{}}
	dist := map[string]int{}
	defer func() {
		if p := recover(); p != nil {
			fmt.Fprintf(w, "MONFAIL\tupacker/panic\t%v\t\n", p)
		}
	}()
	for _, c := range c10Targeted(r.Fork()) {
		c10RunCase(w, rep, c, dist)
	}
	for i := 0; i < n; i++ {
		c10RunCase(w, rep, c10GenCase(r.Fork()), dist)
	}
	w.Flush()
	c10Child(w, "upacker/dial/crash", "upacker-dials", fmt.Sprint(r.U64()), fmt.Sprint(n/8+8))
	var ks []string
	for k := range dist {
		ks = append(ks, k)
	}
	sort.Strings(ks)
	for _, k := range ks {
		if k != "samples" {
			fmt.Fprintf(w, "DIST\t%s\t%d\n", k, dist[k])
		}
	}
}

// c10VNCase: one Dial re-created after Version Negotiation; the (packet number, length) of
// every client Initial of both connections goes to the model.
func c10VNCase(w *bufio.Writer, rep *c10Reporter, r *u.Rng, dist map[string]int) {
	name := []string{"Chrome_146_IPv4", "Chrome_146_IPv6", "Chrome_115_IPv4", "Firefox_116A"}[r.Intn(4)]
	sp, err := specFor(name)
	if err != nil {
		return
	}
	ips := &sp.InitialPacketSpec
	if r.Bool() {
		ips.InitPacketNumber = uint64(r.Range(0, 9))
		ips.InitPacketNumberLength = quic.PacketNumberLen(r.Range(0, 4))
		ips.InitPacketNumberLengths = nil
		for i, k := 0, r.Range(0, 4); i < k; i++ {
			ips.InitPacketNumberLengths = append(ips.InitPacketNumberLengths, quic.PacketNumberLen(r.Range(1, 4)))
		}
	}
	pkts, fl, err := c10DialVN(sp)
	if err != nil {
		rep.fail("upacker/dial/vn-capture", err.Error(), c10SpecString(sp)+" dialErr="+fl.DialErr)
		return
	}
	for _, f := range c10CheckVN(sp, pkts) {
		rep.fail("upacker/dial/"+f.key, f.desc, name+" "+c10SpecString(sp))
	}
	var lens []int64
	for _, l := range ips.InitPacketNumberLengths {
		lens = append(lens, int64(l))
	}
	var obs []string
	for _, p := range pkts {
		obs = append(obs, u.Pair(u.Z(p.PN), u.Z(int64(p.PNLen))))
	}
	fmt.Fprintf(w, "CASE 1 %s\n", u.App("VNCase", u.ZU(ips.InitPacketNumber), u.ZList(lens), u.Z(int64(ips.InitPacketNumberLength)), u.List(obs)))
	dist["VNCase"]++
}

// c10StallDial: a header exactly at the limit the 4-byte room check accepted (Chrome_115:
// header 20 + token; 20 + 1240 + 16 + 4 = 1280): the flight sends one CRYPTO byte per datagram
// up to write offset 63 and then stalls; the dial times out without an error.
func c10StallDial(w *bufio.Writer, rep *c10Reporter, dist map[string]int) {
	sp, err := specFor("Chrome_115_IPv4")
	if err != nil {
		return
	}
	sp.InitialPacketSpec.ClientTokenLength = 1240
	sp.InitialPacketSpec.FrameBuilder = nil // pass-through (the parrot's builder would fail with the buffer error)
	fl, derr := c10Dial(sp, &quic.Config{}, true)
	dist["stall-dial"]++
	if derr != nil {
		rep.fail("upacker/dial/capture", derr.Error(), "stall dial")
		return
	}
	fmt.Fprintf(w, "INFO\tChrome_115 with ClientTokenLength 1240: %d datagrams, rejected=%v, dial error %q\n", len(fl.Datagrams), c10Rejected(fl), fl.DialErr)
	if why := c10SpecInvalid(sp, 1280); why != "" && !c10Rejected(fl) {
		rep.fail("upacker/dial/not-rejected/"+why, fmt.Sprintf("the spec is not sendable (%s: the flight stalls at write offset 64) but the dial sent %d datagram(s) instead of failing with an error (%q)", why, len(fl.Datagrams), fl.DialErr), c10SpecString(sp))
	}
}

func runUPackerDials(w *bufio.Writer, seed uint64, n int, _ []string) {
	r := u.NewRng(seed)
	rep := &c10Reporter{w: w, seen: map[string]int{}}
	dist := map[string]int{}
	c10StallDial(w, rep, dist)
	for i := 0; i < n; i++ {
		c10DialCase(w, rep, r.Fork(), dist)
		w.Flush()
	}
	for i := 0; i < n/6+4; i++ {
		c10VNCase(w, rep, r.Fork(), dist)
		w.Flush()
	}
	for _, k := range []string{"DialCase", "ValidateCase", "ValidateCase-rejected", "VNCase"} {
		fmt.Fprintf(w, "DIST\t%s\t%d\n", k, dist[k])
	}
}
