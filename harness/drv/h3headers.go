//go:build verif

package main

// Unit h3headers (property C19): generated field lists are fed to the REAL parseHeaders /
// parseTrailers / requestFromHeaders / updateResponseFromHeaders of /repo/http3 through a
// list-backed qpack.DecodeFunc. Every result is (i) printed as a correspondence CASE for the
// Gallina model coq/H3Headers and (ii) judged by property monitors written from RFC 9114
// section 4 / RFC 9110 (they share no code with the model or with headers.go).

import (
	"bufio"
	"fmt"
	"net/http"
	"net/url"
	"os"
	"sort"
	"strings"

	"github.com/quic-go/qpack"
	"github.com/refraction-networking/uquic/http3"
	u "github.com/refraction-networking/uquic/internal/verifutil"
)

func init() {
	units["h3headers"] = runH3Headers
	genSources = append(genSources, http3.VerifTables)
}

type hf = qpack.HeaderField

// ---------------------------------------------------------------------------------------
// The reference rules, from the RFCs (independent of the implementation)
// ---------------------------------------------------------------------------------------

// RFC 9110 5.6.2: tchar
func rfcTchar(b byte) bool {
	switch {
	case b >= '0' && b <= '9', b >= 'a' && b <= 'z', b >= 'A' && b <= 'Z':
		return true
	}
	return strings.IndexByte("!#$%&'*+-.^_`|~", b) >= 0
}

func rfcToken(s string) bool {
	if s == "" {
		return false
	}
	for i := 0; i < len(s); i++ {
		if !rfcTchar(s[i]) {
			return false
		}
	}
	return true
}

// RFC 9110 5.5: field-value bytes are HTAB, SP, VCHAR, obs-text
func rfcValueOK(s string) bool {
	for i := 0; i < len(s); i++ {
		b := s[i]
		if b == '\t' || (b >= 0x20 && b != 0x7f) {
			continue
		}
		return false
	}
	return true
}

func hasUpper(s string) bool {
	for i := 0; i < len(s); i++ {
		if s[i] >= 'A' && s[i] <= 'Z' {
			return true
		}
	}
	return false
}

func allDigits(s string) bool {
	if s == "" {
		return false
	}
	for i := 0; i < len(s); i++ {
		if s[i] < '0' || s[i] > '9' {
			return false
		}
	}
	return true
}

// value of a digit string compared with 2^63-1 without overflow
func fitsInt63(s string) bool {
	s = strings.TrimLeft(s, "0")
	const max = "9223372036854775807"
	if len(s) != len(max) {
		return len(s) < len(max)
	}
	return s <= max
}

// RFC 9114 4.2: connection-specific fields
var rfcConnSpecific = map[string]bool{"connection": true, "keep-alive": true, "proxy-connection": true, "transfer-encoding": true, "upgrade": true}

var rfcReqPseudo = map[string]bool{":method": true, ":scheme": true, ":authority": true, ":path": true, ":protocol": true}
var rfcRspPseudo = map[string]bool{":status": true}

// RFC 9110 6.5.1 (+ the explicit lists of RFC 7230 4.1.2): fields that must not be trailers
var rfcNoTrailer = map[string]bool{
	"transfer-encoding": true, "content-length": true, "host": true, "cache-control": true, "expect": true,
	"max-forwards": true, "pragma": true, "range": true, "te": true, "authorization": true,
	"proxy-authorization": true, "proxy-authenticate": true, "www-authenticate": true, "content-encoding": true,
	"content-type": true, "content-range": true, "trailer": true, "connection": true, "keep-alive": true,
	"proxy-connection": true, "realm": true,
}

type kind int

const (
	kRequest kind = iota
	kResponse
	kTrailer
)

// sectionViolations lists the rules of C19(a) that fs violates ("" = none).
func sectionViolations(fs []hf, k kind, limit int) []string {
	var v []string
	add := func(s string) {
		for _, x := range v {
			if x == s {
				return
			}
		}
		v = append(v, s)
	}
	size := 0
	seenRegular := false
	pseudoCount := map[string]int{}
	pseudoEarlierNonEmpty := map[string]bool{}
	var cls []string
	for _, f := range fs {
		size += len(f.Name) + len(f.Value) + 32
		if hasUpper(f.Name) {
			add("name-uppercase")
		}
		if !rfcValueOK(f.Value) {
			add("value-bytes")
		}
		if len(f.Name) > 0 && f.Name[0] == ':' {
			if k == kTrailer {
				add("pseudo-in-trailer")
				continue
			}
			if seenRegular {
				add("pseudo-after-regular")
			}
			known := rfcReqPseudo[f.Name] || rfcRspPseudo[f.Name]
			if !known {
				add("pseudo-unknown")
			} else if (k == kRequest) != rfcReqPseudo[f.Name] {
				add("pseudo-wrong-kind")
			}
			pseudoCount[f.Name]++
			if pseudoCount[f.Name] > 1 {
				if pseudoEarlierNonEmpty[f.Name] {
					add("pseudo-duplicate")
				} else {
					add("pseudo-duplicate-empty-first")
				}
			}
			if f.Value != "" {
				pseudoEarlierNonEmpty[f.Name] = true
			} else if known {
				// RFC 9114 4.3.1: "contains invalid values for those pseudo-header fields is malformed";
				// no pseudo-header field has a valid empty value
				add("pseudo-empty-value")
			}
			continue
		}
		seenRegular = true
		if !rfcToken(f.Name) {
			add("name-not-token")
		}
		if rfcConnSpecific[f.Name] {
			add("connection-specific")
		}
		if f.Name == "te" && f.Value != "trailers" {
			add("te-not-trailers")
		}
		if f.Name == "content-length" {
			cls = append(cls, f.Value)
		}
		if k == kTrailer && (rfcNoTrailer[f.Name] || strings.HasPrefix(f.Name, "if-")) {
			add("forbidden-trailer")
		}
	}
	if k != kTrailer && len(cls) > 0 {
		same := true
		for _, c := range cls {
			if c != cls[0] {
				same = false
			}
		}
		switch {
		case !same:
			add("content-length-contradicting")
		case cls[0] == "":
			add("content-length-empty")
		case !allDigits(cls[0]):
			add("content-length-not-numeric")
		}
	}
	if size > limit {
		add("size")
	}
	return v
}

// the violation that explains a finding gets its own stable key
var violationKey = map[string]string{
	"pseudo-duplicate-empty-first": "h3headers/dup-pseudo-empty-first",
	"content-length-empty":         "h3headers/content-length-empty-accepted",
}


func fieldsText(fs []hf) string {
	s := make([]string, len(fs))
	for i, f := range fs {
		s[i] = fmt.Sprintf("%q=%q", f.Name, f.Value)
	}
	return "[" + strings.Join(s, ", ") + "]"
}

// ---------------------------------------------------------------------------------------
// printing
// ---------------------------------------------------------------------------------------

func coqFields(fs []hf) string {
	s := make([]string, len(fs))
	for i, f := range fs {
		s[i] = u.Pair(u.Hex([]byte(f.Name)), u.Hex([]byte(f.Value)))
	}
	return u.List(s)
}

func coqHeader(h http.Header) string {
	keys := make([]string, 0, len(h))
	for k := range h {
		keys = append(keys, k)
	}
	sort.Strings(keys)
	s := make([]string, len(keys))
	for i, k := range keys {
		vs := make([]string, len(h[k]))
		for j, v := range h[k] {
			vs[j] = u.Hex([]byte(v))
		}
		s[i] = u.Pair(u.Hex([]byte(k)), u.List(vs))
	}
	return u.List(s)
}

func coqTrailerKeys(h http.Header) string {
	if h == nil {
		return "None"
	}
	keys := make([]string, 0, len(h))
	for k := range h {
		keys = append(keys, k)
	}
	sort.Strings(keys)
	s := make([]string, len(keys))
	for i, k := range keys {
		s[i] = u.Hex([]byte(k))
	}
	return u.Opt(true, u.List(s))
}

func hs(s string) string { return u.Hex([]byte(s)) }

var reasonPrefixes = []struct {
	p string
	c int
}{
	{"header field is not lower-case", 1}, {"invalid header field value", 2}, {"received pseudo header", 3},
	{"unknown pseudo header", 4}, {"duplicate pseudo header", 5}, {"invalid request pseudo header", 6},
	{"invalid response pseudo header", 7}, {"invalid header field name", 8}, {"invalid TE header", 9},
	{"contradicting content lengths", 10}, {"invalid content length", 11}, {"http3: received pseudo header in trailer", 12},
	{"invalid trailer field name", 13}, {"extended CONNECT:", 14}, {":path must be empty and :authority", 15},
	{":path, :authority and :method must not be empty", 16}, {":protocol must be empty", 17},
	{"missing :status field", 18}, {"invalid status code", 19}, {"parse ", 20}, {"empty pseudo header", 21}, {":scheme must be empty", 22},
}

// reasonCode maps the error text to a small enum; 0 = not recognised (the model treats 0 as a
// wildcard, so rewording a message cannot alarm).
func reasonCode(err error) int {
	if err == nil {
		return 0
	}
	m := err.Error()
	for _, rp := range reasonPrefixes {
		if strings.HasPrefix(m, rp.p) {
			return rp.c
		}
	}
	return 0
}

func coqErr(err error, nlog int) string {
	return u.App("RErr", u.Z(int64(http3.VerifErrClass(err))), u.Z(int64(reasonCode(err))), u.Z(int64(nlog)))
}

// ---------------------------------------------------------------------------------------
// generators
// ---------------------------------------------------------------------------------------

var (
	poolPseudo  = []string{":path", ":method", ":authority", ":scheme", ":status", ":protocol"}
	poolBadPs   = []string{":foo", ":Path", ":", ":path ", ":statu", ":\xc3\xa9"}
	poolRegular = []string{"accept", "x-a", "cookie", "content-length", "te", "trailer", "content-type", "user-agent", "x", "a-b-c", "x_y", "1", "set-cookie", "x-t1", "grpc-status", "date"}
	poolConn    = []string{"connection", "keep-alive", "proxy-connection", "transfer-encoding", "upgrade"}
	poolBadName = []string{"", "Accept", "x y", "x:y", "x\x00", "\xc3\xa9", "\xff", "x\x7f", "X-A", "a(b", "a,b", "x-\xc3\x9f", "accepT", "\xc3\x89"}
	poolNoTrail = []string{"authorization", "content-type", "host", "if-match", "if-", "te", "trailer", "content-length", "www-authenticate", "realm", "range", "cache-control"}
	poolValue   = []string{"", "a", "/", "/a?b=c", "GET", "CONNECT", "POST", "https", "example.com", "example.com:443", "200", "404", "abc", "websocket",
		"trailers", "gzip", "0", "5", "05", "42", "x-t1, x-t2", "c=1", "d=2", "a b", "a\tb", "\xc3\xa9", "\xff", "*", "http://evil/x", "a", "x-t1,,  Te ,x y"}
	poolBadVal = []string{"a\x00", "a\nb", "a\rb", "\x7f", "\x1f", "\x00"}
	poolCL     = []string{"0", "5", "05", "42", "9223372036854775807", "9223372036854775808", "18446744073709551616", "-5", "+5", "1_0", " 5", "5 ", "", "0x10", "5,5", "000000000000000000000000000007"}
	poolStatus = []string{"200", "404", "100", "204", "+200", "-1", "99999", "2000000000000000000", "9223372036854775807", "9223372036854775808", "-9223372036854775808", "-9223372036854775809", "abc", "", "20x", "+", "-", "007", "1_0"}
)

func pick(r *u.Rng, xs []string) string { return xs[r.Intn(len(xs))] }

func genName(r *u.Rng, k kind) string {
	switch x := r.Intn(100); {
	case x < 45:
		if k == kTrailer && r.Chance(1, 2) {
			return pick(r, []string{"x-t1", "grpc-status", "x-a", "server-timing", "a-b-c"})
		}
		return pick(r, poolRegular)
	case x < 65:
		return pick(r, poolPseudo)
	case x < 72:
		return pick(r, poolBadPs)
	case x < 80:
		return pick(r, poolConn)
	case x < 90:
		return pick(r, poolBadName)
	default:
		return pick(r, poolNoTrail)
	}
}

func genValue(r *u.Rng, name string) string {
	if name == "content-length" && r.Chance(4, 5) {
		return pick(r, poolCL)
	}
	if name == ":status" && r.Chance(4, 5) {
		return pick(r, poolStatus)
	}
	if name == "te" && r.Chance(1, 2) {
		return "trailers"
	}
	if r.Chance(1, 14) {
		return pick(r, poolBadVal)
	}
	return pick(r, poolValue)
}

func genField(r *u.Rng, k kind) hf {
	n := genName(r, k)
	return hf{Name: n, Value: genValue(r, n)}
}

func shuffleFields(r *u.Rng, fs []hf) {
	for i := len(fs) - 1; i > 0; i-- {
		j := r.Intn(i + 1)
		fs[i], fs[j] = fs[j], fs[i]
	}
}

func template(r *u.Rng, k kind) []hf {
	var fs []hf
	switch k {
	case kRequest:
		switch r.Intn(5) {
		case 0: // CONNECT
			fs = []hf{{":method", "CONNECT"}, {":authority", "example.com:443"}}
		case 1: // extended CONNECT
			fs = []hf{{":method", "CONNECT"}, {":protocol", "websocket"}, {":scheme", "https"}, {":path", "/chat"}, {":authority", "example.com"}}
		default:
			fs = []hf{{":method", pick(r, []string{"GET", "POST", "HEAD", "OPTIONS"})}, {":scheme", "https"}, {":authority", "example.com"},
				{":path", pick(r, []string{"/", "/a?b=c", "*", "/x/y"})}}
		}
		if r.Chance(1, 2) {
			shuffleFields(r, fs)
		}
	case kResponse:
		fs = []hf{{":status", pick(r, []string{"200", "404", "100", "204", "301"})}}
	}
	n := r.Intn(4)
	for i := 0; i < n; i++ {
		var name string
		if k == kTrailer {
			name = pick(r, []string{"x-t1", "grpc-status", "x-a", "server-timing", "a-b-c", "x"})
		} else {
			name = pick(r, poolRegular)
		}
		v := pick(r, poolValue)
		switch name {
		case "content-length":
			v = pick(r, []string{"0", "5", "42", "05"})
		case "te":
			v = "trailers"
		}
		fs = append(fs, hf{name, v})
	}
	return fs
}

func mutate(r *u.Rng, k kind, fs []hf) []hf {
	fs = append([]hf(nil), fs...)
	ins := func(f hf) {
		p := r.Intn(len(fs) + 1)
		fs = append(fs, hf{})
		copy(fs[p+1:], fs[p:])
		fs[p] = f
	}
	switch r.Intn(12) {
	case 0, 1: // insert a random field anywhere
		ins(genField(r, k))
	case 2: // duplicate a field, possibly emptying the first copy's value
		if len(fs) > 0 {
			i := r.Intn(len(fs))
			d := fs[i]
			if r.Chance(1, 2) {
				d.Value = ""
			} else if r.Chance(1, 3) {
				d.Value = pick(r, poolValue)
			}
			fs = append(fs[:i+1], append([]hf{fs[i]}, fs[i+1:]...)...)
			fs[i] = d
		}
	case 3: // swap two fields
		if len(fs) > 1 {
			i, j := r.Intn(len(fs)), r.Intn(len(fs))
			fs[i], fs[j] = fs[j], fs[i]
		}
	case 4: // empty a value
		if len(fs) > 0 {
			fs[r.Intn(len(fs))].Value = ""
		}
	case 5: // replace a name
		if len(fs) > 0 {
			fs[r.Intn(len(fs))].Name = genName(r, k)
		}
	case 6: // delete one
		if len(fs) > 0 {
			i := r.Intn(len(fs))
			fs = append(fs[:i], fs[i+1:]...)
		}
	case 7: // replace a value
		if len(fs) > 0 {
			i := r.Intn(len(fs))
			fs[i].Value = genValue(r, fs[i].Name)
		}
	case 8: // upper-case one byte of a name
		if len(fs) > 0 {
			i := r.Intn(len(fs))
			if n := fs[i].Name; len(n) > 0 {
				p := r.Intn(len(n))
				fs[i].Name = n[:p] + strings.ToUpper(n[p:p+1]) + n[p+1:]
			}
		}
	case 9: // a second content-length
		ins(hf{"content-length", pick(r, poolCL)})
		if r.Chance(1, 2) {
			ins(hf{"content-length", pick(r, poolCL)})
		}
	case 10: // a pseudo header at the very end / a regular one at the very start
		if r.Bool() {
			fs = append(fs, hf{pick(r, poolPseudo), pick(r, poolValue)})
		} else {
			fs = append([]hf{{pick(r, poolRegular), "a"}}, fs...)
		}
	case 11: // cookies / trailer announcements
		ins(hf{pick(r, []string{"cookie", "trailer"}), pick(r, poolValue)})
		ins(hf{pick(r, []string{"cookie", "trailer"}), pick(r, poolValue)})
	}
	return fs
}

func sectionSize(fs []hf) int {
	s := 0
	for _, f := range fs {
		s += len(f.Name) + len(f.Value) + 32
	}
	return s
}

func genLimit(r *u.Rng, fs []hf) int {
	l := genLimit0(r, fs)
	if l < 0 { // MaxHeaderBytes is never negative
		l = 0
	}
	return l
}

func genLimit0(r *u.Rng, fs []hf) int {
	total := sectionSize(fs)
	switch r.Intn(10) {
	case 0:
		return total - 1
	case 1:
		return total
	case 2:
		return total + 1
	case 3: // around a prefix
		if len(fs) > 0 {
			return sectionSize(fs[:r.Intn(len(fs))+1]) + r.Intn(3) - 1
		}
		return 0
	case 4:
		return r.Intn(total + 2)
	default:
		return 1 << 16
	}
}

type h3case struct {
	op      int // 0 parseHeaders(request) 1 parseHeaders(response) 2 parseTrailers 3 requestFromHeaders 4 updateResponseFromHeaders
	fs      []hf
	tailErr bool
	limit   int
}

func genCase(r *u.Rng) h3case {
	op := r.Intn(5)
	k := map[int]kind{0: kRequest, 1: kResponse, 2: kTrailer, 3: kRequest, 4: kResponse}[op]
	var fs []hf
	if r.Chance(1, 8) { // unstructured
		n := r.Intn(5)
		for i := 0; i < n; i++ {
			fs = append(fs, genField(r, k))
		}
	} else {
		fs = template(r, k)
		for m := []int{0, 0, 1, 1, 1, 2, 2, 3}[r.Intn(8)]; m > 0; m-- {
			fs = mutate(r, k, fs)
		}
	}
	c := h3case{op: op, fs: fs, limit: genLimit(r, fs)}
	if r.Chance(1, 12) {
		c.tailErr = true
		if len(fs) > 0 && r.Bool() {
			c.fs = fs[:r.Intn(len(fs))]
		}
	}
	return c
}

// fixed cases run on every seed: boundary and finding witnesses
func corpusCases() []h3case {
	big := 1 << 16
	req := []hf{{":method", "GET"}, {":scheme", "https"}, {":authority", "example.com"}, {":path", "/a"}}
	with := func(base []hf, extra ...hf) []hf { return append(append([]hf(nil), base...), extra...) }
	cs := []h3case{
		// the design's candidate finding: duplicate :path, first value empty
		{0, []hf{{":method", "GET"}, {":path", ""}, {":path", "/a"}, {":authority", "x"}, {":scheme", "https"}}, false, big},
		{3, []hf{{":method", "GET"}, {":path", ""}, {":path", "/a"}, {":authority", "x"}, {":scheme", "https"}}, false, big},
		{1, []hf{{":status", ""}, {":status", "200"}}, false, big},
		{4, []hf{{":status", ""}, {":status", "200"}}, false, big},
		{0, []hf{{":method", "GET"}, {":path", "/b"}, {":path", "/a"}, {":authority", "x"}, {":scheme", "https"}}, false, big},
		{0, []hf{{":method", "GET"}, {":path", "/a"}, {":path", ""}, {":authority", "x"}, {":scheme", "https"}}, false, big},
		{0, []hf{{":method", ""}, {":method", ""}, {":method", "GET"}}, false, big},
		// content-length
		{0, with(req, hf{"content-length", ""}), false, big},
		{3, with(req, hf{"content-length", ""}), false, big},
		{0, with(req, hf{"content-length", ""}, hf{"content-length", "5"}), false, big},
		{0, with(req, hf{"content-length", "5"}, hf{"content-length", "5"}), false, big},
		{0, with(req, hf{"content-length", "5"}, hf{"content-length", "05"}), false, big},
		{0, with(req, hf{"content-length", "9223372036854775807"}), false, big},
		{0, with(req, hf{"content-length", "9223372036854775808"}), false, big},
		{0, with(req, hf{"content-length", "-1"}), false, big},
		// order, kind
		{0, with(req, hf{"x", "a"}, hf{":protocol", "p"}), false, big},
		{0, with(req, hf{":status", "200"}), false, big},
		{1, []hf{{":status", "200"}, {":path", "/"}}, false, big},
		{1, []hf{{"x", "a"}, {":status", "200"}}, false, big},
		// request rules
		{3, req, false, big},
		{3, []hf{{":method", "GET"}, {":authority", "example.com"}, {":path", "/a"}}, false, big},
		{3, []hf{{":method", "CONNECT"}, {":authority", "example.com:443"}}, false, big},
		{3, []hf{{":method", "CONNECT"}, {":authority", "example.com:443"}, {":scheme", "https"}}, false, big},
		{3, []hf{{":method", "CONNECT"}, {":authority", "example.com:443"}, {":path", ""}}, false, big},
		{3, []hf{{":method", "CONNECT"}, {":authority", "example.com:443"}, {":path", "/"}}, false, big},
		{3, []hf{{":method", "CONNECT"}, {":protocol", "websocket"}, {":scheme", "https"}, {":path", "/chat"}, {":authority", "example.com"}}, false, big},
		{3, []hf{{":method", "GET"}, {":protocol", "websocket"}, {":scheme", "https"}, {":path", "/chat"}, {":authority", "example.com"}}, false, big},
		{3, with(req, hf{"cookie", "a=1"}, hf{"x", "y"}, hf{"cookie", "b=2"}, hf{"trailer", "x-t1, x-t2"}, hf{"trailer", "Te,x y"}), false, big},
		// responses
		{4, []hf{{":status", "200"}, {"content-length", "5"}, {"trailer", "x-t1"}}, false, big},
		{4, []hf{{"x", "a"}}, false, big},
		{4, []hf{{":status", "+200"}}, false, big},
		{4, []hf{{":status", "-1"}}, false, big},
		{4, []hf{{":status", "abc"}}, false, big},
		// trailers
		{2, []hf{{"x-t1", "a"}, {"grpc-status", "0"}}, false, big},
		{2, []hf{{"x-t1", "a"}, {":status", "200"}}, false, big},
		{2, []hf{{"content-length", "5"}}, false, big},
		{2, []hf{{"if-match", "5"}}, false, big},
		{2, []hf{{"te", "trailers"}}, false, big},
		{3, []hf{{":method", "CONNECT"}, {":protocol", ""}, {":authority", "example.com:443"}}, false, big},
		{3, []hf{{":method", "CONNECT"}, {":protocol", "websocket"}, {":path", "/chat"}, {":authority", "example.com"}}, false, big},
		{3, []hf{{":method", "CONNECT"}, {":protocol", "websocket"}, {":scheme", "https"}, {":authority", "example.com"}}, false, big},
		{3, []hf{{":method", "CONNECT"}, {":protocol", "websocket"}, {":scheme", "https"}, {":path", "/chat"}}, false, big},
		{3, []hf{{":method", "CONNECT"}}, false, big},
		{3, []hf{{":scheme", "https"}, {":authority", "example.com"}, {":path", "/a"}}, false, big},
		{3, []hf{{":method", "GET"}, {":scheme", "https"}, {":path", "/a"}}, false, big},
		{3, []hf{{":method", "GET"}, {":scheme", "https"}, {":authority", "example.com"}}, false, big},
		{3, []hf{{":method", "GET"}, {":scheme", "https"}, {":authority", "example.com"}, {":path", "a b"}}, false, big},
		// forbidden bytes and upper case, in pseudo and regular fields, every entry point
		{0, []hf{{":method", "GET"}, {":scheme", "https"}, {":authority", "a\nb"}, {":path", "/a"}}, false, big},
		{3, []hf{{":method", "GET"}, {":scheme", "https"}, {":authority", "example.com"}, {":path", "/a\x00"}}, false, big},
		{3, []hf{{":method", "GET"}, {":scheme", "https"}, {":authority", "example.com"}, {":path", "/a"}, {"x", "a\rb"}}, false, big},
		{4, []hf{{":status", "200\x7f"}}, false, big},
		{4, []hf{{":status", "200"}, {"x", "\x00"}}, false, big},
		{2, []hf{{"x-t1", "a\nb"}}, false, big},
		{0, with(req, hf{"Accept", "a"}), false, big},
		{0, with(req, hf{"accepT", "a"}), false, big},
		{0, []hf{{":Method", "GET"}}, false, big},
		{1, []hf{{":status", "200"}, {"X-A", "a"}}, false, big},
		{2, []hf{{"X-T1", "a"}}, false, big},
		{0, with(req, hf{"x y", "a"}), false, big},
		{0, with(req, hf{"", "a"}), false, big},
		{0, with(req, hf{"x\xc3\xa9", "a"}), false, big},
		{0, with(req, hf{"a", "\xc3\xa9\xff"}), false, big},
		{0, with(req, hf{":foo", "a"}), false, big},
		// decode error
		{0, req, true, big},
		{2, []hf{{"x-t1", "a"}}, true, big},
	}
	// size boundary on every op
	for op := 0; op < 5; op++ {
		fs := req
		if op == 1 || op == 4 {
			fs = []hf{{":status", "200"}, {"x", "abc"}}
		}
		if op == 2 {
			fs = []hf{{"x-t1", "abc"}, {"x", ""}}
		}
		s := sectionSize(fs)
		for _, l := range []int{s - 1, s, s + 1, 0} {
			cs = append(cs, h3case{op, fs, false, l})
		}
	}
	// every connection-specific field, every op
	for _, n := range []string{"connection", "keep-alive", "proxy-connection", "transfer-encoding", "upgrade"} {
		cs = append(cs, h3case{0, with(req, hf{n, "x"}), false, big}, h3case{1, []hf{{":status", "200"}, {n, "x"}}, false, big}, h3case{2, []hf{{n, "x"}}, false, big})
	}
	cs = append(cs, h3case{0, with(req, hf{"te", "gzip"}), false, big}, h3case{0, with(req, hf{"te", "trailers"}), false, big}, h3case{2, []hf{{"te", "gzip"}}, false, big})
	return cs
}

// exhaustive lists of <= 2 fields over a small alphabet (thorough tier)
func exhaustiveCases() []h3case {
	names := []string{":path", ":method", ":status", ":authority", ":foo", "x", "X", "content-length", "te", "connection", "", "x y", "cookie", "if-x"}
	values := []string{"", "a", "5", "trailers", "a\n", "/"}
	var all []hf
	for _, n := range names {
		for _, v := range values {
			all = append(all, hf{n, v})
		}
	}
	var cs []h3case
	for op := 0; op < 3; op++ {
		cs = append(cs, h3case{op, nil, false, 1 << 16})
		for _, a := range all {
			cs = append(cs, h3case{op, []hf{a}, false, 1 << 16})
			for _, b := range all {
				cs = append(cs, h3case{op, []hf{a, b}, false, 1 << 16})
			}
		}
	}
	return cs
}

// ---------------------------------------------------------------------------------------
// running one case: implementation, monitors, CASE line
// ---------------------------------------------------------------------------------------

type h3run struct {
	w    *bufio.Writer
	dist map[string]int
	seen map[string]bool // monitor keys already reported with a detail (keep the output small)
	nmon int
}

func (h *h3run) monfail(key, desc, detail string) {
	h.nmon++
	k := key + "|" + desc
	if h.seen[k] && h.nmon > 40 {
		return
	}
	h.seen[k] = true
	fmt.Fprintf(h.w, "MONFAIL\t%s\t%s\t%s\n", key, ascii(desc), ascii(detail))
}

// ascii keeps the protocol lines valid UTF-8 and tab-free whatever bytes the inputs contain.
func ascii(s string) string {
	var sb strings.Builder
	for i := 0; i < len(s); i++ {
		if b := s[i]; b >= 0x20 && b < 0x7f {
			sb.WriteByte(b)
		} else {
			fmt.Fprintf(&sb, "\\x%02x", b)
		}
	}
	return sb.String()
}

func headerMultimap(fs []hf, skip func(name string) bool) map[string][]string {
	m := map[string][]string{}
	for _, f := range fs {
		if len(f.Name) > 0 && f.Name[0] == ':' {
			continue
		}
		if skip != nil && skip(f.Name) {
			continue
		}
		m[f.Name] = append(m[f.Name], f.Value)
	}
	return m
}

// sameFields: the http.Header (canonical keys) carries exactly the multimap m (lower-case keys)
func sameFields(h http.Header, m map[string][]string) bool {
	if len(h) != len(m) {
		return false
	}
	for k, vs := range h {
		ws, ok := m[strings.ToLower(k)]
		if !ok || len(ws) != len(vs) {
			return false
		}
		for i := range vs {
			if vs[i] != ws[i] {
				return false
			}
		}
	}
	return true
}

func lastValue(fs []hf, name string) (string, int) {
	v, n := "", 0
	for _, f := range fs {
		if f.Name == name {
			v = f.Value
			n++
		}
	}
	return v, n
}

func opName(op int) string {
	return []string{"parseHeaders(request)", "parseHeaders(response)", "parseTrailers", "requestFromHeaders", "updateResponseFromHeaders"}[op]
}

// judgeSection: the monitors common to all five entry points.
func (h *h3run) judgeSection(c h3case, k kind, err error, nlog int) (viol []string) {
	viol = sectionViolations(c.fs, k, c.limit)
	detail := fmt.Sprintf("%s limit=%d tailErr=%v fields=%s", opName(c.op), c.limit, c.tailErr, fieldsText(c.fs))
	if err == nil {
		if c.tailErr {
			h.monfail("h3headers/accepted-after-decode-error", "a section whose decoding failed was accepted", detail)
		}
		for _, v := range viol {
			key := violationKey[v]
			if key == "" {
				key = "h3headers/accepted-" + v
			}
			h.monfail(key, "accepted a field section that violates rule "+v, detail)
		}
		if nlog != len(c.fs) {
			h.monfail("h3headers/logged-fields", fmt.Sprintf("logged %d of %d fields", nlog, len(c.fs)), detail)
		}
		return
	}
	// rejected: only count which rules are violated here; rejectMonitor judges the rejection
	for _, v := range viol {
		h.dist["reject:"+v]++
	}
	if c.tailErr {
		h.dist["reject:decode-error"]++
	}
	return viol
}

func (h *h3run) run(c h3case) {
	defer func() {
		if p := recover(); p != nil {
			h.monfail("h3headers/panic", fmt.Sprint(p), fmt.Sprintf("%s limit=%d fields=%s", opName(c.op), c.limit, fieldsText(c.fs)))
		}
	}()
	w := h.w
	detail := fmt.Sprintf("%s limit=%d tailErr=%v fields=%s", opName(c.op), c.limit, c.tailErr, fieldsText(c.fs))
	nt := 0
	switch c.op {
	case 0, 1:
		isReq := c.op == 0
		k := kRequest
		if !isReq {
			k = kResponse
		}
		hd, nlog, err := http3.VerifParseHeaders(c.fs, c.tailErr, isReq, c.limit)
		viol := h.judgeSection(c, k, err, nlog)
		var res string
		if err != nil {
			h.rejectMonitor(c, viol, err, false, detail)
			res = coqErr(err, nlog)
		} else {
			nt = 1
			// the result is the obvious function of the (well-formed) section
			for _, p := range [][2]string{{":path", hd.Path}, {":method", hd.Method}, {":authority", hd.Authority}, {":scheme", hd.Scheme}, {":status", hd.Status}, {":protocol", hd.Protocol}} {
				if v, _ := lastValue(c.fs, p[0]); v != p[1] {
					h.monfail("h3headers/pseudo-value", fmt.Sprintf("%s parsed as %q", p[0], p[1]), detail)
				}
			}
			h.checkHeaderMap(c, hd.Headers, hd.ContentLength, false, detail)
			res = u.App("ROkH", hs(hd.Path), hs(hd.Method), hs(hd.Authority), hs(hd.Scheme), hs(hd.Status), hs(hd.Protocol),
				u.Z(hd.ContentLength), coqHeader(hd.Headers), u.Z(int64(nlog)))
		}
		fmt.Fprintf(w, "CASE %d %s\n", nt, u.App("PH", u.B(isReq), u.Z(int64(c.limit)), coqFields(c.fs), u.B(c.tailErr), res))
	case 2:
		tr, nlog, err := http3.VerifParseTrailers(c.fs, c.tailErr, c.limit)
		viol := h.judgeSection(c, kTrailer, err, nlog)
		var res string
		if err != nil {
			h.rejectMonitor(c, viol, err, false, detail)
			res = coqErr(err, nlog)
		} else {
			nt = 1
			if !sameFields(tr, headerMultimap(c.fs, nil)) {
				h.monfail("h3headers/trailer-map", "trailer map differs from the received fields", detail)
			}
			res = u.App("ROkT", coqHeader(tr), u.Z(int64(nlog)))
		}
		fmt.Fprintf(w, "CASE %d %s\n", nt, u.App("PT", u.Z(int64(c.limit)), coqFields(c.fs), u.B(c.tailErr), res))
	case 3:
		req, nlog, err := http3.VerifRequestFromHeaders(c.fs, c.tailErr, c.limit)
		viol := h.judgeSection(c, kRequest, err, nlog)
		rv := requestViolations(c.fs)
		// url.ParseRequestURI is outside /repo: its verdicts enter the model as an oracle
		var orc []string
		seenPath := map[string]bool{}
		for _, f := range c.fs {
			if f.Name == ":path" && !seenPath[f.Value] {
				seenPath[f.Value] = true
				pu, perr := url.ParseRequestURI(f.Value)
				if perr != nil {
					orc = append(orc, u.Pair(hs(f.Value), u.Pair("false", hs(""), hs(""))))
				} else {
					orc = append(orc, u.Pair(hs(f.Value), u.Pair("true", hs(pu.Scheme), hs(pu.Host))))
				}
			}
		}
		var res string
		if err != nil {
			// rejected: either the section or the request rules are violated, or the code is stricter than the RFC
			// in the two documented ways (:authority mandatory, :path must parse as a request URI)
			_, perr := url.ParseRequestURI(func() string { v, _ := lastValue(c.fs, ":path"); return v }())
			auth, _ := lastValue(c.fs, ":authority")
			method, _ := lastValue(c.fs, ":method")
			_, nproto := lastValue(c.fs, ":protocol")
			stricter := auth == "" || (perr != nil && !(method == "CONNECT" && nproto == 0))
			h.rejectMonitor(c, append(viol, rv...), err, stricter, detail)
			for _, v := range rv {
				h.dist["reject:"+v]++
			}
			res = coqErr(err, nlog)
		} else {
			nt = 1
			for _, v := range rv {
				h.monfail("h3headers/request-"+v, "accepted a request that violates rule "+v, detail)
			}
			method, _ := lastValue(c.fs, ":method")
			auth, _ := lastValue(c.fs, ":authority")
			if req.Method != method || req.Host != auth || req.ProtoMajor != 3 {
				h.monfail("h3headers/request-fields", fmt.Sprintf("method %q host %q proto %d", req.Method, req.Host, req.ProtoMajor), detail)
			}
			h.checkHeaderMap(c, req.Header, req.ContentLength, true, detail)
			res = u.App("ROkQ", hs(req.Method), hs(req.Host), hs(req.RequestURI), hs(req.Proto), u.Z(req.ContentLength),
				hs(req.URL.Scheme), hs(req.URL.Host), coqHeader(req.Header), coqTrailerKeys(req.Trailer), u.Z(int64(nlog)))
		}
		fmt.Fprintf(w, "CASE %d %s\n", nt, u.App("RQ", u.Z(int64(c.limit)), coqFields(c.fs), u.B(c.tailErr), u.List(orc), res))
	case 4:
		rsp, nlog, err := http3.VerifUpdateResponse(c.fs, c.tailErr, c.limit)
		viol := h.judgeSection(c, kResponse, err, nlog)
		status, nstatus := lastValue(c.fs, ":status")
		var rv []string
		if nstatus == 0 {
			rv = append(rv, "missing-status")
		} else if len(status) != 3 || !allDigits(status) {
			rv = append(rv, "status-not-3-digits") // RFC 9110 15: status-code = 3DIGIT
		}
		var res string
		if err != nil {
			h.rejectMonitor(c, append(viol, rv...), err, status == "", detail)
			for _, v := range rv {
				h.dist["reject:"+v]++
			}
			res = coqErr(err, nlog)
		} else {
			nt = 1
			if nstatus == 0 {
				h.monfail("h3headers/response-missing-status", "accepted a response without :status", detail)
			}
			if len(status) != 3 || !allDigits(status) {
				// RFC 9110 15: status-code = 3DIGIT. Not part of C19's statement: reported as information only.
				h.dist["info:accepted-status-not-3-digits"]++
				if !h.seen["info3d"] {
					h.seen["info3d"] = true
					fmt.Fprintf(w, "INFO\taccepted :status that is not 3 digits: %q -> StatusCode %d\n", status, rsp.StatusCode)
				}
			}
			if !strings.HasPrefix(rsp.Status, status+" ") || rsp.ProtoMajor != 3 {
				h.monfail("h3headers/response-fields", fmt.Sprintf("Status %q", rsp.Status), detail)
			}
			h.checkHeaderMap(c, rsp.Header, rsp.ContentLength, true, detail)
			res = u.App("ROkS", u.Z(int64(rsp.StatusCode)), u.Z(rsp.ContentLength), coqHeader(rsp.Header), coqTrailerKeys(rsp.Trailer), u.Z(int64(nlog)))
		}
		fmt.Fprintf(w, "CASE %d %s\n", nt, u.App("RS", u.Z(int64(c.limit)), coqFields(c.fs), u.B(c.tailErr), res))
	}
	if nt == 1 {
		h.dist[opName(c.op)+":accepted"]++
	} else {
		h.dist[opName(c.op)+":rejected"]++
	}
}

// rejectMonitor: C19(b) read backwards — a rejected section violates at least one rule, and the
// error class fits the violated rules.
func (h *h3run) rejectMonitor(c h3case, viol []string, err error, stricterThanRFC bool, detail string) {
	cls := http3.VerifErrClass(err)
	allowed := map[int]bool{}
	for _, v := range viol {
		if v == "size" {
			allowed[1] = true
		} else {
			allowed[3] = true
		}
	}
	if c.tailErr {
		allowed[2] = true
	}
	if c.op != 2 {
		if cl, n := lastValue(c.fs, "content-length"); n > 0 && allDigits(cl) && !fitsInt63(cl) {
			allowed[3] = true
		}
	}
	if stricterThanRFC {
		allowed[3] = true
	}
	if len(allowed) == 0 {
		h.monfail("h3headers/rejected-wellformed", fmt.Sprintf("rejected (%v) a section that violates no rule", err), detail)
		return
	}
	if !allowed[cls] {
		h.monfail("h3headers/error-class", fmt.Sprintf("error class %d (%v) does not fit the violated rules %v", cls, err, viol), detail)
	}
}

// checkHeaderMap: what is handed to net/http is exactly the regular fields (Content-Length single,
// numeric and equal to the parsed length; for requests cookies joined; announced trailers moved out).
func (h *h3run) checkHeaderMap(c h3case, got http.Header, contentLength int64, final bool, detail string) {
	want := headerMultimap(c.fs, func(n string) bool { return n == "content-length" || (final && n == "trailer") })
	if final {
		if ck := want["cookie"]; len(ck) > 0 && c.op == 3 {
			want["cookie"] = []string{strings.Join(ck, "; ")}
		}
	}
	cl, ncl := lastValue(c.fs, "content-length")
	if ncl > 0 && cl != "" {
		want["content-length"] = []string{cl}
		digits := strings.TrimLeft(cl, "0")
		if digits == "" {
			digits = "0"
		}
		if !allDigits(cl) || fmt.Sprint(contentLength) != digits {
			h.monfail("h3headers/content-length-value", fmt.Sprintf("ContentLength %d for %q", contentLength, cl), detail)
		}
	} else if contentLength != -1 {
		h.monfail("h3headers/content-length-value", fmt.Sprintf("ContentLength %d without a Content-Length field", contentLength), detail)
	}
	if !sameFields(got, want) {
		h.monfail("h3headers/header-map", fmt.Sprintf("header map %v differs from the received regular fields", got), detail)
	}
	for k, vs := range got {
		if !rfcToken(k) {
			h.monfail("h3headers/handed-bad-name", fmt.Sprintf("name %q handed to net/http", k), detail)
		}
		for _, v := range vs {
			if !rfcValueOK(v) {
				h.monfail("h3headers/handed-bad-value", fmt.Sprintf("value %q handed to net/http", v), detail)
			}
		}
	}
}

// requestViolations: RFC 9114 4.3.1, 4.4 and RFC 9220 (extended CONNECT) on the pseudo-header set.
func requestViolations(fs []hf) []string {
	var v []string
	method, nm := lastValue(fs, ":method")
	scheme, ns := lastValue(fs, ":scheme")
	path, np := lastValue(fs, ":path")
	auth, na := lastValue(fs, ":authority")
	proto, npr := lastValue(fs, ":protocol")
	if nm == 0 || method == "" {
		return []string{"missing-method"}
	}
	if npr > 0 && proto == "" {
		// an empty :protocol is not a protocol; judge the rest as if it were absent
		v = append(v, "empty-protocol")
		npr = 0
	}
	switch {
	case method == "CONNECT" && npr == 0: // RFC 9114 4.4
		if ns > 0 {
			v = append(v, "connect-with-scheme")
		}
		if np > 0 && path == "" {
			v = append(v, "connect-with-empty-path")
		} else if np > 0 {
			v = append(v, "connect-with-path")
		}
		if na == 0 || auth == "" {
			v = append(v, "connect-without-authority")
		}
	case npr > 0: // RFC 9220 / RFC 8441 4
		if method != "CONNECT" {
			v = append(v, "protocol-without-connect")
		}
		if ns == 0 || np == 0 || na == 0 || scheme == "" || path == "" || auth == "" {
			v = append(v, "extended-connect-missing-pseudo")
		}
	default: // RFC 9114 4.3.1
		if ns == 0 || scheme == "" {
			v = append(v, "missing-scheme")
		}
		if np == 0 || path == "" {
			v = append(v, "missing-path")
		}
		if na > 0 && auth == "" {
			v = append(v, "empty-authority")
		}
	}
	return v
}

func runH3Headers(w *bufio.Writer, seed uint64, n int, _ []string) {
	r := u.NewRng(seed)
	h := &h3run{w: w, dist: map[string]int{}, seen: map[string]bool{}}
	for _, c := range corpusCases() {
		h.run(c)
	}
	for i := 0; i < n; i++ {
		c := genCase(r.Fork())
		if i < 3 {
			fmt.Fprintf(w, "SAMPLE\t%s limit=%d tailErr=%v %s\n", opName(c.op), c.limit, c.tailErr, fieldsText(c.fs))
		}
		h.run(c)
	}
	if os.Getenv("VERIF_TIER") == "thorough" {
		for _, c := range exhaustiveCases() {
			h.run(c)
		}
	}
	keys := make([]string, 0, len(h.dist))
	for k := range h.dist {
		keys = append(keys, k)
	}
	sort.Strings(keys)
	for _, k := range keys {
		fmt.Fprintf(w, "DIST\t%s\t%d\n", k, h.dist[k])
	}
}
