//go:build verif

package main

import (
	"bufio"
	"crypto/rand"
	"encoding/binary"
	"fmt"
	"io"
	"os"
	"sort"

	"github.com/refraction-networking/uquic/internal/ackhandler"
	"github.com/refraction-networking/uquic/internal/protocol"
	u "github.com/refraction-networking/uquic/internal/verifutil"
	"github.com/refraction-networking/uquic/internal/wire"
)

func init() {
	units["pktnum"] = runPktNum
	genSources = append(genSources, func() [][2]any {
		return [][2]any{
			{"PP_PacketNumberLen1", int64(protocol.PacketNumberLen1)},
			{"PP_PacketNumberLen2", int64(protocol.PacketNumberLen2)},
			{"PP_PacketNumberLen3", int64(protocol.PacketNumberLen3)},
			{"PP_PacketNumberLen4", int64(protocol.PacketNumberLen4)},
			{"PP_InvalidPacketNumber", int64(protocol.InvalidPacketNumber)},
			{"PP_SkipPacketInitialPeriod", int64(protocol.SkipPacketInitialPeriod)},
			{"PP_SkipPacketMaxPeriod", int64(protocol.SkipPacketMaxPeriod)},
		}
	})
}

// ppScriptedReader replaces crypto/rand.Reader while a generator case runs: every 4-byte
// read returns the big-endian value `cur` (the harness chooses it, so the draw of
// utils.Rand.Int31n is known independently of the generator's fields).
type ppScriptedReader struct {
	cur   uint32
	reads int
}

func (s *ppScriptedReader) Read(b []byte) (int, error) {
	for i := 0; i+4 <= len(b); i += 4 {
		binary.BigEndian.PutUint32(b[i:], s.cur)
	}
	s.reads++
	return len(b), nil
}

func ppWithScriptedRand(s *ppScriptedReader, f func()) {
	old := rand.Reader
	rand.Reader = io.Reader(s)
	defer func() { rand.Reader = old }()
	f()
}

// ppWireTruncate returns what AppendShortHeader puts on the wire for (pn, pnLen) as read back
// by ParseShortHeader (so truncation is the wire codec's, not the harness').
func ppWireTruncate(pn protocol.PacketNumber, l protocol.PacketNumberLen) (protocol.PacketNumber, bool) {
	b, err := wire.AppendShortHeader(nil, protocol.ConnectionID{}, pn, l, protocol.KeyPhaseZero)
	if err != nil {
		return 0, false
	}
	b = append(b, make([]byte, 4)...)
	_, t, l2, _, err := wire.ParseShortHeader(b, 0)
	if err != nil || l2 != l {
		return 0, false
	}
	return t, true
}

func runPktNum(w *bufio.Writer, seed uint64, n int, _ []string) {
	defer func() {
		if e := recover(); e != nil {
			fmt.Fprintf(w, "MONFAIL\tpktnum/panic\tpanic in harness\t%v\n", e)
		}
	}()
	r := u.NewRng(seed)
	dist := map[string]int{}
	const maxPN = int64(1)<<62 - 1
	rnd64 := func(n int64) int64 { return int64(r.U64() % uint64(n)) }

	// ---- (a) DecodePacketNumber on arbitrary inputs ----
	emitDec := func(l int64, largest, trunc int64) {
		got := protocol.DecodePacketNumber(protocol.PacketNumberLen(l), protocol.PacketNumber(largest), protocol.PacketNumber(trunc))
		fmt.Fprintf(w, "CASE 1 %s\n", u.App("DecCase", u.Z(l), u.Z(largest), u.Z(trunc), u.Z(int64(got))))
		dist["dec"]++
	}
	// ---- (b) sender picks the length, wire truncates, receiver decodes ----
	emitSend := func(pn, la, largest int64) {
		l := protocol.PacketNumberLengthForHeader(protocol.PacketNumber(pn), protocol.PacketNumber(la))
		if l < 2 || l > 4 {
			fmt.Fprintf(w, "MONFAIL\tpktnum/len-range\tPacketNumberLengthForHeader returned %d\tpn=%d largestAcked=%d\n", l, pn, la)
			return
		}
		t, ok := ppWireTruncate(protocol.PacketNumber(pn), l)
		if !ok {
			fmt.Fprintf(w, "MONFAIL\tpktnum/wire\tshort header codec failed for the chosen length %d\tpn=%d\n", l, pn)
			return
		}
		got := protocol.DecodePacketNumber(l, protocol.PacketNumber(largest), t)
		// property monitor: sender-side guarantee => exact recovery
		// sender-side guarantee with the true window: the receiver may be up to 2^(8 len-1)-2 ahead (overtaking)
		if tol := int64(1)<<(8*uint(l)-1) - 2; la >= -1 && la <= largest && largest <= pn+tol && pn-la <= 1<<31 && pn <= maxPN && int64(got) != pn {
			fmt.Fprintf(w, "MONFAIL\tpktnum/decode-exact\ttruncated packet number decodes to %d, not to the sent %d\tpn=%d largestAcked=%d receiverLargest=%d len=%d wire=%d\n",
				got, pn, pn, la, largest, l, t)
		}
		nt := 0
		if int64(got) == pn {
			nt = 1
		}
		fmt.Fprintf(w, "CASE %d %s\n", nt, u.App("SendCase", u.Z(pn), u.Z(la), u.Z(largest), u.Z(int64(l)), u.Z(int64(t)), u.Z(int64(got))))
		dist[fmt.Sprintf("send-len%d", l)]++
	}
	// general window monitor for every length 1..4
	emitWindow := func(l int64, pn, largest int64) {
		t, ok := ppWireTruncate(protocol.PacketNumber(pn), protocol.PacketNumberLen(l))
		if !ok {
			fmt.Fprintf(w, "MONFAIL\tpktnum/wire\tshort header codec failed for length %d\tpn=%d\n", l, pn)
			return
		}
		got := protocol.DecodePacketNumber(protocol.PacketNumberLen(l), protocol.PacketNumber(largest), t)
		hwin := int64(1) << (8*uint(l) - 1)
		if pn > largest+1-hwin && pn <= largest+1+hwin && int64(got) != pn {
			fmt.Fprintf(w, "MONFAIL\tpktnum/decode-window\tnumber inside the decode window decodes to %d\tpn=%d receiverLargest=%d len=%d wire=%d\n", got, pn, largest, l, t)
		}
		emitDec(l, largest, int64(t))
	}

	bnd := []int64{1 << 15, 1 << 23, 1 << 31}
	for _, la := range []int64{-1, 0, 10, 1 << 20, maxPN - (1 << 32)} {
		for _, b := range bnd {
			for d := int64(-2); d <= 2; d++ {
				pn := la + b + d
				if pn < 0 || pn > maxPN {
					continue
				}
				for _, lg := range []int64{la, la + 1, pn - 1, pn, (la + pn) / 2} {
					if lg < 0 {
						lg = 0
					}
					if lg > pn {
						lg = pn
					}
					emitSend(pn, la, lg)
				}
			}
		}
	}
	// overtaken packets: receiver ahead by exactly the tolerance of the chosen length, one less, one more
	for _, c := range [][2]int64{{70000, 69990}, {1 << 20, 1<<20 - 40000}, {1 << 33, 1<<33 - (1 << 24)}, {5, -1}} {
		l := int64(protocol.PacketNumberLengthForHeader(protocol.PacketNumber(c[0]), protocol.PacketNumber(c[1])))
		tol := int64(1)<<(8*uint(l)-1) - 2
		for _, d := range []int64{1000, tol - 1, tol, tol + 1} {
			emitSend(c[0], c[1], c[0]+d)
		}
	}
	// the first packets of a connection (receiver's largest starts at 0)
	for pn := int64(0); pn < 4; pn++ {
		emitSend(pn, -1, 0)
	}
	for i := 0; i < n; i++ {
		// structured sender-side cases
		var la int64 = -1
		if !r.Chance(1, 5) {
			la = int64(r.U64() >> uint(2+r.Intn(60)))
		}
		gap := int64(1) << uint(r.Intn(32))
		gap += int64(r.Intn(5)) - 2
		if gap < 1 {
			gap = 1
		}
		if r.Chance(1, 10) { // beyond the guaranteed range (monitor silent, model must still agree)
			gap = int64(1)<<31 + int64(r.Intn(1<<20))
		}
		pn := la + gap
		if pn > maxPN {
			pn = maxPN
		}
		if pn < 0 {
			pn = 0
		}
		lg := la + int64(r.U64()%uint64(pn-la+1))
		if r.Chance(1, 4) {
			lg = pn - int64(r.Intn(2))
		}
		if lg < 0 {
			lg = 0
		}
		if r.Chance(1, 6) { // the packet was overtaken: receiver ahead of it, inside or beyond the tolerance
			lg = pn + int64(r.Intn(1<<17))
		}
		emitSend(pn, la, lg)
	}
	for i := 0; i < n; i++ {
		l := int64(r.Range(1, 4))
		hwin := int64(1) << (8*uint(l) - 1)
		largest := int64(r.U64() >> uint(2+r.Intn(60)))
		if r.Chance(1, 8) {
			largest = maxPN - rnd64(4*hwin+1)
		}
		var off int64
		switch r.Intn(5) {
		case 0:
			off = -hwin + int64(r.Intn(5)) - 2
		case 1:
			off = hwin + int64(r.Intn(5)) - 2
		case 2:
			off = rnd64(2*hwin+1) - hwin
		case 3:
			off = int64(r.Intn(9)) - 4
		default:
			off = rnd64(6*hwin+1) - 3*hwin
		}
		pn := largest + 1 + off
		if pn < 0 {
			pn = 0
		}
		if pn > maxPN {
			pn = maxPN
		}
		emitWindow(l, pn, largest)
	}
	for i := 0; i < n/2; i++ { // fully arbitrary decoder inputs
		l := int64(r.Range(1, 4))
		largest := int64(r.U64()>>uint(2+r.Intn(60))) - 1
		trunc := int64(r.U64() & (1<<(8*uint(l)) - 1))
		emitDec(l, largest, trunc)
	}
	if os.Getenv("VERIF_TIER") == "thorough" {
		// exhaustive small windows around each length boundary
		for _, base := range []int64{0, 1<<15 - 64, 1<<23 - 64} {
			for la := int64(-1); la < 24; la++ {
				for pn := base + la + 1; pn < base+la+1+128; pn++ {
					for _, lg := range []int64{la, pn - 1, pn, (la + pn) / 2} {
						if lg < 0 {
							lg = 0
						}
						emitSend(pn, la, lg)
					}
				}
			}
		}
		for largest := int64(0); largest < 700; largest += 7 {
			for pn := int64(0); pn < 1024; pn += 3 {
				emitWindow(1, pn, largest)
			}
		}
	}

	// ---- (c) packet number generators ----
	genCase := func(skipping bool) {
		fr := r.Fork()
		initial := int64(fr.Pick(0, 0, 1, 2, 100, 1<<32-2, maxPN-200))
		if fr.Chance(1, 3) {
			initial = int64(fr.U64() >> uint(4+fr.Intn(58)))
		}
		npop := fr.Range(1, 40)
		if !skipping {
			g := ackhandler.VerifNewSequentialPNGen(protocol.PacketNumber(initial))
			var obs []string
			prev := initial - 1
			for i := 0; i < npop; i++ {
				pk := int64(g.Peek())
				sk, pn := g.Pop()
				if sk || int64(pn) != prev+1 || pk != int64(pn) {
					fmt.Fprintf(w, "MONFAIL\tpktnum/seq\tsequential generator returned (%v,%d) after %d (peek %d)\tinitial=%d pop#%d\n", sk, pn, prev, pk, initial, i)
				}
				prev = int64(pn)
				obs = append(obs, u.Pair(u.Z(pk), u.B(sk), u.Z(int64(pn))))
			}
			fmt.Fprintf(w, "CASE 1 %s\n", u.App("SeqCase", u.Z(initial), u.List(obs)))
			dist["seqgen"]++
			return
		}
		period := int64(fr.Pick(1, 1, 2, 3, 4, 8, 25))
		maxPeriod := period * int64(fr.Pick(1, 2, 4, 16))
		if fr.Chance(1, 4) {
			period, maxPeriod = int64(protocol.SkipPacketInitialPeriod), int64(protocol.SkipPacketMaxPeriod)
		}
		if fr.Chance(1, 10) {
			maxPeriod = period - 1 // max below the initial period: period shrinks after the first draw
			if maxPeriod < 1 {
				maxPeriod = 1
			}
		}
		// scripted 31-bit values: small residues, so that skips happen within the case, and
		// residues at both ends of the draw range; kept below 2^30 (no rejection in Int31n).
		pickR := func(p int64) uint32 {
			nn := 2 * p
			var res int64
			switch fr.Intn(6) {
			case 0, 1:
				res = 0
			case 2:
				res = nn - 1
			case 3:
				res = int64(fr.Intn(4))
			default:
				res = int64(fr.Intn(int(nn)))
			}
			if fr.Chance(1, 8) && nn > 8 {
				res = int64(fr.Intn(8))
			}
			k := int64(fr.Intn(1000))
			v := k*nn + res%nn
			if v >= 1<<30 {
				v = res % nn
			}
			return uint32(v)
		}
		sr := &ppScriptedReader{}
		var obs []string
		var r0 uint32
		nskip := 0
		ppWithScriptedRand(sr, func() {
			r0 = pickR(period)
			sr.cur = r0
			g := ackhandler.VerifNewSkippingPNGen(protocol.PacketNumber(initial), protocol.PacketNumber(period), protocol.PacketNumber(maxPeriod))
			if sr.reads != 1 {
				fmt.Fprintf(w, "MONFAIL\tpktnum/rand-reads\tconstructor read the random source %d times (scripted value below the rejection bound)\tinitial=%d period=%d\n", sr.reads, initial, period)
			}
			prev := initial - 1
			prevSkipped := false
			var returned []int64
			var skippedNums []int64
			for i := 0; i < npop; i++ {
				curP, _, _, _, _ := g.SkipState()
				rv := pickR(int64(curP))
				sr.cur = rv
				sr.reads = 0
				pk := int64(g.Peek())
				sk, pn0 := g.Pop()
				pn := int64(pn0)
				// ---- property monitors (model independent) ----
				if pn <= prev {
					fmt.Fprintf(w, "MONFAIL\tpktnum/reuse\tpacket number %d returned after %d: not strictly increasing\tinitial=%d period=%d max=%d pop#%d\n", pn, prev, initial, period, maxPeriod, i)
				}
				if pk != pn {
					fmt.Fprintf(w, "MONFAIL\tpktnum/peek\tPeek()=%d but Pop()=%d\tinitial=%d period=%d max=%d pop#%d\n", pk, pn, initial, period, maxPeriod, i)
				}
				if sk && pn != prev+2 || !sk && pn != prev+1 {
					fmt.Fprintf(w, "MONFAIL\tpktnum/skip-flag\tPop()=(%v,%d) after %d: flag does not say exactly which number was skipped\tinitial=%d period=%d max=%d pop#%d\n", sk, pn, prev, initial, period, maxPeriod, i)
				}
				if sk && prevSkipped {
					fmt.Fprintf(w, "MONFAIL\tpktnum/adjacent-skips\ttwo consecutive pops skipped a number (%d)\tinitial=%d period=%d max=%d pop#%d\n", pn, initial, period, maxPeriod, i)
				}
				if sk {
					nskip++
					skippedNums = append(skippedNums, pn-1)
				}
				returned = append(returned, pn)
				prev, prevSkipped = pn, sk
				obs = append(obs, u.Pair(u.Z(int64(rv)), u.Z(pk), u.B(sk), u.Z(pn)))
			}
			for _, s := range skippedNums {
				for _, x := range returned {
					if x == s {
						fmt.Fprintf(w, "MONFAIL\tpktnum/skipped-returned\tnumber %d was reported skipped and also returned\tinitial=%d period=%d max=%d\n", s, initial, period, maxPeriod)
					}
				}
			}
		})
		nt := 0
		if nskip > 0 {
			nt = 1
		}
		fmt.Fprintf(w, "CASE %d %s\n", nt, u.App("SkipCase", u.Z(initial), u.Z(period), u.Z(maxPeriod), u.Z(int64(r0)), u.List(obs)))
		dist[fmt.Sprintf("skipgen-skips%d", min(nskip, 5))]++
	}
	for i := 0; i < n/2+4; i++ {
		genCase(true)
	}
	for i := 0; i < n/20+2; i++ {
		genCase(false)
	}
	ppPrintDist(w, dist)
}

func ppPrintDist(w *bufio.Writer, dist map[string]int) {
	keys := make([]string, 0, len(dist))
	for k := range dist {
		keys = append(keys, k)
	}
	sort.Strings(keys)
	for _, k := range keys {
		fmt.Fprintf(w, "DIST\t%s\t%d\n", k, dist[k])
	}
}
