//go:build verif

package main

// Unit h3writers (property C19, claim (c); monitor-only exploration): generated net/http
// requests / response headers / trailers that pass the Transport's own pre-checks are written
// by the REAL requestWriter / responseWriter / writeTrailers, the HEADERS frame is parsed and
// qpack-decoded, and the emitted field list is fed to the REAL requestFromHeaders /
// updateResponseFromHeaders / parseTrailers. Monitors: the emitted section is accepted and
// yields the same method, target, host and header multiset.

import (
	"slices"
	"bufio"
	"fmt"
	"io"
	"net/http"
	"net/url"
	"sort"
	"strings"

	"github.com/refraction-networking/uquic/http3"
	u "github.com/refraction-networking/uquic/internal/verifutil"
)

func init() { units["h3writers"] = runH3Writers }

var (
	wHdrNames = []string{"Accept", "X-Custom", "x-lower", "Cookie", "User-Agent", "Content-Type", "Authorization", "Accept-Encoding",
		"X-Forwarded-For", "Cache-Control", "If-Match", "Range", "X_Under", "Dnt", "Referer"}
	wHopNames = []string{"Connection", "Keep-Alive", "Proxy-Connection", "Transfer-Encoding", "Upgrade"}
	wHdrVals  = []string{"a", "b c", "text/html; q=0.8", "", " lead", "trail ", "x\ty", "\xc3\xa9", "1", "a=1", "b=2", "close", "chunked", "gzip", "trailers"}
	wTrailers = []string{"X-T1", "Grpc-Status", "X-Checksum", "Server-Timing"}
	wBadTrail = []string{"Content-Length", "Host", "Authorization", "If-Match", "Trailer", "Te"}
)

// h3wRespell: http.Header is a plain map; keys assigned directly need not be in canonical form
// (lower-case HTTP/2-style metadata, header-order mimicry). canonical / lower / UPPER / mixed.
func h3wRespell(r *u.Rng, k string) string {
	switch r.Intn(4) {
	case 0:
		return k
	case 1:
		return strings.ToLower(k)
	case 2:
		return strings.ToUpper(k)
	}
	b := []byte(k)
	for i := range b {
		if r.Bool() {
			b[i] = strings.ToUpper(string(b[i]))[0]
		} else {
			b[i] = strings.ToLower(string(b[i]))[0]
		}
	}
	return string(b)
}

// h3wGet finds a header by name, ASCII-case-insensitively (first match).
func h3wGet(h http.Header, lower string) ([]string, bool) {
	for k, vv := range h {
		if strings.ToLower(k) == lower {
			return vv, true
		}
	}
	return nil, false
}

// h3wForced: fixed table entries merged into the first generated header maps / trailer maps, so
// that the shapes the seeded changes needed (non-canonical spellings of every filtered name; trailer
// sets in which nothing is encodable) are exercised on every seed, not by luck.
var h3wForcedHeaders = []http.Header{
	{"connection": {"close"}}, {"CONNECTION": {"keep-alive"}}, {"transfer-encoding": {"chunked"}}, {"Keep-alive": {"timeout=5"}},
	{"proxy-connection": {"keep-alive"}}, {"UPGRADE": {"h2c"}}, {"content-length": {"1337"}}, {"host": {"other.example"}},
	{"user-agent": {"ua1", "ua2"}}, {"USER-AGENT": {""}}, {"te": {"trailers"}}, {"cookie": {"a=1", "b=2"}, "x-a": {"1"}},
}
var h3wForcedTrailers = []http.Header{
	{"X-Checksum": nil}, {"X-Checksum": {}, "X-T1": nil}, {"Content-Length": {"5"}, "Upgrade": {"x"}}, {"Upgrade": {"x"}, "X-T1": {}},
	{}, {"x-checksum": {"v"}, "X-Empty": nil},
}
var h3wForced, h3wForcedTrailer http.Header

// handler maps that leave "header hygiene": the response writer does not validate what a handler puts
// into the map, the peer's parser must; the writer therefore has to sanitise (as net/http's h1/h2 servers do)
var h3wUnhygienic = []http.Header{
	{"Content-Length": {""}}, {"Content-Length": {"5", "6"}}, {"Content-Length": {"5", "5"}}, {"content-length": {"abc"}},
	{"Content-Length": {"5"}, "content-length": {"7"}}, {"CONTENT-LENGTH": {"9223372036854775808"}}, {"Content-Length": {"", "5"}},
	{"X-A": {"a\nb"}}, {"X-A": {"ok", "bad\x00", "ok2"}}, {"X A": {"v"}}, {"x:y": {"v"}}, {"": {"v"}}, {"X-\xc3\xa9": {"v"}},
	{"X-A": {"a\rb"}, "X-B": {"fine"}}, {"Te": {"a\nb"}},
}
var h3wUnhygienicTrailers = []http.Header{
	{"X-T1": {"a\nb"}}, {"X-T1": {"ok", "bad\x00"}}, {"X T": {"v"}}, {"X-T1": {"\x7f"}, "X-Checksum": {"v"}}, {"x:t": {"v"}},
}

func genHeader(r *u.Rng, response bool) http.Header {
	if h3wForced != nil {
		return h3wForced.Clone()
	}
	h := http.Header{}
	// one key per name (whatever its spelling): the order in which two spellings of one name are
	// iterated is not deterministic, which would make the expected Cookie / User-Agent ambiguous
	put := func(k string, vals []string, respell bool) {
		if respell {
			k = h3wRespell(r, k)
		}
		if _, dup := h3wGet(h, strings.ToLower(k)); dup {
			return
		}
		h[k] = vals
	}
	n := r.Intn(5)
	for i := 0; i < n; i++ {
		k := wHdrNames[r.Intn(len(wHdrNames))]
		var vals []string
		for j := 1 + r.Intn(2); j > 0; j-- {
			vals = append(vals, wHdrVals[r.Intn(len(wHdrVals))])
		}
		put(k, vals, true)
	}
	if r.Chance(1, 4) {
		put(wHopNames[r.Intn(len(wHopNames))], []string{pick(r, []string{"close", "keep-alive", "chunked", "h2c", "timeout=5"})}, true)
	}
	// the names the request writer filters or special-cases are respelled for requests only (the
	// response writer's own Content-Length / Trailer / Date handling looks at canonical keys)
	if r.Chance(1, 6) {
		put("Te", []string{pick(r, []string{"trailers", "trailers", "gzip", "deflate", "trailers, deflate"})}, !response)
	}
	if r.Chance(1, 6) {
		put("Host", []string{"other.example"}, !response)
	}
	if r.Chance(1, 5) {
		put("Content-Length", []string{pick(r, []string{"5", "0", "abc", "-1", "5", "1337"})}, !response)
	}
	return h
}

type nopBody struct{ io.Reader }

func (nopBody) Close() error { return nil }

func lowerKeys(h http.Header, drop func(k string) bool) map[string][]string {
	m := map[string][]string{}
	for k, vv := range h {
		lk := strings.ToLower(k)
		if drop != nil && drop(lk) {
			continue
		}
		m[lk] = append(m[lk], vv...)
	}
	for k := range m {
		sort.Strings(m[k])
	}
	return m
}

func sameMultimap(a, b map[string][]string) bool {
	if len(a) != len(b) {
		return false
	}
	for k, av := range a {
		bv, ok := b[k]
		if !ok || len(av) != len(bv) {
			return false
		}
		for i := range av {
			if av[i] != bv[i] {
				return false
			}
		}
	}
	return true
}

func causeOf(viol []string) string {
	if len(viol) == 0 {
		return "unexplained"
	}
	return viol[0]
}

func runH3Writers(w *bufio.Writer, seed uint64, n int, _ []string) {
	r := u.NewRng(seed)
	h := &h3run{w: w, dist: map[string]int{}, seen: map[string]bool{}}
	defer func() {
		keys := make([]string, 0, len(h.dist))
		for k := range h.dist {
			keys = append(keys, k)
		}
		sort.Strings(keys)
		for _, k := range keys {
			fmt.Fprintf(w, "DIST\t%s\t%d\n", k, h.dist[k])
		}
	}()
	for i := 0; i < n; i++ {
		rr := r.Fork()
		h3wForced = nil
		if k := i / 4; k < len(h3wForcedHeaders) && (i%4 == 0 || i%4 == 1) {
			h3wForced = h3wForcedHeaders[k]
		}
		h3wForcedTrailer = nil
		if k := i / 4; k < len(h3wForcedTrailers) && i%4 == 2 {
			h3wForcedTrailer = h3wForcedTrailers[k]
		}
		switch i % 4 {
		case 0:
			h.writerRequest(rr, i)
		case 1:
			h.writerResponse(rr, i)
		case 2:
			h.writerTrailers(rr, i)
		case 3:
			h.h3wDecodeTrailers(rr)
		}
	}
}

func (h *h3run) writerRequest(r *u.Rng, i int) {
	method := pick(r, []string{"GET", "GET", "POST", "PUT", "HEAD", "OPTIONS", "DELETE", "PATCH", "CONNECT", "CONNECT", ""})
	if method == "" && !r.Chance(1, 4) {
		method = "GET"
	}
	target := pick(r, []string{"/", "/a", "/a/b?c=d&e=f", "", "/%20x", "//double", "/a?", "/\xc3\xa9"})
	if method == "OPTIONS" && r.Chance(1, 3) {
		target = "*"
	}
	host := pick(r, []string{"example.com", "example.com:443", "example.com:8443", "[::1]:443", "192.0.2.1"})
	var ur *url.URL
	if target == "*" {
		ur = &url.URL{Scheme: "https", Host: host, Path: "*"}
	} else {
		var err error
		ur, err = url.Parse("https://" + host + target)
		if err != nil {
			h.dist["request:url-not-parsable"]++
			return
		}
	}
	opaque := false
	if r.Chance(1, 8) { // opaque URLs: RequestURI() is not a path; the writer strips scheme://host or refuses
		opaque = true
		ur = &url.URL{Scheme: "https", Host: host, Opaque: pick(r, []string{"//" + host + "/op?x=1", "//other.example/q", "opaque-thing", "//" + host, "//" + host + "*"})}
	}
	req := &http.Request{Method: method, URL: ur, Header: genHeader(r, false), Proto: "HTTP/1.1", ProtoMajor: 1, ProtoMinor: 1}
	if r.Chance(1, 4) {
		req.Host = "override.example"
	}
	if method == "CONNECT" && r.Bool() {
		req.Proto = pick(r, []string{"websocket", "connect-udp", "webtransport"})
	}
	if method == "POST" || method == "PUT" || method == "PATCH" || r.Chance(1, 5) {
		if r.Bool() {
			req.Body = nopBody{strings.NewReader("hello")}
			req.ContentLength = int64(r.Pick(5, 5, 0, -1))
		}
	}
	if r.Chance(1, 4) {
		req.Trailer = http.Header{}
		for j := r.Intn(3); j >= 0; j-- {
			req.Trailer[wTrailers[r.Intn(len(wTrailers))]] = nil
		}
		if r.Chance(1, 3) {
			req.Trailer[wBadTrail[r.Intn(len(wBadTrail))]] = nil
		}
	}
	gzip := r.Chance(1, 3)
	detail := fmt.Sprintf("request method=%q url=%q host=%q proto=%q contentLength=%d body=%v gzip=%v trailer=%v header=%q", req.Method, ur.String(), req.Host, req.Proto, req.ContentLength, req.Body != nil, gzip, req.Trailer, req.Header)
	defer func() {
		if p := recover(); p != nil {
			h.monfail("h3writers/panic", fmt.Sprint(p), detail)
		}
	}()
	fs, err := http3.VerifEncodeRequest(req, gzip)
	h3wRequestCase(h.w, req, gzip, fs, err)
	if err != nil {
		h.dist["request:writer-error"]++
		if strings.HasPrefix(err.Error(), "verif:") {
			h.monfail("h3writers/request-undecodable", err.Error(), detail)
		}
		return
	}
	detail += " emitted=" + fieldsText(fs)
	if i < 6 {
		fmt.Fprintf(h.w, "SAMPLE\t%s\n", ascii(detail))
	}
	// on the wire: no connection-specific field, no host next to :authority, at most one content-length
	ncl := 0
	for _, f := range fs {
		switch {
		case rfcConnSpecific[f.Name]:
			h.monfail("h3writers/request-wire/connection-specific", fmt.Sprintf("the request writer put %q on the wire", f.Name), detail)
		case f.Name == "host":
			h.monfail("h3writers/request-wire/host", "the request writer emitted a host field next to :authority", detail)
		case f.Name == "content-length":
			ncl++
		}
	}
	if ncl > 1 {
		h.monfail("h3writers/request-wire/content-length", fmt.Sprintf("%d content-length fields on the wire", ncl), detail)
	}
	got, _, err := http3.VerifRequestFromHeaders(fs, false, 1<<20)
	if err != nil {
		h.dist["request:rejected"]++
		viol := append(sectionViolations(fs, kRequest, 1<<20), requestViolations(fs)...)
		h.monfail("h3writers/request-rejected/"+causeOf(viol), fmt.Sprintf("the request writer emitted a section the parser rejects: %v", err), detail)
		return
	}
	h.dist["request:accepted"]++
	// same method, authority, target
	wantHost := req.Host
	if wantHost == "" {
		wantHost = ur.Host
	}
	isConnect := req.Method == "CONNECT"
	isExt := isConnect && req.Proto != "" && req.Proto != "HTTP/1.1"
	wantMethod := req.Method
	if wantMethod == "" { // http.Request: "For client requests, an empty string means GET."
		wantMethod = "GET"
	}
	if got.Method != wantMethod || got.Host != wantHost {
		h.monfail("h3writers/request-differs", fmt.Sprintf("method %q host %q after the round trip", got.Method, got.Host), detail)
	}
	if (!isConnect || isExt) && opaque {
		want := strings.TrimPrefix(ur.RequestURI(), "https://"+wantHost)
		if got.URL.RequestURI() != want {
			h.monfail("h3writers/request-differs", fmt.Sprintf("target %q after the round trip, want %q", got.URL.RequestURI(), want), detail)
		}
	} else if !isConnect || isExt {
		wantPath := ur.Path
		if wantPath == "" {
			wantPath = "/"
		}
		if got.URL.RequestURI() != ur.RequestURI() || got.URL.Path != wantPath || got.URL.RawQuery != ur.RawQuery || (!isConnect && got.RequestURI != ur.RequestURI()) {
			h.monfail("h3writers/request-differs", fmt.Sprintf("target %q (path %q) after the round trip, want %q", got.RequestURI, got.URL.Path, ur.RequestURI()), detail)
		}
	}
	if isExt && got.Proto != req.Proto {
		h.monfail("h3writers/request-differs", fmt.Sprintf("protocol %q after the round trip", got.Proto), detail)
	}
	// same header multiset, modulo what the writer documents: host/content-length/connection-specific dropped,
	// at most one non-empty user-agent (default added), accept-encoding: gzip added, cookies joined by the parser
	want := lowerKeys(req.Header, func(k string) bool {
		return k == "host" || k == "content-length" || rfcConnSpecific[k] || k == "user-agent" || k == "cookie"
	})
	if ua, ok := h3wGet(req.Header, "user-agent"); !ok {
		want["user-agent"] = []string{"quic-go HTTP/3"}
	} else if len(ua) > 0 && ua[0] != "" {
		want["user-agent"] = []string{ua[0]}
	}
	if ck, _ := h3wGet(req.Header, "cookie"); len(ck) > 0 {
		want["cookie"] = []string{strings.Join(ck, "; ")}
	}
	if gzip {
		want["accept-encoding"] = append(want["accept-encoding"], "gzip")
		sort.Strings(want["accept-encoding"])
	}
	cl := int64(-1)
	if req.Body == nil {
		cl = 0
	} else if req.ContentLength != 0 {
		cl = req.ContentLength
	}
	sendCL := cl > 0 || (cl == 0 && (req.Method == "POST" || req.Method == "PUT" || req.Method == "PATCH"))
	if sendCL {
		want["content-length"] = []string{fmt.Sprint(cl)}
		if got.ContentLength != cl {
			h.monfail("h3writers/request-differs", fmt.Sprintf("ContentLength %d, want %d", got.ContentLength, cl), detail)
		}
	} else if got.ContentLength != -1 {
		h.monfail("h3writers/request-differs", fmt.Sprintf("ContentLength %d, want none", got.ContentLength), detail)
	}
	gotm := lowerKeys(got.Header, nil)
	if ua := gotm["user-agent"]; len(ua) == 1 && !strings.HasPrefix(ua[0], "quic-go") {
		// keep as is
	} else if len(ua) == 1 {
		gotm["user-agent"] = []string{"quic-go HTTP/3"}
	}
	if !sameMultimap(gotm, want) {
		h.monfail("h3writers/request-differs", fmt.Sprintf("headers %q after the round trip, want %q", gotm, want), detail)
	}
	// announced trailers
	wantTr := map[string]bool{}
	for k := range req.Trailer {
		if !rfcNoTrailer[strings.ToLower(k)] && !strings.HasPrefix(strings.ToLower(k), "if-") {
			wantTr[k] = true
		}
	}
	if len(wantTr) != len(got.Trailer) {
		h.monfail("h3writers/request-differs", fmt.Sprintf("announced trailers %v, want %v", got.Trailer, wantTr), detail)
	}
	for k := range got.Trailer {
		if !wantTr[k] {
			h.monfail("h3writers/request-differs", fmt.Sprintf("announced trailers %v, want %v", got.Trailer, wantTr), detail)
		}
	}
}

func (h *h3run) writerResponse(r *u.Rng, i int) {
	status := int(r.Pick(200, 200, 204, 404, 500, 301, 418, 999, 206))
	hdr := genHeader(r, true)
	var body []byte
	if status != 204 && status != 304 && r.Bool() {
		body = []byte("hello")
		if cl, ok := hdr["Content-Length"]; ok && cl[0] != "5" {
			delete(hdr, "Content-Length") // keep Write from failing on a contradicting length
		}
	}
	unhygienic := false
	if k := i / 4; (k >= len(h3wForcedHeaders) && k < len(h3wForcedHeaders)+len(h3wUnhygienic)) || r.Chance(1, 6) {
		unhygienic = true
		var extra http.Header
		if k >= len(h3wForcedHeaders) && k < len(h3wForcedHeaders)+len(h3wUnhygienic) {
			extra = h3wUnhygienic[k-len(h3wForcedHeaders)]
			hdr = http.Header{}
		} else {
			extra = h3wUnhygienic[r.Intn(len(h3wUnhygienic))]
		}
		body = nil // Content-Length games would make Write fail; the HEADERS frame is what is under test
		for kk, vv := range extra {
			if _, dup := h3wGet(hdr, strings.ToLower(kk)); !dup || strings.ToLower(kk) == "content-length" {
				hdr[kk] = vv
			}
		}
	}
	trailerVals := http.Header{}
	if r.Chance(1, 3) {
		var names []string
		for j := r.Intn(2); j >= 0; j-- {
			t := wTrailers[r.Intn(len(wTrailers))]
			names = append(names, t)
			trailerVals[t] = []string{pick(r, wHdrVals)}
		}
		if r.Chance(1, 4) {
			names = append(names, wBadTrail[r.Intn(len(wBadTrail))])
		}
		hdr["Trailer"] = []string{strings.Join(names, pick(r, []string{",", ", "}))}
	}
	if r.Chance(1, 6) {
		trailerVals[http.TrailerPrefix+"X-Late"] = []string{"v"}
	}
	// trailer sets in which nothing (or not everything) can be sent: declared but never filled in,
	// empty value slices, names that may not be sent in a trailer section
	switch r.Intn(10) {
	case 0: // declared, never filled in
		trailerVals = http.Header{}
		hdr["Trailer"] = []string{"X-T1"}
	case 1: // declared, empty value slice
		trailerVals = http.Header{"X-T1": {}}
		hdr["Trailer"] = []string{"X-T1"}
	case 2: // only names that must not be sent as trailers, through the "Trailer:" prefix
		trailerVals = http.Header{http.TrailerPrefix + pick(r, []string{"Upgrade", "Connection", "Keep-Alive"}): {"x"}}
		delete(hdr, "Trailer")
	case 3: // mixture: one sendable with a value, one empty, one unsendable
		trailerVals = http.Header{"X-T1": {"v"}, "Grpc-Status": {}, http.TrailerPrefix + "Upgrade": {"x"}}
		hdr["Trailer"] = []string{"X-T1, Grpc-Status"}
	case 4: // only an empty late trailer
		trailerVals = http.Header{http.TrailerPrefix + "X-Late": {}}
		delete(hdr, "Trailer")
	}
	early := r.Bool()
	detail := fmt.Sprintf("response status=%d body=%d header=%q trailers=%q trailers-set-before-WriteHeader=%v", status, len(body), hdr, trailerVals, early)
	defer func() {
		if p := recover(); p != nil {
			h.monfail("h3writers/panic", fmt.Sprint(p), detail)
		}
	}()
	fs, tfs, snap1, snap2, err := http3.VerifEncodeResponseSnap(status, hdr, body, trailerVals, early)
	h3wResponseCases(h.w, status, hdr, body, trailerVals, early, fs, tfs, snap1, snap2, err)
	if err != nil && strings.HasPrefix(err.Error(), "verif: trailers:") {
		h.dist["response-trailers:undecodable"]++
		h.monfail("h3writers/response-trailers-undecodable", "the response writer emitted a trailer HEADERS frame the peer cannot decode: "+err.Error(), detail)
		err = nil
	}
	if err != nil {
		h.dist["response:writer-error"]++
		h.monfail("h3writers/response-undecodable", err.Error(), detail)
		return
	}
	// emit / no-emit decision: a trailer section is sent iff some declared (or "Trailer:"-prefixed),
	// sendable trailer has at least one value; an all-skipped set must emit NO section
	{
		sendable := func(k string) bool {
			lk := strings.ToLower(k)
			return !rfcNoTrailer[lk] && !rfcConnSpecific[lk] && !strings.HasPrefix(lk, "if-")
		}
		want := false
		for _, v := range hdr["Trailer"] {
			for _, t := range strings.Split(v, ",") {
				t = http.CanonicalHeaderKey(strings.TrimSpace(t))
				if sendable(t) && len(trailerVals[t]) > 0 {
					want = true
				}
			}
		}
		for k, vs := range trailerVals {
			if strings.HasPrefix(k, http.TrailerPrefix) && sendable(strings.TrimPrefix(k, http.TrailerPrefix)) && len(vs) > 0 {
				want = true
			}
		}
		if want != (tfs != nil) && err == nil {
			h.monfail("h3writers/response-trailers-emit-decision", fmt.Sprintf("trailer section emitted=%v, want %v", tfs != nil, want), detail)
		}
		if want {
			h.dist["response-trailers:expected"]++
		} else {
			h.dist["response-trailers:none-expected"]++
		}
	}
	detail += " emitted=" + fieldsText(fs)
	if i < 6 {
		fmt.Fprintf(h.w, "SAMPLE\t%s\n", ascii(detail))
	}
	rsp, _, err := http3.VerifUpdateResponse(fs, false, 1<<20)
	if err != nil {
		h.dist["response:rejected"]++
		viol := sectionViolations(fs, kResponse, 1<<20)
		if cl, n := lastValue(fs, "content-length"); len(viol) == 0 && n > 0 && allDigits(cl) && !fitsInt63(cl) {
			viol = append(viol, "content-length-too-big")
		}
		h.monfail("h3writers/response-rejected/"+causeOf(viol), fmt.Sprintf("the response writer emitted a section the parser rejects: %v", err), detail)
	} else {
		h.dist["response:accepted"]++
		if rsp.StatusCode != status {
			h.monfail("h3writers/response-differs", fmt.Sprintf("status %d after the round trip", rsp.StatusCode), detail)
		}
		declared := map[string]bool{}
		for _, v := range hdr["Trailer"] {
			for _, t := range strings.Split(v, ",") {
				t = http.CanonicalHeaderKey(strings.TrimSpace(t))
				if !rfcNoTrailer[strings.ToLower(t)] && !strings.HasPrefix(strings.ToLower(t), "if-") {
					declared[strings.ToLower(t)] = true
				}
			}
		}
		// connection-specific fields and TE values other than "trailers" must not reach the wire (RFC 9114 4.2);
		// names that are no tokens and values with forbidden bytes cannot be sent either (the peer must reject
		// them): a writer that sanitises leaves exactly the rest
		clean := http.Header{}
		for k, vv := range hdr {
			if !rfcToken(k) {
				continue
			}
			for _, v := range vv {
				if rfcValueOK(v) {
					clean[k] = append(clean[k], v)
				}
			}
		}
		var clCandidates []string
		for k, vv := range clean {
			if strings.ToLower(k) == "content-length" {
				for _, v := range vv {
					if allDigits(v) && fitsInt63(v) {
						clCandidates = append(clCandidates, v)
					}
				}
			}
		}
		want := lowerKeys(clean, func(k string) bool {
			return k == "trailer" || k == "date" || declared[k] || strings.HasPrefix(k, "trailer:") || rfcConnSpecific[k] || (unhygienic && k == "content-length")
		})
		if te, ok := want["te"]; ok {
			var keep []string
			for _, v := range te {
				if v == "trailers" {
					keep = append(keep, v)
				}
			}
			if len(keep) == 0 {
				delete(want, "te")
			} else {
				want["te"] = keep
			}
		}
		if cl, ok := want["content-length"]; ok && !allDigits(cl[0]) {
			delete(want, "content-length") // documented: a malformed Content-Length is removed with a warning
		}
		gotm := lowerKeys(rsp.Header, func(k string) bool { return k == "date" })
		if unhygienic { // Content-Length: at most one, and one of the numeric values the handler set
			if cl := gotm["content-length"]; len(cl) > 1 || (len(cl) == 1 && !slices.Contains(clCandidates, cl[0])) {
				h.monfail("h3writers/response-differs", fmt.Sprintf("Content-Length %q after the round trip, candidates %q", cl, clCandidates), detail)
			}
			delete(gotm, "content-length")
		}
		if len(body) > 0 && want["content-length"] == nil {
			delete(gotm, "content-length") // added for small buffered bodies
		}
		if _, canonical := hdr["Content-Type"]; len(body) > 0 && !canonical {
			// sniffed from the body: net/http semantics look at the canonical key only, so a handler
			// that stored "content-type" under another spelling gets the sniffed value in addition
			ct := gotm["content-type"]
			for i, v := range ct {
				if v == http.DetectContentType(body) {
					ct = append(append([]string{}, ct[:i]...), ct[i+1:]...)
					break
				}
			}
			if len(ct) == 0 {
				delete(gotm, "content-type")
			} else {
				gotm["content-type"] = ct
			}
		}
		if !sameMultimap(gotm, want) {
			h.monfail("h3writers/response-differs", fmt.Sprintf("headers %q after the round trip, want %q", gotm, want), detail)
		}
	}
	if tfs != nil {
		tdetail := detail + " emitted-trailers=" + fieldsText(tfs)
		tr, _, err := http3.VerifParseTrailers(tfs, false, 1<<20)
		if err != nil {
			h.dist["response-trailers:rejected"]++
			h.monfail("h3writers/trailers-rejected/"+causeOf(sectionViolations(tfs, kTrailer, 1<<20)), fmt.Sprintf("the response writer emitted trailers the parser rejects: %v", err), tdetail)
		} else {
			h.dist["response-trailers:accepted"]++
			for k, vs := range tr {
				w1 := trailerVals[k]
				if w1 == nil {
					w1 = trailerVals[http.TrailerPrefix+k]
				}
				if len(w1) != len(vs) || (len(vs) > 0 && w1[0] != vs[0]) {
					h.monfail("h3writers/trailers-differ", fmt.Sprintf("trailer %q = %q after the round trip, want %q", k, vs, w1), tdetail)
				}
			}
		}
	}
}

func (h *h3run) writerTrailers(r *u.Rng, i int) {
	tr := http.Header{}
	for j := r.Intn(3); j >= 0; j-- {
		k := wTrailers[r.Intn(len(wTrailers))]
		if r.Chance(1, 5) {
			k = strings.ToLower(k)
		}
		tr[k] = append(tr[k], wHdrVals[r.Intn(len(wHdrVals))])
	}
	if r.Chance(1, 3) {
		tr[wBadTrail[r.Intn(len(wBadTrail))]] = []string{"x"}
	}
	if r.Chance(1, 5) {
		tr[wHopNames[r.Intn(len(wHopNames))]] = []string{"x"}
	}
	// trailer maps in which nothing (or not everything) is encodable
	switch r.Intn(10) {
	case 0: // announced as net/http documents it, never filled in
		tr = http.Header{"X-Checksum": nil}
	case 1: // empty value slices only
		tr = http.Header{"X-Checksum": {}, "X-T1": nil}
	case 2: // only names that may not be sent in a trailer section
		tr = http.Header{pick(r, wBadTrail): {"x"}, pick(r, wHopNames): {"y"}}
	case 3: // mixture
		tr = http.Header{"X-Checksum": nil, "Content-Length": {"5"}, "X-T1": {"v"}, "Upgrade": {"x"}}
	case 4:
		tr = http.Header{}
	case 5: // unsendable with value + sendable without
		tr = http.Header{"Upgrade": {"x"}, "X-T1": {}}
	}
	if h3wForcedTrailer != nil {
		tr = h3wForcedTrailer.Clone()
	} else if k := i/4 - len(h3wForcedTrailers); (k >= 0 && k < len(h3wUnhygienicTrailers)) || r.Chance(1, 8) {
		// no hygiene: values with forbidden bytes, names that are no tokens
		var extra http.Header
		if k >= 0 && k < len(h3wUnhygienicTrailers) {
			extra, tr = h3wUnhygienicTrailers[k], http.Header{}
		} else {
			extra = h3wUnhygienicTrailers[r.Intn(len(h3wUnhygienicTrailers))]
		}
		for kk, vv := range extra {
			tr[kk] = vv
		}
	}
	// what a sanitising writer may send: token names that are valid trailers, values without forbidden bytes
	sendable := http.Header{}
	for k, vs := range tr {
		lk := strings.ToLower(k)
		if !rfcToken(k) || rfcNoTrailer[lk] || rfcConnSpecific[lk] || strings.HasPrefix(lk, "if-") {
			continue
		}
		for _, v := range vs {
			if rfcValueOK(v) {
				sendable[k] = append(sendable[k], v)
			}
		}
	}
	detail := fmt.Sprintf("request trailers=%q", tr)
	defer func() {
		if p := recover(); p != nil {
			h.monfail("h3writers/panic", fmt.Sprint(p), detail)
		}
	}()
	fs, written, err := http3.VerifEncodeRequestTrailers(tr)
	if err == nil {
		res := "None"
		if written {
			res = u.Opt(true, coqFields(fs))
		}
		fmt.Fprintf(h.w, "CASE %d %s\n", map[bool]int{false: 0, true: 1}[written], u.App("WTr", coqHeader(tr), res))
	}
	if err != nil {
		h.monfail("h3writers/trailers-undecodable", "writeTrailers emitted a HEADERS frame the peer cannot decode: "+err.Error(), detail)
		return
	}
	wantWritten := len(sendable) > 0
	if written != wantWritten {
		h.monfail("h3writers/trailers-emit-decision", fmt.Sprintf("trailer section written=%v, want %v (an all-skipped trailer set must emit no section)", written, wantWritten), detail)
	}
	if !written {
		h.dist["trailers:none-written"]++
		return
	}
	detail += " emitted=" + fieldsText(fs)
	got, _, err := http3.VerifParseTrailers(fs, false, 1<<20)
	if err != nil {
		h.dist["trailers:rejected"]++
		h.monfail("h3writers/trailers-rejected/"+causeOf(sectionViolations(fs, kTrailer, 1<<20)), fmt.Sprintf("writeTrailers emitted a section the parser rejects: %v", err), detail)
		return
	}
	h.dist["trailers:accepted"]++
	want := lowerKeys(sendable, nil)
	if !sameMultimap(lowerKeys(got, nil), want) {
		h.monfail("h3writers/trailers-differ", fmt.Sprintf("trailers %q after the round trip, want %q", got, want), detail)
	}
}

// ---- correspondence cases for the H3Writers model ----

func h3wStrList(xs []string) string {
	q := make([]string, len(xs))
	for i, x := range xs {
		q[i] = hs(x)
	}
	return u.List(q)
}

// h3wRequestCase prints the abstract request (what encodeHeaders reads, external steps resolved)
// and the emitted field list. The iteration order of req.Trailer is an oracle recovered from the
// emitted "trailer" field; the order of req.Header does not matter (multiset comparison).
func h3wRequestCase(w *bufio.Writer, req *http.Request, gzip bool, fs []hf, err error) {
	if err != nil && strings.HasPrefix(err.Error(), "verif:") {
		return
	}
	a := http3.VerifAbstractRequest(req)
	var order []string
	seen := map[string]bool{}
	for _, f := range fs {
		if f.Name == "trailer" {
			for _, k := range strings.Split(f.Value, ", ") {
				if _, ok := req.Trailer[k]; ok && !seen[k] {
					order = append(order, k)
					seen[k] = true
				}
			}
		}
	}
	var rest []string
	for k := range req.Trailer {
		if !seen[k] {
			rest = append(rest, k)
		}
	}
	sort.Strings(rest)
	order = append(order, rest...)
	res, nt := "None", 0
	if err == nil {
		res, nt = u.Opt(true, coqFields(fs)), 1
	}
	fmt.Fprintf(w, "CASE %d %s\n", nt, u.App("WReq", hs(a.Method), hs(a.Scheme), hs(a.Host), u.B(a.HostOK), hs(a.URI), hs(a.Proto),
		coqHeader(req.Header), u.B(gzip), u.Z(a.CL), h3wStrList(order), res))
}

func h3wResponseCases(w *bufio.Writer, status int, hdr http.Header, body []byte, trailerVals http.Header, early bool,
	fs, tfs []hf, snap1, snap2 http.Header, err error) {
	if snap1 == nil || fs == nil {
		return
	}
	fmt.Fprintf(w, "CASE 1 %s\n", u.App("WRsp", u.Z(int64(status)), coqHeader(snap1), coqFields(fs)))
	if len(body) == 0 { // WriteHeader's defaults (with a body, content-type sniffing interferes)
		before := hdr.Clone()
		if early {
			for k, vv := range trailerVals {
				before[k] = vv
			}
		}
		date := ""
		if d := snap1["Date"]; len(d) > 0 {
			date = d[0]
		}
		fmt.Fprintf(w, "CASE 1 %s\n", u.App("WPrep", hs(date), coqHeader(before), coqHeader(snap1)))
	}
	if snap2 != nil && err == nil {
		res, nt := "None", 0
		if tfs != nil {
			res, nt = u.Opt(true, coqFields(tfs)), 1
		}
		fmt.Fprintf(w, "CASE %d %s\n", nt, u.App("WRspTr", coqHeader(snap1), coqHeader(snap2), res))
	}
}

// ---- receive-side glue: qpack + decodeTrailers (frame-length gate, decoded-size limit) ----

func (h *h3run) h3wDecodeTrailers(r *u.Rng) {
	var fs []hf
	switch r.Intn(6) {
	case 0: // nothing encoded at all: an empty field section (what seeded C19-b made the writer send)
	case 1, 2: // a valid trailer section
		for j := r.Intn(3); j >= 0; j-- {
			fs = append(fs, hf{strings.ToLower(wTrailers[r.Intn(len(wTrailers))]), wHdrVals[r.Intn(len(wHdrVals))]})
		}
	case 3: // arbitrary fields (parser-side generator: pseudo, forbidden, upper case, binary)
		for j := r.Intn(3); j >= 0; j-- {
			fs = append(fs, genField(r, kTrailer))
		}
	default: // valid plus one arbitrary
		fs = append(fs, hf{"x-t1", "v"}, genField(r, kTrailer))
		if r.Bool() {
			fs[0], fs[1] = fs[1], fs[0]
		}
	}
	size := sectionSize(fs)
	// probe the encoded length first
	_, encLen, _, _ := http3.VerifDecodeTrailers(fs, 1<<20, 0)
	maxb := []int{1 << 16, encLen - 1, encLen, encLen + 1, size - 1, size, size + 1, 0}[r.Intn(8)]
	if maxb < 0 {
		maxb = 0
	}
	truncate := 0
	if encLen > 0 && r.Chance(1, 8) {
		truncate = 1 + r.Intn(encLen)
	}
	detail := fmt.Sprintf("decodeTrailers maxHeaderBytes=%d encodedLength=%d truncatedBy=%d fields=%s", maxb, encLen, truncate, fieldsText(fs))
	defer func() {
		if p := recover(); p != nil {
			h.monfail("h3writers/panic", fmt.Sprint(p), detail)
		}
	}()
	hdr, _, rt, err := http3.VerifDecodeTrailers(fs, maxb, truncate)
	if !rt {
		h.monfail("h3writers/qpack-roundtrip", "qpack decode(encode(fields)) differs from fields", detail)
	}
	// monitors: accepted => the frame fits, nothing was cut, the section is a well-formed trailer section
	viol := sectionViolations(fs, kTrailer, maxb)
	if err == nil {
		if encLen > maxb || truncate > 0 || len(fs) == 0 {
			h.monfail("h3writers/decode-trailers-accepted", "decodeTrailers accepted an oversized, truncated or empty HEADERS frame", detail)
		}
		for _, v := range viol {
			h.monfail("h3writers/decode-trailers-accepted-"+v, "decodeTrailers accepted a section that violates rule "+v, detail)
		}
		if !sameFields(hdr, headerMultimap(fs, nil)) {
			h.monfail("h3writers/decode-trailers-map", "trailer map differs from the encoded fields", detail)
		}
		h.dist["decode-trailers:accepted"]++
	} else {
		if encLen <= maxb && truncate == 0 && len(fs) > 0 && len(viol) == 0 {
			h.monfail("h3writers/decode-trailers-rejected-wellformed", fmt.Sprintf("decodeTrailers rejected (%v) a well-formed trailer section within the limits", err), detail)
		}
		h.dist[fmt.Sprintf("decode-trailers:rejected-class-%d", http3.VerifErrClass(err))]++
	}
	res := ""
	nt := 0
	if err != nil {
		res = u.App("DErr", u.Z(int64(http3.VerifErrClass(err))))
	} else {
		res, nt = u.App("DOk", coqHeader(hdr)), 1
	}
	fmt.Fprintf(h.w, "CASE %d %s\n", nt, u.App("WDec", u.Z(int64(maxb)), u.Z(int64(encLen)), u.B(truncate > 0), coqFields(fs), res))
}
