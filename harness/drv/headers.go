//go:build verif

package main

import (
	"bufio"
	"bytes"
	"crypto/rand"
	"encoding/binary"
	"fmt"
	"os"
	"sort"

	"github.com/refraction-networking/uquic/internal/protocol"
	u "github.com/refraction-networking/uquic/internal/verifutil"
	"github.com/refraction-networking/uquic/internal/wire"
)

func init() {
	units["headers"] = runHeaders
	genSources = append(genSources, wire.VerifHeaderConsts)
}

// ---------------------------------------------------------------------------------------
// headers unit (C08): packet headers of internal/wire (header.go, extended_header.go,
// short_header.go, version_negotiation.go).
//   LongCase       bytes -> parseHeader (class, header) and ParsePacket (class, header?, |packet|, |rest|)
//   ExtCase        bytes, bytes' -> parseHeader(bytes).ParseExtended(bytes')
//   AppCase        ExtendedHeader value, version -> Append bytes / error / panic, GetLength
//   ShortAppCase   AppendShortHeader, ShortHeaderLen        ShortParseCase  ParseShortHeader
//   ConnIDCase     ParseConnectionID                        PredCase  IsLongHeaderPacket, IsVersionNegotiationPacket, Is0RTTPacket, ParseVersion
//   ArbCase        ParseArbitraryLenConnectionIDs           VNParseCase     ParseVersionNegotiationPacket
//   VNComposeCase  ComposeVersionNegotiation (first byte scripted through crypto/rand.Reader; grease position/value logged)
// Monitors (model-independent): headers/panic, headers/roundtrip, headers/length, headers/consumed,
// headers/reencode, headers/connid, headers/reject, headers/0rtt, headers/vneg.
// ---------------------------------------------------------------------------------------

type hdGen struct {
	w        *bufio.Writer
	r        *u.Rng
	dist     map[string]int
	seen     map[string]bool
	encs     [][]byte // valid long-header encodings (with a little payload), for mutation
	shorts   [][]byte
	rnd      *hdScriptedRand
	thorough bool
}

type hdScriptedRand struct{ next byte }

func (s *hdScriptedRand) Read(p []byte) (int, error) {
	for i := range p {
		p[i] = s.next
	}
	return len(p), nil
}

func (g *hdGen) monfail(key, desc, detail string) {
	fmt.Fprintf(g.w, "MONFAIL\t%s\t%s\t%s\n", key, desc, detail)
}

func (g *hdGen) emit(nt int, term, bucket string) {
	line := fmt.Sprintf("CASE %d %s\n", nt, term)
	if g.seen[line] {
		return
	}
	g.seen[line] = true
	g.w.WriteString(line)
	g.dist[bucket]++
}

func hdNT(cls int) int {
	if cls == 1 || cls == 2 {
		return 0
	}
	return 1
}

// a copy with len == cap, so that reading past the end panics instead of seeing a neighbour's bytes
func hdExact(b []byte) []byte {
	if b == nil {
		return nil
	}
	c := make([]byte, len(b))
	copy(c, b)
	return c
}

func hdHex(b []byte) string { return "(hx " + u.Hex(b) + ")" }

var (
	hdVersions = []protocol.Version{protocol.Version1, protocol.Version2, 0xff00001d, 0}
	hdTypes    = []protocol.PacketType{protocol.PacketTypeInitial, protocol.PacketTypeHandshake, protocol.PacketType0RTT, protocol.PacketTypeRetry}
	hdCIDLens  = []int{0, 1, 8, 20}
	hdTokLens  = []int{0, 1, 63, 64, 200}
	hdLengths  = []int64{0, 1, 4, 63, 64, 300, 16383, 16384}
	hdPNs      = []int64{0, 1, 0xff, 0x100, 0xffff, 0x10000, 0xffffff, 0x1000000, 0xffffffff, 0x100000000, 0x123456789a, 1<<62 - 1}
)

func hdPNMask(pn protocol.PacketNumber, l protocol.PacketNumberLen) protocol.PacketNumber {
	return protocol.PacketNumber(uint64(pn) & (1<<(8*uint(l)) - 1))
}

func hdSupported(v protocol.Version) bool { return v == protocol.Version1 || v == protocol.Version2 }

// ---------------------------------------------------------------------------------------
// long headers: parse side
// ---------------------------------------------------------------------------------------

// independent restatement of the invariant part (RFC 8999): lengths of the two connection IDs
func hdInvariantCIDLens(in []byte) (dl, sl int, ok bool) {
	if len(in) < 6 {
		return 0, 0, false
	}
	dl = int(in[5])
	if len(in) < 7+dl {
		return dl, 0, false
	}
	sl = int(in[6+dl])
	return dl, sl, true
}

func (g *hdGen) doLong(in []byte, bucket string) (hdr *wire.Header, ok bool) {
	in = hdExact(in)
	detail := fmt.Sprintf("input=%x", in)
	var h1, h2 *wire.Header
	var e1, e2 error
	var pkt, rest []byte
	panicked := false
	func() {
		defer func() {
			if e := recover(); e != nil {
				g.monfail("headers/panic", fmt.Sprintf("parseHeader/ParsePacket panicked: %v", e), detail)
				panicked = true
			}
		}()
		h1, e1 = wire.VerifParseHeader(in)
		h2, pkt, rest, e2 = wire.ParsePacket(in)
	}()
	if panicked {
		return nil, false
	}
	c1, c2 := wire.VerifHdrErrClass(e1), wire.VerifHdrErrClass(e2)
	hs := "None"
	if h1 != nil {
		hs = "(Some " + wire.VerifDumpHeader(h1) + ")"
	}
	g.emit(hdNT(c1), u.App("LongCase", hdHex(in), u.Z(int64(c1)), hs, u.Z(int64(c2)), u.B(h2 != nil), u.Z(int64(len(pkt))), u.Z(int64(len(rest)))), "long:"+bucket)
	g.dist[fmt.Sprintf("long-class:%d/%d", c1, c2)]++
	// --- monitors ---
	if h2 != nil && (h1 == nil || wire.VerifDumpHeader(h1) != wire.VerifDumpHeader(h2)) {
		g.monfail("headers/consumed", "ParsePacket returns a header different from parseHeader's", detail)
	}
	if e1 == nil && (h1.ParsedLen() > protocol.ByteCount(len(in)) || h1.ParsedLen() < 7) {
		g.monfail("headers/consumed", fmt.Sprintf("parseHeader: ParsedLen %d of %d bytes", h1.ParsedLen(), len(in)), detail)
	}
	if e2 == nil {
		n := int(h2.ParsedLen() + h2.Length)
		if h2.Length < 0 || n > len(in) || len(pkt) != n || !bytes.Equal(pkt, in[:min(n, len(in))]) || !bytes.Equal(rest, in[min(n, len(in)):]) {
			g.monfail("headers/consumed", fmt.Sprintf("ParsePacket: ParsedLen %d + Length %d, packet %d bytes, rest %d bytes of %d", h2.ParsedLen(), h2.Length, len(pkt), len(rest), len(in)), detail)
		}
		if (h2.Type == protocol.PacketType0RTT) != wire.Is0RTTPacket(in) {
			g.monfail("headers/0rtt", "Is0RTTPacket disagrees with the parsed packet type", detail)
		}
		if h2.Version != 0 && !hdSupported(h2.Version) {
			g.monfail("headers/reject", "ParsePacket succeeds for an unsupported version", detail)
		}
	} else if pkt != nil || rest != nil {
		g.monfail("headers/consumed", "ParsePacket returns data together with an error", detail)
	}
	// connection ID length limits: the invariant header decides, independently of the parser
	if len(in) > 0 && wire.IsLongHeaderPacket(in[0]) {
		dl, sl, full := hdInvariantCIDLens(in)
		if len(in) >= 6 && dl > 20 {
			if e1 == nil || e2 == nil || c2 == 5 {
				g.monfail("headers/reject", fmt.Sprintf("long header with a %d byte destination connection ID accepted", dl), detail)
			}
			if _, err := g.connID(in, 0); err == nil {
				g.monfail("headers/reject", fmt.Sprintf("ParseConnectionID accepts a %d byte destination connection ID", dl), detail)
			}
		}
		if full && dl <= 20 && sl > 20 && (e1 == nil || e2 == nil || c2 == 5) {
			g.monfail("headers/reject", fmt.Sprintf("long header with a %d byte source connection ID accepted", sl), detail)
		}
		if h2 != nil { // success or unsupported version
			if !full || h2.DestConnectionID.Len() != dl || h2.SrcConnectionID.Len() != sl ||
				!bytes.Equal(h2.DestConnectionID.Bytes(), in[6:6+dl]) || !bytes.Equal(h2.SrcConnectionID.Bytes(), in[7+dl:7+dl+sl]) {
				g.monfail("headers/roundtrip", "parsed connection IDs are not the bytes of the invariant header", detail)
			}
			for _, k := range []int{0, 8, 20} {
				c, err := g.connID(in, k)
				if err != nil || c != h2.DestConnectionID {
					g.monfail("headers/connid", fmt.Sprintf("ParseConnectionID(_, %d) = (%s, %v), header has %s", k, c, err, h2.DestConnectionID), detail)
				}
			}
		}
	}
	if e1 == nil {
		g.doExt(in, in, h1, "same", g.r.Chance(1, 3) || bucket == "hostile")
	}
	if e2 == nil && hdSupported(h2.Version) {
		g.checkReencode(in, h2)
	}
	return h1, e1 == nil
}

func (g *hdGen) connID(in []byte, k int) (c protocol.ConnectionID, err error) {
	in = hdExact(in)
	defer func() {
		if e := recover(); e != nil {
			err = fmt.Errorf("panic: %v", e)
		}
	}()
	return wire.ParseConnectionID(in, k)
}

// Header.ParseExtended on ext (normally the same bytes with header protection removed)
func (g *hdGen) doExt(in, ext []byte, h *wire.Header, bucket string, log bool) (*wire.ExtendedHeader, error) {
	ext = hdExact(ext)
	detail := fmt.Sprintf("input=%x ext=%x", in, ext)
	if len(ext) == 0 {
		// data[0] of an empty slice panics; unpackLongHeader guarantees len(data) >= ParsedLen+20 (the model says class 20).
		// Never called: the real callers cannot.
		return nil, fmt.Errorf("empty")
	}
	var e *wire.ExtendedHeader
	var err error
	panicked := false
	before := wire.VerifDumpHeader(h)
	func() {
		defer func() {
			if x := recover(); x != nil {
				g.monfail("headers/panic", fmt.Sprintf("ParseExtended panicked: %v", x), detail)
				panicked = true
			}
		}()
		e, err = h.ParseExtended(ext)
	}()
	if panicked {
		return nil, fmt.Errorf("panic")
	}
	cls := wire.VerifHdrErrClass(err)
	if e == nil {
		if log {
			g.emit(hdNT(cls), u.App("ExtCase", hdHex(in), hdHex(ext), u.Z(int64(cls)), "false", "0", "0", "0", "0"), "ext:"+bucket)
		}
		return nil, err
	}
	if log {
		g.emit(1, u.App("ExtCase", hdHex(in), hdHex(ext), u.Z(int64(cls)), "true", u.Z(int64(wire.VerifExtTypeByte(e))), u.Z(int64(e.PacketNumberLen)),
			u.Z(int64(e.PacketNumber)), u.Z(int64(e.ParsedLen()))), "ext:"+bucket)
	}
	if wire.VerifDumpHeader(&e.Header) != before || wire.VerifDumpHeader(h) != before {
		g.monfail("headers/roundtrip", "ParseExtended changes the header", detail)
	}
	if e.ParsedLen() > protocol.ByteCount(len(ext)) || e.ParsedLen() != h.ParsedLen()+protocol.ByteCount(e.PacketNumberLen) ||
		e.PacketNumberLen < 1 || e.PacketNumberLen > 4 {
		g.monfail("headers/consumed", fmt.Sprintf("ParseExtended: ParsedLen %d (header %d, pnLen %d) of %d bytes", e.ParsedLen(), h.ParsedLen(), e.PacketNumberLen, len(ext)), detail)
	} else {
		var pn uint64
		for _, b := range ext[h.ParsedLen():e.ParsedLen()] {
			pn = pn<<8 | uint64(b)
		}
		if uint64(e.PacketNumber) != pn {
			g.monfail("headers/roundtrip", fmt.Sprintf("ParseExtended: packet number %d, bytes say %d", e.PacketNumber, pn), detail)
		}
	}
	if (ext[0]&0x0c != 0) != (err == wire.ErrInvalidReservedBits) {
		g.monfail("headers/reject", fmt.Sprintf("reserved bits %#x, error %v", ext[0]&0x0c, err), detail)
	}
	if wire.VerifExtKeyPhase(e) != protocol.KeyPhaseUndefined {
		g.monfail("headers/roundtrip", "long header with a key phase", detail)
	}
	return e, err
}

// parse -> Append -> parse is a fixpoint (supported versions; Length must fit the 2-byte field Append writes)
func (g *hdGen) checkReencode(in []byte, h *wire.Header) {
	detail := fmt.Sprintf("input=%x", in)
	defer func() {
		if e := recover(); e != nil {
			g.monfail("headers/panic", fmt.Sprintf("re-encoding a parsed header panicked: %v", e), detail)
		}
	}()
	if h.Type == protocol.PacketTypeRetry {
		e := &wire.ExtendedHeader{Header: *h}
		b2, err := e.Append(nil, h.Version)
		if err != nil {
			g.monfail("headers/reencode", "Append of a parsed Retry header fails: "+err.Error(), detail)
			return
		}
		// the low four bits of a Retry's first byte are unused; everything else is byte-exact
		if len(b2)+16 != len(in) || !bytes.Equal(b2[1:], in[1:len(in)-16]) || b2[0] != in[0]&0xf0 {
			g.monfail("headers/reencode", fmt.Sprintf("re-encoded Retry %x differs", b2), detail)
		}
		return
	}
	if protocol.ByteCount(len(in)) < h.ParsedLen()+protocol.ByteCount(in[0]&3)+1 {
		return
	}
	e, err := h.ParseExtended(in)
	if e == nil {
		g.monfail("headers/reencode", fmt.Sprintf("ParseExtended fails although the packet number is there: %v", err), detail)
		return
	}
	if h.Length > 16383 {
		g.dist["reencode:length-too-large-for-Append"]++
		return
	}
	b2, err := e.Append(nil, h.Version)
	if err != nil {
		g.monfail("headers/reencode", "Append of a parsed header fails: "+err.Error(), detail)
		return
	}
	if e.GetLength(h.Version) != protocol.ByteCount(len(b2)) {
		g.monfail("headers/length", fmt.Sprintf("parsed header: len(Append)=%d, GetLength=%d", len(b2), e.GetLength(h.Version)), detail)
	}
	// Append always uses 2 bytes for Length (one more than a 1-byte Length of the input) and minimal
	// varints otherwise: it is never longer than that; it is shorter when the input used non-minimal varints
	if len(b2) > int(e.ParsedLen())+1 {
		g.monfail("headers/reencode", fmt.Sprintf("re-encoding has %d bytes, the parsed header %d", len(b2), e.ParsedLen()), detail)
	}
	in2 := append(append([]byte{}, b2...), in[e.ParsedLen():]...)
	h2, err := wire.VerifParseHeader(in2)
	if err != nil {
		g.monfail("headers/reencode", "re-encoded header does not parse: "+err.Error(), detail)
		return
	}
	e2, err := h2.ParseExtended(in2)
	if e2 == nil || err != nil {
		g.monfail("headers/reencode", fmt.Sprintf("re-encoded extended header does not parse: %v", err), detail)
		return
	}
	if !hdSameFields(h, h2) || e2.PacketNumber != e.PacketNumber || e2.PacketNumberLen != e.PacketNumberLen || int(e2.ParsedLen()) != len(b2) {
		g.monfail("headers/reencode", "parse(Append(parse(b))) differs: "+wire.VerifHeaderString(h)+" vs "+wire.VerifHeaderString(h2), detail)
	}
}

func hdSameFields(a, b *wire.Header) bool {
	return a.Type == b.Type && a.Version == b.Version && a.DestConnectionID == b.DestConnectionID && a.SrcConnectionID == b.SrcConnectionID &&
		a.Length == b.Length && bytes.Equal(a.Token, b.Token)
}

// ---------------------------------------------------------------------------------------
// long headers: append side
// ---------------------------------------------------------------------------------------

func (g *hdGen) mkExt(ty protocol.PacketType, hv protocol.Version, dl, sl, tl int, length int64, pnLen int, pn int64) *wire.ExtendedHeader {
	e := &wire.ExtendedHeader{}
	e.Type = ty
	e.Version = hv
	e.DestConnectionID = protocol.ParseConnectionID(g.r.Bytes(dl))
	e.SrcConnectionID = protocol.ParseConnectionID(g.r.Bytes(sl))
	if tl > 0 || g.r.Bool() {
		e.Token = g.r.Bytes(tl)
	}
	e.Length = protocol.ByteCount(length)
	e.PacketNumberLen = protocol.PacketNumberLen(pnLen)
	e.PacketNumber = protocol.PacketNumber(pn)
	return e
}

func (g *hdGen) doAppend(e *wire.ExtendedHeader, v protocol.Version, bucket string) {
	detail := fmt.Sprintf("v=%#x ext=%s", uint32(v), wire.VerifDumpExt(e))
	var enc []byte
	var err error
	var gl protocol.ByteCount
	cls := 0
	func() {
		defer func() {
			if x := recover(); x != nil {
				cls = 20
				if e.Length >= 0 && e.Length <= 16383 {
					g.monfail("headers/panic", fmt.Sprintf("ExtendedHeader.Append panicked: %v", x), detail)
				} else {
					// quicvarint.AppendWithLen(b, Length, 2): the packer never asks for more than a packet's size
					g.dist["append:panic-length-exceeds-2-byte-varint"]++
				}
			}
		}()
		gl = e.GetLength(v)
		enc, err = e.Append([]byte{}, v)
	}()
	if cls == 0 {
		cls = wire.VerifHdrErrClass(err)
	}
	if cls != 0 {
		enc = nil
	}
	g.emit(1, u.App("AppCase", wire.VerifDumpExt(e), u.ZU(uint64(v)), u.Z(int64(cls)), hdHex(enc), u.Z(int64(gl))), "append:"+bucket)
	g.dist[fmt.Sprintf("append-class:%d", cls)]++
	if cls != 0 {
		if cls == 13 && e.PacketNumberLen >= 1 && e.PacketNumberLen <= 4 || cls == 12 || cls == 99 {
			g.monfail("headers/roundtrip", fmt.Sprintf("Append of a well-formed header fails: %v", err), detail)
		}
		return
	}
	// Append must not depend on what is already in the buffer
	pre := []byte{0xde, 0xad}
	enc2, _ := e.Append(append([]byte{}, pre...), v)
	if len(enc2) < 2 || !bytes.Equal(enc2[2:], enc) || !bytes.Equal(enc2[:2], pre) {
		g.monfail("headers/length", "Append to a non-empty buffer differs", detail)
	}
	if e.Type != protocol.PacketTypeRetry && protocol.ByteCount(len(enc)) != gl {
		g.monfail("headers/length", fmt.Sprintf("len(Append)=%d but GetLength()=%d", len(enc), gl), detail)
	}
	// the packet: header, then Length-pnLen bytes of payload, then something else
	var in []byte
	var extra []byte
	if e.Type == protocol.PacketTypeRetry {
		in = append(append([]byte{}, enc...), g.r.Bytes(16)...) // integrity tag
	} else {
		pl := int(e.Length) - int(e.PacketNumberLen)
		if pl < 0 {
			pl = 0
		}
		if pl > 400 { // keep cases short: the packet is then truncated (ParsePacket reports class 7)
			pl = int(g.r.Pick(0, 1, 20))
		}
		extra = g.r.Bytes(int(g.r.Pick(0, 0, 1, 5)))
		in = append(append(append([]byte{}, enc...), g.r.Bytes(pl)...), extra...)
	}
	h, ok := g.doLong(in, bucket)
	if len(in) < 300 {
		g.encs = append(g.encs, in)
	}
	if e.Version != v || !hdSupported(v) {
		return // Append writes the header's Version field but v's type bits: no expectation
	}
	if e.Type < protocol.PacketTypeInitial || e.Type > protocol.PacketType0RTT {
		return // not a packet type: written with type bits 00
	}
	if e.Type == protocol.PacketTypeRetry && len(e.Token) == 0 {
		if ok {
			g.monfail("headers/reject", "Retry without a token accepted", detail)
		}
		return
	}
	want := e.Header
	if e.Type != protocol.PacketTypeInitial && e.Type != protocol.PacketTypeRetry {
		want.Token = nil
	}
	if e.Type == protocol.PacketTypeRetry {
		want.Length = 0
	}
	if !ok {
		g.monfail("headers/roundtrip", "parse(Append(h)) fails", detail+fmt.Sprintf(" enc=%x", in))
		return
	}
	if !hdSameFields(&want, h) {
		g.monfail("headers/roundtrip", "parse(Append(h)) = "+wire.VerifHeaderString(h), detail)
	}
	if e.Type == protocol.PacketTypeRetry {
		if int(h.ParsedLen()) != len(in) {
			g.monfail("headers/consumed", fmt.Sprintf("Retry: ParsedLen %d of %d", h.ParsedLen(), len(in)), detail)
		}
		return
	}
	if int(h.ParsedLen())+int(e.PacketNumberLen) != len(enc) {
		g.monfail("headers/consumed", fmt.Sprintf("ParsedLen %d + pnLen %d != len(Append) %d", h.ParsedLen(), e.PacketNumberLen, len(enc)), detail)
	}
	x, err := h.ParseExtended(in)
	if err != nil || x == nil {
		g.monfail("headers/roundtrip", fmt.Sprintf("ParseExtended(Append(h)) fails: %v", err), detail)
		return
	}
	if x.PacketNumberLen != e.PacketNumberLen || x.PacketNumber != hdPNMask(e.PacketNumber, e.PacketNumberLen) || int(x.ParsedLen()) != len(enc) {
		g.monfail("headers/roundtrip", fmt.Sprintf("ParseExtended(Append(h)): pn %d pnLen %d parsedLen %d", x.PacketNumber, x.PacketNumberLen, x.ParsedLen()), detail)
	}
	if int(e.Length) >= int(e.PacketNumberLen) && len(in) == len(enc)+int(e.Length)-int(e.PacketNumberLen)+len(extra) {
		_, pkt, rest, err := wire.ParsePacket(in)
		if err != nil || len(pkt) != len(in)-len(extra) || !bytes.Equal(rest, extra) {
			g.monfail("headers/consumed", fmt.Sprintf("ParsePacket cuts %d/%d bytes (err %v), expected %d/%d", len(pkt), len(rest), err, len(in)-len(extra), len(extra)), detail)
		}
	}
}

// ---------------------------------------------------------------------------------------
// short headers
// ---------------------------------------------------------------------------------------

func (g *hdGen) doShortAppend(cid []byte, pn int64, pnLen int, kp protocol.KeyPhaseBit) {
	detail := fmt.Sprintf("cid=%x pn=%d pnLen=%d kp=%d", cid, pn, pnLen, kp)
	c := protocol.ParseConnectionID(cid)
	var enc []byte
	var err error
	var sl protocol.ByteCount
	panicked := false
	func() {
		defer func() {
			if x := recover(); x != nil {
				g.monfail("headers/panic", fmt.Sprintf("AppendShortHeader panicked: %v", x), detail)
				panicked = true
			}
		}()
		enc, err = wire.AppendShortHeader([]byte{}, c, protocol.PacketNumber(pn), protocol.PacketNumberLen(pnLen), kp)
		sl = wire.ShortHeaderLen(c, protocol.PacketNumberLen(pnLen))
	}()
	if panicked {
		return
	}
	cls := wire.VerifHdrErrClass(err)
	if cls != 0 {
		enc = nil
	}
	g.emit(1, u.App("ShortAppCase", hdHex(cid), u.Z(pn), u.Z(int64(pnLen)), u.Z(int64(kp)), u.Z(int64(cls)), hdHex(enc), u.Z(int64(sl))), "short-append")
	if cls != 0 {
		if pnLen >= 1 && pnLen <= 4 {
			g.monfail("headers/roundtrip", fmt.Sprintf("AppendShortHeader fails: %v", err), detail)
		}
		return
	}
	if protocol.ByteCount(len(enc)) != sl {
		g.monfail("headers/length", fmt.Sprintf("len(AppendShortHeader)=%d but ShortHeaderLen=%d", len(enc), sl), detail)
	}
	in := append(append([]byte{}, enc...), g.r.Bytes(g.r.Intn(6))...)
	if len(in) < 100 {
		g.shorts = append(g.shorts, in)
	}
	l, ppn, ppl, pkp, err := g.doShortParse(in, len(cid), "structured")
	wantKP := kp
	if kp != protocol.KeyPhaseOne {
		wantKP = protocol.KeyPhaseZero
	}
	if err != nil || l != len(enc) || ppn != hdPNMask(protocol.PacketNumber(pn), protocol.PacketNumberLen(pnLen)) || int(ppl) != pnLen || pkp != wantKP {
		g.monfail("headers/roundtrip", fmt.Sprintf("ParseShortHeader(AppendShortHeader) = (%d, %d, %d, %d, %v), %d bytes written", l, ppn, ppl, pkp, err, len(enc)), detail)
	}
	got, err := g.connID(in, len(cid))
	if err != nil || got != c {
		g.monfail("headers/connid", fmt.Sprintf("ParseConnectionID of a short header = (%s, %v)", got, err), detail)
	}
}

func (g *hdGen) doShortParse(in []byte, cidLen int, bucket string) (l int, pn protocol.PacketNumber, pnLen protocol.PacketNumberLen, kp protocol.KeyPhaseBit, err error) {
	in = hdExact(in)
	detail := fmt.Sprintf("cidLen=%d input=%x", cidLen, in)
	panicked := false
	func() {
		defer func() {
			if x := recover(); x != nil {
				panicked = true
				if cidLen >= 0 {
					g.monfail("headers/panic", fmt.Sprintf("ParseShortHeader panicked: %v", x), detail)
				}
			}
		}()
		l, pn, pnLen, kp, err = wire.ParseShortHeader(in, cidLen)
	}()
	cls := wire.VerifHdrErrClass(err)
	if panicked {
		cls, l, pn, pnLen, kp = 20, 0, 0, 0, 0
		err = fmt.Errorf("panic")
	}
	g.emit(hdNT(cls), u.App("ShortParseCase", hdHex(in), u.Z(int64(cidLen)), u.Z(int64(cls)), u.Z(int64(l)), u.Z(int64(pn)), u.Z(int64(pnLen)), u.Z(int64(kp))), "short-parse:"+bucket)
	g.dist[fmt.Sprintf("short-class:%d", cls)]++
	if cls != 0 && cls != 8 {
		if l != 0 || pn != 0 || pnLen != 0 || kp != 0 {
			g.monfail("headers/consumed", "ParseShortHeader returns values together with an error", detail)
		}
		return
	}
	if cidLen < 0 {
		return
	}
	if l > len(in) || l != 1+cidLen+int(pnLen) || pnLen < 1 || pnLen > 4 {
		g.monfail("headers/consumed", fmt.Sprintf("ParseShortHeader: length %d (pnLen %d) of %d bytes", l, pnLen, len(in)), detail)
		return
	}
	if (in[0]&0x18 != 0) != (cls == 8) {
		g.monfail("headers/reject", fmt.Sprintf("reserved bits %#x, error %v", in[0]&0x18, err), detail)
	}
	if cidLen <= 20 {
		c, cerr := g.connID(in, cidLen)
		if cerr != nil || !bytes.Equal(c.Bytes(), in[1:1+cidLen]) {
			g.monfail("headers/connid", fmt.Sprintf("ParseConnectionID(_, %d) = (%s, %v)", cidLen, c, cerr), detail)
		}
		// re-encoding is byte-exact when the reserved bits are zero, except for the spin bit (0x20), which is
		// ignored by the parser and never written
		if cls == 0 {
			b2, aerr := wire.AppendShortHeader(nil, protocol.ParseConnectionID(in[1:1+cidLen]), pn, pnLen, kp)
			if aerr != nil || len(b2) != l || !bytes.Equal(b2[1:], in[1:l]) || b2[0] != in[0]&^0x20 {
				g.monfail("headers/reencode", fmt.Sprintf("AppendShortHeader(ParseShortHeader(b)) = %x (%v)", b2, aerr), detail)
			}
		}
	}
	return
}

// ---------------------------------------------------------------------------------------
// ParseConnectionID, predicates, ParseArbitraryLenConnectionIDs, Version Negotiation
// ---------------------------------------------------------------------------------------

func (g *hdGen) doConnID(in []byte, k int) {
	in = hdExact(in)
	detail := fmt.Sprintf("shortLen=%d input=%x", k, in)
	var c protocol.ConnectionID
	var err error
	cls := 0
	func() {
		defer func() {
			if x := recover(); x != nil {
				cls = 20
				if k >= 0 && k <= 20 {
					g.monfail("headers/panic", fmt.Sprintf("ParseConnectionID panicked: %v", x), detail)
				}
			}
		}()
		c, err = wire.ParseConnectionID(in, k)
	}()
	if cls == 0 {
		cls = wire.VerifHdrErrClass(err)
	} else {
		c = protocol.ConnectionID{}
	}
	g.emit(hdNT(cls), u.App("ConnIDCase", hdHex(in), u.Z(int64(k)), u.Z(int64(cls)), hdHex(c.Bytes())), "connid")
	g.dist[fmt.Sprintf("connid-class:%d", cls)]++
	if cls != 0 && c.Len() != 0 {
		g.monfail("headers/connid", "ParseConnectionID returns a connection ID together with an error", detail)
	}
	if cls == 0 { // the connection ID is where the invariants (RFC 8999) put it
		var want []byte
		if wire.IsLongHeaderPacket(in[0]) {
			if len(in) >= 6 && len(in) >= 6+int(in[5]) {
				want = in[6 : 6+int(in[5])]
			}
		} else if len(in) >= 1+k {
			want = in[1 : 1+k]
		}
		if want == nil || !bytes.Equal(c.Bytes(), want) {
			g.monfail("headers/connid", fmt.Sprintf("ParseConnectionID = %s, the packet has %x", c, want), detail)
		}
	}
}

// ParseConnectionID around the minimal lengths: long header with a dl byte connection ID cut to 5+dl-1 .. 5+dl+2
// bytes, short header with k expected bytes cut to k-1 .. k+2 bytes
func (g *hdGen) connIDBoundaries() {
	for _, dl := range []int{0, 1, 2, 8, 19, 20, 21, 255} {
		full := append([]byte{0xc0 | byte(g.r.Intn(64)), 0, 0, 0, 1, byte(dl)}, g.r.Bytes(dl+3)...)
		for n := 4 + dl; n <= 8+dl; n++ {
			if n >= 0 && n <= len(full) {
				g.doConnID(full[:n], int(g.r.Pick(0, 8)))
			}
		}
		for n := 0; n <= 6 && n < len(full); n++ {
			g.doConnID(full[:n], 0)
		}
	}
	for _, k := range []int{0, 1, 4, 8, 20} {
		full := append([]byte{0x40 | byte(g.r.Intn(64))}, g.r.Bytes(k+3)...)
		for n := k - 1; n <= k+3; n++ {
			if n >= 0 && n <= len(full) {
				g.doConnID(full[:n], k)
			}
		}
	}
}

func (g *hdGen) doPreds(in []byte) {
	in = hdExact(in)
	detail := fmt.Sprintf("input=%x", in)
	defer func() {
		if x := recover(); x != nil {
			g.monfail("headers/panic", fmt.Sprintf("header predicate panicked: %v", x), detail)
		}
	}()
	isLong := len(in) > 0 && wire.IsLongHeaderPacket(in[0])
	isVN := wire.IsVersionNegotiationPacket(in)
	is0 := wire.Is0RTTPacket(in)
	v, err := wire.ParseVersion(in)
	g.emit(1, u.App("PredCase", hdHex(in), u.B(isLong), u.B(isVN), u.B(is0), u.Z(int64(wire.VerifHdrErrClass(err))), u.ZU(uint64(v))), "pred")
	if isVN != (isLong && err == nil && v == 0) {
		g.monfail("headers/vneg", "IsVersionNegotiationPacket disagrees with IsLongHeaderPacket && ParseVersion == 0", detail)
	}
	if is0 && !isLong {
		g.monfail("headers/0rtt", "short header classified as 0-RTT", detail)
	}
	// ParseArbitraryLenConnectionIDs
	n, dst, src, aerr := wire.ParseArbitraryLenConnectionIDs(in)
	acls := wire.VerifHdrErrClass(aerr)
	g.emit(hdNT(acls), u.App("ArbCase", hdHex(in), u.Z(int64(acls)), u.Z(int64(n)), hdHex(dst), hdHex(src)), "arb")
	if aerr == nil {
		if n > len(in) || n != 7+len(dst)+len(src) || !bytes.Equal(dst, in[6:6+len(dst)]) || !bytes.Equal(src, in[7+len(dst):n]) {
			g.monfail("headers/consumed", fmt.Sprintf("ParseArbitraryLenConnectionIDs: %d bytes parsed of %d", n, len(in)), detail)
		}
	} else if n != 0 || dst != nil || src != nil {
		g.monfail("headers/consumed", "ParseArbitraryLenConnectionIDs returns values together with an error", detail)
	}
}

func hdVersionList(vs []protocol.Version) string {
	xs := make([]int64, len(vs))
	for i, v := range vs {
		xs[i] = int64(v)
	}
	return u.ZList(xs)
}

func hdIsReserved(v protocol.Version) bool { return uint32(v)&0x0f0f0f0f == 0x0a0a0a0a }

func (g *hdGen) doVNParse(in []byte, bucket string) (dst, src protocol.ArbitraryLenConnectionID, vs []protocol.Version, err error) {
	in = hdExact(in)
	detail := fmt.Sprintf("input=%x", in)
	panicked := false
	func() {
		defer func() {
			if x := recover(); x != nil {
				g.monfail("headers/panic", fmt.Sprintf("ParseVersionNegotiationPacket panicked: %v", x), detail)
				panicked = true
			}
		}()
		dst, src, vs, err = wire.ParseVersionNegotiationPacket(in)
	}()
	if panicked {
		return nil, nil, nil, fmt.Errorf("panic")
	}
	cls := wire.VerifHdrErrClass(err)
	g.emit(hdNT(cls), u.App("VNParseCase", hdHex(in), u.Z(int64(cls)), hdHex(dst), hdHex(src), hdVersionList(vs)), "vn-parse:"+bucket)
	g.dist[fmt.Sprintf("vn-class:%d", cls)]++
	if err != nil {
		if dst != nil || src != nil || vs != nil {
			g.monfail("headers/vneg", "ParseVersionNegotiationPacket returns values together with an error", detail)
		}
		return
	}
	if len(vs) == 0 || 7+len(dst)+len(src)+4*len(vs) != len(in) {
		g.monfail("headers/consumed", fmt.Sprintf("Version Negotiation: %d+%d connection ID bytes and %d versions do not make %d bytes", len(dst), len(src), len(vs), len(in)), detail)
	}
	return
}

func (g *hdGen) doVNCompose(rnd byte, dst, src []byte, versions []protocol.Version) []byte {
	detail := fmt.Sprintf("rnd=%#x dst=%x src=%x versions=%v", rnd, dst, src, versions)
	g.rnd.next = rnd
	var out []byte
	panicked := false
	func() {
		defer func() {
			if x := recover(); x != nil {
				g.monfail("headers/panic", fmt.Sprintf("ComposeVersionNegotiation panicked: %v", x), detail)
				panicked = true
			}
		}()
		out = wire.ComposeVersionNegotiation(protocol.ArbitraryLenConnectionID(dst), protocol.ArbitraryLenConnectionID(src), versions)
	}()
	if panicked {
		return nil
	}
	// the greased list, read off the tail (independent of the parser under test)
	n := len(versions) + 1
	wantLen := 7 + len(dst) + len(src) + 4*n
	if len(out) != wantLen {
		g.monfail("headers/length", fmt.Sprintf("Version Negotiation packet has %d bytes, expected %d", len(out), wantLen), detail)
		return out
	}
	gv := make([]protocol.Version, n)
	for i := range gv {
		gv[i] = protocol.Version(binary.BigEndian.Uint32(out[7+len(dst)+len(src)+4*i:]))
	}
	pos := 0
	for pos < len(versions) && gv[pos] == versions[pos] {
		pos++
	}
	rv := gv[pos]
	rest := append(append([]protocol.Version{}, gv[:pos]...), gv[pos+1:]...)
	same := len(rest) == len(versions)
	for i := range versions {
		same = same && rest[i] == versions[i]
	}
	if !same || !hdIsReserved(rv) {
		g.monfail("headers/vneg", fmt.Sprintf("version list %v is not the supported versions plus one reserved version", gv), detail)
	}
	g.emit(1, u.App("VNComposeCase", u.Z(int64(rnd)), hdHex(dst), hdHex(src), hdVersionList(versions), u.Z(int64(pos)), u.ZU(uint64(rv)), hdHex(out)), "vn-compose")
	if out[0] != rnd|0xc0 || !wire.IsVersionNegotiationPacket(out) {
		g.monfail("headers/vneg", fmt.Sprintf("first byte %#x (random byte %#x) / version field %x", out[0], rnd, out[1:5]), detail)
	}
	if len(dst) <= 255 && len(src) <= 255 {
		pd, ps, pv, err := g.doVNParse(out, "composed")
		ok := err == nil && bytes.Equal(pd, dst) && bytes.Equal(ps, src) && len(pv) == n
		for i := 0; ok && i < n; i++ {
			ok = pv[i] == gv[i]
		}
		if !ok {
			g.monfail("headers/roundtrip", fmt.Sprintf("ParseVersionNegotiationPacket(Compose) = (%x, %x, %v, %v)", pd, ps, pv, err), detail)
		}
		if len(dst) <= 20 {
			c, cerr := g.connID(out, 0)
			if cerr != nil || !bytes.Equal(c.Bytes(), dst) {
				g.monfail("headers/connid", fmt.Sprintf("ParseConnectionID of a Version Negotiation packet = (%s, %v)", c, cerr), detail)
			}
		}
		if len(dst) <= 20 && len(src) <= 20 {
			h, _ := g.doLong(out, "vneg")
			if h == nil || h.Version != 0 || !bytes.Equal(h.DestConnectionID.Bytes(), dst) || !bytes.Equal(h.SrcConnectionID.Bytes(), src) || int(h.ParsedLen()) != 7+len(dst)+len(src) {
				g.monfail("headers/roundtrip", "parseHeader of a Version Negotiation packet differs", detail)
			}
		}
	}
	return out
}

// ---------------------------------------------------------------------------------------
// byte strings
// ---------------------------------------------------------------------------------------

// non-minimal varints in long headers (RFC 9000 section 16): the token length of an Initial and the
// Length field, each 1/2/4/8 bytes wide.  Independent of the parser: the header ends exactly where
// the hand-assembled one ends, token and Length are the values written, ParsePacket cuts there.
func (g *hdGen) wideCases() {
	r := g.r
	app := func(b []byte, v uint64, w int) []byte {
		switch w {
		case 1:
			return append(b, byte(v))
		case 2:
			return append(b, byte(v>>8)|0x40, byte(v))
		case 4:
			return append(b, byte(v>>24)|0x80, byte(v>>16), byte(v>>8), byte(v))
		}
		return append(b, byte(v>>56)|0xc0, byte(v>>48), byte(v>>40), byte(v>>32), byte(v>>24), byte(v>>16), byte(v>>8), byte(v))
	}
	for _, ver := range []uint32{1, 0x6b3343cf} {
		for _, initial := range []bool{true, false} {
			for _, wt := range []int{1, 2, 4, 8} {
				for _, wl := range []int{1, 2, 4, 8} {
					if !initial && wt != 1 {
						continue
					}
					tl := int(r.Pick(0, 1, 5, 63))
					ln := int(r.Pick(4, 20, 63))
					tb := byte(0xc0) // Initial in v1
					switch {
					case initial && ver != 1:
						tb = 0xd0
					case !initial && ver == 1:
						tb = 0xe0 // Handshake
					case !initial:
						tb = 0xf0
					}
					dcid, scid, tok := r.Bytes(int(r.Pick(0, 8, 20))), r.Bytes(int(r.Pick(0, 4, 20))), r.Bytes(tl)
					b := []byte{tb, byte(ver >> 24), byte(ver >> 16), byte(ver >> 8), byte(ver), byte(len(dcid))}
					b = append(append(append(b, dcid...), byte(len(scid))), scid...)
					if initial {
						b = append(app(b, uint64(tl), wt), tok...)
					}
					b = app(b, uint64(ln), wl)
					hdrEnd := len(b)
					b = append(append(b, r.Bytes(ln)...), r.Bytes(r.Intn(4))...) // packet number + payload, then the next packet
					h, ok := g.doLong(b, "wide-varint")
					detail := fmt.Sprintf("token length as %d bytes, Length as %d bytes, input=%x", wt, wl, b)
					if !ok || h == nil {
						g.monfail("headers/consumed-wide", "a long header with non-minimal varints is refused", detail)
						continue
					}
					if int(h.ParsedLen()) != hdrEnd || int(h.Length) != ln || (initial && !bytes.Equal(h.Token, tok)) {
						g.monfail("headers/consumed-wide", fmt.Sprintf("ParsedLen %d (header ends at %d), Length %d (written %d), token %x", h.ParsedLen(), hdrEnd, h.Length, ln, h.Token), detail)
					}
					if _, pkt, _, err := wire.ParsePacket(hdExact(b)); err != nil || len(pkt) != hdrEnd+ln {
						g.monfail("headers/consumed-wide", fmt.Sprintf("ParsePacket cuts %d bytes (err %v), the packet has %d", len(pkt), err, hdrEnd+ln), detail)
					}
				}
			}
		}
	}
}

func (g *hdGen) mutate(enc []byte) []byte {
	r := g.r
	b := append([]byte{}, enc...)
	if len(b) == 0 {
		return r.Bytes(3)
	}
	switch r.Intn(9) {
	case 0: // truncate
		return b[:r.Intn(len(b))]
	case 1: // flip a bit
		b[r.Intn(len(b))] ^= byte(1 << uint(r.Intn(8)))
	case 2: // random byte early
		b[r.Intn(min(len(b), 12))] = byte(r.U64())
	case 3: // first byte
		b[0] = byte(r.U64())
	case 4: // a connection ID length byte
		if len(b) > 5 {
			b[5] = byte(r.Pick(0, 1, 19, 20, 21, 22, 255, int64(r.Intn(256))))
		}
	case 5: // version
		if len(b) > 4 {
			copy(b[1:5], [][]byte{{0, 0, 0, 0}, {0, 0, 0, 1}, {0x6b, 0x33, 0x43, 0xcf}, {0xff, 0, 0, 0x1d}, {0, 0, 0, 2}}[r.Intn(5)])
		}
	case 6: // insert
		i := r.Intn(len(b) + 1)
		b = append(b[:i], append(r.Bytes(r.Range(1, 3)), b[i:]...)...)
	case 7: // delete
		i := r.Intn(len(b))
		b = append(b[:i], b[i+1:]...)
	default: // a varint width prefix / boundary value somewhere in the header
		i := r.Intn(min(len(b), 60))
		b[i] = byte(r.Pick(0, 1, 0x3f, 0x40, 0x7f, 0x80, 0xbf, 0xc0, 0xff, 20, 21))
	}
	return b
}

// everything that takes a raw datagram
func (g *hdGen) doBytes(in []byte, bucket string) {
	if len(in) > 0 && !wire.IsLongHeaderPacket(in[0]) {
		g.doShortParse(in, int(g.r.Pick(0, 4, 8, 8, 20)), bucket)
	} else {
		g.doLong(in, bucket)
	}
	if g.r.Chance(1, 3) {
		g.doConnID(in, int(g.r.Pick(0, 0, 4, 8, 20)))
	}
	if g.r.Chance(1, 4) {
		g.doPreds(in)
	}
	if wire.IsVersionNegotiationPacket(in) && g.r.Chance(1, 2) {
		g.doVNParse(in, bucket)
	}
}

func (g *hdGen) body(kind int) []byte {
	r := g.r
	cid := func() []byte {
		l := int(r.Pick(0, 1, 8, 20))
		return append([]byte{byte(l)}, r.Bytes(l)...)
	}
	var b []byte
	switch kind {
	case 0, 1: // v1 / v2 long header body that works for every type: token length / Length fields small
		if kind == 0 {
			b = []byte{0, 0, 0, 1}
		} else {
			b = []byte{0x6b, 0x33, 0x43, 0xcf}
		}
		b = append(append(b, cid()...), cid()...)
		b = append(b, byte(r.Pick(0, 2, 3)))         // token length (Initial) or Length
		b = append(b, byte(r.Pick(0, 1, 5, 0x40)), 8) // ...
		return append(b, r.Bytes(int(r.Pick(4, 18, 30)))...)
	case 2: // version negotiation
		b = []byte{0, 0, 0, 0}
		b = append(append(b, cid()...), cid()...)
		return append(b, r.Bytes(4*r.Intn(3)+int(r.Pick(0, 0, 0, 1)))...)
	case 3: // unsupported version
		b = []byte{0xff, 0, 0, 0x1d}
		b = append(append(b, cid()...), cid()...)
		return append(b, r.Bytes(r.Intn(8))...)
	}
	return r.Bytes(int(r.Pick(0, 3, 4, 5, 12, 25))) // short header body / garbage
}

func runHeaders(w *bufio.Writer, seed uint64, n int, _ []string) {
	g := &hdGen{w: w, r: u.NewRng(seed), dist: map[string]int{}, seen: map[string]bool{}, rnd: &hdScriptedRand{}}
	g.thorough = os.Getenv("VERIF_TIER") == "thorough"
	r := g.r
	oldReader := rand.Reader
	rand.Reader = g.rnd
	defer func() { rand.Reader = oldReader }()
	protocol.VerifReseedVersionGrease(seed, 0x5eed)

	// (i) structured long headers: version x type x pnLen, the other dimensions rotate through their boundary values
	k := 0
	for _, hv := range hdVersions {
		for _, ty := range hdTypes {
			for pnLen := 1; pnLen <= 4; pnLen++ {
				v := hv
				if !hdSupported(hv) { // header of an unsupported version / version 0 written with v1 or v2 type bits
					v = []protocol.Version{protocol.Version1, protocol.Version2}[k%2]
				}
				e := g.mkExt(ty, hv, hdCIDLens[k%4], hdCIDLens[(k/4+k)%4], hdTokLens[k%5], hdLengths[k%8], pnLen, hdPNs[k%len(hdPNs)])
				g.doAppend(e, v, "grid")
				k++
			}
		}
	}
	// boundary sweeps, one dimension at a time
	sweep := 0
	for _, v := range []protocol.Version{protocol.Version1, protocol.Version2} {
		for _, ty := range hdTypes {
			for di, dl := range hdCIDLens {
				for si, sl := range hdCIDLens {
					if sweep%4 != 0 && (di+si+sweep)%4 != 0 { // all 16 pairs for two (version, type) combinations, a diagonal for the others
						continue
					}
					g.doAppend(g.mkExt(ty, v, dl, sl, int(r.Pick(0, 1, 5)), int64(r.Intn(100)), r.Range(1, 4), int64(r.U64()>>uint(r.Intn(64)))), v, "cid-sweep")
				}
			}
			for _, tl := range hdTokLens {
				g.doAppend(g.mkExt(ty, v, 8, int(r.Pick(0, 8)), tl, int64(r.Intn(100)), r.Range(1, 4), int64(r.Intn(1<<20))), v, "token-sweep")
			}
			for _, ln := range append([]int64{-1, 2, 3, 5, 62, 65, 16382, 16385, 1 << 30}, hdLengths...) {
				g.doAppend(g.mkExt(ty, v, 8, 4, int(r.Pick(0, 3)), ln, r.Range(1, 4), int64(r.Intn(1<<20))), v, "length-sweep")
			}
			for pnLen := 0; pnLen <= 5; pnLen++ {
				for j := 0; j < 3; j++ {
					if pnLen >= 1 && pnLen <= 4 || j == 0 {
						g.doAppend(g.mkExt(ty, v, 4, 0, 2, 30, pnLen, hdPNs[(sweep+pnLen+4*j)%len(hdPNs)]), v, "pn-sweep")
					}
				}
			}
			sweep++
		}
	}
	// Append with a version argument different from the header's Version, unknown packet type
	for i := 0; i < 12; i++ {
		hv := hdVersions[i%4]
		v := hdVersions[(i/4+i+1)%4]
		g.doAppend(g.mkExt(hdTypes[i%4], hv, 8, 8, 3, 20, r.Range(1, 4), int64(r.Intn(1<<16))), v, "version-mismatch")
	}
	g.doAppend(g.mkExt(0, protocol.Version1, 8, 8, 3, 20, 2, 7), protocol.Version1, "type-unset")
	g.doAppend(g.mkExt(0, protocol.Version2, 8, 8, 3, 20, 2, 7), protocol.Version2, "type-unset")
	g.doAppend(g.mkExt(9, protocol.Version2, 8, 8, 3, 20, 2, 7), protocol.Version2, "type-unset")
	// random structured
	for i := 0; i < n; i++ {
		hv := hdVersions[r.Intn(2)]
		v := hv
		if r.Chance(1, 10) {
			hv = hdVersions[r.Intn(4)]
		}
		pn := int64(r.U64() >> uint(r.Range(1, 63)))
		if r.Chance(1, 10) {
			pn = -pn
		}
		ln := hdLengths[r.Intn(len(hdLengths))]
		if r.Bool() {
			ln = int64(r.Intn(1500))
		}
		g.doAppend(g.mkExt(hdTypes[r.Intn(4)], hv, int(r.Pick(0, 1, 4, 8, 8, 19, 20)), int(r.Pick(0, 0, 1, 4, 8, 19, 20)),
			int(r.Pick(0, 0, 1, 16, 62, 63, 64, 65, 200)), ln, r.Range(1, 4), pn), v, "random")
	}

	// short headers
	for _, cl := range append([]int{4, 19}, hdCIDLens...) {
		for pnLen := 0; pnLen <= 5; pnLen++ {
			for kp := protocol.KeyPhaseUndefined; kp <= protocol.KeyPhaseOne; kp++ {
				g.doShortAppend(r.Bytes(cl), hdPNs[(cl+pnLen+int(kp))%len(hdPNs)], pnLen, kp)
			}
		}
	}
	for i := 0; i < n/2; i++ {
		pn := int64(r.U64() >> uint(r.Range(1, 63)))
		if r.Chance(1, 10) {
			pn = -pn
		}
		g.doShortAppend(r.Bytes(int(r.Pick(0, 4, 8, 8, 20))), pn, r.Range(1, 4), protocol.KeyPhaseBit(r.Range(1, 2)))
	}
	// short header, every first byte, exact and too short by one, connection ID lengths incl. hostile ones
	for fb := 0; fb < 128; fb++ {
		cl := hdCIDLens[fb%4]
		full := append([]byte{byte(fb)}, r.Bytes(cl+int(fb&3)+1+r.Intn(2))...)
		g.doShortParse(full, cl, "first-byte")
		if fb%3 == 0 {
			g.doShortParse(full[:1+cl+int(fb&3)], cl, "first-byte-short")
		}
	}
	for _, cl := range []int{-3, -2, -1, 21, 255, 1 << 20} {
		g.doShortParse(append([]byte{0x41}, r.Bytes(30)...), cl, "hostile-cidlen")
		g.doShortParse([]byte{0x40}, cl, "hostile-cidlen")
		g.doConnID(append([]byte{0x41}, r.Bytes(30)...), cl)
		g.doConnID([]byte{0x40}, cl)
		g.doConnID(append([]byte{0xc1}, r.Bytes(30)...), cl)
	}

	g.connIDBoundaries()
	g.wideCases()

	// Version Negotiation
	vsets := [][]protocol.Version{{protocol.Version1}, {protocol.Version1, protocol.Version2}, {protocol.Version2, protocol.Version1}, {}, {0x0a0a0a0a, 1, 1}, {0xffffffff, 0, 0x12345678, 0xff00001d}}
	var vns [][]byte
	for i := 0; i < 40+n/4; i++ {
		dl := int(r.Pick(0, 1, 8, 20, 21, 100, 255))
		sl := int(r.Pick(0, 1, 8, 20, 21, 100, 255))
		if i%10 == 9 {
			dl = 256 + r.Intn(3) // uint8(len) wraps: documented in the model, no round trip expected
		}
		out := g.doVNCompose(byte(i*37+int(r.U64()&0xc0)), r.Bytes(dl), r.Bytes(sl), vsets[i%len(vsets)])
		if out != nil && len(out) < 120 {
			vns = append(vns, out)
		}
	}
	for i := 0; i < 30+n/4 && len(vns) > 0; i++ {
		g.doVNParse(g.mutate(vns[r.Intn(len(vns))]), "mutated")
	}
	for i := 0; i < 3 && len(vns) > 0; i++ {
		e := vns[r.Intn(len(vns))]
		for j := 0; j <= len(e) && j < 50; j++ {
			g.doVNParse(e[:j], "prefix")
		}
	}
	// a parsed Version Negotiation packet can be composed again (fuzz target fuzzVNP)
	for _, e := range vns {
		if d, s, vs, err := wire.ParseVersionNegotiationPacket(e); err == nil && r.Chance(1, 4) {
			g.doVNCompose(e[0], d, s, vs)
		}
	}

	// (ii) byte strings
	nb := 1
	if g.thorough {
		nb = 5
	}
	for fb := 0; fb < 256; fb++ {
		for j := 0; j < nb; j++ {
			kind := (fb + j*3) % 5
			if g.thorough {
				kind = j
			}
			in := append([]byte{byte(fb)}, g.body(kind)...)
			if fb >= 128 {
				g.doLong(in, "first-byte")
				if kind == 2 && j == 0 {
					g.doVNParse(in, "first-byte")
				}
			} else {
				g.doShortParse(in, int(r.Pick(0, 4, 8)), "first-byte-any")
			}
			if (fb+j)%8 == 0 {
				g.doConnID(in, int(r.Pick(0, 4, 8, 20)))
			}
			if (fb+j)%8 == 1 {
				g.doPreds(in)
			}
		}
	}
	for i := 0; i < n; i++ {
		in := r.Bytes(r.Range(0, 48))
		if r.Bool() && len(in) > 0 {
			in[0] |= 0x80
		}
		g.doBytes(in, "random")
	}
	for i := 0; i < 2*n && len(g.encs) > 0; i++ {
		g.doBytes(g.mutate(g.encs[r.Intn(len(g.encs))]), "mutated")
	}
	for i := 0; i < n/2 && len(g.shorts) > 0; i++ {
		g.doBytes(g.mutate(g.shorts[r.Intn(len(g.shorts))]), "mutated-short")
	}
	// every prefix of some valid encodings
	np := 0
	for i := 0; np < 4+n/50 && i < 200 && len(g.encs) > 0; i++ {
		e := g.encs[r.Intn(len(g.encs))]
		if len(e) > 70 {
			continue
		}
		np++
		for j := 0; j <= len(e); j++ {
			g.doLong(e[:j], "prefix")
			if j < 9 && np <= 3 {
				g.doConnID(e[:j], 0)
				g.doPreds(e[:j])
			}
		}
	}
	for i := 0; i < 4 && len(g.shorts) > 0; i++ {
		e := g.shorts[r.Intn(len(g.shorts))]
		for j := 0; j <= len(e); j++ {
			g.doShortParse(e[:j], len(e)%5*4, "prefix")
			g.doConnID(e[:j], len(e)%5*4)
		}
	}
	// ParseExtended on the unprotected first byte / truncated packets
	for i := 0; i < 20+n/4 && len(g.encs) > 0; i++ {
		e := g.encs[r.Intn(len(g.encs))]
		h, err := wire.VerifParseHeader(e)
		if err != nil || h.Version == 0 {
			continue
		}
		ext := append([]byte{}, e...)
		ext[0] = ext[0]&0xf0 | byte(r.Intn(16))
		if r.Chance(1, 3) {
			ext = ext[:min(len(ext), int(h.ParsedLen())+r.Intn(5))]
		}
		g.doExt(e, ext, h, "unprotected", true)
	}
	// hand-written hostile inputs
	cid8 := []byte{8, 1, 2, 3, 4, 5, 6, 7, 8}
	v1 := []byte{0, 0, 0, 1}
	cat := func(xs ...[]byte) []byte { return bytes.Join(xs, nil) }
	for _, h := range [][]byte{
		cat([]byte{0xc0}, v1, cid8, cid8, []byte{0xff, 0xff, 0xff, 0xff, 0xff, 0xff, 0xff, 0xff}),                                // token length 2^62-1
		cat([]byte{0xc0}, v1, cid8, cid8, []byte{0x00, 0xff, 0xff, 0xff, 0xff, 0xff, 0xff, 0xff, 0xff, 1, 2, 3, 4}),              // Length 2^62-1
		cat([]byte{0xe0}, v1, cid8, cid8, []byte{0xbf, 0xff, 0xff, 0xff, 1, 2, 3, 4}),                                           // Length 2^30-1
		cat([]byte{0xe0}, v1, cid8, cid8, []byte{0x40}),                                                                          // truncated Length varint
		cat([]byte{0xc0}, v1, cid8, cid8, []byte{0x40}),                                                                          // truncated token length varint
		cat([]byte{0xc0}, v1, cid8, cid8, []byte{0x02, 0xaa}),                                                                    // token shorter than its length
		cat([]byte{0xc0}, v1, cid8, cid8, []byte{0x02, 0xaa, 0xbb}),                                                              // no Length
		cat([]byte{0xc0}, v1, cid8, cid8, []byte{0x02, 0xaa, 0xbb, 0x80, 0, 0}),                                                  // truncated Length after a token
		cat([]byte{0xf0}, v1, cid8, cid8, make([]byte, 16)),                                                                      // Retry with an empty token
		cat([]byte{0xf0}, v1, cid8, cid8, make([]byte, 17)),                                                                      // Retry with a one byte token
		cat([]byte{0xf0}, v1, cid8, cid8, make([]byte, 3)),                                                                       // Retry shorter than a tag
		cat([]byte{0xc0}, v1, []byte{21}, make([]byte, 40)),                                                                      // destination connection ID of 21 bytes
		cat([]byte{0xc0}, v1, []byte{20}, make([]byte, 20), []byte{21}, make([]byte, 40)),                                        // source connection ID of 21 bytes
		cat([]byte{0x80}, []byte{0, 0, 0, 0}, []byte{21}, make([]byte, 40)),                                                      // version negotiation, 21 byte connection ID
		cat([]byte{0x80}, v1, cid8, cid8, []byte{0, 0, 1}),                                                                       // QUIC bit not set
		cat([]byte{0x80}, []byte{0, 0, 0, 0}, cid8, cid8, []byte{0, 0, 0, 1}),                                                    // version negotiation without the QUIC bit
		cat([]byte{0xc3}, v1, cid8, cid8, []byte{0x00, 0x04, 1, 2, 3}),                                                           // Length 4 but only 3 bytes follow
		cat([]byte{0xc3}, v1, cid8, cid8, []byte{0x00, 0x00, 1, 2, 3, 4}),                                                        // Length 0: shorter than the packet number
		cat([]byte{0xcf}, v1, cid8, cid8, []byte{0x00, 0x04, 1, 2, 3, 4, 9, 9}),                                                  // reserved bits set
		cat([]byte{0xc0}, []byte{0x6b, 0x33, 0x43, 0xcf}, cid8, cid8, make([]byte, 20)),                                          // v2: type bits 00 = Retry
		cat([]byte{0xd0}, []byte{0x6b, 0x33, 0x43, 0xcf}, cid8, cid8, []byte{0x01, 0x77, 0x05, 1, 2, 3, 4, 5, 6, 7}),             // v2 Initial
		{0xc0, 0, 0, 0, 1}, {0xc0, 0, 0, 0, 1, 0}, {0xc0, 0, 0, 0, 1, 0, 0}, {0xc0, 0, 0, 0, 1, 0, 0, 0}, {0xc0, 0, 0, 0, 1, 0, 0, 0, 0}, {0x80, 0, 0, 0, 0, 0, 0},
	} {
		g.doLong(h, "hostile")
		g.doConnID(h, 0)
		g.doPreds(h)
		if wire.IsVersionNegotiationPacket(h) {
			g.doVNParse(h, "hostile")
		}
	}
	g.doLong(nil, "hostile")
	g.doShortParse(nil, 0, "hostile")
	g.doConnID(nil, 0)
	g.doPreds(nil)
	g.doVNParse(nil, "hostile")

	keys := make([]string, 0, len(g.dist))
	for k := range g.dist {
		keys = append(keys, k)
	}
	sort.Strings(keys)
	for _, k := range keys {
		fmt.Fprintf(w, "DIST\t%s\t%d\n", k, g.dist[k])
	}
	fmt.Fprintf(w, "SAMPLE\tlong headers: versions %v x 4 types x pnLen 1..4 x connection ID lengths %v x token lengths %v x Length %v; short headers; Version Negotiation; byte strings: 256 first bytes x bodies, random, mutated, prefixes, hostile lengths\n", hdVersions, hdCIDLens, hdTokLens, hdLengths)
}
