//go:build verif

package main

import (
	"bufio"
	"bytes"
	"fmt"

	quic "github.com/refraction-networking/uquic"
	"github.com/refraction-networking/uquic/internal/wire"

	"github.com/refraction-networking/uquic/internal/handshake"
	"github.com/refraction-networking/uquic/internal/protocol"
	u "github.com/refraction-networking/uquic/internal/verifutil"
)

func init() {
	units["initialkeys"] = runInitialKeys
	genSources = append(genSources, handshake.VerifInitialConsts, handshake.VerifRetryConsts)
}

// initialkeys unit: the keys NewInitialAEAD derives for random Destination Connection IDs
// (length 0..20) and both versions, replayed by the Gallina SHA-256/HMAC/HKDF.
func runInitialKeys(w *bufio.Writer, seed uint64, n int, _ []string) {
	defer func() {
		if e := recover(); e != nil {
			fmt.Fprintf(w, "MONFAIL\tinitialkeys/panic\tpanic: %v\t\n", e)
		}
	}()
	r := u.NewRng(seed)
	dist := map[string]int{}
	lens := []int{0, 1, 8, 20}
	for i := 0; i < n; i++ {
		l := r.Range(0, 20)
		if i < len(lens) {
			l = lens[i]
		}
		dcid := r.Bytes(l)
		v := protocol.Version1
		if r.Bool() {
			v = protocol.Version2
		}
		client := r.Bool()
		k := handshake.VerifInitialKeys(protocol.ParseConnectionID(dcid), v)
		off := 3
		if client {
			off = 0
		}
		// monitor: the same values through the harness' own HKDF-Expand-Label (independent of /repo and of the model)
		salt := map[bool]string{false: "38762cf7f55934b34d179ae6a4c80cadccbb7f0a", true: "0dede3def700a6db819381be6e269dcbf9bd2ed9"}[v == protocol.Version2]
		want := ikIndependent(ppUnhex(salt), dcid, v, client)
		for j := 0; j < 3; j++ {
			if string(want[j]) != string(k[off+j]) {
				fmt.Fprintf(w, "MONFAIL\tinitialkeys/derivation\tInitial %s differs from HKDF-Expand-Label(HKDF-Extract(salt, dcid), ...) per RFC 9001 5.2 / RFC 9369 3.3.1: got %x want %x\tdcid=%x %v client=%v\n",
					[]string{"key", "iv", "hp key"}[j], k[off+j], want[j], dcid, v, client)
			}
		}
		fmt.Fprintf(w, "CASE 1 %s\n", u.App("IKCase", u.B(v == protocol.Version2), u.B(client), u.Hex(dcid), u.Hex(k[off]), u.Hex(k[off+1]), u.Hex(k[off+2])))
		dist[fmt.Sprintf("ik-%v-client=%v", v, client)]++
		if i%2 == 0 {
			ikPacketCase(w, r, dist, dcid, v, client)
		}
		if i%3 == 0 {
			ikRetryCase(w, r, dist, v)
		}
	}
	ikRetryVectors(w)
	ppPrintDist(w, dist)
}

func ppUnhex(s string) []byte {
	var b []byte
	hi := -1
	for _, c := range s {
		var v int
		switch {
		case c >= '0' && c <= '9':
			v = int(c - '0')
		case c >= 'a' && c <= 'f':
			v = int(c-'a') + 10
		default:
			continue
		}
		if hi < 0 {
			hi = v
		} else {
			b = append(b, byte(hi<<4|v))
			hi = -1
		}
	}
	return b
}

// ikIndependent: RFC 9001 5.2 with the harness' own HMAC-based HKDF (keyphase_ku.go).
func ikIndependent(salt, dcid []byte, v protocol.Version, client bool) [3][]byte {
	h := kuHash(0x1301)
	// HKDF-Extract(salt, ikm) = HMAC(salt, ikm)
	prk := kuHMAC(h, salt, dcid)
	label := "server in"
	if client {
		label = "client in"
	}
	s := kuExpandLabel(h, prk, label, 32)
	lk, li, lh, _ := kuLabels(v)
	return [3][]byte{kuExpandLabel(h, s, lk, 16), kuExpandLabel(h, s, li, 12), kuExpandLabel(h, s, lh, 16)}
}

// ikPacketCase: a small Initial packet sealed by the real packetPacker.encryptPacket under
// NewInitialAEAD; the Gallina AES-128-GCM / header protection must produce the same bytes
// and open them again (an observer of the wire sharing no code with /repo).
func ikPacketCase(w *bufio.Writer, r *u.Rng, dist map[string]int, dcid []byte, v protocol.Version, client bool) {
	pers, other := protocol.PerspectiveServer, protocol.PerspectiveClient
	if client {
		pers, other = other, pers
	}
	connID := protocol.ParseConnectionID(dcid)
	sealer, _ := handshake.NewInitialAEAD(connID, pers, v)
	_, opener := handshake.NewInitialAEAD(connID, other, v)
	pnLen := r.Range(1, 4)
	pn := int64(r.Intn(1 << uint(8*pnLen-1)))
	payload := r.Bytes(r.Range(4, 40))
	h := &wire.ExtendedHeader{Header: wire.Header{Type: protocol.PacketTypeInitial, DestConnectionID: connID,
		SrcConnectionID: protocol.ParseConnectionID(r.Bytes(r.Range(0, 8))), Token: r.Bytes(int(r.Pick(0, 0, 5))), Version: v,
		Length: protocol.ByteCount(pnLen + len(payload) + sealer.Overhead())},
		PacketNumber: protocol.PacketNumber(pn), PacketNumberLen: protocol.PacketNumberLen(pnLen)}
	hdr, err := h.Append(nil, v)
	if err != nil {
		panic(err)
	}
	var lg quic.VerifProtLog
	pkt := quic.VerifProtEncrypt(sealer, hdr, payload, protocol.PacketNumber(pn), pnLen, &lg)
	var l2 quic.VerifProtLog
	res, _, _, cls := quic.VerifProtUnpackLong(opener, pkt, &l2)
	if cls != quic.VerifProtOK || res.PN != pn || !bytes.Equal(res.Payload, payload) {
		fmt.Fprintf(w, "MONFAIL\tinitialkeys/roundtrip\tInitial packet did not open at the peer (class %d)\tdcid=%x %v client=%v hdr=%x payload=%x\n", cls, dcid, v, client, hdr, payload)
	}
	fmt.Fprintf(w, "CASE 1 %s\n", u.App("IPCase", u.B(v == protocol.Version2), u.B(client), u.Hex(dcid), u.Hex(hdr), u.Hex(payload), u.Z(pn), u.Z(int64(pnLen)), u.Hex(pkt)))
	dist["ik-packet"]++
}

// ikRetryCase: GetRetryIntegrityTag for random original connection IDs and Retry packets.
func ikRetryCase(w *bufio.Writer, r *u.Rng, dist map[string]int, v protocol.Version) {
	odcid := r.Bytes(r.Range(0, 20))
	retry := r.Bytes(r.Range(7, 60))
	tag := handshake.GetRetryIntegrityTag(retry, protocol.ParseConnectionID(odcid), v)
	fmt.Fprintf(w, "CASE 1 %s\n", u.App("RetryCase", u.B(v == protocol.Version2), u.Hex(odcid), u.Hex(retry), u.Hex(tag[:])))
	dist["ik-retry"]++
}

// ikRetryVectors: the Retry packets of RFC 9001 A.4 and RFC 9369 A.4 (monitor).
func ikRetryVectors(w *bufio.Writer) {
	odcid := protocol.ParseConnectionID(ppUnhex("8394c8f03e515708"))
	for _, c := range []struct {
		v    protocol.Version
		name string
		pkt  string
	}{
		{protocol.Version1, "v1", "ff000000010008f067a5502a4262b5746f6b656e04a265ba2eff4d829058fb3f0f2496ba"},
		{protocol.Version2, "v2", "cf6b3343cf0008f067a5502a4262b5746f6b656ec8646ce8bfe33952d955543665dcc7b6"},
	} {
		p := ppUnhex(c.pkt)
		tag := handshake.GetRetryIntegrityTag(p[:len(p)-16], odcid, c.v)
		if !bytes.Equal(tag[:], p[len(p)-16:]) {
			fmt.Fprintf(w, "MONFAIL\tinitialkeys/retry-rfc-%s\tRetry integrity tag of the Appendix A.4 packet is %x, the RFC says %x\t%s\n", c.name, tag[:], p[len(p)-16:], c.pkt)
		}
	}
}
