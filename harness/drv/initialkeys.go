//go:build verif

package main

import (
	"bufio"
	"fmt"

	"github.com/refraction-networking/uquic/internal/handshake"
	"github.com/refraction-networking/uquic/internal/protocol"
	u "github.com/refraction-networking/uquic/internal/verifutil"
)

func init() {
	units["initialkeys"] = runInitialKeys
	genSources = append(genSources, handshake.VerifInitialConsts)
}

// initialkeys unit: the keys NewInitialAEAD derives for random Destination Connection IDs
// (length 0..20) and both versions, replayed by the Gallina SHA-256/HMAC/HKDF.
func runInitialKeys(w *bufio.Writer, seed uint64, n int, _ []string) {
	defer func() {
		if e := recover(); e != nil {
			fmt.Fprintf(w, "MONFAIL\tinitialkeys/panic\tpanic: %v\t\n", e)
		}
	}()
	r := u.NewRng(seed)
	dist := map[string]int{}
	lens := []int{0, 1, 8, 20}
	for i := 0; i < n; i++ {
		l := r.Range(0, 20)
		if i < len(lens) {
			l = lens[i]
		}
		dcid := r.Bytes(l)
		v := protocol.Version1
		if r.Bool() {
			v = protocol.Version2
		}
		client := r.Bool()
		k := handshake.VerifInitialKeys(protocol.ParseConnectionID(dcid), v)
		off := 3
		if client {
			off = 0
		}
		// monitor: the same values through the harness' own HKDF-Expand-Label (independent of /repo and of the model)
		salt := map[bool]string{false: "38762cf7f55934b34d179ae6a4c80cadccbb7f0a", true: "0dede3def700a6db819381be6e269dcbf9bd2ed9"}[v == protocol.Version2]
		want := ikIndependent(ppUnhex(salt), dcid, v, client)
		for j := 0; j < 3; j++ {
			if string(want[j]) != string(k[off+j]) {
				fmt.Fprintf(w, "MONFAIL\tinitialkeys/derivation\tInitial %s differs from HKDF-Expand-Label(HKDF-Extract(salt, dcid), ...) per RFC 9001 5.2 / RFC 9369 3.3.1: got %x want %x\tdcid=%x %v client=%v\n",
					[]string{"key", "iv", "hp key"}[j], k[off+j], want[j], dcid, v, client)
			}
		}
		fmt.Fprintf(w, "CASE 1 %s\n", u.App("IKCase", u.B(v == protocol.Version2), u.B(client), u.Hex(dcid), u.Hex(k[off]), u.Hex(k[off+1]), u.Hex(k[off+2])))
		dist[fmt.Sprintf("ik-%v-client=%v", v, client)]++
	}
	ppPrintDist(w, dist)
}

func ppUnhex(s string) []byte {
	var b []byte
	hi := -1
	for _, c := range s {
		var v int
		switch {
		case c >= '0' && c <= '9':
			v = int(c - '0')
		case c >= 'a' && c <= 'f':
			v = int(c-'a') + 10
		default:
			continue
		}
		if hi < 0 {
			hi = v
		} else {
			b = append(b, byte(hi<<4|v))
			hi = -1
		}
	}
	return b
}

// ikIndependent: RFC 9001 5.2 with the harness' own HMAC-based HKDF (keyphase_ku.go).
func ikIndependent(salt, dcid []byte, v protocol.Version, client bool) [3][]byte {
	h := kuHash(0x1301)
	// HKDF-Extract(salt, ikm) = HMAC(salt, ikm)
	prk := kuHMAC(h, salt, dcid)
	label := "server in"
	if client {
		label = "client in"
	}
	s := kuExpandLabel(h, prk, label, 32)
	lk, li, lh, _ := kuLabels(v)
	return [3][]byte{kuExpandLabel(h, s, lk, 16), kuExpandLabel(h, s, li, 12), kuExpandLabel(h, s, lh, 16)}
}
