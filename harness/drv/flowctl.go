//go:build verif

package main

import (
	"bufio"
	"fmt"
	"os"
	"sort"
	"strings"
	"time"

	"github.com/refraction-networking/uquic/internal/flowcontrol"
	"github.com/refraction-networking/uquic/internal/monotime"
	"github.com/refraction-networking/uquic/internal/protocol"
	"github.com/refraction-networking/uquic/internal/qerr"
	"github.com/refraction-networking/uquic/internal/utils"
	u "github.com/refraction-networking/uquic/internal/verifutil"
)

func init() {
	units["flowctl"] = runFlowCtl
	genSources = append(genSources, flowcontrol.VerifFlowCtlConsts)
}

// flowctl unit (C04): drives the real NewConnectionFlowController / NewStreamFlowController
// (k <= 6 streams sharing one connection controller, a real utils.RTTStats) with op
// sequences whose offsets sit around the window boundaries, logs every return value and
// the ten counters of every controller at the end of the case, and runs the C04 property
// monitors on a shadow bookkeeping that only uses op arguments and return values
// (plus the receive window SIZE, which is internal by nature).

type fcShadowStream struct {
	fc       flowcontrol.StreamFlowController
	sent     int64           // sum of AddBytesSent
	maxSend  int64           // largest send limit ever given (initial, MAX_STREAM_DATA)
	blocked  map[int64]int   // limit -> number of IsNewlyBlocked()==true
	adv      int64           // last advertised receive limit (initial window, non-zero GetWindowUpdate)
	recv     int64           // highest offset accepted by UpdateHighestReceived
	final    bool            // a final size was accepted
	credit   int64           // bytes consumed (AddBytesRead) or abandoned
	lastRWS  int64           // last seen receive window size
	initRWS  int64
	maxRWS   int64
	abandons int
}

type fcWorld struct {
	w          *bufio.Writer
	r          *u.Rng
	conn       flowcontrol.ConnectionFlowController
	rtt        *utils.RTTStats
	streams    []*fcShadowStream
	cMaxSend   int64
	cBlocked   map[int64]int
	cAdv       int64
	cLastRWS   int64
	cInitRWS   int64
	cMaxRWS    int64
	now        int64
	allowAns   bool
	allowDelta int64 // -1 = callback not invoked during the current op
	kind       string
	disc       bool  // disciplined caller (what send_stream / receive_stream guarantee)
	dead       bool  // an UpdateHighestReceived returned an error: the connection would be closed
	ops, rets  []string
	human      []string
	fails      map[string]bool
	nMon       int
}

func (x *fcWorld) fail(key, desc string) {
	if x.fails[key] {
		return
	}
	x.fails[key] = true
	fmt.Fprintf(x.w, "MONFAIL\t%s\t%s\t%s\n", key, desc, strings.Join(x.human, " ; "))
}

func (x *fcWorld) emit(op, human string, a, b int64) {
	x.ops = append(x.ops, op)
	x.rets = append(x.rets, u.Pair(u.Z(a), u.Z(b)))
	x.human = append(x.human, fmt.Sprintf("%s=>(%d,%d)", human, a, b))
}

func fcB2i(b bool) int64 {
	if b {
		return 1
	}
	return 0
}

func (x *fcWorld) sumSent() (s int64) {
	for _, st := range x.streams {
		s += st.sent
	}
	return
}
func (x *fcWorld) sumRecv() (s int64) {
	for _, st := range x.streams {
		s += st.recv
	}
	return
}
func (x *fcWorld) sumCredit() (s int64) {
	for _, st := range x.streams {
		s += st.credit
	}
	return
}

// invariants that must hold after every op of a disciplined, error-free history
func (x *fcWorld) checkState() {
	cs := flowcontrol.VerifConnState(x.conn)
	// window sizes never shrink, never exceed max(initial, max) -- for all histories
	if cs[flowcontrol.VReceiveWindowSize] < x.cLastRWS {
		x.fail("flowctl/window-size-shrunk/conn", fmt.Sprintf("connection receive window size shrank %d -> %d", x.cLastRWS, cs[flowcontrol.VReceiveWindowSize]))
	}
	x.cLastRWS = cs[flowcontrol.VReceiveWindowSize]
	if x.cLastRWS > max(x.cInitRWS, x.cMaxRWS) {
		x.fail("flowctl/window-size-over-max/conn", fmt.Sprintf("connection receive window size %d > max %d", x.cLastRWS, x.cMaxRWS))
	}
	for i, st := range x.streams {
		ss, _ := flowcontrol.VerifStreamState(st.fc)
		if ss[flowcontrol.VReceiveWindowSize] < st.lastRWS {
			x.fail("flowctl/window-size-shrunk/stream", fmt.Sprintf("stream %d receive window size shrank %d -> %d", i, st.lastRWS, ss[flowcontrol.VReceiveWindowSize]))
		}
		st.lastRWS = ss[flowcontrol.VReceiveWindowSize]
		if st.lastRWS > max(st.initRWS, st.maxRWS) {
			x.fail("flowctl/window-size-over-max/stream", fmt.Sprintf("stream %d receive window size %d > max %d", i, st.lastRWS, st.maxRWS))
		}
	}
	if !x.disc || x.dead {
		return
	}
	x.nMon++
	for i, st := range x.streams {
		ss, _ := flowcontrol.VerifStreamState(st.fc)
		if st.sent > st.maxSend {
			x.fail("flowctl/send-credit/stream", fmt.Sprintf("stream %d sent %d > largest limit ever given %d", i, st.sent, st.maxSend))
		}
		if ss[flowcontrol.VBytesRead] != st.credit {
			x.fail("flowctl/credit/stream", fmt.Sprintf("stream %d bytesRead %d != consumed+abandoned %d", i, ss[flowcontrol.VBytesRead], st.credit))
		}
		if ss[flowcontrol.VBytesRead] > ss[flowcontrol.VHighestReceived] {
			x.fail("flowctl/credit/read-beyond-received", fmt.Sprintf("stream %d bytesRead %d > highestReceived %d", i, ss[flowcontrol.VBytesRead], ss[flowcontrol.VHighestReceived]))
		}
		if st.final && st.abandons > 0 && !(ss[flowcontrol.VBytesRead] == st.recv && ss[flowcontrol.VHighestReceived] == st.recv) {
			x.fail("flowctl/credit/completed", fmt.Sprintf("stream %d completed (final size %d, abandoned) but bytesRead=%d highestReceived=%d", i, st.recv, ss[flowcontrol.VBytesRead], ss[flowcontrol.VHighestReceived]))
		}
	}
	if s := x.sumSent(); s > x.cMaxSend {
		x.fail("flowctl/send-credit/conn", fmt.Sprintf("sum of stream bytes sent %d > largest connection limit ever given %d", s, x.cMaxSend))
	}
	if cs[flowcontrol.VBytesRead] != x.sumCredit() {
		x.fail("flowctl/credit/conservation", fmt.Sprintf("connection bytesRead %d != sum over streams of consumed+abandoned %d", cs[flowcontrol.VBytesRead], x.sumCredit()))
	}
	if cs[flowcontrol.VHighestReceived] != x.sumRecv() {
		x.fail("flowctl/credit/received-sum", fmt.Sprintf("connection highestReceived %d != sum over streams %d", cs[flowcontrol.VHighestReceived], x.sumRecv()))
	}
}

func (x *fcWorld) newStream(rw, maxrw, sw int64) {
	id := protocol.StreamID(4 * len(x.streams))
	fc := flowcontrol.NewStreamFlowController(id, x.conn, protocol.ByteCount(rw), protocol.ByteCount(maxrw), protocol.ByteCount(sw), x.rtt, utils.DefaultLogger)
	x.streams = append(x.streams, &fcShadowStream{fc: fc, maxSend: sw, blocked: map[int64]int{}, adv: rw, lastRWS: rw, initRWS: rw, maxRWS: maxrw})
	x.emit(u.App("NewStream", u.Z(rw), u.Z(maxrw), u.Z(sw)), fmt.Sprintf("NewStream(rw=%d,max=%d,sw=%d)", rw, maxrw, sw), 0, 0)
}

func (x *fcWorld) sSendWin(i int) int64 {
	st := x.streams[i]
	v := int64(st.fc.SendWindowSize())
	x.emit(u.App("SSendWin", u.Z(int64(i))), fmt.Sprintf("s%d.SendWindowSize()", i), v, 0)
	if x.disc {
		want := min(st.maxSend-st.sent, x.cMaxSend-x.sumSent())
		if v > max(want, 0) || v < 0 {
			x.fail("flowctl/send-window-over", fmt.Sprintf("stream %d SendWindowSize()=%d but remaining credit is min(stream %d, conn %d)", i, v, st.maxSend-st.sent, x.cMaxSend-x.sumSent()))
		}
	}
	return v
}

func (x *fcWorld) sSent(i int, n int64) {
	st := x.streams[i]
	if n < 0 || n > int64(st.fc.SendWindowSize()) {
		x.disc = false // the caller discipline of the monitors is broken from here on
	}
	st.fc.AddBytesSent(protocol.ByteCount(n))
	st.sent += n
	x.emit(u.App("SSent", u.Z(int64(i)), u.Z(n)), fmt.Sprintf("s%d.AddBytesSent(%d)", i, n), 0, 0)
}

func (x *fcWorld) sUpdSend(i int, off int64) {
	st := x.streams[i]
	upd := st.fc.UpdateSendWindow(protocol.ByteCount(off))
	if upd != (off > st.maxSend) {
		x.fail("flowctl/update-send-window/stream", fmt.Sprintf("stream %d UpdateSendWindow(%d)=%v with largest limit so far %d", i, off, upd, st.maxSend))
	}
	st.maxSend = max(st.maxSend, off)
	x.emit(u.App("SUpdSend", u.Z(int64(i)), u.Z(off)), fmt.Sprintf("s%d.UpdateSendWindow(%d)", i, off), fcB2i(upd), 0)
}

func (x *fcWorld) sBlocked(i int) {
	st := x.streams[i]
	b := st.fc.IsNewlyBlocked()
	x.emit(u.App("SBlocked", u.Z(int64(i))), fmt.Sprintf("s%d.IsNewlyBlocked()", i), fcB2i(b), 0)
	if b {
		st.blocked[st.maxSend]++
		if st.blocked[st.maxSend] > 1 {
			x.fail("flowctl/blocked-twice/stream", fmt.Sprintf("stream %d reported newly blocked %d times at limit %d", i, st.blocked[st.maxSend], st.maxSend))
		}
		if x.disc && st.sent < st.maxSend {
			x.fail("flowctl/blocked-with-credit/stream", fmt.Sprintf("stream %d reported blocked with sent %d < limit %d", i, st.sent, st.maxSend))
		}
	}
}

func (x *fcWorld) cBlockedOp() {
	b, off := x.conn.IsNewlyBlocked()
	x.emit("CBlocked", "conn.IsNewlyBlocked()", fcB2i(b), int64(off))
	if b {
		x.cBlocked[int64(off)]++
		if x.cBlocked[int64(off)] > 1 {
			x.fail("flowctl/blocked-twice/conn", fmt.Sprintf("connection reported newly blocked %d times at limit %d", x.cBlocked[int64(off)], off))
		}
		if int64(off) != x.cMaxSend {
			x.fail("flowctl/blocked-offset/conn", fmt.Sprintf("connection blocked offset %d != largest limit given %d", off, x.cMaxSend))
		}
		if x.disc && x.sumSent() < x.cMaxSend {
			x.fail("flowctl/blocked-with-credit/conn", fmt.Sprintf("connection reported blocked with sent %d < limit %d", x.sumSent(), x.cMaxSend))
		}
	}
}

func (x *fcWorld) cUpdSend(off int64) {
	upd := x.conn.UpdateSendWindow(protocol.ByteCount(off))
	if upd != (off > x.cMaxSend) {
		x.fail("flowctl/update-send-window/conn", fmt.Sprintf("conn UpdateSendWindow(%d)=%v with largest limit so far %d", off, upd, x.cMaxSend))
	}
	x.cMaxSend = max(x.cMaxSend, off)
	x.emit(u.App("CUpdSend", u.Z(off)), fmt.Sprintf("conn.UpdateSendWindow(%d)", off), fcB2i(upd), 0)
}

func (x *fcWorld) cSendWin() {
	v := int64(x.conn.SendWindowSize())
	x.emit("CSendWin", "conn.SendWindowSize()", v, 0)
	if x.disc && (v > max(x.cMaxSend-x.sumSent(), 0) || v < 0) {
		x.fail("flowctl/send-window-over", fmt.Sprintf("conn SendWindowSize()=%d but remaining credit is %d", v, x.cMaxSend-x.sumSent()))
	}
}

func errCode(err error) int64 {
	if err == nil {
		return 0
	}
	if te, ok := err.(*qerr.TransportError); ok {
		return int64(te.ErrorCode)
	}
	return -1
}

func (x *fcWorld) sRecv(i int, off int64, final bool) {
	st := x.streams[i]
	err := st.fc.UpdateHighestReceived(protocol.ByteCount(off), final, monotime.Time(x.now))
	code := errCode(err)
	x.emit(u.App("SRecv", u.Z(int64(i)), u.Z(off), u.B(final), u.Z(x.now)), fmt.Sprintf("s%d.UpdateHighestReceived(%d,%v)", i, off, final), code, 0)
	if x.disc && !x.dead {
		// the property, stated on what was put on the wire: FINAL_SIZE_ERROR for an
		// inconsistent final size, else FLOW_CONTROL_ERROR iff the new highest offset is
		// beyond the last advertised stream limit or pushes the connection total beyond
		// the last advertised connection limit, else accepted.
		want := int64(0)
		switch {
		case st.final && ((final && off != st.recv) || off > st.recv):
			want = int64(qerr.FinalSizeError)
		case final && off < st.recv:
			want = int64(qerr.FinalSizeError)
		case off > st.recv && (off > st.adv || x.sumRecv()+off-st.recv > x.cAdv):
			want = int64(qerr.FlowControlError)
		}
		if want != code {
			key := "flowctl/recv/final-size"
			if want == int64(qerr.FlowControlError) {
				key = "flowctl/recv/accepts-beyond-advertised"
			} else if code == int64(qerr.FlowControlError) {
				key = "flowctl/recv/rejects-within-advertised"
			}
			x.fail(key, fmt.Sprintf("stream %d UpdateHighestReceived(%d,%v) returned code %d, expected %d (stream limit %d, received %d; conn limit %d, received %d)", i, off, final, code, want, st.adv, st.recv, x.cAdv, x.sumRecv()))
		}
	}
	if code != 0 {
		x.dead = true
		return
	}
	if off > st.recv {
		st.recv = off
	}
	if final {
		st.final = true
	}
}

func (x *fcWorld) sRead(i int, n int64) {
	st := x.streams[i]
	if ss, _ := flowcontrol.VerifStreamState(st.fc); n < 0 || ss[flowcontrol.VBytesRead]+n > ss[flowcontrol.VHighestReceived] {
		x.disc = false
	}
	hs, hc := st.fc.AddBytesRead(protocol.ByteCount(n))
	st.credit += n
	x.emit(u.App("SRead", u.Z(int64(i)), u.Z(n)), fmt.Sprintf("s%d.AddBytesRead(%d)", i, n), fcB2i(hs), fcB2i(hc))
}

func (x *fcWorld) sAbandon(i int) {
	st := x.streams[i]
	st.fc.Abandon()
	if st.recv > st.credit {
		st.credit = st.recv
	}
	if st.final {
		st.abandons++ // Abandon with the final size known: the receive side is complete
	}
	x.emit(u.App("SAbandon", u.Z(int64(i))), fmt.Sprintf("s%d.Abandon()", i), 0, 0)
}

func (x *fcWorld) sWinUpd(i int) {
	st := x.streams[i]
	before, _ := flowcontrol.VerifStreamState(st.fc)
	x.allowDelta = -1
	x.allowAns = !x.r.Chance(1, 5)
	rtt := int64(x.rtt.SmoothedRTT())
	off := int64(st.fc.GetWindowUpdate(monotime.Time(x.now)))
	after, _ := flowcontrol.VerifStreamState(st.fc)
	fast := after[flowcontrol.VReceiveWindowSize] != before[flowcontrol.VReceiveWindowSize] // the float decision, as taken by the implementation
	x.emit(u.App("SWinUpd", u.Z(int64(i)), u.Z(x.now), u.Z(rtt), u.B(fast), u.B(x.allowAns)),
		fmt.Sprintf("s%d.GetWindowUpdate(now=%d,rtt=%d,grew=%v,allow=%v)", i, x.now, rtt, fast, x.allowAns), off, x.allowDelta)
	if off != 0 {
		if off <= st.adv && st.initRWS > 0 {
			x.fail("flowctl/window-not-increasing/stream", fmt.Sprintf("stream %d advertised %d after %d", i, off, st.adv))
		}
		if x.disc && !x.dead && off != st.credit+after[flowcontrol.VReceiveWindowSize] {
			x.fail("flowctl/window-value/stream", fmt.Sprintf("stream %d advertised %d != consumed %d + window %d", i, off, st.credit, after[flowcontrol.VReceiveWindowSize]))
		}
		st.adv = max(st.adv, off) // the peer may use the LARGEST limit it was ever given
	}
}

func (x *fcWorld) cWinUpd() {
	x.allowDelta = -1
	x.allowAns = !x.r.Chance(1, 5)
	rtt := int64(x.rtt.SmoothedRTT())
	off := int64(x.conn.GetWindowUpdate(monotime.Time(x.now)))
	after := flowcontrol.VerifConnState(x.conn)
	fast := x.allowDelta >= 0 // the callback is only consulted after the float decision said "too fast"
	x.emit(u.App("CWinUpd", u.Z(x.now), u.Z(rtt), u.B(fast), u.B(x.allowAns)),
		fmt.Sprintf("conn.GetWindowUpdate(now=%d,rtt=%d,fast=%v,allow=%v)", x.now, rtt, fast, x.allowAns), off, x.allowDelta)
	if off != 0 {
		if off <= x.cAdv && x.cInitRWS > 0 {
			x.fail("flowctl/window-not-increasing/conn", fmt.Sprintf("connection advertised %d after %d", off, x.cAdv))
		}
		if x.disc && !x.dead && off != x.sumCredit()+after[flowcontrol.VReceiveWindowSize] {
			x.fail("flowctl/window-value/conn", fmt.Sprintf("connection advertised %d != consumed %d + window %d", off, x.sumCredit(), after[flowcontrol.VReceiveWindowSize]))
		}
		x.cAdv = max(x.cAdv, off)
	}
}

// dupProbe: use up the stream's (and possibly the connection's) credit, ask IsNewlyBlocked (true at
// most once), then deliver a DUPLICATE or an OLDER MAX_STREAM_DATA / MAX_DATA for the same limit and
// ask again: the answer must be false (monitors blocked-twice/*).
func (x *fcWorld) dupProbe(i int) {
	st := x.streams[i]
	if win := x.sSendWin(i); win > 0 {
		x.sSent(i, win)
	}
	x.sBlocked(i)
	x.cBlockedOp()
	if x.r.Bool() {
		x.sUpdSend(i, st.maxSend)
	} else {
		x.sUpdSend(i, max(st.maxSend-int64(x.r.Range(1, 3)), 0))
	}
	x.sBlocked(i)
	if x.r.Bool() {
		x.cUpdSend(x.cMaxSend)
	} else {
		x.cUpdSend(max(x.cMaxSend-int64(x.r.Range(1, 3)), 0))
	}
	x.cBlockedOp()
	if x.r.Chance(1, 3) { // the 0-RTT case: the handshake's transport parameters repeat the remembered limit
		x.cUpdSend(x.cMaxSend)
		x.sBlocked(i)
		x.cBlockedOp()
	}
}

// probeBlocked ends every case: how a controller remembers where it last reported "blocked" is not
// read from its fields; its effect is observed by asking every controller once more.
func (x *fcWorld) probeBlocked() {
	for i := range x.streams {
		x.sBlocked(i)
	}
	x.cBlockedOp()
}

func (x *fcWorld) cReset() {
	err := x.conn.Reset()
	x.emit("CReset", "conn.Reset()", fcB2i(err != nil), 0)
	if err == nil {
		// what connection.go does on 0-RTT rejection: all streams are discarded
		x.streams = nil
		x.cMaxSend = 0
		x.cBlocked = map[int64]int{}
	}
}

func (x *fcWorld) advance() {
	rtt := int64(x.rtt.SmoothedRTT())
	c := x.r.Intn(8)
	if x.kind == "tune" && c >= 4 && !x.r.Chance(1, 4) {
		c -= 4 // auto-tuning needs window updates in quick succession
	}
	switch c {
	case 0:
	case 1:
		x.now += int64(x.r.Range(1, 1000)) * 1000
	case 2, 3:
		x.now += rtt / 4 * int64(x.r.Range(1, 8))
	case 4:
		x.now += rtt*2 + int64(x.r.Range(-2, 2))
	case 5:
		x.now += rtt * int64(x.r.Range(1, 6))
	case 6:
		x.now += int64(time.Second)
	case 7:
		x.rtt.UpdateRTT(time.Duration(x.r.Range(1, 300))*time.Millisecond, time.Duration(x.r.Range(0, 30))*time.Millisecond)
	}
}

func fcDump(c [10]int64) string { return u.ZList(c[:]) }

func runFlowCtlCase(w *bufio.Writer, r *u.Rng, caseNo int, dist map[string]int) {
	x := &fcWorld{w: w, r: r, fails: map[string]bool{}, cBlocked: map[int64]int{}}
	defer func() {
		if e := recover(); e != nil {
			fmt.Fprintf(w, "MONFAIL\tflowctl/panic\tpanic: %v\t%s\n", e, strings.Join(x.human, " ; "))
		}
	}()
	kind := []string{"send", "send", "recv", "recv", "tune", "tune", "mixed", "mixed", "reset", "wild"}[r.Intn(10)]
	x.kind = kind
	dist["kind:"+kind]++
	x.disc = kind != "wild"
	x.rtt = utils.NewRTTStats()
	switch r.Intn(6) {
	case 0:
		x.rtt.SetInitialRTT(0)
	case 1:
		x.rtt.SetInitialRTT(time.Duration(r.Range(1, 50)) * time.Millisecond)
	}
	x.now = int64(r.Range(1, 1000)) * 1000000
	small := []int64{1, 2, 3, 4, 5, 7, 8, 10, 16, 20, 33, 100, 1000, 65536}
	pickW := func() int64 { return small[r.Intn(len(small))] }
	pickMax := func(rw int64) int64 {
		switch r.Intn(6) {
		case 0:
			return rw
		case 1:
			return 2 * rw
		case 2:
			return 2*rw + 1
		case 3:
			return 3 * rw
		case 4:
			return 16 * rw
		default:
			if x.disc {
				return rw + int64(r.Intn(3))
			}
			return max(rw-1, 0)
		}
	}
	cw := pickW() * int64(r.Range(1, 3))
	cmax := pickMax(cw)
	if !x.disc && r.Chance(1, 6) {
		cw = 0
	}
	x.cAdv, x.cLastRWS, x.cInitRWS, x.cMaxRWS = cw, cw, cw, cmax
	x.conn = flowcontrol.NewConnectionFlowController(protocol.ByteCount(cw), protocol.ByteCount(cmax),
		func(size protocol.ByteCount) bool { x.allowDelta = int64(size); return x.allowAns }, x.rtt, utils.DefaultLogger)

	mkStream := func() {
		rw := pickW()
		sw := []int64{0, 1, 2, 5, 10, 50, 1000}[r.Intn(7)]
		if !x.disc && r.Chance(1, 8) {
			rw = 0
		}
		x.newStream(rw, pickMax(rw), sw)
	}
	if kind != "reset" {
		x.cUpdSend([]int64{0, 1, 3, 10, 20, 100, 5000}[r.Intn(7)])
	}
	for k := r.Range(1, 3); k > 0; k-- {
		mkStream()
	}
	nops := r.Range(8, 38)
	// op weights per scenario kind: send-side, receive-side, window updates
	ws, wr := 1, 1
	switch kind {
	case "send", "reset":
		ws, wr = 5, 1
	case "recv":
		ws, wr = 1, 6
	case "tune":
		ws, wr = 0, 6
	}
	nearSend := func(cur int64) int64 {
		switch r.Intn(6) {
		case 0:
			return cur // duplicate
		case 1:
			return max(cur-int64(r.Range(1, 5)), 0) // reordered (older, smaller)
		case 2:
			return cur + 1
		default:
			return cur + int64(r.Range(1, 30))
		}
	}
	for len(x.ops) < nops+4 {
		if x.disc && x.dead {
			break
		}
		x.advance()
		if len(x.streams) == 0 || (len(x.streams) < 6 && r.Chance(1, 14)) {
			mkStream()
			x.checkState()
			continue
		}
		i := r.Intn(len(x.streams))
		st := x.streams[i]
		ss, _ := flowcontrol.VerifStreamState(st.fc)
		cs := flowcontrol.VerifConnState(x.conn)
		tot := 4*ws + 5*wr + 1
		c := r.Intn(tot)
		switch {
		case c < 2*ws: // what popNewOrRetransmittedStreamFrame does: SendWindowSize, send <= it, ask IsNewlyBlocked
			win := x.sSendWin(i)
			var n int64
			switch {
			case !x.disc && r.Chance(1, 3):
				n = win + int64(r.Range(1, 5))
			case r.Chance(1, 2):
				n = win
			case win > 0 && r.Chance(1, 3):
				n = win - 1
			case win > 0:
				n = int64(r.Intn(int(min(win, 1<<20)) + 1))
			}
			if n > 0 || r.Chance(1, 4) {
				x.sSent(i, n)
			}
			if n == win || r.Chance(1, 3) {
				x.sBlocked(i)
				if r.Chance(1, 3) {
					x.sBlocked(i)
				}
			}
			if r.Chance(1, 2) {
				x.cBlockedOp()
				if r.Chance(1, 4) {
					x.cBlockedOp()
				}
			}
		case c < 3*ws:
			if r.Chance(1, 3) {
				x.dupProbe(i) // blocked at L, reported; duplicate / older MAX_* for L; must not be reported again
				break
			}
			x.sUpdSend(i, nearSend(st.maxSend))
			if r.Chance(1, 3) {
				x.sBlocked(i)
			}
		case c < 4*ws:
			switch r.Intn(4) {
			case 0:
				x.cSendWin()
			case 1:
				x.cBlockedOp()
			default:
				x.cUpdSend(nearSend(x.cMaxSend))
			}
		case c < 4*ws+2*wr: // incoming STREAM / RESET_STREAM: offsets around the stream and connection limits
			hr, rw := ss[flowcontrol.VHighestReceived], ss[flowcontrol.VReceiveWindow]
			connRoom := cs[flowcontrol.VReceiveWindow] - cs[flowcontrol.VHighestReceived]
			var off int64
			limit := min(rw, hr+connRoom) // the highest offset both advertised limits allow
			switch r.Intn(22) {
			case 0, 1:
				off = limit
			case 2:
				off = limit + 1
			case 3:
				off = max(limit-1, 0)
			case 4:
				off = max(rw, hr+connRoom) // within one limit, possibly beyond the other
			case 5:
				off = hr
			case 6:
				off = int64(r.Intn(int(hr) + 1))
			default:
				room := limit - hr
				if room > 0 {
					off = hr + 1 + int64(r.Intn(int(min(room, 1<<20))))
				} else {
					off = hr
				}
			}
			final := r.Chance(1, 6)
			if st.final && !r.Chance(1, 8) { // retransmission of the FIN / duplicate RESET_STREAM
				off, final = st.recv, r.Bool()
			}
			x.sRecv(i, off, final)
		case c < 4*ws+4*wr: // application reads
			avail := ss[flowcontrol.VHighestReceived] - ss[flowcontrol.VBytesRead]
			var n int64
			switch {
			case !x.disc && r.Chance(1, 3):
				n = avail + int64(r.Range(1, 4))
			case avail <= 0:
				n = 0
			case r.Chance(1, 3) || x.kind == "tune" && r.Chance(1, 2):
				n = avail
			default:
				n = int64(r.Intn(int(min(avail, 1<<20)) + 1))
			}
			if n > 0 || r.Chance(1, 5) {
				x.sRead(i, n)
			}
			if r.Chance(2, 3) {
				x.sWinUpd(i)
			}
			if r.Chance(1, 2) {
				x.cWinUpd()
			}
		case c < 4*ws+5*wr:
			switch r.Intn(5) {
			case 0, 1:
				if st.final || !x.disc || r.Chance(1, 4) {
					x.sAbandon(i)
					if r.Chance(1, 4) {
						x.sAbandon(i)
					}
				} else {
					x.sWinUpd(i)
				}
			case 2:
				x.sWinUpd(i)
			default:
				x.cWinUpd()
			}
		default:
			if kind == "reset" || r.Chance(1, 6) {
				x.cReset()
			} else {
				x.cSendWin()
			}
		}
		x.checkState()
	}
	x.probeBlocked()
	// final state
	cs := flowcontrol.VerifConnState(x.conn)
	var sts []string
	for _, st := range x.streams {
		ss, fin := flowcontrol.VerifStreamState(st.fc)
		sts = append(sts, u.Pair(fcDump(ss), u.B(fin)))
	}
	nt := 0
	if len(x.ops) >= 6 {
		nt = 1
	}
	for _, o := range x.ops {
		dist["op:"+strings.Fields(strings.Trim(o, "()"))[0]]++
	}
	if x.dead {
		dist["ended-with-error"]++
	}
	fmt.Fprintf(w, "CASE %d %s\n", nt, u.App("FC", u.Z(cw), u.Z(cmax), u.List(x.ops), u.List(x.rets), fcDump(cs), u.List(sts)))
	if caseNo < 2 {
		fmt.Fprintf(w, "SAMPLE\t[%s] %s\n", kind, strings.Join(x.human, " ; "))
	}
	dist["monitored-states"] += x.nMon
}

// fcEnumUniverse: EXHAUSTIVE small universe (thorough tier): every op sequence up to maxLen over
// the alphabet, on a fresh connection controller (window 3, max 6, MAX_DATA 1) with two streams
// (windows 2/max 4/limit 1 and 3/max 3/limit 2). Validation of the model on ALL short histories
// around the smallest windows, not a proof.
func fcEnumUniverse(w *bufio.Writer, name string, alphabet []func(x *fcWorld), maxLen int, dist map[string]int) {
	seq := make([]int, 0, maxLen)
	runOne := func() {
		x := &fcWorld{w: w, r: u.NewRng(7), fails: map[string]bool{}, cBlocked: map[int64]int{}, kind: "enum", disc: true}
		defer func() {
			if e := recover(); e != nil {
				fmt.Fprintf(w, "MONFAIL\tflowctl/panic\tpanic: %v\t%s\n", e, strings.Join(x.human, " ; "))
			}
		}()
		x.rtt = utils.NewRTTStats()
		x.now = 1000000000
		cw, cmax := int64(3), int64(6)
		x.cAdv, x.cLastRWS, x.cInitRWS, x.cMaxRWS = cw, cw, cw, cmax
		x.conn = flowcontrol.NewConnectionFlowController(protocol.ByteCount(cw), protocol.ByteCount(cmax),
			func(size protocol.ByteCount) bool { x.allowDelta = int64(size); return x.allowAns }, x.rtt, utils.DefaultLogger)
		x.cUpdSend(1)
		x.newStream(2, 4, 1)
		x.newStream(3, 3, 2)
		for _, k := range seq {
			x.now += 1000000 // 1 ms per op: far below the RTT, so auto-tuning grows whenever it may
			alphabet[k](x)
			x.checkState()
		}
		x.probeBlocked()
		cs := flowcontrol.VerifConnState(x.conn)
		var sts []string
		for _, st := range x.streams {
			ss, fin := flowcontrol.VerifStreamState(st.fc)
			sts = append(sts, u.Pair(fcDump(ss), u.B(fin)))
		}
		fmt.Fprintf(w, "CASE 1 %s\n", u.App("FC", u.Z(cw), u.Z(cmax), u.List(x.ops), u.List(x.rets), fcDump(cs), u.List(sts)))
		dist["enum:"+name]++
	}
	var rec func()
	rec = func() {
		if len(seq) > 0 {
			runOne()
		}
		if len(seq) == maxLen {
			return
		}
		for k := range alphabet {
			seq = append(seq, k)
			rec()
			seq = seq[:len(seq)-1]
		}
	}
	rec()
}

func fcEnumAll(w *bufio.Writer, dist map[string]int) {
	send := []func(x *fcWorld){
		func(x *fcWorld) { x.sSent(0, 1) }, func(x *fcWorld) { x.sSent(1, 1) }, func(x *fcWorld) { x.sSent(1, 2) },
		func(x *fcWorld) { x.sUpdSend(0, 2) }, func(x *fcWorld) { x.cUpdSend(2) }, func(x *fcWorld) { x.cUpdSend(3) },
		func(x *fcWorld) { x.sBlocked(0); x.sSendWin(0) }, func(x *fcWorld) { x.cBlockedOp() },
	}
	recv := []func(x *fcWorld){
		func(x *fcWorld) { x.sRecv(0, 1, false) }, func(x *fcWorld) { x.sRecv(0, 2, false) }, func(x *fcWorld) { x.sRecv(0, 3, true) },
		func(x *fcWorld) { x.sRecv(1, 3, false) }, func(x *fcWorld) { x.sRead(0, 1) }, func(x *fcWorld) { x.sAbandon(0) },
		func(x *fcWorld) { x.sWinUpd(0) }, func(x *fcWorld) { x.cWinUpd() },
	}
	mixed := []func(x *fcWorld){
		func(x *fcWorld) { x.sSent(0, 1) }, func(x *fcWorld) { x.sRecv(0, 2, false) }, func(x *fcWorld) { x.sRead(0, 2) },
		func(x *fcWorld) { x.sWinUpd(0); x.cWinUpd() }, func(x *fcWorld) {
			x.cReset()
			if len(x.streams) == 0 { // 0-RTT rejected: the streams are opened again
				x.newStream(2, 4, 1)
				x.newStream(3, 3, 2)
			}
		}, func(x *fcWorld) { x.sRecv(1, 2, true); x.sAbandon(1) },
	}
	fcEnumUniverse(w, "send<=5", send, 5, dist)
	fcEnumUniverse(w, "recv<=5", recv, 5, dist)
	fcEnumUniverse(w, "mixed<=6", mixed, 6, dist)
}

// fcScripted: the "blocked once per limit" scenarios, in every run: blocked at L -> reported once ->
// duplicate / older / 0-RTT re-applied MAX_* for L -> must not be reported again; for the stream and
// for the connection controller.
func fcScripted(w *bufio.Writer, dist map[string]int) {
	scripts := [][]func(x *fcWorld){
		{ // connection level
			func(x *fcWorld) { x.cUpdSend(5) }, func(x *fcWorld) { x.newStream(8, 16, 10) },
			func(x *fcWorld) { x.sSendWin(0); x.sSent(0, 5) }, func(x *fcWorld) { x.cBlockedOp() },
			func(x *fcWorld) { x.cUpdSend(5) }, func(x *fcWorld) { x.cBlockedOp() },
			func(x *fcWorld) { x.cUpdSend(3) }, func(x *fcWorld) { x.cBlockedOp() },
			func(x *fcWorld) { x.cUpdSend(6) }, func(x *fcWorld) { x.sSent(0, 1) }, func(x *fcWorld) { x.cBlockedOp() },
			func(x *fcWorld) { x.cUpdSend(6) }, func(x *fcWorld) { x.cBlockedOp() },
		},
		{ // stream level
			func(x *fcWorld) { x.cUpdSend(100) }, func(x *fcWorld) { x.newStream(8, 16, 4) },
			func(x *fcWorld) { x.sSendWin(0); x.sSent(0, 4) }, func(x *fcWorld) { x.sBlocked(0) },
			func(x *fcWorld) { x.sUpdSend(0, 4) }, func(x *fcWorld) { x.sBlocked(0) },
			func(x *fcWorld) { x.sUpdSend(0, 2) }, func(x *fcWorld) { x.sBlocked(0) },
			func(x *fcWorld) { x.sUpdSend(0, 5) }, func(x *fcWorld) { x.sSent(0, 1) }, func(x *fcWorld) { x.sBlocked(0) },
			func(x *fcWorld) { x.sUpdSend(0, 5) }, func(x *fcWorld) { x.sBlocked(0) },
		},
		{ // a stream whose initial limit is 0, and 0-RTT: Reset, then the same limits again
			func(x *fcWorld) { x.cUpdSend(3) }, func(x *fcWorld) { x.newStream(8, 16, 0) },
			func(x *fcWorld) { x.sBlocked(0) }, func(x *fcWorld) { x.sUpdSend(0, 0) }, func(x *fcWorld) { x.sBlocked(0) },
			func(x *fcWorld) { x.newStream(8, 16, 3) }, func(x *fcWorld) { x.sSent(1, 3) }, func(x *fcWorld) { x.cBlockedOp() },
			func(x *fcWorld) { x.cReset() }, func(x *fcWorld) { x.cUpdSend(3) }, func(x *fcWorld) { x.newStream(8, 16, 3) },
			func(x *fcWorld) { x.sSent(0, 3) }, func(x *fcWorld) { x.cBlockedOp() }, func(x *fcWorld) { x.cUpdSend(3) },
			func(x *fcWorld) { x.cBlockedOp() },
		},
	}
	for _, sc := range scripts {
		fcRunScript(w, dist, 16, 32, sc)
	}
	fcScriptedTune(w, dist)
}

// fcRunScript runs one fixed op sequence on fresh controllers (1 ms between the ops: far below the RTT).
func fcRunScript(w *bufio.Writer, dist map[string]int, cw, cmax int64, sc []func(x *fcWorld)) {
	x := &fcWorld{w: w, r: u.NewRng(11), fails: map[string]bool{}, cBlocked: map[int64]int{}, kind: "scripted", disc: true}
	defer func() {
		if e := recover(); e != nil {
			fmt.Fprintf(w, "MONFAIL\tflowctl/panic\tpanic: %v\t%s\n", e, strings.Join(x.human, " ; "))
		}
	}()
	x.rtt = utils.NewRTTStats()
	x.now = 1000000000
	x.allowAns = true
	x.cAdv, x.cLastRWS, x.cInitRWS, x.cMaxRWS = cw, cw, cw, cmax
	x.conn = flowcontrol.NewConnectionFlowController(protocol.ByteCount(cw), protocol.ByteCount(cmax),
		func(size protocol.ByteCount) bool { x.allowDelta = int64(size); return x.allowAns }, x.rtt, utils.DefaultLogger)
	for _, f := range sc {
		x.now += 1000000
		f(x)
		x.checkState()
	}
	x.probeBlocked()
	cs := flowcontrol.VerifConnState(x.conn)
	var sts []string
	for _, st := range x.streams {
		ss, fin := flowcontrol.VerifStreamState(st.fc)
		sts = append(sts, u.Pair(fcDump(ss), u.B(fin)))
	}
	fmt.Fprintf(w, "CASE 1 %s\n", u.App("FC", u.Z(cw), u.Z(cmax), u.List(x.ops), u.List(x.rets), fcDump(cs), u.List(sts)))
	dist["scripted"]++
}

// fcScriptedTune: window auto-tuning with a configured MAXIMUM receive window BELOW the initial one
// (Config does not forbid it: e.g. MaxStreamReceiveWindow = 128 KiB with the default 512 KiB initial
// window), RTT known, the application consumes 60% of the window within 2 ms: the "too fast" branch
// of maybeAdjustWindowSize is taken, and the window size must NOT move (min(2w, max) < w). Then the
// peer uses the rest of the limit it was given. For the stream and for the connection controller,
// max = 128 KiB / 512 KiB, initial/2 and initial/2 +- 1, initial/4, tiny. Monitors:
// window-size-shrunk, window-not-increasing, recv/rejects-within-advertised.
func fcScriptedTune(w *bufio.Writer, dist map[string]int) {
	for _, c := range [][2]int64{{524288, 131072}, {1000, 500}, {1000, 499}, {1000, 501}, {1000, 250}, {16, 7}, {1000, 1000}, {1000, 1500}} {
		ini, mx := c[0], c[1]
		part := ini * 6 / 10
		// the stream controller
		fcRunScript(w, dist, 8*ini, 16*ini, []func(x *fcWorld){
			func(x *fcWorld) { x.newStream(ini, mx, 0) },
			func(x *fcWorld) { x.sRecv(0, part, false) },
			func(x *fcWorld) { x.sRead(0, part) },
			func(x *fcWorld) { x.sWinUpd(0) },
			func(x *fcWorld) { x.cWinUpd() },
			func(x *fcWorld) { x.sRecv(0, ini, false) }, // still within the limit advertised at the start
			func(x *fcWorld) { x.sRead(0, ini-part) },
			func(x *fcWorld) { x.sWinUpd(0) },
			func(x *fcWorld) { x.sRecv(0, ini+1, false) },
		})
		// the connection controller (the stream windows are out of the way)
		fcRunScript(w, dist, ini, mx, []func(x *fcWorld){
			func(x *fcWorld) { x.newStream(4*ini, 4*ini, 0) },
			func(x *fcWorld) { x.newStream(4*ini, 4*ini, 0) },
			func(x *fcWorld) { x.sRecv(0, part/2, false) },
			func(x *fcWorld) { x.sRecv(1, part-part/2, false) },
			func(x *fcWorld) { x.sRead(0, part/2) },
			func(x *fcWorld) { x.sRead(1, part-part/2) },
			func(x *fcWorld) { x.cWinUpd() },
			func(x *fcWorld) { x.sRecv(0, part/2+(ini-part), false) }, // the connection total reaches the initial limit
			func(x *fcWorld) { x.sRead(0, ini-part) },
			func(x *fcWorld) { x.cWinUpd() },
		})
	}
}

func runFlowCtl(w *bufio.Writer, seed uint64, n int, _ []string) {
	// NewRng(seed) and NewRng(seed+1) produce the same Fork sequence shifted by one case;
	// re-seed from a mixed value so that different seeds give unrelated case sets.
	r := u.NewRng(u.NewRng(seed).U64() ^ 0xC04)
	dist := map[string]int{}
	fcScripted(w, dist)
	for i := 0; i < n; i++ {
		runFlowCtlCase(w, r.Fork(), i, dist)
	}
	if os.Getenv("VERIF_TIER") == "thorough" || os.Getenv("VERIF_FC_ENUM") == "1" {
		fcEnumAll(w, dist)
	}
	keys := make([]string, 0, len(dist))
	for k := range dist {
		keys = append(keys, k)
	}
	sort.Strings(keys)
	for _, k := range keys {
		fmt.Fprintf(w, "DIST\t%s\t%d\n", k, dist[k])
	}
}
