//go:build verif

package main

import (
	"bufio"
	"fmt"
	"strings"

	quic "github.com/refraction-networking/uquic"
	u "github.com/refraction-networking/uquic/internal/verifutil"
)

// Unit "paceglue" (property C20): the connection's send path — Conn.triggerSending / sendPackets /
// sendPacketsWithoutGSO / resetPacingDeadline — on a constructed server Conn with the REAL sent
// packet handler, Reno sender and pacer (fake packer and send queue). Each case is one call of
// triggerSending: how much data waits, whether a received packet waits, the SendMode answers the
// handler gave during the call, the TimeUntilSend answer; observed: packets sent, pacing deadline,
// blocked mode, ACK-only attempts. Monitors: a packet is only released right after a SendMode = any
// answer; a pacing-limited answer arms the pacing deadline with TimeUntilSend.

func init() {
	units["paceglue"] = c20RunPaceGlue
	genSources = append(genSources, quic.VerifC20PaceConsts)
}

func c20RunPaceGlue(w *bufio.Writer, seed uint64, n int, _ []string) {
	root := u.NewRng(seed*0x9E3779B97F4A7C15 + 0x5bd1e995)
	dist := map[string]int{}
	reported := map[string]bool{}
	monfail := func(key, desc, detail string) {
		if reported[key] {
			return
		}
		reported[key] = true
		fmt.Fprintf(w, "MONFAIL\t%s\t%s\t%s\n", key, desc, detail)
	}
	const smPacing, smAny = 5, 6
	for ci := 0; ci < n; ci++ {
		r := root.Fork()
		ips := uint16(r.Pick(1200, 1252, 1350, 1452))
		rtt := int64(r.Range(10, 200)) * 1_000_000
		if r.Chance(1, 10) {
			rtt = 0 // no RTT sample yet: smoothed RTT 0 counts as 1ms, the pacer hardly limits
			dist["no-rtt-sample"]++
		}
		v, err := quic.NewVerifC20PaceConn(ips, rtt)
		if err != nil {
			monfail("paceglue/construct", err.Error(), "")
			continue
		}
		now := int64(r.Range(1_000_000, 1_000_000_000))
		var trace []string
		calls := r.Range(3, 10)
		for k := 0; k < calls; k++ {
			avail := int(r.Pick(0, 1, 2, 3, 9, 10, 11, 12, 25, 40))
			if ci == 0 {
				avail = 40 // fixed first case: a large burst, then the rest as pacing / the window allow
			}
			hasRecv := r.Chance(1, 6)
			ev, sent, deadline, blocked, ackOnly, err := v.Trigger(now, avail, hasRecv)
			if err != nil {
				monfail("paceglue/error", "triggerSending: "+err.Error(), strings.Join(trace, " "))
			}
			var modes []string
			tus := int64(-1)
			lastMode := int64(-1)
			prevAny := false
			for _, e := range ev {
				switch e.Kind {
				case 0:
					modes = append(modes, u.Z(e.V))
					lastMode = e.V
					prevAny = e.V == smAny
					dist[fmt.Sprintf("mode-%d", e.V)]++
				case 1:
					if !prevAny {
						monfail("paceglue/send-without-any", fmt.Sprintf("a packet of %d bytes was sent without a SendMode=any answer right before it", e.V),
							strings.Join(trace, " ")+fmt.Sprintf(" (trigger t=%d avail=%d recv=%v)", now, avail, hasRecv))
					}
					prevAny = false
				case 2:
					tus = e.V
					prevAny = false
				}
			}
			trace = append(trace, fmt.Sprintf("(trigger t=%d avail=%d recv=%v -> modes %v sent %d deadline %d blocked %d)", now, avail, hasRecv, modes, sent, deadline, blocked))
			if lastMode == smPacing {
				dist["ended-pacing-limited"]++
				want := tus
				if tus == 0 {
					want = 42_000_000
				}
				if tus < 0 || deadline != want {
					monfail("paceglue/pacing-deadline-not-armed", fmt.Sprintf("the last SendMode answer was pacing-limited but pacingDeadline=%d (TimeUntilSend answered %d)", deadline, tus), strings.Join(trace, " "))
				}
				if tus >= 0 && tus <= now {
					monfail("paceglue/pacing-livelock", fmt.Sprintf("pacing-limited at t=%d but TimeUntilSend=%d is not in the future", now, tus), strings.Join(trace, " "))
				}
			}
			if sent > 0 {
				dist["calls-that-sent"]++
			}
			if sent > 10 {
				dist["calls-that-sent-more-than-10"]++
			}
			if hasRecv && sent > 0 {
				dist["stopped-for-received-packet"]++
			}
			dist[fmt.Sprintf("blocked-%d", blocked)]++
			nt := 0
			if sent > 0 {
				nt = 1
			}
			fmt.Fprintf(w, "CASE %d %s\n", nt, u.App("PaceCase", u.Z(int64(avail)), u.B(hasRecv), u.List(modes), u.Z(tus),
				u.Z(int64(sent)), u.Z(deadline), u.Z(int64(blocked)), u.Z(int64(ackOnly))))
			// time passes; sometimes everything in flight is acknowledged
			switch r.Intn(5) {
			case 0:
			case 1:
				now += int64(r.Range(1, 900)) * 1000
			case 2:
				if deadline > now {
					now = deadline
				} else {
					now += 1_000_000
				}
			default:
				now += int64(r.Range(5, 80)) * 1_000_000
				if r.Chance(2, 3) {
					if err := v.AckAll(now); err != nil {
						monfail("paceglue/ack-error", err.Error(), strings.Join(trace, " "))
					}
					dist["ack-all"]++
				}
			}
		}
		if ci < 2 {
			fmt.Fprintf(w, "SAMPLE\t%s\n", strings.Join(trace, " "))
		}
	}
	for k, v := range dist {
		fmt.Fprintf(w, "DIST\t%s\t%d\n", k, v)
	}
}
