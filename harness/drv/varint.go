//go:build verif

package main

import (
	"bufio"
	"fmt"
	"os"

	u "github.com/refraction-networking/uquic/internal/verifutil"
	"github.com/refraction-networking/uquic/quicvarint"
)

func init() { units["varint"] = runVarint }

// varint unit: (i) encode side: Append / Len / AppendWithLen of boundary and random values,
// re-parsed by Parse (monitor: round trip); (ii) parse side: random and (thorough) all
// 1- and 2-byte inputs, result class, value, consumed.
func runVarint(w *bufio.Writer, seed uint64, n int, _ []string) {
	r := u.NewRng(seed)
	bounds := []uint64{0, 1, 62, 63, 64, 65, 16382, 16383, 16384, 16385, 1073741822, 1073741823, 1073741824, 1073741825,
		4611686018427387902, 4611686018427387903}
	emitEnc := func(v uint64) {
		enc := quicvarint.Append(nil, v)
		l := quicvarint.Len(v)
		if len(enc) != l {
			fmt.Fprintf(w, "MONFAIL\tvarint/len\tAppend length %d != Len %d\t%d\n", len(enc), l, v)
		}
		pv, pn, err := quicvarint.Parse(append(append([]byte{}, enc...), 0xaa))
		if err != nil || pv != v || pn != l {
			fmt.Fprintf(w, "MONFAIL\tvarint/roundtrip\tParse(Append(v)) = (%d,%d,%v)\t%d\n", pv, pn, err, v)
		}
		want := []int{1, 2, 4, 8}[r.Intn(4)]
		wl := "None"
		if want >= l {
			e2 := quicvarint.AppendWithLen(nil, v, want)
			pv, pn, err := quicvarint.Parse(e2)
			if err != nil || pv != v || pn != want || len(e2) != want {
				fmt.Fprintf(w, "MONFAIL\tvarint/withlen\tParse(AppendWithLen(v,%d)) = (%d,%d,%v)\t%d\n", want, pv, pn, err, v)
			}
			wl = u.Opt(true, u.Pair(u.Z(int64(want)), u.Hex(e2)))
		}
		fmt.Fprintf(w, "CASE 1 %s\n", u.App("EncCase", u.ZU(v), u.Hex(enc), u.Z(int64(l)), wl))
	}
	for _, b := range bounds {
		emitEnc(b)
	}
	for i := 0; i < n; i++ {
		bits := r.Range(0, 62)
		v := r.U64()
		if bits < 62 {
			v &= (1 << uint(bits)) - 1
		} else {
			v &= (1 << 62) - 1
		}
		emitEnc(v)
	}
	emitParse := func(b []byte) {
		v, c, err := quicvarint.Parse(b)
		cls := "0"
		if err != nil {
			cls = "1"
			if len(b) == 0 {
				cls = "2"
			}
		}
		if err == nil && (c > len(b) || c <= 0) {
			fmt.Fprintf(w, "MONFAIL\tvarint/consumed\tconsumed %d of %d\t%x\n", c, len(b), b)
		}
		nt := 0
		if err == nil {
			nt = 1
		}
		fmt.Fprintf(w, "CASE %d %s\n", nt, u.App("ParseCase", u.Hex(b), cls, u.ZU(v), u.Z(int64(c))))
	}
	emitParse(nil)
	for i := 0; i < n; i++ {
		emitParse(r.Bytes(r.Range(0, 10)))
	}
	if os.Getenv("VERIF_TIER") == "thorough" {
		for a := 0; a < 256; a++ {
			emitParse([]byte{byte(a)})
			for b := 0; b < 256; b += 1 {
				emitParse([]byte{byte(a), byte(b)})
			}
		}
	}
	fmt.Fprintf(w, "DIST\tenc\t%d\nDIST\tparse\t%d\n", n+len(bounds), n+1)
}
