//go:build verif

package main

// runloop (part 2): the fan-out of a close to the API objects, at unit level, over STREAM STATES.
// A real streamsMap + datagramQueue (no connection), frames injected so that every stream is in a chosen
// receive-side and send-side state, calls parked, then streamsMap.CloseWithError + datagramQueue.CloseWithError
// exactly as Conn.handleCloseError does. FanoutCase: per stream (receive state, result of the call issued before
// the close, result of a call issued after it, send state, ...) + the results of the parked map / datagram calls.
// Monitor (model-independent): no call is parked after the close; every result is the cause or the stream's own
// terminal error.

import (
	"context"
	"errors"
	"fmt"
	"io"
	"sync"
	"testing/synctest"
	"time"

	quic "github.com/refraction-networking/uquic"
	u "github.com/refraction-networking/uquic/internal/verifutil"
)

// receive-side states
const (
	rlROpen         = 0 // data read up to the end of what arrived: Read parks
	rlRResetAtPend  = 1 // RESET_STREAM_AT, reliable size beyond the read position, reliable data incomplete: Read parks
	rlRResetAtDone  = 2 // RESET_STREAM_AT, reliable part read completely
	rlRReset        = 3 // plain RESET_STREAM
	rlRCancelRead   = 4 // local CancelRead
	rlRFinGap       = 5 // FIN arrived, data before it missing: Read parks
	rlREOF          = 6 // read to the end
	rlRData         = 7 // unread data queued
	rlRResetAtPeek  = 8 // like 1, Peek parks
	rlWPark         = 10 // Write of more than fits parks
	rlWStopSending  = 11 // STOP_SENDING received, then Write
	rlWParkThenStop = 12 // Write parks, then STOP_SENDING
	rlWClosed       = 13 // Close()d
	rlWIdle         = 14
)

var rlRStates = []int{rlROpen, rlRResetAtPend, rlRResetAtDone, rlRReset, rlRCancelRead, rlRFinGap, rlREOF, rlRData, rlRResetAtPeek}
var rlWStates = []int{rlWPark, rlWStopSending, rlWParkThenStop, rlWClosed, rlWIdle}
var rlStateNames = map[int]string{0: "open", 1: "reset-at-pending", 2: "reset-at-complete", 3: "reset", 4: "cancel-read", 5: "fin-gap", 6: "eof", 7: "data-queued",
	8: "reset-at-pending-peek", 10: "write-parked", 11: "stop-sending", 12: "write-parked-then-stop-sending", 13: "closed", 14: "idle"}

type rlPend struct {
	mu   sync.Mutex
	done bool
	n    int
	err  error
}

func rlGo(f func() (int, error)) *rlPend {
	p := &rlPend{}
	go func() {
		n, err := f()
		p.mu.Lock()
		p.n, p.err, p.done = n, err, true
		p.mu.Unlock()
	}()
	return p
}

// result classes (shared with Run.v): 0 cause, 1 EOF, 2 stream error, 3 other error of the stream (closed), 4 progress, 5 parked
func (p *rlPend) class(cause error) int64 {
	p.mu.Lock()
	defer p.mu.Unlock()
	if !p.done {
		return 5
	}
	var se *quic.StreamError
	switch {
	case p.err == nil:
		return 4
	case errors.Is(p.err, cause):
		return 0
	case p.err == io.EOF:
		return 1
	case errors.As(p.err, &se):
		return 2
	}
	return 3
}

type rlFanoutCase struct {
	Seed           uint64
	R, W           []int
	NAccept, NOpen int
	NDg            int
}

func (c rlFanoutCase) String() string {
	var ss []string
	for i := range c.R {
		ss = append(ss, rlStateNames[c.R[i]]+"/"+rlStateNames[c.W[i]])
	}
	return fmt.Sprintf("fanout streams=%v accept=%d opensync=%d receivedatagram=%d seed=%d", ss, c.NAccept, c.NOpen, c.NDg, c.Seed)
}

func genFanoutCase(r *u.Rng, i int) rlFanoutCase {
	c := rlFanoutCase{Seed: r.U64(), NAccept: r.Intn(4), NOpen: r.Intn(4), NDg: r.Intn(4)}
	k := r.Range(1, 6)
	for j := 0; j < k; j++ {
		c.R = append(c.R, rlRStates[r.Intn(len(rlRStates))])
		c.W = append(c.W, rlWStates[r.Intn(len(rlWStates))])
	}
	if i < len(rlRStates) { // every receive state in every run
		c.R[0] = rlRStates[i]
	}
	if i < len(rlWStates) {
		c.W[0] = rlWStates[i]
	}
	return c
}

func runOneFanout(c rlFanoutCase, o *rlOut) {
	cause := &quic.ApplicationError{Remote: true, ErrorCode: 0x17, ErrorMessage: "fan-out"}
	err := inBubble(func() {
		ctx, cancel := context.WithCancel(context.Background())
		defer cancel()
		v := quic.NewVerifRLFanout(uint64(len(c.R) + 1))
		k := len(c.R)
		strs := make([]*quic.Stream, k)
		bad := func(what string, err error) bool {
			if err != nil {
				o.fail("runloop/fanout-setup", fmt.Sprintf("%s: %v: %s", what, err, c.String()))
				return true
			}
			return false
		}
		for i := 0; i < k; i++ {
			if bad("first STREAM frame", v.StreamFrame(int64(4*i), 0, []byte("abc"), c.R[i] == rlREOF)) {
				return
			}
			s, err := v.AcceptStream(ctx)
			if bad("AcceptStream", err) {
				return
			}
			strs[i] = s
		}
		rpre, wpre := make([]*rlPend, k), make([]*rlPend, k)
		read := func(s *quic.Stream, n int) func() (int, error) {
			return func() (int, error) { return s.Read(make([]byte, n)) }
		}
		for i, s := range strs {
			id := int64(4 * i)
			buf := make([]byte, 3)
			switch c.R[i] {
			case rlROpen:
				io.ReadFull(s, buf)
				rpre[i] = rlGo(read(s, 5))
			case rlRResetAtPend, rlRResetAtPeek:
				io.ReadFull(s, buf)
				if bad("RESET_STREAM_AT", v.ResetStream(id, 20, 10, 9)) {
					return
				}
				if c.R[i] == rlRResetAtPeek {
					rpre[i] = rlGo(func() (int, error) { return s.Peek(make([]byte, 2)) })
				} else {
					rpre[i] = rlGo(read(s, 5))
				}
			case rlRResetAtDone:
				if bad("STREAM frame", v.StreamFrame(id, 3, []byte("defghij"), false)) || bad("RESET_STREAM_AT", v.ResetStream(id, 20, 10, 9)) {
					return
				}
				io.ReadFull(s, make([]byte, 10))
				rpre[i] = rlGo(read(s, 5))
			case rlRReset:
				io.ReadFull(s, buf)
				if bad("RESET_STREAM", v.ResetStream(id, 3, 0, 9)) {
					return
				}
				rpre[i] = rlGo(read(s, 5))
			case rlRCancelRead:
				s.CancelRead(5)
				rpre[i] = rlGo(read(s, 5))
			case rlRFinGap:
				io.ReadFull(s, buf)
				if bad("STREAM frame with FIN", v.StreamFrame(id, 10, []byte("xyz"), true)) {
					return
				}
				rpre[i] = rlGo(read(s, 5))
			case rlREOF:
				io.ReadFull(s, buf)
				rpre[i] = rlGo(read(s, 5))
			case rlRData:
			}
			switch c.W[i] {
			case rlWPark:
				wpre[i] = rlGo(func() (int, error) { return s.Write(make([]byte, 5000)) })
			case rlWStopSending:
				if bad("STOP_SENDING", v.StopSending(id, 3)) {
					return
				}
				wpre[i] = rlGo(func() (int, error) { return s.Write(make([]byte, 10)) })
			case rlWParkThenStop:
				wpre[i] = rlGo(func() (int, error) { return s.Write(make([]byte, 5000)) })
				synctest.Wait()
				if bad("STOP_SENDING", v.StopSending(id, 3)) {
					return
				}
			case rlWClosed:
				s.Close()
			}
		}
		var maps []*rlPend
		for j := 0; j < c.NAccept; j++ {
			maps = append(maps, rlGo(func() (int, error) { _, err := v.AcceptStream(ctx); return 0, err }))
		}
		for j := 0; j < c.NOpen; j++ {
			maps = append(maps, rlGo(func() (int, error) { _, err := v.OpenStreamSync(ctx); return 0, err }))
		}
		for j := 0; j < c.NDg; j++ {
			maps = append(maps, rlGo(func() (int, error) { _, err := v.ReceiveDatagram(ctx); return 0, err }))
		}
		synctest.Wait()
		// which of the calls issued before the close are parked
		parkedBefore := func(p *rlPend) bool { return p != nil && p.class(cause) == 5 }
		rParked, wParked := make([]bool, k), make([]bool, k)
		for i := 0; i < k; i++ {
			rParked[i], wParked[i] = parkedBefore(rpre[i]), parkedBefore(wpre[i])
		}
		v.CloseWithError(cause)
		synctest.Wait()
		cls := func(p *rlPend) int64 {
			if p == nil {
				return -1
			}
			return p.class(cause)
		}
		var terms []string
		for i, s := range strs {
			// calls issued after the close
			var rl *rlPend
			if c.R[i] == rlRResetAtPeek {
				rl = rlGo(func() (int, error) { return s.Peek(make([]byte, 2)) })
			} else {
				rl = rlGo(read(s, 5))
			}
			synctest.Wait()
			if rpre[i] != nil && rParked[i] && cls(rpre[i]) == 5 {
				// wait: a later reader on the same stream is only allowed once the parked one has returned
			}
			wl := rlGo(func() (int, error) { return s.Write(make([]byte, 10)) })
			synctest.Wait()
			check := func(kind string, state int, p *rlPend, when string) {
				if p == nil {
					return
				}
				switch x := p.class(cause); {
				case x == 5:
					o.fail("runloop/fanout-parked/"+rlStateNames[state], fmt.Sprintf("%s %s the close of the connection is parked for ever on a stream in state %q (stream %d): %s", kind, when, rlStateNames[state], 4*i, c.String()))
				case x == 4 && when == "issued after":
					o.fail("runloop/fanout-no-error/"+rlStateNames[state], fmt.Sprintf("%s %s the close succeeded on a stream in state %q: %s", kind, when, rlStateNames[state], c.String()))
				}
			}
			check("Read", c.R[i], rpre[i], "parked before")
			check("Read", c.R[i], rl, "issued after")
			check("Write", c.W[i], wpre[i], "parked before")
			check("Write", c.W[i], wl, "issued after")
			terms = append(terms, u.Pair(u.Z(int64(c.R[i])), u.B(rParked[i]), u.Z(cls(rpre[i])), u.Z(cls(rl)), u.Z(int64(c.W[i])), u.B(wParked[i]), u.Z(cls(wpre[i])), u.Z(cls(wl))))
		}
		var ms []string
		for j, p := range maps {
			x := p.class(cause)
			ms = append(ms, u.Z(x))
			if x != 0 {
				kind := "AcceptStream"
				if j >= c.NAccept {
					kind = "OpenStreamSync"
				}
				if j >= c.NAccept+c.NOpen {
					kind = "ReceiveDatagram"
				}
				o.fail("runloop/fanout-map/"+kind, fmt.Sprintf("parked %s: result class %d after the close (0 = the cause): %s", kind, x, c.String()))
			}
		}
		o.emit(1, u.App("FanoutCase", u.List(terms), u.List(ms)))
		for i := range c.R {
			o.count("fanout r=" + rlStateNames[c.R[i]])
			o.count("fanout w=" + rlStateNames[c.W[i]])
		}
		// release what a broken fan-out left parked, so that the bubble can end and the next scenario runs
		cancel()
		for i, s := range strs {
			if cls(rpre[i]) == 5 {
				s.CancelRead(1)
				v.StreamFrame(int64(4*i), 3, []byte("defghijklmnopqrstuvwxyz"), false)
			}
		}
	})
	if err != nil {
		o.fail("runloop/fanout-leak-or-panic", err.Error()+" :: "+c.String())
	}
}

// ---- CONNECTION_CLOSE during the handshake, through the real packer: the server closes its half-open connection
// (application error / transport error) right after the client's first flight arrived; what the dialing client records.
func runOneHsClose(isApp bool, code uint64, plain bool, o *rlOut) {
	desc := fmt.Sprintf("hsclose app=%v code=%d plain=%v", isApp, code, plain)
	err := inBubble(func() {
		rtt := 20 * time.Millisecond
		e, err := newSimEnv(simOpts{RTT: rtt, PlainPath: plain})
		if err != nil {
			o.fail("runloop/env", err.Error())
			return
		}
		defer e.Close()
		ctx, cancel := context.WithCancel(context.Background())
		defer cancel()
		type dres struct {
			conn *quic.Conn
			err  error
		}
		dch := make(chan dres, 1)
		go func() {
			conn, err := e.Dial(ctx)
			dch <- dres{conn, err}
		}()
		time.Sleep(rtt / 2) // the client's first flight arrives: the server creates the connection
		synctest.Wait()
		srv := quic.VerifTransportConns(e.SrvTr)
		if len(srv) != 1 {
			o.fail("runloop/hsclose-setup", fmt.Sprintf("%d server connections after the first flight: %s", len(srv), desc))
			return
		}
		if quic.VerifRunLoopSnapshot(srv[0]).HandshakeComplete {
			o.fail("runloop/hsclose-setup", "server handshake already complete: "+desc)
			return
		}
		if isApp {
			go srv[0].CloseWithError(quic.ApplicationErrorCode(code), "too early for this")
		} else {
			quic.VerifRequestClose(srv[0], quic.VerifMakeErr(quic.VerifErrTransport, code), false)
		}
		var d dres
		select {
		case d = <-dch:
		case <-time.After(30 * time.Second):
			o.fail("runloop/hsclose-dial-hang", "Dial still parked 30 s after the server closed the half-open connection: "+desc)
			cancel()
			d = <-dch
		}
		cause := d.err
		if d.err == nil { // the handshake completed in the same instant: the connection must be closed with the cause right away
			select {
			case <-d.conn.Context().Done():
				cause = context.Cause(d.conn.Context())
			case <-time.After(time.Second):
				o.fail("runloop/hsclose-not-closed", "Dial returned a connection that is not closed 1 s later: "+desc)
				d.conn.CloseWithError(0, "")
				return
			}
		}
		k, c := classifyErr(cause)
		// monitor: a peer that has not completed the handshake is never shown an application close
		// (RFC 9000 10.2.3: APPLICATION_ERROR, no reason phrase), a transport error arrives as it is
		var te *quic.TransportError
		switch {
		case isApp && !(k == ekTransportRemote && c == uint64(quic.ApplicationErrorErrorCode)):
			o.fail("runloop/hsclose-app-frame", fmt.Sprintf("the client recorded %v: %s", cause, desc))
		case isApp && errors.As(cause, &te) && te.ErrorMessage != "":
			o.fail("runloop/hsclose-app-reason", fmt.Sprintf("the reason phrase %q of the application close reached the handshaking client: %s", te.ErrorMessage, desc))
		case !isApp && !(k == ekTransportRemote && c == code):
			o.fail("runloop/hsclose-transport-frame", fmt.Sprintf("the client recorded %v: %s", cause, desc))
		}
		o.emit(1, u.App("HsCloseCase", u.B(isApp), u.ZU(code), errPair(k, c)))
		o.count(fmt.Sprintf("hsclose app=%v", isApp))
	})
	if err != nil {
		o.fail("runloop/leak-or-panic", err.Error()+" :: "+desc)
	}
}

// ---- idleTimeout / keepAliveInterval of spec-driven clients (ParamsCase through the real newUClientConnection)
type rlSpecParams struct {
	parrot, mode       string
	tc, conf, kap, srv time.Duration
}

var rlSpecParamsTable = []rlSpecParams{
	{"Chrome_115_IPv4", "adv", 4 * time.Second, 13 * time.Second, 6600 * time.Millisecond, 18 * time.Second}, // advertises less than it enforces
	{"Chrome_115_IPv4", "", 0, 60 * time.Second, 45 * time.Second, 120 * time.Second},                          // the built-in parrot advertises 30 s
	{"Chrome_146_IPv4", "adv", 20 * time.Second, 8 * time.Second, 30 * time.Second, 3 * time.Second},
	{"Chrome_115_IPv4", "omit", 0, 9 * time.Second, 2 * time.Second, 14 * time.Second},
	{"Chrome_115_IPv4", "suppress", 4 * time.Second, 9 * time.Second, 20 * time.Second, 22 * time.Second},
}

func runOneSpecParams(t rlSpecParams, o *rlOut) {
	desc := fmt.Sprintf("specparams %+v", t)
	err := inBubble(func() {
		sp, err := specFor(t.parrot)
		if err != nil || (t.mode != "" && !scDeriveIdleSpec(sp, t.mode, t.tc)) {
			o.fail("runloop/spec", fmt.Sprintf("cannot derive the spec: %v: %s", err, desc))
			return
		}
		e, err := newSimEnv(simOpts{RTT: 10 * time.Millisecond, Spec: sp,
			ServerConf: &quic.Config{MaxIdleTimeout: t.srv}, ClientConf: &quic.Config{MaxIdleTimeout: t.conf, KeepAlivePeriod: t.kap}})
		if err != nil {
			o.fail("runloop/env", err.Error())
			return
		}
		defer e.Close()
		ctx, cancel := context.WithCancel(context.Background())
		defer cancel()
		go func() {
			if conn, err := e.Ln.Accept(ctx); err == nil {
				<-conn.Context().Done()
			}
		}()
		cl, err := e.Dial(ctx)
		if err != nil {
			o.fail("runloop/dial", "handshake on a perfect path failed: "+err.Error()+": "+desc)
			return
		}
		time.Sleep(100 * time.Millisecond)
		synctest.Wait()
		s := quic.VerifRunLoopSnapshot(cl)
		o.emit(1, u.App("ParamsCase", u.Z(s.CfgMaxIdleTimeout), u.Z(s.PeerMaxIdleTimeout), u.Z(s.PeerAdvertisedIdle), u.Z(s.OwnAdvertisedIdle), u.Z(s.CfgKeepAlivePeriod), u.Z(s.IdleTimeout), u.Z(s.KeepAliveInterval)))
		// monitor: with keep-alive on, the interval leaves half of the period the PEER will apply: the minimum of what
		// the server advertised and what this client put on the wire (the server's view: its own value and the one it received)
		srvConns := quic.VerifTransportConns(e.SrvTr)
		o.count(fmt.Sprintf("specparams server conns=%d", len(srvConns)))
		if len(srvConns) == 1 && t.kap != 0 {
			sv := quic.VerifRunLoopSnapshot(srvConns[0])
			peerApplies := time.Duration(sv.CfgMaxIdleTimeout)
			if a := time.Duration(sv.PeerAdvertisedIdle); a > 0 && a < peerApplies {
				peerApplies = a
			}
			o.count(fmt.Sprintf("specparams ka=%v serverApplies=%v (told %v)", time.Duration(s.KeepAliveInterval), peerApplies, time.Duration(sv.PeerAdvertisedIdle)))
			if time.Duration(s.KeepAliveInterval) > peerApplies/2 {
				o.fail("runloop/keep-alive-exceeds-advertised-idle", fmt.Sprintf("client keepAliveInterval=%v although the server was told %v and itself uses %v: %s",
					time.Duration(s.KeepAliveInterval), time.Duration(sv.PeerAdvertisedIdle), time.Duration(sv.CfgMaxIdleTimeout), desc))
			}
		}
		o.count("specparams mode=" + t.mode)
		cl.CloseWithError(0, "")
	})
	if err != nil {
		o.fail("runloop/leak-or-panic", err.Error()+" :: "+desc)
	}
}
