//go:build verif

package main

import (
	"bufio"
	"bytes"
	crand "crypto/rand"
	"fmt"
	"net"
	"os"
	"strings"
	"testing/synctest"
	"time"

	quic "github.com/refraction-networking/uquic"
	"github.com/refraction-networking/uquic/internal/handshake"
	"github.com/refraction-networking/uquic/internal/protocol"
	u "github.com/refraction-networking/uquic/internal/verifutil"
)

func init() {
	units["token"] = runToken
	genSources = append(genSources, handshake.VerifTokenConsts, quic.VerifC14Consts)
}

// token unit (C14 b, c): the real TokenGenerator (fixed keys), baseServer.validateToken and
// the token branch of baseServer.handleInitialImpl.
//
// Everything runs inside a synctest bubble: time.Now() is a fake clock that only moves when
// the harness sleeps, so token ages are exact to the nanosecond and the cases are
// reproducible.  crypto/rand.Reader is replaced by a scripted reader (nonces).
//
// One case = issue a token (or craft one) for address A0 at time T0, mutate it or not,
// present it from address A1 at time T0+age to a server with given lifetimes.
// Oracles logged for the model: what the protector opens the bytes to (HKDF+AES-GCM) and
// what encoding/asn1 makes of the plaintext.

type rngReader struct{ r *u.Rng }

func (x *rngReader) Read(p []byte) (int, error) {
	copy(p, x.r.Bytes(len(p)))
	return len(p), nil
}

func quicCID(b []byte) protocol.ConnectionID { return protocol.ParseConnectionID(b) }

// tokHxs prints a byte string as the Coq term (hx "..") : list Z.
func tokHxs(b []byte) string { return u.App("hx", u.Hex(b)) }

type strAddr string

func (a strAddr) Network() string { return "verif" }
func (a strAddr) String() string  { return string(a) }

type tokAddr struct {
	udp  bool
	ip   []byte
	port int
	s    string
}

func (a tokAddr) net() net.Addr {
	if a.udp {
		return &net.UDPAddr{IP: net.IP(a.ip), Port: a.port}
	}
	return strAddr(a.s)
}
func (a tokAddr) coq() string {
	if a.udp {
		return u.App("UDPAddr", tokHxs(a.ip), u.Z(int64(a.port)))
	}
	return u.App("StrAddr", tokHxs([]byte(a.s)))
}
func (a tokAddr) String() string {
	if a.udp {
		return fmt.Sprintf("udp(%x:%d)", a.ip, a.port)
	}
	return fmt.Sprintf("str(%q)", a.s)
}

// sameRepr: the strict notion (same kind, same IP bytes / same string) under which a token MUST validate;
// sameHost: the loose notion (same IP as an address, whatever its 4/16-byte form) outside which it MUST NOT.
func sameRepr(a, b tokAddr) bool {
	if a.udp != b.udp {
		return false
	}
	if a.udp {
		return bytes.Equal(a.ip, b.ip)
	}
	return a.s == b.s
}
func sameHost(a, b tokAddr) bool {
	if a.udp != b.udp {
		return false
	}
	if a.udp {
		return net.IP(a.ip).Equal(net.IP(b.ip)) || bytes.Equal(a.ip, b.ip)
	}
	return a.s == b.s
}

func randAddr(r *u.Rng) tokAddr {
	switch r.Intn(7) {
	case 0, 1:
		return tokAddr{udp: true, ip: []byte{10, 0, byte(r.Intn(3)), byte(r.Intn(3))}, port: 1000 + r.Intn(3)}
	case 2:
		return tokAddr{udp: true, ip: []byte(net.IPv4(10, 0, byte(r.Intn(3)), byte(r.Intn(3)))), port: 1000 + r.Intn(3)} // 16-byte form
	case 3, 4:
		ip := make([]byte, 16)
		ip[0], ip[1], ip[15] = 0x20, 0x01, byte(r.Intn(3))
		return tokAddr{udp: true, ip: ip, port: 1000 + r.Intn(3)}
	case 5:
		return tokAddr{udp: true, ip: nil, port: r.Intn(2)}
	default:
		return tokAddr{s: []string{"10.0.0.1:1000", "10.0.0.1:1001", "unix:/tmp/a", "", "\x00\x0a\x00\x00\x01"}[r.Intn(5)]}
	}
}

func nearAddr(r *u.Rng, a tokAddr) tokAddr {
	b := a
	b.ip = append([]byte{}, a.ip...)
	switch r.Intn(6) {
	case 0: // other port (UDP: still the same address for the token; string: a different one)
		if a.udp {
			b.port = a.port + 1
		} else {
			b.s = a.s + "1"
		}
	case 1: // one bit of the IP differs
		if a.udp && len(b.ip) > 0 {
			b.ip[len(b.ip)-1] ^= 1 << uint(r.Intn(8))
		} else {
			b = randAddr(r)
		}
	case 2: // other representation of the same IPv4 address
		if a.udp && len(a.ip) == 4 {
			b.ip = []byte(net.IP(a.ip).To16())
		} else if a.udp && len(a.ip) == 16 && net.IP(a.ip).To4() != nil {
			b.ip = []byte(net.IP(a.ip).To4())
		} else {
			b = randAddr(r)
		}
	case 3: // the other kind of address carrying the same bytes
		if a.udp {
			b = tokAddr{s: string(a.ip)}
		} else {
			b = tokAddr{udp: true, ip: []byte(a.s)}
		}
	default:
		b = randAddr(r)
	}
	return b
}

// tokenTable: issuing address family x presenting address (same / same host other representation / other host of
// every family) x token kind x age on both sides of the lifetime x VerifySourceAddress, plus the basic forgeries.
func tokenTable() []tokFix {
	v4 := tokAddr{udp: true, ip: []byte{10, 0, 0, 1}, port: 1000}
	v4b := tokAddr{udp: true, ip: []byte{10, 0, 0, 2}, port: 1000}
	v4mapped := tokAddr{udp: true, ip: []byte(net.IPv4(10, 0, 0, 1)), port: 1000} // ::ffff:10.0.0.1, 16 bytes
	v4mappedB := tokAddr{udp: true, ip: []byte(net.IPv4(10, 0, 0, 2)), port: 1000}
	v6 := tokAddr{udp: true, ip: append([]byte{0x20, 0x01, 0x0d, 0xb8}, make([]byte, 12)...), port: 1000}
	v6b := tokAddr{udp: true, ip: append([]byte{0x20, 0x01, 0x0d, 0xb8}, append(make([]byte, 11), 1)...), port: 1000}
	str := tokAddr{s: "10.0.0.1:1000"}
	strB := tokAddr{s: "10.0.0.2:1000"}
	fam := []tokAddr{v4, v4mapped, v6, str}
	others := []tokAddr{v4, v4b, v4mapped, v4mappedB, v6, v6b, str, strB}
	var t []tokFix
	for _, isRetry := range []bool{true, false} {
		for _, a0 := range fam {
			for _, ageSel := range []int{0, 2, 4} { // fresh, exactly at the lifetime, one nanosecond past it
				for _, vs := range []int{1, -1} {
					t = append(t, tokFix{isRetry, a0, a0, 15, ageSel, vs})
				}
			}
			samePortOther := a0
			samePortOther.port = 2000 // another port of the same address
			t = append(t, tokFix{isRetry, a0, samePortOther, 15, 0, 1})
			for _, a1 := range others {
				if !sameRepr(a0, a1) {
					t = append(t, tokFix{isRetry, a0, a1, 15, 0, 1}) // fresh token, other address
				}
			}
			for _, m := range []int{0, 1, 3, 5, 6, 9, 9, 9} { // truncated, bit flip, foreign key, extended, empty, sealed with 21+-byte connection IDs (Retry only)
				t = append(t, tokFix{isRetry, a0, a0, m, 0, 1})
			}
		}
	}
	return t
}

func runToken(w *bufio.Writer, seed uint64, n int, _ []string) {
	r := u.NewRng(seed)
	old := crand.Reader
	crand.Reader = &rngReader{r.Fork()}
	defer func() { crand.Reader = old }()
	dist := map[string]int{}
	synctest.Run(func() {
		var k1, k2 handshake.TokenProtectorKey
		copy(k1[:], r.Bytes(32))
		copy(k2[:], r.Bytes(32))
		g1, g2 := handshake.NewTokenGenerator(k1), handshake.NewTokenGenerator(k2)
		// the decision table of validateToken / handleInitialImpl, every address family, both token kinds
		for i, fx := range tokenTable() {
			fx := fx
			tokenCase(w, r.Fork(), 1000000+i, g1, g2, dist, &fx)
		}
		for i := 0; i < n; i++ {
			tokenCase(w, r.Fork(), i, g1, g2, dist, nil)
		}
		nflip := 3
		if os.Getenv("VERIF_TIER") == "thorough" {
			nflip = 40
		}
		for i := 0; i < nflip; i++ {
			tokenFlipAll(w, r.Fork(), g1, g2, dist)
		}
	})
	keys := []string{"cases", "table", "nontrivial", "kind:retry", "kind:newtoken", "mut:none", "mut:truncate", "mut:bitflip", "mut:foreign-key", "mut:random", "mut:append", "mut:empty",
		"mut:sealed-garbage", "mut:sealed-trailing", "mut:sealed-long-cid", "mut:crafted-future", "decode:nil", "decode:error", "decode:token", "valid", "invalid:address", "invalid:expired", "age:boundary", "age:boundary+1",
		"addr:same", "addr:other-port", "addr:other-repr", "addr:other", "outcome:dropped", "outcome:invalid-token", "outcome:retry", "outcome:accept-verified", "outcome:accept-unverified", "flip-all:tokens", "flip-all:bits"}
	for _, k := range keys {
		fmt.Fprintf(w, "DIST\t%s\t%d\n", k, dist[k])
	}
}

// tokFix pins the choices of one case (fixed decision-table cases: detection must not depend on luck).
type tokFix struct {
	isRetry   bool
	a0, a1    tokAddr
	mutSel    int // value of the mutation switch (8.. = none)
	ageSel    int // value of the age switch: 0 zero, 1 life-1, 2 life, 4 life+1, 6 2*life+1s
	verifySrc int
}

func tokenCase(w *bufio.Writer, r *u.Rng, idx int, g1, g2 *handshake.TokenGenerator, dist map[string]int, fx *tokFix) {
	var human []string
	failed := map[string]bool{}
	monfail := func(key, desc string) {
		if failed[key] {
			return
		}
		failed[key] = true
		fmt.Fprintf(w, "MONFAIL\t%s\t%s\t%s\n", key, desc, strings.Join(human, " "))
	}
	defer func() {
		if e := recover(); e != nil {
			fmt.Fprintf(w, "MONFAIL\ttoken/panic\tpanic: %v\t%s\n", e, strings.Join(human, " "))
		}
	}()

	// server configuration
	maxTokenAge := time.Duration(r.Pick(int64(24*time.Hour), int64(24*time.Hour), int64(time.Hour), int64(time.Second), 1, 0))
	hsIdle := time.Duration(r.Pick(int64(5*time.Second), int64(5*time.Second), int64(time.Second), int64(10*time.Second), 1))
	retryAge := 2 * hsIdle // the documented rule: a Retry token lives for the handshake timeout = 2 x HandshakeIdleTimeout

	// issue
	isRetry := r.Bool()
	a0 := randAddr(r)
	if fx != nil {
		isRetry, a0 = fx.isRetry, fx.a0
		maxTokenAge, hsIdle = time.Hour, 5*time.Second
		retryAge = 2 * hsIdle
		dist["table"]++
	}
	odcid := r.Bytes(int(r.Pick(0, 4, 8, 8, 12, 20)))
	rscid := r.Bytes(int(r.Pick(0, 4, 4, 8, 20)))
	rtt := time.Duration(r.Pick(0, 1, 999, 1000, 1500, 33_000_000, 250_000_000, 7_000_000_000)) // ns
	t0 := time.Now()
	var tok []byte
	var err error
	if isRetry {
		tok, err = g1.NewRetryToken(a0.net(), quicCID(odcid), quicCID(rscid))
		dist["kind:retry"]++
	} else {
		tok, err = g1.NewToken(a0.net(), rtt)
		dist["kind:newtoken"]++
	}
	if err != nil {
		monfail("token/issue-error", "issuing a token failed: "+err.Error())
		return
	}
	human = append(human, fmt.Sprintf("issue(retry=%v,%s,odcid=%x,rscid=%x,rtt=%d)", isRetry, a0, odcid, rscid, rtt))
	issuedTs := t0.UnixNano()

	// mutate
	presented := append([]byte{}, tok...)
	mut := "none"
	mutSel := r.Intn(16)
	if fx != nil {
		mutSel = fx.mutSel
	}
	switch mutSel {
	case 0:
		cut := int(r.Pick(1, 2, 31, 32, 33, int64(len(tok)-1), int64(len(tok)-16), int64(r.Range(1, len(tok)-1))))
		presented = presented[:cut]
		mut = fmt.Sprintf("truncate(%d)", cut)
		dist["mut:truncate"]++
	case 1, 2:
		bit := r.Intn(len(tok) * 8)
		presented[bit/8] ^= 1 << uint(bit%8)
		mut = fmt.Sprintf("bitflip(%d)", bit)
		dist["mut:bitflip"]++
	case 3:
		if isRetry {
			presented, _ = g2.NewRetryToken(a0.net(), quicCID(odcid), quicCID(rscid))
		} else {
			presented, _ = g2.NewToken(a0.net(), rtt)
		}
		mut = "foreign-key"
		dist["mut:foreign-key"]++
	case 4:
		presented = r.Bytes(int(r.Pick(1, 16, 31, 32, 33, 48, 49, int64(len(tok)))))
		mut = fmt.Sprintf("random(%d)", len(presented))
		dist["mut:random"]++
	case 5:
		presented = append(presented, r.Bytes(r.Range(1, 3))...)
		mut = "append"
		dist["mut:append"]++
	case 6:
		presented = nil
		mut = "empty"
		dist["mut:empty"]++
	case 7: // only the key holder can do these: they reach the asn1 error branches behind the AEAD
		if r.Bool() {
			presented, _ = handshake.VerifTokenSeal(g1, r.Bytes(r.Range(0, 40)))
			mut = "sealed-garbage"
			dist["mut:sealed-garbage"]++
		} else {
			plain, _ := handshake.VerifTokenMarshal(isRetry, handshake.VerifEncodeRemoteAddr(a0.net()), issuedTs, rtt.Microseconds(), odcid, rscid)
			presented, _ = handshake.VerifTokenSeal(g1, append(plain, r.Bytes(r.Range(1, 3))...))
			mut = "sealed-trailing"
			dist["mut:sealed-trailing"]++
		}
	case 8: // a token from the future (clock stepped back): crafted with the key
		issuedTs = t0.UnixNano() + int64(r.Pick(1, int64(time.Hour)))
		plain, _ := handshake.VerifTokenMarshal(isRetry, handshake.VerifEncodeRemoteAddr(a0.net()), issuedTs, rtt.Microseconds(), odcid, rscid)
		presented, _ = handshake.VerifTokenSeal(g1, plain)
		mut = "crafted-future"
		dist["mut:crafted-future"]++
	case 9: // a correctly sealed Retry token whose record carries a connection ID of more than 20 bytes (only the key
		// holder can make one): DecodeToken must refuse it (it used to panic in protocol.ParseConnectionID)
		if isRetry {
			longO, longR := odcid, rscid
			switch r.Intn(3) {
			case 0:
				longO = r.Bytes(int(r.Pick(21, 21, 22, 255)))
			case 1:
				longR = r.Bytes(int(r.Pick(21, 21, 64)))
			default:
				longO, longR = r.Bytes(21), r.Bytes(21)
			}
			plain, _ := handshake.VerifTokenMarshal(true, handshake.VerifEncodeRemoteAddr(a0.net()), issuedTs, 0, longO, longR)
			presented, _ = handshake.VerifTokenSeal(g1, plain)
			mut = "sealed-long-cid"
			dist["mut:sealed-long-cid"]++
		} else {
			dist["mut:none"]++
		}
	default:
		dist["mut:none"]++
	}
	genuine := mut == "none" || mut == "crafted-future"
	human = append(human, mut)

	// present: where from, how much later
	a1 := a0
	switch r.Intn(5) {
	case 0, 1:
	default:
		a1 = nearAddr(r, a0)
	}
	if fx != nil {
		a1 = fx.a1
	}
	life := maxTokenAge
	if isRetry {
		life = retryAge
	}
	var age time.Duration
	ageSel := r.Intn(8)
	if fx != nil {
		ageSel = fx.ageSel
	}
	switch ageSel {
	case 0:
		age = 0
	case 1:
		age = life - 1
	case 2, 3:
		age = life
		dist["age:boundary"]++
	case 4, 5:
		age = life + 1
		dist["age:boundary+1"]++
	case 6:
		age = 2*life + time.Second
	default:
		age = time.Duration(r.Intn(int(life/time.Microsecond)+2)) * time.Microsecond
	}
	if age < 0 {
		age = 0
	}
	time.Sleep(age)
	now := time.Now()
	if now.Sub(t0) != age {
		monfail("token/harness-clock", fmt.Sprintf("fake clock moved by %v instead of %v", now.Sub(t0), age))
	}
	verifySrc := int(r.Pick(-1, 0, 1, 1))
	dcid := r.Bytes(int(r.Pick(0, 4, 7, 8, 8, 12, 20)))
	if fx != nil {
		verifySrc = fx.verifySrc
		dcid = []byte{1, 2, 3, 4, 5, 6, 7, 8}
	}
	human = append(human, fmt.Sprintf("present(from=%s,age=%d,maxTokenAge=%d,hsIdle=%d,verifySrc=%d,dcid=%x,token=%x)", a1, age, maxTokenAge, hsIdle, verifySrc, dcid, presented))

	// ---- implementation ----
	dec, derr := g1.DecodeToken(presented)
	class := 2
	switch {
	case derr != nil:
		class = 1
		dist["decode:error"]++
	case dec == nil:
		class = 0
		dist["decode:nil"]++
	default:
		dist["decode:token"]++
	}
	if derr != nil && dec != nil {
		monfail("token/decode-both", "DecodeToken returned a token together with an error")
	}
	tokTerm := "None"
	valid := false
	if class == 2 {
		valid = quic.VerifValidateToken(dec, a1.net(), maxTokenAge, hsIdle)
		tokTerm = u.Opt(true, u.App("Tok", u.B(dec.IsRetryToken), u.Z(dec.SentTime.UnixNano()), tokHxs(handshake.VerifTokenAddr(dec)),
			tokHxs(dec.OriginalDestConnectionID.Bytes()), tokHxs(dec.RetrySrcConnectionID.Bytes()), u.Z(int64(dec.RTT))))
	}
	if quic.VerifValidateToken(nil, a1.net(), maxTokenAge, hsIdle) {
		monfail("token/nil-valid", "validateToken(nil) = true")
	}
	out := quic.VerifHandleInitialToken(g1, presented, a1.net(), dcid, maxTokenAge, hsIdle, verifySrc)

	// ---- property monitors (independent of the model) ----
	expired := now.UnixNano()-issuedTs > int64(life)
	if !genuine {
		// (c) truncated / flipped / foreign-key / random / extended tokens are never a proof of address
		if class == 2 && (mut != "sealed-garbage" && mut != "sealed-trailing" && mut != "sealed-long-cid") {
			monfail("token/forgery-decodes", "a mutated token decoded to a token")
		}
		if class == 2 && (mut == "sealed-garbage" || mut == "sealed-trailing" || mut == "sealed-long-cid") {
			monfail("token/malformed-plaintext-decodes", "a sealed but malformed record decoded to a token")
		}
		if mut == "empty" && class != 0 {
			monfail("token/empty-not-absent", "an empty token is not treated as absent")
		}
		if mut != "empty" && class != 1 {
			monfail("token/forgery-no-error", "a mutated token did not decode to an error")
		}
		if out.Kind == 3 && out.AddrVerified {
			monfail("token/forgery-verifies", "a connection was created with clientAddressValidated=true from a mutated token")
		}
		if out.Kind == 1 {
			monfail("token/forgery-invalid-token", "a mutated token is answered with INVALID_TOKEN instead of being ignored")
		}
	} else {
		if class != 2 {
			monfail("token/genuine-rejected", "a genuine token does not decode")
		} else {
			// (b) validates only for the issuing address and within the lifetime
			if valid && !sameHost(a0, a1) {
				monfail("token/other-address-valid", "token validates for another address")
			}
			if valid && expired {
				monfail("token/expired-valid", "token validates after its lifetime")
			}
			if !valid && sameRepr(a0, a1) && !expired {
				monfail("token/genuine-invalid", "token for the same address within its lifetime does not validate")
			}
			// (b) the token carries back exactly what it was issued with
			if dec.IsRetryToken != isRetry || dec.SentTime.UnixNano() != issuedTs {
				monfail("token/fields", "decoded kind / timestamp differ from the issued ones")
			}
			if isRetry && (!bytes.Equal(dec.OriginalDestConnectionID.Bytes(), odcid) || !bytes.Equal(dec.RetrySrcConnectionID.Bytes(), rscid)) {
				monfail("token/retry-cids", "Retry token does not return the connection IDs it was issued with")
			}
			if !isRetry && dec.RTT != time.Duration(rtt.Microseconds())*time.Microsecond {
				monfail("token/rtt", "NEW_TOKEN token does not return its RTT (to the microsecond)")
			}
			// server level
			if out.Kind == 3 && out.AddrVerified != valid {
				monfail("token/server-verified", "connection's clientAddressValidated differs from validateToken")
			}
			if out.Kind == 3 && out.AddrVerified && isRetry && (!out.HasRSCID || !bytes.Equal(out.ODCID, odcid) || !bytes.Equal(out.RSCID, rscid)) {
				monfail("token/server-retry-cids", "connection created from a Retry token does not get the token's connection IDs")
			}
			if out.Kind == 3 && out.AddrVerified && !isRetry && (out.HasRSCID || !bytes.Equal(out.ODCID, dcid) || out.RTT != int64(time.Duration(rtt.Microseconds())*time.Microsecond)) {
				monfail("token/server-newtoken-fields", "connection created from a NEW_TOKEN token: original DCID must be the packet's, no Retry SCID, RTT the token's")
			}
			if isRetry && !valid && out.Kind != 1 {
				monfail("token/invalid-retry-not-rejected", "an invalid/expired Retry token is not answered with INVALID_TOKEN")
			}
			if !isRetry && !valid && out.Kind == 3 && (out.AddrVerified || out.RTT != 0 || out.HasRSCID || !bytes.Equal(out.ODCID, dcid)) {
				monfail("token/invalid-newtoken-used", "an invalid NEW_TOKEN token influenced the new connection")
			}
		}
	}
	if out.Kind == 3 && out.AddrVerified && !(genuine && valid) {
		monfail("token/verified-without-valid-token", "clientAddressValidated=true without a valid genuine token")
	}
	if out.Kind == 4 {
		monfail("token/outcome-unknown", "handleInitialImpl ended in none of the expected ways")
	}

	// ---- case for the model ----
	switch {
	case class == 2 && valid:
		dist["valid"]++
	case class == 2 && !sameRepr(a0, a1):
		dist["invalid:address"]++
	case class == 2:
		dist["invalid:expired"]++
	}
	switch {
	case sameRepr(a0, a1) && a0.udp && a0.port != a1.port:
		dist["addr:other-port"]++
	case sameRepr(a0, a1):
		dist["addr:same"]++
	case sameHost(a0, a1):
		dist["addr:other-repr"]++
	default:
		dist["addr:other"]++
	}
	dist[[]string{"outcome:dropped", "outcome:invalid-token", "outcome:retry", "outcome:accept", "outcome:other"}[out.Kind]]++
	if out.Kind == 3 {
		if out.AddrVerified {
			dist["outcome:accept-verified"]++
		} else {
			dist["outcome:accept-unverified"]++
		}
	}
	plain, opened := handshake.VerifTokenOpen(g1, presented)
	openT, recT := "None", "None"
	if opened {
		openT = u.Opt(true, tokHxs(plain))
		rec := handshake.VerifTokenUnmarshal(plain)
		if rec.OK {
			recT = u.Opt(true, u.Pair(u.App("Rec", u.B(rec.IsRetry), tokHxs(rec.Addr), u.Z(rec.Ts), u.Z(rec.RTT), tokHxs(rec.ODCID), tokHxs(rec.RSCID)), u.Z(int64(rec.RestLen))))
		}
	}
	outT := u.App("Out", u.Z(int64(out.Kind)), u.B(out.AddrVerified), tokHxs(out.ODCID), u.Opt(out.HasRSCID, tokHxs(out.RSCID)), u.Z(out.RTT))
	nt := 0
	if class == 2 {
		nt = 1
		dist["nontrivial"]++
	}
	dist["cases"]++
	fmt.Fprintf(w, "CASE %d %s\n", nt, u.App("TokCase", tokHxs(presented), openT, recT, a1.coq(), u.Z(now.UnixNano()), u.Z(int64(maxTokenAge)), u.Z(int64(hsIdle)),
		u.Z(int64(verifySrc)), tokHxs(dcid), u.Z(int64(class)), tokTerm, u.B(valid), outT))
	if idx < 3 {
		fmt.Fprintf(w, "SAMPLE\t%s => decode=%d valid=%v outcome=%d verified=%v\n", strings.Join(human, " "), class, valid, out.Kind, out.AddrVerified)
	}
}

// Every single-bit flip and every truncation of a valid token, and the same token sealed
// under another key: never a token (monitor only).
func tokenFlipAll(w *bufio.Writer, r *u.Rng, g1, g2 *handshake.TokenGenerator, dist map[string]int) {
	defer func() {
		if e := recover(); e != nil {
			fmt.Fprintf(w, "MONFAIL\ttoken/panic\tpanic in DecodeToken of a mutated token: %v\t-\n", e)
		}
	}()
	a0 := randAddr(r)
	var tok []byte
	if r.Bool() {
		tok, _ = g1.NewRetryToken(a0.net(), quicCID(r.Bytes(8)), quicCID(r.Bytes(4)))
	} else {
		tok, _ = g1.NewToken(a0.net(), 33*time.Millisecond)
	}
	dist["flip-all:tokens"]++
	if t, err := g1.DecodeToken(tok); err != nil || t == nil {
		fmt.Fprintf(w, "MONFAIL\ttoken/genuine-rejected\ta genuine token does not decode\t%x\n", tok)
	}
	if t, err := g2.DecodeToken(tok); err == nil || t != nil {
		fmt.Fprintf(w, "MONFAIL\ttoken/forgery-decodes\ttoken decodes under another key\t%x\n", tok)
	}
	for bit := 0; bit < len(tok)*8; bit++ {
		m := append([]byte{}, tok...)
		m[bit/8] ^= 1 << uint(bit%8)
		dist["flip-all:bits"]++
		if t, err := g1.DecodeToken(m); err == nil || t != nil {
			fmt.Fprintf(w, "MONFAIL\ttoken/forgery-decodes\ttoken with bit %d flipped decodes to a token\t%x\n", bit, tok)
			break
		}
	}
	for cut := 1; cut < len(tok); cut++ {
		if t, err := g1.DecodeToken(tok[:cut]); err == nil || t != nil {
			fmt.Fprintf(w, "MONFAIL\ttoken/forgery-decodes\ttoken truncated to %d bytes decodes to a token\t%x\n", cut, tok)
			break
		}
	}
}
