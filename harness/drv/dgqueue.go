//go:build verif

package main

// Unit `dgqueue` (property C01, claim (d) "delivered datagrams are unmodified and delivered at most
// once"): the real datagramQueue of /repo/datagram_queue.go under generated op lists (Add bursts that
// fill the 32-entry send ring so that Add parks — a goroutine in a synctest bubble —, Peek/Pop as the
// packer does, HandleDatagramFrame bursts beyond the 128-entry receive queue, Receive, Close).
// Monitors (model-independent):
//   dgqueue/recv   what Receive returned is not an in-order, duplicate-free, unmodified selection of what was handled
//   dgqueue/send   what Peek/Pop handed out is not a prefix of what Add accepted, in order
//   dgqueue/bound  a queue grew beyond its limit
//   dgqueue/add    Add parked although there was room, or returned although the ring was full
//   dgqueue/panic

import (
	"bufio"
	"bytes"
	"fmt"
	"strings"
	"testing/synctest"

	quic "github.com/refraction-networking/uquic"
	u "github.com/refraction-networking/uquic/internal/verifutil"
)

func init() { units["dgqueue"] = runDgQueue }

const (
	dgSendCap = 32  // maxDatagramSendQueueLen (cross-checked: Gen/Params.v dgMaxSendQueueLen)
	dgRcvCap  = 128 // maxDatagramRcvQueueLen
)

func runDgCase(w *bufio.Writer, seed uint64, idx int, r *u.Rng) bool {
	var ops, desc []string
	failed := map[string]bool{}
	fail := func(key, d string) {
		if failed[key] {
			return
		}
		failed[key] = true
		fmt.Fprintf(w, "MONFAIL\t%s\t%s\tseed=%d case=%d ops=[%s]\n", key, d, seed, idx, strings.Join(desc, " "))
	}
	var final string
	err := inBubble(func() {
		q := quic.VerifNewDgQueue()
		var added, popped, handled, received [][]byte
		var parkedData []byte
		parked := false
		done := make(chan error, 1)
		closed := false
		emit := func(term, d string, res int64, data []byte, f func()) {
			desc = append(desc, d)
			f()
			synctest.Wait()
			addres := int64(0)
			if parked {
				select {
				case e := <-done:
					parked = false
					if e == nil {
						addres = 1
						added = append(added, parkedData)
					} else {
						addres = 2
					}
				default:
				}
			}
			sum := int64(0)
			if res == 3 {
				sum = ssSum(data)
			}
			ops = append(ops, u.Pair(term, u.App("mkDO", u.Z(res), u.Z(int64(len(data))), u.Z(sum), u.Z(addres))))
			s, rc := q.Lens()
			if s > dgSendCap || rc > dgRcvCap {
				fail("dgqueue/bound", fmt.Sprintf("send queue %d (limit %d), receive queue %d (limit %d)", s, dgSendCap, rc, dgRcvCap))
			}
			if parked && !closed && s < dgSendCap {
				// a parked Add may lag behind a Pop only until it is scheduled; synctest.Wait ran it
				fail("dgqueue/add", fmt.Sprintf("Add still parked although the send queue holds %d < %d", s, dgSendCap))
			}
		}
		nops := r.Range(5, 60)
		mode := r.Intn(4) // 0 mixed, 1 fill the send ring, 2 flood the receive queue, 3 long mixed
		if mode == 3 {
			nops = r.Range(150, 320)
		}
		if mode == 2 { // enough HandleDatagramFrame calls to overflow the receive queue
			nops = r.Range(150, 260)
		}
		for k := 0; k < nops; k++ {
			x := r.Intn(100)
			if mode == 1 && x < 60 {
				x = 0
			}
			if mode == 2 && x < 70 {
				x = 50
			}
			switch {
			case x < 30: // Add
				if parked {
					continue
				}
				n, sd := r.Range(0, 40), int64(r.Intn(1<<24))
				data := ssGenData(n, sd)
				sBefore, _ := q.Lens()
				emit(u.App("CAdd", u.Z(int64(n)), u.Z(sd)), fmt.Sprintf("Add(%d)", n), 0, nil, func() {
					parked = true
					parkedData = data
					go func() { done <- q.Add(data) }()
				})
				if parked && sBefore < dgSendCap {
					fail("dgqueue/add", fmt.Sprintf("Add parked although the send queue held %d < %d", sBefore, dgSendCap))
				}
				if !parked && sBefore >= dgSendCap && !closed {
					fail("dgqueue/add", fmt.Sprintf("Add returned although the send queue was full (%d)", sBefore))
				}
			case x < 40: // Peek
				d, ok := q.Peek()
				res := int64(4)
				if ok {
					res = 3
					if len(popped) >= len(added) || !bytes.Equal(d, added[len(popped)]) {
						fail("dgqueue/send", "Peek returned a datagram that is not the oldest accepted one")
					}
				}
				emit("CPeek", "Peek", res, d, func() {})
			case x < 50: // Pop (only after a successful Peek, as the packer does)
				d, ok := q.Peek()
				if !ok {
					continue
				}
				popped = append(popped, d)
				if len(popped) > len(added) || !bytes.Equal(d, added[len(popped)-1]) {
					fail("dgqueue/send", "Pop removed a datagram out of order")
				}
				emit("CPop", "Pop", 0, nil, func() { q.Pop() })
			case x < 80: // HandleDatagramFrame
				n, sd := r.Range(0, 40), int64(r.Intn(1<<24))
				data := ssGenData(n, sd)
				handled = append(handled, append([]byte{}, data...))
				emit(u.App("CHandle", u.Z(int64(n)), u.Z(sd)), fmt.Sprintf("Handle(%d)", n), 0, nil, func() { q.Handle(data) })
			case x < 98: // Receive
				var d []byte
				var ok bool
				d, ok = q.Receive()
				res := int64(4)
				if ok {
					res = 3
					received = append(received, d)
				}
				emit("CReceive", "Receive", res, d, func() {})
			default:
				if closed {
					continue
				}
				closed = true
				emit("CCloseQ", "Close", 0, nil, func() { q.Close() })
			}
		}
		// received must embed into handled: in order, unmodified, at most once
		j := 0
		for _, d := range received {
			for j < len(handled) && !bytes.Equal(handled[j], d) {
				j++
			}
			if j == len(handled) {
				fail("dgqueue/recv", fmt.Sprintf("a received datagram (%d bytes) is not an unmodified, in-order, not-yet-delivered handled datagram", len(d)))
				break
			}
			j++
		}
		s, rc := q.Lens()
		final = fmt.Sprintf("%d %d %s", s, rc, u.B(parked))
		if parked { // release the parked Add so that the bubble can end
			if !closed {
				q.Close()
			}
			synctest.Wait()
		}
	})
	if err != nil {
		fail("dgqueue/panic", err.Error())
		return false
	}
	fmt.Fprintf(w, "CASE 1 (DGCase %s %s)\n", u.List(ops), final)
	if idx < 1 {
		fmt.Fprintf(w, "SAMPLE\tops=[%s]\n", strings.Join(desc, " "))
	}
	return true
}

func runDgQueue(w *bufio.Writer, seed uint64, n int, _ []string) {
	r := u.NewRng(ssMix(seed) ^ 0x5555)
	for i := 0; i < n; i++ {
		runDgCase(w, seed, i, r.Fork())
	}
	fmt.Fprintf(w, "DIST\tcases\t%d\n", n)
}
