//go:build verif

// verifdrv: the Go side of the correspondence checks. It is compiled INTO /repo's
// module through `go build -tags verif -overlay`, so it always exercises the current
// working tree.
package main

import (
	"bufio"
	"fmt"
	"os"
	"strconv"
)

type unitFn func(w *bufio.Writer, seed uint64, n int, args []string)

var units = map[string]unitFn{}

func main() {
	if len(os.Args) < 2 {
		fmt.Fprintln(os.Stderr, "usage: verifdrv <unit> [seed] [n] [args...]")
		os.Exit(2)
	}
	u, ok := units[os.Args[1]]
	if !ok {
		fmt.Fprintln(os.Stderr, "unknown unit", os.Args[1])
		os.Exit(2)
	}
	var seed uint64 = 1
	n := 100
	if len(os.Args) > 2 {
		seed, _ = strconv.ParseUint(os.Args[2], 10, 64)
	}
	if len(os.Args) > 3 {
		n, _ = strconv.Atoi(os.Args[3])
	}
	var rest []string
	if len(os.Args) > 4 {
		rest = os.Args[4:]
	}
	w := bufio.NewWriterSize(os.Stdout, 1<<20)
	defer w.Flush()
	u(w, seed, n, rest)
}
