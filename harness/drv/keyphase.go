//go:build verif

package main

import (
	"bufio"
	"bytes"
	"fmt"
	"time"

	"github.com/refraction-networking/uquic/internal/handshake"
	"github.com/refraction-networking/uquic/internal/protocol"
	u "github.com/refraction-networking/uquic/internal/verifutil"
	"github.com/refraction-networking/uquic/internal/wire"
)

func init() {
	units["keyphase"] = runKeyPhase
	genSources = append(genSources, handshake.VerifKeyPhaseConsts)
}

type kpPacket struct {
	idx        int
	from       int
	pn         int64
	gen        uint64 // sender's keyPhase when sealing
	kp         protocol.KeyPhaseBit
	wirePN     int64
	pnLen      protocol.PacketNumberLen
	hdr        []byte
	ct         []byte
	pt         []byte
	ackLargest int64 // largest peer packet number the sender had opened when sending (-1: none)
	forged     bool  // sealed by the misbehaving peer, not by the endpoint
}

type kpSide struct {
	ep            *handshake.VerifUAEAD
	nextPN        int64
	largestAck    int64 // largest pn accepted by SetLargestAcked (harness' view)
	confirmed     bool
	sentInGen     map[uint64][]int64 // pns sealed per generation
	ackedOK       map[int64]bool     // pns for which SetLargestAcked returned nil
	okCurGen      map[uint64]int     // packets opened OK whose sealing generation == own generation at that time
	rcvdLargest   int64              // largest peer pn opened OK
	openedLargest int64              // largest pn of any successfully opened packet (0 before the first, as in the code)
	confirmAt     map[uint64]int64   // time of the first OK open of a packet of generation g (starts the drop timer)
	pto3          int64
}

// runKeyPhase: a real pair of updatableAEADs exchanging packets under generated
// interleavings (reordering, duplication, loss, ACKs carried by packets, forced key
// updates through small KeyUpdateInterval / FirstKeyUpdateInterval, tampering, optimistic
// ACKs).  Each case is replayed by the Coq model; the monitors below state the property on
// the implementation's own trace.
func runKeyPhase(w *bufio.Writer, seed uint64, n int, _ []string) {
	r := u.NewRng(seed)
	dist := map[string]int{}
	kuCheck(w, r.Fork())
	kpScriptedDropThenLocalUpdate(w, r.Fork())
	for i := 0; i < n; i++ {
		kpCase(w, r.Fork(), dist, i)
	}
	ppPrintDist(w, dist)
}

func kpBit(b protocol.KeyPhaseBit) int64 {
	if b == protocol.KeyPhaseOne {
		return 1
	}
	return 0
}

func kpCase(w *bufio.Writer, r *u.Rng, dist map[string]int, caseNo int) {
	var ops []string
	desc := func() string { return u.List(ops) }
	defer func() {
		if e := recover(); e != nil {
			fmt.Fprintf(w, "MONFAIL\tkeyphase/panic\tpanic: %v\t%s\n", e, desc())
		}
	}()
	suites := handshake.VerifCipherSuiteIDs()
	suite := suites[r.Intn(len(suites))]
	version := protocol.Version1
	if r.Bool() {
		version = protocol.Version2
	}
	kui := uint64(r.Range(2, 8))
	fkui := uint64(r.Range(1, 6))
	if r.Chance(1, 6) {
		fkui = 100 // first update driven by KeyUpdateInterval
	}
	if r.Chance(1, 10) {
		kui = uint64(protocol.KeyUpdateInterval)
		fkui = uint64(r.Range(1, 3))
	}
	reset := handshake.SetKeyUpdateInterval(kui)
	oldF := handshake.FirstKeyUpdateInterval
	handshake.FirstKeyUpdateInterval = fkui
	defer func() { reset(); handshake.FirstKeyUpdateInterval = oldF }()

	rttA := time.Duration(r.Pick(0, 0, 5, 40)) * time.Millisecond
	rttB := time.Duration(r.Pick(0, 0, 5, 40)) * time.Millisecond
	secrets := [2][]byte{r.Bytes(32), r.Bytes(32)}
	a, b := handshake.VerifNewUAEADPair(suite, version, secrets[0], secrets[1], rttA, rttB)
	limit := a.InvalidPacketLimit()
	if r.Chance(1, 4) {
		limit = uint64(r.Range(1, 4))
		a.SetInvalidPacketLimit(limit)
		b.SetInvalidPacketLimit(limit)
	}
	mk := func(ep *handshake.VerifUAEAD) *kpSide {
		return &kpSide{ep: ep, nextPN: int64(r.Pick(0, 0, 1, 7, 250, 65530, 1<<31-3)), largestAck: -1,
			sentInGen: map[uint64][]int64{}, ackedOK: map[int64]bool{}, okCurGen: map[uint64]int{}, rcvdLargest: -1,
			confirmAt: map[uint64]int64{}, pto3: ep.ThreePTO()}
	}
	sides := [2]*kpSide{mk(a), mk(b)}
	connID := protocol.ParseConnectionID(r.Bytes(r.Range(0, 8)))
	var pkts []*kpPacket
	var inflight []int
	now := int64(1_000_000_000)
	conformant := true // false once the environment cheats (optimistic ACK, ACK reordering)
	nUpdates, nTamper, nErr, nForged, nKUE := 0, 0, 0, 0, 0
	adversarial := r.Chance(1, 3)
	noConfirm := r.Chance(1, 8)
	nops := r.Range(8, 40)

	pollKeyPhase := func(sd int) (protocol.KeyPhaseBit, uint64) {
		s := sides[sd]
		before := s.ep.Phase()
		bit := s.ep.KeyPhaseBit()
		after := s.ep.Phase()
		// ---- monitor: local update not early ----
		if after != before {
			nUpdates++
			ok := s.confirmed
			if before > 0 {
				acked := false
				for _, pn := range s.sentInGen[before] {
					if s.ackedOK[pn] {
						acked = true
					}
				}
				ok = ok && acked
			}
			if !ok || after != before+1 {
				fmt.Fprintf(w, "MONFAIL\tkeyphase/local-update-early\tKeyPhase() initiated update %d->%d (confirmed=%v, no acknowledged packet of phase %d)\t%s\n", before, after, s.confirmed, before, desc())
			}
		}
		if kpBit(bit) != int64(after%2) {
			fmt.Fprintf(w, "MONFAIL\tkeyphase/bit\tKeyPhase() returned bit %d in phase %d\t%s\n", kpBit(bit), after, desc())
		}
		return bit, after
	}
	send := func(sd int) {
		s := sides[sd]
		bit, after := pollKeyPhase(sd)
		pn := s.nextPN
		s.nextPN++
		if r.Chance(1, 12) {
			s.nextPN++ // a skipped packet number
		}
		l := protocol.PacketNumberLengthForHeader(protocol.PacketNumber(pn), protocol.PacketNumber(s.largestAck))
		if r.Chance(1, 6) {
			l = protocol.PacketNumberLen(r.Range(1, 4))
		}
		hdr, err := wire.AppendShortHeader(nil, connID, protocol.PacketNumber(pn), l, bit)
		if err != nil {
			panic(err)
		}
		pt := r.Bytes(r.Range(1, 24))
		ct := s.ep.Seal(pt, protocol.PacketNumber(pn), hdr)
		p := &kpPacket{idx: len(pkts), from: sd, pn: pn, gen: after, kp: bit, pnLen: l, hdr: hdr, ct: ct, pt: pt,
			wirePN: pn & (int64(1)<<(8*uint(l)) - 1), ackLargest: s.rcvdLargest}
		pkts = append(pkts, p)
		s.sentInGen[after] = append(s.sentInGen[after], pn)
		ops = append(ops, u.App("KSend", u.Z(int64(sd)), u.Z(pn), u.Z(kpBit(bit)), u.ZU(after)))
		if !r.Chance(1, 10) { // loss
			inflight = append(inflight, p.idx)
		}
	}

	// a misbehaving peer: packet from direction `from` sealed with an arbitrary key generation,
	// not bound by any of the key update rules
	pendingForge := -1
	forge := func(from int) {
		rcv := sides[1-from]
		gen := rcv.ep.Phase() + uint64(r.Pick(1, 1, 1, 2, 0))
		if r.Chance(1, 6) && gen > 0 {
			gen--
		}
		pn := sides[from].nextPN + int64(r.Pick(0, 0, 1, 5))
		if r.Chance(1, 4) {
			pn = rcv.rcvdLargest - int64(r.Intn(4))
			if pn < 0 {
				pn = 0
			}
		}
		bit := protocol.KeyPhaseZero
		if gen%2 == 1 {
			bit = protocol.KeyPhaseOne
		}
		l := protocol.PacketNumberLen(r.Range(2, 4))
		hdr, err := wire.AppendShortHeader(nil, connID, protocol.PacketNumber(pn), l, bit)
		if err != nil {
			panic(err)
		}
		pt := r.Bytes(r.Range(1, 24))
		ct := handshake.VerifSealWithGeneration(suite, version, secrets[from], gen, pt, protocol.PacketNumber(pn), hdr)
		p := &kpPacket{idx: len(pkts), from: from, pn: pn, gen: gen, kp: bit, pnLen: l, hdr: hdr, ct: ct, pt: pt,
			wirePN: pn & (int64(1)<<(8*uint(l)) - 1), ackLargest: -1, forged: true}
		pkts = append(pkts, p)
		inflight = append(inflight, p.idx)
		ops = append(ops, u.App("KForge", u.Z(int64(from)), u.ZU(gen), u.Z(pn)))
		nForged++
	}

	ack := func(sd int, pn int64, genuine bool) {
		s := sides[sd]
		phase := s.ep.Phase()
		cls := s.ep.SetLargestAcked(protocol.PacketNumber(pn))
		// ---- monitor: ACK of a current-phase packet before the peer used the new keys ----
		curPhasePkt := false
		for _, x := range s.sentInGen[phase] {
			if x <= pn {
				curPhasePkt = true
			}
		}
		expectErr := curPhasePkt && s.okCurGen[phase] == 0
		if expectErr && cls != handshake.VerifKeyUpdateError {
			fmt.Fprintf(w, "MONFAIL\tkeyphase/ack-before-peer-update\tACK for packet %d of phase %d accepted although no packet of that phase was received (class %d)\t%s\n", pn, phase, cls, desc())
		}
		if !expectErr && cls != handshake.VerifOK {
			fmt.Fprintf(w, "MONFAIL\tkeyphase/ack-spurious-error\tACK for packet %d rejected with class %d in phase %d\t%s\n", pn, cls, phase, desc())
		}
		if cls == handshake.VerifOK {
			s.ackedOK[pn] = true
			if pn > s.largestAck {
				s.largestAck = pn
			}
		} else {
			nErr++
		}
		ops = append(ops, u.App("KAck", u.Z(int64(sd)), u.Z(pn), u.B(cls != handshake.VerifOK)))
	}

	deliver := func(pi int) {
		p := pkts[pi]
		sd := 1 - p.from
		s := sides[sd]
		ct := append([]byte{}, p.ct...)
		hdr := append([]byte{}, p.hdr...)
		kp := p.kp
		wirePN := p.wirePN
		pnLen := p.pnLen
		ctOK, adOK := true, true
		tam := 0
		if adversarial && r.Chance(1, 4) || r.Chance(1, 25) {
			tam = r.Range(1, 5)
		}
		switch tam {
		case 1: // flip one ciphertext bit
			ct[r.Intn(len(ct))] ^= 1 << uint(r.Intn(8))
			ctOK = false
		case 2: // truncate / extend the ciphertext
			if r.Bool() && len(ct) > 1 {
				ct = ct[:len(ct)-1-r.Intn(min(len(ct)-1, 3))]
			} else {
				ct = append(ct, byte(r.Intn(256)))
			}
			ctOK = false
		case 3: // flip a bit of the connection ID / pn bytes (associated data)
			if len(hdr) > 1 {
				hdr[1+r.Intn(len(hdr)-1)] ^= 1 << uint(r.Intn(8))
				adOK = false
				_, t, _, _, _ := wire.ParseShortHeader(append(append([]byte{}, hdr...), 0, 0, 0, 0), connID.Len())
				wirePN = int64(t)
			}
		case 4: // flip the key phase bit in the header
			hdr[0] ^= 0x4
			adOK = false
			if kp == protocol.KeyPhaseOne {
				kp = protocol.KeyPhaseZero
			} else {
				kp = protocol.KeyPhaseOne
			}
		case 5: // header of another packet of the same sender (replayed header, foreign payload)
			var cands []*kpPacket
			for _, q := range pkts {
				if q.from == p.from && q.idx != p.idx && !bytes.Equal(q.hdr, p.hdr) {
					cands = append(cands, q)
				}
			}
			if len(cands) > 0 {
				q := cands[r.Intn(len(cands))]
				hdr = append([]byte{}, q.hdr...)
				kp, wirePN = q.kp, q.wirePN
				adOK = false
				pnLen = q.pnLen
			} else {
				tam = 0
			}
		}
		if tam != 0 {
			nTamper++
		}
		before := s.ep.Phase()
		hadSent := len(s.sentInGen[before]) > 0
		pn := s.ep.DecodePacketNumber(protocol.PacketNumber(wirePN), pnLen)
		dec, cls := s.ep.Open(ct, now, pn, kp, hdr)
		after := s.ep.Phase()
		// ---- monitors ----
		if cls == handshake.VerifOK && int64(pn) > s.openedLargest {
			s.openedLargest = int64(pn)
		}
		if int64(s.ep.HighestRcvd()) != s.openedLargest {
			fmt.Fprintf(w, "MONFAIL\tkeyphase/highest-rcvd\thighest received packet number is %d, the largest successfully opened one is %d\t%s\n", s.ep.HighestRcvd(), s.openedLargest, desc())
		}
		if cls == handshake.VerifOK {
			if tam != 0 {
				fmt.Fprintf(w, "MONFAIL\tkeyphase/tamper-accepted\ttampered packet #%d (mode %d) was opened\t%s\n", p.idx, tam, desc())
			} else if !bytes.Equal(dec, p.pt) {
				fmt.Fprintf(w, "MONFAIL\tkeyphase/wrong-plaintext\tpacket #%d opened to different plaintext\t%s\n", p.idx, desc())
			}
		}
		if after != before {
			nUpdates++
			if adversarial && r.Chance(1, 2) {
				pendingForge = p.from
			}
			if after != before+1 || cls != handshake.VerifOK || (before > 0 && !hadSent) {
				fmt.Fprintf(w, "MONFAIL\tkeyphase/remote-update-early\tOpen moved phase %d->%d (class %d, sent-in-phase=%v)\t%s\n", before, after, cls, hadSent, desc())
			}
			if p.gen != after {
				fmt.Fprintf(w, "MONFAIL\tkeyphase/remote-update-wrong-gen\tpacket of generation %d moved receiver to phase %d\t%s\n", p.gen, after, desc())
			}
		}
		if cls == handshake.VerifKeyUpdateError {
			nKUE++
		}
		if cls == handshake.VerifKeyUpdateError && !(before > 0 && !hadSent && p.gen == before+1) {
			fmt.Fprintf(w, "MONFAIL\tkeyphase/spurious-key-update-error\tKEY_UPDATE_ERROR for a packet of generation %d in phase %d (sent-in-phase=%v)\t%s\n", p.gen, before, hadSent, desc())
		}
		if tam == 0 && int64(pn) == p.pn && conformant {
			// genuine packet, number recovered: must open inside the window
			mustOpen := false
			switch {
			case p.gen == before:
				mustOpen = true
			case p.gen == before+1 && (before == 0 || hadSent):
				mustOpen = true
			case p.gen+1 == before:
				t0, confirmedGen := s.confirmAt[before]
				mustOpen = !confirmedGen || now <= t0+s.pto3
			}
			if mustOpen && cls != handshake.VerifOK {
				fmt.Fprintf(w, "MONFAIL\tkeyphase/roundtrip\tgenuine packet #%d (generation %d, pn %d) delivered in phase %d inside the window was rejected with class %d\t%s\n", p.idx, p.gen, p.pn, before, cls, desc())
			}
			if d := int64(p.gen) - int64(before); d > 1 {
				fmt.Fprintf(w, "MONFAIL\tkeyphase/phase-distance\tpacket of generation %d delivered to an endpoint in phase %d although all ACKs were honest\t%s\n", p.gen, before, desc())
			}
		}
		if cls == handshake.VerifOK {
			if p.gen == after {
				if _, ok := s.confirmAt[after]; !ok {
					s.confirmAt[after] = now
				}
				if p.gen == before {
					s.okCurGen[after]++
				}
			}
			// ACKs are only ever processed for packet numbers the endpoint really sent (the sent
			// packet handler rejects the others before SetLargest1RTTAcked is reached)
			if int64(pn) > s.rcvdLargest && !p.forged {
				s.rcvdLargest = int64(pn)
			}
		} else {
			nErr++
		}
		ops = append(ops, u.App("KDeliver", u.Z(int64(sd)), u.Z(int64(p.idx)), u.Z(now), u.Z(s.pto3), u.Z(wirePN), u.Z(int64(pnLen)),
			u.Z(kpBit(kp)), u.B(ctOK), u.B(adOK), u.Z(int64(pn)), u.Z(int64(cls)), u.ZU(after), u.B(s.ep.HasPrevKeys())))
		// the ACK frame the packet carries is processed after a successful open
		if cls == handshake.VerifOK && tam == 0 && p.ackLargest >= 0 && p.ackLargest != s.largestAck {
			if p.ackLargest < s.largestAck {
				// reordered ACK: the stack only calls SetLargest1RTTAcked when something new is acked; skip
				return
			}
			ack(sd, p.ackLargest, true)
		}
	}

	for step := 0; step < nops; step++ {
		if pendingForge >= 0 {
			// the peer of an endpoint that just accepted a key update immediately updates again
			from := pendingForge
			pendingForge = -1
			conformant = false
			forge(from)
			if r.Chance(3, 4) {
				pi := inflight[len(inflight)-1]
				inflight = inflight[:len(inflight)-1]
				deliver(pi)
			}
			continue
		}
		now += int64(r.Pick(0, 1, 1, 20, 20, 150, 400, 700)) * 1_000_000
		c := r.Intn(100)
		sd := r.Intn(2)
		switch {
		case !noConfirm && step < 6 && !sides[sd].confirmed && r.Chance(1, 2):
			sides[sd].ep.SetHandshakeConfirmed()
			sides[sd].confirmed = true
			ops = append(ops, u.App("KConfirm", u.Z(int64(sd))))
		case c < 45:
			send(sd)
		case c < 85:
			if len(inflight) == 0 {
				send(sd)
				continue
			}
			var k int
			switch r.Intn(3) {
			case 0:
				k = 0 // in order
			case 1:
				k = len(inflight) - 1 // newest first
			default:
				k = r.Intn(len(inflight))
			}
			pi := inflight[k]
			if !r.Chance(1, 10) { // otherwise: duplicate stays in flight
				inflight = append(inflight[:k], inflight[k+1:]...)
			}
			deliver(pi)
		case c < 90:
			// a KeyPhase() call without a following Seal (the packer asks before it knows it has data)
			bit, after := pollKeyPhase(sd)
			ops = append(ops, u.App("KPoll", u.Z(int64(sd)), u.Z(kpBit(bit)), u.ZU(after)))
		case c < 93 && adversarial:
			conformant = false
			forge(sd)
		case c < 97 && adversarial:
			// optimistic / out-of-order ACK of some packet this side sent (delivered or not)
			var own []int64
			for _, p := range pkts {
				if p.from == sd {
					own = append(own, p.pn)
				}
			}
			if len(own) == 0 {
				send(sd)
				continue
			}
			conformant = false
			ack(sd, own[r.Intn(len(own))], false)
		default:
			send(sd)
		}
	}
	nt := 0
	if nUpdates > 0 {
		nt = 1
	}
	fmt.Fprintf(w, "CASE %d %s\n", nt, u.App("KPCase", u.ZU(kui), u.ZU(fkui), u.ZU(limit), desc()))
	if caseNo < 2 {
		fmt.Fprintf(w, "SAMPLE\tkeyphase suite=%#x v=%v kui=%d fkui=%d updates=%d tampered=%d errors=%d ops=%d\n", suite, version, kui, fkui, nUpdates, nTamper, nErr, len(ops))
	}
	dist[fmt.Sprintf("kp-updates%d", min(nUpdates, 6))]++
	if nTamper > 0 {
		dist["kp-with-tamper"]++
	}
	if !conformant {
		dist["kp-optimistic-ack"]++
	}
	if nErr > 0 {
		dist["kp-with-errors"]++
	}
	if nForged > 0 {
		dist["kp-with-forged"]++
	}
	if nKUE > 0 {
		dist["kp-open-key-update-error"]++
	}
}
