//go:build verif

package main

import (
	"bufio"
	"crypto/aes"
	"crypto/cipher"
	"crypto/hmac"
	"crypto/sha256"
	"crypto/sha512"
	"encoding/binary"
	"fmt"
	"hash"

	"golang.org/x/crypto/chacha20poly1305"

	"github.com/refraction-networking/uquic/internal/handshake"
	"github.com/refraction-networking/uquic/internal/protocol"
	u "github.com/refraction-networking/uquic/internal/verifutil"
)

func init() { genSources = append(genSources, handshake.VerifLabelConsts) }

// ---- an HKDF-Expand-Label and AEAD construction that share no code with /repo ----
// (HMAC from the standard library; RFC 5869 Expand and the RFC 8446 HkdfLabel written out here)

func kuHash(suite uint16) func() hash.Hash {
	if suite == 0x1302 { // TLS_AES_256_GCM_SHA384
		return sha512.New384
	}
	return sha256.New
}

func kuExpandLabel(h func() hash.Hash, secret []byte, label string, length int) []byte {
	full := "tls13 " + label
	info := []byte{byte(length >> 8), byte(length), byte(len(full))}
	info = append(info, full...)
	info = append(info, 0) // empty context
	var out, t []byte
	for ctr := byte(1); len(out) < length; ctr++ {
		m := hmac.New(h, secret)
		m.Write(t)
		m.Write(info)
		m.Write([]byte{ctr})
		t = m.Sum(nil)
		out = append(out, t...)
	}
	return out[:length]
}

// labels per RFC 9001 (5.1, 5.4, 6.1) and RFC 9369 (3.3.2)
func kuLabels(v protocol.Version) (key, iv, hp, ku string) {
	if v == protocol.Version2 {
		return "quicv2 key", "quicv2 iv", "quicv2 hp", "quicv2 ku"
	}
	return "quic key", "quic iv", "quic hp", "quic ku"
}

func kuAEAD(suite uint16, key []byte) cipher.AEAD {
	if suite == 0x1303 { // TLS_CHACHA20_POLY1305_SHA256
		a, err := chacha20poly1305.New(key)
		if err != nil {
			panic(err)
		}
		return a
	}
	b, err := aes.NewCipher(key)
	if err != nil {
		panic(err)
	}
	a, err := cipher.NewGCM(b)
	if err != nil {
		panic(err)
	}
	return a
}

// kuOpen opens ct with the keys RFC 9001 / RFC 9369 prescribe for generation gen of secret.
func kuOpen(suite uint16, v protocol.Version, secret []byte, gen int, pn int64, ad, ct []byte) ([]byte, error) {
	h := kuHash(suite)
	hashLen, keyLen := handshake.VerifSuiteParams(suite)
	lk, li, _, lu := kuLabels(v)
	s := secret
	for i := 0; i < gen; i++ {
		s = kuExpandLabel(h, s, lu, hashLen)
	}
	key := kuExpandLabel(h, s, lk, keyLen)
	iv := kuExpandLabel(h, s, li, 12)
	nonce := append([]byte{}, iv...)
	var pnb [8]byte
	binary.BigEndian.PutUint64(pnb[:], uint64(pn))
	for i := range pnb {
		nonce[4+i] ^= pnb[i]
	}
	return kuAEAD(suite, key).Open(nil, nonce, ct, ad)
}

// kuCheck: for every cipher suite and both versions, packets sealed by the real updatableAEAD
// in key phases 0, 1 and 2 must open under the independently derived keys of that
// generation; and the next traffic secret must be HKDF-Expand-Label(secret, ku label).
func kuCheck(w *bufio.Writer, r *u.Rng) {
	for _, suite := range handshake.VerifCipherSuiteIDs() {
		for _, v := range []protocol.Version{protocol.Version1, protocol.Version2} {
			vn := "v1"
			if v == protocol.Version2 {
				vn = "v2"
			}
			func() {
				var ctx string
				defer func() {
					if e := recover(); e != nil {
						fmt.Fprintf(w, "MONFAIL\tkeyphase/ku-panic\tpanic: %v\t%s\n", e, ctx)
					}
				}()
				secrets := [2][]byte{r.Bytes(32), r.Bytes(32)}
				a, b := handshake.VerifNewUAEADPair(suite, v, secrets[0], secrets[1], 0, 0)
				a.SetHandshakeConfirmed()
				b.SetHandshakeConfirmed()
				oldF := handshake.FirstKeyUpdateInterval
				reset := handshake.SetKeyUpdateInterval(1)
				handshake.FirstKeyUpdateInterval = 1
				defer func() { reset(); handshake.FirstKeyUpdateInterval = oldF }()
				ad := []byte{0x40, 1, 2, 3}
				pn := int64(10)
				for gen := 0; gen <= 2; gen++ {
					ctx = fmt.Sprintf("suite=%#x %s write secret=%x generation=%d", suite, vn, secrets[0], gen)
					if got := a.Phase(); int(got) != gen {
						fmt.Fprintf(w, "INFO\tku check: endpoint in phase %d, wanted %d (%s)\n", got, gen, ctx)
						return
					}
					pt := r.Bytes(20)
					ct := a.Seal(pt, protocol.PacketNumber(pn), ad)
					dec, err := kuOpen(suite, v, secrets[0], gen, pn, ad, ct)
					if err != nil || string(dec) != string(pt) {
						key := "keyphase/ku-label/" + vn
						if gen == 0 {
							key = "keyphase/traffic-keys/" + vn
						}
						fmt.Fprintf(w, "MONFAIL\t%s\tpacket sealed in key phase %d does not open under the keys derived per RFC 9001 6.1 / RFC 9369 3.3.2 (labels %v)\t%s pn=%d ad=%x ct=%x\n",
							key, gen, func() []string { k, i, _, ku := kuLabels(v); return []string{k, i, ku} }(), ctx, pn, ad, ct)
					}
					// the peer accepts it, acknowledges, and the sender may update again
					if _, cls := b.Open(ct, 1_000_000_000, protocol.PacketNumber(pn), map[bool]protocol.KeyPhaseBit{false: protocol.KeyPhaseZero, true: protocol.KeyPhaseOne}[gen%2 == 1], ad); cls != handshake.VerifOK {
						fmt.Fprintf(w, "INFO\tku check: peer rejected phase %d packet with class %d (%s)\n", gen, cls, ctx)
						return
					}
					back := b.Seal([]byte{1}, protocol.PacketNumber(pn), ad) // peer answers in its (now same) phase
					if _, cls := a.Open(back, 1_000_000_000, protocol.PacketNumber(pn), map[bool]protocol.KeyPhaseBit{false: protocol.KeyPhaseZero, true: protocol.KeyPhaseOne}[gen%2 == 1], ad); cls != handshake.VerifOK {
						fmt.Fprintf(w, "INFO\tku check: sender rejected the answer in phase %d with class %d (%s)\n", gen, cls, ctx)
						return
					}
					a.SetLargestAcked(protocol.PacketNumber(pn))
					pn++
					a.KeyPhaseBit() // initiates the next update (interval 1, packet of this phase acknowledged)
				}
				// secret level: model correspondence (labels from Gen/Params.v) and monitor
				hashLen, _ := handshake.VerifSuiteParams(suite)
				ts := r.Bytes(hashLen)
				next := handshake.VerifNextTrafficSecret(suite, v, ts)
				_, _, _, lu := kuLabels(v)
				if want := kuExpandLabel(kuHash(suite), ts, lu, hashLen); string(want) != string(next) {
					fmt.Fprintf(w, "MONFAIL\tkeyphase/ku-label/%s\tnext traffic secret is not HKDF-Expand-Label(secret, %q, \"\", %d)\tsuite=%#x %s secret=%x got=%x want=%x\n", vn, lu, hashLen, suite, vn, ts, next, want)
				}
				tab := []string{}
				for _, l := range []string{"quic ku", "quicv2 ku"} {
					tab = append(tab, u.Pair(`"`+l+`"`, u.Hex(kuExpandLabel(kuHash(suite), ts, l, hashLen))))
				}
				fmt.Fprintf(w, "CASE 1 %s\n", u.App("KuCase", u.B(v == protocol.Version2), u.Hex(ts), u.Z(int64(hashLen)), u.List(tab), u.Hex(next)))
			}()
		}
	}
}
