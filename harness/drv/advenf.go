//go:build verif

package main

// advenf (C12, unit level): for every built-in QUICID, derived parameter lists and the plain
// client x generated Configs, construct the client connection exactly as (U)Transport.dial
// does (without running it) and
//   * read what it ENFORCES: flow-controller windows, streams-map limits, the frame parser's
//     DATAGRAM switch, the idle timeout after applyTransportParameters, the CID queue bound;
//   * read what it ADVERTISES: the quic_transport_parameters extension of the ClientHello
//     its own crypto setup emits (parsed here by an independent reader), and the connection's
//     own record (ourParams / ClientOverride);
//   * drive boundary frames (STREAM at an offset, stream opening, NEW_CONNECTION_ID, DATAGRAM)
//     through Conn.handleFrames and record the transport error code.
// CASE terms go to V.AdvEnf.Run. Monitors (model-independent):
//   advenf/record-wire/...      the record of the own parameters equals the bytes sent
//   advenf/<client>/<kind>/<label>   a conformant peer pushing limit <kind> exactly to the
//                               ADVERTISED boundary gets a transport error
//                               label: default-config | cfg-below-advertised | cfg-covers-advertised

import (
	"bufio"
	"bytes"
	"fmt"
	"os"
	"sort"
	"strings"
	"time"

	quic "github.com/refraction-networking/uquic"
	"github.com/refraction-networking/uquic/internal/protocol"
	u "github.com/refraction-networking/uquic/internal/verifutil"
	"github.com/refraction-networking/uquic/internal/wire"
	"github.com/refraction-networking/uquic/quicvarint"
	tls "github.com/refraction-networking/utls"
)

func init() {
	units["advenf"] = runAdvEnf
	genSources = append(genSources, wire.VerifAdvEnfConsts, quic.VerifAdvEnfConsts, advenfGenTables)
}

// ---- independent readers -------------------------------------------------------------

type tpEntry struct {
	id  uint64
	val []byte
}

// parseTPs splits a transport parameter blob into (id, value) entries.
func parseTPs(b []byte) ([]tpEntry, bool) {
	var out []tpEntry
	for len(b) > 0 {
		id, n, err := quicvarint.Parse(b)
		if err != nil {
			return nil, false
		}
		b = b[n:]
		l, n, err := quicvarint.Parse(b)
		if err != nil {
			return nil, false
		}
		b = b[n:]
		if uint64(len(b)) < l {
			return nil, false
		}
		out = append(out, tpEntry{id, append([]byte(nil), b[:l]...)})
		b = b[l:]
	}
	return out, true
}

// chExtension returns the body of extension typ of a ClientHello handshake message.
func chExtension(ch []byte, typ uint16) ([]byte, bool) {
	if len(ch) < 4 || ch[0] != 1 {
		return nil, false
	}
	l := int(ch[1])<<16 | int(ch[2])<<8 | int(ch[3])
	b := ch[4:]
	if len(b) < l {
		return nil, false
	}
	b = b[:l]
	skip := func(n int) bool {
		if len(b) < n {
			return false
		}
		b = b[n:]
		return true
	}
	if !skip(2 + 32) {
		return nil, false
	}
	if len(b) < 1 || !skip(1+int(b[0])) {
		return nil, false
	}
	if len(b) < 2 || !skip(2+(int(b[0])<<8|int(b[1]))) {
		return nil, false
	}
	if len(b) < 1 || !skip(1+int(b[0])) {
		return nil, false
	}
	if len(b) < 2 {
		return nil, false
	}
	el := int(b[0])<<8 | int(b[1])
	b = b[2:]
	if len(b) < el {
		return nil, false
	}
	b = b[:el]
	for len(b) >= 4 {
		t := uint16(b[0])<<8 | uint16(b[1])
		n := int(b[2])<<8 | int(b[3])
		b = b[4:]
		if len(b) < n {
			return nil, false
		}
		if t == typ {
			return b[:n], true
		}
		b = b[n:]
	}
	return nil, false
}

// limit kinds, in the order used everywhere (Coq: limits record -> list)
const (
	kMaxData = iota
	kSDBidiLocal
	kSDBidiRemote
	kSDUni
	kStreamsBidi
	kStreamsUni
	kCID
	kDgram
	kIdleMs
	kUDP
	kNum
)

var kindNames = []string{"max_data", "sd_bidi_local", "sd_bidi_remote", "sd_uni", "streams_bidi", "streams_uni", "cid", "datagram", "idle", "udp", "cid_rotate", "streams_uni_after_completion", "streams_bidi_after_completion"}

// kCIDRotate: a simlimits scenario (not a component of the limit vectors): connection ID
// rotation with Retire Prior To at the advertised active_connection_id_limit.
const kCIDRotate = kNum

// further simlimits scenarios: k peer streams are completed (and deleted on the client) first,
// then the peer opens as many streams as it may rely on
const (
	kStreamsUniDone  = kNum + 1
	kStreamsBidiDone = kNum + 2
)

// transport parameter IDs (RFC 9000 section 18.2, RFC 9221) as THIS reader knows them; the
// model takes them from the generated constants instead.
var kindTPID = [kNum]uint64{0x04, 0x05, 0x06, 0x07, 0x08, 0x09, 0x0e, 0x20, 0x01, 0x03}

// advertisedOf: what a peer reads from the entries (RFC defaults for absent ones).
func advertisedOf(es []tpEntry) (a [kNum]int64, ok bool) {
	a[kCID] = 2
	a[kUDP] = 65527
	for _, e := range es {
		for k := 0; k < kNum; k++ {
			if e.id == kindTPID[k] {
				v, n, err := quicvarint.Parse(e.val)
				if err != nil || n != len(e.val) {
					return a, false
				}
				a[k] = int64(v)
			}
		}
	}
	return a, true
}

// ---- constants and tables for coq/Gen/Params.v ----------------------------------------

func advenfClientTLS() *tls.Config {
	_, _, c := simTLS()
	return c
}

func advenfGenTables() [][2]any {
	var out [][2]any
	var all []string
	for _, name := range parrotNames {
		sp, err := specFor(name)
		if err != nil {
			panic(err)
		}
		vc, err := quic.VerifAdvEnfBuild(sp, &quic.Config{}, advenfClientTLS())
		if err != nil {
			panic(fmt.Sprintf("gen: building %s: %v", name, err))
		}
		ch, err := vc.ClientHello()
		vc.Close()
		if err != nil {
			panic(fmt.Sprintf("gen: ClientHello of %s: %v", name, err))
		}
		ext, ok := chExtension(ch, 57)
		if !ok {
			panic("gen: no quic_transport_parameters extension for " + name)
		}
		es, ok := parseTPs(ext)
		if !ok {
			panic("gen: unparsable transport parameters for " + name)
		}
		// only the integer-valued parameters the model interprets, sorted by ID (the wire
		// order is shuffled and GREASE is random: neither may make Params.v unstable)
		var kv [][2]uint64
		for _, e := range es {
			for k := 0; k < kNum; k++ {
				if e.id == kindTPID[k] {
					v, _, err := quicvarint.Parse(e.val)
					if err != nil {
						panic(err)
					}
					kv = append(kv, [2]uint64{e.id, v})
				}
			}
		}
		sort.Slice(kv, func(i, j int) bool { return kv[i][0] < kv[j][0] })
		items := make([]string, len(kv))
		for i, p := range kv {
			items[i] = fmt.Sprintf("(%d, %d)", p[0], p[1])
		}
		out = append(out, [2]any{"advenf_spec_" + name, "list (Z * Z) := [" + strings.Join(items, "; ") + "]"})
		all = append(all, "advenf_spec_"+name)
	}
	out = append(out, [2]any{"advenf_all_specs", "list (list (Z * Z)) := [" + strings.Join(all, "; ") + "]"})
	d, err := quic.VerifAdvEnfPopulate(nil)
	if err != nil {
		panic(err)
	}
	out = append(out, [2]any{"advenf_default_cfg", "list Z := " + cfgList(d)})
	return out
}

func cfgList(c quic.VerifAdvEnfCfg) string {
	dg := int64(0)
	if c.EnableDatagrams {
		dg = 1
	}
	return u.List([]string{u.ZU(c.InitialStreamReceiveWindow), u.ZU(c.MaxStreamReceiveWindow), u.ZU(c.InitialConnectionReceiveWindow),
		u.ZU(c.MaxConnectionReceiveWindow), u.Z(c.MaxIncomingStreams), u.Z(c.MaxIncomingUniStreams), u.Z(dg), u.Z(c.MaxIdleTimeout)})
}

// ---- frames ---------------------------------------------------------------------------

func frStream(id uint64, off uint64, data []byte) []byte {
	b := []byte{0x08 | 0x04 | 0x02}
	b = quicvarint.Append(b, id)
	b = quicvarint.Append(b, off)
	b = quicvarint.Append(b, uint64(len(data)))
	return append(b, data...)
}

func frStreamFin(id uint64) []byte {
	b := []byte{0x08 | 0x02 | 0x01}
	b = quicvarint.Append(b, id)
	return quicvarint.Append(b, 0)
}

func frNewCID(seq uint64) []byte { return frNewCIDRPT(seq, 0) }

func frNewCIDRPT(seq, retirePriorTo uint64) []byte {
	b := []byte{0x18}
	b = quicvarint.Append(b, seq)
	b = quicvarint.Append(b, retirePriorTo)
	b = append(b, 8, byte(0xc0+seq))
	for i := 1; i < 8; i++ {
		b = append(b, byte(i))
	}
	for i := 0; i < 16; i++ {
		b = append(b, byte(seq*17+uint64(i)))
	}
	return b
}

// frDatagram: a DATAGRAM frame (type 0x30, extends to the end of the packet) whose total
// frame length is l >= 1.
func frDatagram(l int) []byte {
	b := make([]byte, l)
	b[0] = 0x30
	for i := 1; i < l; i++ {
		b[i] = byte(i)
	}
	return b
}

// ---- one probed connection --------------------------------------------------------------

type aeEvent struct {
	kind int // 0 data, 1 open, 2 cid, 3 datagram, 4 cid rotation (retire n, add one), 5 the client's own rotation,
	// harness-level (turned into the above, or into client actions, when executed):
	// 6 the application reads n bytes, 7 the peer opens+finishes the next uni stream and the application consumes it,
	// 8 data up to the window enforced NOW + n, 9 uni streams up to the limit enforced NOW + n
	// 10 data whose n bytes are really sent (contiguously), so that the application can read them
	ty int // data: 0 bidi-local 1 bidi-remote 2 uni; open: 1 bidi 2 uni
	n  int64
}

// obsRec: one entry of a case's probe list: a model event and what was observed for it
type obsRec struct {
	coq  string
	code int64
	desc string
}

func (e aeEvent) coq() string {
	switch e.kind {
	case 0, 10:
		return u.App("EvData", u.Z(int64(e.ty)), u.Z(e.n))
	case 1:
		return u.App("EvOpen", u.Z(int64(e.ty)), u.Z(e.n))
	case 2:
		return u.App("EvCID", u.Z(e.n))
	case 4:
		return u.App("EvCIDRotate", u.Z(e.n))
	case 5:
		return "EvRetireCID"
	case 12:
		return u.App("EvDgramEnc", "true", u.Z(e.n))
	case 13:
		return u.App("EvDgramEnc", "false", u.Z(e.n))
	}
	return u.App("EvDgram", u.Z(e.n))
}

func (e aeEvent) String() string {
	return fmt.Sprintf("%s(%d,%d)", []string{"data", "open", "cid", "dgram", "cid-rotate", "client-rotate", "read", "finish-uni", "data-to-window", "open-to-limit", "data-contiguous", "open-to-peer-credit", "dgram-0x31-payload", "dgram-0x30-payload"}[e.kind], e.ty, e.n)
}

// prober tracks what the (simulated) peer has used so far and turns abstract events into frames.
type prober struct {
	vc        *quic.VerifAdvEnfConn
	usedSD    [3]int64
	opened    [3]int64 // index 1 bidi, 2 uni (server-initiated): highest stream number opened
	cids      int64    // NEW_CONNECTION_ID frames sent
	localOpen bool
	trace     []string // the connection ID frames sent, for the failing-input report
	contig    [3]int64 // bytes received contiguously from offset 0 (readable)
	read      [3]int64 // bytes the application has read
	sparse    [3]bool  // a gap exists: no more contiguous data on this stream
	fail      func(key, desc string)
	adv       [kNum]int64 // what the client advertised (the peer's initial credit)
	credit    [6]int64    // game counters 0..5: the credit the peer may rely on = max(advertised, MAX_* frames seen)
	creditSet bool
	keyPrefix string // "advenf/<client>"
}

// kinds of the limit vectors for the game counters KConn, KSD0, KSD1, KSD2, KSB, KSU
var advenfCounterKind = [6]int{kMaxData, kSDBidiLocal, kSDBidiRemote, kSDUni, kStreamsBidi, kStreamsUni}

func (p *prober) peerCredit(k int) int64 {
	if !p.creditSet {
		for i, kk := range advenfCounterKind {
			p.credit[i] = p.adv[kk]
		}
		p.creditSet = true
	}
	return p.credit[k]
}

var dataStreamID = [3]uint64{0, 1, 3}

func (p *prober) do(e aeEvent) (int64, string) {
	switch e.kind {
	case 0, 10:
		if e.ty == 0 && !p.localOpen {
			if err := p.vc.OpenLocal(); err != nil {
				return -3, "OpenStream: " + err.Error()
			}
			p.localOpen = true
		}
		if e.ty != 0 && p.opened[e.ty] < 1 {
			p.opened[e.ty] = 1
		}
		if e.kind == 10 && !p.sparse[e.ty] {
			// the bytes for real, in frames that fit a packet
			chunk := make([]byte, 1100)
			for i := range chunk {
				chunk[i] = byte(i)
			}
			for left := e.n; left > 0; {
				k := min(left, int64(len(chunk)))
				code, msg := p.vc.Frames(frStream(dataStreamID[e.ty], uint64(p.usedSD[e.ty]), chunk[:k]))
				if code != 0 {
					return code, msg
				}
				p.usedSD[e.ty] += k
				p.contig[e.ty] += k
				left -= k
			}
			return 0, ""
		}
		p.sparse[e.ty] = true
		p.usedSD[e.ty] += e.n
		return p.vc.Frames(frStream(dataStreamID[e.ty], uint64(p.usedSD[e.ty]-1), []byte{0x5a}))
	case 1:
		p.opened[e.ty] += e.n
		first := uint64(1)
		if e.ty == 2 {
			first = 3
		}
		return p.vc.Frames(frStream(first+4*uint64(p.opened[e.ty]-1), 0, nil))
	case 2:
		var code int64
		var msg string
		for i := int64(0); i < e.n; i++ {
			p.cids++
			p.trace = append(p.trace, fmt.Sprintf("NEW_CONNECTION_ID{seq:%d rpt:0}", p.cids))
			code, msg = p.vc.Frames(frNewCID(uint64(p.cids)))
			if code != 0 {
				return code, msg
			}
		}
		return code, msg
	case 4:
		// one NEW_CONNECTION_ID with a fresh sequence number; Retire Prior To = the sequence number
		// in use + n: retires the ID in use and the n-1 lowest queued ones (they are contiguous)
		active, _ := p.vc.CIDState()
		p.cids++
		p.trace = append(p.trace, fmt.Sprintf("NEW_CONNECTION_ID{seq:%d rpt:%d}(client uses seq %d)", p.cids, active+uint64(e.n), active))
		return p.vc.Frames(frNewCIDRPT(uint64(p.cids), active+uint64(e.n)))
	case 5:
		p.vc.ClientRotate()
		p.trace = append(p.trace, "client switches to the next connection ID and retires seq 0")
		return 0, ""
	case 12: // DATAGRAM with a length field (type 0x31), payload of n bytes
		b := quicvarint.Append([]byte{0x31}, uint64(e.n))
		return p.vc.Frames(append(b, make([]byte, e.n)...))
	case 13: // DATAGRAM without a length field (type 0x30), payload of n bytes
		return p.vc.Frames(frDatagram(int(e.n) + 1))
	}
	return p.vc.Frames(frDatagram(int(e.n)))
}

// dgramOfSize: the event for a DATAGRAM frame of total size sz in the given encoding (false if
// no payload length gives that size with a length field)
func dgramOfSize(withLen bool, sz int64) (aeEvent, bool) {
	if !withLen {
		return aeEvent{kind: 13, n: sz - 1}, sz >= 1
	}
	for _, l := range []int64{1, 2, 4, 8} {
		p := sz - 1 - l
		if p >= 0 && int64(quicvarint.Len(uint64(p))) == l {
			return aeEvent{kind: 12, n: p}, true
		}
	}
	return aeEvent{}, false
}

// normalize adapts a connection ID event to the state of the connection: the client's own
// rotation happens once (from sequence number 0, with a spare ID), and a peer cannot retire more
// IDs than the client stores.
func (p *prober) normalize(e aeEvent) (aeEvent, bool) {
	active, queued := p.vc.CIDState()
	switch e.kind {
	case 5:
		return e, active == 0 && queued > 0
	case 4:
		if e.n > int64(1+queued) {
			e.n = int64(1 + queued)
		}
		return e, e.n >= 1
	case 8:
		// data on stream ty up to (the window the client enforces right now) + n
		if e.ty == 0 && !p.localOpen || e.ty != 0 && p.opened[e.ty] < 1 {
			return e, false
		}
		w := p.vc.EnforcedNow(1 + e.ty)
		if w < 0 || w >= 1<<61 { // offsets near 2^62 are outside the model (frame encoding limits)
			return e, false
		}
		n := w + e.n - p.usedSD[e.ty]
		return aeEvent{kind: 0, ty: e.ty, n: n}, n >= 1
	case 9:
		n := p.vc.EnforcedNow(5) + e.n - p.opened[2]
		if n > 3000 {
			return e, false
		}
		return aeEvent{kind: 1, ty: 2, n: n}, n >= 1
	case 11:
		// uni streams up to what the PEER may rely on: max(advertised, MAX_STREAMS seen) + n
		n := p.peerCredit(5) + e.n - p.opened[2]
		if n > 3000 {
			return e, false
		}
		return aeEvent{kind: 1, ty: 2, n: n}, n >= 1
	case 7:
		return e, p.opened[2] >= 1 // stream number 1 is the data stream, it is not finished
	case 6:
		return e, p.contig[e.ty]-p.read[e.ty] > 0
	}
	return e, true
}

var advenfKindCoq = []string{"KConn", "KSD0", "KSD1", "KSD2", "KSB", "KSU", "KCID"}

// flushed turns the control frames the client wants to send into the game's client events,
// each with the limit the connection enforces afterwards.
func (p *prober) flushed() (recs []obsRec, retired int) {
	for _, f := range p.vc.Flush() {
		k := -1
		var v int64
		switch fr := f.(type) {
		case *wire.MaxDataFrame:
			k, v = 0, int64(fr.MaximumData)
		case *wire.MaxStreamDataFrame:
			for i, id := range dataStreamID {
				if uint64(fr.StreamID) == id {
					k, v = 1+i, int64(fr.MaximumStreamData)
				}
			}
		case *wire.MaxStreamsFrame:
			k, v = 4, int64(fr.MaxStreamNum)
			if fr.Type == protocol.StreamTypeUni {
				k = 5
			}
		case *wire.RetireConnectionIDFrame:
			retired++
		}
		if k >= 0 {
			// property monitor: a limit the client announces must never be below what it advertised
			// before (initial transport parameter or an earlier frame): the peer relies on the maximum
			if had := p.peerCredit(k); v < had && p.fail != nil {
				suffix := "/grant-below-advertised"
				if k >= 4 {
					suffix = "/after-completion"
				}
				p.fail(p.keyPrefix+"/"+kindNames[advenfCounterKind[k]]+suffix,
					fmt.Sprintf("the client sent %T with %d although it had advertised %d before (the peer keeps relying on %d)", f, v, had, had))
			} else if v > had {
				p.credit[k] = v
			}
			now := p.vc.EnforcedNow(k)
			recs = append(recs, obsRec{u.App("EvGrant", advenfKindCoq[k], u.Z(v)), now, fmt.Sprintf("%T{%d}", f, v)})
			// property monitor: the limit just advertised must be enforced (at least)
			if now < v && p.fail != nil {
				p.fail("advenf/grant-not-enforced/"+advenfKindCoq[k], fmt.Sprintf("the client sent %T with %d but enforces %d: a peer using the new credit gets an error", f, v, now))
			}
		}
	}
	return recs, retired
}

// exec runs one (normalized) event and returns the probe-list entries it produces: the model
// event with the observed code, followed by the client events the connection emitted.
func (p *prober) exec(e aeEvent, fail func(key, desc string)) (recs []obsRec, code int64, msg string) {
	switch e.kind {
	case 6:
		n := min(e.n, p.contig[e.ty]-p.read[e.ty])
		got, err := p.vc.ReadStream(int64(dataStreamID[e.ty]), int(n))
		p.read[e.ty] += int64(got)
		if err != nil || int64(got) != n {
			fail("advenf/read", fmt.Sprintf("application read %d of %d contiguous bytes on stream %d: %v", got, n, dataStreamID[e.ty], err))
		}
	case 7:
		// the peer opens the next uni stream and finishes it at once; the application accepts and
		// consumes it, which frees a stream slot (MAX_STREAMS)
		p.opened[2]++
		id := 3 + 4*uint64(p.opened[2]-1)
		code, msg = p.vc.Frames(frStreamFin(id))
		recs = append(recs, obsRec{u.App("EvOpen", "2", "1"), code, fmt.Sprintf("finish-uni(%d)", id)})
		if code != 0 {
			return recs, code, msg
		}
		p.vc.ReadStream(int64(id), 1) // returns io.EOF
	case 5:
		code, msg = p.do(e)
		r, retired := p.flushed()
		_, queued := p.vc.CIDState()
		if retired != 1 {
			fail("advenf/retire-frame", fmt.Sprintf("the client switched connection IDs and queued %d RETIRE_CONNECTION_ID frames (expected 1)", retired))
		}
		recs = append(recs, obsRec{e.coq(), int64(1 + queued), e.String()})
		return append(recs, r...), 0, ""
	default:
		code, msg = p.do(e)
		recs = append(recs, obsRec{e.coq(), code, e.String()})
		if code != 0 {
			return recs, code, msg
		}
	}
	r, _ := p.flushed()
	return append(recs, r...), 0, ""
}

// ---- case generation ------------------------------------------------------------------

type aeCfg struct {
	ISW, MSW, ICW, MCW uint64
	MIS, MIUS          int64
	DG                 bool
	Idle               time.Duration
}

func (c aeCfg) config() *quic.Config {
	return &quic.Config{InitialStreamReceiveWindow: c.ISW, MaxStreamReceiveWindow: c.MSW, InitialConnectionReceiveWindow: c.ICW,
		MaxConnectionReceiveWindow: c.MCW, MaxIncomingStreams: c.MIS, MaxIncomingUniStreams: c.MIUS, EnableDatagrams: c.DG, MaxIdleTimeout: c.Idle}
}
func (c aeCfg) isDefault() bool { return c == aeCfg{} }
func (c aeCfg) coq() string {
	dg := int64(0)
	if c.DG {
		dg = 1
	}
	return u.List([]string{u.ZU(c.ISW), u.ZU(c.MSW), u.ZU(c.ICW), u.ZU(c.MCW), u.Z(c.MIS), u.Z(c.MIUS), u.Z(dg), u.Z(int64(c.Idle))})
}
func (c aeCfg) String() string {
	return fmt.Sprintf("Config{ISW:%d MSW:%d ICW:%d MCW:%d MIS:%d MIUS:%d DG:%v Idle:%v}", c.ISW, c.MSW, c.ICW, c.MCW, c.MIS, c.MIUS, c.DG, c.Idle)
}

// advenfSpec builds the client's spec for a case deterministically from (client, seed).
// client: parrot name | "plain" | "derived:<parrot>".
func advenfSpec(client string, seed uint64) (*quic.QUICSpec, error) {
	if client == "plain" {
		return nil, nil
	}
	name := strings.TrimPrefix(client, "derived:")
	sp, err := specFor(name)
	if err != nil {
		return nil, err
	}
	if name == client {
		return sp, nil
	}
	r := u.NewRng(seed)
	var q *tls.QUICTransportParametersExtension
	for _, ext := range sp.ClientHelloSpec.Extensions {
		if e, ok := ext.(*tls.QUICTransportParametersExtension); ok {
			q = e
		}
	}
	if q == nil {
		return nil, fmt.Errorf("no QTP extension in %s", name)
	}
	pick := func(base uint64) uint64 {
		switch r.Intn(6) {
		case 0:
			return 0
		case 1:
			return base + 1
		case 2:
			if base > 0 {
				return base - 1
			}
			return 1
		case 3:
			return uint64(r.Range(1, 5000))
		case 4:
			return uint64(r.U64() & (1<<uint(r.Range(1, 40)) - 1))
		}
		return base
	}
	d, _ := quic.VerifAdvEnfPopulate(nil)
	hasCID := false
	// fixed order of the draws (the parrot's list is shuffled when the spec is built, and
	// GREASE IDs are random: neither may influence which parameter gets which draw)
	for _, id := range []uint64{0x01, 0x04, 0x05, 0x06, 0x07, 0x08, 0x09, 0x0e, 0x20} {
		i := -1
		for j, tp := range q.TransportParameters {
			switch tp.(type) {
			case tls.InitialMaxData, tls.InitialMaxStreamDataBidiLocal, tls.InitialMaxStreamDataBidiRemote, tls.InitialMaxStreamDataUni,
				tls.InitialMaxStreamsBidi, tls.InitialMaxStreamsUni, tls.MaxIdleTimeout, tls.MaxDatagramFrameSize, tls.ActiveConnectionIDLimit:
				if tp.ID() == id {
					i = j
				}
			}
		}
		if i < 0 {
			continue
		}
		tp := q.TransportParameters[i]
		if !r.Chance(1, 3) {
			if _, ok := tp.(tls.ActiveConnectionIDLimit); ok {
				hasCID = true
			}
			continue
		}
		switch tp.(type) {
		case tls.InitialMaxData:
			q.TransportParameters[i] = tls.InitialMaxData(pick(d.InitialConnectionReceiveWindow))
		case tls.InitialMaxStreamDataBidiLocal:
			q.TransportParameters[i] = tls.InitialMaxStreamDataBidiLocal(pick(d.InitialStreamReceiveWindow))
		case tls.InitialMaxStreamDataBidiRemote:
			q.TransportParameters[i] = tls.InitialMaxStreamDataBidiRemote(pick(d.InitialStreamReceiveWindow))
		case tls.InitialMaxStreamDataUni:
			q.TransportParameters[i] = tls.InitialMaxStreamDataUni(pick(d.InitialStreamReceiveWindow))
		case tls.InitialMaxStreamsBidi:
			q.TransportParameters[i] = tls.InitialMaxStreamsBidi(pick(uint64(d.MaxIncomingStreams)))
		case tls.InitialMaxStreamsUni:
			q.TransportParameters[i] = tls.InitialMaxStreamsUni(pick(uint64(d.MaxIncomingUniStreams)))
		case tls.MaxIdleTimeout:
			q.TransportParameters[i] = tls.MaxIdleTimeout([]uint64{0, 1, 9999, 10000, 29999, 30000, 30001, 60000}[r.Intn(8)])
		case tls.MaxDatagramFrameSize:
			q.TransportParameters[i] = tls.MaxDatagramFrameSize([]uint64{0, 1, 1200, 16382, 16383, 16384, 65535, 65536}[r.Intn(8)])
		case tls.ActiveConnectionIDLimit:
			hasCID = true
			q.TransportParameters[i] = tls.ActiveConnectionIDLimit([]uint64{2, 3, 4, 5, 6, 8, 9}[r.Intn(7)])
		}
	}
	// a limit carried by a tls.FakeQUICTransportParameter (same ID, same bytes on the wire as the typed
	// parameter): it is advertised all the same, so it has to be recorded and covered all the same
	if r.Chance(1, 4) {
		for i, tp := range q.TransportParameters {
			switch v := tp.(type) {
			case tls.InitialMaxData:
				q.TransportParameters[i] = &tls.FakeQUICTransportParameter{Id: tp.ID(), Val: quicvarint.Append(nil, uint64(v))}
			case tls.InitialMaxStreamsUni:
				if r.Bool() {
					q.TransportParameters[i] = &tls.FakeQUICTransportParameter{Id: tp.ID(), Val: quicvarint.Append(nil, uint64(v))}
				}
			case tls.MaxIdleTimeout:
				if r.Bool() {
					q.TransportParameters[i] = &tls.FakeQUICTransportParameter{Id: tp.ID(), Val: quicvarint.Append(nil, uint64(v))}
				}
			}
		}
		// ack_delay_exponent has no type of its own in the tls package
		if r.Bool() {
			q.TransportParameters = append(q.TransportParameters, &tls.FakeQUICTransportParameter{Id: 0x0a, Val: []byte{byte(r.Range(0, 20))}})
		}
	}
	if !hasCID && r.Bool() {
		q.TransportParameters = append(q.TransportParameters, tls.ActiveConnectionIDLimit([]uint64{2, 3, 4, 5, 6, 8, 9}[r.Intn(7)]))
	}
	// suppression of some parameters (never the source connection ID)
	for _, id := range []uint64{0x01, 0x03, 0x04, 0x05, 0x06, 0x07, 0x08, 0x09, 0x0e, 0x20, quic.QTPGrease} {
		if r.Chance(1, 8) {
			sp.SuppressTransportParameters = append(sp.SuppressTransportParameters, id)
		}
	}
	sp.RandomizeTransportParameters = r.Bool()
	return sp, nil
}

func genAeCfg(r *u.Rng, adv [kNum]int64) aeCfg {
	var c aeCfg
	if r.Chance(2, 5) {
		return c
	}
	win := func(big bool, a ...int64) uint64 {
		cands := []uint64{0, 0, 1, uint64(r.Range(2, 4000)), 1 << 20, quicvarint.Max}
		if big {
			cands = append(cands, 1<<62+5)
		}
		for _, x := range a {
			if x > 0 {
				cands = append(cands, uint64(x), uint64(x)-1, uint64(x)+1)
			}
		}
		return cands[r.Intn(len(cands))]
	}
	c.ISW = win(false, adv[kSDBidiLocal], adv[kSDBidiRemote], adv[kSDUni])
	c.ICW = win(false, adv[kMaxData])
	if r.Bool() {
		c.MSW = win(true, adv[kSDUni])
	}
	if r.Bool() {
		c.MCW = win(true, adv[kMaxData])
	}
	cnt := func(a int64) int64 {
		cands := []int64{0, 0, -1, 1, int64(r.Range(2, 300)), 1 << 60, 1<<60 + 1, a, a - 1, a + 1}
		return cands[r.Intn(len(cands))]
	}
	c.MIS = cnt(adv[kStreamsBidi])
	c.MIUS = cnt(adv[kStreamsUni])
	c.DG = r.Bool()
	ms := time.Duration(adv[kIdleMs]) * time.Millisecond
	idles := []time.Duration{0, 0, time.Millisecond, 10 * time.Second, 60 * time.Second, ms, ms - time.Millisecond, ms + time.Millisecond, ms - 1, ms + 1}
	c.Idle = idles[r.Intn(len(idles))]
	if c.Idle < 0 {
		c.Idle = 0
	}
	return c
}

// gridCfg: Config number g of the grid around the advertised values: each of
// InitialStreamReceiveWindow (vs the largest advertised stream value), InitialConnectionReceiveWindow,
// MaxIncomingStreams, MaxIncomingUniStreams, MaxIdleTimeout at advertised-1 / advertised / advertised+1,
// EnableDatagrams off / on.
func gridCfg(g int, adv [kNum]int64) aeCfg {
	lvl := func(base int64) int64 {
		d := int64(g%3) - 1
		g /= 3
		return max(base+d, 1)
	}
	var c aeCfg
	c.ISW = uint64(lvl(max(adv[kSDBidiLocal], adv[kSDBidiRemote], adv[kSDUni])))
	c.ICW = uint64(lvl(adv[kMaxData]))
	c.MIS = lvl(adv[kStreamsBidi])
	c.MIUS = lvl(adv[kStreamsUni])
	c.Idle = time.Duration(lvl(adv[kIdleMs])) * time.Millisecond
	c.DG = g%2 == 1
	return c
}

// goEnforced: this harness's own reading of the populated Config (only used to choose
// boundary values and to label monitor keys; the verdicts never depend on it).
func goEnforced(p quic.VerifAdvEnfCfg) (e [kNum]int64) {
	clampI := func(x uint64) int64 {
		if x > 1<<62 {
			return 1 << 62
		}
		return int64(x)
	}
	e[kMaxData] = clampI(p.InitialConnectionReceiveWindow)
	e[kSDBidiLocal], e[kSDBidiRemote], e[kSDUni] = clampI(p.InitialStreamReceiveWindow), clampI(p.InitialStreamReceiveWindow), clampI(p.InitialStreamReceiveWindow)
	e[kStreamsBidi], e[kStreamsUni] = p.MaxIncomingStreams, p.MaxIncomingUniStreams
	e[kCID] = 4
	if p.EnableDatagrams {
		e[kDgram] = 16383
	}
	e[kIdleMs] = p.MaxIdleTimeout / 1e6
	return e
}

// goEnforcedFor: the same for a client: a spec-driven connection raises the Config-derived
// limits to what its spec advertises (configCoveringSpec, SetConnectionIDLimit).
func goEnforcedFor(p quic.VerifAdvEnfCfg, adv [kNum]int64, specDriven bool) (e [kNum]int64) {
	e = goEnforced(p)
	if !specDriven {
		return e
	}
	sw := e[kSDUni]
	for _, k := range []int{kSDBidiLocal, kSDBidiRemote, kSDUni} {
		sw = max(sw, adv[k])
	}
	e[kSDBidiLocal], e[kSDBidiRemote], e[kSDUni] = sw, sw, sw
	e[kMaxData] = max(e[kMaxData], adv[kMaxData])
	e[kStreamsBidi] = max(e[kStreamsBidi], min(adv[kStreamsBidi], 1<<60))
	e[kStreamsUni] = max(e[kStreamsUni], min(adv[kStreamsUni], 1<<60))
	e[kCID] = max(e[kCID], adv[kCID])
	if adv[kDgram] > 0 {
		e[kDgram] = 16383
	}
	e[kIdleMs] = max(e[kIdleMs], adv[kIdleMs])
	if adv[kIdleMs] == 0 {
		e[kIdleMs] = (1<<63 - 1) / 4 / 1000000 // none advertised: no idle timeout of its own
	}
	return e
}

func genEvents(r *u.Rng, adv, enf [kNum]int64) []aeEvent {
	var evs []aeEvent
	var usedSD [3]int64
	var usedConn int64
	var opened [3]int64
	cids := int64(1)
	n := r.Range(0, 6)
	rotated := false
	target := func(used int64, cands ...int64) int64 {
		var c []int64
		for _, x := range cands {
			for _, d := range []int64{-1, 0, 1} {
				if x+d > used {
					c = append(c, x+d)
				}
			}
		}
		c = append(c, used+int64(r.Range(1, 2000)))
		return c[r.Intn(len(c))]
	}
	for i := 0; i < n; i++ {
		switch r.Intn(10) {
		case 7, 8:
			// the peer sends real data, the application reads it (window updates), then the peer goes
			// to the boundary of the window enforced at that moment
			ty := r.Intn(3)
			w := enf[kSDBidiLocal+ty]
			nn := []int64{w/4 + 1, w / 2, w, w/4 - 1, int64(r.Range(1, 3000))}[r.Intn(5)]
			nn = min(nn, 4<<20, enf[kSDBidiLocal+ty]-usedSD[ty], enf[kMaxData]-usedConn)
			if nn < 1 {
				break
			}
			usedSD[ty] += nn
			usedConn += nn
			if ty != 0 && opened[ty] < 1 {
				opened[ty] = 1
			}
			evs = append(evs, aeEvent{kind: 10, ty: ty, n: nn})
			evs = append(evs, aeEvent{kind: 6, ty: ty, n: []int64{nn, nn, nn / 2, 1}[r.Intn(4)]})
			if r.Bool() {
				evs = append(evs, aeEvent{kind: 6, ty: ty, n: nn})
			}
			evs = append(evs, aeEvent{kind: 8, ty: ty, n: int64(r.Intn(2))})
		case 9:
			// the peer opens and finishes uni streams, the application consumes them (MAX_STREAMS),
			// then the peer opens streams up to the limit enforced at that moment
			for j := r.Range(1, 3); j > 0; j-- {
				evs = append(evs, aeEvent{kind: 7})
			}
			if r.Bool() {
				evs = append(evs, aeEvent{kind: 9, n: int64(r.Intn(2))})
			} else {
				evs = append(evs, aeEvent{kind: 11, n: int64(r.Intn(2))})
			}
		case 5:
			// the peer rotates: retires k stored IDs (incl. the one in use), adds one
			k := []int64{1, 1, 2, cids}[r.Intn(4)]
			if k > cids {
				k = cids
			}
			evs = append(evs, aeEvent{4, 0, k})
			cids += 1 - k
		case 6:
			if !rotated && cids > 1 {
				rotated = true
				evs = append(evs, aeEvent{5, 0, 0})
				cids--
			}
		case 0, 1:
			ty := r.Intn(3)
			var nn int64
			if r.Bool() {
				nn = target(usedSD[ty], adv[kSDBidiLocal+ty], enf[kSDBidiLocal+ty]) - usedSD[ty]
			} else {
				nn = target(usedConn, adv[kMaxData], enf[kMaxData]) - usedConn
			}
			if nn < 1 || usedSD[ty]+nn >= 1<<61 {
				nn = 1
			}
			usedSD[ty] += nn
			usedConn += nn
			if ty != 0 && opened[ty] < 1 {
				opened[ty] = 1
			}
			evs = append(evs, aeEvent{0, ty, nn})
		case 2:
			ty := 1 + r.Intn(2)
			t := target(opened[ty], adv[kStreamsBidi+ty-1], enf[kStreamsBidi+ty-1])
			if t > 2500 {
				t = opened[ty] + int64(r.Range(1, 120))
			}
			evs = append(evs, aeEvent{1, ty, t - opened[ty]})
			opened[ty] = t
		case 3:
			t := target(cids, adv[kCID], enf[kCID])
			if t > cids+12 {
				t = cids + 12
			}
			evs = append(evs, aeEvent{2, 0, t - cids})
			cids = t
		case 4:
			t := target(0, adv[kDgram], enf[kDgram], 16383)
			if t > 70000 {
				t = 70000
			}
			if e, ok := dgramOfSize(r.Bool(), t); ok && r.Chance(2, 3) {
				evs = append(evs, e)
			} else {
				evs = append(evs, aeEvent{3, 0, t})
			}
		}
	}
	return evs
}

// ---- the property monitor: push one limit exactly to its ADVERTISED boundary ---------------

// conformantPush returns the events of a conformant peer exercising limit kind up to the
// advertised boundary, and the enforced values those events need (for labelling only).
func conformantPush(kind int, adv [kNum]int64) (evs []aeEvent, need [kNum]int64, ok bool) {
	capN := func(x, c int64) int64 {
		if x > c {
			return c
		}
		return x
	}
	switch kind {
	case kCID:
		n := capN(adv[kCID]-1, 64)
		if n < 1 {
			return nil, need, false
		}
		need[kCID] = n + 1
		// fill the limit, then rotate at the boundary (RFC 9000 5.1.1: an endpoint may add an ID on
		// top if the same frame retires one): the ID in use, twice, then two at once, then all
		return []aeEvent{{2, 0, n}, {4, 0, 1}, {4, 0, 1}, {4, 0, 2}, {4, 0, n + 1}, {2, 0, n}, {4, 0, 1}}, need, true
	case kDgram:
		// a frame only reaches the client's frame handling inside a packet that fits both the
		// advertised max_udp_payload_size and the receive buffer (larger packets are dropped, which
		// is loss, not an error)
		l := capN(capN(adv[kDgram], adv[kUDP]-18), int64(protocol.MaxPacketBufferSize)-18)
		if l < 1 {
			return nil, need, false
		}
		need[kDgram] = l
		return []aeEvent{{3, 0, l}}, need, true
	case kStreamsBidi, kStreamsUni:
		n := capN(adv[kind], 3000)
		if n < 1 {
			return nil, need, false
		}
		need[kind] = n
		return []aeEvent{{1, 1 + kind - kStreamsBidi, n}}, need, true
	case kSDBidiLocal, kSDBidiRemote, kSDUni:
		ty := kind - kSDBidiLocal
		n := capN(adv[kind], adv[kMaxData])
		if n < 1 || n >= 1<<61 {
			return nil, need, false
		}
		if ty == 1 && adv[kStreamsBidi] < 1 || ty == 2 && adv[kStreamsUni] < 1 {
			return nil, need, false
		}
		need[kind], need[kMaxData] = n, n
		if ty == 1 {
			need[kStreamsBidi] = 1
		}
		if ty == 2 {
			need[kStreamsUni] = 1
		}
		return []aeEvent{{0, ty, n}}, need, true
	case kMaxData:
		// spread over the three representative streams, small shares first so that the
		// connection-level boundary is what is reached
		total := adv[kMaxData]
		if total < 1 || total >= 1<<61 {
			return nil, need, false
		}
		rem := total
		for ty := 2; ty >= 0 && rem > 0; ty-- {
			if ty == 1 && adv[kStreamsBidi] < 1 || ty == 2 && adv[kStreamsUni] < 1 {
				continue
			}
			share := capN(adv[kSDBidiLocal+ty], (total+2)/3)
			if ty == 0 {
				share = adv[kSDBidiLocal]
			}
			n := capN(share, rem)
			if n < 1 {
				continue
			}
			evs = append(evs, aeEvent{0, ty, n})
			need[kSDBidiLocal+ty] = n
			if ty == 1 {
				need[kStreamsBidi] = 1
			}
			if ty == 2 {
				need[kStreamsUni] = 1
			}
			rem -= n
		}
		if len(evs) == 0 {
			return nil, need, false
		}
		need[kMaxData] = total - rem
		return evs, need, true
	}
	return nil, need, false
}

func isBuiltin(client string) bool {
	_, ok := parrotIDs[client]
	return ok
}

// label classifies a failed push for the monitor key (known-findings bookkeeping only).
func label(client string, kind int, cfg aeCfg, need, enf [kNum]int64) string {
	if isBuiltin(client) && cfg.isDefault() {
		return "default-config"
	}
	below := false
	for k := 0; k < kNum; k++ {
		if need[k] > enf[k] {
			below = true
		}
	}
	switch {
	case !below:
		return "cfg-covers-advertised"
	case kind == kCID:
		return "constant-below-advertised"
	}
	return "cfg-below-advertised"
}

// differsOnlyInGreaseVersion: a and b are the same parameter list except for GREASE version
// numbers (0x?a?a?a?a) inside a version_information parameter.
func differsOnlyInGreaseVersion(a, b []byte) bool {
	ea, ok1 := parseTPs(a)
	eb, ok2 := parseTPs(b)
	if !ok1 || !ok2 || len(ea) != len(eb) {
		return false
	}
	for i := range ea {
		if ea[i].id != eb[i].id || len(ea[i].val) != len(eb[i].val) {
			return false
		}
		if bytes.Equal(ea[i].val, eb[i].val) {
			continue
		}
		if (ea[i].id != 0x11 && ea[i].id != 0xff73db) || len(ea[i].val)%4 != 0 {
			return false
		}
		for j := 0; j+4 <= len(ea[i].val); j += 4 {
			x, y := ea[i].val[j:j+4], eb[i].val[j:j+4]
			if bytes.Equal(x, y) {
				continue
			}
			for k := 0; k < 4; k++ {
				if x[k]&0x0a != 0x0a || y[k]&0x0a != 0x0a { // utls: rand | 0x0a0a0a0a
					return false
				}
			}
		}
	}
	return true
}

var advenfPeer = quic.VerifAdvEnfPeer{InitialMaxData: 1 << 20, StreamDataBidiLocal: 1 << 20, StreamDataBidiRemote: 1 << 20, StreamDataUni: 1 << 20,
	MaxBidiStreams: 5, MaxUniStreams: 5, ActiveConnectionIDLimit: 4, MaxDatagramFrameSize: 1200}

func clientKey(client string) string {
	if strings.HasPrefix(client, "derived:") {
		return "derived"
	}
	return client
}

func runAdvEnf(w *bufio.Writer, seed uint64, n int, args []string) {
	r := u.NewRng(seed)
	dist := map[string]int{}
	only := -1
	for _, a := range args {
		if strings.HasPrefix(a, "only=") {
			fmt.Sscanf(a, "only=%d", &only)
		}
	}
	monfail := func(key, desc, detail string) {
		fmt.Fprintf(w, "MONFAIL\t%s\t%s\t%s\n", key, desc, detail)
	}
	thorough := os.Getenv("VERIF_TIER") == "thorough"
	clients := append([]string{}, parrotNames...)
	clients = append(clients, "plain")
	for _, p := range parrotNames {
		clients = append(clients, "derived:"+p)
	}
	// thorough tier: after the n drawn cases, exhaustively every built-in parrot x the grid of
	// Configs with each field below / at / above the advertised value (3^5 x EnableDatagrams)
	const gridPer = 3 * 3 * 3 * 3 * 3 * 2
	total := n
	if thorough {
		total += gridPer * len(parrotNames)
	}
	for i := 0; i < total; i++ {
		cr := r.Fork()
		// the first len(clients) cases: every client under the default Config
		var client string
		if i >= n {
			client = parrotNames[(i-n)/gridPer]
		} else if i < 2*len(clients) {
			// cases [len(clients), 2*len(clients)): the fixed DATAGRAM table, every client once more
			client = clients[i%len(clients)]
		} else {
			client = clients[cr.Intn(len(clients))]
		}
		specSeed := cr.U64()
		cfgSeed := cr.U64()
		evSeed := cr.U64()
		peer := advenfPeer
		peer.MaxIdleTimeout = []time.Duration{0, 5 * time.Second, 20 * time.Second, 30 * time.Second, 45 * time.Second}[cr.Intn(5)]
		if only >= 0 && i != only {
			continue
		}
		func() {
			defer func() {
				if rec := recover(); rec != nil {
					monfail("advenf/panic", fmt.Sprintf("%v", rec), fmt.Sprintf("case %d client=%s", i, client))
				}
			}()
			build := func(cfg aeCfg) (*quic.VerifAdvEnfConn, error) {
				sp, err := advenfSpec(client, specSeed)
				if err != nil {
					return nil, err
				}
				return quic.VerifAdvEnfBuild(sp, cfg.config(), advenfClientTLS())
			}
			// a first build under the default Config tells what this client advertises
			// (needed to generate Configs around those values)
			vc0, err := build(aeCfg{})
			if err != nil {
				monfail("advenf/build/"+clientKey(client), "constructing the connection failed: "+err.Error(), fmt.Sprintf("case %d", i))
				return
			}
			ch0, err := vc0.ClientHello()
			vc0.Close()
			if err != nil {
				monfail("advenf/clienthello/"+clientKey(client), err.Error(), fmt.Sprintf("case %d", i))
				return
			}
			ext0, _ := chExtension(ch0, 57)
			es0, _ := parseTPs(ext0)
			adv0, _ := advertisedOf(es0)
			var cfg aeCfg
			if i >= n {
				cfg = gridCfg((i-n)%gridPer, adv0)
				dist["cfg=grid"]++
			} else if i >= 2*len(clients) {
				cfg = genAeCfg(u.NewRng(cfgSeed), adv0)
			} else if i >= len(clients) {
				cfg = aeCfg{DG: true}
			}
			desc := fmt.Sprintf("case=%d client=%s %s peerIdle=%v", i, client, cfg, peer.MaxIdleTimeout)

			vc, err := build(cfg)
			if err != nil {
				monfail("advenf/build/"+clientKey(client), "constructing the connection failed: "+err.Error(), desc)
				return
			}
			defer vc.Close()
			ch, err := vc.ClientHello()
			if err != nil {
				monfail("advenf/clienthello/"+clientKey(client), err.Error(), desc)
				return
			}
			ext, ok := chExtension(ch, 57)
			if !ok {
				monfail("advenf/no-extension/"+clientKey(client), "ClientHello carries no quic_transport_parameters extension", desc)
				return
			}
			es, ok := parseTPs(ext)
			if !ok {
				monfail("advenf/wire-unparsable/"+clientKey(client), "transport parameters on the wire do not parse", fmt.Sprintf("%s ext=%x", desc, ext))
				return
			}
			adv, ok := advertisedOf(es)
			if !ok {
				monfail("advenf/wire-unparsable/"+clientKey(client), "a numeric transport parameter is not a single varint", fmt.Sprintf("%s ext=%x", desc, ext))
				return
			}
			rec, _ := vc.Record()
			// monitor: the connection's record of its parameters equals the bytes sent
			specDriven := client != "plain"
			if specDriven {
				switch {
				case rec.HasOverride && bytes.Equal(rec.ClientOverride, ext):
				case rec.HasOverride && differsOnlyInGreaseVersion(rec.ClientOverride, ext):
					monfail("advenf/record-wire/grease-version/"+clientKey(client), "ourParams.ClientOverride differs from the extension bytes in the ClientHello (only in the GREASE version of version_information)",
						fmt.Sprintf("%s override=%x wire=%x", desc, rec.ClientOverride, ext))
				default:
					monfail("advenf/record-wire/override/"+clientKey(client), "ourParams.ClientOverride differs from the extension bytes in the ClientHello",
						fmt.Sprintf("%s override=%x wire=%x", desc, rec.ClientOverride, ext))
				}
			}
			// EVERY field of the record against this harness's own reading of the bytes on the wire (RFC 9000
			// 18.2 defaults for absent parameters). Two spellings of "absent" are identified: no DATAGRAM
			// support is InvalidByteCount (-1) in the record and 0 here; no max_udp_payload_size is
			// protocol.MaxByteCount in the record (as in unmarshal) and the RFC default 65527 here.
			dam := int64(0)
			if rec.DisableActiveMigration {
				dam = 1
			}
			recVals := []int64{rec.InitialMaxData, rec.StreamDataBidiLocal, rec.StreamDataBidiRemote, rec.StreamDataUni, rec.MaxBidiStreams, rec.MaxUniStreams,
				int64(rec.ActiveConnectionIDLimit), max(rec.MaxDatagramFrameSize, 0), rec.MaxIdleTimeout / 1e6, rec.MaxUDPPayloadSize,
				rec.AckDelayExponent, rec.MaxAckDelay / 1e6, dam}
			if recVals[kUDP] == int64(protocol.MaxByteCount) {
				recVals[kUDP] = 65527
			}
			present := map[uint64]bool{}
			wireAll := append([]int64{}, adv[:]...)
			wireAll = append(wireAll, 3, 25, 0) // ack_delay_exponent, max_ack_delay (ms), disable_active_migration
			for _, e := range es {
				present[e.id] = true
				switch e.id {
				case 0x0a, 0x0b:
					if v, n, err := quicvarint.Parse(e.val); err == nil && n == len(e.val) {
						wireAll[kNum+int(e.id-0x0a)] = int64(v)
					}
				case 0x0c:
					wireAll[kNum+2] = 1
				}
			}
			fieldNames := append(append([]string{}, kindNames[:kNum]...), "ack_delay_exponent", "max_ack_delay", "disable_active_migration")
			for k := range recVals {
				if recVals[k] != wireAll[k] {
					monfail("advenf/record/field-differs/"+fieldNames[k], "the connection's record of its own transport parameters differs from what the bytes it sent say",
						fmt.Sprintf("%s field=%s recorded=%d wire=%d (parameter on the wire: %v)", desc, fieldNames[k], recVals[k], wireAll[k], k < kNum && present[kindTPID[k]]))
				}
			}
			var iscid []byte
			for _, e := range es {
				if e.id == 0x0f {
					iscid = e.val
				}
			}
			if present[0x0f] && (!bytes.Equal(iscid, vc.SrcConnID) || !bytes.Equal(rec.InitialSourceConnectionID, vc.SrcConnID)) {
				monfail("advenf/record-wire/iscid/"+clientKey(client), "initial_source_connection_id on the wire / in the record is not the connection's source connection ID",
					fmt.Sprintf("%s wire=%x record=%x scid=%x", desc, iscid, rec.InitialSourceConnectionID, vc.SrcConnID))
			}

			// what the model gets as the parameter list: spec-driven: the SPEC's extension (ID(),
			// Value()), which a dial leaves as the caller wrote it (the connection works on its
			// own copy: suppression, per-dial order and the source connection ID go there), plus
			// the suppression list, the randomize flag and the source connection ID, from which
			// the model derives what has to be on the wire; plain: the entries read from the wire
			var plist, suppress []string
			randomize := false
			if sp := specOf(vc); sp != nil && specDriven {
				randomize = sp.RandomizeTransportParameters
				for _, id := range sp.SuppressTransportParameters {
					suppress = append(suppress, u.ZU(id))
				}
			}
			if ids, vals, ok := quic.VerifAdvEnfSpecParams(specOf(vc)); ok && specDriven {
				for j := range ids {
					plist = append(plist, u.Pair(u.ZU(ids[j]), u.Hex(vals[j])))
				}
			} else {
				for _, e := range es {
					plist = append(plist, u.Pair(u.ZU(e.id), u.Hex(e.val)))
				}
			}

			vc.ApplyPeer(peer)
			enf := vc.Enforced()
			pop := quic.VerifAdvEnfCfgOf(vc.Conf)
			genf := goEnforcedFor(pop, adv, specDriven)
			dgf := int64(0)
			if enf.Datagrams {
				dgf = 1
			}
			enfList := u.ZList([]int64{enf.ConnWindow, enf.StreamWindow[0], enf.StreamWindow[1], enf.StreamWindow[2], int64(enf.MaxInBidi), int64(enf.MaxInUni),
				enf.MaxStreamNumBidi, enf.MaxStreamNumUni, dgf, int64(enf.CIDQueueCap), enf.ConnMaxWindow, enf.StreamMaxWindow[0]})

			// probes
			evs := genEvents(u.NewRng(evSeed), adv, genf)
			if i >= len(clients) && i < 2*len(clients) {
				// fixed table: DATAGRAM frames of both encodings at the boundaries: what fits a packet
				// the client accepts (advertised size, max_udp_payload_size, receive buffer), the size
				// handleDatagramFrame enforces, and one frame beyond it (the error ends the case)
				evs = nil
				capSz := min(adv[kDgram], min(adv[kUDP], int64(protocol.MaxPacketBufferSize))-18)
				for _, sz := range []int64{1, 2, 3, 65, 66, 67, capSz - 2, capSz - 1, capSz, 16382, 16383} {
					for _, withLen := range []bool{false, true} {
						if e, ok := dgramOfSize(withLen, sz); ok && sz >= 1 {
							evs = append(evs, e)
						}
					}
				}
				e, _ := dgramOfSize(i%2 == 0, 16384)
				evs = append(evs, e)
				dist["dgram-table"]++
			}
			pr := &prober{vc: vc, adv: adv, keyPrefix: "advenf/" + clientKey(client)}
			var obs []string
			sawErr := false
			var evStrs []string
			for _, orig := range evs {
				e, ok := pr.normalize(orig)
				if !ok {
					continue
				}
				pr.fail = func(key, d string) { monfail(key, d, desc) }
				recs, code, msg := pr.exec(e, pr.fail)
				if orig.kind == 11 && orig.n == 0 && code != 0 {
					monfail(pr.keyPrefix+"/streams_uni/after-completion",
						fmt.Sprintf("after completed streams the peer opens streams up to the limit it may rely on (max of the advertised value and the MAX_STREAMS frames seen) and gets transport error 0x%x (%s)", code, msg),
						fmt.Sprintf("%s advertised=%v probes=%v then %s", desc, adv, evStrs, e))
				}
				for _, rc := range recs {
					obs = append(obs, u.Pair(rc.coq, u.Z(rc.code)))
					evStrs = append(evStrs, fmt.Sprintf("%s=>%d", rc.desc, rc.code))
					if strings.HasPrefix(rc.coq, "(EvGrant") {
						dist["client-grant"]++
					}
				}
				if e.kind == 5 {
					dist["client-retire-cid"]++
				}
				if code != 0 {
					sawErr = true
					break
				}
			}
			deadline, pto3 := vc.IdleDeadline()
			ov := "None"
			if rec.HasOverride {
				ov = u.Opt(true, u.Hex(rec.ClientOverride))
			}
			nt := 0
			if sawErr || specDriven && !cfg.isDefault() {
				nt = 1
			}
			fmt.Fprintf(w, "CASE %d %s\n", nt, u.App("AdvCase", u.B(specDriven), u.List(plist), u.List(suppress), u.B(randomize), u.Hex(vc.SrcConnID), cfg.coq(), u.Z(int64(peer.MaxIdleTimeout)),
				u.Hex(ext), ov, u.ZList(wireAll), u.ZList(recVals), enfList, u.Z(enf.IdleTimeout), u.Z(int64(deadline)), u.Z(int64(pto3)), u.List(obs)))
			if i < 3 || i == len(clients) {
				fmt.Fprintf(w, "SAMPLE\t%s adv=%v enforced=%+v probes=%v\n", desc, adv, enf, evStrs)
			}
			dist["client="+clientKey(client)]++
			if cfg.isDefault() {
				dist["cfg=default"]++
			} else {
				dist["cfg=generated"]++
			}
			if sawErr {
				dist["probe-error"]++
			}

			// property monitor: each limit pushed exactly to its advertised boundary on a
			// fresh connection; in the quick tier generated cases check three kinds each
			kinds := []int{kMaxData, kSDBidiLocal, kSDBidiRemote, kSDUni, kStreamsBidi, kStreamsUni, kCID, kDgram}
			if !thorough && i >= len(clients) {
				o := cr.Intn(len(kinds))
				kinds = []int{kinds[o], kinds[(o+3)%len(kinds)], kinds[(o+5)%len(kinds)]}
			}
			for _, k := range kinds {
				pevs, need, ok := conformantPush(k, adv)
				if !ok {
					dist["push-skipped"]++
					continue
				}
				vk, err := build(cfg)
				if err != nil {
					monfail("advenf/build/"+clientKey(client), err.Error(), desc)
					continue
				}
				vk.ApplyPeer(peer)
				variants := [][]aeEvent{pevs}
				afterCompletion := -1
				if k == kStreamsUni && adv[kStreamsUni] >= 3 && adv[kStreamsUni] <= 2900 {
					// stream #1 stays open, #2 and #3 are finished by the peer and consumed by the application
					// (two MAX_STREAMS), then the peer opens streams up to the limit it may rely on
					afterCompletion = len(variants)
					variants = append(variants, []aeEvent{{1, 2, 1}, {7, 0, 0}, {7, 0, 0}, {11, 0, 0}}, []aeEvent{{1, 2, 1}, {7, 0, 0}, {11, 0, 0}})
				}
				if k == kCID {
					// the same after the client's own post-handshake rotation (it retires sequence number 0,
					// the peer replaces it and then rotates at the boundary)
					variants = append(variants, []aeEvent{pevs[0], {5, 0, 0}, {2, 0, 1}, {4, 0, 1}, {4, 0, 1}, {4, 0, 2}})
				}
				for vi, evs := range variants {
					if vi > 0 {
						vk.Close()
						if vk, err = build(cfg); err != nil {
							monfail("advenf/build/"+clientKey(client), err.Error(), desc)
							break
						}
						vk.ApplyPeer(peer)
					}
					pk := &prober{vc: vk, adv: adv, keyPrefix: "advenf/" + clientKey(client)}
					pk.fail = func(key, d string) { monfail(key, d, fmt.Sprintf("%s advertised=%v push=%v", desc, adv, evs)) }
					for _, e := range evs {
						e, ok := pk.normalize(e)
						if !ok {
							continue
						}
						var code int64
						var msg string
						if afterCompletion >= 0 && vi >= afterCompletion {
							_, code, msg = pk.exec(e, pk.fail)
						} else {
							code, msg = pk.do(e)
						}
						if code != 0 {
							lb := label(client, k, cfg, need, genf)
							if afterCompletion >= 0 && vi >= afterCompletion {
								lb = "after-completion"
							}
							dist["push-error/"+lb]++
							monfail("advenf/"+clientKey(client)+"/"+kindNames[k]+"/"+lb,
								fmt.Sprintf("a peer within the advertised %s limit gets transport error 0x%x (%s)", kindNames[k], code, msg),
								fmt.Sprintf("%s advertised=%v push=%v frames=%v", desc, adv, evs, pk.trace))
							break
						}
					}
				}
				if vk != nil {
					vk.Close()
				}
				dist["push"]++
			}
			// a spec value serving a second connection (documented use: "one spec value can serve
			// many connections"): the second connection's record must still equal ITS wire bytes
			if specDriven && cr.Chance(1, 4) {
				sp, err := advenfSpec(client, specSeed)
				if err == nil {
					if v1, err := quic.VerifAdvEnfBuild(sp, cfg.config(), advenfClientTLS()); err == nil {
						v1.ClientHello()
						v1.Close()
						if v2, err := quic.VerifAdvEnfBuild(sp, cfg.config(), advenfClientTLS()); err == nil {
							ch2, err := v2.ClientHello()
							rec2, _ := v2.Record()
							if ext2, ok := chExtension(ch2, 57); err == nil && ok {
								dist["reuse"]++
								if !bytes.Equal(rec2.ClientOverride, ext2) && !differsOnlyInGreaseVersion(rec2.ClientOverride, ext2) {
									monfail("advenf/reuse/override/"+clientKey(client), "second connection from the same spec value: ClientOverride differs from the extension bytes sent",
										fmt.Sprintf("%s randomize=%v override=%x wire=%x", desc, sp.RandomizeTransportParameters, rec2.ClientOverride, ext2))
								}
								if es2, ok := parseTPs(ext2); ok {
									for _, e := range es2 {
										if e.id == 0x0f && !bytes.Equal(e.val, v2.SrcConnID) {
											monfail("advenf/reuse/iscid/"+clientKey(client), "second connection from the same spec value: initial_source_connection_id on the wire is not this connection's source connection ID",
												fmt.Sprintf("%s wire=%x scid=%x", desc, e.val, v2.SrcConnID))
										}
									}
								}
							}
							v2.Close()
						}
					}
				}
			}
			// idle timeout: the effective timeout of the client must not be below what the peer
			// computes from the client's advertised value and its own (RFC 9000 10.1)
			peerMs := int64(peer.MaxIdleTimeout / time.Millisecond)
			var expectNs int64 = -1 // -1: no timeout expected by the peer
			switch {
			case adv[kIdleMs] > 0 && peerMs > 0:
				expectNs = min(adv[kIdleMs], peerMs) * 1e6
			case adv[kIdleMs] > 0:
				expectNs = adv[kIdleMs] * 1e6
			case peerMs > 0:
				expectNs = peerMs * 1e6
			}
			// "no idle timeout" as the connection holds it: u_connection.go noIdleTimeout = MaxInt64/4 ns
			const noIdleNs = int64(1<<63-1) / 4
			if expectNs < 0 && enf.IdleTimeout < noIdleNs || expectNs >= 0 && enf.IdleTimeout < expectNs {
				need := [kNum]int64{}
				need[kIdleMs] = adv[kIdleMs]
				lb := label(client, kIdleMs, cfg, need, genf)
				if adv[kIdleMs] == 0 {
					lb = "not-advertised"
				}
				monfail("advenf/"+clientKey(client)+"/idle/"+lb,
					fmt.Sprintf("the client's idle timeout (%v) is below the one its peer derives from the advertised max_idle_timeout (%d ms; peer's own %d ms)", time.Duration(enf.IdleTimeout), adv[kIdleMs], peerMs), desc)
			}
		}()
	}
	// the sending side: Conn.SendDatagram against the peer's max_datagram_frame_size (fixed table)
	if only < 0 {
		if vc, err := quic.VerifAdvEnfBuild(nil, &quic.Config{EnableDatagrams: true}, advenfClientTLS()); err == nil {
			vc.ApplyPeer(advenfPeer)
			for _, mdfs := range []int64{1, 2, 3, 4, 64, 65, 66, 67, 68, 1200, 16383, 16384, 16385, 16386, 16387, 16388, 16389, 16390, 65536} {
				for _, mtu := range []int64{100000, 1200} {
					// payloads around the largest one that makes a frame (type, length, payload) within mdfs
					var best int64
					for p := int64(0); p <= mdfs; p++ {
						if 1+int64(quicvarint.Len(uint64(p)))+p <= mdfs {
							best = p
						} else if p > 70 && p < mdfs-10 {
							p = mdfs - 10 // skip the middle
						}
					}
					for _, n := range []int64{0, best - 1, best, best + 1, min(best, mtu), min(best, mtu) + 1} {
						if n < 0 || n > 80000 {
							continue
						}
						ok, rep, fs, err := vc.SendDatagramProbe(mdfs, mtu, int(n))
						if err != nil {
							monfail("advenf/senddatagram", err.Error(), fmt.Sprintf("mdfs=%d mtu=%d n=%d", mdfs, mtu, n))
							continue
						}
						// property monitor (the client as a sender within the PEER's advertised limit)
						if ok && fs > mdfs && mdfs >= 2 {
							monfail("advenf/senddatagram/over-peer-limit", fmt.Sprintf("SendDatagram(%d bytes) queued a DATAGRAM frame of %d bytes although the peer advertised max_datagram_frame_size %d", n, fs, mdfs), "")
						}
						fmt.Fprintf(w, "CASE 1 %s\n", u.App("SendCase", u.Z(mdfs), u.Z(mtu), u.Z(n), u.B(ok), u.Z(rep), u.Z(fs)))
						dist["send-datagram"]++
					}
				}
			}
			vc.Close()
		}
	}
	keys := make([]string, 0, len(dist))
	for k := range dist {
		keys = append(keys, k)
	}
	sort.Strings(keys)
	for _, k := range keys {
		fmt.Fprintf(w, "DIST\t%s\t%d\n", k, dist[k])
	}
}

func specOf(vc *quic.VerifAdvEnfConn) *quic.QUICSpec { return vc.Spec() }
