//go:build verif

package main

import (
	"bufio"
	"context"
	"fmt"
	"runtime"
	"sort"
	"sync"
	"sync/atomic"
	"time"

	quic "github.com/refraction-networking/uquic"
	u "github.com/refraction-networking/uquic/internal/verifutil"
)

func init() { units["streamsmapstress"] = runStreamsMapStress }

// streamsmapstress (property C15, monitor-only, NOT inside a synctest bubble): real
// concurrency. For both perspectives and both stream types,
//   (1) queued: the stream constructor (it runs while GetOrOpenStream holds the map's mutex)
//       starts 4 AcceptStream callers and gives them a few ms to queue up on that mutex, while
//       the peer opens 4 streams with one frame;
//   (2) stress: 8 workers call AcceptStream in a loop while the peer opens n streams, 1-3 per frame.
// Monitor: the multiset of returned stream IDs is exactly first, first+4, ... — each stream
// once, none missing (streams that are still in the map when the workers went quiet are collected
// by a final sequential AcceptStream loop, so a late wake-up is not counted as a loss).
func runStreamsMapStress(w *bufio.Writer, seed uint64, n int, _ []string) {
	if runtime.GOMAXPROCS(0) < 4 {
		defer runtime.GOMAXPROCS(runtime.GOMAXPROCS(4))
	}
	r := u.NewRng(seed)
	failed := map[string]bool{}
	monfail := func(key, desc, detail string) {
		if failed[key] {
			return
		}
		failed[key] = true
		fmt.Fprintf(w, "MONFAIL\tstreamsmapstress/%s\t%s\t%s\n", key, desc, detail)
	}
	defer func() {
		if p := recover(); p != nil {
			monfail("panic", fmt.Sprintf("panic: %v", p), "")
		}
	}()
	first := func(uni, client bool) int64 { return smFirst(uni, !client) }
	var total, dups, missing int
	for _, client := range []bool{false, true} {
		for _, uni := range []bool{false, true} {
			cfg := fmt.Sprintf("client=%v uni=%v", client, uni)
			// (1) callers queued on the mutex while 4 streams are opened by one frame
			for round := 0; round < 3; round++ {
				v := quic.NewVerifSM(client, 1<<30, 1<<30)
				f := first(uni, client)
				ctx, cancel := context.WithTimeout(context.Background(), 2*time.Second)
				res := make(chan [2]int64, 4)
				var once sync.Once
				v.SetOnCreate(func(int64) {
					once.Do(func() {
						for i := 0; i < 4; i++ {
							go func() {
								id, e := v.Accept(ctx, uni)
								res <- [2]int64{id, int64(e)}
							}()
						}
						time.Sleep(5 * time.Millisecond)
					})
				})
				v.Recv(f + 12)
				v.SetOnCreate(nil)
				var got []int64
				for i := 0; i < 4; i++ {
					x := <-res
					if x[1] != 0 {
						monfail("queued/accept-error", "AcceptStream failed although 4 streams are open", fmt.Sprintf("%s: 4 AcceptStream callers queued on the map mutex while one frame opens streams %d..%d; error class %d", cfg, f, f+12, x[1]))
						continue
					}
					got = append(got, x[0])
				}
				cancel()
				sort.Slice(got, func(i, j int) bool { return got[i] < got[j] })
				ok := len(got) == 4
				for i := range got {
					ok = ok && got[i] == f+4*int64(i)
				}
				if !ok {
					monfail("queued/exactly-once", "concurrent AcceptStream callers did not get each opened stream exactly once",
						fmt.Sprintf("%s: 4 AcceptStream callers queued on the map mutex while one frame opens streams %d,%d,%d,%d; returned %v", cfg, f, f+4, f+8, f+12, got))
				}
				v.Close()
			}
			// (2) stress
			v := quic.NewVerifSM(client, 1<<30, 1<<30)
			f := first(uni, client)
			ctx, cancel := context.WithCancel(context.Background())
			const workers = 8
			var wg sync.WaitGroup
			var count atomic.Int64
			per := make([][]int64, workers)
			for i := 0; i < workers; i++ {
				wg.Add(1)
				go func(i int) {
					defer wg.Done()
					for {
						id, e := v.Accept(ctx, uni)
						if e != 0 {
							return
						}
						per[i] = append(per[i], id)
						count.Add(1)
					}
				}(i)
			}
			opened := 0
			for opened < n {
				k := 1 + r.Intn(3)
				if opened+k > n {
					k = n - opened
				}
				opened += k
				if _, e := v.Recv(f + 4*int64(opened-1)); e != 0 {
					monfail("stress/recv-error", "frame within the limit was rejected", fmt.Sprintf("%s stream %d error class %d", cfg, f+4*int64(opened-1), e))
				}
				if r.Intn(8) == 0 {
					runtime.Gosched()
				}
			}
			// wait until the workers are quiet
			last, quiet := int64(-1), 0
			for quiet < 20 && count.Load() < int64(n) {
				time.Sleep(time.Millisecond)
				if c := count.Load(); c == last {
					quiet++
				} else {
					last, quiet = c, 0
				}
			}
			cancel()
			wg.Wait()
			seen := map[int64]int{}
			for _, p := range per {
				for _, id := range p {
					seen[id]++
				}
			}
			// what is still waiting in the map (a wake-up may legitimately come late)
			for {
				c2, cancel2 := context.WithTimeout(context.Background(), 5*time.Millisecond)
				id, e := v.Accept(c2, uni)
				cancel2()
				if e != 0 {
					break
				}
				seen[id]++
			}
			var dup, miss []int64
			for i := 0; i < n; i++ {
				id := f + 4*int64(i)
				switch c := seen[id]; {
				case c == 0:
					miss = append(miss, id)
				case c > 1:
					dup = append(dup, id)
				}
				delete(seen, id)
			}
			total += n
			dups += len(dup)
			missing += len(miss)
			trunc := func(x []int64) []int64 {
				if len(x) > 12 {
					return x[:12]
				}
				return x
			}
			if len(dup) > 0 || len(miss) > 0 || len(seen) > 0 {
				monfail("stress/exactly-once", "concurrent AcceptStream workers did not get each opened stream exactly once",
					fmt.Sprintf("%s: %d workers, peer opens streams %d..%d (1-3 per frame): %d streams returned more than once (first: %v), %d never returned (first: %v), %d unknown IDs", cfg, workers, f, f+4*int64(n-1), len(dup), trunc(dup), len(miss), trunc(miss), len(seen)))
			}
			v.Close()
		}
	}
	fmt.Fprintf(w, "DIST\tstress-streams\t%d\nDIST\tstress-duplicates\t%d\nDIST\tstress-missing\t%d\nDIST\tqueued-rounds\t%d\n", total, dups, missing, 12)
	fmt.Fprintf(w, "INFO\tGOMAXPROCS=%d\n", runtime.GOMAXPROCS(0))
}
