//go:build verif

package main

// simlimits (C12, integration, monitor-only): each advertised limit of each built-in parrot
// is exercised up to its boundary by the in-tree server in a simulated connection. The server
// knows nothing but the client's WIRE parameters (its own parse of the ClientHello), so what
// it does is by construction what a conformant peer may do:
//   max_data        slow reader (the client never reads) + as many streams as needed to send
//                   exactly initial_max_data bytes, each stream within its stream limit
//   sd_uni, sd_bidi_remote, sd_bidi_local   one stream, exactly the advertised stream limit
//   streams_uni, streams_bidi   opens streams until the server's own bookkeeping of the
//                   client's limit says stop
//   cid             nothing to do: the server issues connection IDs according to the
//                   client's active_connection_id_limit by itself
//   datagram        one DATAGRAM as large as the server's SendDatagram accepts
//   idle            silence just below the advertised idle timeout, then one stream
// Observable: the client's context.Cause(Conn.Context()). A locally generated transport error
// or an idle timeout against this peer is a violation of C12:
//   MONFAIL simlimits/<parrot>/<kind>/<config>
// For kinds other than cid the server's connection ID generator stops after three extra IDs
// (a peer may always issue fewer), so that the Firefox parrots survive long enough for the
// other limits to be examined.

import (
	"bufio"
	"context"
	crand "crypto/rand"
	"errors"
	"fmt"
	"io"
	"os"
	"sort"
	"strings"
	"sync"
	"testing/synctest"
	"time"

	quic "github.com/refraction-networking/uquic"
)

func init() { units["simlimits"] = runSimLimits }

type simLimCase struct {
	Client string // parrot name or "plain"
	Kind   int
	Cfg    string
}

func (c simLimCase) key() string {
	return "simlimits/" + c.Client + "/" + kindNames[c.Kind] + "/" + c.Cfg
}
func (c simLimCase) String() string {
	return fmt.Sprintf("client=%s kind=%s config=%s", c.Client, kindNames[c.Kind], c.Cfg)
}

func simLimClientConf(name string) *quic.Config {
	switch name {
	case "roomy":
		return &quic.Config{InitialStreamReceiveWindow: 32 << 20, MaxStreamReceiveWindow: 32 << 20, InitialConnectionReceiveWindow: 64 << 20,
			MaxConnectionReceiveWindow: 64 << 20, MaxIncomingStreams: 200, MaxIncomingUniStreams: 200, EnableDatagrams: true, MaxIdleTimeout: 60 * time.Second}
	case "idle10s":
		return &quic.Config{MaxIdleTimeout: 10 * time.Second}
	case "streams50":
		return &quic.Config{MaxIncomingStreams: 50}
	case "streams4":
		return &quic.Config{MaxIncomingStreams: 4, MaxIncomingUniStreams: 4}
	}
	return &quic.Config{}
}

func simLimConfString(name string) string {
	c := simLimClientConf(name)
	return fmt.Sprintf("quic.Config{InitialStreamReceiveWindow:%d MaxStreamReceiveWindow:%d InitialConnectionReceiveWindow:%d MaxConnectionReceiveWindow:%d MaxIncomingStreams:%d MaxIncomingUniStreams:%d EnableDatagrams:%v MaxIdleTimeout:%v}",
		c.InitialStreamReceiveWindow, c.MaxStreamReceiveWindow, c.InitialConnectionReceiveWindow, c.MaxConnectionReceiveWindow, c.MaxIncomingStreams, c.MaxIncomingUniStreams, c.EnableDatagrams, c.MaxIdleTimeout)
}

// cappedCIDGen: the server's connection ID generator. During the first second of virtual
// time it hands out at most max IDs (the connection's own + three to issue), later it works
// normally (replacements for retired IDs).
type cappedCIDGen struct {
	mu    sync.Mutex
	n     int
	max   int
	until time.Time
}

func (g *cappedCIDGen) GenerateConnectionID() (quic.ConnectionID, error) {
	g.mu.Lock()
	defer g.mu.Unlock()
	if time.Now().Before(g.until) {
		if g.n >= g.max {
			return quic.ConnectionID{}, errors.New("verif: not issuing more connection IDs now")
		}
		g.n++
	}
	b := make([]byte, 4)
	crand.Read(b)
	return quic.ConnectionIDFromBytes(b), nil
}
func (g *cappedCIDGen) ConnectionIDLen() int { return 4 }

const serverIdle = 90 * time.Second

func runOneSimLimit(c simLimCase) (fails []monFail, info string, simcase string) {
	var mu sync.Mutex
	fail := func(key, desc string) {
		mu.Lock()
		fails = append(fails, monFail{key, desc})
		mu.Unlock()
	}
	// the history as events of the C12 game (coq terms) with what was observed of the client
	var hist []string
	var codes []int64
	rec := func(ev string, code int64) {
		mu.Lock()
		hist = append(hist, ev)
		codes = append(codes, code)
		mu.Unlock()
	}
	var kvTerm string
	conformant := c.Kind != kIdleMs
	var infos []string
	note := func(f string, a ...any) {
		mu.Lock()
		infos = append(infos, fmt.Sprintf(f, a...))
		mu.Unlock()
	}
	err := inBubble(func() {
		var captured *quic.Conn
		restore := quic.VerifAdvEnfCapture(func(cc *quic.Conn) { captured = cc })
		defer restore()
		o := simOpts{
			ServerConf: &quic.Config{MaxIdleTimeout: serverIdle, EnableDatagrams: true, MaxIncomingStreams: 10, MaxIncomingUniStreams: 10},
			ClientConf: simLimClientConf(c.Cfg),
		}
		if c.Kind != kCID && c.Kind != kCIDRotate {
			o.SrvTr = func(t *quic.Transport) {
				t.ConnectionIDGenerator = &cappedCIDGen{max: 4, until: time.Now().Add(time.Second)}
			}
		}
		if c.Client == "plain" {
			o.PlainPath = true
		} else {
			sp, err := specFor(c.Client)
			if err != nil {
				fail("simlimits/spec", err.Error())
				return
			}
			o.Spec = sp
		}
		e, err := newSimEnv(o)
		if err != nil {
			fail("simlimits/env", err.Error())
			return
		}
		defer e.Close()
		ctx, cancel := context.WithTimeout(context.Background(), 400*time.Second)
		defer cancel()
		srvCh := make(chan *quic.Conn, 1)
		go func() {
			sc, err := e.Ln.Accept(ctx)
			if err != nil {
				srvCh <- nil
				return
			}
			srvCh <- sc
		}()
		judged := false
		verdict := func(conn *quic.Conn, phase string) bool {
			cause := context.Cause(conn.Context())
			if cause == nil {
				return true
			}
			judged = true // the end of this connection has been judged
			var te *quic.TransportError
			var ie *quic.IdleTimeoutError
			switch {
			case errors.As(cause, &te) && !te.Remote:
				fail(c.key(), fmt.Sprintf("%s: the client closed the connection with a locally generated %v although the peer stayed within the advertised %s limit", phase, te, kindNames[c.Kind]))
			case errors.As(cause, &ie):
				fail(c.key(), fmt.Sprintf("%s: the client gave up the connection (%v) while its peer still relied on the advertised idle timeout", phase, cause))
			default:
				fail(c.key()+"/other", fmt.Sprintf("%s: connection ended with %v", phase, cause))
			}
			return false
		}
		conn, err := e.Dial(ctx)
		if err != nil {
			var te *quic.TransportError
			if errors.As(err, &te) && !te.Remote {
				fail(c.key(), fmt.Sprintf("dial: locally generated %v during the handshake", te))
			} else {
				fail(c.key()+"/dial", "dial failed: "+err.Error())
			}
			<-srvCh
			return
		}
		var sconn *quic.Conn
		select {
		case sconn = <-srvCh:
		case <-time.After(5 * time.Second):
		}
		if sconn == nil {
			// the connection died before the server's Accept returned it
			if verdict(conn, "right after the handshake") {
				fail(c.key()+"/accept", "server did not accept the connection")
			}
			conn.CloseWithError(0, "")
			return
		}
		closeAll := func() {
			conn.CloseWithError(0, "")
			sconn.CloseWithError(0, "")
		}
		// the client's parameters as the in-tree server parsed them from the wire
		synctest.Wait()
		adv, ok := quic.VerifAdvEnfPeerParams(sconn)
		if !ok {
			fail(c.key()+"/noparams", "server has no peer parameters after the handshake")
			closeAll()
			return
		}
		note("wire: max_data=%d sd=%d/%d/%d streams=%d/%d cid=%d dgram=%d idle=%v", adv.InitialMaxData, adv.StreamDataBidiLocal, adv.StreamDataBidiRemote,
			adv.StreamDataUni, adv.MaxBidiStreams, adv.MaxUniStreams, adv.ActiveConnectionIDLimit, adv.MaxDatagramFrameSize, time.Duration(adv.MaxIdleTimeout))
		dgv := adv.MaxDatagramFrameSize
		if dgv < 0 {
			dgv = 0
		}
		kvTerm = fmt.Sprintf("[(1, %d); (4, %d); (5, %d); (6, %d); (7, %d); (8, %d); (9, %d); (14, %d); (32, %d)]", adv.MaxIdleTimeout/1e6, adv.InitialMaxData, adv.StreamDataBidiLocal,
			adv.StreamDataBidiRemote, adv.StreamDataUni, adv.MaxBidiStreams, adv.MaxUniStreams, adv.ActiveConnectionIDLimit, dgv)
		var pto3 time.Duration
		if captured != nil {
			_, pto3 = quic.VerifAdvEnfIdleDeadlineOf(captured)
		}
		silence := func(d time.Duration, code int64) {
			rec(fmt.Sprintf("(EvSilence %d %d %d)", int64(d), int64(serverIdle), int64(pto3)), code)
		}
		// cross-checks with the unit level (same spec/config constructed directly)
		if captured != nil {
			simLimCrossCheck(c, captured, adv, fail)
		}

		var wg sync.WaitGroup
		drive := func(f func()) {
			wg.Add(1)
			go func() { defer wg.Done(); f() }()
		}
		var written, planned, openedStreams, wantStreams int64 // under mu
		var dgramSent int
		writeN := func(w interface{ Write([]byte) (int, error) }, n int64) {
			mu.Lock()
			planned += n
			mu.Unlock()
			buf := make([]byte, 32*1024)
			for n > 0 {
				k := int64(len(buf))
				if k > n {
					k = n
				}
				m, err := w.Write(buf[:k])
				mu.Lock()
				written += int64(m)
				mu.Unlock()
				if err != nil {
					return
				}
				n -= k
			}
		}
		min64 := func(a, b int64) int64 {
			if a < b {
				return a
			}
			return b
		}
		idleExpect := time.Duration(adv.MaxIdleTimeout)
		if idleExpect == 0 || idleExpect > serverIdle {
			idleExpect = serverIdle
		}
		waitLimit := 120 * time.Second
		switch c.Kind {
		case kMaxData:
			total := adv.InitialMaxData
			nU, nB := min64(adv.MaxUniStreams, 20), min64(adv.MaxBidiStreams, 20)
			if nU+nB == 0 || total == 0 {
				note("no stream capacity")
				break
			}
			share := (total + nU + nB - 1) / (nU + nB)
			rem := total
			var plan []int64 // >0 uni, <0 bidi
			for i := int64(0); i < nU && rem > 0; i++ {
				n := min64(min64(share, adv.StreamDataUni), rem)
				plan = append(plan, n)
				rem -= n
			}
			for i := int64(0); i < nB && rem > 0; i++ {
				n := min64(min64(share, adv.StreamDataBidiRemote), rem)
				plan = append(plan, -n)
				rem -= n
			}
			// whatever the shares left over goes to streams that still have stream credit
			for i := range plan {
				if rem <= 0 {
					break
				}
				lim := adv.StreamDataUni
				if plan[i] < 0 {
					lim = adv.StreamDataBidiRemote
				}
				cur := plan[i]
				if cur < 0 {
					cur = -cur
				}
				add := min64(lim-cur, rem)
				if add > 0 {
					if plan[i] < 0 {
						plan[i] -= add
					} else {
						plan[i] += add
					}
					rem -= add
				}
			}
			note("plan: %d streams, %d bytes of %d", len(plan), total-rem, total)
			for i := 0; i < len(plan); {
				j := i
				for j < len(plan) && plan[j] == plan[i] {
					j++
				}
				ty, n := 2, plan[i]
				if n < 0 {
					ty, n = 1, -n
				}
				rec(fmt.Sprintf("(EvFresh %d %d %d)", ty, j-i, n), 0)
				i = j
			}
			for _, n := range plan {
				n := n
				drive(func() {
					if n > 0 {
						s, err := sconn.OpenUniStream()
						if err != nil {
							return
						}
						writeN(s, n)
					} else {
						s, err := sconn.OpenStream()
						if err != nil {
							return
						}
						writeN(s, -n)
					}
				})
			}
		case kSDUni:
			drive(func() {
				s, err := sconn.OpenUniStream()
				if err != nil {
					note("OpenUniStream: %v", err)
					return
				}
				rec(fmt.Sprintf("(EvData 2 %d)", min64(adv.StreamDataUni, adv.InitialMaxData)), 0)
				writeN(s, min64(adv.StreamDataUni, adv.InitialMaxData))
			})
		case kSDBidiRemote:
			drive(func() {
				s, err := sconn.OpenStream()
				if err != nil {
					note("OpenStream: %v", err)
					return
				}
				rec(fmt.Sprintf("(EvData 1 %d)", min64(adv.StreamDataBidiRemote, adv.InitialMaxData)), 0)
				writeN(s, min64(adv.StreamDataBidiRemote, adv.InitialMaxData))
			})
		case kSDBidiLocal:
			cs, err := conn.OpenStreamSync(ctx)
			if err != nil {
				fail(c.key()+"/open", "client could not open a stream: "+err.Error())
				break
			}
			cs.Write([]byte("x"))
			drive(func() {
				s, err := sconn.AcceptStream(ctx)
				if err != nil {
					return
				}
				rec(fmt.Sprintf("(EvData 0 %d)", min64(adv.StreamDataBidiLocal, adv.InitialMaxData)), 0)
				writeN(s, min64(adv.StreamDataBidiLocal, adv.InitialMaxData))
			})
		case kStreamsUni, kStreamsBidi:
			drive(func() {
				opened := int64(0)
				for opened < 100000 {
					var w interface{ Write([]byte) (int, error) }
					var err error
					if c.Kind == kStreamsUni {
						w, err = sconn.OpenUniStream()
					} else {
						w, err = sconn.OpenStream()
					}
					if err != nil {
						break
					}
					opened++
					if _, err := w.Write([]byte{byte(opened)}); err != nil {
						break
					}
				}
				want := adv.MaxUniStreams
				if c.Kind == kStreamsBidi {
					want = adv.MaxBidiStreams
				}
				mu.Lock()
				openedStreams, wantStreams = opened, want
				mu.Unlock()
				note("opened %d streams (advertised %d)", opened, want)
				ty := 1
				if c.Kind == kStreamsUni {
					ty = 2
				}
				if opened > 0 {
					rec(fmt.Sprintf("(EvFresh %d %d 1)", ty, opened), 0)
				}
			})
		case kStreamsUniDone, kStreamsBidiDone:
			// k streams of the peer are completed first (the peer finishes them, the application reads
			// them to EOF and, for bidirectional ones, finishes its own direction), so that the client
			// deletes them and sends MAX_STREAMS; then the peer opens as many streams as it may rely on:
			// the in-tree server's own bookkeeping = max(advertised initial value, MAX_STREAMS received)
			const k = 2
			uni := c.Kind == kStreamsUniDone
			want := adv.MaxBidiStreams
			if uni {
				want = adv.MaxUniStreams
			}
			if want < k+1 {
				note("advertised stream count %d too small for the scenario", want)
				break
			}
			cliDone := make(chan struct{})
			go func() { // the client's application
				defer close(cliDone)
				for i := 0; i < k; i++ {
					if uni {
						s, err := conn.AcceptUniStream(ctx)
						if err != nil {
							return
						}
						io.ReadAll(s)
					} else {
						s, err := conn.AcceptStream(ctx)
						if err != nil {
							return
						}
						io.ReadAll(s)
						s.Close()
					}
				}
			}()
			for i := 0; i < k; i++ {
				if uni {
					if s, err := sconn.OpenUniStream(); err == nil {
						s.Write([]byte("done"))
						s.Close()
					}
				} else if s, err := sconn.OpenStream(); err == nil {
					s.Write([]byte("done"))
					s.Close()
					go io.ReadAll(s)
				}
			}
			select {
			case <-cliDone:
			case <-time.After(5 * time.Second):
				note("the client's application did not get the %d finished streams", k)
			}
			time.Sleep(time.Second) // MAX_STREAMS reaches the peer
			{
				ty, kk := 1, "KSB"
				if uni {
					ty, kk = 2, "KSU"
				}
				rec(fmt.Sprintf("(EvFresh %d %d 4)", ty, k), 0)
				synctest.Wait()
				if v := quic.VerifAdvEnfOutgoingMaxStreams(sconn, uni); v > want {
					rec(fmt.Sprintf("(EvGrant %s %d)", kk, v), v)
				}
			}
			if !verdict(conn, "after the peer's first streams were completed") {
				break
			}
			drive(func() {
				opened := int64(k)
				for opened < 100000 {
					var w interface{ Write([]byte) (int, error) }
					var err error
					if uni {
						w, err = sconn.OpenUniStream()
					} else {
						w, err = sconn.OpenStream()
					}
					if err != nil {
						break
					}
					opened++
					if _, err := w.Write([]byte{byte(opened)}); err != nil {
						break
					}
				}
				mu.Lock()
				openedStreams, wantStreams = opened, opened
				if opened < want {
					wantStreams = want
				}
				mu.Unlock()
				note("opened %d streams in total, %d of them completed before (advertised %d)", opened, k, want)
				if opened > k {
					ty := 1
					if uni {
						ty = 2
					}
					rec(fmt.Sprintf("(EvFresh %d %d 1)", ty, opened-k), 0)
				}
			})
		case kCID:
			waitLimit = 2 * time.Second
			if n := min64(int64(adv.ActiveConnectionIDLimit), 6) - 1; n > 0 {
				rec(fmt.Sprintf("(EvCID %d)", n), 0) // what the in-tree server issues by itself
			}
		case kCIDRotate:
			// The in-tree server never sets Retire Prior To, so the harness makes its connection ID
			// generator do what a peer may do (RFC 9000 5.1.1): issue IDs until the client stores as
			// many as it advertised, then replace the ID the client uses: one more NEW_CONNECTION_ID
			// whose Retire Prior To retires it (and, third step, two at once). The count after the
			// retirement never exceeds the advertised limit.
			waitLimit = time.Second
			time.Sleep(time.Second) // the client's own post-handshake rotation has happened
			if n := min64(int64(adv.ActiveConnectionIDLimit), 6) - 1; n > 0 {
				rec(fmt.Sprintf("(EvCID %d)", n), 0)
				synctest.Wait()
				if a, q := quic.VerifAdvEnfCIDState(conn); a != 0 {
					rec("EvRetireCID", int64(1+q))
				}
			}
			limit := int(adv.ActiveConnectionIDLimit)
			step := func(what string, n int, retire uint64, drop int) bool {
				synctest.Wait()
				active, queued := quic.VerifAdvEnfCIDState(conn)
				rpt := uint64(0)
				if retire > 0 {
					rpt = active + retire
				}
				if n < 0 {
					n = limit - (1 + queued) // fill up to the advertised limit
				}
				if n > 0 {
					if err := quic.VerifAdvEnfServerIssue(sconn, n, rpt, drop); err != nil {
						note("%s: server could not issue: %v", what, err)
						return false
					}
				}
				time.Sleep(500 * time.Millisecond)
				synctest.Wait()
				a2, q2 := quic.VerifAdvEnfCIDState(conn)
				if retire > 0 {
					rec(fmt.Sprintf("(EvCIDRotate %d)", retire), 0)
				} else if n > 0 {
					rec(fmt.Sprintf("(EvCID %d)", n), 0)
				}
				note("%s: %d NEW_CONNECTION_ID (retire_prior_to %d); client used seq %d with %d spare, now seq %d with %d spare (advertised limit %d)", what, n, rpt, active, queued, a2, q2, limit)
				return verdict(conn, what)
			}
			if !step("fill to the advertised limit", -1, 0, 0) {
				break
			}
			if _, q := quic.VerifAdvEnfCIDState(conn); 1+q != limit {
				fail(c.key()+"/underused", fmt.Sprintf("the client stores %d connection IDs after the peer filled the advertised limit %d", 1+q, limit))
			}
			if !step("rotate the connection ID in use at the limit", 1, 1, 1) {
				break
			}
			if limit >= 3 && !step("rotate, retiring two at once", 1, 2, 1) {
				break
			}
			step("rotate again", 1, 1, 1)
		case kDgram:
			if adv.MaxDatagramFrameSize <= 0 {
				note("no datagram support advertised")
				break
			}
			n := min64(adv.MaxDatagramFrameSize-8, 1100)
			for n > 0 {
				err := sconn.SendDatagram(make([]byte, n))
				if err == nil {
					note("sent a DATAGRAM with %d bytes of payload", n)
					rec(fmt.Sprintf("(EvDgramEnc true %d)", n), 0)
					dgramSent = int(n)
					break
				}
				var tl *quic.DatagramTooLargeError
				if errors.As(err, &tl) && tl.MaxDatagramPayloadSize < n {
					n = tl.MaxDatagramPayloadSize
					continue
				}
				note("SendDatagram: %v", err)
				break
			}
		case kIdleMs:
			// silence until one second before the idle timeout the peer derives from the wire
			for {
				e.Router.mu.Lock()
				last := e.Router.log[len(e.Router.log)-1].Time
				e.Router.mu.Unlock()
				silent := time.Since(e.Start) - last
				if silent >= idleExpect-time.Second || conn.Context().Err() != nil {
					note("path silent for %v (expected idle timeout %v)", silent, idleExpect)
					if conn.Context().Err() != nil {
						silence(silent, 4096)
					} else {
						silence(silent, 0)
					}
					break
				}
				time.Sleep(250 * time.Millisecond)
			}
			if verdict(conn, "silence") {
				got := make(chan error, 1)
				go func() {
					actx, acancel := context.WithTimeout(ctx, 3*time.Second)
					defer acancel()
					s, err := conn.AcceptUniStream(actx)
					if err == nil {
						b := make([]byte, 4)
						_, err = s.Read(b)
						if err != nil && string(b) == "ping" {
							err = nil
						}
					}
					got <- err
				}()
				if s, err := sconn.OpenUniStream(); err == nil {
					s.Write([]byte("ping"))
					s.Close()
				} else {
					note("server could not open a stream after the silence: %v", err)
				}
				if err := <-got; err != nil && context.Cause(conn.Context()) == nil {
					fail(c.key(), "data sent by the peer just below the advertised idle timeout did not reach the client's application: "+err.Error())
				}
				// second phase (the game's EvSilence on the real run loop, virtual time): silence from now on;
				// the client must not give up before the idle timeout its peer derives from the wire has
				// elapsed since the last packet it received. (Giving up later is C17's subject.)
				if context.Cause(conn.Context()) == nil {
					time.Sleep(200 * time.Millisecond)
					lastToClient := time.Duration(0)
					e.Router.mu.Lock()
					for _, d := range e.Router.log {
						if d.Dir == 1 && d.Act == "deliver" {
							lastToClient = d.Time
						}
					}
					e.Router.mu.Unlock()
					select {
					case <-conn.Context().Done():
						judged = true // giving up is expected now, only its time is judged
						silent := time.Since(e.Start) - lastToClient
						note("second phase: the client gave up %v after the last packet it was sent (%v)", silent, context.Cause(conn.Context()))
						// the packet took the link latency (5 ms) to arrive: the client's own silence is that much shorter
						silence(silent-6*time.Millisecond-time.Duration(0), 0)
						silence(silent, 4096)
						if silent < idleExpect-10*time.Millisecond {
							fail(c.key(), fmt.Sprintf("the client gave up the connection after %v of silence, before the idle timeout %v its peer derives from the advertised value", silent, idleExpect))
						}
					case <-time.After(idleExpect + 10*time.Second):
						note("second phase: the client is still there %v after the idle timeout", 10*time.Second)
					}
				}
			}
			waitLimit = time.Second
		}
		// wait until the peer has done what it may do (or is blocked on credit), or the client is gone
		doneCh := make(chan struct{})
		go func() { wg.Wait(); close(doneCh) }()
		select {
		case <-doneCh:
		case <-conn.Context().Done():
		case <-time.After(waitLimit):
			note("peer still blocked after %v (slow reader)", waitLimit)
		}
		time.Sleep(time.Second)
		if !judged {
			verdict(conn, "after the peer used the limit")
		}
		if sc := context.Cause(sconn.Context()); sc != nil {
			note("server side: %v", sc)
		}
		// the other half of the property: a peer relying on the advertised values can use them
		// to the full (only judged when the client is still alive)
		if context.Cause(conn.Context()) == nil {
			mu.Lock()
			w, p, os, ws := written, planned, openedStreams, wantStreams
			mu.Unlock()
			e.Router.mu.Lock()
			delivered := e.Router.bytes[1]
			e.Router.mu.Unlock()
			note("peer wrote %d of %d planned bytes; %d bytes delivered to the client", w, p, delivered)
			if w < p || delivered < p {
				fail(c.key()+"/underused", fmt.Sprintf("the peer could only send %d of the %d bytes the advertised limit allows (%d delivered)", w, p, delivered))
			}
			if os != ws {
				fail(c.key()+"/underused", fmt.Sprintf("the peer could only open %d of the %d advertised streams", os, ws))
			}
			if dgramSent > 0 && o.ClientConf.EnableDatagrams {
				dctx, dcancel := context.WithTimeout(ctx, time.Second)
				d, err := conn.ReceiveDatagram(dctx)
				dcancel()
				if err != nil || len(d) != dgramSent {
					fail(c.key()+"/underused", fmt.Sprintf("the DATAGRAM of %d bytes sent by the peer did not reach the client's application (%v, %d bytes)", dgramSent, err, len(d)))
				}
			}
		}
		// the observation for the model: the client's end state goes with the last event (idle scenarios
		// record theirs themselves)
		if code, _ := quic.VerifAdvEnfClassify(context.Cause(conn.Context())); code != 0 && c.Kind != kIdleMs {
			mu.Lock()
			if len(codes) > 0 {
				var ie *quic.IdleTimeoutError
				if errors.As(context.Cause(conn.Context()), &ie) {
					code = 4096
				}
				codes[len(codes)-1] = code
			}
			mu.Unlock()
		}
		closeAll()
		<-doneCh
	})
	if err != nil {
		fail("simlimits/leak-or-panic", err.Error())
	}
	if kvTerm != "" {
		cc := simLimClientConf(c.Cfg)
		dg := 0
		if cc.EnableDatagrams {
			dg = 1
		}
		var ps []string
		for i := range hist {
			ps = append(ps, fmt.Sprintf("(%s, %d)", hist[i], codes[i]))
		}
		simcase = fmt.Sprintf("(SimCase %v %s [%d; %d; %d; %d; %d; %d; %d; %d] %v [%s])", c.Client != "plain", kvTerm, cc.InitialStreamReceiveWindow,
			cc.MaxStreamReceiveWindow, cc.InitialConnectionReceiveWindow, cc.MaxConnectionReceiveWindow, cc.MaxIncomingStreams, cc.MaxIncomingUniStreams, dg,
			int64(cc.MaxIdleTimeout), conformant, strings.Join(ps, "; "))
	}
	return fails, strings.Join(infos, "; "), simcase
}

// advOfClient: the advertised limits of a client as the unit level reads them (direct
// construction, independent reader of the ClientHello).
func advOfClient(client string, conf *quic.Config, peerIdle time.Duration) (adv [kNum]int64, enf quic.VerifAdvEnfEnforced, err error) {
	var sp *quic.QUICSpec
	if client != "plain" {
		if sp, err = specFor(client); err != nil {
			return
		}
	}
	vc, err := quic.VerifAdvEnfBuild(sp, conf, advenfClientTLS())
	if err != nil {
		return
	}
	defer vc.Close()
	ch, err := vc.ClientHello()
	if err != nil {
		return
	}
	ext, ok := chExtension(ch, 57)
	if !ok {
		return adv, enf, errors.New("no extension")
	}
	es, ok := parseTPs(ext)
	if !ok {
		return adv, enf, errors.New("unparsable")
	}
	adv, _ = advertisedOf(es)
	p := advenfPeer
	p.MaxIdleTimeout = peerIdle
	vc.ApplyPeer(p)
	return adv, vc.Enforced(), nil
}

func simLimCrossCheck(c simLimCase, captured *quic.Conn, srv quic.VerifAdvEnfRecord, fail func(string, string)) {
	adv, enfDirect, err := advOfClient(c.Client, simLimClientConf(c.Cfg), serverIdle)
	if err != nil {
		fail("simlimits/direct-build", err.Error())
		return
	}
	dg := srv.MaxDatagramFrameSize
	if dg < 0 {
		dg = 0
	}
	got := [...]int64{srv.InitialMaxData, srv.StreamDataBidiLocal, srv.StreamDataBidiRemote, srv.StreamDataUni, srv.MaxBidiStreams, srv.MaxUniStreams, int64(srv.ActiveConnectionIDLimit), dg}
	for k := 0; k < kIdleMs; k++ {
		if got[k] != adv[k] {
			fail("simlimits/wire-vs-unit/"+c.Client+"/"+kindNames[k], fmt.Sprintf("the in-tree server parsed %d from the wire, the unit-level reader %d", got[k], adv[k]))
		}
	}
	// in-tree parse: max(MinRemoteIdleTimeout 5 s, value)
	if wantIdle := max(adv[kIdleMs], 5000); adv[kIdleMs] > 0 && srv.MaxIdleTimeout/1e6 != wantIdle {
		fail("simlimits/wire-vs-unit/"+c.Client+"/idle", fmt.Sprintf("the in-tree server parsed idle %d ms from the wire, the unit-level reader %d", srv.MaxIdleTimeout/1e6, adv[kIdleMs]))
	}
	enfDial := quic.VerifAdvEnfReadEnforced(captured)
	enfDial.CIDQueueCap, enfDirect.CIDQueueCap = 0, 0 // capacity of a slice that is re-sliced while in use
	if enfDial != enfDirect {
		fail("simlimits/dial-vs-direct/"+c.Client+"/"+c.Cfg, fmt.Sprintf("the dialled connection enforces %+v, the directly constructed one %+v", enfDial, enfDirect))
	}
}

func simLimMatrix() []simLimCase {
	var m []simLimCase
	kinds := []int{kMaxData, kSDBidiLocal, kSDBidiRemote, kSDUni, kStreamsBidi, kStreamsUni, kCID, kDgram, kIdleMs}
	for _, p := range parrotNames { // A: every parrot, every kind, default Config
		for _, k := range kinds {
			m = append(m, simLimCase{p, k, "default-config"})
		}
	}
	for _, p := range parrotNames { // B, C: the Config-dependent kinds
		m = append(m, simLimCase{p, kIdleMs, "idle10s"})
		m = append(m, simLimCase{p, kStreamsBidi, "streams50"})
	}
	for _, p := range append(append([]string{}, parrotNames...), "plain") { // F: connection ID rotation at the advertised limit
		m = append(m, simLimCase{p, kCIDRotate, "default-config"})
	}
	for _, p := range append(append([]string{}, parrotNames...), "plain") { // G: the stream counts after completed streams
		for _, cfg := range []string{"default-config", "streams4"} {
			m = append(m, simLimCase{p, kStreamsUniDone, cfg}, simLimCase{p, kStreamsBidiDone, cfg})
		}
	}
	for _, k := range kinds { // E: the plain client as a control
		m = append(m, simLimCase{"plain", k, "default-config"})
	}
	m = append(m, simLimCase{"plain", kIdleMs, "idle10s"}, simLimCase{"plain", kStreamsBidi, "streams50"})
	for _, p := range parrotNames { // D: a Config raised above every advertised value
		for _, k := range kinds {
			m = append(m, simLimCase{p, k, "roomy"})
		}
	}
	return m
}

func runSimLimits(w *bufio.Writer, seed uint64, n int, args []string) {
	m := simLimMatrix()
	only := ""
	for _, a := range args {
		if strings.HasPrefix(a, "only=") {
			only = strings.TrimPrefix(a, "only=")
		}
	}
	if n > len(m) {
		n = len(m)
	}
	if os.Getenv("VERIF_TIER") == "thorough" {
		n = len(m)
	}
	dist := map[string]int{}
	for i := 0; i < n; i++ {
		c := m[i]
		if only != "" && !strings.Contains(c.key(), only) {
			continue
		}
		t0 := time.Now()
		fails, info, simcase := runOneSimLimit(c)
		nt := 0
		if len(fails) > 0 {
			nt = 1
		}
		if simcase != "" {
			fmt.Fprintf(w, "CASE %d %s\n", nt, simcase)
		}
		dist["kind="+kindNames[c.Kind]]++
		dist["config="+c.Cfg]++
		if len(fails) > 0 {
			dist["violating"]++
		}
		if i%9 == 0 || only != "" {
			fmt.Fprintf(w, "SAMPLE\t%s: %s (wall %v)\n", c.String(), info, time.Since(t0).Round(time.Millisecond))
		}
		for _, f := range fails {
			fmt.Fprintf(w, "MONFAIL\t%s\t%s\t%s; client %s; %s\n", f.key, f.desc, c.String(), simLimConfString(c.Cfg), info)
		}
	}
	keys := make([]string, 0, len(dist))
	for k := range dist {
		keys = append(keys, k)
	}
	sort.Strings(keys)
	for _, k := range keys {
		fmt.Fprintf(w, "DIST\t%s\t%d\n", k, dist[k])
	}
}
