//go:build verif

package main

import (
	"bufio"
	"bytes"
	"crypto/rand"
	"fmt"
	"io"
	"math"
	"net"
	"os"
	"sort"
	"strings"
	"time"

	"github.com/refraction-networking/uquic/internal/handshake"
	"github.com/refraction-networking/uquic/internal/protocol"
	u "github.com/refraction-networking/uquic/internal/verifutil"
	"github.com/refraction-networking/uquic/internal/wire"
)

func init() {
	units["tokens"] = runTokens
	genSources = append(genSources, func() [][2]any {
		return [][2]any{{"TK_Revision", int64(handshake.VerifSessionTicketRevision)}}
	})
}

// ---------------------------------------------------------------------------------------
// tokens unit (C08, monitor-only: AES-GCM, HKDF and encoding/asn1 are oracles, no model):
// internal/handshake/token_generator.go, token_protector.go, session_ticket.go
// Monitors:
//   tokens/roundtrip        DecodeToken(NewRetryToken / NewToken) returns what went in
//   tokens/tamper-accepted  a prefix / bit flip / byte change / foreign key / random string decodes
//   tokens/panic            DecodeToken panics on a byte string an attacker can send
//   tickets/roundtrip       sessionTicket.Unmarshal(Marshal) returns the saved parameters
//   tickets/reject          wrong revision / wrong parameter version / truncated ticket accepted
//   tickets/panic           sessionTicket.Unmarshal panics
//   tickets/extra           addSessionStateExtraPrefix / findSessionStateExtraData round trip
// Explored, reported as INFO (needs the token key, so not attacker reachable):
//   tokens/sealed-payload   what DecodeToken does with a correctly sealed but odd ASN.1 payload
// Randomness: crypto/rand.Reader is scripted from the seed (token nonces); timestamps are
// time.Now(), so tokens differ between runs but every verdict is time independent.
// ---------------------------------------------------------------------------------------

type tkAddr string

func (a tkAddr) Network() string { return "verif" }
func (a tkAddr) String() string  { return string(a) }

type tkGen struct {
	w    *bufio.Writer
	r    *u.Rng
	dist map[string]int
	rd   *tpReader
	tg   *handshake.TokenGenerator
	key  handshake.TokenProtectorKey
	info map[string]int
	// session-ticket correspondence cases
	tkSeen map[string]bool
	tkMax  int
}

func (g *tkGen) monfail(key, desc, detail string) {
	fmt.Fprintf(g.w, "MONFAIL\t%s\t%s\t%s\n", key, desc, detail)
}

func (g *tkGen) note(key, desc, detail string) {
	g.info[key]++
	if g.info[key] <= 6 {
		fmt.Fprintf(g.w, "INFO\tEXPLORED\t%s\t%s\t%s\n", key, desc, detail)
	}
}

func (g *tkGen) refill() { g.rd.buf = g.r.Bytes(64) }

func (g *tkGen) addr() net.Addr {
	r := g.r
	switch r.Intn(5) {
	case 0:
		return &net.UDPAddr{IP: net.IP(r.Bytes(4)), Port: r.Range(1, 65535)}
	case 1:
		return &net.UDPAddr{IP: net.IP(r.Bytes(16)), Port: r.Range(1, 65535)}
	case 2:
		return &net.UDPAddr{IP: net.IPv4(byte(r.U64()), byte(r.U64()), byte(r.U64()), byte(r.U64())), Port: r.Range(0, 65535), Zone: "eth0"}
	case 3:
		return &net.UDPAddr{} // nil IP
	}
	return tkAddr(fmt.Sprintf("peer-%x", r.Bytes(r.Intn(12))))
}

func tkSameAddr(a, b net.Addr) bool {
	return bytes.Equal(handshake.VerifTksEncodeRemoteAddr(a), handshake.VerifTksEncodeRemoteAddr(b))
}

func (g *tkGen) decode(tg *handshake.TokenGenerator, tok []byte, what string) (t *handshake.Token, err error, ok bool) {
	defer func() {
		if e := recover(); e != nil {
			g.monfail("tokens/panic", fmt.Sprintf("DecodeToken panicked (%s): %v", what, e), fmt.Sprintf("key=%x token=%x", g.key, tok))
			ok = false
		}
	}()
	b := make([]byte, len(tok))
	copy(b, tok)
	t, err = tg.DecodeToken(b)
	if !bytes.Equal(b, tok) {
		g.monfail("tokens/roundtrip", "DecodeToken modified its input", fmt.Sprintf("token=%x", tok))
	}
	return t, err, true
}

// every way of damaging a token must make DecodeToken fail
func (g *tkGen) tamper(tok []byte, exhaustive bool) {
	r := g.r
	reject := func(b []byte, what string) {
		g.dist["tamper:"+what]++
		t, err, ok := g.decode(g.tg, b, what)
		if !ok {
			return
		}
		if len(b) == 0 {
			if t != nil || err != nil {
				g.monfail("tokens/roundtrip", "the empty token does not decode to (nil, nil)", "")
			}
			return
		}
		if err == nil {
			g.monfail("tokens/tamper-accepted", "a "+what+" token decodes", fmt.Sprintf("key=%x original=%x tampered=%x", g.key, tok, b))
		}
	}
	step := 1
	if !exhaustive {
		step = 1 + len(tok)/12
	}
	for j := 0; j < len(tok); j += step {
		reject(tok[:j], "truncated")
	}
	for _, j := range []int{0, 1, 31, 32, 33} {
		if j < len(tok) {
			reject(tok[:j], "truncated")
		}
	}
	nflip := 24
	if exhaustive {
		nflip = len(tok) * 8
	}
	for k := 0; k < nflip; k++ {
		bit := k
		if !exhaustive {
			bit = r.Intn(len(tok) * 8)
		}
		b := append([]byte{}, tok...)
		b[bit/8] ^= 1 << uint(bit%8)
		reject(b, "bit-flipped")
	}
	for k := 0; k < 4; k++ {
		b := append([]byte{}, tok...)
		b[r.Intn(len(b))] += byte(r.Range(1, 255))
		reject(b, "byte-changed")
		reject(append(append([]byte{}, tok...), r.Bytes(r.Range(1, 4))...), "extended")
	}
	// another server's key
	var k2 handshake.TokenProtectorKey
	copy(k2[:], r.Bytes(32))
	if k2 != g.key {
		g.dist["tamper:foreign-key"]++
		if _, err, ok := g.decode(handshake.NewTokenGenerator(k2), tok, "foreign key"); ok && err == nil {
			g.monfail("tokens/tamper-accepted", "a token decodes under a different key", fmt.Sprintf("key=%x otherkey=%x token=%x", g.key, k2, tok))
		}
	}
}

func (g *tkGen) retryToken(exhaustive bool, i int) {
	r := g.r
	a := g.addr()
	odcid, rscid := protocol.ParseConnectionID(r.Bytes(i%21)), protocol.ParseConnectionID(r.Bytes((i*8+20)%21))
	g.refill()
	before := time.Now()
	tok, err := g.tg.NewRetryToken(a, odcid, rscid)
	after := time.Now()
	detail := fmt.Sprintf("addr=%v odcid=%x rscid=%x token=%x", a, odcid.Bytes(), rscid.Bytes(), tok)
	if err != nil {
		g.monfail("tokens/roundtrip", "NewRetryToken fails: "+err.Error(), detail)
		return
	}
	g.dist[fmt.Sprintf("retry-token:odcid%d", odcid.Len())]++
	t, err, ok := g.decode(g.tg, tok, "fresh retry token")
	if !ok {
		return
	}
	switch {
	case err != nil || t == nil:
		g.monfail("tokens/roundtrip", fmt.Sprintf("a fresh retry token does not decode: %v", err), detail)
	case !t.IsRetryToken || t.OriginalDestConnectionID != odcid || t.RetrySrcConnectionID != rscid || t.RTT != 0:
		g.monfail("tokens/roundtrip", fmt.Sprintf("retry token decodes to retry=%v odcid=%x rscid=%x rtt=%v", t.IsRetryToken, t.OriginalDestConnectionID.Bytes(), t.RetrySrcConnectionID.Bytes(), t.RTT), detail)
	case !t.ValidateRemoteAddr(a):
		g.monfail("tokens/roundtrip", "retry token does not validate the address it was made for", detail)
	case t.SentTime.Before(before.Truncate(0).Add(-time.Millisecond)) || t.SentTime.After(after.Add(time.Millisecond)):
		g.monfail("tokens/roundtrip", fmt.Sprintf("retry token sent time %v outside [%v, %v]", t.SentTime, before, after), detail)
	default:
		if b := g.addr(); !tkSameAddr(a, b) && t.ValidateRemoteAddr(b) {
			g.monfail("tokens/roundtrip", fmt.Sprintf("retry token validates the foreign address %v", b), detail)
		}
	}
	g.tamper(tok, exhaustive)
}

func (g *tkGen) newToken(exhaustive bool) {
	r := g.r
	a := g.addr()
	rtt := time.Duration(r.Pick(0, 1, 999, 1000, 1001, 1999, 333333, int64(time.Millisecond), int64(25*time.Millisecond), int64(time.Second), int64(time.Hour), math.MaxInt64, int64(r.U64()>>1), -1, -1000, math.MinInt64))
	g.refill()
	tok, err := g.tg.NewToken(a, rtt)
	detail := fmt.Sprintf("addr=%v rtt=%d token=%x", a, int64(rtt), tok)
	if err != nil {
		g.monfail("tokens/roundtrip", "NewToken fails: "+err.Error(), detail)
		return
	}
	g.dist["new-token"]++
	t, err, ok := g.decode(g.tg, tok, "fresh NEW_TOKEN token")
	if !ok {
		return
	}
	want := time.Duration(int64(rtt) / 1000 * 1000) // whole microseconds
	switch {
	case err != nil || t == nil:
		g.monfail("tokens/roundtrip", fmt.Sprintf("a fresh token does not decode: %v", err), detail)
	case t.IsRetryToken || t.OriginalDestConnectionID.Len() != 0 || t.RetrySrcConnectionID.Len() != 0:
		g.monfail("tokens/roundtrip", "a NEW_TOKEN token decodes as a retry token / with connection IDs", detail)
	case t.RTT != want:
		g.monfail("tokens/roundtrip", fmt.Sprintf("token RTT %d, expected %d", int64(t.RTT), int64(want)), detail)
	case !t.ValidateRemoteAddr(a):
		g.monfail("tokens/roundtrip", "token does not validate the address it was made for", detail)
	}
	g.tamper(tok, exhaustive)
}

// correctly sealed payloads that the generator itself never produces
func (g *tkGen) sealedPayloads() {
	r := g.r
	type pl struct {
		name string
		b    []byte
	}
	mk := func(isRetry bool, addr []byte, ts, rtt int64, o, s []byte) []byte {
		b, err := handshake.VerifTokenPayload(isRetry, addr, ts, rtt, o, s)
		if err != nil {
			return nil
		}
		return b
	}
	good := mk(true, []byte{0, 1, 2, 3, 4}, 12345, 0, r.Bytes(8), r.Bytes(8))
	pls := []pl{
		{"empty payload", nil},
		{"truncated ASN.1", good[:len(good)/2]},
		{"trailing byte", append(append([]byte{}, good...), 0)},
		{"random payload", r.Bytes(40)},
		{"21-byte original destination connection ID", mk(true, []byte{0}, 1, 0, r.Bytes(21), r.Bytes(4))},
		{"21-byte retry source connection ID", mk(true, []byte{0}, 1, 0, r.Bytes(4), r.Bytes(21))},
		{"255-byte connection IDs in a non-retry token", mk(false, []byte{0}, 1, 0, r.Bytes(255), r.Bytes(255))},
		{"RTT of MaxInt64 microseconds", mk(false, []byte{0}, 1, math.MaxInt64, nil, nil)},
		{"negative RTT", mk(false, []byte{0}, 1, -5, nil, nil)},
		{"negative timestamp", mk(true, []byte{1}, math.MinInt64, 0, nil, nil)},
	}
	for _, p := range pls {
		g.refill()
		tok, err := handshake.VerifSealToken(g.tg, p.b)
		if err != nil {
			continue
		}
		g.dist["sealed-payload"]++
		var t *handshake.Token
		var derr error
		panicked := ""
		func() {
			defer func() {
				if e := recover(); e != nil {
					panicked = fmt.Sprint(e)
				}
			}()
			t, derr = g.tg.DecodeToken(tok)
		}()
		switch {
		case panicked != "":
			// C08: parsing ANY byte string as a token never panics — a sealed one included (fixed: fixes/C08-6)
			g.monfail("tokens/sealed-cid-panic", "DecodeToken panics on a correctly sealed token with a "+p.name+": "+panicked, fmt.Sprintf("payload=%x token=%x", p.b, tok))
		case derr == nil && t != nil && t.RTT < 0:
			g.note("tokens/sealed-payload", fmt.Sprintf("a correctly sealed token with a %s decodes to RTT %d ns", p.name, int64(t.RTT)), fmt.Sprintf("payload=%x", p.b))
		}
		if pt, err := handshake.VerifOpenToken(g.tg, tok); err != nil || !bytes.Equal(pt, p.b) {
			g.monfail("tokens/roundtrip", "token protector does not return the sealed payload", fmt.Sprintf("payload=%x token=%x", p.b, tok))
		}
	}
}

// ---- session tickets ----

func (g *tkGen) ticketUnmarshal(b []byte) (p *wire.TransportParameters, err error, ok bool) {
	defer func() {
		if e := recover(); e != nil {
			g.monfail("tickets/panic", fmt.Sprintf("sessionTicket.Unmarshal panicked: %v", e), fmt.Sprintf("ticket=%x", b))
			ok = false
		}
	}()
	c := make([]byte, len(b))
	copy(c, b)
	p, err = handshake.VerifTicketUnmarshal(c)
	g.ticketCase(b, p, err)
	return p, err, true
}

// one correspondence case per distinct Unmarshal input (model: coq/Wire/Tickets.v)
func (g *tkGen) ticketCase(b []byte, p *wire.TransportParameters, err error) {
	if g.tkSeen == nil {
		g.tkSeen = map[string]bool{}
	}
	if g.tkSeen[string(b)] || len(g.tkSeen) >= g.tkMax || len(b) > 600 {
		return
	}
	g.tkSeen[string(b)] = true
	cls, aux, ps, nt := 0, uint64(0), "None", 1
	switch {
	case err == nil:
		ps = "(Some " + wire.VerifDumpTParams(p) + ")"
	case err.Error() == "failed to read session ticket revision":
		cls, nt = 1, 0
	case strings.HasPrefix(err.Error(), "unknown session ticket revision: "):
		cls = 2
		fmt.Sscanf(err.Error(), "unknown session ticket revision: %d", &aux)
	case strings.HasPrefix(err.Error(), "unmarshaling transport parameters from session ticket failed: "):
		cls = 3
	default:
		cls = 99
		g.monfail("tickets/errclass", "unclassified error: "+err.Error(), fmt.Sprintf("ticket=%x", b))
	}
	fmt.Fprintf(g.w, "CASE %d (TicketDec %s %d %d %s)\n", nt, u.Hex(b), cls, aux, ps)
	g.dist["ticket-case:dec"]++
}

func (g *tkGen) ticketParams() *wire.TransportParameters {
	r := g.r
	vv := func() uint64 {
		if r.Bool() {
			return tpBounds[r.Intn(len(tpBounds))]
		}
		return r.U64() & tpV8 >> uint(r.Intn(62))
	}
	return &wire.TransportParameters{
		InitialMaxStreamDataBidiLocal: protocol.ByteCount(vv()), InitialMaxStreamDataBidiRemote: protocol.ByteCount(vv()),
		InitialMaxStreamDataUni: protocol.ByteCount(vv()), InitialMaxData: protocol.ByteCount(vv()),
		MaxBidiStreamNum: protocol.StreamNum(vv() % (tpMaxStreams + 1)), MaxUniStreamNum: protocol.StreamNum(vv() % (tpMaxStreams + 1)),
		ActiveConnectionIDLimit: uint64(r.Pick(2, 3, 4, 63, 64, 16383, 16384, int64(tpV8))),
		MaxDatagramFrameSize:    protocol.ByteCount(r.Pick(-1, 0, 1200, 16383, 16384, 65535, int64(tpV8))),
		EnableResetStreamAt:     r.Bool(),
		// fields a ticket does not carry
		MaxIdleTimeout: time.Duration(r.Intn(100)) * time.Second, MaxAckDelay: 25 * time.Millisecond, AckDelayExponent: 3,
		InitialSourceConnectionID: protocol.ParseConnectionID(r.Bytes(8)),
	}
}

func (g *tkGen) ticket(exhaustive bool) {
	r := g.r
	p := g.ticketParams()
	var enc []byte
	func() {
		defer func() {
			if e := recover(); e != nil {
				g.monfail("tickets/panic", fmt.Sprintf("sessionTicket.Marshal panicked: %v", e), "p="+wire.VerifDumpTParams(p))
			}
		}()
		enc = handshake.VerifTicketMarshal(p)
		if g.dist["ticket-case:enc"] < g.tkMax/4 {
			fmt.Fprintf(g.w, "CASE 1 (TicketEnc %s %s)\n", wire.VerifDumpTParams(p), u.Hex(enc))
			g.dist["ticket-case:enc"]++
		}
	}()
	if enc == nil {
		return
	}
	g.dist["ticket"]++
	detail := fmt.Sprintf("p=%s ticket=%x", wire.VerifDumpTParams(p), enc)
	q, err, ok := g.ticketUnmarshal(enc)
	if !ok {
		return
	}
	if err != nil {
		g.monfail("tickets/roundtrip", "a fresh session ticket does not unmarshal: "+err.Error(), detail)
		return
	}
	if e := tpTicketExpect(p); !wire.VerifTParamsEqual(q, e) {
		g.monfail("tickets/roundtrip", "session ticket round trip gives "+wire.VerifDumpTParams(q)+" expected "+wire.VerifDumpTParams(e), detail)
	}
	// the first byte is the ticket revision, the second the parameter marshaling version
	if enc[0] != handshake.VerifSessionTicketRevision {
		g.monfail("tickets/roundtrip", "ticket does not start with the revision", detail)
	}
	for _, rev := range []byte{0, 1, 4, 6, 63} {
		if rev == handshake.VerifSessionTicketRevision {
			continue
		}
		b := append([]byte{rev}, enc[1:]...)
		if _, err, ok := g.ticketUnmarshal(b); ok && err == nil {
			g.monfail("tickets/reject", fmt.Sprintf("session ticket with revision %d accepted", rev), fmt.Sprintf("ticket=%x", b))
		}
		b = append([]byte{enc[0], rev}, enc[2:]...)
		if rev != 1 {
			if _, err, ok := g.ticketUnmarshal(b); ok && err == nil {
				g.monfail("tickets/reject", fmt.Sprintf("session ticket with parameter version %d accepted", rev), fmt.Sprintf("ticket=%x", b))
			}
		}
	}
	// prefixes: never a panic; a cut inside the fixed part cannot be a valid ticket
	step := 1
	if !exhaustive {
		step = 1 + len(enc)/10
	}
	for j := 0; j < len(enc); j += step {
		g.dist["ticket:prefix"]++
		q, err, ok := g.ticketUnmarshal(enc[:j])
		if !ok {
			continue
		}
		if j < 2 && err == nil {
			g.monfail("tickets/reject", "a ticket cut before the parameters is accepted", fmt.Sprintf("ticket=%x", enc[:j]))
		}
		if err == nil { // a cut on a parameter boundary: what was read is a prefix of what was saved
			if _, perr := handshake.VerifTicketUnmarshal(handshake.VerifTicketMarshal(q)); perr != nil {
				g.monfail("tickets/roundtrip", "parameters of an accepted truncated ticket do not survive Marshal: "+perr.Error(), fmt.Sprintf("ticket=%x", enc[:j]))
			}
		}
	}
	nmut := 30
	if exhaustive {
		nmut = len(enc) * 8
	}
	for k := 0; k < nmut; k++ {
		b := append([]byte{}, enc...)
		if exhaustive {
			b[k/8] ^= 1 << uint(k%8)
		} else {
			switch r.Intn(3) {
			case 0:
				b[r.Intn(len(b))] ^= 1 << uint(r.Intn(8))
			case 1:
				b[r.Intn(len(b))] = byte(r.U64())
			default:
				i := r.Intn(len(b))
				b = append(b[:i], append(r.Bytes(r.Range(1, 3)), b[i:]...)...)
			}
		}
		g.dist["ticket:mutated"]++
		q, err, ok := g.ticketUnmarshal(b)
		if ok && err == nil {
			g.dist["ticket:mutated-accepted"]++
			if uint64(q.MaxBidiStreamNum) > tpMaxStreams || uint64(q.MaxUniStreamNum) > tpMaxStreams || q.ActiveConnectionIDLimit < 2 {
				g.monfail("tickets/reject", "a mutated ticket with out-of-range parameters is accepted: "+wire.VerifDumpTParams(q), fmt.Sprintf("ticket=%x", b))
			}
		}
	}
}

func (g *tkGen) extras() {
	r := g.r
	for i := 0; i < 20; i++ {
		data := r.Bytes(r.Intn(40))
		with := handshake.VerifAddExtraPrefix(data)
		var extras [][]byte
		for k := r.Intn(3); k > 0; k-- {
			e := r.Bytes(r.Intn(12))
			if bytes.HasPrefix(e, []byte(handshake.VerifExtraPrefix)) {
				continue
			}
			extras = append(extras, e)
		}
		extras = append(extras, with)
		for k := r.Intn(3); k > 0; k-- {
			extras = append(extras, r.Bytes(r.Intn(12)))
		}
		g.dist["extra"]++
		var got []byte
		func() {
			defer func() {
				if e := recover(); e != nil {
					g.monfail("tickets/panic", fmt.Sprintf("findSessionStateExtraData panicked: %v", e), fmt.Sprintf("extras=%x", extras))
				}
			}()
			got = handshake.VerifFindExtra(extras)
		}()
		if !bytes.Equal(got, data) {
			g.monfail("tickets/extra", fmt.Sprintf("findSessionStateExtraData returns %x, saved %x", got, data), fmt.Sprintf("extras=%x", extras))
		}
	}
	if got := handshake.VerifFindExtra([][]byte{nil, {}, []byte("quic-go"), []byte("quic-go2x")}); got != nil {
		g.monfail("tickets/extra", "findSessionStateExtraData finds data where there is none", fmt.Sprintf("%x", got))
	}
}

func runTokens(w *bufio.Writer, seed uint64, n int, _ []string) {
	g := &tkGen{w: w, r: u.NewRng(seed), dist: map[string]int{}, rd: &tpReader{}, info: map[string]int{}, tkMax: 700}
	if os.Getenv("VERIF_TIER") == "thorough" {
		g.tkMax = 8000
	}
	old := rand.Reader
	rand.Reader = io.Reader(g.rd)
	defer func() { rand.Reader = old }()
	copy(g.key[:], g.r.Bytes(32))
	g.tg = handshake.NewTokenGenerator(g.key)
	for i := 0; i < n; i++ {
		g.retryToken(i < 2, i)
		g.newToken(i < 2)
		g.ticket(i < 3)
	}
	// byte strings that never were tokens / tickets
	for i := 0; i < 4*n; i++ {
		b := g.r.Bytes(g.r.Range(0, 120))
		g.dist["random-token"]++
		if t, err, ok := g.decode(g.tg, b, "random"); ok && len(b) > 0 && err == nil {
			g.monfail("tokens/tamper-accepted", fmt.Sprintf("a random byte string decodes to a token (retry=%v)", t.IsRetryToken), fmt.Sprintf("key=%x token=%x", g.key, b))
		}
		c := g.r.Bytes(g.r.Range(0, 60))
		if g.r.Bool() && len(c) > 1 {
			c[0], c[1] = handshake.VerifSessionTicketRevision, 1
		}
		g.dist["random-ticket"]++
		g.ticketUnmarshal(c)
	}
	g.sealedPayloads()
	g.extras()
	keys := make([]string, 0, len(g.dist))
	for k := range g.dist {
		keys = append(keys, k)
	}
	sort.Strings(keys)
	for _, k := range keys {
		fmt.Fprintf(w, "DIST\t%s\t%d\n", k, g.dist[k])
	}
	fmt.Fprintf(w, "SAMPLE\tretry and NEW_TOKEN tokens for UDP v4/v6/zoned/empty and non-UDP addresses, connection IDs of 0..20 bytes, RTT boundaries; every prefix and bit flip of the first tokens/tickets, sampled ones after; foreign keys; random strings; session tickets with every revision/version byte\n")
}
