//go:build verif

package main

import (
	"bufio"
	crand "crypto/rand"
	"fmt"
	"math/big"
	"strings"

	"github.com/refraction-networking/uquic/internal/ackhandler"
	u "github.com/refraction-networking/uquic/internal/verifutil"
)

// Unit "sendmode" (property C20, claim d and the integration of the congestion controller
// into the ackhandler): the real sentPacketHandler with its real Reno sender, driven like
// a connection does — ask SendMode, send what it allows, receive ACKs, fire the loss timer.
// Correspondence: SendMode's result against the Gallina decision function on the inputs it
// read. Monitors: SendAny only while bytes in flight < window (and not amplification
// limited, tracked packets below the cap); window bounds; at most one reduction per window
// of packets, observed from outside as "one ACK / timer event cuts the window at most once".

func init() {
	units["sendmode"] = runSendMode
	genSources = append(genSources, ackhandler.VerifC20Consts)
}

const (
	smSendNone = iota
	smSendAck
	smSendPTOInitial
	smSendPTOHandshake
	smSendPTOAppData
	smSendPacingLimited
	smSendAny
)

type smPkt struct {
	pn, size, t int64
}

type smGen struct {
	r         *u.Rng
	w         *bufio.Writer
	v         *ackhandler.VerifC20SPH
	mds       int64
	now       int64
	out       [3][]smPkt // ack-eliciting packets not yet acked, per space (harness bookkeeping)
	dropped   [3]bool
	obs       []string
	trace     []string
	dist      map[string]int
	reported  map[string]bool
	sawAny    bool
	lastMode  int   // result of the observe() immediately before a send, -1 otherwise
	instT     int64 // the instant for which instBytes counts
	instBytes int64
}

func (g *smGen) monfail(key, desc string) {
	if g.reported[key] {
		return
	}
	g.reported[key] = true
	fmt.Fprintf(g.w, "MONFAIL\t%s\t%s\t%s\n", key, desc, strings.Join(g.trace, " "))
}

func (g *smGen) tr(f string, a ...any) { g.trace = append(g.trace, fmt.Sprintf(f, a...)) }

// observe: SendMode and the inputs it read; monitors of claim (d) and of the window bounds.
func (g *smGen) observe() int {
	gate := g.v.Gate(g.now)
	m := g.v.SendMode(g.now)
	g.obs = append(g.obs, u.Pair(u.App("G", u.Z(int64(gate.Tracked)), u.B(gate.AmpLimited), u.Z(int64(gate.NumProbes)), u.Z(int64(gate.PtoMode)),
		u.Z(gate.BytesInFlight), u.Z(gate.Cwnd), u.B(gate.HasPacingBudget)), u.Z(int64(m))))
	g.dist[fmt.Sprintf("mode-%d", m)]++
	g.lastMode = m
	if m == smSendAny {
		g.sawAny = true
		// outside a PTO-probe situation new data is only released while the pacer has budget
		if gate.NumProbes == 0 && gate.BytesInFlight < gate.Cwnd && !gate.HasPacingBudget {
			g.monfail("sendmode/any-without-pacing-budget", fmt.Sprintf("SendMode=any at t=%d although the pacer has no budget (HasPacingBudget false; %d bytes already released at this instant, %d in flight, window %d, no probe packet due, ptoMode %d)", g.now, g.instBytes, gate.BytesInFlight, gate.Cwnd, gate.PtoMode))
		}
		if gate.BytesInFlight >= gate.Cwnd {
			g.monfail("sendmode/any-above-window", fmt.Sprintf("SendMode=any with %d bytes in flight >= window %d", gate.BytesInFlight, gate.Cwnd))
		}
		if !gate.PeerAddressValidated && gate.BytesSent >= 3*gate.BytesRecvd {
			g.monfail("sendmode/any-amplification", fmt.Sprintf("SendMode=any although sent %d >= 3 x received %d before address validation", gate.BytesSent, gate.BytesRecvd))
		}
		if gate.Tracked >= 20000 {
			g.monfail("sendmode/any-too-many-tracked", fmt.Sprintf("SendMode=any while tracking %d packets", gate.Tracked))
		}
	}
	if gate.NumProbes > 0 && gate.PtoMode != smSendPTOInitial && gate.PtoMode != smSendPTOHandshake && gate.PtoMode != smSendPTOAppData {
		g.monfail("sendmode/ptomode", fmt.Sprintf("probes to send but ptoMode=%d", gate.PtoMode))
	}
	if gate.Cwnd > 10000*g.mds+g.mds {
		g.monfail("sendmode/cwnd-above-max", fmt.Sprintf("cwnd %d above maximum (mds %d)", gate.Cwnd, g.mds))
	}
	return m
}

// event wraps a call that may report losses to the congestion controller: one such event
// (one ACK frame, one timer expiry) concerns packets that were all sent before it, so the
// window may be cut at most once: cwnd_after >= max(0.7 x cwnd_before, 2 x mds) (1 byte slack
// for the float conversion).
func (g *smGen) event(kind string, f func() error) {
	g.instT = -1 // an ACK / timer event changes window and bandwidth estimate: a new accounting instant
	before := g.v.Cwnd()
	err := f()
	after := g.v.Cwnd()
	if err != nil {
		g.dist["event-error"]++
	}
	if after < before {
		g.dist["window-reduced"]++
		floor := before*7/10 - 1
		if floor < 2*g.mds {
			floor = 2 * g.mds
		}
		if after < floor {
			g.dist["multi-cut"]++
			g.monfail("sendmode/multi-cut-pn-spaces", fmt.Sprintf("one %s event cut the window more than once: %d -> %d (a single 0.7x cut gives >= %d); packet numbers of different spaces defeat the once-per-window guard", kind, before, after, floor))
		}
	}
}

// burstAllowance: what the pacer may release at one instant: max(10 datagrams, 1.25 x cwnd/srtt x 2ms).
func (g *smGen) burstAllowance() int64 {
	a := 10 * g.mds
	srtt := int64(g.v.Rtt.SmoothedRTT())
	if srtt == 0 {
		srtt = 1_000_000 // a smoothed RTT of 0 (sub-microsecond samples) counts as the timer granularity, 1ms
	}
	if srtt > 0 {
		x := new(big.Int).Mul(big.NewInt(5*2_000_000), big.NewInt(g.v.Cwnd()))
		x.Quo(x, big.NewInt(4))
		x.Quo(x, big.NewInt(srtt))
		if x.IsInt64() && x.Int64() > a {
			a = x.Int64()
		}
	}
	return a
}

func (g *smGen) send(enc int, size int64, eliciting bool) {
	// bytes released under SendMode=any at one instant never exceed the pacer's burst allowance
	if g.instT != g.now {
		g.instT, g.instBytes = g.now, 0
	}
	if g.lastMode == smSendAny {
		g.instBytes += size
		if al := g.burstAllowance(); g.instBytes > al {
			g.dist["burst-above-allowance"]++
			g.monfail("sendmode/burst-above-allowance", fmt.Sprintf("%d bytes released under SendMode=any at the single instant t=%d, the pacer's burst allowance is %d (cwnd %d)", g.instBytes, g.now, al, g.v.Cwnd()))
		}
	}
	g.lastMode = -1
	pn := g.v.PopPN(enc) // the handler's own generator (it skips numbers in the 1-RTT space)
	g.tr("(sent t=%d enc=%d pn=%d size=%d ae=%v)", g.now, enc, pn, size, eliciting)
	g.v.Sent(g.now, pn, enc, size, eliciting)
	if eliciting {
		g.out[enc] = append(g.out[enc], smPkt{pn, size, g.now})
	}
	g.dist["sent"]++
}

func (g *smGen) pickEnc() int {
	var c []int
	for e := 0; e < 3; e++ {
		if !g.dropped[e] {
			c = append(c, e)
		}
	}
	e := c[g.r.Intn(len(c))]
	if !g.dropped[2] && g.r.Chance(1, 2) {
		e = 2
	}
	return e
}

// ack some of the outstanding packets of one space: largest acked chosen among them, a few holes
func (g *smGen) ack() {
	r := g.r
	enc := g.pickEnc()
	o := g.out[enc]
	if len(o) == 0 {
		return
	}
	hi := r.Intn(len(o))
	if r.Chance(2, 3) {
		hi = len(o) - 1 - r.Intn(min(3, len(o)))
	}
	// choose acked set among o[0..hi]: always o[hi]; others with prob
	p := r.Pick(0, 1, 2, 3, 4) // 0: only largest
	acked := map[int64]bool{o[hi].pn: true}
	for i := 0; i < hi; i++ {
		if p > 0 && r.Intn(4) < int(p) {
			acked[o[i].pn] = true
		}
	}
	// ranges, highest first
	var ranges [][2]int64
	for pn := o[hi].pn; pn >= o[0].pn; pn-- {
		if !acked[pn] {
			continue
		}
		if n := len(ranges); n > 0 && ranges[n-1][0] == pn+1 {
			ranges[n-1][0] = pn
		} else {
			ranges = append(ranges, [2]int64{pn, pn})
		}
	}
	g.tr("(ack t=%d enc=%d %v)", g.now, enc, ranges)
	g.event("ACK", func() error { return g.v.Ack(g.now, enc, ranges, int64(r.Range(0, 20))*1_000_000) })
	g.dist["ack"]++
	g.resync(enc, acked)
}

// resync the harness's outstanding list: drop acked ones; packets the handler declared lost
// are dropped lazily (bytes in flight comes from the handler, not from this list).
func (g *smGen) resync(enc int, acked map[int64]bool) {
	var keep []smPkt
	maxAcked := int64(-1)
	for pn := range acked {
		if pn > maxAcked {
			maxAcked = pn
		}
	}
	for _, p := range g.out[enc] {
		if acked[p.pn] {
			continue
		}
		if p.pn+3 <= maxAcked {
			continue // lost by the packet threshold
		}
		keep = append(keep, p)
	}
	g.out[enc] = keep
}

func (g *smGen) advance() {
	r := g.r
	switch r.Intn(8) {
	case 0:
	case 1:
		g.now += int64(r.Range(1, 1000))
	case 2, 3:
		g.now += int64(r.Range(1, 1000)) * 1000
	case 4, 5, 6:
		g.now += int64(r.Range(1, 60)) * 1_000_000
	case 7:
		g.now += int64(r.Range(1, 3)) * 1_000_000_000
	}
}

func (g *smGen) step() {
	r := g.r
	m := g.observe()
	switch x := r.Intn(100); {
	case x < 55:
		// behave like the connection: send what SendMode allows
		switch m {
		case smSendAny:
			size := g.mds
			if r.Chance(1, 4) {
				size = int64(r.Range(30, int(g.mds)))
			}
			g.send(g.pickEnc(), size, !r.Chance(1, 10))
		case smSendAck:
			if r.Chance(1, 2) {
				g.send(g.pickEnc(), int64(r.Range(25, 60)), false)
			}
		case smSendPTOInitial, smSendPTOHandshake, smSendPTOAppData:
			enc := m - smSendPTOInitial
			if !g.dropped[enc] {
				g.send(enc, int64(r.Range(30, int(g.mds))), true)
			}
		case smSendPacingLimited:
			g.dist["pacing-limited"]++
			// what the connection does: ask the handler when to try again, and wait until then
			if t := g.v.TimeUntilSend(); t > g.now {
				if r.Chance(3, 4) {
					g.now = t
				} else {
					g.now += (t - g.now) / 2
				}
			} else {
				g.monfail("sendmode/pacing-livelock", fmt.Sprintf("SendMode=pacing-limited at t=%d but TimeUntilSend=%d is not in the future", g.now, t))
				g.now += int64(r.Range(1, 3)) * 1_000_000
			}
		case smSendNone:
			if r.Chance(1, 2) {
				g.tr("(received %d bytes)", 1200)
				g.v.ReceivedBytes(1200, g.now)
			}
		}
	case x < 78:
		g.advance()
		g.ack()
	case x < 84:
		g.advance()
	case x < 90:
		// loss detection / PTO timer
		if t := g.v.LossTimeout(); t != 0 {
			if t > g.now {
				g.now = t
			}
			g.tr("(timer t=%d)", g.now)
			g.event("loss-timer", func() error { return g.v.OnLossTimeout(g.now) })
			g.dist["timer"]++
			// whatever the timer declared lost is gone from the handler's history; forget old packets
			for e := 0; e < 3; e++ {
				var keep []smPkt
				for _, p := range g.out[e] {
					if g.now-p.t < 1_000_000 {
						keep = append(keep, p)
					}
				}
				if len(keep) != len(g.out[e]) && r.Chance(1, 2) {
					g.out[e] = keep
				}
			}
		}
	case x < 93:
		n := int64(r.Range(40, 1500))
		g.tr("(received %d bytes)", n)
		g.v.ReceivedBytes(n, g.now)
		if r.Chance(1, 3) {
			g.tr("(received handshake packet)")
			g.v.ReceivedPacket(1, g.now)
		}
	case x < 95:
		for e := 0; e < 2; e++ {
			if !g.dropped[e] && (e == 0 || g.dropped[0]) {
				g.tr("(drop enc=%d)", e)
				g.v.DropPackets(e, g.now)
				g.dropped[e] = true
				g.out[e] = nil
				break
			}
		}
	case x < 96:
		if g.mds < 1452 {
			g.mds = 1452
			g.tr("(mtu 1452)")
			g.v.SetMaxDatagramSize(1452)
		}
	default:
		// a burst: send full-size packets as long as SendMode says "any"
		for i := 0; i < 40 && g.observe() == smSendAny; i++ {
			g.send(g.pickEnc(), g.mds, true)
		}
	}
}

// emitSenderTrace: the calls the handler made on its congestion controller during this history
// (recorded by the spy between the two), as a case of the sender model: the Gallina cubicSender
// is replayed on the call sequence — order and arguments — that the real sentPacketHandler issued.
func (g *smGen) emitSenderTrace() {
	spy := g.v.Spy
	if len(spy.Steps) == 0 {
		return
	}
	fmt.Fprintf(g.w, "CASE 1 %s\n", u.App("CubicCase", u.Z(spy.Mds0), "true", u.List(spy.Steps)))
	for k, n := range spy.Calls {
		g.dist["handler-calls-"+k] += n
	}
	// C20_cut_once_per_window excludes OnRetransmissionTimeout between the two reductions because no
	// production code calls it (OnConnectionMigration is not even part of the SendAlgorithm interface):
	// checked here on every history, not only by grep.
	if n := spy.Calls["OnRetransmissionTimeout"]; n > 0 && !g.reported["info-rto"] {
		g.reported["info-rto"] = true
		fmt.Fprintf(g.w, "INFO\tsentPacketHandler called OnRetransmissionTimeout %d times: the no-reset hypothesis of C20_cut_once_per_window is no longer guaranteed by the call sites\n", n)
	}
	g.dist["sender-trace-steps"] += len(spy.Steps)
}

// ackPns acknowledges exactly the given packet numbers (ascending) of one space.
func (g *smGen) ackPns(enc int, pns []int64) {
	var ranges [][2]int64
	acked := map[int64]bool{}
	for i := len(pns) - 1; i >= 0; i-- {
		acked[pns[i]] = true
		if n := len(ranges); n > 0 && ranges[n-1][0] == pns[i]+1 {
			ranges[n-1][0] = pns[i]
		} else {
			ranges = append(ranges, [2]int64{pns[i], pns[i]})
		}
	}
	g.tr("(ack t=%d enc=%d %v)", g.now, enc, ranges)
	g.event("ACK", func() error { return g.v.Ack(g.now, enc, ranges, 0) })
	g.dist["ack"]++
	g.resync(enc, acked)
}

// burstAtOneInstant: the application has a lot to send: as many full-size 1-RTT packets as SendMode allows, all at g.now.
func (g *smGen) burstAtOneInstant(limit int) (pns []int64) {
	for i := 0; i < limit && g.observe() == smSendAny; i++ {
		g.send(2, g.mds, true)
		pns = append(pns, g.out[2][len(g.out[2])-1].pn)
	}
	return pns
}

// ptoThenBurst: handshake confirmed; one burst sent and acknowledged; a tail packet whose ACK does
// not arrive: the 1-RTT PTO fires, the probe packets are sent and acknowledged (the PTO episode is
// over); later the application wants to send far more than one pacer burst at a single instant.
func (g *smGen) ptoThenBurst() {
	r := g.r
	for e := 0; e < 2; e++ {
		if !g.dropped[e] {
			g.tr("(drop enc=%d)", e)
			g.v.DropPackets(e, g.now)
			g.dropped[e] = true
			g.out[e] = nil
		}
	}
	if !g.dropped[2] && len(g.out[2]) == 0 {
		if pns := g.burstAtOneInstant(r.Range(3, 14)); len(pns) > 0 {
			g.now += int64(r.Range(20, 120)) * 1_000_000
			g.ackPns(2, pns)
		}
	}
	g.now += int64(r.Range(200, 1500)) * 1_000_000
	if g.observe() != smSendAny {
		return
	}
	g.send(2, g.mds, true) // the tail packet
	t := g.v.LossTimeout()
	if t == 0 {
		return
	}
	if t > g.now {
		g.now = t
	}
	g.tr("(timer t=%d)", g.now)
	g.event("loss-timer", func() error { return g.v.OnLossTimeout(g.now) })
	g.dist["timer"]++
	var probes []int64
	for i := 0; i < 2 && g.observe() == smSendPTOAppData; i++ {
		g.send(2, int64(r.Range(60, int(g.mds))), true)
		probes = append(probes, g.out[2][len(g.out[2])-1].pn)
	}
	if len(probes) == 0 {
		return
	}
	g.now += int64(r.Range(20, 120)) * 1_000_000
	g.ackPns(2, probes)
	g.out[2] = nil // the tail packet is now lost (packet threshold) or still pending; forget it
	g.now += int64(r.Range(100, 2000)) * 1_000_000
	n := len(g.burstAtOneInstant(45))
	g.dist["pto-then-burst"]++
	if n > 10 {
		g.dist["pto-then-burst-above-10-packets"]++
	}
}

// handshakeFlightLoss: a server sends its Handshake flight (pn 0..k) followed by 1-RTT
// packets (pn 0..j), the head of the flight is lost, the client acknowledges its tail.
func (g *smGen) handshakeFlightLoss(k, j int) {
	for i := 0; i <= k; i++ {
		g.send(1, g.mds, true)
		g.now += 10_000
	}
	for i := 0; i <= j; i++ {
		g.send(2, g.mds, true)
		g.now += 10_000
	}
	g.now += 30_000_000
	g.observe()
	g.tr("(ack t=%d enc=1 [[%d %d]])", g.now, k, k)
	g.event("ACK", func() error { return g.v.Ack(g.now, 1, [][2]int64{{int64(k), int64(k)}}, 0) })
	g.resync(1, map[int64]bool{int64(k): true})
	g.observe()
}

// smRandReader makes crypto/rand (used by the packet number generator's skipping) a
// function of the seed, so that the same seed gives the same cases.
type smRandReader struct{ r *u.Rng }

func (s smRandReader) Read(b []byte) (int, error) {
	for i := range b {
		b[i] = byte(s.r.U64())
	}
	return len(b), nil
}

func runSendMode(w *bufio.Writer, seed uint64, n int, _ []string) {
	root := u.NewRng(seed*0x9E3779B97F4A7C15 + 0x5bd1e995)
	crand.Reader = smRandReader{u.NewRng(seed*0x9E3779B97F4A7C15 + 77)}
	dist := map[string]int{}
	reported := map[string]bool{}
	for ci := 0; ci < n; ci++ {
		r := root.Fork()
		server := r.Chance(1, 2)
		validated := r.Chance(1, 2)
		mds := r.Pick(1200, 1252, 1280, 1452)
		g := &smGen{r: r, w: w, v: ackhandler.VerifC20NewSPH(mds, server, validated), mds: mds, now: int64(r.Range(1, 1_000_000_000)),
			dist: dist, reported: reported}
		g.tr("(new mds=%d server=%v validated=%v)", mds, server, validated)
		if server {
			g.v.ReceivedBytes(1200, g.now)
			g.tr("(received 1200 bytes)")
		}
		if ci == 0 {
			// fixed first case: the smallest handshake-flight scenario
			g.v = ackhandler.VerifC20NewSPH(1280, true, true)
			g.mds = 1280
			g.trace = []string{"(new mds=1280 server=true validated=true)"}
			g.handshakeFlightLoss(5, 0)
		} else if ci == 1 {
			// fixed second case: PTO episode in the 1-RTT space, then a large burst
			g.v = ackhandler.VerifC20NewSPH(1200, true, true)
			g.mds = 1200
			g.trace = []string{"(new mds=1200 server=true validated=true)"}
			g.ptoThenBurst()
		} else if r.Chance(1, 8) {
			g.ptoThenBurst()
		} else if r.Chance(1, 10) {
			g.handshakeFlightLoss(r.Range(3, 8), r.Range(0, 2))
		}
		nops := r.Range(5, 60)
		for k := 0; k < nops; k++ {
			g.step()
		}
		g.observe()
		nt := 0
		if g.sawAny {
			nt = 1
		}
		fmt.Fprintf(w, "CASE %d %s\n", nt, u.App("SendModeCase", u.List(g.obs)))
		g.emitSenderTrace()
		if ci < 2 {
			fmt.Fprintf(w, "SAMPLE\t%s\n", strings.Join(g.trace, " "))
		}
	}
	// the tracked-packets caps: 1-byte ack-eliciting packets so that the window is not the limit
	{
		g := &smGen{r: root.Fork(), w: w, v: ackhandler.VerifC20NewSPH(1280, false, true), mds: 1280, now: 1000, dist: dist, reported: reported}
		g.tr("(new mds=1280 client; 25010 one-byte packets)")
		for i := 0; i < 25010; i++ {
			if i%2500 == 0 || (i >= 19995 && i <= 20005) || i >= 24995 {
				g.observe()
			}
			g.v.Sent(g.now, g.v.PopPN(2), 2, 1, true)
			g.now += 10_000 // slower than the pacing rate, so that the pacer is not what limits
		}
		g.observe()
		fmt.Fprintf(w, "CASE 1 %s\n", u.App("SendModeCase", u.List(g.obs)))
		g.emitSenderTrace()
	}
	for k, v := range dist {
		fmt.Fprintf(w, "DIST\t%s\t%d\n", k, v)
	}
}
