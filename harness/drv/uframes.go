//go:build verif

package main

// Unit `uframes` (C09): QUICFrames.build, QUICRandomFrames.buildInternal and
// QUICMultiDatagramFrames on the real code, with crypto/rand scripted and math/rand seeded.
// Every build is judged by the model-independent monitors of uframes_common.go; a subset
// is also printed as CASE terms for the bit-exact replay by the Gallina model.

import (
	"bufio"
	"fmt"
	"os"
	"sort"

	quic "github.com/refraction-networking/uquic"
	u "github.com/refraction-networking/uquic/internal/verifutil"
)

func init() {
	units["uframes"] = runUFrames
	genSources = append(genSources, quic.VerifUFramesConsts)
}

func draws() int {
	if os.Getenv("VERIF_TIER") == "thorough" {
		return 400
	}
	return 25
}

// genRF draws a QUICRandomFrames parameterisation. kind tells what was drawn (for DIST).
func genRF(r *u.Rng, n int) (quic.QUICRandomFrames, string) {
	var f quic.QUICRandomFrames
	small := func() uint8 { return uint8(r.Intn(6)) }
	kind := "typical"
	switch r.Intn(12) {
	case 0: // zero value
		kind = "zero"
	case 1: // Min = Max everywhere
		kind = "min=max"
		a, b, c := small(), uint8(r.Range(1, 6)), uint8(r.Range(1, 4))
		f = quic.QUICRandomFrames{MinPING: a, MaxPING: a, MinCRYPTO: b, MaxCRYPTO: b, MinPADDING: c, MaxPADDING: c}
	case 2: // 255s
		kind = "255"
		f = quic.QUICRandomFrames{MinPING: uint8(r.Pick(0, 1, 255)), MaxPING: uint8(r.Pick(3, 255)), MinCRYPTO: uint8(r.Pick(1, 2, 255)), MaxCRYPTO: 255,
			MinPADDING: uint8(r.Pick(1, 255)), MaxPADDING: 255}
	case 3: // inverted / invalid bounds
		kind = "invalid"
		f = quic.QUICRandomFrames{MinPING: small(), MaxPING: small(), MinCRYPTO: small(), MaxCRYPTO: small(), MinPADDING: small(), MaxPADDING: small()}
	case 4: // more CRYPTO frames than bytes
		kind = "crypto>bytes"
		lo := uint8(min(255, n+r.Intn(3)))
		f = quic.QUICRandomFrames{MinPING: 0, MaxPING: small(), MinCRYPTO: max(lo, 1), MaxCRYPTO: uint8(min(255, int(lo)+r.Intn(4))), MinPADDING: 1, MaxPADDING: uint8(r.Range(1, 5))}
	default:
		a, b, c := small(), uint8(r.Range(1, 5)), uint8(r.Range(1, 4))
		f = quic.QUICRandomFrames{MinPING: a, MaxPING: a + small(), MinCRYPTO: b, MaxCRYPTO: b + small(), MinPADDING: c, MaxPADDING: c + small()}
	}
	// Length: 0, around the natural size, below it, well above it
	natural := n + 2 + int(f.MinPING)
	switch r.Intn(8) {
	case 0, 1:
		f.Length = 0
	case 2, 3, 4:
		f.Length = uint16(max(0, min(65535, natural+r.Range(-6, 30))))
	case 5:
		f.Length = uint16(r.Intn(natural + 1))
	case 6:
		f.Length = uint16(min(65535, natural+r.Range(30, 700)))
	default:
		f.Length = uint16(r.Pick(1, 2, 1200, 1252))
	}
	if kind == "zero" {
		f.Length = 0
	}
	return f, kind
}

func rfCountBounds(f quic.QUICRandomFrames, n int) (pingLo, pingHi, cLo, cHi int) {
	pingLo, pingHi = int(f.MinPING), int(f.MinPING)
	if f.MaxPING > f.MinPING {
		pingHi = int(f.MaxPING) - 1
	}
	cLo, cHi = int(f.MinCRYPTO), int(f.MinCRYPTO)
	if f.MaxCRYPTO > f.MinCRYPTO {
		cHi = int(f.MaxCRYPTO) - 1
	}
	if n == 0 {
		return pingLo, pingHi, 1, 1
	}
	return pingLo, pingHi, min(cLo, n), min(cHi, n)
}

// monitorRF judges one successful buildInternal output.
func monitorRF(w *bufio.Writer, key string, f quic.QUICRandomFrames, data []byte, base uint64, payload []byte, detail func() string) {
	msg, fc := checkCover([][]byte{payload}, data, base, true)
	if msg != "" {
		monfail(w, key+"/cover", "QUICRandomFrames output does not carry the ClientHello exactly: "+msg, detail())
		return
	}
	pl, ph, cl, ch := rfCountBounds(f, len(data))
	if fc.ping < pl || fc.ping > ph || fc.crypto < cl || fc.crypto > ch {
		monfail(w, key+"/counts", fmt.Sprintf("frame counts out of the configured bounds: %d PING (want %d..%d), %d CRYPTO (want %d..%d)", fc.ping, pl, ph, fc.crypto, cl, ch), detail())
	}
	if len(payload) < int(f.Length) || (fc.padBytes > 0 && f.Length == 0) || (fc.padBytes > 0 && len(payload) != int(f.Length)) {
		monfail(w, key+"/length", fmt.Sprintf("payload is %d bytes with %d PADDING bytes, Length=%d", len(payload), fc.padBytes, f.Length), detail())
	}
}

func runUFrames(w *bufio.Writer, seed uint64, n int, _ []string) {
	seedSetup()
	if !seedCheck(w) {
		return
	}
	root := u.NewRng(u.NewRng(seed).U64()) // mixed: NewRng(s) and NewRng(s+1) are shifted copies of each other
	dist := map[string]int{}
	nd := draws()
	samples := 0

	// ---- QUICRandomFrames / QUICMultiDatagramFrames ----
	for i := 0; i < n; i++ {
		r := root.Fork()
		multi := r.Intn(4) == 0
		dlen := pickLen(r, true)
		data := testData(r, dlen)
		base := pickBase(r, dlen)
		f, kind := genRF(r, dlen)
		var md *quic.QUICMultiDatagramFrames
		idx := 0
		if multi {
			md = &quic.QUICMultiDatagramFrames{}
			for k := r.Intn(4); k > 0; k-- {
				g, _ := genRF(r, dlen)
				md.PerDatagram = append(md.PerDatagram, g)
			}
			idx = r.Intn(5)
			if len(md.PerDatagram) > 0 {
				f = md.PerDatagram[min(idx, len(md.PerDatagram)-1)]
			}
			kind = "multi"
		}
		dist["rf:"+kind]++
		build := func(data []byte, base uint64) ([]byte, error) {
			if multi {
				return md.BuildForDatagram(idx, data, base)
			}
			if base == 0 {
				return f.Build(data)
			}
			return f.BuildForDatagram(idx, data, base)
		}
		// (a) one draw that is also replayed by the model
		mseed := int64(r.U64() >> 1)
		var payload []byte
		var err error
		consumed, pan := withScript(r, mseed, func() { payload, err = build(data, base) })
		// the shuffle draws one uint32 per frame (plus rare rejections): an upper bound of
		// the frame count is enough oracle
		nframes := int(f.MaxPING) + int(f.MaxCRYPTO) + int(f.MaxPADDING)
		if err == nil && pan == nil {
			if _, fc := checkCover([][]byte{payload}, data, base, false); fc.ping+fc.crypto+fc.padBytes < nframes {
				nframes = fc.ping + fc.crypto + fc.padBytes
			}
		}
		us := u32Stream(mseed, nframes+10)
		detail := func() string {
			return fmt.Sprintf("rf=%+v multi=%v idx=%d len=%d base=%d data=%x rand=%x mseed=%d", f, multi, idx, dlen, base, data, consumed, mseed)
		}
		nt := 0
		if pan != nil {
			monfail(w, "uframes/panic", fmt.Sprintf("QUICRandomFrames build panicked: %v", pan), detail())
		} else if err == nil {
			nt = 1
			monitorRF(w, "uframes/rf", f, data, base, payload, detail)
		} else if errClass(err) == 99 {
			monfail(w, "uframes/rf/error", "unexpected error class: "+err.Error(), detail())
		}
		if multi {
			specs := make([]string, len(md.PerDatagram))
			for k, g := range md.PerDatagram {
				specs[k] = rfTerm(g)
			}
			fmt.Fprintf(w, "CASE %d %s\n", nt, u.App("MDCase", u.List(specs), u.Z(int64(idx)), u.Hex(data), u.ZU(base), u.Hex(consumed), u.ZList(us), resTerm(payload, err, pan)))
		} else {
			fmt.Fprintf(w, "CASE %d %s\n", nt, u.App("RFCase", rfTerm(f), u.Hex(data), u.ZU(base), u.Hex(consumed), u.ZList(us), resTerm(payload, err, pan)))
		}
		if samples < 2 && err == nil && pan == nil && dlen < 40 {
			samples++
			fmt.Fprintf(w, "SAMPLE\tQUICRandomFrames%+v data=%x base=%d rand=%x -> %x\n", f, data, base, consumed, payload)
		}
		// (b) many more draws of the same configuration, judged by the monitors only,
		// with ClientHello lengths up to 4000
		for d := 0; d < nd; d++ {
			dl := dlen
			dd := data
			bb := base
			if d%2 == 1 {
				dl = pickLen(r, false)
				dd = testData(r, dl)
				bb = pickBase(r, dl)
			}
			ms := int64(r.U64() >> 1)
			var p2 []byte
			var e2 error
			c2, pan2 := withScript(r, ms, func() { p2, e2 = build(dd, bb) })
			det := func() string {
				return fmt.Sprintf("rf=%+v multi=%v idx=%d len=%d base=%d data=%x rand=%x mseed=%d", f, multi, idx, dl, bb, dd, c2, ms)
			}
			dist["rf-draws"]++
			if pan2 != nil {
				monfail(w, "uframes/panic", fmt.Sprintf("QUICRandomFrames build panicked: %v", pan2), det())
			} else if e2 == nil {
				dist["rf-draws-ok"]++
				monitorRF(w, "uframes/rf", f, dd, bb, p2, det)
			} else if (err == nil) != (e2 == nil) && errClass(e2) != 6 && errClass(err) != 6 {
				monfail(w, "uframes/rf/error-unstable", "the same configuration is accepted for one draw and rejected for another: "+e2.Error(), det())
			}
		}
	}

	// ---- QUICFrames (deterministic layouts) ----
	nq := n/2 + 8
	for i := 0; i < nq; i++ {
		r := root.Fork()
		dlen := pickLen(r, true)
		data := testData(r, dlen)
		base := pickBase(r, dlen)
		var qfs quic.QUICFrames
		tiling := true
		kind := "tiling"
		switch r.Intn(10) {
		case 0:
			kind = "empty" // no frames specified = one CRYPTO frame
		case 1:
			// a layout that does NOT tile its slice: outside C09's quantifier; replayed by the
			// model only (zero-extension, duplicate ranges or a Go panic are expected here)
			tiling = false
			kind = "nontiling"
			for k := r.Range(1, 4); k > 0; k-- {
				switch r.Intn(4) {
				case 0:
					qfs = append(qfs, quic.QUICFramePing{})
				case 1:
					qfs = append(qfs, quic.QUICFramePadding{Length: r.Range(-1, 5)})
				default:
					qfs = append(qfs, quic.QUICFrameCrypto{Offset: r.Range(0, dlen+3), Length: r.Range(-1, dlen+3)})
				}
			}
		default:
			// cut [0,dlen) into k pieces, write the last one with Length 0 or explicitly,
			// interleave PING/PADDING, shuffle
			k := 1
			if dlen > 0 {
				k = r.Range(1, min(dlen, 7))
			}
			cuts := []int{0}
			for j := 1; j < k; j++ {
				lo := cuts[len(cuts)-1] + 1
				hi := dlen - (k - j)
				cuts = append(cuts, r.Range(lo, max(lo, hi)))
			}
			cuts = append(cuts, dlen)
			for j := 0; j < k; j++ {
				l := cuts[j+1] - cuts[j]
				if j == k-1 && (l == 0 || r.Bool()) {
					l = 0
				}
				qfs = append(qfs, quic.QUICFrameCrypto{Offset: cuts[j], Length: l})
			}
			for j := r.Intn(4); j > 0; j-- {
				if r.Bool() {
					qfs = append(qfs, quic.QUICFramePing{})
				} else {
					qfs = append(qfs, quic.QUICFramePadding{Length: r.Intn(20)})
				}
			}
			for j := len(qfs) - 1; j > 0; j-- {
				o := r.Intn(j + 1)
				qfs[j], qfs[o] = qfs[o], qfs[j]
			}
		}
		dist["qf:"+kind]++
		var payload []byte
		var err error
		_, pan := withScript(r, 1, func() {
			if base == 0 && r.Bool() {
				payload, err = qfs.Build(data)
			} else {
				payload, err = qfs.BuildForDatagram(i, data, base)
			}
		})
		detail := func() string { return fmt.Sprintf("layout=%s len=%d base=%d data=%x", framesTerm(qfs), dlen, base, data) }
		nt := 0
		if tiling {
			switch {
			case pan != nil:
				monfail(w, "uframes/panic", fmt.Sprintf("QUICFrames.build panicked on a tiling layout: %v", pan), detail())
			case err != nil:
				monfail(w, "uframes/qf/error", "tiling layout rejected: "+err.Error(), detail())
			default:
				nt = 1
				if msg, _ := checkCover([][]byte{payload}, data, base, true); msg != "" {
					monfail(w, "uframes/qf/cover", "QUICFrames output does not carry the ClientHello exactly: "+msg, detail())
				}
			}
		}
		fmt.Fprintf(w, "CASE %d %s\n", nt, u.App("QFCase", framesTerm(qfs), u.Hex(data), u.ZU(base), resTerm(payload, err, pan)))
	}
	flushMonfail(w)
	keys := make([]string, 0, len(dist))
	for k := range dist {
		keys = append(keys, k)
	}
	sort.Strings(keys)
	for _, k := range keys {
		fmt.Fprintf(w, "DIST\t%s\t%d\n", k, dist[k])
	}
}
