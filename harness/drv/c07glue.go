//go:build verif

package main

// c07glue (property C07): the REAL sentPacketHandler and the REAL ReceivedPacketHandler coupled
// the way connection.go couples them: the sent handler's ignorePacketsBelow callback is
// rph.IgnorePacketsBelow, every packet we send carries the AckFrame GetAckFrame returned (its
// LargestAcked recorded in SentPacket), peer ACK frames arrive inside peer packets whose frames
// are handled BEFORE the packet is registered with ReceivedPacket.
//
// Random histories: peer packets arrive lost / reordered / duplicated; our packets reach the peer
// or not; the peer acknowledges what reached it (ACK frames with gaps, themselves lost/reordered).
//
// Model-independent monitors (the clause "not below the threshold the peer allowed it to forget"):
//   c07glue/forget-too-far        the forget threshold of the received handler (and every argument
//                                 of the callback) never exceeds 1 + the largest LargestAcked among
//                                 OUR ACK frames carried in packets the peer has actually acknowledged;
//   c07glue/ack-dropped-unconfirmed  every accepted peer packet at or above that allowed threshold is
//                                 listed in every ACK frame we generate (its ACK is not confirmed yet);
// Tie to the RecvPH model: the executed calls on the received handler are emitted as a HandlerCase
// of V.RecvPH.Run in which the IgnorePacketsBelow op carries min(actual, ALLOWED) threshold, so a
// sent handler that forgets more than the peer allowed also breaks the correspondence.

import (
	"bufio"
	"fmt"
	"sort"
	"strings"

	"github.com/refraction-networking/uquic/internal/ackhandler"
	"github.com/refraction-networking/uquic/internal/monotime"
	"github.com/refraction-networking/uquic/internal/protocol"
	"github.com/refraction-networking/uquic/internal/utils"
	u "github.com/refraction-networking/uquic/internal/verifutil"
	"github.com/refraction-networking/uquic/internal/wire"
)

func init() { units["c07glue"] = runC07Glue }

type c07gNop struct{}

func (c07gNop) OnAcked(wire.Frame) {}
func (c07gNop) OnLost(wire.Frame)  {}

func c07gRanges(set map[int64]bool, maxRanges int) []wire.AckRange {
	pns := make([]int64, 0, len(set))
	for p := range set {
		pns = append(pns, p)
	}
	sort.Slice(pns, func(i, j int) bool { return pns[i] > pns[j] })
	var rs []wire.AckRange
	for i := 0; i < len(pns); {
		j := i
		for j+1 < len(pns) && pns[j+1] == pns[j]-1 {
			j++
		}
		rs = append(rs, wire.AckRange{Smallest: protocol.PacketNumber(pns[j]), Largest: protocol.PacketNumber(pns[i])})
		i = j + 1
		if len(rs) == maxRanges {
			break
		}
	}
	return rs
}

type c07gStats struct {
	cases, peerAcks, peerAcksWithGap, thresholdMoves, ourAcks, ackInGap, closed int
}

// a peer packet in flight towards us
type c07gPeerPkt struct {
	pn   int64
	elic bool
	ack  []wire.AckRange // nil = no ACK frame
}

func c07gRunOne(w *bufio.Writer, r *u.Rng, st *c07gStats) {
	var log, terms, failed []string
	fail := func(key, desc string) { failed = append(failed, key+"\t"+desc) }
	emit := func(o hOp, res string) { terms = append(terms, u.Pair(o.term(), res)) }

	var cbArgs []int64 // arguments of the callback during the current ReceivedAck
	rph := ackhandler.VerifNewRPH()
	sph := ackhandler.NewSentPacketHandler(0, 1200, utils.NewRTTStats(), &utils.ConnectionStats{}, true, false,
		func(pn protocol.PacketNumber) {
			cbArgs = append(cbArgs, int64(pn))
			rph.IgnorePacketsBelow(pn) // the glue of connection.go
		},
		protocol.PerspectiveServer, nil, utils.DefaultLogger)
	lvl := int64(protocol.Encryption1RTT)
	const ms = int64(1000000)
	now := int64(1000 * ms)

	// our side
	ourAckLargest := map[int64]int64{} // our packet number -> Largest of the ACK frame it carried
	ourAckRanges := map[int64][][2]int64{}
	peerAcked := map[int64]bool{} // our packet numbers listed in a peer ACK frame we processed
	allowed := int64(0)           // 1 + largest confirmed LargestAcked (0: nothing confirmed)
	accepted := map[int64]bool{}  // peer packet numbers accepted by ReceivedPacket
	// the peer and the network
	atPeer := map[int64]bool{} // our packets that reached the peer
	var delayedToPeer []int64
	var inflight []c07gPeerPkt
	peerNext := int64(r.Pick(0, 0, 3))
	stopped := false

	checkAck := func(rs [][2]int64) {
		for q := range accepted {
			if q >= allowed && !covered(rs, q) {
				fail("c07glue/ack-dropped-unconfirmed", fmt.Sprintf("peer packet %d was received, no ACK covering it was confirmed by the peer (allowed forget threshold %d), but the generated ACK %v omits it", q, allowed, rs))
				return
			}
		}
	}

	send := func(hasData bool) {
		now += r.Pick(0, ms, ms, 3*ms)
		o := hOp{kind: "getack", lvl: lvl, t: now, only: !hasData}
		ack := rph.GetAckFrame(protocol.Encryption1RTT, monotime.Time(now), !hasData)
		res, rs := ackTerm(ack)
		emit(o, res)
		if ack == nil && !hasData {
			log = append(log, "send:nothing")
			return
		}
		largest := protocol.InvalidPacketNumber
		if ack != nil {
			st.ourAcks++
			largest = ack.LargestAcked()
			checkAck(rs)
		}
		pn := sph.PopPacketNumber(protocol.Encryption1RTT)
		var frames []ackhandler.Frame
		if hasData {
			frames = []ackhandler.Frame{{Frame: &wire.PingFrame{}, Handler: c07gNop{}}}
		}
		sph.SentPacket(monotime.Time(now), pn, largest, nil, frames, protocol.Encryption1RTT, protocol.ECNNon, 1200, false, false)
		if ack != nil {
			ourAckLargest[int64(pn)] = int64(largest)
			ourAckRanges[int64(pn)] = rs
		}
		log = append(log, fmt.Sprintf("send(pn=%d,data=%v,ack=%v)", pn, hasData, rs))
		// the network towards the peer
		switch x := r.Intn(100); {
		case x < 70:
			atPeer[int64(pn)] = true
		case x < 82:
			delayedToPeer = append(delayedToPeer, int64(pn))
		}
	}

	peerSends := func() {
		// late arrivals at the peer
		if len(delayedToPeer) > 0 && r.Chance(1, 2) {
			atPeer[delayedToPeer[0]] = true
			delayedToPeer = delayedToPeer[1:]
		}
		p := c07gPeerPkt{pn: peerNext, elic: r.Chance(3, 5)}
		peerNext++
		if r.Chance(1, 12) {
			peerNext += int64(r.Range(1, 2)) // the peer skips numbers
		}
		if len(atPeer) > 0 && (r.Chance(3, 5) || !p.elic) {
			p.ack = c07gRanges(atPeer, int(r.Pick(1, 2, 4, 32)))
		}
		if p.ack == nil {
			p.elic = true
		}
		switch x := r.Intn(100); {
		case x < 72:
			inflight = append(inflight, p)
		case x < 82: // duplicated
			inflight = append(inflight, p, p)
		case x < 90: // reordered: held back
			inflight = append([]c07gPeerPkt{p}, inflight...)
		}
	}

	deliver := func() {
		if len(inflight) == 0 {
			return
		}
		i := len(inflight) - 1
		if r.Chance(1, 4) {
			i = r.Intn(len(inflight))
		}
		p := inflight[i]
		inflight = append(inflight[:i], inflight[i+1:]...)
		now += r.Pick(0, ms, 2*ms, 10*ms, 30*ms)
		if to := sph.GetLossDetectionTimeout(); to != 0 && int64(to) <= now {
			sph.OnLossDetectionTimeout(monotime.Time(now))
		}
		// connection.go: duplicate check, frames, then registration
		dup := rph.IsPotentiallyDuplicate(protocol.PacketNumber(p.pn), protocol.Encryption1RTT)
		emit(hOp{kind: "isdup", pn: p.pn, lvl: lvl}, u.App("RB", u.B(dup)))
		if dup {
			log = append(log, fmt.Sprintf("peer(pn=%d):duplicate", p.pn))
			return
		}
		if p.ack != nil {
			st.peerAcks++
			if len(p.ack) > 1 {
				st.peerAcksWithGap++
			}
			f := &wire.AckFrame{AckRanges: append([]wire.AckRange{}, p.ack...)}
			var rs [][2]int64
			for _, a := range f.AckRanges {
				rs = append(rs, [2]int64{int64(a.Smallest), int64(a.Largest)})
			}
			// what the peer has confirmed with this frame
			for k, l := range ourAckLargest {
				if covered(rs, k) {
					peerAcked[k] = true
					if l+1 > allowed {
						allowed = l + 1
					}
				} else if k >= rs[len(rs)-1][0] && k <= rs[0][1] {
					st.ackInGap++
				}
			}
			cbArgs = nil
			_, err := sph.ReceivedAck(f, protocol.Encryption1RTT, monotime.Time(now))
			log = append(log, fmt.Sprintf("peer(pn=%d,ack=%v)->IgnorePacketsBelow%v", p.pn, rs, cbArgs))
			if err != nil {
				fail("c07glue/ack-error", "ReceivedAck: "+err.Error())
				stopped = true
				return
			}
			mx := int64(-1)
			for _, a := range cbArgs {
				if a > mx {
					mx = a
				}
				if a > allowed {
					fail("c07glue/forget-too-far", fmt.Sprintf("IgnorePacketsBelow(%d) although the peer only confirmed our ACK frames up to LargestAcked %d (our ACK-carrying packets %v, acknowledged by the peer: %v)", a, allowed-1, c07gKeys(ourAckLargest), c07gKeys2(peerAcked)))
				}
			}
			if s := ackhandler.VerifRPHSnapshot(rph); s.IgnoreBelow > allowed {
				fail("c07glue/forget-too-far", fmt.Sprintf("forget threshold of the received handler is %d, allowed %d", s.IgnoreBelow, allowed))
			}
			if mx >= 0 {
				st.thresholdMoves++
				if mx > allowed {
					mx = allowed // the model is driven by what the peer allowed
				}
				emit(hOp{kind: "ignore", pn: mx}, "ROk")
			}
		} else {
			log = append(log, fmt.Sprintf("peer(pn=%d,data)", p.pn))
		}
		o := hOp{kind: "recv", pn: p.pn, ecn: int64(protocol.ECNNon), lvl: lvl, t: now, ae: p.elic}
		err := rph.ReceivedPacket(protocol.PacketNumber(p.pn), protocol.ECNNon, protocol.Encryption1RTT, monotime.Time(now), p.elic)
		if err != nil {
			emit(o, "RErrDup")
			log = append(log, "ReceivedPacket failed: connection closed")
			st.closed++
			stopped = true // connection.go closes the connection
			return
		}
		emit(o, "ROk")
		accepted[p.pn] = true
	}

	n := r.Range(12, 45)
	for i := 0; i < n && !stopped; i++ {
		switch x := r.Intn(100); {
		case x < 35:
			peerSends()
		case x < 70:
			deliver()
		case x < 92:
			send(true) // we are the bulk sender: there is always data
		default:
			send(false) // ACK-only opportunity (alarm / queued)
		}
	}
	// finally: one more peer packet arrives and we acknowledge unconditionally
	if !stopped {
		inflight = []c07gPeerPkt{{pn: peerNext + 1, elic: true}}
		deliver()
		if !stopped {
			send(true)
		}
	}
	for _, f := range failed {
		fmt.Fprintf(w, "MONFAIL\t%s\t%s\n", f, strings.Join(log, " "))
	}
	fin := ackhandler.VerifRPHSnapshot(rph)
	nt := 0
	if st.thresholdMoves > 0 || len(accepted) > 3 {
		nt = 1
	}
	fmt.Fprintf(w, "CASE %d %s\n", nt, u.App("HandlerCase", u.List(terms), finTerm(fin)))
	if st.cases == 3 {
		fmt.Fprintf(w, "SAMPLE\tglue: %s\n", strings.Join(log, " "))
	}
	st.cases++
}

func c07gKeys(m map[int64]int64) []string {
	ks := make([]int64, 0, len(m))
	for k := range m {
		ks = append(ks, k)
	}
	sort.Slice(ks, func(i, j int) bool { return ks[i] < ks[j] })
	out := make([]string, len(ks))
	for i, k := range ks {
		out[i] = fmt.Sprintf("%d:ACK<=%d", k, m[k])
	}
	return out
}

func c07gKeys2(m map[int64]bool) []int64 {
	ks := make([]int64, 0, len(m))
	for k := range m {
		ks = append(ks, k)
	}
	sort.Slice(ks, func(i, j int) bool { return ks[i] < ks[j] })
	return ks
}

func runC07Glue(w *bufio.Writer, seed uint64, n int, _ []string) {
	r := u.NewRng(seed ^ 0xc07915e)
	st := &c07gStats{}
	for i := 0; i < n; i++ {
		func() {
			defer func() {
				if e := recover(); e != nil {
					fmt.Fprintf(w, "MONFAIL\tc07glue/panic\tpanic: %v\tcase %d of seed %d\n", e, i, seed)
				}
			}()
			c07gRunOne(w, r.Fork(), st)
		}()
	}
	fmt.Fprintf(w, "DIST\tglue-cases\t%d\nDIST\tpeer-ack-frames-processed\t%d\nDIST\tpeer-ack-frames-with-gap\t%d\nDIST\tthreshold-moves\t%d\nDIST\tour-ack-frames\t%d\nDIST\tour-ack-packets-in-peer-ack-gap\t%d\nDIST\tclosed-by-late-packet\t%d\n",
		st.cases, st.peerAcks, st.peerAcksWithGap, st.thresholdMoves, st.ourAcks, st.ackInGap, st.closed)
}
