//go:build verif

package main

import (
	"bufio"
	"fmt"
	"os"
	"sort"
	"strings"

	"github.com/refraction-networking/uquic/internal/ackhandler"
	u "github.com/refraction-networking/uquic/internal/verifutil"
)

// sentph unit (C06): histories on the real sentPacketHandler.
//   - correspondence: one CASE per history (ops + oracle values + observables after every op + final hidden state);
//   - property monitors (independent of the model), evaluated after every op:
//     sentph/callback-twice     a frame id got more than one OnAcked/OnLost
//     sentph/frame-unresolved   a frame left the handler's data structures without exactly one callback
//     (exempt: space dropped / 0-RTT rejected / path probes discarded by MigratedPath)
//     sentph/bytes-in-flight    bytesInFlight != sum of lengths of tracked packets flagged in-flight, or the flag
//     differs from (ack-eliciting && !pathProbe)
//     sentph/num-outstanding    numOutstanding != number of tracked Outstanding() packets
//     sentph/ack-unsent         ACK with largest > largest sent accepted, or it changed state
//     sentph/ack-skipped        ACK covering one of the most recent skipped numbers accepted
//     sentph/ack-old-skipped    ACK covering an older skipped number that is not below the lowest tracked packet
//     accepted (the repaired finding; the former Coq witness is replayed first in every run)
//     sentph/ack-below-initial-pn  Initial ACK covering a number below the first Initial packet number accepted
//     sentph/ack-skipped-at-retry  ACK covering the number the generator skipped across ResetForRetry accepted
//     sentph/migrate-drops-probe-frames  MigratedPath removed an outstanding path probe without any callback (OPEN finding)
//     sentph/ack-valid-rejected an ACK that covers neither unsent nor skipped numbers was rejected as PROTOCOL_VIOLATION
//     sentph/timer-not-armed    crypto / confirmed app data outstanding, not amplification limited, alarm unset
//     sentph/panic              the handler panicked
func init() {
	units["sentph"] = runSentPH
	genSources = append(genSources, ackhandler.VerifSentPHConsts)
}

const (
	lvInitial   = 1
	lvHandshake = 2
	lv0RTT      = 3
	lv1RTT      = 4
)

type sphOp struct {
	kind    string
	l       int64
	now     int64
	la      int64
	sfs, fs []int64
	size    int64
	mtu     bool
	probe   bool
	rnd     int64
	delay   int64
	ranges  [][2]int64
	n       int64
	cs, hb  bool
}

func (o *sphOp) term() string {
	switch o.kind {
	case "send":
		return u.App("OSend", u.Z(o.l), u.Z(o.now), u.Z(o.la), u.ZList(o.sfs), u.ZList(o.fs), u.Z(o.size), u.B(o.mtu), u.B(o.probe), u.Z(o.rnd))
	case "ack":
		rs := make([]string, len(o.ranges))
		for i, r := range o.ranges {
			rs[i] = u.Pair(u.Z(r[0]), u.Z(r[1]))
		}
		return u.App("OAck", u.Z(o.l), u.Z(o.now), u.Z(o.delay), u.List(rs))
	case "timeout":
		return u.App("OTimeout", u.Z(o.now), u.Z(o.rnd))
	case "drop":
		return u.App("ODrop", u.Z(o.l), u.Z(o.now))
	case "retry":
		return u.App("ORetry", u.Z(o.now), u.Z(o.rnd))
	case "migrate":
		return u.App("OMigrate", u.Z(o.now))
	case "recvbytes":
		return u.App("ORecvBytes", u.Z(o.n), u.Z(o.now))
	case "recvpacket":
		return u.App("ORecvPacket", u.Z(o.l), u.Z(o.now))
	case "queueprobe":
		return u.App("OQueueProbe", u.Z(o.l))
	case "sendmode":
		return u.App("OSendMode", u.Z(o.now), u.B(o.cs), u.B(o.hb))
	}
	return "?"
}

// sphRun executes ops on one handler, checks the monitors and builds the CASE term.
type sphRun struct {
	w              *bufio.Writer
	v              *ackhandler.VerifSentPH
	hdr            string
	ops            []string // "(op, oracle, obs)" terms
	trace          []string // op terms only (monitor detail)
	cbCount        map[int64]int
	sentIDs        map[int64]bool
	exempt         map[int64]bool
	sentPNs        [3]map[int64]bool
	skipped        []int64 // application-data numbers the harness saw skipped, in order
	appHi          int64
	sentSinceReset bool
	retryGap       int64          // packet number the generator was about to skip when ResetForRetry re-created the space (-1 none)
	prev           trackedSummary // (sendglue) summary after the previous handler call
	prevBif        int64
	ipn            int64
	lowTracked     int64
	lowTrackedOK   bool
	belowWindow    int
	failed         map[string]bool
	nextID         int64
	kinds          map[string]int
	acksWithLoss   int
	pvErrors       int
	timeoutsPTO    int
	panicked       bool
}

func spaceIdx(l int64) int {
	switch l {
	case lvInitial:
		return 0
	case lvHandshake:
		return 1
	}
	return 2
}

func newSphRun(w *bufio.Writer, client, validated bool, ipn, period, maxPeriod int64) *sphRun {
	r := &sphRun{w: w, cbCount: map[int64]int{}, sentIDs: map[int64]bool{}, exempt: map[int64]bool{}, failed: map[string]bool{}, kinds: map[string]int{}}
	for i := range r.sentPNs {
		r.sentPNs[i] = map[int64]bool{}
	}
	r.v = ackhandler.VerifSentPHNew(client, validated, ipn, period, maxPeriod)
	r.appHi = r.v.AppHighest()
	r.ipn = ipn
	r.retryGap = -1
	r.hdr = fmt.Sprintf("%s %s %s %s %s %s", u.B(client), u.B(validated), u.Z(ipn), u.Z(period), u.Z(maxPeriod), u.Z(r.v.Rnd0))
	return r
}

func (r *sphRun) monfail(key, desc string) {
	if r.failed[key] {
		return
	}
	r.failed[key] = true
	fmt.Fprintf(r.w, "MONFAIL\t%s\t%s\tCase %s [%s]\n", key, desc, r.hdr, strings.Join(r.trace, "; "))
}

// valid mirrors the API contract (Model.op_valid) using only the implementation's state.
func (r *sphRun) valid(o *sphOp) bool {
	lvlOK := o.l >= lvInitial && o.l <= lv1RTT
	switch o.kind {
	case "send":
		if !lvlOK || !r.v.SpaceLive(o.l) || o.size < 0 {
			return false
		}
		if o.probe {
			for _, id := range o.fs { // detectLostPathProbes calls Handler.OnLost without a nil check
				if id < 0 {
					return false
				}
			}
			return o.l == lv1RTT && len(o.sfs) == 0 && len(o.fs) > 0 && !o.mtu
		}
		return true
	case "ack":
		if !lvlOK || !r.v.SpaceLive(o.l) || o.l == lv0RTT || len(o.ranges) == 0 {
			return false
		}
		for i, x := range o.ranges {
			if x[0] > x[1] || x[0] < 0 {
				return false
			}
			if i+1 < len(o.ranges) && !(o.ranges[i+1][1]+1 < x[0]) {
				return false
			}
		}
		return true
	case "drop":
		return o.l == lvInitial || o.l == lvHandshake || o.l == lv0RTT
	case "retry":
		return r.v.IsClient() && r.v.SpaceLive(lvInitial) && r.v.HandshakeUntouched() && !r.v.AppProbesOutstanding()
	case "recvbytes":
		return o.n >= 0
	case "recvpacket":
		return lvlOK
	case "queueprobe":
		return lvlOK && r.v.SpaceLive(o.l)
	}
	return true
}

type trackedSummary struct {
	ids      map[int64]bool
	probeIDs map[int64]bool
}

func (r *sphRun) summarize() trackedSummary {
	s := trackedSummary{ids: map[int64]bool{}, probeIDs: map[int64]bool{}}
	for _, t := range r.v.Tracked() {
		for _, id := range t.FrameIDs {
			s.ids[id] = true
			if t.PathProbe {
				s.probeIDs[id] = true
			}
		}
	}
	return s
}

func (r *sphRun) exec(o *sphOp) (ret int64) {
	if r.panicked {
		return -1
	}
	if !r.valid(o) {
		ret = -1
		r.record(o, ret, nil, nil)
		return ret
	}
	before := r.summarize()
	bifBefore := r.v.Obs().Bif
	var largestSentBefore int64
	if o.kind == "ack" {
		largestSentBefore = r.v.LargestSent(o.l)
		r.lowTracked, r.lowTrackedOK = r.v.AppLowestTracked()
	}
	defer func() {
		if e := recover(); e != nil {
			r.panicked = true
			r.trace = append(r.trace, o.term())
			r.monfail("sentph/panic", fmt.Sprintf("handler panicked: %v", e))
		}
	}()
	switch o.kind {
	case "send":
		ret, o.rnd = r.v.Send(o.l, o.now, o.la, o.sfs, o.fs, o.size, o.mtu, o.probe)
		sp := spaceIdx(o.l)
		r.sentPNs[sp][ret] = true
		for _, id := range append(append([]int64{}, o.fs...), o.sfs...) {
			if id >= 0 {
				r.sentIDs[id] = true
			}
		}
	case "ack":
		ret = r.v.Ack(o.l, o.now, o.delay, o.ranges)
	case "timeout":
		ret, o.rnd = r.v.Timeout(o.now)
	case "drop":
		r.v.Drop(o.l, o.now)
	case "retry":
		gap, pending := r.v.AppGenPendingSkip()
		o.rnd = r.v.Retry(o.now)
		r.skipped = nil // the application-data space was re-created
		r.retryGap = -1
		if pending {
			r.retryGap = gap // the generator had decided to skip this number; the new space starts right behind it
		}
		r.appHi = r.v.AppHighest()
		r.sentPNs[2] = map[int64]bool{}
	case "migrate":
		r.v.Migrate(o.now)
	case "recvbytes":
		r.v.RecvBytes(o.n, o.now)
	case "recvpacket":
		r.v.RecvPacket(o.l, o.now)
	case "queueprobe":
		if r.v.QueueProbe(o.l) {
			ret = 1
		}
	case "sendmode":
		ret = r.v.SendMode(o.now, o.cs, o.hb)
	}
	// every application-data number the history has moved past without a SentPacket was skipped
	// (by the packet number generator or by a PTO expiry)
	if r.appHi >= 0 { // (a fresh history starts at an arbitrary number: nothing below it was skipped)
		for q := r.appHi + 1; q <= r.v.AppHighest(); q++ {
			if !r.sentPNs[2][q] {
				r.skipped = append(r.skipped, q)
			}
		}
	}
	r.appHi = r.v.AppHighest()
	cbs, evs := r.v.Drain()
	r.record(o, ret, cbs, evs)
	r.monitors(o, ret, before, bifBefore, largestSentBefore, cbs)
	return ret
}

func (r *sphRun) record(o *sphOp, ret int64, cbs []ackhandler.VerifSentPHCb, evs []string) {
	r.kinds[o.kind]++
	ld, p0, p1 := r.v.Oracle()
	ob := r.v.Obs()
	cbt := make([]string, len(cbs))
	for i, c := range cbs {
		cbt[i] = u.Pair(u.Z(c.ID), u.B(c.Acked))
	}
	obs := u.App("mkO", u.Z(ret), u.List(cbt), u.List(evs), u.Z(ob.Bif), u.ZList(ob.NumOut[:]),
		u.ZList([]int64{ob.AlarmTime, ob.AlarmType, ob.AlarmLvl}), u.ZList([]int64{ob.PtoCount, ob.NumProbes, ob.PtoMode}), u.B(ob.PCAV))
	r.trace = append(r.trace, o.term())
	r.ops = append(r.ops, u.Pair(o.term(), u.Pair(u.Z(ld), u.Z(p0), u.Z(p1)), obs))
}

func (r *sphRun) monitors(o *sphOp, ret int64, before trackedSummary, bifBefore, largestSentBefore int64, cbs []ackhandler.VerifSentPHCb) {
	// --- exactly once
	for _, c := range cbs {
		r.cbCount[c.ID]++
		if r.cbCount[c.ID] > 1 {
			r.monfail("sentph/callback-twice", fmt.Sprintf("frame %d reported %d times", c.ID, r.cbCount[c.ID]))
		}
		if !r.sentIDs[c.ID] {
			r.monfail("sentph/callback-unknown", fmt.Sprintf("callback for frame %d that was never sent", c.ID))
		}
	}
	after := r.summarize()
	for id := range before.ids {
		if after.ids[id] {
			continue
		}
		if o.kind == "drop" || (o.kind == "migrate" && before.probeIDs[id]) {
			if r.cbCount[id] == 0 {
				r.exempt[id] = true
				if o.kind == "migrate" {
					r.monfail("sentph/migrate-drops-probe-frames", fmt.Sprintf("MigratedPath removed the path probe packet carrying frame %d without reporting the frame (no OnAcked, no OnLost, its space was not discarded)", id))
				}
			}
			continue
		}
		if r.cbCount[id] != 1 {
			r.monfail("sentph/frame-unresolved", fmt.Sprintf("frame %d left the history with %d callbacks", id, r.cbCount[id]))
		}
	}
	for id := range r.sentIDs {
		if !after.ids[id] && !r.exempt[id] && r.cbCount[id] != 1 {
			r.monfail("sentph/frame-unresolved", fmt.Sprintf("frame %d is neither tracked nor resolved (%d callbacks)", id, r.cbCount[id]))
		}
		if after.ids[id] && r.cbCount[id] != 0 {
			r.monfail("sentph/callback-twice", fmt.Sprintf("frame %d was reported but is still tracked", id))
		}
	}
	// --- in-flight balance
	ob := r.v.Obs()
	var sum int64
	var outCount [3]int64
	for _, t := range r.v.Tracked() {
		want := t.AckElicit && !t.PathProbe
		if t.Included != want {
			r.monfail("sentph/bytes-in-flight", fmt.Sprintf("packet %d (space %d): in-flight flag %v, ack-eliciting %v, path probe %v", t.PN, t.Space, t.Included, t.AckElicit, t.PathProbe))
		}
		if t.Included {
			sum += t.Length
		}
		if t.Outstand {
			outCount[t.Space]++
		}
	}
	if sum != ob.Bif || ob.Bif < 0 {
		r.monfail("sentph/bytes-in-flight", fmt.Sprintf("bytesInFlight %d, tracked in-flight packets sum to %d", ob.Bif, sum))
	}
	for i := 0; i < 3; i++ {
		if ob.NumOut[i] >= 0 && ob.NumOut[i] != outCount[i] {
			r.monfail("sentph/num-outstanding", fmt.Sprintf("space %d: numOutstanding %d, %d outstanding packets tracked", i, ob.NumOut[i], outCount[i]))
		}
	}
	// --- ACK of unsent / skipped numbers
	if o.kind == "ack" {
		largest := o.ranges[0][1]
		pv := ackhandler.VerifSentPHIsPV(ret)
		if pv {
			r.pvErrors++
		}
		lowest := o.ranges[len(o.ranges)-1][0]
		belowInitial := o.l == lvInitial && lowest < r.ipn
		if belowInitial && largest <= largestSentBefore {
			// Initial packet numbers start at initialPN: anything below was never sent
			if !pv {
				r.monfail("sentph/ack-below-initial-pn", fmt.Sprintf("Initial ACK with lowest %d below the first Initial packet number %d returned code %d", lowest, r.ipn, ret))
			}
			if len(cbs) > 0 || ob.Bif != bifBefore {
				r.monfail("sentph/ack-below-initial-pn", "rejected ACK for a never sent Initial packet number changed the state")
			}
		}
		if largest > largestSentBefore {
			if !pv {
				r.monfail("sentph/ack-unsent", fmt.Sprintf("ACK with largest %d > largest sent %d returned code %d", largest, largestSentBefore, ret))
			}
			if len(cbs) > 0 || ob.Bif != bifBefore {
				r.monfail("sentph/ack-unsent", "rejected ACK for an unsent packet changed the state")
			}
		}
		if o.l == lv1RTT && largest <= largestSentBefore {
			covers := func(pn int64) bool {
				for _, x := range o.ranges {
					if x[0] <= pn && pn <= x[1] {
						return true
					}
				}
				return false
			}
			// the 4 most recent skipped numbers are always remembered; older ones as long as they are not
			// below the lowest packet number still tracked (below it an ACK cannot acknowledge anything)
			recent, old, below := int64(-1), int64(-1), int64(-1)
			for i, pn := range r.skipped {
				if covers(pn) {
					if i >= len(r.skipped)-4 {
						recent = pn
					} else if r.lowTrackedOK && pn >= r.lowTracked {
						old = pn
					} else {
						below = pn
					}
				}
			}
			if recent < 0 && old < 0 && below >= 0 && !pv {
				r.belowWindow++
			}
			if r.retryGap >= 0 && covers(r.retryGap) {
				if !pv {
					r.monfail("sentph/ack-skipped-at-retry", fmt.Sprintf("ACK covering packet number %d, which the generator skipped when ResetForRetry re-created the packet number space, accepted (code %d)", r.retryGap, ret))
				}
				if pv {
					recent = r.retryGap // (for the valid-ack-rejected check below)
				}
			}
			if recent >= 0 && !pv {
				r.monfail("sentph/ack-skipped", fmt.Sprintf("ACK covering the skipped packet number %d accepted (code %d)", recent, ret))
			}
			if recent < 0 && old >= 0 && !pv {
				r.monfail("sentph/ack-old-skipped", fmt.Sprintf("ACK covering the skipped packet number %d (skipped numbers so far %v) accepted (code %d)", old, r.skipped, ret))
			}
			if recent < 0 && old < 0 && below < 0 && pv {
				r.monfail("sentph/ack-valid-rejected", fmt.Sprintf("ACK with largest %d <= largest sent %d covering no skipped number was rejected (code %d)", largest, largestSentBefore, ret))
			}
		}
		if len(cbs) > 0 {
			for _, c := range cbs {
				if !c.Acked {
					r.acksWithLoss++
					break
				}
			}
		}
	}
	if o.kind == "timeout" && ob.PtoCount > 0 {
		r.timeoutsPTO++
	}
	// --- client anti-deadlock: while the server may still be amplification-blocked, a client that has sent
	// something keeps a deadline armed (RFC 9002 6.2.2.1)
	if o.kind == "send" && ret >= 0 {
		r.sentSinceReset = true
	}
	if o.kind == "retry" {
		r.sentSinceReset = false
	}
	if r.v.IsClient() && !r.v.PeerCompletedAddressValidation() && r.sentSinceReset && r.v.AlarmTime() == 0 {
		r.monfail("sentph/client-deadlock-timer", "client has not seen the peer complete address validation, packets were sent, but no loss detection alarm is set")
	}
	// --- timer armed
	crypto := outCount[0] > 0 || outCount[1] > 0
	app := r.v.HandshakeConfirmed() && outCount[2] > 0
	if (crypto || app) && !r.v.AmplificationLimited() && r.v.AlarmTime() == 0 {
		r.monfail("sentph/timer-not-armed", fmt.Sprintf("outstanding: initial %d handshake %d app %d (confirmed %v), not amplification limited, but no loss detection alarm", outCount[0], outCount[1], outCount[2], r.v.HandshakeConfirmed()))
	}
}

func (r *sphRun) caseTerm() string {
	return fmt.Sprintf("(Case %s [%s] %s)", r.hdr, strings.Join(r.ops, "; "), r.v.Dump())
}

// ---- generator ----

type sphGen struct {
	r    *u.Rng
	run  *sphRun
	now  int64
	sent [3][]int64 // packet numbers sent per space
}

func (g *sphGen) advance() {
	switch g.r.Intn(10) {
	case 0:
	case 1:
		g.now += 1
	case 2, 3:
		g.now += int64(g.r.Range(1, 5)) * 1_000_000
	case 4, 5:
		g.now += int64(g.r.Range(10, 60)) * 1_000_000
	case 6:
		g.now += int64(g.r.Range(100, 400)) * 1_000_000
	case 7:
		g.now += 1_100_000_000
	default:
		// jump to (around) the alarm
		if a := g.run.v.AlarmTime(); a > g.now {
			g.now = a + g.r.Pick(-1, 0, 0, 0, 1, 1_000_000)
		} else {
			g.now += 2_000_000
		}
	}
}

func (g *sphGen) frames(n int) []int64 {
	out := make([]int64, 0, n)
	for i := 0; i < n; i++ {
		if g.r.Chance(1, 12) {
			out = append(out, -1-g.run.nextID) // frame without handler
		} else {
			out = append(out, g.run.nextID)
		}
		g.run.nextID++
	}
	return out
}

func (g *sphGen) send(l int64, forceAE bool) {
	o := &sphOp{kind: "send", l: l, now: g.now, la: -1, size: g.r.Pick(20, 45, 300, 1200, 1252, 1452, int64(g.r.Range(20, 1452)))}
	if g.r.Chance(1, 3) {
		o.la = int64(g.r.Range(0, 6))
	}
	ae := forceAE || g.r.Chance(4, 5)
	if ae {
		switch g.r.Intn(4) {
		case 0:
			o.fs = g.frames(1)
		case 1:
			o.sfs = g.frames(1)
		case 2:
			o.fs, o.sfs = g.frames(1), g.frames(g.r.Range(1, 2))
		default:
			o.fs = g.frames(2)
		}
		if l == lv1RTT && g.r.Chance(1, 10) {
			o.mtu = true
		}
		if l == lv1RTT && g.r.Chance(1, 8) {
			o.probe, o.mtu, o.sfs = true, false, nil
			if len(o.fs) == 0 {
				o.fs = g.frames(1)
			}
			for i, id := range o.fs { // path probe frames always have a handler
				if id < 0 {
					o.fs[i] = -1 - id
				}
			}
		}
	}
	pn := g.run.exec(o)
	if pn >= 0 {
		sp := spaceIdx(l)
		g.sent[sp] = append(g.sent[sp], pn)
	}
}

func (g *sphGen) ack(l int64) {
	sp := spaceIdx(l)
	o := &sphOp{kind: "ack", l: l, now: g.now, delay: g.r.Pick(0, 1_000_000, 8_000_000, 25_000_000, 40_000_000)}
	if len(g.sent[sp]) == 0 {
		o.ranges = [][2]int64{{0, int64(g.r.Range(0, 2))}}
		g.run.exec(o)
		return
	}
	all := g.sent[sp]
	hi := all[len(all)-1]
	lo := all[0]
	mode := g.r.Intn(20)
	switch {
	case mode == 0: // unsent
		top := hi + int64(g.r.Range(1, 3))
		o.ranges = [][2]int64{{max(0, top-int64(g.r.Range(0, 4))), top}}
	case mode <= 2: // one big range: covers skipped numbers if there are any
		o.ranges = [][2]int64{{max(0, lo-int64(g.r.Intn(2))), hi - int64(g.r.Intn(2))}}
		if o.ranges[0][1] < o.ranges[0][0] {
			o.ranges[0][1] = o.ranges[0][0]
		}
	default:
		// pick a window at the top of the sent numbers and ack a random subset of the *sent* numbers in it
		// (sometimes also numbers that were not sent, i.e. skipped ones)
		win := int64(g.r.Range(1, 12))
		from := max(lo, hi-win)
		top := hi - int64(g.r.Pick(0, 0, 0, 1, 2, 4))
		if top < from {
			top = from
		}
		inSent := map[int64]bool{}
		for _, pn := range all {
			inSent[pn] = true
		}
		sloppy := g.r.Chance(1, 6)
		var picked []int64
		keep := g.r.Bool()
		for pn := from; pn <= top; pn++ {
			if g.r.Chance(1, 3) {
				keep = !keep
			}
			if pn == top {
				keep = true
			}
			if keep && (inSent[pn] || sloppy) {
				picked = append(picked, pn)
			}
		}
		if len(picked) == 0 {
			picked = []int64{top}
		}
		// descending ranges
		sort.Slice(picked, func(a, b int) bool { return picked[a] > picked[b] })
		cur := [2]int64{picked[0], picked[0]}
		for _, pn := range picked[1:] {
			if pn == cur[0]-1 {
				cur[0] = pn
			} else {
				o.ranges = append(o.ranges, cur)
				cur = [2]int64{pn, pn}
			}
		}
		o.ranges = append(o.ranges, cur)
	}
	g.run.exec(o)
}

func (g *sphGen) liveLevels() []int64 {
	var ls []int64
	for _, l := range []int64{lvInitial, lvHandshake} {
		if g.run.v.SpaceLive(l) {
			ls = append(ls, l)
		}
	}
	return ls
}

// one history. profile steers the phase structure so that all parts of the handler are reached.
func (g *sphGen) history(nops int) {
	r := g.r
	client := g.run.v.IsClient()
	profile := r.Intn(6) // 0-1 full handshake, 2 app only, 3 crypto only, 4 retry/0rtt, 5 chaos
	phase := 0           // 0 initial, 1 handshake, 2 app
	if profile == 2 {
		g.run.exec(&sphOp{kind: "drop", l: lvInitial, now: g.now})
		g.run.exec(&sphOp{kind: "drop", l: lvHandshake, now: g.now})
		phase = 2
	}
	for i := 0; i < nops && !g.run.panicked; i++ {
		g.advance()
		x := r.Intn(100)
		lvl := []int64{lvInitial, lvHandshake, lv1RTT}[phase]
		if profile == 5 || r.Chance(1, 8) {
			lvl = []int64{lvInitial, lvHandshake, lv0RTT, lv1RTT}[r.Intn(4)]
		}
		if !g.run.v.SpaceLive(lvl) && !r.Chance(1, 20) {
			lvl = lv1RTT
		}
		switch {
		case x < 38:
			g.send(lvl, false)
		case x < 60:
			al := lvl
			if al == lv0RTT {
				al = lv1RTT
			}
			g.ack(al)
		case x < 72:
			g.run.exec(&sphOp{kind: "timeout", now: g.now})
			if r.Chance(1, 2) {
				g.run.exec(&sphOp{kind: "sendmode", now: g.now, cs: true, hb: true})
			}
			if r.Chance(2, 3) {
				ql := lvl
				if ql == lv0RTT {
					ql = lv1RTT
				}
				g.run.exec(&sphOp{kind: "queueprobe", l: ql})
				g.send(ql, true)
			}
		case x < 78:
			g.run.exec(&sphOp{kind: "sendmode", now: g.now, cs: r.Chance(3, 4), hb: r.Chance(3, 4)})
		case x < 84:
			if !client {
				if r.Bool() {
					g.run.exec(&sphOp{kind: "recvbytes", n: r.Pick(0, 1, 40, 400, 1200), now: g.now})
				} else {
					g.run.exec(&sphOp{kind: "recvpacket", l: r.Pick(lvInitial, lvHandshake, lv1RTT), now: g.now})
				}
			} else {
				g.run.exec(&sphOp{kind: "recvbytes", n: r.Pick(40, 1200), now: g.now})
			}
		case x < 90:
			// phase change
			if phase == 0 && profile != 3 {
				phase = 1
				if r.Chance(2, 3) {
					g.run.exec(&sphOp{kind: "drop", l: lvInitial, now: g.now})
				}
			} else if phase == 1 {
				phase = 2
				if r.Chance(3, 4) {
					if g.run.v.SpaceLive(lvInitial) {
						g.run.exec(&sphOp{kind: "drop", l: lvInitial, now: g.now})
					}
					g.run.exec(&sphOp{kind: "drop", l: lvHandshake, now: g.now})
				}
			} else {
				g.run.exec(&sphOp{kind: "drop", l: r.Pick(lvInitial, lvHandshake, lvHandshake, lv0RTT), now: g.now})
			}
		case x < 93:
			if profile == 4 || r.Chance(1, 3) {
				g.run.exec(&sphOp{kind: "retry", now: g.now})
				if g.run.v.SpaceLive(lvInitial) && g.run.v.IsClient() && g.run.v.HandshakeUntouched() {
					g.sent[0], g.sent[2] = nil, nil
				}
			} else {
				g.run.exec(&sphOp{kind: "drop", l: lv0RTT, now: g.now})
			}
		case x < 96:
			if phase == 2 || profile == 5 {
				g.run.exec(&sphOp{kind: "migrate", now: g.now})
			} else {
				g.send(lv0RTT, true)
			}
		default:
			g.run.exec(&sphOp{kind: "queueprobe", l: lvl})
		}
	}
}

// sphWitness replays the former refutation witness (now the regression Example C06_ack_old_skipped_rejected)
// on the real handler: five PTO expiries skip five application-data packet numbers while packet 0 is still
// tracked; the ACK {6,1} must be a PROTOCOL_VIOLATION.
func sphWitness(w *bufio.Writer) {
	r := newSphRun(w, false, true, 0, 0, 0)
	t := int64(1_000_000_000)
	r.exec(&sphOp{kind: "drop", l: lvInitial, now: t})
	r.exec(&sphOp{kind: "drop", l: lvHandshake, now: t})
	r.nextID = 100
	r.exec(&sphOp{kind: "send", l: lv1RTT, now: t, la: -1, fs: []int64{1}, size: 1200})
	for i := 0; i < 5; i++ {
		t += 100_000_000_000
		r.exec(&sphOp{kind: "timeout", now: t})
	}
	pn := r.exec(&sphOp{kind: "send", l: lv1RTT, now: t, la: -1, fs: []int64{2}, size: 1200})
	r.exec(&sphOp{kind: "ack", l: lv1RTT, now: t + 1_000_000, ranges: [][2]int64{{pn, pn}, {1, 1}}})
	fmt.Fprintf(w, "CASE 1 %s\n", r.caseTerm())
	fmt.Fprintf(w, "SAMPLE\twitness ack-old-skipped: skipped=%v failed=%v\n", r.skipped, r.failed["sentph/ack-old-skipped"])
}

// sphMigrateObservation: three path probes outstanding, then MigratedPath. The loop
// `for pn := range PathProbes() { RemovePathProbe(pn) }` removes while iterating, so probes survive
// (observation, not a property violation: survivors are resolved later). Emitted as a CASE so that the
// model's transliteration of that loop is compared with the implementation.
func sphMigrateObservation(w *bufio.Writer) {
	r := newSphRun(w, false, true, 0, 0, 0)
	t := int64(1_000_000_000)
	r.exec(&sphOp{kind: "drop", l: lvInitial, now: t})
	r.exec(&sphOp{kind: "drop", l: lvHandshake, now: t})
	for i := int64(0); i < 3; i++ {
		r.exec(&sphOp{kind: "send", l: lv1RTT, now: t + i, la: -1, fs: []int64{10 + i}, size: 1200, probe: true})
	}
	r.exec(&sphOp{kind: "migrate", now: t + 10})
	left := 0
	for _, tr := range r.v.Tracked() {
		if tr.PathProbe && len(tr.FrameIDs) > 0 {
			left++
		}
	}
	r.exec(&sphOp{kind: "timeout", now: t + 2_000_000_000})
	fmt.Fprintf(w, "CASE 1 %s\n", r.caseTerm())
	fmt.Fprintf(w, "SAMPLE\tobservation: 3 path probes outstanding at MigratedPath, %d still tracked afterwards\n", left)
}

// sphExhaustive (thorough tier): every history of exactly `depth` ops over a 9-symbol alphabet in ONE packet number
// space (Initial) using at most 4 packet numbers: send ack-eliciting, send non-ack-eliciting, ACK {i} for i in 0..3,
// ACK [0..largest sent], loss-detection timeout (at the alarm if it lies ahead), QueueProbePacket. All prefixes are
// covered because monitors and observables are evaluated after every op. Monitors run on every history; a CASE is
// emitted for every history when emitEvery == 1, else for every emitEvery-th.
func sphExhaustive(w *bufio.Writer, client bool, depth, emitEvery int) (histories, emitted int) {
	const nsym = 9
	seq := make([]int, depth)
	var idx int
	var rec func(pos, sends int)
	runOne := func() {
		r := newSphRun(w, client, true, 0, 0, 0)
		now := int64(1_000_000_000)
		largest := int64(-1)
		id := int64(0)
		for _, sym := range seq {
			now += 30_000_000
			switch {
			case sym == 0:
				pn := r.exec(&sphOp{kind: "send", l: lvInitial, now: now, la: -1, fs: []int64{id}, size: 1200})
				id++
				largest = pn
			case sym == 1:
				pn := r.exec(&sphOp{kind: "send", l: lvInitial, now: now, la: 0, size: 45})
				largest = pn
			case sym >= 2 && sym <= 5:
				pn := int64(sym - 2)
				r.exec(&sphOp{kind: "ack", l: lvInitial, now: now, delay: 0, ranges: [][2]int64{{pn, pn}}})
			case sym == 6:
				r.exec(&sphOp{kind: "ack", l: lvInitial, now: now, delay: 0, ranges: [][2]int64{{0, max(largest, 0)}}})
			case sym == 7:
				if a := r.v.AlarmTime(); a > now {
					now = a
				}
				r.exec(&sphOp{kind: "timeout", now: now})
			default:
				r.exec(&sphOp{kind: "queueprobe", l: lvInitial})
			}
		}
		histories++
		if idx%emitEvery == 0 {
			fmt.Fprintf(w, "CASE 1 %s\n", r.caseTerm())
			emitted++
		}
		idx++
	}
	rec = func(pos, sends int) {
		if pos == depth {
			runOne()
			return
		}
		for sym := 0; sym < nsym; sym++ {
			if sym <= 1 && sends == 4 {
				continue
			}
			seq[pos] = sym
			ns := sends
			if sym <= 1 {
				ns++
			}
			rec(pos+1, ns)
		}
	}
	rec(0, 0)
	return
}

// sphProbeTable: fixed cases, run on every seed. 2, 3 and 4 path probe packets outstanding that all time out in the
// SAME detectLostPathProbes pass (reached through OnLossDetectionTimeout and, in a second variant, through ReceivedAck
// of a later 1-RTT packet), with none or half of them acknowledged first; afterwards a second expiry and an ACK for
// everything, so that a probe reported lost but still tracked, or skipped by the pass, shows up in the
// exactly-once monitors.
func sphProbeTable(w *bufio.Writer) {
	for n := int64(2); n <= 4; n++ {
		for variant := 0; variant < 4; variant++ {
			r := newSphRun(w, variant%2 == 1, true, 0, 0, 0)
			t := int64(1_000_000_000)
			r.exec(&sphOp{kind: "drop", l: lvInitial, now: t})
			r.exec(&sphOp{kind: "drop", l: lvHandshake, now: t})
			var pns []int64
			for i := int64(0); i < n; i++ {
				pns = append(pns, r.exec(&sphOp{kind: "send", l: lv1RTT, now: t + i, la: -1, fs: []int64{10 + i}, size: 1200, probe: true}))
			}
			halfAcked := variant >= 2
			if halfAcked {
				var rs [][2]int64
				for i := int(n)/2 - 1; i >= 0; i-- {
					rs = append(rs, [2]int64{pns[i], pns[i]})
				}
				if len(rs) > 1 && rs[0][0] == rs[1][1]+1 {
					rs = [][2]int64{{pns[0], pns[int(n)/2-1]}}
				}
				r.exec(&sphOp{kind: "ack", l: lv1RTT, now: t + 20_000_000, ranges: rs})
			}
			late := t + 1_200_000_000 // all probes are older than pathProbePacketLossTimeout
			if variant%2 == 0 {
				r.exec(&sphOp{kind: "timeout", now: late})
			} else {
				// a regular packet sent late and acknowledged: ReceivedAck runs detectLostPathProbes
				pn := r.exec(&sphOp{kind: "send", l: lv1RTT, now: late - 10_000_000, la: -1, fs: []int64{50}, size: 300})
				r.exec(&sphOp{kind: "ack", l: lv1RTT, now: late, ranges: [][2]int64{{pn, pn}}})
			}
			r.exec(&sphOp{kind: "timeout", now: late + 1_500_000_000})
			last := r.exec(&sphOp{kind: "send", l: lv1RTT, now: late + 1_600_000_000, la: -1, fs: []int64{60}, size: 300})
			r.exec(&sphOp{kind: "ack", l: lv1RTT, now: late + 1_650_000_000, ranges: [][2]int64{{pns[0], last}}})
			r.exec(&sphOp{kind: "timeout", now: late + 3_000_000_000})
			// every probe frame must be resolved by now
			for i := int64(0); i < n; i++ {
				if r.cbCount[10+i] != 1 {
					r.monfail("sentph/frame-unresolved", fmt.Sprintf("path probe frame %d has %d callbacks after its packet timed out / was acknowledged", 10+i, r.cbCount[10+i]))
				}
			}
			fmt.Fprintf(w, "CASE 1 %s\n", r.caseTerm())
		}
	}
}

// sphFixedTable: more fixed cases, run on every seed.
//   - key discard with ptoCount == 0 that changes what is outstanding-and-armed: 1-RTT data sent before the handshake is
//     confirmed is not covered by the alarm; DropPackets(Handshake) confirms the handshake and must arm it; likewise
//     DropPackets(Initial) while Handshake data is outstanding;
//   - MigratedPath with a path MTU probe packet, an ACK-only packet and a regular packet outstanding.
func sphFixedTable(w *bufio.Writer) {
	for _, client := range []bool{false, true} {
		r := newSphRun(w, client, true, 0, 0, 0)
		t := int64(1_000_000_000)
		r.exec(&sphOp{kind: "send", l: lvInitial, now: t, la: -1, fs: []int64{1}, size: 1200})
		r.exec(&sphOp{kind: "send", l: lvHandshake, now: t + 1, la: -1, fs: []int64{2}, size: 800})
		r.exec(&sphOp{kind: "ack", l: lvInitial, now: t + 20_000_000, ranges: [][2]int64{{0, 0}}})
		r.exec(&sphOp{kind: "ack", l: lvHandshake, now: t + 30_000_000, ranges: [][2]int64{{0, 0}}})
		r.exec(&sphOp{kind: "send", l: lv1RTT, now: t + 40_000_000, la: -1, sfs: []int64{3}, size: 1000})
		r.exec(&sphOp{kind: "drop", l: lvInitial, now: t + 50_000_000})
		r.exec(&sphOp{kind: "drop", l: lvHandshake, now: t + 60_000_000})
		fmt.Fprintf(w, "CASE 1 %s\n", r.caseTerm())

		r = newSphRun(w, client, true, 0, 0, 0)
		r.exec(&sphOp{kind: "send", l: lvInitial, now: t, la: -1, fs: []int64{1}, size: 1200})
		r.exec(&sphOp{kind: "ack", l: lvInitial, now: t + 20_000_000, ranges: [][2]int64{{0, 0}}})
		r.exec(&sphOp{kind: "send", l: lvHandshake, now: t + 30_000_000, la: -1, fs: []int64{2}, size: 800})
		r.exec(&sphOp{kind: "drop", l: lvInitial, now: t + 40_000_000})
		fmt.Fprintf(w, "CASE 1 %s\n", r.caseTerm())

		r = newSphRun(w, client, true, 0, 0, 0)
		r.exec(&sphOp{kind: "drop", l: lvInitial, now: t})
		r.exec(&sphOp{kind: "drop", l: lvHandshake, now: t})
		r.exec(&sphOp{kind: "send", l: lv1RTT, now: t + 1, la: -1, fs: []int64{1}, size: 1200})
		r.exec(&sphOp{kind: "send", l: lv1RTT, now: t + 2, la: -1, fs: []int64{2}, size: 1400, mtu: true})
		r.exec(&sphOp{kind: "send", l: lv1RTT, now: t + 3, la: 0, size: 45})
		r.exec(&sphOp{kind: "send", l: lv1RTT, now: t + 4, la: -1, fs: []int64{3}, size: 1200, probe: true})
		r.exec(&sphOp{kind: "migrate", now: t + 10_000_000})
		r.exec(&sphOp{kind: "send", l: lv1RTT, now: t + 20_000_000, la: -1, fs: []int64{4}, size: 300})
		r.exec(&sphOp{kind: "ack", l: lv1RTT, now: t + 40_000_000, ranges: [][2]int64{{0, 4}}})
		fmt.Fprintf(w, "CASE 1 %s\n", r.caseTerm())
	}
}

// sphRetryTable: fixed cases. A client sends 0-RTT packets until the application-data generator is about to skip a
// packet number, then a Retry arrives (ResetForRetry re-creates the space behind the skipped number); the number
// was deliberately skipped, so an ACK covering it must be a PROTOCOL_VIOLATION.
func sphRetryTable(w *bufio.Writer) {
	for variant := 0; variant < 2; variant++ {
		r := newSphRun(w, true, false, 0, 1, 1)
		t := int64(1_000_000_000)
		r.exec(&sphOp{kind: "send", l: lvInitial, now: t, la: -1, fs: []int64{1}, size: 1200})
		id := int64(10)
		for i := 0; i < 8; i++ {
			if _, pending := r.v.AppGenPendingSkip(); pending {
				break
			}
			t += 1_000_000
			r.exec(&sphOp{kind: "send", l: lv0RTT, now: t, la: -1, sfs: []int64{id}, size: 600})
			id++
		}
		r.exec(&sphOp{kind: "retry", now: t + 5_000_000})
		gap := r.retryGap
		r.exec(&sphOp{kind: "send", l: lvInitial, now: t + 6_000_000, la: -1, fs: []int64{2}, size: 1200})
		pn := r.exec(&sphOp{kind: "send", l: lv0RTT, now: t + 7_000_000, la: -1, sfs: []int64{id}, size: 600})
		if gap >= 0 {
			rs := [][2]int64{{gap, pn}}
			if variant == 1 {
				rs = [][2]int64{{gap, gap}}
			}
			r.exec(&sphOp{kind: "ack", l: lv1RTT, now: t + 30_000_000, ranges: rs})
		}
		r.exec(&sphOp{kind: "ack", l: lv1RTT, now: t + 40_000_000, ranges: [][2]int64{{pn, pn}}})
		fmt.Fprintf(w, "CASE 1 %s\n", r.caseTerm())
	}
}

func runSentPH(w *bufio.Writer, seed uint64, n int, _ []string) {
	root := u.NewRng(seed)
	sphWitness(w)
	sphMigrateObservation(w)
	sphProbeTable(w)
	sphFixedTable(w)
	sphRetryTable(w)
	dist := map[string]int{}
	if os.Getenv("VERIF_TIER") == "thorough" {
		// exhaustive small universe: all 4-op histories through the model (both perspectives), all 6-op histories
		// through the monitors with a sample through the model
		for _, client := range []bool{false, true} {
			h4, e4 := sphExhaustive(w, client, 4, 1)
			h6, e6 := sphExhaustive(w, client, 6, 97)
			fmt.Fprintf(w, "DIST\texhaustive-4op-histories\t%d\nDIST\texhaustive-4op-cases\t%d\nDIST\texhaustive-6op-histories\t%d\nDIST\texhaustive-6op-cases\t%d\n", h4, e4, h6, e6)
		}
	}
	for c := 0; c < n; c++ {
		r := root.Fork()
		client := r.Bool()
		validated := r.Chance(1, 3)
		ipn := r.Pick(0, 0, 0, 1, 5, 100)
		period := r.Pick(1, 1, 2, 4)
		maxPeriod := r.Pick(2, 4, 8)
		run := newSphRun(w, client, validated, ipn, period, maxPeriod)
		g := &sphGen{r: r, run: run, now: 1_000_000_000 + int64(r.Intn(1000))}
		g.history(r.Range(8, 36))
		nt := 0
		if run.kinds["ack"] > 0 && run.kinds["send"] > 1 {
			nt = 1
		}
		fmt.Fprintf(w, "CASE %d %s\n", nt, run.caseTerm())
		for k, v := range run.kinds {
			dist["op:"+k] += v
		}
		dist["acks-with-loss"] += run.acksWithLoss
		dist["acks-protocol-violation"] += run.pvErrors
		dist["timeouts-pto"] += run.timeoutsPTO
		dist["skipped-numbers"] += len(run.skipped)
		dist["acks-of-forgotten-skipped-number-below-window"] += run.belowWindow
		dist["frames"] += len(run.sentIDs)
		dist["callbacks"] += len(run.cbCount)
		if client {
			dist["client"]++
		} else {
			dist["server"]++
		}
		if c == 0 {
			fmt.Fprintf(w, "SAMPLE\t%s\n", strings.Join(run.trace, "; "))
		}
	}
	keys := make([]string, 0, len(dist))
	for k := range dist {
		keys = append(keys, k)
	}
	sort.Strings(keys)
	for _, k := range keys {
		fmt.Fprintf(w, "DIST\t%s\t%d\n", k, dist[k])
	}
}
