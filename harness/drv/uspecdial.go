//go:build verif

package main

// uspecdial: C11 round 3. ONE QUICSpec value is dialled several times through UTransport into
// the simulated network; between dials the caller may edit SuppressTransportParameters and
// RandomizeTransportParameters. For every dial the harness records the draws of the dial-time
// shuffle (math/rand.Seed(s), rand.Shuffle with a recording callback over the number of kept
// parameters, Seed(s) again, then the real dial) and reads extension 57 off the captured first
// flight (clienthellod's Initial decoder + the reader of simfingerprint.go). The model
// (UDial.Model.run, the repaired newUClientConnection) replays the whole history with exactly
// those draws and must produce exactly that wire list, dial after dial.
//
// Monitors (model-independent):
//   uspecdial/wire        every dial's extension 57 = the spec's list as the caller wrote it,
//                         minus the currently suppressed ids, in that order when not randomised,
//                         a permutation of it otherwise; empty initial_source_connection_id =
//                         this dial's source connection ID
//   uspecdial/raw-verbatim every raw/fake parameter of the spec is on the wire with its own bytes
//   uspecdial/key-share   key_share entries on the wire = the spec's (groups; bytes where given)
//   uspecdial/ids, uspecdial/ids-mutates-spec   TransportParameterIDs() between edits and dials:
//                         returns sort(canon(spec as written minus suppressed)); leaves the spec's
//                         list alone (so the next dial is not affected by the query)
//   uspecdial/spec-untouched  the spec's own list (objects, order) is what the caller wrote,
//                         after every dial
//   uspecdial/draws       the recorded draws reproduce the wire order exactly (Fisher-Yates
//                         applied in Go to the kept list); a failure means the dial's shuffle
//                         is not rand.Shuffle's loop over the kept list, or is not the first
//                         consumer of math/rand in the dial (then the tie must be re-thought)
//   uspecdial/fresh-order three randomised dials of >= 6 parameters never all show one order

import (
	"bufio"
	"fmt"
	mrand "math/rand"
	"sort"
	"strings"

	quic "github.com/refraction-networking/uquic"
	u "github.com/refraction-networking/uquic/internal/verifutil"
	tls "github.com/refraction-networking/utls"
)

func init() { units["uspecdial"] = runUSpecDial }

// uspecdialMask: version_information re-draws its GREASE version on every Value() call;
// those words are replaced by 0a0a0a0a on both sides.
func uspecdialMask(id uint64, v []byte) []byte {
	if !fpIsVersionInfo(id) || len(v)%4 != 0 {
		return v
	}
	out := append([]byte{}, v...)
	for i := 0; i+3 < len(out); i += 4 {
		if out[i]&0x0a == 0x0a && out[i+1]&0x0a == 0x0a && out[i+2]&0x0a == 0x0a && out[i+3]&0x0a == 0x0a {
			out[i], out[i+1], out[i+2], out[i+3] = 0x0a, 0x0a, 0x0a, 0x0a
		}
	}
	return out
}

func uspecdialTyped(tp tls.TransportParameter) bool {
	switch tp.(type) {
	case *tls.FakeQUICTransportParameter, *tls.GREASETransportParameter:
		return false
	}
	return true
}

func uspecdialSpecTerm(l tls.TransportParameters) string {
	s := make([]string, len(l))
	for i, tp := range l {
		s[i] = u.Pair(u.ZU(tp.ID()), u.Hex(uspecdialMask(tp.ID(), tp.Value())), u.B(uspecdialTyped(tp)))
	}
	return u.List(s)
}

func uspecdialWireTerm(ps []fpParam) string {
	s := make([]string, len(ps))
	for i, p := range ps {
		s[i] = u.Pair(u.ZU(p.ID), u.Hex(uspecdialMask(p.ID, p.Val)))
	}
	return u.List(s)
}

// uspecdialBuild: a spec to be dialled repeatedly: a built-in parrot whose transport parameter
// list is kept, sorted, or extended by raw / GREASE parameters and duplicates (never a raw
// parameter with a typed id, never a second initial_source_connection_id with a value: those
// make PopulateFromUQUIC panic resp. are C02's subject).
func uspecdialBuild(r *u.Rng, name string) (*quic.QUICSpec, error) {
	sp, err := specFor(name)
	if err != nil {
		return nil, err
	}
	ext := fpSpecExt(sp)
	if r.Chance(1, 3) {
		fpAddRawFamily(r, ext)
	}
	switch r.Intn(3) {
	case 0:
		fpSortSpec(ext)
	case 1:
		for i := r.Intn(4); i > 0; i-- {
			var tp tls.TransportParameter
			switch r.Intn(3) {
			case 0:
				tp = &tls.FakeQUICTransportParameter{Id: uint64(0x40 + r.Intn(0x4000)), Val: r.Bytes(r.Intn(6))}
			case 1:
				tp = &tls.GREASETransportParameter{IdOverride: uGreaseID(r), Length: uint16(r.Intn(8))}
			default:
				tp = &tls.FakeQUICTransportParameter{Id: 27 + 31*uint64(r.Intn(3)), Val: r.Bytes(r.Intn(4))}
			}
			at := r.Intn(len(ext.TransportParameters) + 1)
			ext.TransportParameters = append(ext.TransportParameters[:at:at], append(tls.TransportParameters{tp}, ext.TransportParameters[at:]...)...)
		}
		if r.Bool() { // a duplicate of a parameter that is not the source connection ID
			for tries := 0; tries < 5; tries++ {
				tp := ext.TransportParameters[r.Intn(len(ext.TransportParameters))]
				if tp.ID() != 0xf {
					ext.TransportParameters = append(ext.TransportParameters, tp)
					break
				}
			}
		}
	}
	return sp, nil
}

func uspecdialSequence(w *bufio.Writer, rep *fpReporter, r *u.Rng, name string, dials int, forceIDs bool) {
	sp, err := uspecdialBuild(r, name)
	if err != nil {
		rep.fail("uspecdial/capture", err.Error(), name)
		return
	}
	ext := fpSpecExt(sp)
	kse := fpSpecKeyShareExt(sp)
	if kse != nil && r.Chance(1, 3) {
		fpAddKeyShareData(r, kse)
	}
	var specKeys []fpKeyShare
	var keyTerms []string
	if kse != nil {
		specKeys = fpSpecKeyShares(kse)
		for _, k := range specKeys {
			keyTerms = append(keyTerms, u.Pair(u.Z(int64(k.Group)), u.Hex(k.Data)))
		}
	}
	written := append(tls.TransportParameters{}, ext.TransportParameters...)
	decl := fpSnapshot(ext)
	for i := range decl {
		decl[i].Val = uspecdialMask(decl[i].ID, decl[i].Val)
	}
	specTerm := uspecdialSpecTerm(ext.TransportParameters)
	var sup []uint64
	rnd := r.Chance(2, 3)
	var steps []string
	orders := map[string]bool{}
	nRand, nParams := 0, 0
	for d := 0; d < dials; d++ {
		// the caller's edits before this dial
		if d == 0 || r.Chance(1, 3) {
			sup = nil
			for _, p := range decl {
				if p.ID != 0xf && r.Chance(1, 6) {
					sup = append(sup, p.ID)
				}
			}
			if r.Chance(1, 4) {
				sup = append(sup, 27)
			}
		}
		if d > 0 && r.Chance(1, 4) {
			rnd = !rnd
		}
		sp.SuppressTransportParameters = sup
		sp.RandomizeTransportParameters = rnd
		// The caller asks the spec which ids it will send -- QUICSpec.TransportParameterIDs(), a
		// query -- and may then change the suppression list again before dialling. The first
		// dial of every sequence does so with a non-empty list that is cleared afterwards
		// (the shape of audit problem P3); later dials at random.
		if (d == 0 && forceIDs) || (d > 0 && r.Chance(1, 3)) {
			if d == 0 {
				sup = nil
				for _, p := range decl {
					if p.ID != 0xf && !fpIsGrease(p.ID) && len(sup) < 2 {
						sup = append(sup, p.ID)
					}
				}
				sp.SuppressTransportParameters = sup
			}
			ids := sp.TransportParameterIDs()
			var want []uint64
			for _, p := range decl {
				if uKeep(p.ID, sup) {
					id := p.ID
					if fpIsGrease(id) {
						id = 27
					}
					want = append(want, id)
				}
			}
			sort.Slice(want, func(i, j int) bool { return want[i] < want[j] })
			icfg := fmt.Sprintf("quicid=%s before dial#%d suppress=%v spec=%s", name, d, sup, fpParamsString(decl))
			if !fpEqU64(ids, want) {
				rep.fail("uspecdial/ids", fmt.Sprintf("TransportParameterIDs() = %v, the spec as written minus the suppressed ids gives %v", ids, want), icfg)
			}
			if !uSamePtrs(ext.TransportParameters, written) {
				rep.fail("uspecdial/ids-mutates-spec", "QUICSpec.TransportParameterIDs() changed the spec's own parameter list (a later dial under another suppression list sends the shortened list)", icfg+" now="+fpParamsString(fpSnapshot(ext)))
			}
			steps = append(steps, u.App("DIds", uZUList(sup), u.B(rnd), uZUList(ids)))
			if d == 0 || r.Bool() { // ... and changes its mind
				sup = nil
				if d > 0 && r.Bool() {
					for _, p := range decl {
						if p.ID != 0xf && r.Chance(1, 6) {
							sup = append(sup, p.ID)
						}
					}
				}
				sp.SuppressTransportParameters = sup
			}
		}
		var kept []fpParam
		for _, p := range decl {
			if uKeep(p.ID, sup) {
				kept = append(kept, p)
			}
		}
		// record the draws of this dial's shuffle
		seed := int64(r.U64() >> 1)
		var sw [][2]int
		var swTerms []string
		if rnd {
			mrand.Seed(seed)
			mrand.Shuffle(len(kept), func(i, j int) {
				sw = append(sw, [2]int{i, j})
				swTerms = append(swTerms, u.Pair(u.Z(int64(i)), u.Z(int64(j))))
			})
		}
		mrand.Seed(seed)
		fl, err := fpCapture(sp)
		cfg := fmt.Sprintf("quicid=%s dial#%d suppress=%v randomize=%v seed=%d spec=%s", name, d, sup, rnd, seed, fpParamsString(decl))
		if err != nil {
			rep.fail("uspecdial/capture", "dial into the simulation failed: "+err.Error(), cfg)
			return
		}
		o, err := fpHelloOnly(fl)
		if err != nil {
			rep.fail("uspecdial/capture", "first flight does not decode: "+err.Error(), cfg)
			return
		}
		wire := make([]fpParam, len(o.Wire))
		for i, p := range o.Wire {
			wire[i] = fpParam{ID: p.ID, Val: uspecdialMask(p.ID, p.Val)}
		}
		detail := cfg + " wire=" + fpParamsString(wire)
		// monitor: the property's clause (b), from the list as written
		exp := append([]fpParam{}, kept...)
		for i := range exp {
			if exp[i].ID == 0xf && len(exp[i].Val) == 0 && exp[i].Placeholder {
				exp[i].Val = o.SCID
			}
		}
		if m := fpRawVerbatim(exp, wire); m != nil {
			rep.fail("uspecdial/raw-verbatim", fmt.Sprintf("raw parameter %x=%x of the spec is not on the wire with the spec's bytes", m.ID, m.Val), detail)
		}
		if rnd {
			if !fpSameMultiset(exp, wire) {
				rep.fail("uspecdial/wire", "extension 57 is not a permutation of the spec's list minus the suppressed ids", detail)
			}
			// monitor: the recorded draws give exactly this order
			pred := append([]fpParam{}, exp...)
			for _, s := range sw {
				pred[s[0]], pred[s[1]] = pred[s[1]], pred[s[0]]
			}
			if !fpSameOrder(pred, wire) {
				rep.fail("uspecdial/draws", "the wire order is not the kept list permuted by the draws rand.Shuffle makes under the same seed", detail+" predicted="+fpParamsString(pred))
			}
			if len(wire) >= 6 {
				nRand++
				nParams = len(wire)
				var ord []string
				for _, p := range wire {
					ord = append(ord, fmt.Sprintf("%x", p.ID))
				}
				orders[strings.Join(ord, ",")] = true
			}
		} else if !fpSameOrder(exp, wire) {
			rep.fail("uspecdial/wire", "extension 57 differs from the spec's list minus the suppressed ids (ids, values, order)", detail)
		}
		if !uSamePtrs(ext.TransportParameters, written) {
			rep.fail("uspecdial/spec-untouched", "the spec's own parameter list changed during a dial", detail+" now="+fpParamsString(fpSnapshot(ext)))
		}
		// key shares: groups in order, the spec's bytes where it gives them
		var wkTerms []string
		if specKeys != nil {
			wk, kerr := fpWireKeyShares(o.Hello)
			dk := ""
			if kerr != nil {
				dk = "key_share extension does not parse: " + kerr.Error()
			} else {
				dk = fpCheckKeyShares(specKeys, wk)
			}
			if dk != "" {
				rep.fail("uspecdial/key-share", "the key_share extension on the wire is not what the spec describes: "+dk,
					cfg+" spec key shares="+fpKeySharesString(specKeys)+" wire key shares="+fpKeySharesString(wk))
			}
			for i, k := range wk { // (group GREASE-normalised, length, bytes when the spec supplied them)
				data := []byte{}
				if i < len(specKeys) && len(specKeys[i].Data) > 0 {
					data = k.Data
				}
				wkTerms = append(wkTerms, u.Pair(u.Z(int64(fpNorm16(k.Group))), u.Z(int64(len(k.Data))), u.Hex(data)))
			}
		}
		steps = append(steps, u.App("DStep", uZUList(sup), u.B(rnd), u.List(swTerms), u.Hex(o.SCID), uspecdialWireTerm(wire), u.List(wkTerms)))
	}
	if nRand >= 3 && nParams >= 6 && len(orders) == 1 {
		rep.fail("uspecdial/fresh-order", fmt.Sprintf("%d randomised dials of one spec value all sent the same order", nRand), name+" "+specTerm)
	}
	fmt.Fprintf(w, "CASE 1 %s\n", u.App("DSeq", specTerm, u.List(keyTerms), u.List(steps)))
}

func runUSpecDial(w *bufio.Writer, seed uint64, n int, _ []string) {
	r := u.NewRng(seed)
	rep := &fpReporter{w: w, seen: map[string]int{}}
	defer func() {
		if p := recover(); p != nil {
			fmt.Fprintf(w, "MONFAIL\tuspecdial/panic\t%v\t\n", p)
		}
	}()
	dist := map[string]int{}
	for i := 0; i < n; i++ {
		name := parrotNames[i%len(parrotNames)]
		dials := r.Range(2, 5)
		uspecdialSequence(w, rep, r.Fork(), name, dials, i%2 == 0)
		dist[fmt.Sprintf("dials=%d", dials)]++
		dist["quicid="+name]++
	}
	for k, v := range dist {
		fmt.Fprintf(w, "DIST\t%s\t%d\n", k, v)
	}
}
