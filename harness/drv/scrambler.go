//go:build verif

package main

// Unit `scrambler` (C09): the Initial crypto stream of a client on the real code — the
// default splitter (scrambling disabled, as under a QUICSpec) and the anti-DPI ClientHello
// scrambler (Write cut computation, two-phase PopCryptoFrame) with findSNIAndECH.

import (
	"bufio"
	"bytes"
	"fmt"
	"sort"

	quic "github.com/refraction-networking/uquic"
	u "github.com/refraction-networking/uquic/internal/verifutil"
)

func init() { units["scrambler"] = runScrambler }

type chExt struct {
	typ  uint16
	body []byte
}

// genCH is the ground truth of a synthetic ClientHello: where the generator put things.
type genCH struct {
	raw            []byte
	sniPos, sniLen int // position of the first host_name (-1: none)
	echPos         int // position of the ECH extension (-1: none)
	class          int // expected findSNIAndECH class: 0 ok, 2 error (duplicates / not a ClientHello)
	kind           string
	unparsable     bool // a complete handshake message findSNIAndECH cannot parse (it answers io.ErrUnexpectedEOF)
}

func be16(v int) []byte { return []byte{byte(v >> 8), byte(v)} }

func sniBody(entries [][2]any) []byte {
	var l []byte
	for _, e := range entries {
		name := e[1].([]byte)
		l = append(l, byte(e[0].(int)))
		l = append(l, be16(len(name))...)
		l = append(l, name...)
	}
	return append(be16(len(l)), l...)
}

func hostName(r *u.Rng, n int) []byte {
	b := make([]byte, n)
	for i := range b {
		b[i] = "abcdefghijklmnopqrstuvwxyz0123456789-."[r.Intn(38)]
	}
	return b
}

// makeCH draws a well-formed ClientHello of roughly target bytes with SNI/ECH at generated positions.
func makeCH(r *u.Rng, target int) genCH {
	g := genCH{sniPos: -1, echPos: -1}
	var exts []chExt
	nOther := r.Intn(6)
	otherTypes := []uint16{10, 11, 13, 16, 43, 45, 51, 57, 0x39, 0x0a0a, 0xff01, 27, 17513}
	for i := 0; i < nOther; i++ {
		exts = append(exts, chExt{otherTypes[r.Intn(len(otherTypes))], r.Bytes(r.Intn(30))})
	}
	sniKind := r.Intn(12)
	echKind := r.Intn(6)
	var host []byte
	sniIdx, echIdx := -1, -1
	hostOff := 0 // offset of the host name inside the SNI extension body
	if sniKind > 1 {
		hl := r.Range(3, 40)
		switch sniKind {
		case 2:
			hl = 0 // empty host_name
		case 3:
			hl = int(r.Pick(1, 2, 3))
		case 4:
			hl = r.Range(100, 255)
		}
		host = hostName(r, hl)
		entries := [][2]any{{0, host}}
		hostOff = 2 + 3
		switch sniKind {
		case 5: // a non-host_name entry first
			o := r.Bytes(r.Intn(6))
			entries = [][2]any{{1, o}, {0, host}}
			hostOff = 2 + 3 + len(o) + 3
		case 6: // only non-host_name entries: there is no host name to find
			entries = [][2]any{{int(r.Pick(1, 2, 255)), r.Bytes(r.Intn(12))}}
			host = nil
		case 7: // two host names, the first counts
			entries = [][2]any{{0, host}, {0, hostName(r, r.Intn(9))}}
		}
		sniIdx = r.Intn(len(exts) + 1)
		exts = append(exts[:sniIdx], append([]chExt{{0, sniBody(entries)}}, exts[sniIdx:]...)...)
	}
	if echKind > 1 {
		bl := r.Range(20, 300)
		switch echKind {
		case 2:
			bl = r.Intn(4) // short ECH (inner form / degenerate)
		}
		echIdx = r.Intn(len(exts) + 1)
		if sniIdx >= 0 && r.Intn(3) == 0 {
			echIdx = sniIdx // directly before the SNI
		}
		if r.Intn(5) == 0 {
			echIdx = len(exts) // last extension
		}
		exts = append(exts[:echIdx], append([]chExt{{0xfe0d, r.Bytes(bl)}}, exts[echIdx:]...)...)
		if sniIdx >= echIdx {
			sniIdx++
		}
	}
	g.kind = fmt.Sprintf("sni%d-ech%d", map[bool]int{false: 0, true: 1}[sniIdx >= 0], map[bool]int{false: 0, true: 1}[echIdx >= 0])
	dup := r.Intn(40)
	if dup == 0 && sniIdx >= 0 && host != nil {
		exts = append(exts, chExt{0, sniBody([][2]any{{0, []byte("dup.example")}})})
		g.class = 2 // only reported when the parser gets that far (it stops once SNI and ECH are found)
		g.kind = "dup-sni"
	} else if dup == 1 && echIdx >= 0 {
		exts = append(exts, chExt{0xfe0d, r.Bytes(8)})
		g.class = 2
		g.kind = "dup-ech"
	}
	body := []byte{3, 3}
	body = append(body, r.Bytes(32)...)
	sid := r.Bytes(int(r.Pick(0, 0, 32, 32, 7)))
	body = append(body, byte(len(sid)))
	body = append(body, sid...)
	cs := r.Bytes(2 * r.Range(1, 8))
	body = append(body, be16(len(cs))...)
	body = append(body, cs...)
	body = append(body, 1, 0)
	// padding extension to reach the target size
	fixed := 4 + len(body) + 2
	for _, e := range exts {
		fixed += 4 + len(e.body)
	}
	if pad := target - fixed - 4; pad >= 0 && r.Intn(4) != 0 {
		at := r.Intn(len(exts) + 1)
		exts = append(exts[:at], append([]chExt{{21, make([]byte, pad)}}, exts[at:]...)...)
		if sniIdx >= at {
			sniIdx++
		}
		if echIdx >= at {
			echIdx++
		}
	}
	var eb []byte
	extStart := 4 + len(body) + 2
	for i, e := range exts {
		if i == sniIdx && host != nil {
			g.sniPos, g.sniLen = extStart+len(eb)+4+hostOff, len(host)
		}
		if i == echIdx {
			g.echPos = extStart + len(eb)
		}
		eb = append(eb, be16(int(e.typ))...)
		eb = append(eb, be16(len(e.body))...)
		eb = append(eb, e.body...)
	}
	body = append(body, be16(len(eb))...)
	body = append(body, eb...)
	g.raw = append([]byte{1, byte(len(body) >> 16), byte(len(body) >> 8), byte(len(body))}, body...)
	if g.class == 0 && r.Intn(25) == 0 {
		// complete messages that can never parse: an SNI extension with an empty body appended
		// (keeping every length field consistent), or one more byte behind the message
		if r.Bool() && g.sniPos == -1 {
			eb2 := append(append([]byte{}, eb...), 0, 0, 0, 0)
			b2 := append(append([]byte{}, body[:len(body)-len(eb)-2]...), be16(len(eb2))...)
			b2 = append(b2, eb2...)
			g.raw = append([]byte{1, byte(len(b2) >> 16), byte(len(b2) >> 8), byte(len(b2))}, b2...)
			g.kind = "sni-empty-ext"
		} else {
			g.raw = append(g.raw, 22)
			g.kind = "trailing-byte"
		}
		g.class, g.unparsable = 1, true
		g.sniPos, g.echPos = -1, -1
		return g
	}
	if g.class == 0 && r.Intn(60) == 0 {
		g.raw[0] = byte(r.Pick(0, 2, 22))
		g.class = 2
		g.kind = "not-ch"
	}
	return g
}

func vlen(v uint64) int {
	switch {
	case v <= 63:
		return 1
	case v <= 16383:
		return 2
	case v <= 1073741823:
		return 4
	}
	return 8
}

func budget(r *u.Rng, p int) int64 {
	switch p {
	case 0:
		return 1<<62 - 1 // protocol.MaxByteCount
	case 1:
		return int64(r.Range(1100, 1400))
	case 2:
		return int64(r.Range(4, 48))
	case 3:
		return int64(r.Pick(60, 64, 66, 67, 68, 70, 16383+3, 16383+5, 16383+6, 16390))
	default:
		switch r.Intn(5) {
		case 0:
			return int64(r.Intn(5))
		case 1:
			return 1<<62 - 1
		case 2:
			return int64(r.Range(5, 30))
		default:
			return int64(r.Range(30, 1300))
		}
	}
}

// runStream drives one stream and judges it with the monitors. With emit, the op list is
// returned as a Coq term (capped at maxOps ops).
func runStream(w *bufio.Writer, r *u.Rng, scramble bool, g genCH, extra []byte, profile int, emit bool, dist map[string]int) (string, bool) {
	const maxOps = 70
	var ops []string
	add := func(s string) {
		if emit && len(ops) < maxOps {
			ops = append(ops, s)
		}
	}
	detail := func() string {
		return fmt.Sprintf("scramble=%v kind=%s sniPos=%d sniLen=%d echPos=%d profile=%d extra=%x hello=%x", scramble, g.kind, g.sniPos, g.sniLen, g.echPos, profile, extra, g.raw)
	}
	ok := true
	fail := func(key, desc string) {
		ok = false
		monfail(w, key, desc, detail())
	}
	defer func() {
		if p := recover(); p != nil {
			monfail(w, "uframes/panic", fmt.Sprintf("initial crypto stream panicked: %v", p), detail())
		}
	}()
	st := quic.VerifUFramesNewStream(scramble)
	var W []byte // everything written so far
	covered := []bool{}
	state := func() {
		sc, wo, end, cuts, bl := st.State()
		add(u.App("OState", u.B(sc), u.Z(wo), u.Z(end), u.Z(cuts[0]), u.Z(cuts[1]), u.Z(cuts[2]), u.Z(cuts[3]), u.Z(int64(bl))))
	}
	write := func(p []byte, complete bool) bool {
		cls := st.Write(p)
		W = append(W, p...)
		covered = append(covered, make([]bool, len(p))...)
		add(u.App("OWrite", u.Hex(p), u.Z(int64(cls))))
		has := st.HasData()
		add(u.App("OHas", u.B(has)))
		if cls != 0 {
			if g.class == 0 {
				fail("scrambler/write-error", "Write rejected a well-formed ClientHello")
			}
			return false
		}
		// "the whole ClientHello" is the first complete handshake message (type, 24-bit length, body):
		// the generated kind trailing-byte still has a byte to write after it, and a split exactly
		// behind the message legitimately makes HasData true at that point
		msgComplete := len(W) >= 4 && len(W) >= 4+(int(W[1])<<16|int(W[2])<<8|int(W[3]))
		if scramble && !complete && !msgComplete && has {
			fail("scrambler/hasdata-early", "HasData is true before the whole ClientHello is queued")
		}
		if complete && len(W) > 0 && !has && g.unparsable {
			fail("scrambler/never-sent/unparsable-complete-hello", "a complete handshake message that findSNIAndECH cannot parse is queued, Write reported no error, and HasData stays false: it is never sent and nothing reports why")
			return false
		}
		if complete && len(W) > 0 && !has && g.class == 0 {
			key := "scrambler/never-sent"
			if scramble && g.sniPos == -1 && g.echPos != -1 {
				key = "scrambler/never-sent/ech-without-sni" // the input class of the known finding
			}
			fail(key, "the complete ClientHello is queued but HasData stays false: it is never sent")
			return false
		}
		return true
	}
	drain := func() bool {
		nils := 0
		for steps := 0; st.HasData(); steps++ {
			if steps > 20000 {
				fail("scrambler/stuck", "HasData stays true after 20000 pops")
				return false
			}
			ml := budget(r, profile)
			off, data, got := st.Pop(ml)
			if !got {
				add(u.App("OPop", u.Z(ml), "None"))
				if ml >= 16 {
					nils++
					if nils >= 3 {
						all := true
						for _, c := range covered {
							all = all && c
						}
						key := "scrambler/stuck"
						if scramble && g.sniPos != -1 && g.sniLen == 0 {
							key = "scrambler/stuck/empty-host-name" // the input class of the known finding
						}
						fail(key, fmt.Sprintf("PopCryptoFrame(%d) returns nil although HasData is true (all bytes sent so far: %v); nothing written later can ever be sent", ml, all))
						return false
					}
				}
				continue
			}
			nils = 0
			add(u.App("OPop", u.Z(ml), u.Opt(true, u.Pair(u.Z(off), u.Hex(data)))))
			if len(data) == 0 {
				fail("scrambler/empty-frame", "popped an empty CRYPTO frame")
			}
			if off < 0 || off+int64(len(data)) > int64(len(W)) || !bytes.Equal(W[off:off+int64(len(data))], data) {
				fail("scrambler/bytes", fmt.Sprintf("CRYPTO frame [%d,+%d) does not carry the ClientHello's bytes at that offset", off, len(data)))
				return false
			}
			if fl := int64(1 + vlen(uint64(off)) + vlen(uint64(len(data))) + len(data)); fl > ml {
				fail("scrambler/size", fmt.Sprintf("frame of %d bytes popped for maxLen %d", fl, ml))
			}
			for i := range data {
				covered[int(off)+i] = true
			}
		}
		for i, c := range covered {
			if !c {
				fail("scrambler/cover", fmt.Sprintf("stream drained (HasData false) but byte %d of %d was never sent", i, len(W)))
				return false
			}
		}
		return true
	}
	// the ClientHello arrives in 1..3 writes
	parts := [][]byte{g.raw}
	if len(g.raw) > 2 && r.Intn(3) == 0 {
		a := r.Range(1, len(g.raw)-1)
		parts = [][]byte{g.raw[:a], g.raw[a:]}
		if r.Bool() && a > 1 {
			b := r.Range(1, a-1)
			parts = [][]byte{g.raw[:b], g.raw[b:a], g.raw[a:]}
		}
	}
	for i, p := range parts {
		if !write(p, i == len(parts)-1) {
			state()
			return u.List(ops), ok
		}
	}
	state()
	if g.class == 0 || g.unparsable {
		if r.Intn(4) == 0 && len(extra) > 0 { // more data queued before the first pop
			write(extra, true)
			extra = nil
		}
		if drain() {
			dist["drained"]++
			state()
			if len(extra) > 0 { // e.g. the second ClientHello after a HelloRetryRequest
				if write(extra, true) && drain() {
					dist["drained-2nd"]++
				}
				state()
			}
		}
	}
	return u.List(ops), ok
}

func runScrambler(w *bufio.Writer, seed uint64, n int, _ []string) {
	seedSetup()
	root := u.NewRng(u.NewRng(seed).U64())
	dist := map[string]int{}
	nd := draws()

	// ---- findSNIAndECH ----
	for i := 0; i < n; i++ {
		r := root.Fork()
		g := makeCH(r, pickLen(r, true)+60)
		data := g.raw
		wantCls := g.class
		mut := r.Intn(6)
		switch mut {
		case 0: // truncated: every proper prefix must give io.ErrUnexpectedEOF (or the not-a-ClientHello error)
			data = data[:r.Intn(len(data))]
			if wantCls == 0 || len(data) < 4 || g.kind != "not-ch" {
				wantCls = 1
			}
		case 1: // one corrupted byte: no expectation, the model decides
			data = append([]byte{}, data...)
			data[r.Intn(len(data))] ^= byte(1 << r.Intn(8))
			wantCls = -1
		}
		var sp, sl, ep, cls int
		func() {
			defer func() {
				if p := recover(); p != nil {
					monfail(w, "uframes/panic", fmt.Sprintf("findSNIAndECH panicked: %v", p), fmt.Sprintf("data=%x", data))
					cls = -9
				}
			}()
			sp, sl, ep, cls = quic.VerifUFramesFindSNIAndECH(data)
		}()
		if cls == -9 {
			continue
		}
		dist["sni:"+g.kind]++
		det := func() string { return fmt.Sprintf("kind=%s mut=%d data=%x", g.kind, mut, data) }
		if g.kind == "dup-sni" || g.kind == "dup-ech" {
			wantCls = -1
		}
		if wantCls >= 0 && cls != wantCls && !(mut == 0 && cls == 2) {
			monfail(w, "scrambler/sni/class", fmt.Sprintf("findSNIAndECH class %d, expected %d", cls, wantCls), det())
		}
		if cls == 0 {
			// totality of positions, whatever the input was
			if sp != -1 && (sp < 0 || sl < 0 || sp+sl > len(data)) {
				monfail(w, "scrambler/sni/bounds", fmt.Sprintf("SNI position %d+%d outside the %d-byte input", sp, sl, len(data)), det())
			}
			if ep != -1 && (ep < 0 || ep+4 > len(data) || data[ep] != 0xfe || data[ep+1] != 0x0d) {
				monfail(w, "scrambler/sni/bounds", fmt.Sprintf("ECH position %d is not an ECH extension inside the input", ep), det())
			}
			if mut > 1 && wantCls == 0 && (sp != g.sniPos || (sp != -1 && sl != g.sniLen) || ep != g.echPos) {
				monfail(w, "scrambler/sni/position", fmt.Sprintf("found SNI %d+%d ECH %d, generated SNI %d+%d ECH %d", sp, sl, ep, g.sniPos, g.sniLen, g.echPos), det())
			}
		}
		nt := 0
		if cls == 0 {
			nt = 1
		}
		fmt.Fprintf(w, "CASE %d %s\n", nt, u.App("SniCase", u.Hex(data), u.Z(int64(cls)), u.Z(int64(sp)), u.Z(int64(sl)), u.Z(int64(ep))))
	}

	// ---- the stream: default splitter and scrambler ----
	for i := 0; i < n; i++ {
		r := root.Fork()
		scramble := r.Intn(4) != 0
		for d := 0; d < 1+nd; d++ {
			rr := r.Fork()
			emit := d == 0
			target := pickLen(rr, emit)
			if emit {
				target = min(target, 260)
			}
			g := makeCH(rr, target+50)
			var extra []byte
			if rr.Intn(3) == 0 {
				extra = rr.Bytes(rr.Range(1, 60))
			}
			profile := rr.Intn(5)
			if emit && profile == 2 && len(g.raw) > 400 {
				profile = 1
			}
			key := "default"
			if scramble {
				key = "scramble:" + g.kind
			}
			dist[key]++
			ops, ok := runStream(w, rr, scramble, g, extra, profile, emit, dist)
			if emit {
				nt := 0
				if ok && g.class == 0 {
					nt = 1
				}
				fmt.Fprintf(w, "CASE %d %s\n", nt, u.App("StreamCase", u.B(scramble), ops))
			}
		}
	}
	flushMonfail(w)
	keys := make([]string, 0, len(dist))
	for k := range dist {
		keys = append(keys, k)
	}
	sort.Strings(keys)
	for _, k := range keys {
		fmt.Fprintf(w, "DIST\t%s\t%d\n", k, dist[k])
	}
}
