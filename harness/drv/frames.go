//go:build verif

package main

import (
	"bufio"
	"bytes"
	"fmt"
	"os"
	"time"

	fuzzframes "github.com/refraction-networking/uquic/fuzzing/frames"
	"github.com/refraction-networking/uquic/internal/protocol"
	"github.com/refraction-networking/uquic/internal/qerr"
	u "github.com/refraction-networking/uquic/internal/verifutil"
	"github.com/refraction-networking/uquic/internal/wire"
)

func init() {
	units["frames"] = runFrames
	genSources = append(genSources, wire.VerifFrameConsts)
}

// ---------------------------------------------------------------------------------------
// frames unit (C08): every frame codec of internal/wire + frame_parser.go.
//   EncCase      frame value -> Append bytes / error, Length()
//   ParseCase    parser config, level, bytes -> error class, consumed, frame value
//   SplitCase    STREAM / CRYPTO: MaxDataLen + MaybeSplitOffFrame
//   AckTruncCase numEncodableAckRanges (Truncate)
// Monitors (model-independent): frames/panic, frames/length, frames/roundtrip,
// frames/consumed, frames/reencode, frames/reject, frames/level, frames/split, frames/truncate.
// ---------------------------------------------------------------------------------------

const (
	fv1 = uint64(63)
	fv2 = uint64(16383)
	fv4 = uint64(1073741823)
	fv8 = uint64(4611686018427387903)
)

var frBounds = []uint64{0, 1, 2, fv1 - 1, fv1, fv1 + 1, fv2 - 1, fv2, fv2 + 1, fv4 - 1, fv4, fv4 + 1, fv8 - 1, fv8}

var frLevels = []protocol.EncryptionLevel{protocol.EncryptionInitial, protocol.EncryptionHandshake, protocol.Encryption0RTT, protocol.Encryption1RTT}
var frVersions = []protocol.Version{protocol.Version1, protocol.Version2}

type frCfg struct {
	dg, rsa, af bool
	exp         uint8
}

type frGen struct {
	w    *bufio.Writer
	r    *u.Rng
	dist map[string]int
	seen map[string]bool
}

func (g *frGen) monfail(key, desc, detail string) {
	fmt.Fprintf(g.w, "MONFAIL\t%s\t%s\t%s\n", key, desc, detail)
}

// a varint-encodable value: boundary or random of a random width
func (g *frGen) vv() uint64 {
	r := g.r
	if r.Chance(1, 2) {
		return frBounds[r.Intn(len(frBounds))]
	}
	switch r.Intn(4) {
	case 0:
		return r.U64() & fv1
	case 1:
		return r.U64() & fv2
	case 2:
		return r.U64() & fv4
	}
	return r.U64() & fv8
}

func (g *frGen) small() uint64 { return g.r.U64() & fv2 }

func (g *frGen) dataLen() int {
	if g.r.Chance(1, 8) { // both sides of the pool-buffer threshold and the packet-size limit
		return int(g.r.Pick(300, 1000, 1451, 1452))
	}
	return int(g.r.Pick(0, 1, 2, 62, 63, 64, 65, 126, 127, 128, 129))
}

func (g *frGen) cfg() frCfg {
	r := g.r
	c := frCfg{dg: r.Chance(3, 4), rsa: r.Chance(3, 4), af: r.Chance(3, 4), exp: uint8(r.Pick(0, 3, 3, 3, 10, 20))}
	return c
}

func (c frCfg) parser() *wire.FrameParser {
	p := wire.NewFrameParser(c.dg, c.rsa, c.af)
	p.SetAckDelayExponent(c.exp)
	return p
}

// ---------------------------------------------------------------------------------------
// structured frames: kind k, with field `sweep` forced to the value `bv` (sweep < 0: random)
// ---------------------------------------------------------------------------------------

const frKinds = 26

func (g *frGen) field(i, sweep int, bv uint64) uint64 {
	if i == sweep {
		return bv
	}
	return g.vv()
}

func (g *frGen) ackRanges(num int, largest uint64) []wire.AckRange {
	r := g.r
	rs := make([]wire.AckRange, 0, num)
	lg := int64(largest)
	for i := 0; i < num; i++ {
		var ln int64
		switch r.Intn(4) {
		case 0:
			ln = r.Pick(0, 1, 62, 63, 64, 65)
		case 1:
			ln = int64(r.U64() & fv2)
		case 2:
			ln = r.Pick(16382, 16383, 16384, 1073741823, 1073741824)
		default:
			ln = int64(r.U64() & 0xff)
		}
		if ln > lg {
			ln = lg
		}
		sm := lg - ln
		rs = append(rs, wire.AckRange{Smallest: protocol.PacketNumber(sm), Largest: protocol.PacketNumber(lg)})
		var gap int64
		switch r.Intn(3) {
		case 0:
			gap = r.Pick(0, 1, 62, 63, 64, 65, 16383, 16384)
		case 1:
			gap = int64(r.U64() & 0x3f)
		default:
			gap = int64(r.U64() & fv2)
		}
		if sm < gap+2 {
			break
		}
		lg = sm - gap - 2
	}
	return rs
}

func (g *frGen) mkFrame(k, sweep int, bv uint64) wire.Frame {
	r := g.r
	f := func(i int) uint64 { return g.field(i, sweep, bv) }
	switch k {
	case 0:
		return &wire.PingFrame{}
	case 1:
		return &wire.HandshakeDoneFrame{}
	case 2:
		return &wire.ImmediateAckFrame{}
	case 3, 4: // ACK without / with ECN
		num := int(r.Pick(1, 1, 2, 3, 5, 10, 63, 64, 65, 70))
		la := f(0)
		af := &wire.AckFrame{AckRanges: g.ackRanges(num, la)}
		d := f(1)
		switch r.Intn(4) {
		case 0: // any encodable delay: encoded value = d, d * 8µs must fit int64
			d %= 1 << 50
			af.DelayTime = time.Duration(d) * 8 * time.Microsecond
		case 1:
			af.DelayTime = time.Duration(d%16384)*8*time.Microsecond + time.Duration(r.Intn(8000))
		default:
			af.DelayTime = time.Duration(r.Intn(50_000_000))
		}
		if k == 4 {
			af.ECT0, af.ECT1, af.ECNCE = f(2), f(3), f(4)
			if af.ECT0 == 0 && af.ECT1 == 0 && af.ECNCE == 0 {
				af.ECNCE = 1
			}
		}
		return af
	case 5: // RESET_STREAM
		return &wire.ResetStreamFrame{StreamID: protocol.StreamID(f(0)), ErrorCode: qerr.StreamErrorCode(f(1)), FinalSize: protocol.ByteCount(f(2))}
	case 6: // RESET_STREAM_AT
		fs := f(2)
		rs := f(3)
		if sweep != 3 && rs > fs && r.Chance(9, 10) {
			rs = fs
		}
		return &wire.ResetStreamFrame{StreamID: protocol.StreamID(f(0)), ErrorCode: qerr.StreamErrorCode(f(1)), FinalSize: protocol.ByteCount(fs), ReliableSize: protocol.ByteCount(rs)}
	case 7:
		return &wire.StopSendingFrame{StreamID: protocol.StreamID(f(0)), ErrorCode: qerr.StreamErrorCode(f(1))}
	case 8:
		return &wire.CryptoFrame{Offset: protocol.ByteCount(f(0)), Data: r.Bytes(g.dataLen())}
	case 9:
		return &wire.NewTokenFrame{Token: r.Bytes(int(r.Pick(0, 1, 16, 63, 64, 65, 200)))}
	case 10, 11, 12, 13: // STREAM: (fin, dataLenPresent)
		off := f(1)
		if r.Chance(1, 4) && sweep != 1 {
			off = 0
		}
		sf := &wire.StreamFrame{StreamID: protocol.StreamID(f(0)), Offset: protocol.ByteCount(off), Data: r.Bytes(g.dataLen()), Fin: k&1 == 1, DataLenPresent: k >= 12}
		if len(sf.Data) == 0 {
			sf.Data = nil
		}
		return sf
	case 14:
		return &wire.MaxDataFrame{MaximumData: protocol.ByteCount(f(0))}
	case 15:
		return &wire.MaxStreamDataFrame{StreamID: protocol.StreamID(f(0)), MaximumStreamData: protocol.ByteCount(f(1))}
	case 16:
		return &wire.MaxStreamsFrame{Type: g.streamType(), MaxStreamNum: protocol.StreamNum(g.streamCount(sweep, bv))}
	case 17:
		return &wire.DataBlockedFrame{MaximumData: protocol.ByteCount(f(0))}
	case 18:
		return &wire.StreamDataBlockedFrame{StreamID: protocol.StreamID(f(0)), MaximumStreamData: protocol.ByteCount(f(1))}
	case 19:
		return &wire.StreamsBlockedFrame{Type: g.streamType(), StreamLimit: protocol.StreamNum(g.streamCount(sweep, bv))}
	case 20:
		seq := f(0)
		rpt := f(1)
		if sweep != 1 && rpt > seq && r.Chance(9, 10) {
			rpt = seq
		}
		nf := &wire.NewConnectionIDFrame{SequenceNumber: seq, RetirePriorTo: rpt,
			ConnectionID: protocol.ParseConnectionID(r.Bytes(int(r.Pick(0, 1, 4, 8, 8, 19, 20, 20))))}
		copy(nf.StatelessResetToken[:], r.Bytes(16))
		return nf
	case 21:
		return &wire.RetireConnectionIDFrame{SequenceNumber: f(0)}
	case 22:
		pc := &wire.PathChallengeFrame{}
		copy(pc.Data[:], r.Bytes(8))
		return pc
	case 23:
		pr := &wire.PathResponseFrame{}
		copy(pr.Data[:], r.Bytes(8))
		return pr
	case 24:
		cc := &wire.ConnectionCloseFrame{IsApplicationError: r.Bool(), ErrorCode: f(0), ReasonPhrase: string(r.Bytes(int(r.Pick(0, 0, 1, 20, 63, 64, 65, 300))))}
		if !cc.IsApplicationError {
			cc.FrameType = f(1)
		}
		return cc
	case 25:
		df := &wire.DatagramFrame{DataLenPresent: r.Bool(), Data: r.Bytes(g.dataLen())}
		return df
	}
	// 26: ACK_FREQUENCY (kept last so that frKinds covers 0..25 + this one)
	mad := f(2)
	if sweep != 2 {
		mad %= 1 << 40
	}
	if mad > uint64(1<<63-1)/1000 {
		mad = uint64(1<<63-1) / 1000
	}
	return &wire.AckFrequencyFrame{SequenceNumber: f(0), AckElicitingThreshold: f(1), RequestMaxAckDelay: time.Duration(mad) * time.Microsecond, ReorderingThreshold: protocol.PacketNumber(f(3))}
}

func (g *frGen) streamType() protocol.StreamType {
	if g.r.Bool() {
		return protocol.StreamTypeUni
	}
	return protocol.StreamTypeBidi
}

func (g *frGen) streamCount(sweep int, bv uint64) uint64 {
	if sweep == 0 {
		return bv
	}
	return uint64(g.r.Pick(0, 1, 63, 64, 100, 16384, 1<<60-1, 1<<60, 1<<60+1, int64(fv8)))
}

// number of varint fields of kind k that the boundary sweep visits
func frFields(k int) int {
	switch k {
	case 3:
		return 2
	case 4:
		return 5
	case 5:
		return 3
	case 6, 26:
		return 4
	case 7, 15, 18, 20, 24:
		return 2
	case 8, 14, 16, 17, 19, 21:
		return 1
	case 10, 11, 12, 13:
		return 2
	}
	return 0
}

func frName(f wire.Frame) string { return fmt.Sprintf("%T", f)[6:] }

// the frame's type as Append writes it (independent re-statement for the monitors)
func frTypeOf(f wire.Frame) uint64 {
	b, err := f.Append(nil, protocol.Version1)
	if err != nil || len(b) == 0 {
		return 0
	}
	if b[0]&0xc0 == 0x40 && len(b) > 1 {
		return uint64(b[0]&0x3f)<<8 | uint64(b[1])
	}
	return uint64(b[0])
}

// RFC 9000 section 12.4, table 3 (+ RFC 9221 DATAGRAM, reliable reset, ack frequency: 0-RTT and 1-RTT):
// may a frame of this type appear at the level?
func frRFCAllowed(t uint64, lvl protocol.EncryptionLevel) bool {
	switch lvl {
	case protocol.EncryptionInitial, protocol.EncryptionHandshake:
		return t == 0x1 || t == 0x2 || t == 0x3 || t == 0x6 || t == 0x1c
	case protocol.Encryption0RTT:
		switch t {
		case 0x2, 0x3, 0x6, 0x7, 0x1b, 0x19, 0x1e:
			return false
		}
		return true
	}
	return true
}

// frames whose value must be rejected by the parser although Append can write them
func frMustReject(f wire.Frame) string {
	switch x := f.(type) {
	case *wire.MaxStreamsFrame:
		if uint64(x.MaxStreamNum) > 1<<60 {
			return "stream count > 2^60"
		}
	case *wire.StreamsBlockedFrame:
		if uint64(x.StreamLimit) > 1<<60 {
			return "stream count > 2^60"
		}
	case *wire.ResetStreamFrame:
		if x.ReliableSize > x.FinalSize {
			return "reliable size > final size"
		}
	case *wire.NewConnectionIDFrame:
		if x.RetirePriorTo > x.SequenceNumber {
			return "retire prior to > sequence number"
		}
		if x.ConnectionID.Len() == 0 {
			return "zero-length connection ID"
		}
	case *wire.NewTokenFrame:
		if len(x.Token) == 0 {
			return "empty token"
		}
	case *wire.StreamFrame:
		if uint64(x.Offset)+uint64(len(x.Data)) > fv8 {
			return "offset + length > 2^62-1"
		}
	}
	return ""
}

// RFC 9000 value rules restated on a parsed frame (anything the parser returns must satisfy them)
func frParsedInvalid(f wire.Frame) string {
	if why := frMustReject(f); why != "" {
		return why
	}
	switch x := f.(type) {
	case *wire.AckFrame:
		if len(x.AckRanges) == 0 {
			return "no ACK range"
		}
		for i, r := range x.AckRanges {
			if r.Smallest < 0 || r.Smallest > r.Largest || uint64(r.Largest) > fv8 {
				return "an ACK range that is negative or inverted"
			}
			if i > 0 && r.Largest+2 > x.AckRanges[i-1].Smallest {
				return "ACK ranges that overlap, touch or ascend"
			}
		}
		if x.DelayTime < 0 {
			return "a negative ACK delay"
		}
	case *wire.NewConnectionIDFrame:
		if x.ConnectionID.Len() > 20 {
			return "a connection ID longer than 20 bytes"
		}
	case *wire.StreamFrame:
		if x.StreamID < 0 || x.Offset < 0 {
			return "a negative stream ID / offset"
		}
	case *wire.AckFrequencyFrame:
		if x.RequestMaxAckDelay < 0 {
			return "a negative max ack delay"
		}
	}
	return ""
}

// what the frame is expected to parse back to (ACK: 64 ranges, quantised delay); nil: no expectation
func (g *frGen) expectBack(f wire.Frame, exp uint8) wire.Frame {
	switch x := f.(type) {
	case *wire.AckFrame:
		n := len(x.AckRanges)
		if n > 64 {
			n = 64
		}
		enc := uint64(x.DelayTime.Nanoseconds() / 8000)
		d := enc << exp
		if exp >= 64 || d>>exp != enc || d > uint64(1<<63-1)/1000 {
			return nil // delay scaling overflows: no expectation here
		}
		return &wire.AckFrame{AckRanges: x.AckRanges[:n], DelayTime: time.Duration(d) * time.Microsecond, ECT0: x.ECT0, ECT1: x.ECT1, ECNCE: x.ECNCE}
	case *wire.AckFrequencyFrame:
		c := *x
		c.RequestMaxAckDelay = x.RequestMaxAckDelay / time.Microsecond * time.Microsecond
		return &c
	case *wire.StreamFrame:
		if len(x.Data) >= 128 && len(x.Data) > int(protocol.MaxPacketBufferSize) {
			return nil
		}
	}
	return f
}

func frCfgStr(c frCfg) string {
	return fmt.Sprintf("%s %s %s %d", u.B(c.dg), u.B(c.rsa), u.B(c.af), c.exp)
}

// parse one frame, recover panics
func (g *frGen) parse(c frCfg, lvl protocol.EncryptionLevel, v protocol.Version, in []byte) (f wire.Frame, cls, consumed int, ok bool) {
	return g.parseWith(nil, c, lvl, v, in)
}

// parseWith: p == nil uses a fresh parser (configured by c), otherwise the given long-lived one
func (g *frGen) parseWith(p *wire.FrameParser, c frCfg, lvl protocol.EncryptionLevel, v protocol.Version, in []byte) (f wire.Frame, cls, consumed int, ok bool) {
	defer func() {
		if e := recover(); e != nil {
			g.monfail("frames/panic", fmt.Sprintf("parser panicked: %v", e), fmt.Sprintf("cfg=%s lvl=%d input=%x", frCfgStr(c), lvl, in))
			ok = false
		}
	}()
	if p == nil {
		p = c.parser()
	}
	fr, lt, lb, stage, err := wire.VerifParseNext(p, in, lvl, v)
	cls = wire.VerifErrClass(err)
	switch {
	case err == nil:
		consumed = lt + lb
	case stage == 0: // ParseType failed: the bytes it reports as parsed
		consumed = lt
	default: // the body parser failed: what it reports (0)
		consumed = lb
	}
	if err != nil {
		fr = nil
	}
	return fr, cls, consumed, true
}

// the repository's own fuzz target (fuzzing/frames.Fuzz: parse all frames of a payload, validate,
// re-serialise, compare lengths; it panics on an inconsistency) — never run by the test suite
func (g *frGen) fuzzEntry(lvl protocol.EncryptionLevel, in []byte) {
	var p byte // Fuzz maps prefix%3 to Initial / Handshake / 1-RTT
	switch lvl {
	case protocol.EncryptionInitial:
		p = 0
	case protocol.EncryptionHandshake:
		p = 1
	case protocol.Encryption1RTT:
		p = 2
	default:
		return
	}
	defer func() {
		if e := recover(); e != nil {
			g.monfail("frames/fuzz-entry", fmt.Sprintf("fuzzing/frames.Fuzz panicked: %v", e), fmt.Sprintf("lvl=%d input=%x", lvl, in))
		}
	}()
	fuzzframes.Fuzz(append([]byte{p}, in...))
	g.dist["fuzz-entry"]++
}

func (g *frGen) emitParse(c frCfg, lvl protocol.EncryptionLevel, v protocol.Version, in []byte, bucket string) (wire.Frame, int, int) {
	return g.emitParseWith(nil, c, lvl, v, in, bucket)
}

func (g *frGen) emitParseWith(p *wire.FrameParser, c frCfg, lvl protocol.EncryptionLevel, v protocol.Version, in []byte, bucket string) (wire.Frame, int, int) {
	g.fuzzEntry(lvl, in)
	f, cls, consumed, ok := g.parseWith(p, c, lvl, v, in)
	if !ok {
		return nil, 99, 0
	}
	if cls == 0 {
		if consumed > len(in) || consumed <= 0 {
			g.monfail("frames/consumed", fmt.Sprintf("consumed %d of %d bytes", consumed, len(in)), fmt.Sprintf("cfg=%s lvl=%d input=%x", frCfgStr(c), lvl, in))
		}
		if why := frParsedInvalid(f); why != "" {
			g.monfail("frames/reject", "parser accepted a frame with "+why+": "+wire.VerifDumpFrame(f), fmt.Sprintf("cfg=%s lvl=%d input=%x", frCfgStr(c), lvl, in))
		}
		g.checkReencode(c, lvl, v, in, f, consumed)
	}
	nt := 0
	if cls == 0 || cls >= 4 {
		nt = 1
	}
	fs := "None"
	if f != nil {
		fs = "(Some " + wire.VerifDumpFrame(f) + ")"
	}
	line := fmt.Sprintf("CASE %d (ParseCase %s %d %s %d %d %s)\n", nt, frCfgStr(c), lvl, u.Hex(in), cls, consumed, fs)
	if !g.seen[line] {
		g.seen[line] = true
		g.w.WriteString(line)
		g.dist["parse:"+bucket]++
		g.dist[fmt.Sprintf("parse-class:%d", cls)]++
		if f != nil {
			g.dist["parsed:"+frName(f)]++
		}
	}
	return f, cls, consumed
}

// parse -> Append -> parse is a fixpoint; the re-encoding is never longer than what was consumed
func (g *frGen) checkReencode(c frCfg, lvl protocol.EncryptionLevel, v protocol.Version, in []byte, f wire.Frame, consumed int) {
	if sf, ok := f.(*wire.StreamFrame); ok && len(sf.Data) == 0 && !sf.Fin {
		// accepted when parsing, never written: Append refuses it by design (observation, see
		// C08_reencode_empty_stream_refuted) — counted and shown, not skipped silently
		if _, err := sf.Append(nil, v); err == nil {
			g.monfail("frames/reencode", "Append now writes an empty STREAM frame without FIN (model says it refuses)", fmt.Sprintf("input=%x", in))
		}
		if g.dist["info:empty-stream-without-fin-not-reencodable"] == 0 {
			fmt.Fprintf(g.w, "INFO\tOBSERVATION\tframes/empty-stream-not-reencodable\tparsed but Append refuses it\tinput=%x\n", in)
		}
		g.dist["info:empty-stream-without-fin-not-reencodable"]++
		return
	}
	detail := fmt.Sprintf("cfg=%s lvl=%d input=%x", frCfgStr(c), lvl, in)
	defer func() {
		if e := recover(); e != nil {
			g.monfail("frames/panic", fmt.Sprintf("re-encoding a parsed frame panicked: %v", e), detail)
		}
	}()
	dump := wire.VerifDumpFrame(f)
	b2, err := f.Append(nil, v)
	if err != nil {
		g.monfail("frames/reencode", "Append of a parsed frame fails: "+err.Error(), detail)
		return
	}
	if protocol.ByteCount(len(b2)) != f.Length(v) {
		g.monfail("frames/length", fmt.Sprintf("parsed %s: len(Append)=%d, Length()=%d", frName(f), len(b2), f.Length(v)), detail)
	}
	_, isAck := f.(*wire.AckFrame)
	ackRescaled := isAck && lvl == protocol.Encryption1RTT && c.exp != protocol.AckDelayExponent
	if len(b2) > consumed && !ackRescaled {
		g.monfail("frames/reencode", fmt.Sprintf("re-encoding (%d bytes) longer than the parsed encoding (%d bytes)", len(b2), consumed), detail)
	}
	// a RESET_STREAM_AT with reliable size 0 is re-encoded as RESET_STREAM, allowed everywhere RESET_STREAM_AT is
	c2 := c
	if af, ok := f.(*wire.AckFrame); ok {
		// re-parse ACKs with the exponent Append uses, otherwise the delay is rescaled by design
		_ = af
		c2.exp = protocol.AckDelayExponent
		if lvl != protocol.Encryption1RTT && protocol.DefaultAckDelayExponent != protocol.AckDelayExponent {
			return
		}
	}
	f2, lt, lb, _, err := wire.VerifParseNext(c2.parser(), b2, lvl, v)
	if err != nil {
		g.monfail("frames/reencode", "re-encoded frame does not parse: "+err.Error(), detail)
		return
	}
	if lt+lb != len(b2) {
		g.monfail("frames/reencode", fmt.Sprintf("re-encoded frame: consumed %d of %d", lt+lb, len(b2)), detail)
	}
	if af, ok := f.(*wire.AckFrame); ok {
		// first parse used exponent e, the re-encoding quantises to 8µs: compare modulo the delay
		// (a delay that is not a multiple of 8µs is quantised by design)
		a2 := f2.(*wire.AckFrame)
		d1 := af.DelayTime
		if d1%(8*time.Microsecond) == 0 && a2.DelayTime != d1 {
			g.monfail("frames/reencode", fmt.Sprintf("ACK delay changes on re-encoding: %d -> %d", d1, a2.DelayTime), detail)
		}
		a2c := *a2
		a2c.DelayTime = d1
		f2 = &a2c
	}
	if fq, ok := f.(*wire.AckFrequencyFrame); ok && fq.RequestMaxAckDelay%time.Microsecond != 0 {
		return // clamped / wrapped delay: quantised to microseconds by design
	}
	if d2 := wire.VerifDumpFrame(f2); d2 != dump {
		g.monfail("frames/reencode", "parse(Append(parse(b))) differs from parse(b): "+dump+" vs "+d2, detail)
	}
}

// encode one structured frame, log it, run the monitors, log parse cases
func (g *frGen) doFrame(f wire.Frame, idx int) []byte {
	v := frVersions[idx%2]
	name := frName(f)
	detail := wire.VerifDumpFrame(f)
	var enc []byte
	var err error
	var length protocol.ByteCount
	func() {
		defer func() {
			if e := recover(); e != nil {
				g.monfail("frames/panic", fmt.Sprintf("Append/Length panicked: %v", e), detail)
				err = fmt.Errorf("panic")
			}
		}()
		enc, err = f.Append([]byte{}, v)
		length = f.Length(v)
	}()
	es := "None"
	if err == nil {
		es = "(Some " + u.Hex(enc) + ")"
		if protocol.ByteCount(len(enc)) != length {
			g.monfail("frames/length", fmt.Sprintf("%s: len(Append)=%d but Length()=%d", name, len(enc), length), detail)
		}
		// Append must not depend on what is already in the buffer
		pre := []byte{0xde, 0xad}
		enc2, _ := f.Append(append([]byte{}, pre...), v)
		if !bytes.Equal(enc2[2:], enc) || !bytes.Equal(enc2[:2], pre) {
			g.monfail("frames/length", name+": Append to a non-empty buffer differs", detail)
		}
	}
	line := fmt.Sprintf("CASE 1 (EncCase %s %s %d)\n", detail, es, length)
	if !g.seen[line] {
		g.seen[line] = true
		g.w.WriteString(line)
		g.dist["enc:"+name]++
	}
	if err != nil {
		return nil
	}
	t := frTypeOf(f)
	trailer := g.r.Bytes(g.r.Intn(4))
	selfDelimiting := true
	switch x := f.(type) {
	case *wire.StreamFrame:
		selfDelimiting = x.DataLenPresent
	case *wire.DatagramFrame:
		selfDelimiting = x.DataLenPresent
	}
	if !selfDelimiting {
		trailer = nil
	}
	in := append(append([]byte{}, enc...), trailer...)
	full := frCfg{dg: true, rsa: true, af: true, exp: protocol.AckDelayExponent}
	logLvl := frLevels[g.r.Intn(4)]
	for _, lvl := range frLevels {
		c := full
		if g.r.Chance(1, 3) {
			c.exp = uint8(g.r.Pick(0, 1, 10, 20))
		}
		var pf wire.Frame
		var cls, consumed int
		if lvl == logLvl {
			pf, cls, consumed = g.emitParse(c, lvl, v, in, "structured")
		} else {
			var ok bool
			pf, cls, consumed, ok = g.parse(c, lvl, v, in)
			if !ok {
				continue
			}
		}
		pd := fmt.Sprintf("lvl=%d exp=%d frame=%s enc=%x", lvl, c.exp, detail, in)
		if !frRFCAllowed(t, lvl) {
			if cls == 0 {
				g.monfail(fmt.Sprintf("frames/level/accepted-0x%x-at-%d", t, lvl), fmt.Sprintf("frame type 0x%x accepted at encryption level %s", t, lvl), pd)
			}
			continue
		}
		if cls == 5 {
			if t == 0x1c && lvl == protocol.Encryption0RTT {
				// stricter than RFC 9000 table 3 (ih01): CONNECTION_CLOSE of type 0x1c is refused in 0-RTT. Not a C08 violation.
				g.dist["info:0x1c-refused-in-0rtt"]++
				continue
			}
			g.monfail(fmt.Sprintf("frames/level/rejected-0x%x-at-%d", t, lvl), fmt.Sprintf("frame type 0x%x rejected at encryption level %s where RFC 9000 allows it", t, lvl), pd)
			continue
		}
		if why := frMustReject(f); why != "" {
			if cls == 0 {
				g.monfail("frames/reject", name+" with "+why+" was accepted", pd)
			}
			continue
		}
		effExp := c.exp
		if lvl != protocol.Encryption1RTT {
			effExp = protocol.DefaultAckDelayExponent
		}
		want := g.expectBack(f, effExp)
		if want == nil {
			continue
		}
		if cls != 0 {
			g.monfail("frames/roundtrip", fmt.Sprintf("%s: parse(Append(f)) fails with class %d", name, cls), pd)
			continue
		}
		if !wire.VerifFramesEqual(pf, want) {
			g.monfail("frames/roundtrip", name+": parse(Append(f)) = "+wire.VerifDumpFrame(pf), pd)
		}
		if consumed != len(enc) {
			g.monfail("frames/consumed", fmt.Sprintf("%s: consumed %d, encoding has %d bytes", name, consumed, len(enc)), pd)
		}
	}
	// restricted parsers must refuse extension frames
	if t == 0x30 || t == 0x31 || t == 0x24 || t == 0xaf || t == 0x1f {
		c := frCfg{dg: !(t == 0x30 || t == 0x31), rsa: t != 0x24, af: !(t == 0xaf || t == 0x1f), exp: 3}
		_, cls, _ := g.emitParse(c, protocol.Encryption1RTT, v, in, "ext-off")
		if cls == 0 {
			g.monfail("frames/reject", fmt.Sprintf("extension frame 0x%x accepted although the extension was not negotiated", t), detail)
		}
	}
	return enc
}

// ---------------------------------------------------------------------------------------
// MaxDataLen / MaybeSplitOffFrame
// ---------------------------------------------------------------------------------------

func (g *frGen) doSplitStream(sf *wire.StreamFrame, maxSize protocol.ByteCount) {
	v := protocol.Version1
	orig := &wire.StreamFrame{StreamID: sf.StreamID, Offset: sf.Offset, Data: append([]byte{}, sf.Data...), Fin: sf.Fin, DataLenPresent: sf.DataLenPresent}
	detail := fmt.Sprintf("maxSize=%d frame=%s", maxSize, wire.VerifDumpFrame(orig))
	// the frame under test owns a pool buffer like the frames the send stream creates
	f := wire.GetStreamFrame()
	f.StreamID, f.Offset, f.Fin, f.DataLenPresent = sf.StreamID, sf.Offset, sf.Fin, sf.DataLenPresent
	f.Data = f.Data[:len(sf.Data)]
	copy(f.Data, sf.Data)
	defer func() {
		if e := recover(); e != nil {
			g.monfail("frames/panic", fmt.Sprintf("StreamFrame split panicked: %v", e), detail)
		}
	}()
	mdl := f.MaxDataLen(maxSize, v)
	nf, split := f.MaybeSplitOffFrame(maxSize, v)
	ns := "None"
	if nf != nil {
		ns = "(Some " + wire.VerifDumpFrame(nf) + ")"
	}
	fmt.Fprintf(g.w, "CASE 1 (SplitCase %s %d %d %s %s %s)\n", wire.VerifDumpFrame(orig), maxSize, mdl, ns, u.B(split), wire.VerifDumpFrame(f))
	g.dist["split:stream"]++
	// monitors
	if mdl > 0 {
		probe := &wire.StreamFrame{StreamID: sf.StreamID, Offset: sf.Offset, DataLenPresent: sf.DataLenPresent, Data: make([]byte, mdl)}
		if probe.Length(v) > maxSize {
			g.monfail("frames/split", fmt.Sprintf("STREAM MaxDataLen(%d)=%d gives a frame of %d bytes", maxSize, mdl, probe.Length(v)), detail)
		}
		probe.Data = make([]byte, mdl+1)
		if probe.Length(v) <= maxSize {
			g.monfail("frames/split", fmt.Sprintf("STREAM MaxDataLen(%d)=%d is not maximal", maxSize, mdl), detail)
		}
	}
	if !split {
		if nf != nil || orig.Length(v) > maxSize || !wire.VerifFramesEqual(orig, f) {
			g.monfail("frames/split", "STREAM not split although it does not fit (or changed)", detail)
		}
		return
	}
	if orig.Length(v) <= maxSize {
		g.monfail("frames/split", "STREAM split although it fits", detail)
	}
	if nf == nil {
		if !wire.VerifFramesEqual(orig, f) {
			g.monfail("frames/split", "STREAM: no frame split off but the frame changed", detail)
		}
		return
	}
	if nf.Length(v) > maxSize || len(nf.Data) == 0 {
		g.monfail("frames/split", fmt.Sprintf("STREAM split-off frame has %d bytes (%d data)", nf.Length(v), len(nf.Data)), detail)
	}
	if !bytes.Equal(append(append([]byte{}, nf.Data...), f.Data...), orig.Data) || nf.Offset != orig.Offset ||
		f.Offset != orig.Offset+protocol.ByteCount(len(nf.Data)) || nf.Fin || f.Fin != orig.Fin || nf.StreamID != orig.StreamID ||
		f.StreamID != orig.StreamID || nf.DataLenPresent != orig.DataLenPresent || f.DataLenPresent != orig.DataLenPresent {
		g.monfail("frames/split", "STREAM split does not preserve the byte range / flags: "+wire.VerifDumpFrame(nf)+" + "+wire.VerifDumpFrame(f), detail)
	}
}

func (g *frGen) doSplitCrypto(cf *wire.CryptoFrame, maxSize protocol.ByteCount, known bool) {
	v := protocol.Version1
	orig := &wire.CryptoFrame{Offset: cf.Offset, Data: append([]byte{}, cf.Data...)}
	f := &wire.CryptoFrame{Offset: cf.Offset, Data: append([]byte{}, cf.Data...)}
	detail := fmt.Sprintf("maxSize=%d off=%d len=%d", maxSize, cf.Offset, len(cf.Data))
	defer func() {
		if e := recover(); e != nil {
			g.monfail("frames/panic", fmt.Sprintf("CryptoFrame split panicked: %v", e), detail)
		}
	}()
	mdl := f.MaxDataLen(maxSize)
	nf, split := f.MaybeSplitOffFrame(maxSize, v)
	ns := "None"
	if nf != nil {
		ns = "(Some " + wire.VerifDumpFrame(nf) + ")"
	}
	if !known { // the 20 kB witness is replayed as a monitor only
		fmt.Fprintf(g.w, "CASE 1 (SplitCase %s %d %d %s %s %s)\n", wire.VerifDumpFrame(orig), maxSize, mdl, ns, u.B(split), wire.VerifDumpFrame(f))
		g.dist["split:crypto"]++
	}
	key := "frames/split"
	if known {
		key = "frames/maxdatalen-overshoot-large"
	}
	if mdl > 0 {
		probe := &wire.CryptoFrame{Offset: cf.Offset, Data: make([]byte, mdl)}
		if probe.Length(v) > maxSize {
			g.monfail(key, fmt.Sprintf("CRYPTO MaxDataLen(%d)=%d gives a frame of %d bytes", maxSize, mdl, probe.Length(v)), detail)
		}
	}
	if !split {
		if nf != nil || orig.Length(v) > maxSize || !wire.VerifFramesEqual(orig, f) {
			g.monfail("frames/split", "CRYPTO not split although it does not fit (or changed)", detail)
		}
		return
	}
	if nf == nil {
		if !wire.VerifFramesEqual(orig, f) {
			g.monfail("frames/split", "CRYPTO: no frame split off but the frame changed", detail)
		}
		return
	}
	if nf.Length(v) > maxSize || len(nf.Data) == 0 {
		g.monfail(key, fmt.Sprintf("CRYPTO split-off frame has %d bytes (%d data), maxSize %d", nf.Length(v), len(nf.Data), maxSize), detail)
	}
	if !bytes.Equal(append(append([]byte{}, nf.Data...), f.Data...), orig.Data) || nf.Offset != orig.Offset ||
		f.Offset != orig.Offset+protocol.ByteCount(len(nf.Data)) {
		g.monfail("frames/split", "CRYPTO split does not preserve the byte range", detail)
	}
}

func (g *frGen) splitCases(n int) {
	r := g.r
	for i := 0; i < n; i++ {
		sf := g.mkFrame(10+r.Intn(4), -1, 0).(*wire.StreamFrame)
		if r.Chance(1, 2) {
			sf.Data = r.Bytes(int(r.Pick(1, 2, 60, 63, 64, 65, 66, 70, 100, 200, 1452)))
		}
		if len(sf.Data) == 0 {
			sf.Fin = true
		}
		if uint64(sf.Offset)+uint64(len(sf.Data)) > fv8 {
			sf.Offset = protocol.ByteCount(fv8 - uint64(len(sf.Data)))
		}
		L := sf.Length(protocol.Version1)
		hdr := L - protocol.ByteCount(len(sf.Data))
		var ms protocol.ByteCount
		switch r.Intn(6) {
		case 0:
			ms = protocol.ByteCount(r.Intn(int(hdr) + 3))
		case 1:
			ms = L - 2 + protocol.ByteCount(r.Intn(4))
		case 2:
			ms = hdr + 60 + protocol.ByteCount(r.Intn(8))
		case 3:
			ms = protocol.ByteCount(r.Intn(int(L) + 2))
		case 4:
			ms = hdr + protocol.ByteCount(r.Intn(4))
		default:
			ms = protocol.ByteCount(r.Intn(1500))
		}
		if ms < 0 {
			ms = 0
		}
		g.doSplitStream(sf, ms)
	}
	for i := 0; i < n/2; i++ {
		cf := &wire.CryptoFrame{Offset: protocol.ByteCount(g.vv() % (fv8 - 40000)), Data: r.Bytes(int(r.Pick(1, 2, 63, 64, 65, 66, 70, 100, 200, 700, 1452, 2000)))}
		L := cf.Length(protocol.Version1)
		hdr := L - protocol.ByteCount(len(cf.Data))
		var ms protocol.ByteCount
		switch r.Intn(5) {
		case 0:
			ms = protocol.ByteCount(r.Intn(int(hdr) + 3))
		case 1:
			ms = L - 2 + protocol.ByteCount(r.Intn(4))
		case 2:
			ms = hdr + 60 + protocol.ByteCount(r.Intn(8))
		case 3:
			ms = protocol.ByteCount(r.Intn(int(L) + 2))
		default:
			ms = protocol.ByteCount(r.Intn(1500))
		}
		g.doSplitCrypto(cf, ms, false)
	}
	// regression of the fixed finding frames/maxdatalen-overshoot-large (MaxDataLen was 2 bytes too
	// generous once the length field needs 4 bytes): frames larger than 16 kB, monitor only
	g.doSplitCrypto(&wire.CryptoFrame{Offset: 0, Data: make([]byte, 20000)}, 16390, true)
	for ms := protocol.ByteCount(16380); ms <= 16400; ms++ {
		g.doSplitCrypto(&wire.CryptoFrame{Offset: protocol.ByteCount(r.Pick(0, 63, 64, 16384)), Data: make([]byte, 16300+r.Intn(400))}, ms, true)
	}
	g.maxDataLenCases()
}

// MaxDataLen alone, for every maxSize up to the varint range (no data involved): both sides of the
// points where the length field grows (63/64, 16383/16384, 2^30), for STREAM, CRYPTO and DATAGRAM
func (g *frGen) maxDataLenCases() {
	r := g.r
	v := protocol.Version1
	sizes := []protocol.ByteCount{}
	for _, c := range []int64{0, 2, 64, 16384, 1 << 30, 1<<62 - 20} {
		for d := int64(-2); d <= 14; d++ {
			if c+d >= 0 {
				sizes = append(sizes, protocol.ByteCount(c+d))
			}
		}
	}
	for i := 0; i < 12; i++ {
		sizes = append(sizes, protocol.ByteCount(g.vv()))
	}
	check := func(kind int, sid, off uint64, dlp bool, ms, got protocol.ByteCount, lengthOf func(n protocol.ByteCount) protocol.ByteCount) {
		fmt.Fprintf(g.w, "CASE 1 (MaxDataLenCase %d %d %d %s %d %d)\n", kind, sid, off, u.B(dlp), ms, got)
		g.dist["maxdatalen"]++
		detail := fmt.Sprintf("kind=%d sid=%d off=%d dlp=%v maxSize=%d MaxDataLen=%d", kind, sid, off, dlp, ms, got)
		if got < 0 || got > ms {
			g.monfail("frames/split", "MaxDataLen out of range", detail)
			return
		}
		if got > 0 && lengthOf(got) > ms {
			g.monfail("frames/maxdatalen-overshoot-large", fmt.Sprintf("MaxDataLen(%d)=%d gives a frame of %d bytes", ms, got, lengthOf(got)), detail)
		}
		if uint64(got)+1 <= fv8 && lengthOf(got+1) <= ms {
			g.monfail("frames/split", fmt.Sprintf("MaxDataLen(%d)=%d is not maximal", ms, got), detail)
		}
	}
	vl := func(n protocol.ByteCount) protocol.ByteCount {
		switch {
		case uint64(n) <= fv1:
			return 1
		case uint64(n) <= fv2:
			return 2
		case uint64(n) <= fv4:
			return 4
		}
		return 8
	}
	for _, ms := range sizes {
		func() {
			defer func() {
				if e := recover(); e != nil {
					g.monfail("frames/panic", fmt.Sprintf("MaxDataLen panicked: %v", e), fmt.Sprintf("maxSize=%d", ms))
				}
			}()
			sid, off, dlp := g.vv(), g.vv(), r.Chance(3, 4)
			if r.Chance(1, 4) {
				off = 0
			}
			sf := &wire.StreamFrame{StreamID: protocol.StreamID(sid), Offset: protocol.ByteCount(off), DataLenPresent: dlp}
			hdr := sf.Length(v) // no data: header (+ 1 byte of length field)
			if dlp {
				hdr--
			}
			check(0, sid, off, dlp, ms, sf.MaxDataLen(ms, v), func(n protocol.ByteCount) protocol.ByteCount {
				if dlp {
					return hdr + vl(n) + n
				}
				return hdr + n
			})
			cf := &wire.CryptoFrame{Offset: protocol.ByteCount(off)}
			ch := cf.Length(v) - 1
			check(1, 0, off, true, ms, cf.MaxDataLen(ms), func(n protocol.ByteCount) protocol.ByteCount { return ch + vl(n) + n })
			df := &wire.DatagramFrame{DataLenPresent: dlp}
			check(2, 0, 0, dlp, ms, df.MaxDataLen(ms, v), func(n protocol.ByteCount) protocol.ByteCount {
				if dlp {
					return 1 + vl(n) + n
				}
				return 1 + n
			})
		}()
	}
}

// ---------------------------------------------------------------------------------------
// ACK truncation
// ---------------------------------------------------------------------------------------

func (g *frGen) truncCases(n int) {
	r := g.r
	v := protocol.Version1
	for i := 0; i < n; i++ {
		af := g.mkFrame(3+r.Intn(2), -1, 0).(*wire.AckFrame)
		if r.Chance(2, 3) {
			af.AckRanges = g.ackRanges(int(r.Pick(2, 5, 20, 40, 64, 70)), g.vv()|1<<uint(r.Range(10, 61)))
		}
		one := &wire.AckFrame{AckRanges: af.AckRanges[:1], DelayTime: af.DelayTime, ECT0: af.ECT0, ECT1: af.ECT1, ECNCE: af.ECNCE}
		minLen := one.Length(v)
		full := af.Length(v)
		var ms protocol.ByteCount
		switch r.Intn(4) {
		case 0:
			ms = minLen + protocol.ByteCount(r.Intn(20))
		case 1:
			ms = full - 3 + protocol.ByteCount(r.Intn(6))
		case 2:
			ms = minLen + protocol.ByteCount(r.Intn(int(full-minLen)+1))
		default:
			ms = protocol.ByteCount(r.Pick(1000, 1200, 1252, 1452)) - protocol.ByteCount(r.Intn(300))
		}
		if ms < minLen {
			ms = minLen
		}
		detail := fmt.Sprintf("maxSize=%d frame=%s", ms, wire.VerifDumpFrame(af))
		func() {
			defer func() {
				if e := recover(); e != nil {
					g.monfail("frames/panic", fmt.Sprintf("AckFrame.Truncate panicked: %v", e), detail)
				}
			}()
			k := wire.VerifNumEncodableAckRanges(af, ms)
			fmt.Fprintf(g.w, "CASE 1 (AckTruncCase %s %d %d)\n", wire.VerifDumpFrame(af), ms, k)
			g.dist["acktrunc"]++
			c := &wire.AckFrame{AckRanges: append([]wire.AckRange{}, af.AckRanges...), DelayTime: af.DelayTime, ECT0: af.ECT0, ECT1: af.ECT1, ECNCE: af.ECNCE}
			c.Truncate(ms, v)
			if len(c.AckRanges) < 1 || len(c.AckRanges) > 64 || len(c.AckRanges) > len(af.AckRanges) {
				g.monfail("frames/truncate", fmt.Sprintf("Truncate leaves %d ranges", len(c.AckRanges)), detail)
				return
			}
			if c.Length(v) > ms {
				g.monfail("frames/truncate", fmt.Sprintf("truncated ACK has %d bytes", c.Length(v)), detail)
			}
			for j := range c.AckRanges {
				if c.AckRanges[j] != af.AckRanges[j] {
					g.monfail("frames/truncate", "Truncate changed a range", detail)
				}
			}
			// maximality: one more range would not fit
			if len(c.AckRanges) < len(af.AckRanges) && len(c.AckRanges) < 64 {
				d := &wire.AckFrame{AckRanges: af.AckRanges[:len(c.AckRanges)+1], DelayTime: af.DelayTime, ECT0: af.ECT0, ECT1: af.ECT1, ECNCE: af.ECNCE}
				if d.Length(v) <= ms {
					g.monfail("frames/truncate", fmt.Sprintf("Truncate keeps %d ranges although %d fit", len(c.AckRanges), len(c.AckRanges)+1), detail)
				}
			}
		}()
	}
}

// ---------------------------------------------------------------------------------------
// byte strings
// ---------------------------------------------------------------------------------------

func (g *frGen) typeSweep(thorough bool) {
	r := g.r
	body := func() []byte {
		if r.Chance(1, 3) {
			// a plausible body: a few small varints then bytes
			b := []byte{}
			for i := 0; i < 5; i++ {
				b = append(b, byte(r.Intn(64)))
			}
			return append(b, r.Bytes(24)...)
		}
		return r.Bytes(r.Range(0, 30))
	}
	for t := 0; t < 256; t++ {
		for li, lvl := range frLevels {
			nc := 1
			if thorough {
				nc = 8
			}
			for k := 0; k < nc; k++ {
				m := (t + li + k) % 8
				if thorough {
					m = k
				}
				c := frCfg{dg: m&1 != 0, rsa: m&2 != 0, af: m&4 != 0, exp: 3}
				var in []byte
				switch {
				case t < 64:
					in = append([]byte{byte(t)}, body()...)
				case t < 128: // two-byte varint encodings of 0..63 and of 0x40..: 0x40|hi, lo
					in = append([]byte{0x40, byte(t - 64)}, body()...)
				case t < 192: // 4-byte
					in = append([]byte{0x80, 0, 0, byte(t)}, body()...)
				default:
					in = append([]byte{0x40, byte(t)}, body()...)
				}
				g.emitParse(c, lvl, frVersions[t%2], in, "type-sweep")
			}
		}
	}
	// extension types and the two-byte encoding of every one-byte-valued type, all flag combinations
	for _, t := range []int{0x1f, 0x24, 0x30, 0x31, 0xaf, 0x1e, 0x1d, 0x1c} {
		for _, lvl := range frLevels {
			for m := 0; m < 8; m++ {
				c := frCfg{dg: m&1 != 0, rsa: m&2 != 0, af: m&4 != 0, exp: 3}
				in := append([]byte{0x40, byte(t)}, body()...)
				if t < 64 && m%2 == 0 {
					in = in[1:]
					in[0] = byte(t)
				}
				g.emitParse(c, lvl, protocol.Version1, in, "type-sweep-ext")
			}
		}
	}
	// padding prefixes
	for k := 0; k < 12; k++ {
		in := append(make([]byte, k), 0x01)
		if k%3 == 2 {
			in = make([]byte, k) // only padding
		}
		if k%4 == 3 {
			in = append(append(make([]byte, k), 0x40, 0x00), 0x1e) // PADDING as a 2-byte varint
		}
		g.emitParse(frCfg{exp: 3}, frLevels[k%4], protocol.Version1, in, "padding")
	}
}

// hand-assembled frames on both sides of every cross-field rule (limit-1, limit, limit+1)
func (g *frGen) relationalCases() {
	r := g.r
	va := func(b []byte, v uint64) []byte {
		switch {
		case v <= fv1:
			return append(b, byte(v))
		case v <= fv2:
			return append(b, byte(v>>8)|0x40, byte(v))
		case v <= fv4:
			return append(b, byte(v>>24)|0x80, byte(v>>16), byte(v>>8), byte(v))
		}
		return append(b, byte(v>>56)|0xc0, byte(v>>48), byte(v>>40), byte(v>>32), byte(v>>24), byte(v>>16), byte(v>>8), byte(v))
	}
	full := frCfg{dg: true, rsa: true, af: true, exp: 3}
	emit := func(in []byte, wantOK bool, what string) {
		in = append(in, r.Bytes(r.Intn(3))...)
		f, cls, _ := g.emitParse(full, protocol.Encryption1RTT, protocol.Version1, in, "relational")
		if wantOK && cls != 0 {
			g.monfail("frames/roundtrip", fmt.Sprintf("%s: a frame on the allowed side of the rule is refused (class %d)", what, cls), fmt.Sprintf("input=%x", in))
		}
		if !wantOK && cls == 0 {
			g.monfail("frames/reject", what+": accepted "+wire.VerifDumpFrame(f), fmt.Sprintf("input=%x", in))
		}
	}
	bases := []uint64{0, 1, 5, fv1 - 1, fv1, fv1 + 1, 1000, fv2, fv2 + 1, fv4, fv4 + 1, 1 << 40, fv8 - 1}
	for _, x := range bases {
		for d := -1; d <= 1; d++ {
			y := int64(x) + int64(d)
			if y < 0 || uint64(y) > fv8 {
				continue
			}
			// ACK: first range length vs largest acked
			emit(va(va(va(va([]byte{0x02}, x), 9), 0), uint64(y)), uint64(y) <= x, "ACK first range <= largest acked")
			// ACK: second range: gap+2 vs smallest (first range 0 long, so smallest = x)
			if y >= 2 {
				emit(va(va(va(va(va(va([]byte{0x02}, x), 9), 1), 0), uint64(y-2)), 0), uint64(y) <= x, "ACK gap+2 <= smallest")
			}
			// ACK: second range length vs its largest (gap 0: largest = x-2)
			if x >= 2 {
				emit(va(va(va(va(va(va([]byte{0x02}, x), 9), 1), 0), 0), uint64(y)), y <= int64(x)-2, "ACK range length <= range largest")
			}
			// NEW_CONNECTION_ID: retire prior to vs sequence number
			nc := va(va([]byte{0x18}, x), uint64(y))
			nc = append(append(append(nc, 4), r.Bytes(4)...), r.Bytes(16)...)
			emit(nc, uint64(y) <= x, "NEW_CONNECTION_ID retire prior to <= sequence number")
			// RESET_STREAM_AT: reliable size vs final size
			emit(va(va(va(va([]byte{0x24}, 4), 7), x), uint64(y)), uint64(y) <= x, "RESET_STREAM_AT reliable size <= final size")
		}
	}
	// stream counts around 2^60
	for _, t := range []byte{0x12, 0x13, 0x16, 0x17} {
		for d := -1; d <= 1; d++ {
			emit(va([]byte{t}, uint64(int64(1<<60)+int64(d))), d <= 0, "stream count <= 2^60")
		}
	}
	// STREAM: offset + length around 2^62-1
	for _, n := range []int{0, 1, 5, 64, 200} {
		for d := -1; d <= 1; d++ {
			off := int64(fv8) - int64(n) + int64(d)
			if off < 0 || uint64(off) > fv8 {
				continue
			}
			in := va(va(va([]byte{0x0e}, 8), uint64(off)), uint64(n))
			emit(append(in, r.Bytes(n)...), d <= 0, "STREAM offset+length <= 2^62-1")
			in = va(va([]byte{0x0c}, 8), uint64(off)) // without length: the data is the rest of the packet
			g.emitParse(full, protocol.Encryption1RTT, protocol.Version1, append(in, r.Bytes(n)...), "relational")
		}
	}
	// NEW_CONNECTION_ID: connection ID length 0, 1, 20, 21
	for _, l := range []int{0, 1, 19, 20, 21, 255} {
		nc := append(va(va([]byte{0x18}, 9), 3), byte(l))
		nc = append(append(nc, r.Bytes(l)...), r.Bytes(16)...)
		emit(nc, l >= 1 && l <= 20, "NEW_CONNECTION_ID connection ID length in 1..20")
	}
	// length fields = what is left, one more, one less (STREAM, CRYPTO, DATAGRAM, NEW_TOKEN, CONNECTION_CLOSE)
	for _, n := range []int{0, 1, 2, 63, 64, 65, 127, 128, 129} {
		for d := -1; d <= 1; d++ {
			l := n + d
			if l < 0 {
				continue
			}
			data := r.Bytes(n)
			for _, hd := range [][]byte{{0x0a, 0x04}, {0x06, 0x00}, {0x31}, {0x07}, {0x1c, 0x0a, 0x00}, {0x1d, 0x0a}} {
				in := append(va(append([]byte{}, hd...), uint64(l)), data...)
				f, cls, consumed := g.emitParse(full, protocol.Encryption1RTT, protocol.Version1, in, "relational")
				ok := l <= n && !(hd[0] == 0x07 && l == 0)
				if ok != (cls == 0) {
					g.monfail("frames/reject", fmt.Sprintf("length field %d with %d bytes left: class %d", l, n, cls), fmt.Sprintf("input=%x", in))
				}
				if cls == 0 && consumed != len(in)-(n-l) {
					g.monfail("frames/consumed", fmt.Sprintf("consumed %d, frame has %d bytes (%s)", consumed, len(in)-(n-l), wire.VerifDumpFrame(f)), fmt.Sprintf("input=%x", in))
				}
			}
		}
	}
}

// ---------------------------------------------------------------------------------------
// sequences on ONE long-lived FrameParser (a connection has exactly one: it reuses a single
// AckFrame, and STREAM frames come from / go back to a sync.Pool)
// ---------------------------------------------------------------------------------------

// what one parse yields, as comparable text: class, consumed, value, Length(), re-encoding
func frObs(f wire.Frame, cls, consumed int, v protocol.Version) (s string) {
	defer func() {
		if e := recover(); e != nil {
			s += fmt.Sprintf(" PANIC(%v)", e)
		}
	}()
	s = fmt.Sprintf("class=%d consumed=%d", cls, consumed)
	if f == nil {
		return s
	}
	s += " value=" + wire.VerifDumpFrame(f) + fmt.Sprintf(" Length=%d", f.Length(v))
	if sf, ok := f.(*wire.StreamFrame); ok && len(sf.Data) == 0 && !sf.Fin {
		return s
	}
	b, err := f.Append(nil, v)
	if err != nil {
		return s + " AppendErr=" + err.Error()
	}
	return s + fmt.Sprintf(" reenc=%x", b)
}

// parse a whole payload frame by frame the way connection.handleFrames does, on the long-lived
// parser p, and compare every step with a fresh parser on the same remaining bytes
func (g *frGen) runPayload(p *wire.FrameParser, c frCfg, lvl protocol.EncryptionLevel, v protocol.Version, payload []byte, history *[]string) {
	rem := payload
	for k := 0; len(rem) > 0 && k < 12; k++ {
		in := append([]byte{}, rem...) // exact capacity
		fl, cl, nl := g.emitParseWith(p, c, lvl, v, in, "sequence")
		obsL := frObs(fl, cl, nl, v)
		ff, cf, nf, ok := g.parse(c, lvl, v, append([]byte{}, in...))
		if ok {
			if obsF := frObs(ff, cf, nf, v); obsF != obsL {
				g.monfail("frames/parser-state", fmt.Sprintf("frame %d of a payload parsed on a long-lived FrameParser differs from the same bytes on a fresh parser: long-lived {%s} fresh {%s}", k, obsL, obsF),
					fmt.Sprintf("cfg=%s lvl=%d frame_bytes=%x parsed_before=[%s]", frCfgStr(c), lvl, in, joinStr(*history)))
			}
		}
		*history = append(*history, fmt.Sprintf("lvl%d:%x", lvl, in[:min(max(nl, 0), len(in))]))
		if len(*history) > 8 {
			*history = (*history)[len(*history)-8:]
		}
		g.dist["sequence-frames"]++
		if sf, ok := fl.(*wire.StreamFrame); ok {
			sf.PutBack() // as the receive stream does once the data is consumed
		}
		if sf, ok := ff.(*wire.StreamFrame); ok {
			sf.PutBack()
		}
		if cl != 0 || nl <= 0 || nl > len(rem) {
			return
		}
		rem = rem[nl:]
	}
}

func joinStr(xs []string) string {
	s := ""
	for i, x := range xs {
		if i > 0 {
			s += " "
		}
		s += x
	}
	return s
}

func (g *frGen) sequenceCases(n int) {
	r := g.r
	v := protocol.Version1
	enc := func(f wire.Frame) []byte {
		b, err := f.Append(nil, v)
		if err != nil {
			return []byte{0x01}
		}
		return b
	}
	ack := func(ecn bool, ranges int) wire.Frame {
		k := 3
		if ecn {
			k = 4
		}
		af := g.mkFrame(k, -1, 0).(*wire.AckFrame)
		af.AckRanges = g.ackRanges(ranges, g.vv()|1<<uint(r.Range(12, 40)))
		if ecn {
			af.ECT0, af.ECT1, af.ECNCE = uint64(r.Range(1, 70)), g.small(), uint64(r.Intn(3))
		}
		return af
	}
	stream := func(n int) wire.Frame {
		return &wire.StreamFrame{StreamID: protocol.StreamID(g.small()), Offset: protocol.ByteCount(g.small()), Data: r.Bytes(n), Fin: r.Bool(), DataLenPresent: true}
	}
	// scripted payloads: the state a reused object could leak from one frame into the next
	scripts := [][]wire.Frame{
		{ack(true, 1), ack(false, 1)},                                  // ECN counts must not survive into a plain ACK
		{ack(true, 3), &wire.PingFrame{}, ack(false, 2), ack(false, 1)}, // ... nor across other frames
		{ack(false, 30), ack(false, 1)},                                // many ranges, then few
		{ack(true, 64), ack(true, 2), ack(false, 5)},
		{ack(false, 1), ack(true, 1), ack(false, 1)},
		{stream(300), stream(130), stream(5), stream(128)}, // pooled buffers: long data, then shorter
		{stream(1400), stream(200), ack(true, 2), stream(129), ack(false, 2)},
		{&wire.CryptoFrame{Offset: 5, Data: r.Bytes(50)}, ack(true, 2), &wire.CryptoFrame{Offset: 55, Data: r.Bytes(3)}, ack(false, 1)},
		{&wire.DatagramFrame{DataLenPresent: true, Data: r.Bytes(40)}, &wire.DatagramFrame{DataLenPresent: true, Data: r.Bytes(2)}, &wire.DatagramFrame{Data: r.Bytes(10)}},
		{&wire.ConnectionCloseFrame{ErrorCode: 7, FrameType: 3, ReasonPhrase: "a longer reason phrase"}, &wire.ConnectionCloseFrame{IsApplicationError: true, ErrorCode: 1}},
		{&wire.ResetStreamFrame{StreamID: 4, ErrorCode: 1, FinalSize: 100, ReliableSize: 50}, &wire.ResetStreamFrame{StreamID: 8, ErrorCode: 2, FinalSize: 10}},
		{&wire.NewTokenFrame{Token: r.Bytes(40)}, &wire.NewTokenFrame{Token: r.Bytes(3)}},
	}
	for si, sc := range scripts {
		c := frCfg{dg: true, rsa: true, af: true, exp: uint8(r.Pick(3, 3, 10))}
		p := c.parser()
		var hist []string
		var payload []byte
		for _, f := range sc {
			if r.Chance(1, 3) {
				payload = append(payload, make([]byte, r.Range(1, 3))...) // PADDING in between
			}
			payload = append(payload, enc(f)...)
		}
		g.runPayload(p, c, protocol.Encryption1RTT, v, payload, &hist)
		// the same parser, next packets: an error path (truncated ACK_ECN / STREAM) must not poison what follows
		bad := enc(ack(true, 4))
		g.runPayload(p, c, protocol.Encryption1RTT, v, bad[:len(bad)-1-r.Intn(3)], &hist)
		g.runPayload(p, c, protocol.Encryption1RTT, v, append(enc(ack(false, 2)), enc(sc[si%len(sc)])...), &hist)
	}
	// random sequences: several packets of 2-6 frames on one parser, levels interleaved
	for i := 0; i < n; i++ {
		c := g.cfg()
		c.dg, c.rsa, c.af = true, true, true
		p := c.parser()
		var hist []string
		for pk := 0; pk < r.Range(2, 4); pk++ {
			if pk > 0 && r.Chance(1, 3) { // the connection sets the peer's exponent once the handshake is done
				c.exp = uint8(r.Pick(0, 3, 8, 20))
				p.SetAckDelayExponent(c.exp)
			}
			lvl := protocol.Encryption1RTT
			if r.Chance(1, 4) {
				lvl = frLevels[r.Intn(2)] // Initial / Handshake: the default exponent applies
			}
			var payload []byte
			for k := r.Range(2, 6); k > 0; k-- {
				var f wire.Frame
				switch {
				case lvl != protocol.Encryption1RTT:
					f = []wire.Frame{ack(false, r.Range(1, 4)), ack(true, r.Range(1, 4)), &wire.PingFrame{}, &wire.CryptoFrame{Offset: protocol.ByteCount(g.small()), Data: r.Bytes(r.Intn(40))}}[r.Intn(4)]
				case r.Chance(2, 5):
					f = ack(r.Bool(), int(r.Pick(1, 1, 2, 5, 20, 64)))
				case r.Chance(1, 3):
					f = stream(int(r.Pick(0, 1, 50, 127, 128, 129, 400)))
					if len(f.(*wire.StreamFrame).Data) == 0 {
						f.(*wire.StreamFrame).Fin = true
					}
				default:
					f = g.mkFrame(r.Intn(frKinds+1), -1, 0)
					if sf, ok := f.(*wire.StreamFrame); ok {
						sf.DataLenPresent = true
						if len(sf.Data) > 400 {
							sf.Data = sf.Data[:400]
						}
					}
					if df, ok := f.(*wire.DatagramFrame); ok {
						df.DataLenPresent = true
					}
				}
				e := enc(f)
				if r.Chance(1, 10) {
					e = g.mutate(e)
				}
				payload = append(payload, e...)
			}
			g.runPayload(p, c, lvl, v, payload, &hist)
		}
	}
}

// ---------------------------------------------------------------------------------------
// exhaustive small universes (thorough tier): every 1- and 2-byte payload at every level goes through
// the implementation AND the model; every 3-byte payload goes through the implementation only
// (monitors: no panic, consumed within the input, value rules, Length() = len(Append) <= consumed)
// ---------------------------------------------------------------------------------------
func (g *frGen) exhaustiveCases() {
	full := frCfg{dg: true, rsa: true, af: true, exp: 3}
	for _, lvl := range frLevels {
		for a := 0; a < 256; a++ {
			g.emitParse(full, lvl, protocol.Version1, []byte{byte(a)}, "exhaustive-1")
			for b := 0; b < 256; b++ {
				g.emitParse(full, lvl, protocol.Version1, []byte{byte(a), byte(b)}, "exhaustive-2")
			}
		}
	}
	v := protocol.Version1
	buf := make([]byte, 3)
	for _, lvl := range frLevels {
		p := full.parser()
		for x := 0; x < 1<<24; x++ {
			buf[0], buf[1], buf[2] = byte(x>>16), byte(x>>8), byte(x)
			in := append(make([]byte, 0, 3), buf...)
			func() {
				defer func() {
					if e := recover(); e != nil {
						g.monfail("frames/panic", fmt.Sprintf("parser panicked: %v", e), fmt.Sprintf("lvl=%d input=%x", lvl, in))
					}
				}()
				f, lt, lb, _, err := wire.VerifParseNext(p, in, lvl, v)
				if err != nil {
					return
				}
				n := lt + lb
				detail := fmt.Sprintf("lvl=%d input=%x", lvl, in)
				if n <= 0 || n > 3 {
					g.monfail("frames/consumed", fmt.Sprintf("consumed %d of 3 bytes", n), detail)
				}
				if why := frParsedInvalid(f); why != "" {
					g.monfail("frames/reject", "parser accepted a frame with "+why, detail)
				}
				if sf, ok := f.(*wire.StreamFrame); ok {
					if len(sf.Data) == 0 && !sf.Fin {
						return
					}
					defer sf.PutBack()
				}
				b2, aerr := f.Append(nil, v)
				if aerr != nil {
					g.monfail("frames/reencode", "Append of a parsed frame fails: "+aerr.Error(), detail)
					return
				}
				if protocol.ByteCount(len(b2)) != f.Length(v) || len(b2) > n {
					g.monfail("frames/length", fmt.Sprintf("parsed %s: len(Append)=%d, Length()=%d, consumed %d", frName(f), len(b2), f.Length(v), n), detail)
				}
			}()
		}
		g.dist["exhaustive-3 (implementation only)"] += 1 << 24
	}
}

// ---------------------------------------------------------------------------------------
// non-minimal varints (RFC 9000 section 16: a value may be encoded in more bytes than necessary):
// every varint field of every frame kind, each independently 1/2/4/8 bytes wide where the value fits.
// The parser must return the same frame as for the shortest encoding and consume exactly the bytes
// the encoding occupies, so that the NEXT frame is found where it starts.
// ---------------------------------------------------------------------------------------

type frItem struct {
	isVar bool
	v     uint64
	raw   []byte
}

func frV(v uint64) frItem    { return frItem{isVar: true, v: v} }
func frRaw(b []byte) frItem  { return frItem{raw: b} }
func frMinW(v uint64) int {
	switch {
	case v <= fv1:
		return 1
	case v <= fv2:
		return 2
	case v <= fv4:
		return 4
	}
	return 8
}

func frAppendW(b []byte, v uint64, w int) []byte {
	switch w {
	case 1:
		return append(b, byte(v))
	case 2:
		return append(b, byte(v>>8)|0x40, byte(v))
	case 4:
		return append(b, byte(v>>24)|0x80, byte(v>>16), byte(v>>8), byte(v))
	}
	return append(b, byte(v>>56)|0xc0, byte(v>>48), byte(v>>40), byte(v>>32), byte(v>>24), byte(v>>16), byte(v>>8), byte(v))
}

// the wire image of a frame as a list of varint fields and raw byte runs (first item: the type)
func frItems(fr wire.Frame) []frItem {
	switch f := fr.(type) {
	case *wire.PingFrame:
		return []frItem{frV(0x1)}
	case *wire.HandshakeDoneFrame:
		return []frItem{frV(0x1e)}
	case *wire.ImmediateAckFrame:
		return []frItem{frV(0x1f)}
	case *wire.AckFrame:
		ecn := f.ECT0 > 0 || f.ECT1 > 0 || f.ECNCE > 0
		t := uint64(0x2)
		if ecn {
			t = 0x3
		}
		rs := f.AckRanges
		if len(rs) > 64 {
			rs = rs[:64]
		}
		it := []frItem{frV(t), frV(uint64(rs[0].Largest)), frV(uint64(f.DelayTime.Nanoseconds() / 8000)), frV(uint64(len(rs) - 1)), frV(uint64(rs[0].Largest - rs[0].Smallest))}
		for i := 1; i < len(rs); i++ {
			it = append(it, frV(uint64(rs[i-1].Smallest-rs[i].Largest-2)), frV(uint64(rs[i].Largest-rs[i].Smallest)))
		}
		if ecn {
			it = append(it, frV(f.ECT0), frV(f.ECT1), frV(f.ECNCE))
		}
		return it
	case *wire.ResetStreamFrame:
		if f.ReliableSize > 0 {
			return []frItem{frV(0x24), frV(uint64(f.StreamID)), frV(uint64(f.ErrorCode)), frV(uint64(f.FinalSize)), frV(uint64(f.ReliableSize))}
		}
		return []frItem{frV(0x4), frV(uint64(f.StreamID)), frV(uint64(f.ErrorCode)), frV(uint64(f.FinalSize))}
	case *wire.StopSendingFrame:
		return []frItem{frV(0x5), frV(uint64(f.StreamID)), frV(uint64(f.ErrorCode))}
	case *wire.CryptoFrame:
		return []frItem{frV(0x6), frV(uint64(f.Offset)), frV(uint64(len(f.Data))), frRaw(f.Data)}
	case *wire.NewTokenFrame:
		return []frItem{frV(0x7), frV(uint64(len(f.Token))), frRaw(f.Token)}
	case *wire.StreamFrame:
		t := uint64(0x8)
		if f.Fin {
			t |= 1
		}
		if f.DataLenPresent {
			t |= 2
		}
		it := []frItem{frV(0), frV(uint64(f.StreamID))}
		if f.Offset != 0 {
			t |= 4
			it = append(it, frV(uint64(f.Offset)))
		}
		it[0] = frV(t)
		if f.DataLenPresent {
			it = append(it, frV(uint64(len(f.Data))))
		}
		return append(it, frRaw(f.Data))
	case *wire.MaxDataFrame:
		return []frItem{frV(0x10), frV(uint64(f.MaximumData))}
	case *wire.MaxStreamDataFrame:
		return []frItem{frV(0x11), frV(uint64(f.StreamID)), frV(uint64(f.MaximumStreamData))}
	case *wire.MaxStreamsFrame:
		t := uint64(0x12)
		if f.Type == protocol.StreamTypeUni {
			t = 0x13
		}
		return []frItem{frV(t), frV(uint64(f.MaxStreamNum))}
	case *wire.DataBlockedFrame:
		return []frItem{frV(0x14), frV(uint64(f.MaximumData))}
	case *wire.StreamDataBlockedFrame:
		return []frItem{frV(0x15), frV(uint64(f.StreamID)), frV(uint64(f.MaximumStreamData))}
	case *wire.StreamsBlockedFrame:
		t := uint64(0x16)
		if f.Type == protocol.StreamTypeUni {
			t = 0x17
		}
		return []frItem{frV(t), frV(uint64(f.StreamLimit))}
	case *wire.NewConnectionIDFrame:
		return []frItem{frV(0x18), frV(f.SequenceNumber), frV(f.RetirePriorTo), frRaw([]byte{byte(f.ConnectionID.Len())}), frRaw(f.ConnectionID.Bytes()), frRaw(f.StatelessResetToken[:])}
	case *wire.RetireConnectionIDFrame:
		return []frItem{frV(0x19), frV(f.SequenceNumber)}
	case *wire.PathChallengeFrame:
		return []frItem{frV(0x1a), frRaw(f.Data[:])}
	case *wire.PathResponseFrame:
		return []frItem{frV(0x1b), frRaw(f.Data[:])}
	case *wire.ConnectionCloseFrame:
		if f.IsApplicationError {
			return []frItem{frV(0x1d), frV(f.ErrorCode), frV(uint64(len(f.ReasonPhrase))), frRaw([]byte(f.ReasonPhrase))}
		}
		return []frItem{frV(0x1c), frV(f.ErrorCode), frV(f.FrameType), frV(uint64(len(f.ReasonPhrase))), frRaw([]byte(f.ReasonPhrase))}
	case *wire.DatagramFrame:
		if f.DataLenPresent {
			return []frItem{frV(0x31), frV(uint64(len(f.Data))), frRaw(f.Data)}
		}
		return []frItem{frV(0x30), frRaw(f.Data)}
	case *wire.AckFrequencyFrame:
		return []frItem{frV(0xaf), frV(f.SequenceNumber), frV(f.AckElicitingThreshold), frV(uint64(f.RequestMaxAckDelay / time.Microsecond)), frV(uint64(f.ReorderingThreshold))}
	}
	return nil
}

func frEncodeW(items []frItem, width func(i int, min int) int) []byte {
	var b []byte
	vi := 0
	for _, it := range items {
		if !it.isVar {
			b = append(b, it.raw...)
			continue
		}
		b = frAppendW(b, it.v, width(vi, frMinW(it.v)))
		vi++
	}
	return b
}

// one widened encoding of f: value, consumed length, and the frame behind it
func (g *frGen) doWide(f wire.Frame, wide []byte, what string) {
	v := protocol.Version1
	full := frCfg{dg: true, rsa: true, af: true, exp: protocol.AckDelayExponent}
	lvl := protocol.Encryption1RTT
	if why := frMustReject(f); why != "" {
		return
	}
	want := g.expectBack(f, protocol.AckDelayExponent)
	if want == nil {
		return
	}
	selfDelimiting := true
	switch x := f.(type) {
	case *wire.StreamFrame:
		selfDelimiting = x.DataLenPresent
	case *wire.DatagramFrame:
		selfDelimiting = x.DataLenPresent
	}
	in := append([]byte{}, wide...)
	if selfDelimiting {
		in = append(in, 0x01, 0x00) // a PING and a PADDING behind
	}
	detail := fmt.Sprintf("%s frame=%s wide_encoding=%x input=%x", what, wire.VerifDumpFrame(f), wide, in)
	p := full.parser()
	pf, cls, consumed := g.emitParseWith(p, full, lvl, v, in, "wide-varint")
	if cls != 0 {
		g.monfail("frames/consumed-wide", fmt.Sprintf("%s: a valid non-minimal encoding is refused (class %d)", frName(f), cls), detail)
		return
	}
	if !wire.VerifFramesEqual(pf, want) {
		g.monfail("frames/consumed-wide", frName(f)+": a non-minimal encoding parses to "+wire.VerifDumpFrame(pf), detail)
	}
	wantN := len(wide)
	if !selfDelimiting {
		wantN = len(in)
	}
	if consumed != wantN {
		g.monfail("frames/consumed-wide", fmt.Sprintf("%s: consumed %d bytes, the encoding occupies %d", frName(f), consumed, wantN), detail)
		return
	}
	if sf, ok := pf.(*wire.StreamFrame); ok {
		sf.PutBack()
	}
	if selfDelimiting { // the frame behind must be found where it starts
		nf, ncls, nn, ok := g.parseWith(p, full, lvl, v, in[consumed:])
		if _, isPing := nf.(*wire.PingFrame); ok && (ncls != 0 || !isPing || nn != 1) {
			g.monfail("frames/consumed-wide", fmt.Sprintf("%s: the PING behind the frame is not found (class %d, consumed %d)", frName(f), ncls, nn), detail)
		}
	}
	g.dist["wide-varint:"+frName(f)]++
}

func (g *frGen) wideCases(n int) {
	r := g.r
	// table: every kind x every varint field (the type included) widened to every larger width, one at a time
	for k := 0; k <= frKinds; k++ {
		f := g.mkFrame(k, -1, 0)
		if sf, ok := f.(*wire.StreamFrame); ok && len(sf.Data) == 0 {
			sf.Fin = true
		}
		if af, ok := f.(*wire.AckFrame); ok && len(af.AckRanges) > 3 {
			af.AckRanges = af.AckRanges[:3]
		}
		items := frItems(f)
		nv := 0
		for _, it := range items {
			if it.isVar {
				nv++
			}
		}
		for fi := 0; fi < nv; fi++ {
			for _, w := range []int{2, 4, 8} {
				ok := false
				wide := frEncodeW(items, func(i, min int) int {
					if i == fi && w > min {
						ok = true
						return w
					}
					return min
				})
				if ok {
					g.doWide(f, wide, fmt.Sprintf("field %d as %d bytes", fi, w))
				}
			}
		}
		// all fields at 8 bytes
		g.doWide(f, frEncodeW(items, func(i, min int) int { return 8 }), "all fields as 8 bytes")
	}
	// random: each field independently at a random width that fits
	for i := 0; i < n; i++ {
		f := g.mkFrame(r.Intn(frKinds+1), -1, 0)
		if sf, ok := f.(*wire.StreamFrame); ok && len(sf.Data) == 0 {
			sf.Fin = true
		}
		wide := frEncodeW(frItems(f), func(_, min int) int {
			ws := []int{1, 2, 4, 8}
			for {
				if w := ws[r.Intn(4)]; w >= min {
					return w
				}
			}
		})
		g.doWide(f, wide, "random widths")
	}
}

func (g *frGen) mutate(enc []byte) []byte {
	r := g.r
	b := append([]byte{}, enc...)
	if len(b) == 0 {
		return r.Bytes(3)
	}
	switch r.Intn(7) {
	case 0: // truncate
		return b[:r.Intn(len(b))]
	case 1: // flip a byte
		b[r.Intn(len(b))] ^= byte(1 << uint(r.Intn(8)))
	case 2: // random byte
		b[r.Intn(len(b))] = byte(r.U64())
	case 3: // change a varint width prefix early in the frame
		i := r.Intn(min(len(b), 6))
		b[i] = b[i]&0x3f | byte(r.Intn(4))<<6
	case 4: // insert
		i := r.Intn(len(b) + 1)
		b = append(b[:i], append(r.Bytes(r.Range(1, 3)), b[i:]...)...)
	case 5: // delete
		i := r.Intn(len(b))
		b = append(b[:i], b[i+1:]...)
	default: // set a byte to a boundary value
		b[r.Intn(len(b))] = byte(r.Pick(0, 1, 0x3f, 0x40, 0x7f, 0x80, 0xbf, 0xc0, 0xff))
	}
	return b
}

func runFrames(w *bufio.Writer, seed uint64, n int, _ []string) {
	g := &frGen{w: w, r: u.NewRng(seed), dist: map[string]int{}, seen: map[string]bool{}}
	thorough := os.Getenv("VERIF_TIER") == "thorough"
	r := g.r
	var encs [][]byte
	idx := 0
	// (i) structured: every kind x every varint field x every width boundary
	for k := 0; k <= frKinds; k++ {
		nf := frFields(k)
		if nf == 0 {
			for j := 0; j < 3; j++ {
				if e := g.doFrame(g.mkFrame(k, -1, 0), idx); e != nil {
					encs = append(encs, e)
				}
				idx++
			}
			continue
		}
		for fi := 0; fi < nf; fi++ {
			for bi, bv := range frBounds {
				if !thorough && (bi == 3 || bi == 6 || bi == 9 || bi == 12) {
					continue // limit-1 values only in the thorough tier
				}
				if e := g.doFrame(g.mkFrame(k, fi, bv), idx); e != nil && len(e) < 200 {
					encs = append(encs, e)
				}
				idx++
			}
		}
	}
	// random structured frames
	for i := 0; i < n; i++ {
		if e := g.doFrame(g.mkFrame(r.Intn(frKinds+1), -1, 0), idx); e != nil && len(e) < 200 {
			encs = append(encs, e)
		}
		idx++
	}
	// (ii) byte strings
	g.typeSweep(thorough)
	for i := 0; i < n; i++ {
		c := g.cfg()
		g.emitParse(c, frLevels[r.Intn(4)], frVersions[i%2], r.Bytes(r.Range(0, 40)), "random")
	}
	for i := 0; i < 2*n && len(encs) > 0; i++ {
		c := g.cfg()
		lvl := frLevels[r.Intn(4)]
		if r.Chance(2, 3) {
			lvl = protocol.Encryption1RTT
		}
		in := g.mutate(encs[r.Intn(len(encs))])
		if r.Chance(1, 8) { // a second frame behind
			in = append(in, encs[r.Intn(len(encs))]...)
		}
		g.emitParse(c, lvl, frVersions[i%2], in, "mutated")
	}
	// every prefix of some short encodings (truncation handling)
	for i := 0; i < n/10+5 && len(encs) > 0; i++ {
		e := encs[r.Intn(len(encs))]
		if len(e) > 40 {
			continue
		}
		for j := 0; j < len(e); j++ {
			g.emitParse(frCfg{dg: true, rsa: true, af: true, exp: 3}, protocol.Encryption1RTT, protocol.Version1, e[:j], "prefix")
		}
	}
	// hand-written hostile inputs
	for _, h := range [][]byte{
		{0x02, 0x05, 0x00, 0xff, 0xff, 0xff, 0xff, 0xff, 0xff, 0xff, 0xff, 0x00},       // ACK claiming 2^62-1 ranges
		{0x02, 0x05, 0x00, 0x02, 0x01, 0x00, 0x00, 0x01, 0x00},                         // ranges below zero
		{0x02, 0x0a, 0x00, 0x01, 0x02, 0x01, 0x01},                                     // gap: smallest == gap+2 boundary
		{0x02, 0x0a, 0x00, 0x01, 0x02, 0x05, 0x01},                                     // gap+2 > smallest
		{0x02, 0x05, 0xff, 0xff, 0xff, 0xff, 0xff, 0xff, 0xff, 0xff, 0x00, 0x00},       // huge delay (overflow)
		{0x02, 0x05, 0xc4, 0x18, 0x93, 0x74, 0xbc, 0x6a, 0x7e, 0xf9, 0x00, 0x00},       // delay*8*1000 wraps to a positive value
		{0x0a, 0x04, 0xff, 0xff, 0xff, 0xff, 0xff, 0xff, 0xff, 0xff},                   // STREAM len 2^62-1
		{0x0e, 0x04, 0xff, 0xff, 0xff, 0xff, 0xff, 0xff, 0xff, 0xff, 0x01, 0xaa},       // offset 2^62-1 + 1 byte
		{0x0e, 0x04, 0xff, 0xff, 0xff, 0xff, 0xff, 0xff, 0xff, 0xff, 0x00},             // offset 2^62-1 + 0 bytes
		{0x06, 0x00, 0xff, 0xff, 0xff, 0xff, 0xff, 0xff, 0xff, 0xff},                   // CRYPTO len 2^62-1
		{0x1c, 0x01, 0x02, 0xff, 0xff, 0xff, 0xff, 0xff, 0xff, 0xff, 0xff},             // CONNECTION_CLOSE reason len 2^62-1
		{0x07, 0xff, 0xff, 0xff, 0xff, 0xff, 0xff, 0xff, 0xff},                         // NEW_TOKEN len 2^62-1
		{0x31, 0xff, 0xff, 0xff, 0xff, 0xff, 0xff, 0xff, 0xff},                         // DATAGRAM len 2^62-1
		{0x18, 0x01, 0x01, 0x15, 0, 0, 0, 0, 0, 0, 0, 0, 0, 0, 0, 0, 0, 0, 0, 0, 0, 0}, // NEW_CONNECTION_ID len 21
		{0x40, 0xaf, 0x01, 0x02, 0xff, 0xff, 0xff, 0xff, 0xff, 0xff, 0xff, 0xff, 0x01}, // ACK_FREQUENCY delay overflow
		{0x12, 0xd0, 0, 0, 0, 0, 0, 0, 0}, {0x12, 0xd0, 0, 0, 0, 0, 0, 0, 1},           // MAX_STREAMS 2^60, 2^60+1
	} {
		for _, e := range []uint8{0, 3, 20, 63, 64, 255} {
			g.emitParse(frCfg{dg: true, rsa: true, af: true, exp: e}, protocol.Encryption1RTT, protocol.Version1, h, "hostile")
		}
	}
	// STREAM frames around the pool-buffer limits, without and with length
	for _, dl := range []int{127, 128, 129, 1451, 1452, 1453, 1600} {
		for _, t := range []byte{0x08, 0x0a, 0x0d, 0x0f} {
			in := []byte{t, 0x04}
			if t&4 != 0 {
				in = append(in, 0x40, 0x99)
			}
			if t&2 != 0 {
				in = append(in, byte(0x40|dl>>8), byte(dl))
			}
			in = append(in, r.Bytes(dl)...)
			if t&2 != 0 {
				in = append(in, 0x01)
			}
			g.emitParse(frCfg{exp: 3}, protocol.Encryption1RTT, protocol.Version1, in, "stream-pool")
		}
	}
	g.relationalCases()
	g.wideCases(n/2 + 20)
	g.sequenceCases(n/4 + 10)
	if thorough {
		g.exhaustiveCases()
	}
	// (iii) split and truncation
	g.splitCases(n/3 + 30)
	g.truncCases(n/3 + 30)
	keys := make([]string, 0, len(g.dist))
	for k := range g.dist {
		keys = append(keys, k)
	}
	// deterministic order
	for i := range keys {
		for j := i + 1; j < len(keys); j++ {
			if keys[j] < keys[i] {
				keys[i], keys[j] = keys[j], keys[i]
			}
		}
	}
	for _, k := range keys {
		fmt.Fprintf(w, "DIST\t%s\t%d\n", k, g.dist[k])
	}
	fmt.Fprintf(w, "SAMPLE\tstructured frames of %d kinds x varint boundaries %v; byte strings: 256 type bytes x 4 levels, mutated encodings, prefixes, hostile lengths\n", frKinds+1, frBounds)
}
